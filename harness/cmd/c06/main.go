// C06 correspondence driver: builds chains with the real liskbft module and blockchain.Chain, then runs the real
// verifyAggregateCommit / singleCommitValidator / Certify / GetAggregateCommit / certificate.Pool code (verif hooks)
// with real BLS keys.  One JSONL record per scenario: the node's view (BFT heights, BFT parameter store, chain) and
// a list of operations, each with the implementation's observation.  Signatures are reported symbolically
// (which keys signed which certificate); the bytes <-> symbol table is kept here.
package main

import (
	"context"
	"crypto/sha256"
	"encoding/hex"
	"flag"
	"fmt"
	"os"
	"sort"
	"strings"
	"time"

	blst "github.com/supranational/blst/bindings/go"

	"github.com/LiskHQ/lisk-engine/pkg/blockchain"
	"github.com/LiskHQ/lisk-engine/pkg/codec"
	lbytes "github.com/LiskHQ/lisk-engine/pkg/collection/bytes"
	"github.com/LiskHQ/lisk-engine/pkg/consensus"
	"github.com/LiskHQ/lisk-engine/pkg/consensus/certificate"
	"github.com/LiskHQ/lisk-engine/pkg/consensus/liskbft"
	"github.com/LiskHQ/lisk-engine/pkg/crypto"
	"github.com/LiskHQ/lisk-engine/pkg/db"
	"github.com/LiskHQ/lisk-engine/pkg/db/diffdb"
	"github.com/LiskHQ/lisk-engine/pkg/log"
	"github.com/LiskHQ/lisk-engine/pkg/p2p"

	"verifharness/internal/hx"
)

var chainID = []byte{0, 0, 0, 7}

type logAdapter struct{}

func (logAdapter) Debug(string, ...interface{})     {}
func (logAdapter) Info(string, ...interface{})      {}
func (logAdapter) Error(string, ...interface{})     {}
func (logAdapter) Debugf(string, ...interface{})    {}
func (logAdapter) Infof(string, ...interface{})     {}
func (logAdapter) Errorf(string, ...interface{})    {}
func (logAdapter) Warning(string, ...interface{})   {}
func (logAdapter) Warningf(string, ...interface{})  {}
func (l logAdapter) With(...interface{}) log.Logger { return l }

// ---- symbolic signatures: {"k":"e"} empty bytes, {"k":"b"} anything that is not a known signature,
// {"k":"s","p":[[keyIdx, cert...]...]} aggregate of single signatures (keyIdx signs cert)
type sigSym struct {
	K string      `json:"k"`
	P [][6]uint64 `json:"p,omitempty"` // keyIdx, blockcode, height, ts, stateRoot code, validatorsHash code
}

type commitRec struct {
	Block    uint64 `json:"b"`
	Height   uint32 `json:"h"`
	Addr     uint64 `json:"a"`
	Sig      sigSym `json:"s"`
	Internal bool   `json:"i"`
	WF       bool   `json:"wf"`
}

type acRec struct {
	Height uint32 `json:"h"`
	Bits   []int  `json:"bits"`
	Sig    sigSym `json:"s"`
}

type opRec struct {
	T string `json:"t"`
	// verify
	AC  *acRec `json:"ac,omitempty"`
	R   string `json:"r,omitempty"`
	Tag string `json:"tag,omitempty"`
	// scv
	Msg     []commitRec `json:"msg,omitempty"`
	Undecod bool        `json:"undecodable,omitempty"`
	// certify
	From uint32 `json:"from,omitempty"`
	To   uint32 `json:"to,omitempty"`
	Addr uint64 `json:"addr,omitempty"`
	Key  int    `json:"key,omitempty"`
	Err  bool   `json:"err,omitempty"`
	// gac
	G *gacRec `json:"g,omitempty"`
	// cleanup / select / upgrade
	Keep  []uint32    `json:"keep,omitempty"`
	Mhp   uint32      `json:"mhp,omitempty"`
	Limit int         `json:"limit,omitempty"`
	Sel   []commitRec `json:"sel,omitempty"`
	// pool after the op
	PG    []commitRec `json:"pg"`
	PNG   []commitRec `json:"png"`
	Panic string      `json:"panic,omitempty"`
}

type gacRec struct {
	K  string `json:"k"` // ok | err
	AC *acRec `json:"ac,omitempty"`
	V  string `json:"v,omitempty"` // verify result of the output
}

type valRec struct {
	Addr   uint64 `json:"a"`
	Weight uint64 `json:"w"`
	Key    int    `json:"k"`
}
type paramRec struct {
	Height uint32   `json:"h"`
	Thr    uint64   `json:"t"`
	Pre    uint64   `json:"pt"`
	Vals   []valRec `json:"v"`
}
type hdrRec struct {
	Height uint32    `json:"h"`
	Cert   [5]uint64 `json:"c"`
	AC     uint32    `json:"ac"`
}
type scnRec struct {
	K      string      `json:"k"`
	ID     int         `json:"id"`
	Phase  int         `json:"phase"`
	PG0    []commitRec `json:"pg0"`
	PNG0   []commitRec `json:"png0"`
	Keytab []string    `json:"keytab"`
	Mhp    uint32      `json:"mhp"`
	Mhc    uint32      `json:"mhc"`
	Params []paramRec  `json:"params"`
	MsgOK  bool        `json:"msgok"` // Certificate.Sign produces the signature over the LIP certificate message
	Sched  []paramRec  `json:"sched"` // the scenario's own parameter schedule (key = first height in force)
	Chain  []hdrRec    `json:"chain"`
	Ops    []opRec     `json:"ops"`
}

func id32(g uint32) []byte {
	a := make([]byte, 32)
	a[28], a[29], a[30], a[31] = byte(g>>24), byte(g>>16), byte(g>>8), byte(g)
	return a
}
func code32(b []byte) uint64 {
	if len(b) != 32 {
		return 9999
	}
	return uint64(b[28])<<24 | uint64(b[29])<<16 | uint64(b[30])<<8 | uint64(b[31])
}

type scenario struct {
	r        *hx.Rng
	nkeys    int
	pks      [][]byte
	sks      [][]byte
	addrs    [][]byte
	exec     *consensus.Executer
	chain    *blockchain.Chain
	headers  map[uint32]*blockchain.BlockHeader
	idCode   map[string]uint64
	sigTab   map[string]sigSym
	single   map[string][]byte // (key,cert id) -> signature bytes
	tip      uint32
	rec      *scnRec
	id       int
	db       *db.DB
	current  liskbft.BFTValidators
	lastGen  map[string]uint32
	ts0      uint32
	curPre   uint64
	curCert  uint64
	sched    []paramRec
	certOnly map[uint32]bool
	wantID   bool // the next parameter set gets a validator registered with the identity point
	forceID  map[uint32]bool
	idAddr   map[int]bool // validators that were ever registered with the identity point as BLS key
	big      bool         // more than 5 validators: bitmap of several bytes, one heavy validator drives finality
	nrand    int          // random signer subsets per height for big sets
}

func (s *scenario) blockCode(id []byte) uint64 {
	k := hex.EncodeToString(id)
	if c, ok := s.idCode[k]; ok {
		return c
	}
	c := uint64(len(s.idCode) + 1)
	s.idCode[k] = c
	return c
}

func (s *scenario) addrCode(a []byte) uint64 {
	for i, x := range s.addrs {
		if string(x) == string(a) {
			return uint64(i + 1)
		}
	}
	return 90 + uint64(len(a)%7)
}

func (s *scenario) keyIdx(k []byte) int {
	for i, x := range s.pks {
		if string(x) == string(k) {
			return i
		}
	}
	panic("unknown BLS key")
}

func (s *scenario) certOf(h *blockchain.BlockHeader) [5]uint64 {
	return [5]uint64{s.blockCode(h.ID), uint64(h.Height), uint64(h.Timestamp), code32(h.StateRoot), code32(h.ValidatorsHash)}
}

// ---- the certificate message, computed here from the certificate FIELDS as LIP-0061 / LIP-0037 define it, independently
// of Certificate.SigningBytes / Sign / Verify: SHA-256("LSK_CE_" ‖ chainID ‖ encode(blockID(1), height(2), timestamp(3),
// stateRoot(4), validatorsHash(5))) signed with the BLS proof-of-possession ciphersuite.
func varint(x uint64) []byte {
	out := []byte{}
	for x >= 0x80 {
		out = append(out, byte(x)|0x80)
		x >>= 7
	}
	return append(out, byte(x))
}

func certMessage(chain []byte, blockID []byte, height, timestamp uint32, stateRoot, validatorsHash []byte) []byte {
	enc := []byte{}
	bytesField := func(n int, b []byte) {
		enc = append(enc, byte(n<<3|2))
		enc = append(enc, varint(uint64(len(b)))...)
		enc = append(enc, b...)
	}
	bytesField(1, blockID)
	enc = append(enc, byte(2<<3))
	enc = append(enc, varint(uint64(height))...)
	enc = append(enc, byte(3<<3))
	enc = append(enc, varint(uint64(timestamp))...)
	bytesField(4, stateRoot)
	bytesField(5, validatorsHash)
	h := sha256.Sum256(append(append([]byte("LSK_CE_"), chain...), enc...))
	return h[:]
}

var blsDST = []byte("BLS_SIG_BLS12381G2_XMD:SHA-256_SSWU_RO_POP_")

func blsSignIndependent(msg, sk []byte) []byte {
	k := new(blst.SecretKey).Deserialize(sk)
	return new(blst.P2Affine).Sign(k, msg, blsDST).Compress()
}

// signature of key ki over the certificate FIELDS carried by h (h.ID is taken as the block ID as it stands, so a
// certificate with the ID of one block and other fields can be signed), registered in the symbol table
func (s *scenario) signCert(ki int, h *blockchain.BlockHeader) []byte {
	if ki == s.nkeys+1 {
		ki = s.nkeys
	}
	k := fmt.Sprintf("%d/%x/%d/%d/%x/%x", ki, h.ID, h.Height, h.Timestamp, h.StateRoot, h.ValidatorsHash)
	if v, ok := s.single[k]; ok {
		return v
	}
	sig := blsSignIndependent(certMessage(chainID, h.ID, h.Height, h.Timestamp, h.StateRoot, h.ValidatorsHash), s.sks[ki])
	s.single[k] = sig
	ce := s.certOf(h)
	s.sigTab[hex.EncodeToString(sig)] = sigSym{K: "s", P: [][6]uint64{{uint64(ki), ce[0], ce[1], ce[2], ce[3], ce[4]}}}
	return sig
}

// what the implementation signs for the certificate of h must be the signature over the LIP message
func (s *scenario) implSignsLIPMessage(ki int, h *blockchain.BlockHeader) bool {
	c := certificate.NewCertificateFromBlock(h)
	c.Sign(chainID, s.sks[ki])
	return string(c.Signature) == string(s.signCert(ki, h)) && c.Verify(chainID, s.signCert(ki, h), s.pks[ki])
}

func aggregateSigs(sigs [][]byte) []byte {
	ps := make([]*blst.P2Affine, len(sigs))
	for i, b := range sigs {
		ps[i] = new(blst.P2Affine).Uncompress(b)
		if ps[i] == nil {
			return nil
		}
	}
	a := new(blst.P2Aggregate)
	if !a.Aggregate(ps, false) {
		return nil
	}
	return a.ToAffine().Compress()
}

func (s *scenario) sym(sig []byte) sigSym {
	if len(sig) == 0 {
		return sigSym{K: "e"}
	}
	if v, ok := s.sigTab[hex.EncodeToString(sig)]; ok {
		return v
	}
	return sigSym{K: "b"}
}

// aggregate of single signatures (keyIdx over header), registered
func (s *scenario) aggSig(kis []int, hs []*blockchain.BlockHeader) []byte {
	sigs := make([][]byte, len(kis))
	sy := sigSym{K: "s"}
	for i, ki := range kis {
		sigs[i] = s.signCert(ki, hs[i])
		ce := s.certOf(hs[i])
		sy.P = append(sy.P, [6]uint64{uint64(ki), ce[0], ce[1], ce[2], ce[3], ce[4]})
	}
	out := aggregateSigs(sigs)
	s.sigTab[hex.EncodeToString(out)] = sy
	return out
}

func (s *scenario) commitRecOf(v certificate.VerifC06SingleCommit) commitRec {
	return commitRec{Block: s.blockCode(v.BlockID), Height: v.Height, Addr: s.addrCode(v.ValidatorAddress), Sig: s.sym(v.CertificateSignature),
		Internal: v.Internal, WF: len(v.BlockID) == 32 && len(v.ValidatorAddress) == 20 && len(v.CertificateSignature) == 96}
}

func (s *scenario) dumpPool(op *opRec) {
	g, ng := s.exec.VerifC06Pool().VerifC06Dump()
	op.PG, op.PNG = []commitRec{}, []commitRec{}
	for _, v := range g {
		op.PG = append(op.PG, s.commitRecOf(v))
	}
	for _, v := range ng {
		op.PNG = append(op.PNG, s.commitRecOf(v))
	}
}

func mkHeader(height, ts uint32, prev []byte, gen []byte, mhg, mhp uint32, sr, vh uint32, ac *blockchain.AggregateCommit) *blockchain.BlockHeader {
	h := &blockchain.BlockHeader{
		Version: 2, Height: height, Timestamp: ts, PreviousBlockID: prev, GeneratorAddress: gen, MaxHeightGenerated: mhg, MaxHeightPrevoted: mhp,
		TransactionRoot: id32(0), AssetRoot: id32(0), EventRoot: id32(0), StateRoot: id32(sr), ValidatorsHash: id32(vh),
		AggregateCommit: ac, Signature: make([]byte, 64),
	}
	h.Init()
	return h
}

type valSpec struct {
	idx    int
	weight uint64
}

func (s *scenario) randomParams() (uint64, uint64, liskbft.BFTValidators) {
	r := s.r
	if s.big {
		return s.bigParams()
	}
	n := 1 + r.Intn(s.nkeys)
	perm := r.Intn(1000)
	idxs := []int{}
	for i := 0; i < s.nkeys; i++ {
		idxs = append(idxs, (i+perm)%s.nkeys)
	}
	idxs = idxs[:n]
	vals := liskbft.BFTValidators{}
	total := uint64(0)
	mode := r.Intn(4)
	if mode == 3 && (n < 3 || r.Intn(2) == 0) {
		mode = 2
	}
	small := mode == 0
	idAt := -1
	if n >= 2 && (r.Intn(5) == 0 || s.wantID) {
		idAt = r.Intn(n)
		s.wantID = false
	}
	for j, i := range idxs {
		w := uint64(1 + r.Intn(9))
		if small {
			w = uint64(1 + r.Intn(3))
		} else if mode == 3 { // two weights of 2^62 (SetBFTParameters refuses a total that overflows uint64): the sums come close to 2^64
			w = uint64(1 + r.Intn(5))
			if j < 2 {
				w = 1 << 62
			}
		} else if mode == 1 { // pairwise distinct subset sums: every mix-up of weights changes some signer set's weight
			w = uint64(1) << uint((j+perm)%len(idxs))
		} else if r.Intn(8) == 0 {
			w = uint64(1 + r.Intn(1000))
		}
		total += w
		pk := s.pks[i]
		if idAt == j {
			s.idAddr[i] = true
			pk = s.pks[s.nkeys+1] // this validator is registered with the point at infinity as BLS key
		}
		vals = append(vals, liskbft.NewValidator(s.addrs[i], w, pk))
	}
	lo := total/3 + 1
	thr := func() uint64 { return lo + uint64(r.Intn(int(total-lo+1))) }
	pre, cert := thr(), thr()
	// precommit and certificate thresholds close to each other, in both orders, so that signer sets with a weight
	// between the two exist
	switch r.Intn(4) {
	case 0:
		if pre < total {
			cert = pre + 1
		}
	case 1:
		if cert < total {
			pre = cert + 1
		}
	case 2:
		if pre+2 <= total {
			cert = pre + 2
		}
	}
	return pre, cert, vals
}

// bigParams: all (or all but one: the bitmap length changes at multiples of 8) of the keys are validators; validator 0 is
// heavy enough to finalise alone (it generates every block), the others have small weights, the certificate threshold sits
// somewhere among the sums "heavy + some of the others"
func (s *scenario) bigParams() (uint64, uint64, liskbft.BFTValidators) {
	r := s.r
	n := s.nkeys
	if r.Intn(3) == 0 {
		n--
	}
	vals := liskbft.BFTValidators{}
	others := uint64(0)
	ws := make([]uint64, n)
	for i := 1; i < n; i++ {
		ws[i] = uint64(1 + r.Intn(4))
		others += ws[i]
	}
	ws[0] = 3*others + 1
	total := ws[0] + others
	for i := 0; i < n; i++ {
		vals = append(vals, liskbft.NewValidator(s.addrs[i], ws[i], s.pks[i]))
	}
	lo := total/3 + 1
	pre := lo + uint64(r.Intn(int(ws[0]-lo+1)))
	cert := ws[0] + uint64(r.Intn(int(others+1)))
	if r.Intn(4) == 0 {
		cert = lo + uint64(r.Intn(int(total-lo+1)))
	}
	return pre, cert, vals
}

// setParams calls SetBFTParameters and records the scenario's own parameter schedule (what must be in force from
// height key on); an update that changes nothing is not an entry (SetBFTParameters ignores it by specification)
func (s *scenario) setParams(store *diffdb.Database, key uint32, pre, cert uint64, vals liskbft.BFTValidators) {
	must(s.exec.VerifC06LiskBFT().API().SetBFTParameters(store, pre, cert, vals))
	same := s.current != nil && pre == s.curPre && cert == s.curCert && len(vals) == len(s.current)
	if same {
		for i := range vals {
			if string(vals[i].Address()) != string(s.current[i].Address()) || vals[i].BFTWeight() != s.current[i].BFTWeight() ||
				string(vals[i].BLSKey()) != string(s.current[i].BLSKey()) {
				same = false
			}
		}
	}
	s.current, s.curPre, s.curCert = vals, pre, cert
	if same {
		return
	}
	pr := paramRec{Height: key, Thr: cert, Pre: pre, Vals: []valRec{}}
	for _, v := range vals {
		pr.Vals = append(pr.Vals, valRec{Addr: s.addrCode(v.Address()), Weight: v.BFTWeight(), Key: s.keyIdx(v.BLSKey())})
	}
	s.sched = append(s.sched, pr)
}

func must(err error) {
	if err != nil {
		panic(err)
	}
}

func newScenario(r *hx.Rng, id int, nkeys int, length int) *scenario {
	s := &scenario{r: r, idAddr: map[int]bool{}, nkeys: nkeys, big: nkeys > 5, nrand: 14, headers: map[uint32]*blockchain.BlockHeader{}, idCode: map[string]uint64{}, sigTab: map[string]sigSym{},
		single: map[string][]byte{}}
	// one more "key" (index nkeys+1) is appended below: the compressed point at infinity, which a validator may be registered
	// with; it has no secret key — where a signature of such a validator is asked for, the outsider's (index nkeys) is used
	for i := 0; i < nkeys+1; i++ { // the last key is never a validator
		kp := crypto.BLSKeyGen(r.Bytes(32))
		s.pks = append(s.pks, kp.PublicKey)
		s.sks = append(s.sks, kp.PrivateKey)
		a := make([]byte, 20)
		a[0] = byte(i + 1)
		copy(a[1:], r.Bytes(19))
		s.addrs = append(s.addrs, a)
	}
	idKey := make([]byte, 48)
	idKey[0] = 0xc0
	s.pks = append(s.pks, idKey)
	s.sks = append(s.sks, s.sks[nkeys])
	database, err := db.NewInMemoryDB()
	must(err)
	ts0 := uint32(1000000)
	genesis := blockchain.NewGenesisBlock(0, ts0, id32(0), blockchain.BlockAssets{})
	genesis.Header.ValidatorsHash = id32(3)
	genesis.Header.EventRoot = id32(0)
	genesis.Header.StateRoot = id32(1)
	genesis.Init()
	s.chain = blockchain.NewChain(&blockchain.ChainConfig{ChainID: chainID, MaxBlockCache: 400, KeepEventsForHeights: -1})
	s.chain.Init(genesis, database)
	s.exec, err = consensus.VerifC06NewExecuter(context.Background(), s.chain, database, 103, nullLoggerAdapter())
	must(err)
	bft := s.exec.VerifC06LiskBFT()
	store := s.exec.VerifC06ConsensusStore()
	must(bft.InitGenesisState(genesis.Header.Readonly(), store))
	p, c, vals := s.randomParams()
	s.setParams(store, 1, p, c, vals)
	batch := database.NewBatch()
	store.Commit(batch)
	must(s.chain.AddBlock(batch, genesis, nil, 0, false))
	s.headers[0] = genesis.Header
	s.lastGen = map[string]uint32{}
	s.db = database
	s.ts0 = ts0
	s.id = id
	nchanges := r.Intn(4)
	changeAt := map[uint32]bool{}
	for i := 0; i < nchanges; i++ {
		changeAt[uint32(1+r.Intn(length))] = true
	}
	if r.Intn(3) == 0 && length > 3 { // adjacent changes
		x := uint32(1 + r.Intn(length-1))
		changeAt[x], changeAt[x+1] = true, true
	}
	if length > 100 { // a validator-set change inside the 100-block window of a long chain
		changeAt[uint32(length-3-r.Intn(12))] = true
		if r.Intn(2) == 0 {
			changeAt[uint32(length-16-r.Intn(20))] = true
		}
	}
	s.certOnly = map[uint32]bool{}
	s.forceID = map[uint32]bool{}
	if id%2 == 1 && length > 10 { // a validator with the identity point as BLS key inside / next to the certifiable window
		s.forceID[uint32(length-3-r.Intn(6))] = true
	}
	for i := 0; i < 2; i++ { // certificate-threshold-only updates shortly before the tip (inside the certifiable window)
		if length > 6 {
			s.certOnly[uint32(length-2-r.Intn(6))] = true
		}
	}
	s.extend(length, changeAt)
	s.snapshotEnv(0)
	return s
}

// extend the chain by n blocks through the real liskbft module; parameter changes at the listed heights
func (s *scenario) extend(n int, changeAt map[uint32]bool) {
	r := s.r
	bft := s.exec.VerifC06LiskBFT()
	for h := s.tip + 1; h <= s.tip+uint32(n); h++ {
		store := s.exec.VerifC06ConsensusStore()
		prevoted, precommitted, certified, err := bft.API().GetBFTHeights(store)
		must(err)
		gen := s.current[int(h)%len(s.current)].Address()
		if s.big { // the heavy validator generates every block
			for _, v := range s.current {
				if string(v.Address()) == string(s.addrs[0]) {
					gen = v.Address()
				}
			}
		}
		ac := &blockchain.AggregateCommit{Height: certified, AggregationBits: codec.Hex{}, CertificateSignature: codec.Hex{}}
		if precommitted > certified && r.Intn(4) == 0 {
			ac = &blockchain.AggregateCommit{Height: certified + 1 + uint32(r.Intn(int(precommitted-certified))), AggregationBits: codec.Hex{1}, CertificateSignature: codec.Hex{1}}
		}
		last := s.headers[h-1]
		hd := mkHeader(h, s.ts0+10*h, last.ID, gen, s.lastGen[string(gen)], prevoted, 1+h%5, 3, ac)
		must(bft.BeforeTransactionsExecute(hd.Readonly(), store))
		s.lastGen[string(gen)] = h
		if s.forceID[h] && !s.big && s.nkeys >= 2 {
			s.wantID = true
			p, c, vals := s.randomParams()
			for len(vals) < 2 {
				s.wantID = true
				p, c, vals = s.randomParams()
			}
			s.setParams(store, h+1, p, c, vals)
		} else if changeAt[h] {
			p, c, vals := s.randomParams()
			s.setParams(store, h+1, p, c, vals)
		} else if s.certOnly[h] {
			// only the certificate threshold changes (validators and precommit threshold stay)
			total := uint64(0)
			for _, v := range s.current {
				total += v.BFTWeight()
			}
			lo := total/3 + 1
			c := lo + uint64(r.Intn(int(total-lo+1)))
			if c == s.curCert {
				if c < total {
					c++
				} else if c > lo {
					c--
				}
			}
			s.setParams(store, h+1, s.curPre, c, s.current)
		}
		_, precommitted, _, err = bft.API().GetBFTHeights(store)
		must(err)
		batch := s.db.NewBatch()
		store.Commit(batch)
		must(s.chain.AddBlock(batch, &blockchain.Block{Header: hd, Transactions: []*blockchain.Transaction{}, Assets: blockchain.BlockAssets{}}, nil, precommitted, false))
		s.headers[h] = hd
	}
	s.tip += uint32(n)
}

// the node's view at this point of the history; the pool carried over from the previous phase is part of the record
func (s *scenario) snapshotEnv(phase int) {
	bft := s.exec.VerifC06LiskBFT()
	store := s.exec.VerifC06ConsensusStore()
	_, mhp, mhc, err := bft.API().GetBFTHeights(store)
	must(err)
	rec := &scnRec{K: "scn", ID: s.id, Phase: phase, Mhp: mhp, Mhc: mhc}
	for _, k := range s.pks {
		rec.Keytab = append(rec.Keytab, hex.EncodeToString(k))
	}
	for h := uint32(0); h <= s.tip+3; h++ {
		ex, err := bft.API().ExistBFTParameters(store, h)
		must(err)
		if !ex {
			continue
		}
		prm, err := bft.API().GetBFTParameters(store, h)
		must(err)
		pr := paramRec{Height: h, Thr: prm.CertificateThreshold(), Pre: prm.PrecommitThreshold(), Vals: []valRec{}}
		for _, v := range prm.Validators() {
			pr.Vals = append(pr.Vals, valRec{Addr: s.addrCode(v.Address()), Weight: v.BFTWeight(), Key: s.keyIdx(v.BLSKey())})
		}
		rec.Params = append(rec.Params, pr)
	}
	for h := uint32(0); h <= s.tip; h++ {
		hd, err := s.chain.DataAccess().GetBlockHeaderByHeight(h)
		must(err)
		rec.Chain = append(rec.Chain, hdrRec{Height: h, Cert: s.certOf(hd), AC: hd.AggregateCommit.Height})
	}
	op := opRec{}
	s.dumpPool(&op)
	rec.PG0, rec.PNG0 = op.PG, op.PNG
	rec.MsgOK = true
	for _, hh := range []uint32{0, s.tip / 2, s.tip} {
		rec.MsgOK = rec.MsgOK && s.implSignsLIPMessage(int(hh)%s.nkeys, s.headers[hh])
	}
	rec.Sched = append([]paramRec{}, s.sched...)
	s.rec = rec
}

func nullLoggerAdapter() logAdapter { return logAdapter{} }

// ---- operations

func classify(err error) string {
	if err == nil {
		return "accept"
	}
	m := err.Error()
	switch {
	case strings.HasPrefix(m, "aggregate commit aggregation bits or signature is empty"):
		return "emptyfield"
	case strings.HasPrefix(m, "aggregate commit height must be strictly increasing"):
		return "notincreasing"
	case strings.Contains(m, "higher than maxHeightPrecommited"):
		return "aboveprecommitted"
	case strings.Contains(m, "higher than next BFT params"):
		return "abovenext"
	case m == db.ErrDataNotFound.Error():
		return "noheader"
	case m == liskbft.ErrBFTParamsNotFound.Error():
		return "noparams"
	case m == "invalid certificate received":
		return "invalid"
	}
	return "other:" + m
}

func (s *scenario) verify(ac *blockchain.AggregateCommit) (res string) {
	// a slow machine is not an observation of the code: wait longer before calling it a timeout
	for _, limit := range []time.Duration{20 * time.Second, 300 * time.Second} {
		done := make(chan string, 1)
		go func() {
			defer func() {
				if p := recover(); p != nil {
					done <- "panic"
				}
			}()
			done <- classify(s.exec.VerifC06VerifyAggregateCommit(ac))
		}()
		select {
		case res = <-done:
			return res
		case <-time.After(limit):
			res = "timeout"
		}
	}
	return res
}

func bitsToInts(b []byte) []int {
	out := make([]int, len(b))
	for i, x := range b {
		out[i] = int(x)
	}
	return out
}

func (s *scenario) verifyOp(tag string, height uint32, bits []byte, sig []byte) {
	ac := &blockchain.AggregateCommit{Height: height, AggregationBits: lbytes.Copy(bits), CertificateSignature: lbytes.Copy(sig)}
	r := s.verify(ac)
	s.rec.Ops = append(s.rec.Ops, opRec{T: "v", Tag: tag, AC: &acRec{Height: height, Bits: bitsToInts(bits), Sig: s.sym(sig)}, R: r})
}

type sortedVal struct {
	ki   int // index of the registered BLS key in the key table (nkeys+1 = the point at infinity)
	w    uint64
	addr []byte
}

// validators of GetBFTParameters(h) in ascending BLS key order (nil if no parameters)
func (s *scenario) sortedVals(h uint32) []sortedVal {
	prm, err := s.exec.VerifC06LiskBFT().API().GetBFTParameters(s.exec.VerifC06ConsensusStore(), h)
	if err != nil {
		return nil
	}
	out := []sortedVal{}
	for _, v := range prm.Validators() {
		out = append(out, sortedVal{ki: s.keyIdx(v.BLSKey()), w: v.BFTWeight(), addr: v.Address()})
	}
	sort.Slice(out, func(i, j int) bool { return string(s.pks[out[i].ki]) < string(s.pks[out[j].ki]) })
	return out
}

// a header that is not on the chain: same height as the own block, different timestamp / state root
func (s *scenario) foreignHeader(h uint32, variant int) *blockchain.BlockHeader {
	own, ok := s.headers[h]
	if !ok {
		return mkHeader(h, 77, id32(9), s.addrs[0], 0, 0, 2, 3, &blockchain.AggregateCommit{AggregationBits: codec.Hex{}, CertificateSignature: codec.Hex{}})
	}
	ts, sr, vh := own.Timestamp, uint32(code32(own.StateRoot)), uint32(code32(own.ValidatorsHash))
	switch variant % 3 {
	case 0:
		ts++
	case 1:
		sr += 10
	case 2:
		vh += 10
	}
	return mkHeader(h, ts, own.PreviousBlockID, own.GeneratorAddress, own.MaxHeightGenerated, own.MaxHeightPrevoted, sr, vh, own.AggregateCommit)
}

// a signer subset of the validators of a height, in ascending BLS key order
type sset []bool

func (a sset) has(i int) bool { return i < len(a) && a[i] }
func (a sset) empty() bool {
	for _, b := range a {
		if b {
			return false
		}
	}
	return true
}

// subsetsOf: every subset for n <= 5; for larger sets a sample that exercises every byte of the bitmap: none, all,
// singletons and co-singletons around the byte boundaries, whole first byte, first byte + 1, only the last byte, random
// subsets of several densities
func (s *scenario) subsetsOf(n int, nrand int) []sset {
	out := []sset{}
	if n <= 5 {
		for m := 0; m < 1<<n; m++ {
			a := make(sset, n)
			for i := 0; i < n; i++ {
				a[i] = m&(1<<i) != 0
			}
			out = append(out, a)
		}
		return out
	}
	mk := func(f func(i int) bool) {
		a := make(sset, n)
		for i := range a {
			a[i] = f(i)
		}
		out = append(out, a)
	}
	mk(func(int) bool { return false })
	mk(func(int) bool { return true })
	for _, j := range []int{0, 7, 8, 9, 15, 16, 17, n - 9, n - 8, n - 2, n - 1} {
		if j >= 0 && j < n {
			j := j
			mk(func(i int) bool { return i == j })
			mk(func(i int) bool { return i != j })
		}
	}
	mk(func(i int) bool { return i < 8 })
	mk(func(i int) bool { return i < 9 })
	mk(func(i int) bool { return i >= 8 })
	mk(func(i int) bool { return i/8 == (n-1)/8 })
	for k := 0; k < nrand; k++ {
		d := 1 + s.r.Intn(9)
		mk(func(int) bool { return s.r.Intn(10) < d })
	}
	return out
}

func (s *scenario) honest(h uint32, subset sset, vals []sortedVal, hdr *blockchain.BlockHeader) ([]byte, []byte) {
	bits := make([]byte, (len(vals)+7)/8)
	kis := []int{}
	hs := []*blockchain.BlockHeader{}
	for i, v := range vals {
		if subset.has(i) {
			bits[i/8] |= 1 << (i % 8)
			if v.ki == s.nkeys+1 {
				continue // registered with the identity point: its bit is claimed, nobody can sign for it
			}
			kis = append(kis, v.ki)
			hs = append(hs, hdr)
		}
	}
	var sig []byte
	if len(kis) == 0 {
		sig = s.signCert(s.nkeys, hdr) // somebody else's signature, no bit set
	} else {
		sig = s.aggSig(kis, hs)
	}
	return bits, sig
}

func (s *scenario) verifyOps(budget int) {
	r := s.r
	store := s.exec.VerifC06ConsensusStore()
	mhp, mhc := s.rec.Mhp, s.rec.Mhc
	cand := map[uint32]bool{}
	add := func(x int64) {
		if x >= 0 {
			cand[uint32(x)] = true
		}
	}
	for _, d := range []int64{-1, 0, 1, 2} {
		add(int64(mhc) + d)
		add(int64(mhp) + d - 1)
	}
	if nh, err := s.exec.VerifC06LiskBFT().API().NextHeightBFTParameters(store, mhc+1); err == nil {
		for _, d := range []int64{-2, -1, 0, 1} {
			add(int64(nh) + d)
		}
	}
	add(0)
	add(int64(s.tip))
	add(int64(s.tip) + 1)
	for i := 0; i < 3; i++ {
		add(int64(r.Intn(int(s.tip) + 1)))
	}
	heights := []uint32{}
	for h := range cand {
		heights = append(heights, h)
	}
	sort.Slice(heights, func(i, j int) bool { return heights[i] < heights[j] })
	start := len(s.rec.Ops)
	// empty commits
	for _, h := range heights {
		s.verifyOp("empty", h, []byte{}, []byte{})
		// only bits, only a signature: never an "empty" commit
		hdr, ok := s.headers[h]
		if !ok {
			hdr = s.foreignHeader(h, 0)
		}
		s.verifyOp("half-empty", h, []byte{}, s.signCert(0, hdr))
		s.verifyOp("half-empty", h, []byte{1}, []byte{})
	}
	type acc struct {
		h      uint32
		subset sset
		bits   []byte
		sig    []byte
	}
	accepted := []acc{}
	for _, h := range heights {
		vals := s.sortedVals(h)
		hdr, ok := s.headers[h]
		if !ok {
			hdr = s.foreignHeader(h, 0)
		}
		if vals == nil {
			s.verifyOp("noparams", h, []byte{1}, s.signCert(0, hdr))
			continue
		}
		for _, subset := range s.subsetsOf(len(vals), s.nrand) {
			bits, sig := s.honest(h, subset, vals, hdr)
			before := len(s.rec.Ops)
			s.verifyOp("honest", h, bits, sig)
			if s.rec.Ops[before].R == "accept" {
				accepted = append(accepted, acc{h, subset, bits, sig})
			}
		}
	}
	// tampering of accepted commits (and of a few rejected ones)
	pick := accepted
	npick := 6
	if s.big {
		npick = 3
	}
	if len(pick) > npick {
		pick = nil
		for i := 0; i < npick; i++ {
			pick = append(pick, accepted[r.Intn(len(accepted))])
		}
	}
	for _, a := range pick {
		vals := s.sortedVals(a.h)
		// every single bit
		for i := 0; i < 8*len(a.bits); i++ {
			b := lbytes.Copy(a.bits)
			b[i/8] ^= 1 << (i % 8)
			s.verifyOp("bitflip", a.h, b, a.sig)
		}
		// bitmap length
		s.verifyOp("bits-long", a.h, append(lbytes.Copy(a.bits), 0), a.sig)
		s.verifyOp("bits-short", a.h, a.bits[:len(a.bits)-1], a.sig)
		s.verifyOp("sig-empty", a.h, a.bits, []byte{})
		// every other height of the sweep with the same signature
		for _, h2 := range heights {
			if h2 != a.h {
				s.verifyOp("height", h2, a.bits, a.sig)
			}
		}
		// signature over another certificate / by another signer set / one signer signing something else
		for v := 0; v < 3; v++ {
			_, sig := s.honest(a.h, a.subset, vals, s.foreignHeader(a.h, v))
			s.verifyOp("sig-foreign-cert", a.h, a.bits, sig)
		}
		// same block ID, one other certificate field changed; the right certificate signed for another chain
		for v := 0; v < 3; v++ {
			alt := *s.headers[a.h]
			switch v {
			case 0:
				alt.Timestamp++
			case 1:
				alt.StateRoot = id32(uint32(code32(alt.StateRoot)) + 10)
			case 2:
				alt.ValidatorsHash = id32(uint32(code32(alt.ValidatorsHash)) + 10)
			}
			_, sig := s.honest(a.h, a.subset, vals, &alt)
			s.verifyOp("sig-same-id-other-field", a.h, a.bits, sig)
		}
		{
			sigs := [][]byte{}
			own := s.headers[a.h]
			for i, v := range vals {
				if a.subset.has(i) {
					sigs = append(sigs, blsSignIndependent(certMessage([]byte{0, 0, 0, 8}, own.ID, own.Height, own.Timestamp, own.StateRoot, own.ValidatorsHash), s.sks[v.ki]))
				}
			}
			if len(sigs) > 0 {
				s.verifyOp("sig-foreign-chain", a.h, a.bits, aggregateSigs(sigs))
			}
			sigs = sigs[:0]
			for i, v := range vals { // the chain ID left out of the message
				if a.subset.has(i) {
					sigs = append(sigs, blsSignIndependent(certMessage(nil, own.ID, own.Height, own.Timestamp, own.StateRoot, own.ValidatorsHash), s.sks[v.ki]))
				}
			}
			if len(sigs) > 0 {
				s.verifyOp("sig-no-chain", a.h, a.bits, aggregateSigs(sigs))
			}
		}
		other := append(sset{}, a.subset...)
		flip := r.Intn(len(other))
		other[flip] = !other[flip]
		_, sig := s.honest(a.h, other, vals, s.headers[a.h])
		s.verifyOp("sig-other-signers", a.h, a.bits, sig)
		kis := []int{}
		hs := []*blockchain.BlockHeader{}
		first := true
		for i, v := range vals {
			if a.subset.has(i) {
				kis = append(kis, v.ki)
				if first {
					hs = append(hs, s.foreignHeader(a.h, 0))
					first = false
				} else {
					hs = append(hs, s.headers[a.h])
				}
			}
		}
		s.verifyOp("sig-one-foreign", a.h, a.bits, s.aggSig(kis, hs))
		// signature by a non-validator added on top
		kis = append(kis, s.nkeys)
		hs = append(hs, s.headers[a.h])
		for i := range hs {
			hs[i] = s.headers[a.h]
		}
		s.verifyOp("sig-extra-signer", a.h, a.bits, s.aggSig(kis, hs))
		// bit flipped in the signature bytes
		bad := lbytes.Copy(a.sig)
		bad[5+r.Intn(80)] ^= 1 << r.Intn(8)
		s.verifyOp("sig-bitflip", a.h, a.bits, bad)
	}
	_ = budget
	_ = start
}

func (s *scenario) mkCommit(c commitSpec) *certificate.SingleCommit {
	return certificate.VerifC06NewSingleCommit(certificate.VerifC06SingleCommit{BlockID: c.block, Height: c.height, ValidatorAddress: c.addr, CertificateSignature: c.sig})
}

type commitSpec struct {
	block  []byte
	height uint32
	addr   []byte
	sig    []byte
}

func (s *scenario) randomCommit(heights []uint32) commitSpec {
	r := s.r
	h := heights[r.Intn(len(heights))]
	hdr, ok := s.headers[h]
	if !ok {
		hdr = s.foreignHeader(h, 0)
	}
	vi := r.Intn(s.nkeys)
	addr := s.addrs[vi]
	if vals := s.sortedVals(h); vals != nil && r.Intn(5) != 0 {
		v := vals[r.Intn(len(vals))]
		vi, addr = v.ki, v.addr
		if vi == s.nkeys+1 { // registered with the identity point: whatever is sent in its name cannot verify
			vi = s.nkeys
		}
	}
	c := commitSpec{block: hdr.ID, height: h, addr: addr, sig: s.signCert(vi, hdr)}
	switch r.Intn(14) {
	case 0: // signature over a foreign certificate
		c.sig = s.signCert(vi, s.foreignHeader(h, r.Intn(3)))
	case 1: // somebody else's signature
		c.sig = s.signCert((vi+1)%(s.nkeys+1), hdr)
	case 2: // block not on the chain
		f := s.foreignHeader(h, r.Intn(3))
		c.block = f.ID
		c.sig = s.signCert(vi, f)
	case 3: // non-validator
		c.addr = s.addrs[s.nkeys]
		c.sig = s.signCert(s.nkeys, hdr)
	case 4: // height field of another block
		c.height = heights[r.Intn(len(heights))]
	case 5: // malformed lengths
		switch r.Intn(3) {
		case 0:
			c.sig = c.sig[:95]
		case 1:
			c.addr = c.addr[:19]
		case 2:
			c.block = c.block[:31]
		}
	case 6: // unknown address
		c.addr = r.Bytes(20)
	}
	return c
}

func (s *scenario) scvOp(cs []commitSpec, undecodable bool) {
	op := opRec{T: "s"}
	var data []byte
	if undecodable {
		data = append([]byte{0x0a, 0x7f}, s.r.Bytes(3)...)
		op.Undecod = true
	} else {
		commits := []*certificate.SingleCommit{}
		op.Msg = []commitRec{}
		for _, c := range cs {
			sc := s.mkCommit(c)
			commits = append(commits, sc)
			op.Msg = append(op.Msg, s.commitRecOf(certificate.SingleCommits{sc}.VerifC06View()[0]))
		}
		data = consensus.VerifC06EncodePostSingleCommits(commits)
	}
	func() {
		defer func() {
			if p := recover(); p != nil {
				op.Panic = fmt.Sprint(p)
			}
		}()
		switch s.exec.VerifC06SingleCommitValidator(context.Background(), data) {
		case p2p.ValidationReject:
			op.R = "reject"
		case p2p.ValidationIgnore:
			op.R = "ignore"
		default:
			op.R = "accept"
		}
	}()
	s.dumpPool(&op)
	s.rec.Ops = append(s.rec.Ops, op)
}

func (s *scenario) certifyOp(from, to uint32, vi int) {
	op := opRec{T: "c", From: from, To: to, Addr: s.addrCode(s.addrs[vi]), Key: vi}
	// register the signatures Certify can create
	for h := from; h <= to && h <= s.tip; h++ {
		s.signCert(vi, s.headers[h])
	}
	func() {
		defer func() {
			if p := recover(); p != nil {
				op.Panic = fmt.Sprint(p)
			}
		}()
		op.Err = s.exec.Certify(from, to, s.addrs[vi], s.sks[vi]) != nil
	}()
	s.dumpPool(&op)
	s.rec.Ops = append(s.rec.Ops, op)
}

func (s *scenario) gacOp() {
	op := opRec{T: "g", G: &gacRec{}}
	func() {
		defer func() {
			if p := recover(); p != nil {
				op.Panic = fmt.Sprint(p)
			}
		}()
		ac, err := s.exec.GetAggregateCommit()
		if err != nil {
			op.G.K = "err:other"
			if err.Error() == liskbft.ErrBFTParamsNotFound.Error() {
				op.G.K = "err:params"
			} else if strings.Contains(err.Error(), "single commit is empty") || strings.Contains(err.Error(), "does not exist in the given keypairs") {
				op.G.K = "err:agg"
			}
			return
		}
		op.G.K = "ok"
		// decode the output signature: aggregate of the pool's commits at that height?
		if len(ac.CertificateSignature) > 0 {
			if _, known := s.sigTab[hex.EncodeToString(ac.CertificateSignature)]; !known {
				g, ng := s.exec.VerifC06Pool().VerifC06Dump()
				sigs := [][]byte{}
				sy := sigSym{K: "s"}
				okAll := true
				for _, c := range append(g, ng...) {
					if c.Height != ac.Height {
						continue
					}
					cs := s.sym(c.CertificateSignature)
					if cs.K != "s" {
						okAll = false
						break
					}
					sigs = append(sigs, c.CertificateSignature)
					sy.P = append(sy.P, cs.P...)
				}
				if okAll && len(sigs) > 0 {
					if out := aggregateSigs(sigs); out != nil && string(out) == string(ac.CertificateSignature) {
						s.sigTab[hex.EncodeToString(out)] = sy
					}
				}
			}
		}
		op.G.AC = &acRec{Height: ac.Height, Bits: bitsToInts(ac.AggregationBits), Sig: s.sym(ac.CertificateSignature)}
		op.G.V = s.verify(ac)
	}()
	s.dumpPool(&op)
	s.rec.Ops = append(s.rec.Ops, op)
}

func (s *scenario) poolOps(n int) {
	r := s.r
	mhp, mhc := s.rec.Mhp, s.rec.Mhc
	heights := []uint32{}
	for h := int64(mhc) - 1; h <= int64(mhp)+2; h++ {
		if h >= 0 {
			heights = append(heights, uint32(h))
		}
	}
	for _, p := range s.rec.Params {
		heights = append(heights, p.Height)
		if p.Height > 0 {
			heights = append(heights, p.Height-1)
		}
	}
	heights = append(heights, s.tip, s.tip+1, 0)
	if len(heights) > 40 {
		// keep it dense around the bounds
		hs := heights[:6]
		hs = append(hs, heights[len(heights)-14:]...)
		for i := 0; i < 10; i++ {
			hs = append(hs, heights[r.Intn(len(heights))])
		}
		heights = hs
	}
	for i := 0; i < n; i++ {
		switch x := r.Intn(20); {
		case x < 9:
			cs := []commitSpec{}
			for j := 1 + r.Intn(4); j > 0; j-- {
				cs = append(cs, s.randomCommit(heights))
			}
			if r.Intn(6) == 0 && len(cs) > 0 {
				cs = append(cs, cs[0])
			}
			s.scvOp(cs, false)
		case x == 9:
			s.scvOp(nil, true)
		case x < 13:
			a := heights[r.Intn(len(heights))]
			b := a + uint32(r.Intn(6))
			if r.Intn(10) == 0 {
				a, b = b+1, a
			}
			if b > s.tip+2 {
				b = s.tip + 2
			}
			vi := r.Intn(s.nkeys)
			if s.idAddr[vi] { // Certify presupposes that the node's key is the registered one
				continue
			}
			s.certifyOp(a, b, vi)
		case x < 17:
			s.gacOp()
		case x == 17 && r.Intn(2) == 0:
			g, ng := s.exec.VerifC06Pool().VerifC06Dump()
			if len(g) > 11 || len(ng) > 11 {
				continue // Select sorts: deterministic only below 12 elements
			}
			op := opRec{T: "bc"}
			func() {
				defer func() {
					if p := recover(); p != nil {
						op.Panic = fmt.Sprint(p)
					}
				}()
				_ = s.exec.VerifC06BroadcastCertificate() // Publish fails on the never started connection
			}()
			s.dumpPool(&op)
			s.rec.Ops = append(s.rec.Ops, op)
		case x == 17:
			keep := map[uint32]bool{}
			op := opRec{T: "cl", Keep: []uint32{}}
			for _, h := range heights {
				if r.Intn(4) != 0 && !keep[h] {
					keep[h] = true
					op.Keep = append(op.Keep, h)
				}
			}
			s.exec.VerifC06Pool().Cleanup(func(h uint32) bool { return keep[h] })
			s.dumpPool(&op)
			s.rec.Ops = append(s.rec.Ops, op)
		default:
			g, ng := s.exec.VerifC06Pool().VerifC06Dump()
			if len(g) > 11 || len(ng) > 11 {
				continue // sort.Slice is only insertion sort (deterministic, stable) below 12 elements
			}
			m := mhp
			if r.Intn(3) == 0 {
				m = uint32(r.Intn(250))
			}
			op := opRec{T: "se", Mhp: m, Limit: 1 + r.Intn(6), Sel: []commitRec{}}
			sel := s.exec.VerifC06Pool().Select(op.Mhp, op.Limit)
			for _, v := range sel.VerifC06View() {
				op.Sel = append(op.Sel, s.commitRecOf(v))
			}
			s.dumpPool(&op)
			s.rec.Ops = append(s.rec.Ops, op)
			if r.Intn(2) == 0 {
				op2 := opRec{T: "u", Sel: op.Sel}
				s.exec.VerifC06Pool().Upgrade(sel)
				s.dumpPool(&op2)
				s.rec.Ops = append(s.rec.Ops, op2)
			}
		}
	}
	// always end with assembling and verifying
	s.gacOp()
}

// a pool filled only with valid commits by a chosen signer subset at every certifiable height, then assemble+verify
func (s *scenario) assembleSweep() {
	mhp, mhc := s.rec.Mhp, s.rec.Mhc
	maxh := mhc + 4
	if s.big {
		maxh = mhc + 2
	}
	for h := mhc + 1; h <= mhp && h <= maxh; h++ {
		vals := s.sortedVals(h)
		if vals == nil {
			continue
		}
		for si, subset := range s.subsetsOf(len(vals), s.nrand/3) {
			if subset.empty() {
				continue
			}
			s.exec.VerifC06Pool().Cleanup(func(uint32) bool { return false })
			s.rec.Ops = append(s.rec.Ops, opRec{T: "cl", Keep: []uint32{}, PG: []commitRec{}, PNG: []commitRec{}})
			cs := []commitSpec{}
			for i, v := range vals {
				if subset.has(i) {
					cs = append(cs, commitSpec{block: s.headers[h].ID, height: h, addr: v.addr, sig: s.signCert(v.ki, s.headers[h])})
				}
			}
			if mhp >= 100 && si%2 == 0 {
				s.scvOp(cs, false)
			} else if s.big { // one record for the whole batch of Pool.Add calls
				op := opRec{T: "aa", Msg: []commitRec{}}
				for _, c := range cs {
					sc := s.mkCommit(c)
					op.Msg = append(op.Msg, s.commitRecOf(certificate.SingleCommits{sc}.VerifC06View()[0]))
					s.exec.VerifC06Pool().Add(sc)
				}
				s.dumpPool(&op)
				s.rec.Ops = append(s.rec.Ops, op)
			} else {
				for _, c := range cs {
					sc := s.mkCommit(c)
					op := opRec{T: "a", Msg: []commitRec{s.commitRecOf(certificate.SingleCommits{sc}.VerifC06View()[0])}}
					s.exec.VerifC06Pool().Add(sc)
					s.dumpPool(&op)
					s.rec.Ops = append(s.rec.Ops, op)
				}
			}
			s.gacOp()
		}
	}
}

// gossip messages whose commits straddle a validator-set change: [valid commit at hx, commit at hy by a validator that is
// active at hx only], both orders of (P-1, P) for every parameter height P; the pool is emptied first so that the first
// commit runs through every step
func (s *scenario) straddleOps() {
	has := func(vals []sortedVal, ki int) bool {
		for _, v := range vals {
			if v.ki == ki {
				return true
			}
		}
		return false
	}
	for _, p := range s.rec.Params {
		if p.Height < 2 || p.Height > s.tip {
			continue
		}
		for _, pair := range [][2]uint32{{p.Height - 1, p.Height}, {p.Height, p.Height - 1}} {
			hx, hy := pair[0], pair[1]
			vx, vy := s.sortedVals(hx), s.sortedVals(hy)
			if vx == nil || vy == nil {
				continue
			}
			for _, v := range vx {
				if has(vy, v.ki) {
					continue
				}
				// v is active at hx only
				w := vx[s.r.Intn(len(vx))]
				s.exec.VerifC06Pool().Cleanup(func(uint32) bool { return false })
				s.rec.Ops = append(s.rec.Ops, opRec{T: "cl", Keep: []uint32{}, PG: []commitRec{}, PNG: []commitRec{}})
				s.scvOp([]commitSpec{
					{block: s.headers[hx].ID, height: hx, addr: w.addr, sig: s.signCert(w.ki, s.headers[hx])},
					{block: s.headers[hy].ID, height: hy, addr: v.addr, sig: s.signCert(v.ki, s.headers[hy])},
				}, false)
			}
		}
	}
}

func main() {
	out := flag.String("out", "cases.jsonl", "output")
	nscn := flag.Int("scenarios", 6, "scenarios")
	nlong := flag.Int("long", 2, "of which longer than 100 blocks")
	npool := flag.Int("poolops", 60, "random pool operations per scenario")
	nbig := flag.Int("big", 3, "of which with more than 5 validators (bitmaps of several bytes)")
	nphases := flag.Int("phases", 2, "further phases per scenario: chain extended, pool carried over")
	in := flag.String("in", "", "replay: not supported (scenarios are regenerated from the seed); ignored")
	flag.Parse()
	_ = in
	r := hx.NewRng(hx.SeedFromEnv())
	o := hx.NewOut(*out)
	defer o.Close()
	for i := 0; i < *nscn; i++ {
		nkeys := 1 + r.Intn(5)
		if i%3 == 0 {
			nkeys = 4 + r.Intn(2)
		}
		length := 3 + r.Intn(45)
		if i < *nlong {
			length = 104 + r.Intn(40)
		}
		if i >= *nscn-*nbig { // validator sets whose bitmap has several bytes: 8, 9, 16, 17, 20, ..., 103
			sizes := []int{8, 103, 16, 17, 9, 20, 24, 33, 64, 65}
			nkeys = sizes[(i-(*nscn-*nbig))%len(sizes)]
			length = 12 + r.Intn(30)
			if r.Intn(3) == 0 {
				length = 104 + r.Intn(20)
			}
		}
		s := newScenario(r, i, nkeys, length)
		s.verifyOps(0)
		s.assembleSweep()
		s.straddleOps()
		if s.big {
			s.poolOps(*npool / 4)
		} else {
			s.poolOps(*npool)
		}
		o.Put(s.rec)
		// the history goes on: more blocks (finality and the certified height move, parameters change again), the pool
		// carries its commits over, more pool operations under the new view
		for ph := 1; ph <= *nphases; ph++ {
			k := 1 + r.Intn(9)
			ch := map[uint32]bool{}
			if r.Intn(2) == 0 {
				ch[s.tip+1+uint32(r.Intn(k))] = true
			}
			if r.Intn(2) == 0 {
				s.certOnly[s.tip+1+uint32(r.Intn(k))] = true
			}
			s.extend(k, ch)
			s.snapshotEnv(ph)
			if !s.big {
				s.verifyOps(0)
			}
			if s.big {
				s.poolOps(*npool / 8)
			} else {
				s.poolOps(*npool / 3)
			}
			o.Put(s.rec)
		}
	}
	if o.N == 0 {
		os.Exit(1)
	}
}
