// C01 correspondence driver: universes of two competing chains (common prefix + two branches) built by simulated
// validators (honest ones refuse to sign a header contradicting any of their earlier headers, Byzantine ones do not),
// run on the real liskbft module; the finalized heights of both views are recorded.
package main

import (
	"encoding/json"
	"flag"
	"fmt"
	"os"
	"strings"

	"github.com/LiskHQ/lisk-engine/pkg/blockchain"
	"github.com/LiskHQ/lisk-engine/pkg/consensus/contradiction"

	. "verifharness/internal/bftx"
	"verifharness/internal/hx"
)

type Uni struct {
	K      string  `json:"k"`
	Batch  int     `json:"batch"`
	GH     uint32  `json:"gh"`
	Init   Change  `json:"init"`
	Common []Block `json:"common"`
	A      []Block `json:"a"`
	B      []Block `json:"b"`
	ObsA   []Obs   `json:"obsA"`
	ObsB   []Obs   `json:"obsB"`
	InitOK bool    `json:"initok"`
	// ObsSwitch: the B blocks observed on ONE node (one module instance, one database) that first applied common+A and then
	// reverted the A blocks with their stored diffs — a chain switch. Must equal the tail of ObsB (fresh node).
	ObsSwitch []Obs `json:"obsSwitch"`
	// Block identity (C01 round 4): an opaque id per block, never shown to liskbft. Two blocks with equal BFT fields and
	// different ids are different blocks (a same-tuple double forge). Missing on replayed inputs: synthesized by position.
	IdsC []uint64 `json:"idsC"`
	IdsA []uint64 `json:"idsA"`
	IdsB []uint64 `json:"idsB"`
	// Twins: number of same-tuple / different-id double forges placed by Byzantine validators
	Twins int `json:"twins"`
}

// fillIds gives every block an id when the input carries none (corpus / replay): distinct by branch and position.
func fillIds(u *Uni) {
	if u.IdsC == nil {
		u.IdsC = []uint64{}
	}
	if u.IdsA == nil {
		u.IdsA = []uint64{}
	}
	if u.IdsB == nil {
		u.IdsB = []uint64{}
	}
	bad := func(ids []uint64, n int) bool { return len(ids) != 0 && len(ids) != n }
	if bad(u.IdsC, len(u.Common)) || bad(u.IdsA, len(u.A)) || bad(u.IdsB, len(u.B)) {
		fmt.Fprintf(os.Stderr, "c01: id lists do not match the block lists (idsC %d/%d, idsA %d/%d, idsB %d/%d)\n",
			len(u.IdsC), len(u.Common), len(u.IdsA), len(u.A), len(u.IdsB), len(u.B))
		os.Exit(3)
	}
	if len(u.IdsC) != len(u.Common) {
		u.IdsC = make([]uint64, len(u.Common))
		for i := range u.Common {
			u.IdsC[i] = uint64(i + 1)
		}
	}
	if len(u.IdsA) != len(u.A) {
		u.IdsA = make([]uint64, len(u.A))
		for i := range u.A {
			u.IdsA[i] = uint64(1000000 + i)
		}
	}
	if len(u.IdsB) != len(u.B) {
		u.IdsB = make([]uint64, len(u.B))
		for i := range u.B {
			u.IdsB[i] = uint64(2000000 + i)
		}
	}
}

func runUni(u *Uni) {
	ca := Case{Batch: u.Batch, GH: u.GH, Init: u.Init, Blocks: append(append([]Block{}, u.Common...), u.A...), Commit: true}
	cb := Case{Batch: u.Batch, GH: u.GH, Init: u.Init, Blocks: append(append([]Block{}, u.Common...), u.B...), Commit: true}
	RunCase(&ca)
	RunCase(&cb)
	u.ObsA, u.ObsB, u.InitOK = ca.Obs, cb.Obs, ca.InitOK
	u.ObsSwitch = []Obs{}
	if !ca.InitOK || len(ca.Obs) != len(ca.Blocks) || (len(ca.Obs) > 0 && ca.Obs[len(ca.Obs)-1].Err != 0) {
		return
	}
	n, ok := NewNode(&ca)
	defer n.Close()
	if !ok {
		return
	}
	for _, b := range ca.Blocks {
		if o := n.Apply(b); o.Err != 0 {
			return
		}
	}
	for range u.A {
		n.RevertLast()
	}
	for _, b := range u.B {
		o := n.Apply(b)
		u.ObsSwitch = append(u.ObsSwitch, o)
		if o.Err != 0 {
			return
		}
	}
}

type hd struct{ h, gen, mhg, mhp uint32 }

func partial(x hd) contradiction.BFTPartialBlockHeader {
	bh := &blockchain.BlockHeader{Version: 2, Height: x.h, MaxHeightGenerated: x.mhg, MaxHeightPrevoted: x.mhp, GeneratorAddress: Addr(x.gen),
		AggregateCommit: &blockchain.AggregateCommit{}}
	bh.Init()
	return contradiction.NewBFTBlockHeader(bh.Readonly())
}

func gen(r *hx.Rng) Uni {
	batch := 3 + r.Intn(3)
	n := batch
	u := Uni{K: "uni", Batch: batch, GH: 0}
	vs := []Val{}
	maxw := 1
	if r.Intn(3) == 0 {
		maxw = 3
	}
	W := uint64(0)
	for i := 0; i < n; i++ {
		w := uint64(1 + r.Intn(maxw))
		vs = append(vs, Val{A: uint32(i + 1), W: w})
		W += w
	}
	pc := W*2/3 + 1
	if r.Intn(10) < 4 {
		pc = W/3 + 1 + uint64(r.Intn(int(W-W/3)))
	}
	u.Init = Change{PC: pc, Cert: pc, Vals: vs, Standby: []uint32{}}
	// Byzantine validators: weight < W/3
	byz := map[uint32]bool{}
	bw := uint64(0)
	for _, v := range vs {
		if r.Intn(3) == 0 && 3*(bw+v.W) < W {
			byz[v.A] = true
			bw += v.W
		}
	}
	certs := r.Intn(3) == 0
	prefixChange := r.Intn(3) == 0
	signed := map[uint32][]hd{}
	maxForged := map[uint32]uint32{}
	cur := append([]Val{}, vs...)
	mhpOf := func(blocks []Block) (uint32, bool) {
		c := Case{Batch: batch, GH: 0, Init: u.Init, Blocks: blocks, Commit: true}
		RunCase(&c)
		if !c.InitOK || len(c.Obs) != len(blocks) {
			return 0, false
		}
		for _, o := range c.Obs {
			if o.Err != 0 {
				return 0, false
			}
		}
		if len(c.Obs) == 0 {
			return 0, true
		}
		return c.Obs[len(c.Obs)-1].Heights[0], true
	}
	nextID := uint64(0)
	extend := func(prefix []Block, branch *[]Block, ids *[]uint64, other []Block, curp *[]Val, allowChange bool) {
		cur := *curp
		full := append(append([]Block{}, prefix...), *branch...)
		mhp, ok := mhpOf(full)
		if !ok {
			return
		}
		h := uint32(len(full) + 1)
		// same-tuple / different-id double forge: a Byzantine validator re-forges, on this branch, the block it generated at the
		// same height on the other branch with EXACTLY the same BFT fields (another payload, hence another id)
		if len(other) > len(*branch) && r.Intn(2) == 0 {
			tw := other[len(*branch)]
			if byz[tw.Gen] && tw.MHP == mhp && tw.H == h {
				c := Case{Batch: batch, GH: 0, Init: u.Init, Blocks: append(append([]Block{}, full...), tw), Commit: true}
				RunCase(&c)
				if len(c.Obs) == len(full)+1 && c.Obs[len(full)].Err == 0 && !c.Obs[len(full)].Contra {
					*branch = append(*branch, tw)
					nextID++
					*ids = append(*ids, nextID)
					u.Twins++
					signed[tw.Gen] = append(signed[tw.Gen], hd{h: tw.H, gen: tw.Gen, mhg: tw.MHG, mhp: tw.MHP})
					if maxForged[tw.Gen] < h {
						maxForged[tw.Gen] = h
					}
					return
				}
			}
		}
		for try := 0; try < 2*n; try++ {
			v := cur[r.Intn(len(cur))].A
			if r.Intn(3) != 0 { // prefer round robin
				v = cur[int(h)%len(cur)].A
				if try > 0 {
					v = cur[r.Intn(len(cur))].A
				}
			}
			x := hd{h: h, gen: v, mhg: maxForged[v], mhp: mhp}
			if byz[v] {
				switch r.Intn(4) {
				case 0:
					x.mhg = 0
				case 1:
					if h > 1 {
						x.mhg = uint32(r.Intn(int(h)))
					}
				}
			} else {
				bad := false
				for _, p := range signed[v] {
					if contradiction.AreDistinctHeadersContradicting(partial(p), partial(x)) {
						bad = true
						break
					}
				}
				if bad {
					continue
				}
			}
			b := Block{H: h, Gen: v, MHG: x.mhg, MHP: mhp}
			if certs && h > 3 && r.Intn(3) == 0 {
				ch := uint32(1 + r.Intn(int(h)-2)) // the module takes the certified height from the header (checked elsewhere: C06)
				b.Cert = &ch
			}
			if !allowChange && prefixChange && r.Intn(6) == 0 {
				// weight change (same validators) inside the common prefix: both branches see it
				nv := []Val{}
				for _, ov := range cur {
					nv = append(nv, Val{A: ov.A, W: uint64(1 + r.Intn(9))})
				}
				nW := uint64(0)
				for _, ov := range nv {
					nW += ov.W
				}
				b.Chg = &Change{PC: nW*2/3 + 1, Cert: nW*2/3 + 1, Vals: nv, Standby: []uint32{}}
			}
			if allowChange && r.Intn(12) == 0 {
				// validator-set change announced on this branch only
				nv := []Val{}
				base := 1 + r.Intn(2)*n
				for i := 0; i < n; i++ {
					nv = append(nv, Val{A: uint32(base + i), W: 1})
				}
				b.Chg = &Change{PC: uint64(n)*2/3 + 1, Cert: uint64(n)*2/3 + 1, Vals: nv, Standby: []uint32{}}
			}
			// the chain itself must accept the header (no contradiction with the chain, no error)
			c := Case{Batch: batch, GH: 0, Init: u.Init, Blocks: append(append([]Block{}, full...), b), Commit: true}
			RunCase(&c)
			if len(c.Obs) != len(full)+1 || c.Obs[len(full)].Err != 0 || c.Obs[len(full)].Contra {
				continue
			}
			*branch = append(*branch, b)
			nextID++
			*ids = append(*ids, nextID)
			if b.Chg != nil {
				// the announced set generates from the next height on, on THIS chain (prefix change: both branches inherit it;
				// branch-local change: only this branch) -- joiners forge
				*curp = append([]Val{}, b.Chg.Vals...)
			}
			signed[v] = append(signed[v], x)
			if maxForged[v] < h {
				maxForged[v] = h
			}
			return
		}
	}
	ncommon := r.Intn(2 * batch)
	if certs || prefixChange {
		ncommon = batch + r.Intn(4*batch) // long enough for pruning to matter
	}
	for i := 0; i < ncommon; i++ {
		extend(nil, &u.Common, &u.IdsC, nil, &cur, false)
	}
	curA := append([]Val{}, cur...)
	curB := append([]Val{}, cur...)
	steps := 4 + r.Intn(9*batch)
	changes := r.Intn(4) == 0
	onA := r.Bool()
	sw := 2 + r.Intn(12) // network phases: one partition is scheduled for a while, then the other
	for i := 0; i < steps; i++ {
		if r.Intn(sw) == 0 {
			onA = !onA
		}
		if onA {
			extend(u.Common, &u.A, &u.IdsA, u.B, &curA, changes)
		} else {
			extend(u.Common, &u.B, &u.IdsB, u.A, &curB, changes)
		}
	}
	if u.Common == nil {
		u.Common = []Block{}
	}
	if u.A == nil {
		u.A = []Block{}
	}
	if u.B == nil {
		u.B = []Block{}
	}
	fillIds(&u)
	return u
}

// Directed conflict universes (classes 20/21 of Corr/C01.check_uni reached by construction): the two refutation witnesses of
// BFT/Refuted.v with the validator addresses permuted at random (and, for the validator-change witness, a random fresh set).
// Every header carries the node's own maxHeightPrevoted, computed by running the module on the prefix.
type spec struct {
	h, mhg, gen uint32
	chg         *Change
}

func directed(r *hx.Rng, change bool) Uni {
	perm := []uint32{1, 2, 3, 4}
	for i := 3; i > 0; i-- {
		j := r.Intn(i + 1)
		perm[i], perm[j] = perm[j], perm[i]
	}
	p := func(g uint32) uint32 {
		if g >= 1 && g <= 4 {
			return perm[g-1]
		}
		return g
	}
	vs := []Val{}
	for i := 1; i <= 4; i++ {
		vs = append(vs, Val{A: uint32(i), W: 1})
	}
	u := Uni{K: "uni", Batch: 4, GH: 0}
	var common, ta, tb []spec
	if !change {
		u.Init = Change{PC: 2, Cert: 2, Vals: vs, Standby: []uint32{}}
		common = []spec{{1, 0, 2, nil}, {2, 0, 3, nil}, {3, 0, 4, nil}, {4, 0, 1, nil}}
		ta = []spec{{5, 4, 1, nil}, {6, 1, 2, nil}, {7, 3, 4, nil}, {8, 5, 1, nil}, {9, 7, 4, nil}}
		tb = []spec{{5, 3, 4, nil}, {6, 2, 3, nil}, {7, 6, 2, nil}, {8, 6, 3, nil}, {9, 5, 4, nil}, {10, 8, 3, nil}, {11, 9, 4, nil}}
	} else {
		u.Init = Change{PC: 3, Cert: 3, Vals: vs, Standby: []uint32{}}
		base := uint32(4 + 4*r.Intn(3)) // fresh set {base+1..base+4}
		nv := []Val{}
		for i := uint32(1); i <= 4; i++ {
			nv = append(nv, Val{A: base + i, W: 1})
		}
		chg := &Change{PC: 3, Cert: 3, Vals: nv, Standby: []uint32{}}
		common = []spec{{1, 0, 1, nil}, {2, 0, 2, nil}, {3, 0, 3, nil}, {4, 0, 4, nil}}
		ta = []spec{{5, 1, 1, nil}, {6, 2, 2, nil}, {7, 3, 3, nil}, {8, 4, 4, nil}, {9, 5, 1, nil}, {10, 6, 2, nil}, {11, 7, 3, nil}}
		tb = []spec{{5, 4, 4, chg}, {6, 0, base + 1, nil}, {7, 0, base + 2, nil}, {8, 0, base + 3, nil}, {9, 0, base + 4, nil},
			{10, 6, base + 1, nil}, {11, 7, base + 2, nil}, {12, 8, base + 3, nil}}
	}
	build := func(prefix []Block, sp []spec) []Block {
		out := []Block{}
		for _, x := range sp {
			full := append(append([]Block{}, prefix...), out...)
			c := Case{Batch: 4, GH: 0, Init: u.Init, Blocks: full, Commit: true}
			RunCase(&c)
			mhp := uint32(0)
			if len(c.Obs) > 0 {
				mhp = c.Obs[len(c.Obs)-1].Heights[0]
			}
			out = append(out, Block{H: x.h, Gen: p(x.gen), MHG: x.mhg, MHP: mhp, Chg: x.chg})
		}
		return out
	}
	u.Common = build(nil, common)
	u.A = build(u.Common, ta)
	u.B = build(u.Common, tb)
	fillIds(&u)
	return u
}

func main() {
	out := flag.String("out", "cases.jsonl", "output")
	n := flag.Int("n", 150, "random universes")
	in := flag.String("in", "", "replay: JSONL of universes (inputs) to re-run")
	flag.Parse()
	o := hx.NewOut(*out)
	defer o.Close()
	load := func(path string) {
		data, err := os.ReadFile(path)
		if err != nil {
			panic(err)
		}
		for _, line := range strings.Split(string(data), "\n") {
			if strings.TrimSpace(line) == "" {
				continue
			}
			var u Uni
			if err := json.Unmarshal([]byte(line), &u); err != nil {
				panic(err)
			}
			u.K = "uni"
			fillIds(&u)
			runUni(&u)
			o.Put(u)
		}
	}
	if *in != "" {
		load(*in)
		return
	}
	r := hx.NewRng(hx.SeedFromEnv())
	for i := 0; i < *n; i++ {
		var u Uni
		switch {
		case i%25 == 7: // floor by construction: directed conflict universes in every 25
			u = directed(r, false)
		case i%25 == 19:
			u = directed(r, true)
		default:
			u = gen(r)
		}
		runUni(&u)
		o.Put(u)
	}
	fmt.Fprintf(os.Stderr, "c01: %d universes\n", o.N)
}
