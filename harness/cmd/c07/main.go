// C07 correspondence driver: runs the real contradiction / fork-choice code on generated inputs and
// writes one JSONL record per case (input + implementation observation).
package main

import (
	"encoding/json"
	"flag"
	"os"
	"strings"
	"time"

	"github.com/LiskHQ/lisk-engine/pkg/blockchain"
	"github.com/LiskHQ/lisk-engine/pkg/consensus/contradiction"
	"github.com/LiskHQ/lisk-engine/pkg/consensus/forkchoice"
	"github.com/LiskHQ/lisk-engine/pkg/consensus/liskbft"
	"github.com/LiskHQ/lisk-engine/pkg/consensus/validator"

	"verifharness/internal/hx"
)

type contraRec struct {
	K   string    `json:"k"`
	B1  [4]uint32 `json:"b1"` // height, gen, mhg, mhp
	B2  [4]uint32 `json:"b2"`
	R12 bool      `json:"r12"`
	R21 bool      `json:"r21"`
}

type fcRec struct {
	K    string    `json:"k"`
	Cfg  [2]uint32 `json:"cfg"`  // genesis timestamp, block time
	Last [6]uint32 `json:"last"` // id, prev, height, mhp, gen, ts
	Cur  [6]uint32 `json:"cur"`
	TL   *uint32   `json:"tl"`
	TC   uint32    `json:"tc"`
	Bits [5]bool   `json:"bits"` // valid, identical, double forging, tie break, different chain
	DC   bool      `json:"dc"`   // exported IsDifferentChain on the raw values
}

func addr(g uint32) []byte {
	a := make([]byte, 20)
	a[0], a[1], a[2], a[3] = byte(g>>24), byte(g>>16), byte(g>>8), byte(g)
	return a
}
func id32(g uint32) []byte {
	a := make([]byte, 32)
	a[28], a[29], a[30], a[31] = byte(g>>24), byte(g>>16), byte(g>>8), byte(g)
	return a
}

func mkHeader(f [4]uint32, salt uint32) *blockchain.BlockHeader {
	h := &blockchain.BlockHeader{
		Version: 2, Height: f[0], GeneratorAddress: addr(f[1]), MaxHeightGenerated: f[2], MaxHeightPrevoted: f[3],
		PreviousBlockID: id32(0), TransactionRoot: id32(0), AssetRoot: id32(0), EventRoot: id32(0), StateRoot: id32(0),
		ValidatorsHash: id32(0), AggregateCommit: &blockchain.AggregateCommit{}, Signature: make([]byte, 64), Timestamp: salt,
	}
	h.Init()
	return h
}

func contra(api *liskbft.API, b1, b2 [4]uint32) contraRec {
	h1 := mkHeader(b1, 1)
	h2 := mkHeader(b2, 2) // distinct IDs even if the BFT fields coincide
	p1 := contradiction.NewBFTBlockHeader(h1.Readonly())
	p2 := contradiction.NewBFTBlockHeader(h2.Readonly())
	r12 := contradiction.AreDistinctHeadersContradicting(p1, p2)
	r21 := contradiction.AreDistinctHeadersContradicting(p2, p1)
	a12, err := api.AreHeadersContradicting(h1.Readonly(), h2.Readonly())
	if err != nil {
		panic(err)
	}
	a21, _ := api.AreHeadersContradicting(h2.Readonly(), h1.Readonly())
	if a12 != r12 || a21 != r21 {
		// the API wrapper must agree with the pure function on distinct headers; report as the API value
		r12, r21 = a12, a21
	}
	same, _ := api.AreHeadersContradicting(h1.Readonly(), h1.Readonly())
	if same {
		panic("API reports a header contradicting itself")
	}
	return contraRec{K: "contra", B1: b1, B2: b2, R12: r12, R21: r21}
}

func main() {
	out := flag.String("out", "cases.jsonl", "output")
	rng := flag.Int("range", 3, "exhaustive field range 0..range")
	nrand := flag.Int("rand", 2000, "random uint32 pairs")
	nfc := flag.Int("fc", 2000, "fork choice observations")
	in := flag.String("in", "", "replay: JSONL of contra records to re-run")
	flag.Parse()
	r := hx.NewRng(hx.SeedFromEnv())
	o := hx.NewOut(*out)
	defer o.Close()
	api := liskbft.NewModule().API()
	if *in != "" {
		data, err := os.ReadFile(*in)
		if err != nil {
			panic(err)
		}
		for _, line := range strings.Split(string(data), "\n") {
			if strings.TrimSpace(line) == "" {
				continue
			}
			var rec contraRec
			if err := json.Unmarshal([]byte(line), &rec); err != nil {
				panic(err)
			}
			o.Put(contra(api, rec.B1, rec.B2))
		}
		return
	}

	// (a) exhaustive pairs over small ranges, two generators
	var hs [][4]uint32
	n := uint32(*rng)
	for g := uint32(1); g <= 2; g++ {
		for h := uint32(0); h <= n; h++ {
			for mg := uint32(0); mg <= n; mg++ {
				for mp := uint32(0); mp <= n; mp++ {
					hs = append(hs, [4]uint32{h, g, mg, mp})
				}
			}
		}
	}
	for _, a := range hs {
		for _, b := range hs {
			o.Put(contra(api, a, b))
		}
	}
	// (b) random pairs: full uint32, and correlated (fields of b2 near b1's) so that boundaries are dense
	pick := func(base uint32) uint32 {
		switch r.Intn(5) {
		case 0:
			return base
		case 1:
			return base + 1
		case 2:
			return base - 1
		case 3:
			return r.U32()
		}
		return uint32(r.Intn(8))
	}
	for i := 0; i < *nrand; i++ {
		b1 := [4]uint32{r.U32(), uint32(1 + r.Intn(2)), r.U32(), r.U32()}
		if r.Intn(3) == 0 {
			b1 = [4]uint32{uint32(r.Intn(6)), 1, uint32(r.Intn(6)), uint32(r.Intn(6))}
		}
		if r.Intn(4) == 0 {
			b1[0] = []uint32{0, 1, 0xffffffff, 0xfffffffe, 0x80000000}[r.Intn(5)]
		}
		b2 := [4]uint32{pick(b1[0]), b1[1], pick(b1[2]), pick(b1[3])}
		if r.Intn(6) == 0 {
			b2[1] = 3 - b1[1]
		}
		o.Put(contra(api, b1, b2))
	}
	// (c) fork choice predicates
	const bt = 1000
	for i := 0; i < *nfc; i++ {
		now := uint32(time.Now().Unix())
		// genesis so that `now` is 400..600 s into its slot: the call below stays inside the slot
		genesis := now - 500 - bt*uint32(3+r.Intn(50)) - uint32(r.Intn(100))
		slot := validator.NewBlockSlot(genesis, bt)
		nowSlot := slot.GetSlotNumber(now)
		slotTs := func(s int) uint32 { return slot.GetSlotTime(s) + uint32(r.Intn(bt)) }
		var last, cur [6]uint32
		last = [6]uint32{uint32(10 + r.Intn(3)), uint32(1 + r.Intn(3)), uint32(r.Intn(5)), uint32(r.Intn(4)), uint32(1 + r.Intn(2)), slotTs(nowSlot - r.Intn(3))}
		if r.Intn(10) == 0 {
			last[2] = 0xffffffff
		}
		cur = [6]uint32{uint32(10 + r.Intn(3)), uint32(1 + r.Intn(3)), last[2], last[3], uint32(1 + r.Intn(2)), slotTs(nowSlot - r.Intn(3) + 1)}
		switch r.Intn(6) {
		case 0:
			cur[2] = last[2] + 1
			cur[1] = last[0]
		case 1:
			cur[2] = uint32(r.Intn(5))
			cur[3] = uint32(r.Intn(4))
		case 2:
			cur[1] = last[1]
		case 3:
			cur[1] = last[1]
			cur[5] = slotTs(nowSlot)
			last[5] = slotTs(nowSlot - 1 - r.Intn(2))
		case 4:
			cur[2] = last[2] + uint32(r.Intn(3)) - 1
		}
		var tl *uint32
		var tlTime *time.Time
		if r.Intn(4) != 0 {
			s := slot.GetSlotNumber(last[5])
			v := slot.GetSlotTime(s+r.Intn(3)-1) + uint32(r.Intn(bt))
			tl = &v
			t := time.Unix(int64(v), 0)
			tlTime = &t
		}
		mk := func(f [6]uint32) *blockchain.BlockHeader {
			return &blockchain.BlockHeader{ID: id32(f[0]), PreviousBlockID: id32(f[1]), Height: f[2], MaxHeightPrevoted: f[3], GeneratorAddress: addr(f[4]), Timestamp: f[5]}
		}
		fc, err := forkchoice.NewForkChoice(mk(last), mk(cur), slot, tlTime)
		if err != nil {
			panic(err)
		}
		bits := [5]bool{fc.IsValidBlock(), fc.IsIdenticalBlock(), fc.IsDoubleForging(), fc.IsTieBreak(), fc.IsDifferentChain()}
		after := uint32(time.Now().Unix())
		if slot.GetSlotNumber(after) != nowSlot {
			i--
			continue
		}
		o.Put(fcRec{K: "fc", Cfg: [2]uint32{genesis, bt}, Last: last, Cur: cur, TL: tl, TC: now, Bits: bits,
			DC: forkchoice.IsDifferentChain(last[3], cur[3], last[2], cur[2])})
	}
}
