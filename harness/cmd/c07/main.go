// C07 correspondence driver: runs the real contradiction / fork-choice code on generated inputs and
// writes one JSONL record per case (input + implementation observation).
package main

import (
	"bytes"
	"encoding/json"
	"flag"
	"os"
	"strings"
	"time"

	"github.com/LiskHQ/lisk-engine/pkg/blockchain"
	"github.com/LiskHQ/lisk-engine/pkg/consensus/contradiction"
	"github.com/LiskHQ/lisk-engine/pkg/consensus/forkchoice"
	"github.com/LiskHQ/lisk-engine/pkg/consensus/liskbft"
	"github.com/LiskHQ/lisk-engine/pkg/consensus/validator"

	"verifharness/internal/exh"
	"verifharness/internal/hx"
)

type contraRec struct {
	K    string    `json:"k"`
	B1   [4]uint32 `json:"b1"` // height, gen, mhg, mhp
	B2   [4]uint32 `json:"b2"`
	R12  bool      `json:"r12"`
	R21  bool      `json:"r21"`
	A12  bool      `json:"a12"` // API.AreHeadersContradicting on the same pair (distinct IDs)
	A21  bool      `json:"a21"`
	Self bool      `json:"self"` // API.AreHeadersContradicting(h1, h1): must be false
}

// lbrRec: does a REJECTED block change how the next block is classified?  The tip T (slot s-1) was received within its slot;
// a competing block T2 (same height and parent, other generator, current slot s, received in its slot) must then be discarded
// (no tie break: the tip was on time).  Attack run: a garbage successor of T (bad signature) is offered first.
type lbrRec struct {
	K           string `json:"k"`
	N           int    `json:"n"`
	Control     string `json:"control"` // tip after offering T2 alone: "T" | "T2" | other
	Attack      string `json:"attack"`  // tip after offering the garbage block G and then T2
	GRejected   bool   `json:"g_rejected"`
	LbrMovedByG bool   `json:"lbr_moved_by_g"` // lastBlockReceived differs after the rejected G
	Skipped     string `json:"skipped,omitempty"`
}

// prioRec: API.HeaderHasPriority (K "prio") or Executer.Synced (K "synced") against (height, maxHeightPrevoted)
type prioRec struct {
	K      string `json:"k"`
	V2     bool   `json:"v2"` // version-2 header/tip (false: version 0)
	HM     uint32 `json:"hm"` // header.maxHeightPrevoted / node's maxHeightPrevoted
	HH     uint32 `json:"hh"` // header.height / tip height
	Height uint32 `json:"height"`
	MHP    uint32 `json:"mhp"`
	R      bool   `json:"r"`
	Err    string `json:"err,omitempty"`
}

type fcRec struct {
	K    string    `json:"k"`
	Cfg  [2]uint32 `json:"cfg"`  // genesis timestamp, block time
	Last [6]uint32 `json:"last"` // id, prev, height, mhp, gen, ts
	Cur  [6]uint32 `json:"cur"`
	TL   *uint32   `json:"tl"`
	TC   uint32    `json:"tc"`
	Bits [5]bool   `json:"bits"` // valid, identical, double forging, tie break, different chain
	DC   bool      `json:"dc"`   // exported IsDifferentChain on the raw values
}

func addr(g uint32) []byte {
	a := make([]byte, 20)
	a[0], a[1], a[2], a[3] = byte(g>>24), byte(g>>16), byte(g>>8), byte(g)
	return a
}
func id32(g uint32) []byte {
	a := make([]byte, 32)
	a[28], a[29], a[30], a[31] = byte(g>>24), byte(g>>16), byte(g>>8), byte(g)
	return a
}

func mkHeader(f [4]uint32, salt uint32) *blockchain.BlockHeader {
	h := &blockchain.BlockHeader{
		Version: 2, Height: f[0], GeneratorAddress: addr(f[1]), MaxHeightGenerated: f[2], MaxHeightPrevoted: f[3],
		PreviousBlockID: id32(0), TransactionRoot: id32(0), AssetRoot: id32(0), EventRoot: id32(0), StateRoot: id32(0),
		ValidatorsHash: id32(0), AggregateCommit: &blockchain.AggregateCommit{}, Signature: make([]byte, 64), Timestamp: salt,
	}
	h.Init()
	return h
}

func contra(api *liskbft.API, b1, b2 [4]uint32) contraRec {
	h1 := mkHeader(b1, 1)
	h2 := mkHeader(b2, 2) // distinct IDs even if the BFT fields coincide
	p1 := contradiction.NewBFTBlockHeader(h1.Readonly())
	p2 := contradiction.NewBFTBlockHeader(h2.Readonly())
	r12 := contradiction.AreDistinctHeadersContradicting(p1, p2)
	r21 := contradiction.AreDistinctHeadersContradicting(p2, p1)
	a12, err := api.AreHeadersContradicting(h1.Readonly(), h2.Readonly())
	if err != nil {
		panic(err)
	}
	a21, _ := api.AreHeadersContradicting(h2.Readonly(), h1.Readonly())
	same, _ := api.AreHeadersContradicting(h1.Readonly(), h1.Readonly())
	return contraRec{K: "contra", B1: b1, B2: b2, R12: r12, R21: r21, A12: a12, A21: a21, Self: same}
}

func main() {
	out := flag.String("out", "cases.jsonl", "output")
	rng := flag.Int("range", 3, "exhaustive field range 0..range")
	nrand := flag.Int("rand", 2000, "random uint32 pairs")
	nfc := flag.Int("fc", 2000, "fork choice observations")
	in := flag.String("in", "", "replay: JSONL of contra records to re-run")
	flag.Parse()
	r := hx.NewRng(hx.SeedFromEnv())
	o := hx.NewOut(*out)
	defer o.Close()
	api := liskbft.NewModule().API()
	if *in != "" {
		data, err := os.ReadFile(*in)
		if err != nil {
			panic(err)
		}
		for _, line := range strings.Split(string(data), "\n") {
			if strings.TrimSpace(line) == "" {
				continue
			}
			var kind struct {
				K string `json:"k"`
			}
			_ = json.Unmarshal([]byte(line), &kind)
			switch kind.K {
			case "fc":
				var rec fcRec
				if err := json.Unmarshal([]byte(line), &rec); err != nil {
					panic(err)
				}
				o.Put(replayFC(rec))
			case "prio":
				var rec prioRec
				if err := json.Unmarshal([]byte(line), &rec); err != nil {
					panic(err)
				}
				o.Put(prio(api, rec.V2, rec.HM, rec.HH, rec.Height, rec.MHP))
			case "synced":
				// node-dependent: re-generated by a normal run
			default:
				var rec contraRec
				if err := json.Unmarshal([]byte(line), &rec); err != nil {
					panic(err)
				}
				o.Put(contra(api, rec.B1, rec.B2))
			}
		}
		return
	}

	// (a) exhaustive pairs over small ranges, two generators
	var hs [][4]uint32
	n := uint32(*rng)
	for g := uint32(1); g <= 2; g++ {
		for h := uint32(0); h <= n; h++ {
			for mg := uint32(0); mg <= n; mg++ {
				for mp := uint32(0); mp <= n; mp++ {
					hs = append(hs, [4]uint32{h, g, mg, mp})
				}
			}
		}
	}
	for _, a := range hs {
		for _, b := range hs {
			o.Put(contra(api, a, b))
		}
	}
	// (b) random pairs: full uint32, and correlated (fields of b2 near b1's) so that boundaries are dense
	pick := func(base uint32) uint32 {
		switch r.Intn(5) {
		case 0:
			return base
		case 1:
			return base + 1
		case 2:
			return base - 1
		case 3:
			return r.U32()
		}
		return uint32(r.Intn(8))
	}
	for i := 0; i < *nrand; i++ {
		b1 := [4]uint32{r.U32(), uint32(1 + r.Intn(2)), r.U32(), r.U32()}
		if r.Intn(3) == 0 {
			b1 = [4]uint32{uint32(r.Intn(6)), 1, uint32(r.Intn(6)), uint32(r.Intn(6))}
		}
		if r.Intn(4) == 0 {
			b1[0] = []uint32{0, 1, 0xffffffff, 0xfffffffe, 0x80000000}[r.Intn(5)]
		}
		b2 := [4]uint32{pick(b1[0]), b1[1], pick(b1[2]), pick(b1[3])}
		if r.Intn(6) == 0 {
			b2[1] = 3 - b1[1]
		}
		o.Put(contra(api, b1, b2))
	}
	// (c) fork choice predicates
	bts := []uint32{1000, 1000, 10, 30, 7200, 601}
	for i := 0; i < *nfc; i++ {
		bt := bts[r.Intn(len(bts))]
		now := uint32(time.Now().Unix())
		// genesis so that `now` is in the middle half of its slot: the call below stays inside the slot
		genesis := now - bt/2 - bt*uint32(3+r.Intn(50)) - uint32(r.Intn(int(bt/5)+1))
		slot := validator.NewBlockSlot(genesis, bt)
		nowSlot := slot.GetSlotNumber(now)
		slotTs := func(s int) uint32 { return slot.GetSlotTime(s) + uint32(r.Intn(int(bt))) }
		var last, cur [6]uint32
		last = [6]uint32{uint32(10 + r.Intn(3)), uint32(1 + r.Intn(3)), uint32(r.Intn(5)), uint32(r.Intn(4)), uint32(1 + r.Intn(2)), slotTs(nowSlot - r.Intn(3))}
		if r.Intn(4) == 0 { // heights and maxHeightPrevoted over the whole uint32 range
			last[2], last[3] = r.U32(), r.U32()
		}
		if r.Intn(10) == 0 {
			last[2] = 0xffffffff
		}
		cur = [6]uint32{uint32(10 + r.Intn(3)), uint32(1 + r.Intn(3)), last[2], last[3], uint32(1 + r.Intn(2)), slotTs(nowSlot - r.Intn(3) + 1)}
		switch r.Intn(6) {
		case 0:
			cur[2] = last[2] + 1
			cur[1] = last[0]
		case 1:
			cur[2] = uint32(r.Intn(5))
			cur[3] = uint32(r.Intn(4))
		case 2:
			cur[1] = last[1]
		case 3:
			cur[1] = last[1]
			cur[5] = slotTs(nowSlot)
			last[5] = slotTs(nowSlot - 1 - r.Intn(2))
		case 4:
			cur[2] = last[2] + uint32(r.Intn(3)) - 1
		}
		if r.Intn(12) == 0 { // a header timestamp before genesis: the slot number wraps on uint32
			if r.Intn(2) == 0 {
				last[5] = genesis - uint32(1+r.Intn(3*int(bt)))
			} else {
				cur[5] = genesis - uint32(1+r.Intn(3*int(bt)))
			}
		}
		var tl *uint32
		var tlTime *time.Time
		if r.Intn(4) != 0 {
			s := slot.GetSlotNumber(last[5])
			v := slot.GetSlotTime(s+r.Intn(3)-1) + uint32(r.Intn(int(bt)))
			tl = &v
			t := time.Unix(int64(v), 0)
			tlTime = &t
		}
		bits := fcBits(slot, last, cur, tlTime)
		after := uint32(time.Now().Unix())
		if slot.GetSlotNumber(after) != nowSlot {
			i--
			continue
		}
		o.Put(fcRec{K: "fc", Cfg: [2]uint32{genesis, bt}, Last: last, Cur: cur, TL: tl, TC: now, Bits: bits,
			DC: forkchoice.IsDifferentChain(last[3], cur[3], last[2], cur[2])})
	}
	// (d) HeaderHasPriority: exhaustive small grid, boundaries of uint32, random
	vals := []uint32{0, 1, 2, 3, 0xfffffffe, 0xffffffff}
	for _, v2 := range []bool{true, false} {
		for _, hm := range vals {
			for _, hh := range vals {
				for _, h := range vals {
					for _, m := range vals {
						o.Put(prio(api, v2, hm, hh, h, m))
					}
				}
			}
		}
	}
	for i := 0; i < *nrand/4; i++ {
		hm, hh := r.U32(), r.U32()
		o.Put(prio(api, r.Intn(5) != 0, hm, hh, pick(hh), pick(hm)))
	}
	// (f) a rejected block must not change the classification of the next one
	for _, rec := range lbrCases(r) {
		o.Put(rec)
	}
	// (e) Executer.Synced on a real node: the same order against (node's maxHeightPrevoted, tip height)
	for _, rec := range syncedCases(r) {
		o.Put(rec)
	}
}

func fcBits(slot *validator.BlockSlot, last, cur [6]uint32, tlTime *time.Time) [5]bool {
	mk := func(f [6]uint32) *blockchain.BlockHeader {
		return &blockchain.BlockHeader{ID: id32(f[0]), PreviousBlockID: id32(f[1]), Height: f[2], MaxHeightPrevoted: f[3], GeneratorAddress: addr(f[4]), Timestamp: f[5]}
	}
	fc, err := forkchoice.NewForkChoice(mk(last), mk(cur), slot, tlTime)
	if err != nil {
		panic(err)
	}
	return [5]bool{fc.IsValidBlock(), fc.IsIdenticalBlock(), fc.IsDoubleForging(), fc.IsTieBreak(), fc.IsDifferentChain()}
}

// replayFC re-runs a recorded fork-choice case on the implementation: NewForkChoice reads the wall clock for the receive
// time of the incoming block, so genesis and every timestamp are shifted by (now - recorded now); slot numbers depend only on
// (timestamp - genesis), hence the shifted case is the same case.
func replayFC(rec fcRec) fcRec {
	for try := 0; try < 5; try++ {
		now := uint32(time.Now().Unix())
		d := now - rec.TC
		out := rec
		out.Cfg[0] += d
		out.Last[5] += d
		out.Cur[5] += d
		out.TC = now
		var tlTime *time.Time
		if rec.TL != nil {
			v := *rec.TL + d
			out.TL = &v
			t := time.Unix(int64(v), 0)
			tlTime = &t
		}
		slot := validator.NewBlockSlot(out.Cfg[0], out.Cfg[1])
		out.Bits = fcBits(slot, out.Last, out.Cur, tlTime)
		out.DC = forkchoice.IsDifferentChain(out.Last[3], out.Cur[3], out.Last[2], out.Cur[2])
		if uint32(time.Now().Unix()) == now {
			return out
		}
	}
	panic("replay: clock kept ticking across the call")
}

func prio(api *liskbft.API, v2 bool, hm, hh, height, mhp uint32) prioRec {
	h := &blockchain.BlockHeader{Version: 0, Height: hh, MaxHeightPrevoted: hm, GeneratorAddress: addr(1),
		PreviousBlockID: id32(0), TransactionRoot: id32(0), AssetRoot: id32(0), EventRoot: id32(0), StateRoot: id32(0),
		ValidatorsHash: id32(0), AggregateCommit: &blockchain.AggregateCommit{}, Signature: make([]byte, 64)}
	if v2 {
		h.Version = 2
	}
	h.Init()
	rec := prioRec{K: "prio", V2: v2, HM: hm, HH: hh, Height: height, MHP: mhp}
	res, err := api.HeaderHasPriority(nil, h.Readonly(), height, mhp, 0)
	if err != nil {
		rec.Err = err.Error()
	}
	rec.R = res
	return rec
}

// syncedCases grows real nodes (4 validators, a few rounds so that maxHeightPrevoted > 0) and asks Executer.Synced about a
// grid of (height, maxHeightPrevoted) around the tip's values; plus a node still on its genesis block (version 0 tip).
func syncedCases(r *hx.Rng) []prioRec {
	out := []prioRec{}
	for w := 0; w < 2; w++ {
		n, err := exh.New(exh.Options{N: 3 + w})
		if err != nil {
			panic(err)
		}
		grid := func(v2 bool) {
			tip := n.Tip().Header
			mhp, _, _ := n.Heights()
			for _, h := range []uint32{0, tip.Height - 1, tip.Height, tip.Height + 1, 0xffffffff, r.U32()} {
				for _, m := range []uint32{0, mhp - 1, mhp, mhp + 1, 0xffffffff, r.U32()} {
					rec := prioRec{K: "synced", V2: v2, HM: mhp, HH: tip.Height, Height: h, MHP: m}
					res, err := n.Exec.Synced(h, m, 0)
					if err != nil {
						rec.Err = err.Error()
					}
					rec.R = res
					out = append(out, rec)
				}
			}
		}
		grid(false) // genesis tip (version 0)
		for i := 0; i < 9+r.Intn(4); i++ {
			b := n.NextValid(exh.Build{})
			if res := n.Process(b); !res.OK() {
				panic("c07: valid block rejected")
			}
			if i%4 == 3 {
				grid(true)
			}
		}
		grid(true)
	}
	return out
}

func flipSig(b []byte) []byte {
	c := append([]byte{}, b...)
	c[0] ^= 0x55
	return c
}

// lbrRun builds a fresh node with tip T in slot now-1 (received on time) and a competing T2 for the current slot; with
// withGarbage it first offers a successor of T whose signature is broken.  Returns the tip name and what happened to G.
func lbrRun(nvals int, withGarbage bool) (tip string, gRejected, moved bool, skipped string) {
	n, err := exh.New(exh.Options{N: nvals})
	if err != nil {
		panic(err)
	}
	for i := 0; i < 3; i++ {
		if res := n.Process(n.NextValid(exh.Build{})); !res.OK() {
			panic("lbr: valid block rejected")
		}
	}
	nowSlot := n.Slot(uint32(time.Now().Unix()))
	prev := n.Tip()
	prevSlot := n.Slot(prev.Header.Timestamp)
	if nowSlot-prevSlot < 4 {
		return "", false, false, "clock too close to the chain"
	}
	T := n.NextValid(exh.Build{SkipSlots: nowSlot - 2 - prevSlot})
	if res := n.ProcessValidated(T, false); !res.OK() {
		panic("lbr: T rejected")
	}
	// T2: built against the state without T, for the current slot
	n.DeleteBlock(n.Tip(), false)
	T2 := n.NextValid(exh.Build{SkipSlots: nowSlot - 1 - prevSlot})
	if res := n.ProcessValidated(T, false); !res.OK() {
		panic("lbr: T not re-accepted")
	}
	if bytes.Equal(T2.Header.GeneratorAddress, T.Header.GeneratorAddress) {
		return "", false, false, "same generator in both slots"
	}
	onTime := time.Unix(int64(n.Exec.GetSlotTime(n.Slot(T.Header.Timestamp)))+1, 0)
	n.Exec.VerifC03SetLastBlockReceived(&onTime)
	if withGarbage {
		G := n.NextValid(exh.Build{})
		G.Header.Signature = flipSig(G.Header.Signature)
		G.Header.Init()
		res := n.Process(G)
		gRejected = !res.OK() && bytes.Equal(n.Tip().Header.ID, T.Header.ID)
		after := n.Exec.VerifC03LastBlockReceived()
		moved = after == nil || !after.Equal(onTime)
	}
	n.Process(T2)
	if n.Slot(uint32(time.Now().Unix())) != nowSlot {
		return "", false, false, "slot changed during the run"
	}
	switch {
	case bytes.Equal(n.Tip().Header.ID, T.Header.ID):
		tip = "T"
	case bytes.Equal(n.Tip().Header.ID, T2.Header.ID):
		tip = "T2"
	default:
		tip = "other"
	}
	return tip, gRejected, moved, ""
}

func lbrCases(r *hx.Rng) []lbrRec {
	out := []lbrRec{}
	for _, nv := range []int{3, 4, 5} {
		rec := lbrRec{K: "lbr", N: nv}
		for try := 0; try < 4; try++ {
			c, _, _, sk := lbrRun(nv, false)
			if sk != "" {
				rec.Skipped = sk
				continue
			}
			a, gr, mv, sk2 := lbrRun(nv, true)
			if sk2 != "" {
				rec.Skipped = sk2
				continue
			}
			rec.Control, rec.Attack, rec.GRejected, rec.LbrMovedByG, rec.Skipped = c, a, gr, mv, ""
			break
		}
		out = append(out, rec)
	}
	return out
}
