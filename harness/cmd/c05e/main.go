// C05 correspondence driver at Executer level: drives the REAL consensus.Executer (processValidated / deleteBlock)
// through internal/exh and records, per step, the full sorted DB dump before/after, the BFT votes digest, the cached
// tip, the temp blocks; per history a reorg-confluence twin and a restart; first record = duplicate-transaction scenario.
// Dumps are canonicalised under prefix 33 only (c05x.DumpCanon: diff lists sorted, Commit emits them in map order).
package main

import (
	"bytes"
	"encoding/json"
	"flag"
	"fmt"
	"os"
	"strconv"
	"time"

	"github.com/LiskHQ/lisk-engine/pkg/blockchain"
	"github.com/LiskHQ/lisk-engine/pkg/labi"

	"verifharness/internal/c05x"
	"verifharness/internal/exh"
	"verifharness/internal/hx"
)

const genesisTime = 1700000000

// diagnostics (stderr only; depend on Go map order, hence never part of the output)
var diagNonCanon, diagDiffRecs, diagTwinRawDiffer, diagTwins int

type blk struct {
	b      *blockchain.Block
	s      *exh.Script
	change bool
}

type hist struct {
	r             *hx.Rng
	n             *exh.Node
	chain         []blk // blocks currently on the chain, heights 1..tip, with the script each was applied under
	txSeed        uint64
	lastDel       *blk
	flushEvery    bool
	sameGenerator bool // the next built block uses the slot of the tip generator, one round later
}

func tipObs(n *exh.Node) *c05x.TipObs {
	if b := n.Tip(); b != nil {
		o := &c05x.TipObs{ID: c05x.Hex(b.Header.ID), Height: b.Header.Height}
		func() {
			defer func() { _ = recover() }()
			ok := false
			if stored, err := blockchain.NewDataAccess(n.DB, 1, 0).GetBlock(b.Header.ID); err == nil {
				ok = bytes.Equal(stored.Encode(), b.Encode())
			}
			o.BodyOK = &ok
		}()
		return o
	}
	return nil
}

// flushDiff forces a memtable flush (what a restart or a long run does) and answers the keys that read differently afterwards.
func flushDiff(n *exh.Node, before []c05x.KV) []string {
	c05x.Must(n.DB.VerifC05Flush())
	return c05x.DiffDumps(before, dump(n))
}

func fh(n *exh.Node) int64 {
	if v, err := n.Finalized(); err == nil {
		return int64(v)
	}
	return -1
}

func votes(n *exh.Node) string { return c05x.VotesDigest(n.Exec.VerifC03ConsensusStore()) }

func dump(n *exh.Node) []c05x.KV {
	d, nc := c05x.DumpCanon(n.DB)
	diagNonCanon += nc
	for _, kv := range d {
		if kv[0][:2] == "33" {
			diagDiffRecs++
		}
	}
	return d
}

func describe(b *blockchain.Block) c05x.BlkObs {
	o, _ := c05x.Describe(b, nil)
	return o
}

// sync truncates the shadow chain to the node's tip (a delete removes the cached tip whatever block it was given).
func (h *hist) sync() {
	if t := h.n.Tip(); t != nil && int(t.Header.Height) < len(h.chain) {
		h.chain = h.chain[:t.Header.Height]
	}
}

func (h *hist) events(height uint32) []*blockchain.Event {
	out := []*blockchain.Event{}
	for i, m := 0, h.r.Intn(3); i < m; i++ {
		out = append(out, exh.MakeEvent(h.r.U64(), height, 1+h.r.Intn(3)))
	}
	return out
}

// randomBuild picks a payload and the ABI script for a successor of the current tip.
func (h *hist) randomBuild(allowChange bool) (exh.Build, *exh.Script, bool) {
	r, n := h.r, h.n
	height := n.Tip().Header.Height + 1
	bo := exh.Build{SkipSlots: r.Intn(3)}
	for i, m := 0, r.Intn(3); i < m; i++ {
		h.txSeed++
		bo.Txs = append(bo.Txs, exh.MakeTx(h.txSeed, r.Intn(40)))
	}
	if r.Bool() {
		bo.Assets = []*blockchain.BlockAsset{{Module: "random", Data: r.Bytes(1 + r.Intn(8))}}
	}
	s := &exh.Script{BeforeEvents: h.events(height)}
	for range bo.Txs {
		s.TxEvents = append(s.TxEvents, h.events(height))
	}
	s.AfterEvents = h.events(height)
	if !allowChange || r.Intn(100) >= 15 {
		return bo, s, false
	}
	// validator-set change: random non-empty set of known identities (maybe a brand-new one), weight 1, 2/3+1 thresholds
	if len(n.Vals) < n.Opt.BatchSize && r.Intn(3) == 0 {
		n.AddValidator()
	}
	set := []*labi.Validator{}
	for _, v := range n.Vals {
		if r.Intn(5) != 0 && len(set) < n.Opt.BatchSize {
			set = append(set, v.Labi())
		}
	}
	if len(set) == 0 {
		set = append(set, n.Vals[r.Intn(len(n.Vals))].Labi())
	}
	s.NextValidators = set
	s.PreCommitThreshold = uint64(len(set))*2/3 + 1
	s.CertificateThreshold = s.PreCommitThreshold
	return bo, s, true
}

// build = randomBuild + NextValid under that script; avoid (if given) yields a block different from it.
func (h *hist) build(allowChange bool, avoid *blk) blk {
	bo, s, ch := h.randomBuild(allowChange)
	if h.sameGenerator {
		// sibling generated, N slots later, by the generator of the current tip: it contributes no new prevote/precommit, so a
		// finality advance made by the deleted block is NOT re-established (the stored marker must stay where it is)
		bo.SkipSlots, h.sameGenerator = 3, false
	}
	h.n.ABI.S = s
	b := h.n.NextValid(bo)
	if avoid != nil && bytes.Equal(b.Header.ID, avoid.b.Header.ID) {
		bo.SkipSlots++
		b = h.n.NextValid(bo)
	}
	return blk{b, s, ch}
}

func (h *hist) apply(x blk, removeTemp, reapply bool) *c05x.EApply {
	n := h.n
	n.ABI.S = x.s
	s := &c05x.EApply{Op: "apply", Pre: dump(n), Blk: describe(x.b), NEvents: len(x.s.AllEvents(len(x.b.Transactions))),
		RemoveTemp: removeTemp, FhPre: fh(n), ValChange: x.change, Reapply: reapply, VotesPre: votes(n)}
	if d, tip := h.lastDel, n.Tip(); d != nil && !reapply && tip != nil {
		s.Sibling = d.b.Header.Height == x.b.Header.Height && bytes.Equal(d.b.Header.PreviousBlockID, tip.Header.ID) &&
			bytes.Equal(x.b.Header.PreviousBlockID, tip.Header.ID) && !bytes.Equal(d.b.Header.ID, x.b.Header.ID)
	}
	r := n.ProcessValidated(x.b, removeTemp)
	s.Err, s.Panic = exh.ErrClass(r), r.Panic
	s.Post, s.FhPost, s.VotesPost, s.TipAfter = dump(n), fh(n), votes(n), tipObs(n)
	s.Blk.Events = c05x.Lookup(s.Post, c05x.HeightKey("09", x.b.Header.Height))
	if r.OK() {
		h.chain = append(h.chain, x)
	}
	return s
}

func (h *hist) del(b *blockchain.Block, saveTemp, below bool) *c05x.EDelete {
	n := h.n
	s := &c05x.EDelete{Op: "delete", Pre: dump(n), Blk: describe(b), SaveTemp: saveTemp, Height: b.Header.Height, ID: c05x.Hex(b.Header.ID),
		FhPre: fh(n), BelowFinalized: below, VotesPre: votes(n)}
	enc := b.Encode()
	var shadow *blk
	if l := len(h.chain); l > 0 && bytes.Equal(h.chain[l-1].b.Header.ID, b.Header.ID) {
		shadow = &h.chain[l-1]
	}
	r := n.DeleteBlock(b, saveTemp)
	s.Err, s.Panic = exh.ErrClass(r), r.Panic
	s.Post, s.VotesPost, s.TipAfter = dump(n), votes(n), tipObs(n)
	if h.flushEvery && r.OK() {
		s.FlushDiff = flushDiff(n, s.Post)
	}
	if r.OK() && shadow != nil {
		c := *shadow
		h.lastDel = &c
	}
	h.sync()
	func() {
		defer func() {
			if p := recover(); p != nil && s.Panic == "" {
				s.Panic = "GetTempBlocks"
			}
		}()
		temps, err := n.Chain.DataAccess().GetTempBlocks()
		if err != nil {
			return
		}
		s.TempIDs = []string{}
		ok := false
		for _, t := range temps {
			s.TempIDs = append(s.TempIDs, c05x.Hex(t.Header.ID))
			if bytes.Equal(t.Header.ID, b.Header.ID) && bytes.Equal(t.Encode(), enc) {
				ok = true
			}
		}
		if saveTemp && r.OK() {
			s.TempOK = &ok
		}
	}()
	return s
}

// twin: on A apply B, delete B, apply sibling B'; on a fresh node replay the chain then B'; both dumps are recorded.
func (h *hist) twin(opt exh.Options) *c05x.ETwin {
	n := h.n
	f := fh(n)
	if tip := n.Tip(); tip == nil || int64(tip.Header.Height) <= f {
		return nil
	}
	tw := &c05x.ETwin{Keep: n.Opt.KeepEvents, FhBPre: f, FhBPost: -1, ErrA: []string{}, ErrT: []string{}}
	c := append([]blk{}, h.chain...)
	x := h.build(true, nil)
	bo := describe(x.b)
	tw.B = &bo
	tw.A0 = dump(n)
	r := n.ProcessValidated(x.b, false)
	tw.ErrA, tw.FhBPost = append(tw.ErrA, exh.ErrClass(r)), fh(n)
	if !r.OK() {
		return tw
	}
	r = n.DeleteBlock(n.Tip(), false)
	if tw.ErrA = append(tw.ErrA, exh.ErrClass(r)); !r.OK() {
		return tw
	}
	y := h.build(true, &x)
	b2 := describe(y.b)
	tw.B2 = &b2
	tw.ErrA = append(tw.ErrA, exh.ErrClass(n.ProcessValidated(y.b, false)))
	tw.A, tw.TipA, tw.VotesA, tw.FhB2A = dump(n), tipObs(n), votes(n), fh(n)
	t, err := exh.New(opt)
	c05x.Must(err)
	for len(t.Vals) < len(n.Vals) { // same identities in the same order (MakeValidator(i) is deterministic in i)
		t.AddValidator()
	}
	for _, e := range c {
		t.ABI.S = e.s
		tw.ErrT = append(tw.ErrT, exh.ErrClass(t.ProcessValidated(e.b, false)))
	}
	tw.T0 = dump(t)
	t.ABI.S = y.s
	tw.ErrT = append(tw.ErrT, exh.ErrClass(t.ProcessValidated(y.b, false)))
	tw.T, tw.TipT, tw.VotesT, tw.FhB2T = dump(t), tipObs(t), votes(t), fh(t)
	// diagnostic: do the RAW stored diff records differ between A and the twin where the canonical ones agree?
	diagTwins++
	ra, rt := c05x.Dump(n.DB), c05x.Dump(t.DB)
	for _, kv := range ra {
		if v := c05x.Lookup(rt, kv[0]); kv[0][:2] == "33" && v != nil && *v != kv[1] && *c05x.Lookup(tw.A, kv[0]) == *c05x.Lookup(tw.T, kv[0]) {
			diagTwinRawDiffer++
		}
	}
	t.Exec.VerifC03StopTicker()
	_ = t.DB.Close()
	return tw
}

// restartStep: a process restart in the middle of a history.
func (h *hist) restartStep() *c05x.ERestartStep {
	n := h.n
	s := &c05x.ERestartStep{Op: "restart", Pre: dump(n), Err: "ok"}
	func() {
		defer func() {
			if p := recover(); p != nil {
				s.Panic = fmt.Sprint(p)
			}
		}()
		if err := n.Restart(); err != nil {
			s.Err = "other:" + err.Error()
		}
	}()
	s.Post, s.TipAfter = dump(n), tipObs(n)
	return s
}

func restart(n *exh.Node) *c05x.ERestart {
	o := &c05x.ERestart{DBTip: c05x.DBTip(dump(n))}
	func() {
		defer func() {
			if p := recover(); p != nil {
				o.Err = c05x.Str("panic")
			}
		}()
		o.Err = c05x.RestartClass(n.Restart())
		o.Tip = tipObs(n)
	}()
	return o
}

// newRng: per-history generator. hx.NewRng(s) starts splitmix64 at s*G, and every draw adds G, so NewRng(s+1) is NewRng(s)
// advanced by one draw: consecutive idx would give shifted copies of ONE stream. Its first output is used as the seed instead.
func newRng(seed, idx uint64) *hx.Rng { return hx.NewRng(hx.NewRng(seed*1000003 + idx).U64()) }

// watchdogScale: VERIF_WATCHDOG_X multiplies the time limits (the check retries once with a larger factor on a loaded machine).
func watchdogScale() time.Duration {
	if v, err := strconv.Atoi(os.Getenv("VERIF_WATCHDOG_X")); err == nil && v > 0 {
		return time.Duration(v)
	}
	return 1
}

func watchdog(what string) *time.Timer {
	return time.AfterFunc(120*time.Second*watchdogScale(), func() { fmt.Fprintln(os.Stderr, "c05e: timed out:", what); os.Exit(3) })
}

func runHist(seed, idx uint64, gt uint32) *c05x.EHist {
	defer watchdog(fmt.Sprint("history ", idx)).Stop()
	r := newRng(seed, idx)
	rec := &c05x.EHist{K: "ehist", Seed: seed, Idx: idx, GenesisTime: gt, Keep: c05x.Pick(r, -1, 0, 1, 2, 300), MaxCache: c05x.Pick(r, 1, 2, 3, 5, 515),
		NVals: 4, Steps: []interface{}{}}
	opt := exh.Options{N: 4, GenesisTime: gt, KeepEvents: rec.Keep, KeepEventsSet: true, MaxBlockCache: rec.MaxCache}
	n, err := exh.New(opt)
	c05x.Must(err)
	rec.FlushEvery = idx%2 == 0
	h := &hist{r: r, n: n, txSeed: (idx + 1) * 100000, flushEvery: rec.FlushEvery}
	afterDelete, raised, warm := false, false, 0
	if r.Intn(5) < 2 { // 40% of the histories start with 4..7 plain applies (ordinary recorded steps) so that finality moves
		warm = 4 + r.Intn(4)
	}
	for i, steps := -warm, 6+r.Intn(9); i < steps; i++ {
		tip, f := n.Tip(), fh(n)
		if i >= 0 && r.Intn(100) < 7 && f >= 0 { // deliberate attempt at or below the finalized height: must be refused
			if b, err := n.Chain.DataAccess().GetBlockByHeight(uint32(r.Intn(int(f) + 1))); err == nil {
				d := h.del(b, r.Bool(), true)
				rec.Steps = append(rec.Steps, d)
				afterDelete = afterDelete && d.Err != "ok"
				continue
			}
		}
		// a block that itself raised finality (and pruned diffs/events) is preferably deleted right away and replaced by a sibling
		wantDelete := r.Intn(100) < 40
		if raised {
			wantDelete = r.Intn(100) < 80
		}
		if i >= 0 && wantDelete && tip.Header.Height > 0 && int64(tip.Header.Height) > f {
			if r.Intn(4) == 0 {
				rec.Steps = append(rec.Steps, h.restartStep())
				tip = n.Tip()
			}
			d := h.del(tip, r.Bool(), false)
			rec.Steps = append(rec.Steps, d)
			afterDelete = d.Err == "ok" && h.lastDel != nil && c05x.Hex(h.lastDel.b.Header.ID) == d.ID
			h.sameGenerator = afterDelete && raised && r.Intn(100) < 70
			raised = false
			continue
		}
		var x blk
		removeTemp, reapply := r.Bool(), false
		switch p := r.Intn(100); {
		case afterDelete && (p < 60 || h.sameGenerator): // sibling of the block just deleted
			// history 0 carries the scripted tail (restart followed by several deletes): no validator-set change there, so that
			// finality cannot close in on the tip and the floor of the check is met by construction, not by chance
			x = h.build(idx != 0, h.lastDel)
		case afterDelete && p < 80: // the very same block object again
			x, removeTemp, reapply = *h.lastDel, true, true
		default:
			x = h.build(idx != 0, nil)
		}
		ea := h.apply(x, removeTemp, reapply)
		rec.Steps = append(rec.Steps, ea)
		afterDelete, raised = false, ea.Err == "ok" && ea.FhPost > ea.FhPre
	}
	if idx == 0 {
		// scripted tail of the first history (so that the check's count floors are met by construction): two tip deletes, each
		// followed by a sibling; the tip is above the finalized height after the applies, so the twin probe runs as well
		// restart, then delete every block above the finalized height (at most 3): the blocks below the tip were loaded by
		// PrepareCache; then grow again
		for j := 0; j < 3; j++ { // three blocks WITH transactions (and assets when the generator gives some)
			var x blk
			for k := 0; k < 12; k++ {
				if x = h.build(false, nil); len(x.b.Transactions) > 0 {
					break
				}
			}
			rec.Steps = append(rec.Steps, h.apply(x, false, false))
		}
		rec.Steps = append(rec.Steps, h.restartStep())
		for j := 0; j < 3; j++ {
			if tip, f := n.Tip(), fh(n); tip != nil && int64(tip.Header.Height) > f && tip.Header.Height > 0 {
				rec.Steps = append(rec.Steps, h.del(tip, j != 1, false))
			}
		}
		for j := 0; j < 3; j++ {
			rec.Steps = append(rec.Steps, h.apply(h.build(true, nil), false, false))
		}
		for j := 0; j < 2; j++ {
			if tip, f := n.Tip(), fh(n); tip != nil && int64(tip.Header.Height) > f {
				rec.Steps = append(rec.Steps, h.del(tip, j == 0, false))
			}
			rec.Steps = append(rec.Steps, h.apply(h.build(true, h.lastDel), false, false))
		}
		rec.Steps = append(rec.Steps, h.apply(h.build(true, nil), false, false))
	}
	rec.Twin = h.twin(opt)
	rec.FinalFlushDiff = flushDiff(n, dump(n))
	rec.Restart = restart(n)
	n.Exec.VerifC03StopTicker()
	_ = n.DB.Close()
	return rec
}

// runDup: B1 carries tx t, B2 on top carries the same t again; B2 is deleted; is t (still needed by B1) still stored?
func runDup(seed uint64, gt uint32) *c05x.EDup {
	defer watchdog("dup scenario").Stop()
	const idx = 1000002
	r := newRng(seed, idx)
	d := &c05x.EDup{K: "edup", Seed: seed, Idx: idx, GenesisTime: gt, Keep: -1, MaxCache: 3}
	n, err := exh.New(exh.Options{N: 4, GenesisTime: gt, MaxBlockCache: 3})
	c05x.Must(err)
	h := &hist{r: r, n: n, txSeed: 900000000}
	t := exh.MakeTx(h.txSeed, 8)
	d.T = c05x.Hex(t.ID)
	mk := func(txs []*blockchain.Transaction) blk {
		s := &exh.Script{}
		n.ABI.S = s
		return blk{n.NextValid(exh.Build{Txs: txs}), s, false}
	}
	b1 := mk([]*blockchain.Transaction{t})
	d.Apply1 = h.apply(b1, false, false)
	txs := []*blockchain.Transaction{t}
	if r.Bool() {
		txs = append(txs, exh.MakeTx(h.txSeed+1, 5))
	}
	d.Apply2 = h.apply(mk(txs), false, false)
	d.Accepted, d.Err = d.Apply2.Err == "ok", d.Apply2.Err
	if d.Accepted {
		d.Delete2 = h.del(n.Tip(), false, false)
	}
	d.TxRecordPresent = c05x.Lookup(dump(n), "06"+d.T) != nil
	func() {
		defer func() {
			if p := recover(); p != nil {
				d.GetB1Fresh = "panic"
			}
		}()
		_, err := blockchain.NewDataAccess(n.DB, 3, -1).GetBlock(b1.b.Header.ID)
		d.GetB1Fresh = exh.ErrClass(exh.Result{Err: err})
	}()
	rs := restart(n)
	d.RestartErr, d.RestartTip, d.DBTip = rs.Err, rs.Tip, rs.DBTip
	n.Exec.VerifC03StopTicker()
	_ = n.DB.Close()
	return d
}

func main() {
	out := flag.String("out", "", "output JSONL (required)")
	nh := flag.Int("n", 60, "number of generated histories")
	in := flag.String("in", "", "replay: JSONL of records carrying seed, idx, genesis_time; each history is re-generated")
	flag.Parse()
	if *out == "" {
		fmt.Fprintln(os.Stderr, "c05e: -out is required")
		os.Exit(2)
	}
	o := hx.NewOut(*out)
	defer o.Close()
	defer func() {
		fmt.Fprintf(os.Stderr, "c05e: diag diff-records-seen=%d stored-in-non-sorted-order=%d twins=%d twin-raw-diff-bytes-differ-only-in-order=%d\n",
			diagDiffRecs, diagNonCanon, diagTwins, diagTwinRawDiffer)
	}()
	if *in != "" {
		f, err := os.Open(*in)
		c05x.Must(err)
		defer f.Close()
		for dec := json.NewDecoder(f); dec.More(); {
			var rec c05x.EIn
			c05x.Must(dec.Decode(&rec))
			switch rec.K {
			case "ehist":
				o.Put(runHist(rec.Seed, rec.Idx, rec.GenesisTime))
			case "edup":
				o.Put(runDup(rec.Seed, rec.GenesisTime))
			}
		}
		return
	}
	seed := hx.SeedFromEnv()
	o.Put(runDup(seed, genesisTime))
	for i := 0; i < *nh; i++ {
		o.Put(runHist(seed, uint64(i), genesisTime))
	}
}
