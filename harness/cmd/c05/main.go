// C05 correspondence driver ("deleting the tip block restores the exact previous node state"): runs the real
// pkg/blockchain Chain/DataAccess together with a pkg/db/diffdb consensus-store batch on an in-memory pebble,
// mimicking consensus.Executer.processBlock / deleteBlock at the blockchain+diffdb level.
// One JSONL record per generated history (inputs + full DB dumps before/after every step).
package main

import (
	"encoding/json"
	"flag"
	"fmt"
	"os"
	"reflect"
	"strconv"
	"strings"
	"time"

	"github.com/LiskHQ/lisk-engine/pkg/blockchain"
	"github.com/LiskHQ/lisk-engine/pkg/collection/bytes"
	"github.com/LiskHQ/lisk-engine/pkg/db"
	"github.com/LiskHQ/lisk-engine/pkg/db/diffdb"

	"verifharness/internal/c05x"
	"verifharness/internal/hx"
)

type hstate struct {
	database   *db.DB
	chain      *blockchain.Chain
	flushEvery bool
	genesis    *blockchain.Block
	cfg        *blockchain.ChainConfig
	applied    []*blockchain.Block // shadow stack of successfully applied blocks (genesis first)
	lastDel    *blockchain.Block   // most recently deleted block and its events (generator: re-apply corner)
	lastDelE   []*blockchain.Event
	events     map[string][]*blockchain.Event
}

func (h *hstate) tip() *c05x.TipObs {
	if b := h.chain.LastBlock(); b != nil {
		o := &c05x.TipObs{ID: c05x.Hex(b.Header.ID), Height: b.Header.Height}
		func() {
			defer func() { _ = recover() }()
			ok := false
			if stored, err := blockchain.NewDataAccess(h.database, 1, 0).GetBlock(b.Header.ID); err == nil {
				ok = bytes.Equal(stored.Encode(), b.Encode())
			}
			o.BodyOK = &ok
		}()
		return o
	}
	return nil
}

// restart replaces the Chain by a fresh one over the same database: Init + PrepareCache, as Executer.Init does at start.
func (h *hstate) restart() *c05x.RestartStep {
	s := &c05x.RestartStep{Op: "restart", Pre: c05x.Dump(h.database)}
	var fresh *blockchain.Chain
	func() {
		defer func() {
			if r := recover(); r != nil {
				s.Panic = "PrepareCache"
			}
		}()
		cfg := *h.cfg
		chain := blockchain.NewChain(&cfg)
		chain.Init(h.genesis, h.database)
		if err := chain.PrepareCache(); err != nil {
			s.Err = c05x.Classify(err)
			return
		}
		fresh = chain
	}()
	s.Post = c05x.Dump(h.database)
	if fresh != nil {
		old := h.chain
		h.chain = fresh
		s.TipAfter = h.tip()
		if s.TipAfter == nil {
			// PrepareCache answered nil but left the cache empty (it swallows the error of reading the last block): the restarted
			// node has no tip; the observation is recorded and the history goes on with the chain object it had
			h.chain = old
		}
	}
	return s
}

// flushDiff forces a memtable flush and answers the keys that read differently afterwards.
func (h *hstate) flushDiff(before []c05x.KV) []string {
	c05x.Must(h.database.VerifC05Flush())
	return c05x.DiffDumps(before, c05x.Dump(h.database))
}

// tipBlock is the block generation continues from: the cached tip, or the shadow tip when the cache is empty.
func (h *hstate) tipBlock() *blockchain.Block {
	if b := h.chain.LastBlock(); b != nil {
		return b
	}
	return h.applied[len(h.applied)-1]
}

func (h *hstate) fh() *uint32 {
	if v, err := h.chain.DataAccess().GetFinalizedHeight(); err == nil {
		return &v
	}
	return nil
}

// apply mimics Executer.processBlock from consensusStore.Commit on. Inputs: s.Staged, s.Fh, s.RemoveTemp.
func (h *hstate) apply(s *c05x.ApplyStep, block *blockchain.Block, events []*blockchain.Event) {
	s.Op, s.Pre, s.FhPre = "apply", c05x.Dump(h.database), h.fh()
	s.Blk, s.EventsList = c05x.Describe(block, events)
	s.Diff, s.DiffRT, s.Pruned, s.Err, s.Panic = nil, false, nil, nil, ""
	site := "staged"
	func() {
		defer func() {
			if r := recover(); r != nil {
				s.Panic = site
			}
		}()
		store := diffdb.New(h.database, c05x.StatePrefix)
		// the consensus-store part of a block may contain snapshots that are restored (a failed transaction)
		for _, op := range s.Staged {
			switch op[0] {
			case "set":
				store.Set(c05x.Unhex(op[1])[1:], c05x.Unhex(op[2]))
			case "del":
				store.Del(c05x.Unhex(op[1])[1:])
			case "get":
				store.Get(c05x.Unhex(op[1])[1:])
			case "snap":
				store.Snapshot()
			case "restore":
				id, err := strconv.Atoi(op[1])
				c05x.Must(err)
				_ = store.RestoreSnapshot(id)
			default:
				panic("unknown staged op " + op[0])
			}
		}
		site = "GetFinalizedHeight"
		cur, err := h.chain.DataAccess().GetFinalizedHeight()
		if err != nil {
			s.Err = c05x.Str("no-finalized")
			return
		}
		site = "Commit"
		batch := h.database.NewBatch()
		diff := store.Commit(batch)
		c05x.SortDiff(diff)
		s.Diff = c05x.ObsDiff(diff)
		enc := diff.Encode()
		rt := &diffdb.Diff{}
		s.DiffRT = rt.Decode(enc) == nil && reflect.DeepEqual(c05x.ObsDiff(rt), s.Diff)
		batch.Set(c05x.DiffKey(block.Header.Height), enc)
		if s.Fh > cur {
			site = "prune"
			for _, key := range h.database.IterateKey(blockchain.DBPrefixToBytes(blockchain.DBPrefixStateDiff), -1, false) {
				if bytes.ToUint32(key[1:]) < s.Fh {
					batch.Del(key)
				}
			}
			s.Pruned = c05x.U32p(s.Fh)
		}
		site = "AddBlock"
		if err := h.chain.AddBlock(batch, block, events, s.Fh, s.RemoveTemp); err != nil {
			s.Err = c05x.Classify(err)
			return
		}
		h.applied = append(h.applied, block)
		h.events[string(block.Header.ID)] = events
	}()
	s.Post, s.TipAfter = c05x.Dump(h.database), h.tip()
}

// del mimics Executer.deleteBlock (without its finalized-height guard, which is only reported). Input: s.SaveTemp.
func (h *hstate) del(s *c05x.DeleteStep) {
	last := h.tipBlock()
	s.Op, s.Pre, s.FhPre = "delete", c05x.Dump(h.database), h.fh()
	s.Height, s.ID = last.Header.Height, c05x.Hex(last.Header.ID)
	s.Finalized = s.FhPre != nil && s.Height <= *s.FhPre
	if s.Finalized && s.Enforce {
		// Executer.deleteBlock: "block height %d cannot be deleted. Height %d is already finalized"
		s.DiffFound, s.Err, s.Panic, s.TempIDs, s.TempOK = false, c05x.Str("finalized"), "", nil, nil
		s.Post, s.TipAfter = c05x.Dump(h.database), h.tip()
		return
	}
	s.DiffFound, s.Err, s.Panic, s.TempIDs, s.TempOK = false, nil, "", nil, nil
	lastEnc := last.Encode()
	if top := h.applied[len(h.applied)-1]; bytes.Equal(top.Header.ID, last.Header.ID) {
		lastEnc = top.Encode() // the block as it was applied (the cached copy may have lost its body)
	}
	site := "Get"
	func() {
		defer func() {
			if r := recover(); r != nil {
				s.Panic = site
			}
		}()
		diffStore := diffdb.New(h.database, c05x.StatePrefix)
		diffBytes, exist := h.database.Get(c05x.DiffKey(s.Height))
		s.DiffFound = exist
		if !exist {
			s.Err = c05x.Str("no-diff")
			return
		}
		site = "Decode"
		diff := &diffdb.Diff{}
		if err := diff.Decode(diffBytes); err != nil {
			s.Err = c05x.Str("decode")
			return
		}
		site = "RevertDiff"
		batch := h.database.NewBatch()
		diffStore.RevertDiff(batch, diff)
		batch.Del(c05x.DiffKey(s.Height))
		site = "RemoveBlock"
		if err := h.chain.RemoveBlock(batch, s.SaveTemp); err != nil {
			s.Err = c05x.Classify(err)
			return
		}
		h.lastDel, h.lastDelE = last, h.events[string(last.Header.ID)]
		if len(h.applied) > 1 {
			h.applied = h.applied[:len(h.applied)-1]
		}
	}()
	s.Post, s.TipAfter = c05x.Dump(h.database), h.tip()
	site = "GetTempBlocks"
	func() {
		defer func() {
			if r := recover(); r != nil && s.Panic == "" {
				s.Panic = site
			}
		}()
		temps, err := h.chain.DataAccess().GetTempBlocks()
		if err != nil {
			return
		}
		s.TempIDs = []string{}
		ok := false
		for _, t := range temps {
			s.TempIDs = append(s.TempIDs, c05x.Hex(t.Header.ID))
			if bytes.Equal(t.Header.ID, last.Header.ID) && bytes.Equal(t.Encode(), lastEnc) {
				ok = true
			}
		}
		if s.SaveTemp && s.Err == nil && s.Panic == "" {
			s.TempOK = &ok
		}
	}()
	if h.flushEvery && s.Err == nil && s.Panic == "" {
		s.FlushDiff = h.flushDiff(s.Post)
	}
}

var scriptNext bool // the next generated history is the scripted one

func runHist(r *hx.Rng, in *c05x.HistIn) (rec c05x.HistRec) {
	gen := in == nil
	scripted := gen && scriptNext
	scriptNext = false
	if gen {
		rec.HistHead = c05x.HistHead{K: "hist", Keep: c05x.Pick(r, -1, 0, 1, 2, 300), MaxCache: c05x.Pick(r, 2, 3, 5, 515), GenesisHeight: uint32(r.Intn(4)),
			GenesisDiff: r.Bool(), Prestate: []c05x.KV{}, FlushEvery: r.Bool(), Drain: r.Intn(4) == 0}
		if rec.Drain {
			rec.MaxCache = c05x.Pick(r, 1, 2, 3)
		}
		if scripted {
			rec.Scripted, rec.Drain, rec.FlushEvery, rec.MaxCache = true, true, true, 3
		}
		for i, n := 0, r.Intn(5); i < n; i++ {
			rec.Prestate = append(rec.Prestate, c05x.KV{c05x.Hex(bytes.Join(c05x.StatePrefix, c05x.SmallKey(r))), c05x.Hex(r.Bytes(r.Intn(4)))})
		}
		rec.Genesis = c05x.Hex(c05x.GenBlock(r, rec.GenesisHeight, r.Bytes(32), []*blockchain.Transaction{}, true).Encode())
	} else {
		rec.HistHead = in.HistHead
	}
	rec.Steps = []interface{}{}
	scale := time.Duration(1)
	if v, err := strconv.Atoi(os.Getenv("VERIF_WATCHDOG_X")); err == nil && v > 0 {
		scale = time.Duration(v)
	}
	wd := time.AfterFunc(60*time.Second*scale, func() { fmt.Fprintln(os.Stderr, "c05: history timed out"); os.Exit(3) })
	defer wd.Stop()
	database, err := db.NewInMemoryDB()
	c05x.Must(err)
	for _, p := range rec.Prestate {
		database.Set(c05x.Unhex(p[0]), c05x.Unhex(p[1]))
	}
	genesis, err := blockchain.NewBlock(c05x.Unhex(rec.Genesis))
	c05x.Must(err)
	g := genesis.Header.Height
	cfg := &blockchain.ChainConfig{ChainID: []byte{0, 0, 0, 0}, MaxTransactionsLength: 15360, MaxBlockCache: rec.MaxCache, KeepEventsForHeights: rec.Keep}
	chain := blockchain.NewChain(cfg)
	chain.Init(genesis, database)
	batch := database.NewBatch()
	if rec.GenesisDiff {
		batch.Set(c05x.DiffKey(g), diffdb.New(database, c05x.StatePrefix).Commit(batch).Encode())
	}
	c05x.Must(chain.AddBlock(batch, genesis, nil, g, false))
	h := &hstate{database: database, chain: chain, applied: []*blockchain.Block{genesis}, events: map[string][]*blockchain.Event{},
		flushEvery: rec.FlushEvery, genesis: genesis, cfg: cfg}
	if gen {
		// drain: blocks with transactions (and assets), then more consecutive deletes than the block cache holds
		drainApply, drainDelete, restarted := 0, 0, false
		if rec.Drain {
			drainApply = rec.MaxCache + 2 + r.Intn(3)
			drainDelete = drainApply
		}
		steps := 4 + r.Intn(9) + 2*drainApply
		if scripted {
			steps = 2 * drainApply // exactly: apply drainApply blocks, delete them all
		}
		for i, n := 0, steps; i < n; i++ {
			tip := h.tipBlock()
			wantDelete := r.Intn(100) >= 55 && (tip.Header.Height > g || r.Intn(4) == 0)
			if drainApply > 0 {
				wantDelete = false
			} else if drainDelete > 0 && tip.Header.Height > g {
				wantDelete = true
				drainDelete--
			}
			// a restart (PrepareCache) right before a run of deletes: always between the applies and the deletes of a drain,
			// sometimes elsewhere; the deletes then work on blocks PrepareCache loaded
			if wantDelete && !restarted && ((rec.Drain && drainApply == 0 && (scripted || r.Intn(2) == 0)) || (!rec.Drain && r.Intn(5) == 0)) {
				rec.Steps = append(rec.Steps, h.restart())
				restarted = true
			}
			if !wantDelete {
				restarted = false
			}
			if wantDelete {
				s := &c05x.DeleteStep{SaveTemp: r.Bool(), Enforce: r.Intn(100) < 88}
				h.del(s)
				rec.Steps = append(rec.Steps, s)
				continue
			}
			s := &c05x.ApplyStep{RemoveTemp: r.Bool()}
			height := tip.Header.Height + 1
			var block *blockchain.Block
			var events []*blockchain.Event
			if d := h.lastDel; d != nil && d.Header.Height == height && bytes.Equal(d.Header.PreviousBlockID, tip.Header.ID) && r.Intn(100) < 15 {
				block, events, s.Reapply, s.RemoveTemp = d, h.lastDelE, true, r.Intn(4) != 0
			} else {
				txs := []*blockchain.Transaction{}
				for j, m := 0, r.Intn(4); j < m || (drainApply > 0 && j == 0); j++ {
					txs = append(txs, c05x.GenTx(r))
				}
				var stored []*blockchain.Transaction
				for _, b := range h.applied {
					stored = append(stored, b.Transactions...)
				}
				if len(stored) > 0 && r.Intn(10) == 0 && !rec.Drain {
					txs, s.DupTx = append(txs, stored[r.Intn(len(stored))]), true
				}
				block, events = c05x.GenBlock(r, height, tip.Header.ID, txs, false), c05x.GenEvents(r, height)
				if rec.Drain && len(block.Assets) == 0 { // drained blocks carry transactions AND assets
					block.Assets = append(block.Assets, &blockchain.BlockAsset{Module: "drain", Data: r.Bytes(3)})
					block.Init()
				}
			}
			s.Staged = c05x.GenStaged(r, database)
			if cur := h.fh(); cur != nil {
				if s.Fh = *cur; height > *cur && r.Intn(4) == 0 && drainApply == 0 && drainDelete == 0 {
					// finality usually lags behind the tip; sometimes the new block finalizes itself
					if hi := height - 1; hi > *cur && r.Intn(4) != 0 {
						s.Fh = *cur + 1 + uint32(r.Intn(int(hi-*cur)))
					} else {
						s.Fh = *cur + 1 + uint32(r.Intn(int(height-*cur)))
					}
				}
			}
			h.apply(s, block, events)
			rec.Steps = append(rec.Steps, s)
			if drainApply > 0 {
				drainApply--
			}
		}
	} else {
		for _, raw := range in.Steps {
			var op struct {
				Op string `json:"op"`
			}
			c05x.Must(json.Unmarshal(raw, &op))
			if op.Op == "restart" {
				rec.Steps = append(rec.Steps, h.restart())
				continue
			}
			if op.Op == "delete" {
				s := &c05x.DeleteStep{}
				c05x.Must(json.Unmarshal(raw, s))
				h.del(s)
				rec.Steps = append(rec.Steps, s)
				continue
			}
			s := &c05x.ApplyStep{}
			c05x.Must(json.Unmarshal(raw, s))
			block, err := blockchain.NewBlock(c05x.Unhex(s.Blk.Block))
			c05x.Must(err)
			events := []*blockchain.Event{}
			for _, e := range s.EventsList {
				ev, err := blockchain.NewEvent(c05x.Unhex(e))
				c05x.Must(err)
				events = append(events, ev)
			}
			h.apply(s, block, events)
			rec.Steps = append(rec.Steps, s)
		}
	}
	func() {
		defer func() {
			if r := recover(); r != nil {
				rec.FinalFlushDiff = []string{"panic"}
			}
		}()
		rec.FinalFlushDiff = h.flushDiff(c05x.Dump(database))
	}()
	// DB view of the tip from a fresh DataAccess (empty cache). GetLastBlock() only consults the cache, so the
	// exported DB-backed accessor GetLastBlockHeader() is used.
	func() {
		defer func() {
			if r := recover(); r != nil {
				rec.FinalErr = c05x.Str("panic")
			}
		}()
		hd, err := blockchain.NewDataAccess(database, rec.MaxCache, rec.Keep).GetLastBlockHeader()
		switch {
		case err == nil:
			rec.FinalDB = &c05x.TipObs{ID: c05x.Hex(hd.ID), Height: hd.Height}
		case err == db.ErrDataNotFound:
			rec.FinalErr = c05x.Str("not-found")
		default:
			rec.FinalErr = c05x.Str("other")
		}
	}()
	func() {
		defer func() {
			if r := recover(); r != nil {
				rec.PrepErr = c05x.Str("panic")
			}
		}()
		chain2 := blockchain.NewChain(&blockchain.ChainConfig{ChainID: []byte{0, 0, 0, 0}, MaxTransactionsLength: 15360, MaxBlockCache: rec.MaxCache, KeepEventsForHeights: rec.Keep})
		chain2.Init(genesis, database)
		if err := chain2.PrepareCache(); err != nil {
			rec.PrepErr = c05x.Classify(err)
			return
		}
		if lb := chain2.LastBlock(); lb != nil {
			rec.PrepTip = &c05x.TipObs{ID: c05x.Hex(lb.Header.ID), Height: lb.Header.Height}
		}
	}()
	if err := database.Close(); err != nil {
		rec.CloseErr = c05x.Str("other")
		if strings.Contains(err.Error(), "leaked iterators") {
			rec.CloseErr = c05x.Str("leaked-iterators")
		}
	}
	return rec
}

func main() {
	out := flag.String("out", "", "output JSONL (required)")
	n := flag.Int("n", 300, "number of generated histories")
	in := flag.String("in", "", "replay: JSONL of hist records to re-execute from their recorded inputs")
	flag.Parse()
	if *out == "" {
		fmt.Fprintln(os.Stderr, "c05: -out is required")
		os.Exit(2)
	}
	r := hx.NewRng(hx.SeedFromEnv())
	o := hx.NewOut(*out)
	defer o.Close()
	if *in != "" {
		f, err := os.Open(*in)
		c05x.Must(err)
		defer f.Close()
		for dec := json.NewDecoder(f); dec.More(); {
			var rec c05x.HistIn
			c05x.Must(dec.Decode(&rec))
			if rec.K == "hist" {
				o.Put(runHist(r, &rec))
			}
		}
		return
	}
	for i := 0; i < *n; i++ {
		scriptNext = i == 0
		o.Put(runHist(r, nil))
	}
}
