// C15 correspondence driver: transaction selection, persisted generator info across forge / tip change /
// restart / crash sequences, and acceptance of generated blocks by the same node's block processing.
// One JSONL record per case (input + projected observation of the implementation).
package main

import (
	"bytes"
	"context"
	"encoding/json"
	"flag"
	"fmt"
	"os"
	"strings"
	"time"

	"github.com/cockroachdb/pebble/vfs"

	"github.com/LiskHQ/lisk-engine/pkg/blockchain"
	"github.com/LiskHQ/lisk-engine/pkg/codec"
	"github.com/LiskHQ/lisk-engine/pkg/consensus"
	"github.com/LiskHQ/lisk-engine/pkg/consensus/certificate"
	"github.com/LiskHQ/lisk-engine/pkg/consensus/contradiction"
	"github.com/LiskHQ/lisk-engine/pkg/consensus/liskbft"
	"github.com/LiskHQ/lisk-engine/pkg/crypto"
	"github.com/LiskHQ/lisk-engine/pkg/db"
	"github.com/LiskHQ/lisk-engine/pkg/db/diffdb"
	"github.com/LiskHQ/lisk-engine/pkg/engine/config"
	"github.com/LiskHQ/lisk-engine/pkg/framework"
	"github.com/LiskHQ/lisk-engine/pkg/framework/blueprint"
	"github.com/LiskHQ/lisk-engine/pkg/generator"
	"github.com/LiskHQ/lisk-engine/pkg/labi"
	"github.com/LiskHQ/lisk-engine/pkg/log"
	"github.com/LiskHQ/lisk-engine/pkg/p2p"
	"github.com/LiskHQ/lisk-engine/pkg/statemachine"
	"github.com/LiskHQ/lisk-engine/pkg/trie/rmt"
	"github.com/LiskHQ/lisk-engine/pkg/txpool"

	"verifharness/internal/exh"
	"verifharness/internal/gsx"
	"verifharness/internal/hx"
)

func firstLine(v interface{}) string { return strings.SplitN(fmt.Sprint(v), "\n", 2)[0] }

// ---------------------------------------------------------------------------------------- selection

type selRec struct {
	K      string      `json:"k"`
	Pool   [][5]uint64 `json:"pool"` // sender, nonce, fee, size (filled by the harness), code
	PLen   []int       `json:"plen"` // params length per transaction (input that determines the size)
	Limit  int         `json:"limit"`
	Script [][2]uint64 `json:"script"` // code, verdict: 0 verify fails, 1 execute fails, 2 good
	Var    []int       `json:"var"`    // per transaction: variant of the failure / success answer
	Trace  []uint64    `json:"trace"`  // codes submitted to VerifyTransaction, in order
	Out    []uint64    `json:"out"`    // codes returned
	Err    string      `json:"err,omitempty"`
	Panic  string      `json:"panic,omitempty"`
}

// selABI answers VerifyTransaction / ExecuteTransaction per transaction ID and records the order of the calls.
type selABI struct {
	exh.ABI
	verdict  map[string]int
	variant  map[string]int
	code     map[string]uint64
	trace    []uint64
	executed int // transactions executed successfully so far (the state the next outcome may depend on)
}

func (m *selABI) VerifyTransaction(req *labi.VerifyTransactionRequest) (*labi.VerifyTransactionResponse, error) {
	id := string(req.Transaction.ID)
	m.trace = append(m.trace, m.code[id])
	if m.verdict[id] == 0 || (m.verdict[id] == 3 && m.executed%2 == 1) {
		switch m.variant[id] % 3 {
		case 0:
			return nil, fmt.Errorf("scripted verify error")
		case 1:
			return &labi.VerifyTransactionResponse{Result: labi.TxVerifyResultInvalid}, nil
		default:
			return &labi.VerifyTransactionResponse{Result: labi.TxVerifyResultPending}, nil
		}
	}
	return &labi.VerifyTransactionResponse{Result: labi.TxVerifyResultOk}, nil
}

func (m *selABI) ExecuteTransaction(req *labi.ExecuteTransactionRequest) (*labi.ExecuteTransactionResponse, error) {
	id := string(req.Transaction.ID)
	if m.verdict[id] == 1 || (m.verdict[id] == 4 && m.executed%2 == 0) {
		if m.variant[id]%2 == 0 {
			return nil, fmt.Errorf("scripted execute error")
		}
		return &labi.ExecuteTransactionResponse{Result: labi.TxExecuteResultInvalid}, nil
	}
	m.executed++
	if m.variant[id]%2 == 0 {
		return &labi.ExecuteTransactionResponse{Result: labi.TxExecuteResultFail}, nil // failed but included
	}
	return &labi.ExecuteTransactionResponse{Result: labi.TxExecuteResultSuccess}, nil
}

func senderKey(s uint64) []byte {
	k := make([]byte, 32)
	k[0] = 0xa5
	k[31] = byte(s)
	k[30] = byte(s >> 8)
	return k
}

func runSel(rec selRec) selRec {
	rec.K = "sel"
	rec.Trace, rec.Out = []uint64{}, []uint64{}
	rec.Err, rec.Panic = "", ""
	abi := &selABI{verdict: map[string]int{}, variant: map[string]int{}, code: map[string]uint64{}}
	verdictOf := map[uint64]int{}
	for _, s := range rec.Script {
		verdictOf[s[0]] = int(s[1])
	}
	txs := make([]*blockchain.Transaction, len(rec.Pool))
	for i := range rec.Pool {
		p := &rec.Pool[i]
		tx := &blockchain.Transaction{Module: "token", Command: "transfer", Nonce: p[1], Fee: p[2], SenderPublicKey: senderKey(p[0]),
			Params: make([]byte, rec.PLen[i]), Signatures: []codec.Hex{make([]byte, 64)}}
		tx.Params = append(tx.Params, byte(p[4]), byte(p[4]>>8)) // distinct IDs
		tx.Init()
		p[3] = uint64(tx.Size())
		txs[i] = tx
		v, ok := verdictOf[p[4]]
		if !ok {
			v = 2
		}
		abi.verdict[string(tx.ID)] = v
		abi.variant[string(tx.ID)] = rec.Var[i]
		abi.code[string(tx.ID)] = p[4]
	}
	chain := blockchain.NewChain(&blockchain.ChainConfig{ChainID: []byte{0, 0, 0, 1}, MaxBlockCache: 10})
	g := generator.NewGenerator(&generator.GeneratorParams{Chain: chain})
	header := &blockchain.BlockHeader{Version: 2, Height: 5}
	func() {
		defer func() {
			if r := recover(); r != nil {
				rec.Panic = "selectTransactionsByFee: " + firstLine(r)
			}
		}()
		out, err := g.VerifC15SelectTransactions(abi, header, txs, rec.Limit)
		if err != nil {
			rec.Err = firstLine(err)
			return
		}
		for _, tx := range out {
			rec.Out = append(rec.Out, abi.code[string(tx.ID)])
		}
	}()
	rec.Trace = append(rec.Trace, abi.trace...)
	return rec
}

func genSel(o *hx.Out, r *hx.Rng, n int) {
	for i := 0; i < n; i++ {
		ns := 1 + r.Intn(4)
		rec := selRec{}
		code := uint64(1)
		prios := []uint64{1, 2, 3, 5, 8}
		for s := 1; s <= ns; s++ {
			k := r.Intn(5)
			if r.Intn(10) == 0 {
				k = 0
			}
			nonces := []uint64{}
			base := uint64(r.Intn(3))
			for j := 0; j < k; j++ {
				nonces = append(nonces, base+uint64(j)+uint64(r.Intn(2)*j)) // mostly consecutive, sometimes gaps
			}
			for j := 1; j < len(nonces); j++ { // strictly increasing
				if nonces[j] <= nonces[j-1] {
					nonces[j] = nonces[j-1] + 1
				}
			}
			for _, nn := range nonces {
				plen := r.Intn(40)
				if r.Intn(4) == 0 {
					plen = 200 + r.Intn(300)
				}
				// fee chosen below once the size is known: store the wanted priority in the fee slot for now
				pr := prios[r.Intn(len(prios))]
				if r.Intn(3) == 0 {
					pr = uint64(r.Intn(12))
				}
				rec.Pool = append(rec.Pool, [5]uint64{uint64(s), nn, pr, 0, code})
				rec.PLen = append(rec.PLen, plen)
				rec.Var = append(rec.Var, r.Intn(6))
				v := uint64(2)
				switch r.Intn(12) {
				case 0, 1:
					v = 0
				case 2:
					v = 1
				case 3, 4:
					v = 3 // verification succeeds only after an even number of executed transactions
				case 5:
					v = 4 // execution succeeds only after an odd number
				}
				rec.Script = append(rec.Script, [2]uint64{code, v})
				code++
			}
		}
		// shuffle the pool (the pool hands transactions over in map order)
		for a := len(rec.Pool) - 1; a > 0; a-- {
			b := r.Intn(a + 1)
			rec.Pool[a], rec.Pool[b] = rec.Pool[b], rec.Pool[a]
			rec.PLen[a], rec.PLen[b] = rec.PLen[b], rec.PLen[a]
			rec.Var[a], rec.Var[b] = rec.Var[b], rec.Var[a]
		}
		// sizes: build once to learn them, then turn the wanted priority into a fee (priority*size + remainder)
		probe := runSel(rec)
		total := 0
		for a := range rec.Pool {
			sz := probe.Pool[a][3]
			rec.Pool[a][2] = rec.Pool[a][2]*sz + uint64(r.Intn(int(sz)))
			total += int(sz)
		}
		// the fee is part of the encoding: sizes can move by a byte or two; the final run reports the real sizes
		switch r.Intn(4) {
		case 0:
			rec.Limit = total + 10
		case 1:
			rec.Limit = r.Intn(total + 1)
		case 2:
			rec.Limit = total / 2
		default:
			rec.Limit = r.Intn(2*total + 2)
		}
		if rec.Pool == nil {
			rec.Pool, rec.PLen, rec.Var, rec.Script = [][5]uint64{}, []int{}, []int{}, [][2]uint64{}
		}
		o.Put(runSel(rec))
	}
}

// ---------------------------------------------------------------------------------------- generator info

type genEv struct {
	Op    string       `json:"op"`              // forge | tip | sync | restart
	T     [2]uint32    `json:"t,omitempty"`     // tip: state maxHeightPrevoted, height
	On    bool         `json:"on,omitempty"`    // sync: syncing on / off
	After uint32       `json:"after,omitempty"` // forge: state maxHeightPrevoted after the generated block (when it gets applied)
	Lost  bool         `json:"lost,omitempty"`  // forge: the process dies between persist and hand-off
	Drop  bool         `json:"drop,omitempty"`  // forge: the handed-over block is not processed (busy executer / full queue)
	Abort bool         `json:"abort,omitempty"` // forge: the tick dies before anything is persisted (here: the application fails Commit)
	All   []*[3]uint32 `json:"all,omitempty"`   // powerloss: the generator DB records of all keys after power loss and reopen
	Who   int          `json:"who"`             // forge: index of the enabled generator key whose slot it is
	// observation (forge)
	Forged bool       `json:"forged"`
	Hdr    [3]uint32  `json:"hdr"`              // height, maxHeightPrevoted, maxHeightGenerated
	Signer int        `json:"signer"`           // index of the key whose address the header carries (-1 unknown)
	AtHand *[3]uint32 `json:"athand,omitempty"` // generator DB entry when AddInternal is called
	Stored *[3]uint32 `json:"stored,omitempty"` // generator DB entry after forge returned
	Panic  string     `json:"panic,omitempty"`
}

type genRec struct {
	K    string    `json:"k"`
	T0   [2]uint32 `json:"t0"`
	Evs  []genEv   `json:"evs"`
	Fail string    `json:"fail,omitempty"` // harness-level failure
}

// fakeCons is the Consensus seen by the generator in the generator-info runs: slots, generator keys, BFT
// parameters and the aggregate commit come from a real single-validator Executer; the tip-dependent answers
// (maxHeightPrevoted, syncing) are set by the scenario; AddInternal captures the block.
type fakeCons struct {
	*consensus.Executer
	node    *exh.Node
	mhp     uint32
	syncing bool
	who     *exh.Validator // the generator list in force consists of this validator only: every slot is its slot
	onAdd   func(b *blockchain.Block)
}

func (c *fakeCons) GetGeneratorKeys(ctx *diffdb.Database, height uint32) (liskbft.Generators, error) {
	return liskbft.Generators{liskbft.NewGenerator(c.who.Addr, c.who.Pub)}, nil
}
func (c *fakeCons) GetBFTParameters(ctx *diffdb.Database, height uint32) (*liskbft.BFTParams, error) {
	return c.Executer.GetBFTParameters(ctx, 1) // the fake tip heights have no parameters of their own
}

func (c *fakeCons) Syncing() bool                   { return c.syncing }
func (c *fakeCons) AddInternal(b *blockchain.Block) { c.onAdd(b) }
func (c *fakeCons) GetBFTHeights(ctx *diffdb.Database) (uint32, uint32, uint32, error) {
	return c.mhp, 0, 0, nil
}
func (c *fakeCons) HeaderHasPriority(ctx *diffdb.Database, header blockchain.SealedBlockHeader, height, maxHeightPrevoted, maxHeightPreviouslyForged uint32) (bool, error) {
	return false, nil
}
func (c *fakeCons) ImpliesMaximalPrevotes(ctx *diffdb.Database, h blockchain.ReadableBlockHeader) (bool, error) {
	return false, nil
}
func (c *fakeCons) BFTBeforeTransactionsExecute(h blockchain.SealedBlockHeader, d *diffdb.Database) error {
	return nil
}

type genEnv struct {
	node *exh.Node
	gdb  *db.DB
	cfg  *config.Config
	lg   log.Logger
}

func newGenEnv(nVal int, blockTime uint32) (*genEnv, error) {
	n, err := exh.New(exh.Options{N: nVal, BlockTime: blockTime})
	if err != nil {
		return nil, err
	}
	return envFor(n)
}

func envFor(n *exh.Node) (*genEnv, error) {
	gdb, err := db.NewInMemoryDB()
	if err != nil {
		return nil, err
	}
	lg, _ := log.NewSilentLogger()
	cfg := &config.Config{System: &config.SystemConfig{}, Genesis: &config.GenesisConfig{BlockTime: 1, MaxTransactionsSize: 15360},
		Generator: &config.GeneratorConfig{Keys: &config.KeysConfig{}}}
	return &genEnv{node: n, gdb: gdb, cfg: cfg, lg: lg}, nil
}

func (e *genEnv) newGenerator(cons generator.Consensus, chain *blockchain.Chain) (*generator.Generator, error) {
	g := generator.NewGenerator(&generator.GeneratorParams{Consensus: cons, ABI: e.node.ABI, Pool: txpool.NewTransactionPool(nil), Chain: chain})
	if err := g.Init(&generator.GeneratorInitParams{CTX: context.Background(), Cfg: e.cfg, Logger: e.lg, BlockchainDB: e.node.DB, GeneratorDB: e.gdb}); err != nil {
		return nil, err
	}
	for _, v := range e.node.Vals {
		g.EnableGeneration(v.Addr, &generator.PlainKeys{GeneratorKey: v.Pub, GeneratorPrivateKey: v.Priv, BLSKey: v.BLS.PublicKey, BLSPrivateKey: v.BLS.PrivateKey})
	}
	return g, nil
}

func info3(i *generator.GeneratorInfo) *[3]uint32 {
	if i == nil {
		return nil
	}
	return &[3]uint32{i.Height, i.MaxHeightPrevoted, i.MaxHeightGenerated}
}

func runGen(rec genRec) genRec {
	rec.K = "gen"
	rec.Fail = ""
	env, err := newGenEnv(3, 10)
	if err != nil {
		rec.Fail = "env: " + err.Error()
		return rec
	}
	defer env.node.DB.Close()
	// the generator DB lives on a strict in-memory file system: what was not synced is lost at a power loss
	_ = env.gdb.Close()
	mem := vfs.NewStrictMem()
	if err := mem.MkdirAll("gen", 0o755); err != nil {
		rec.Fail = "mkdir: " + err.Error()
		return rec
	}
	for _, root := range []string{"/", ""} {
		if d, err := mem.OpenDir(root); err == nil {
			_ = d.Sync()
			_ = d.Close()
		}
	}
	env.gdb, err = db.VerifC13OpenFS(mem, "gen")
	if err != nil {
		rec.Fail = "open generator db: " + err.Error()
		return rec
	}
	defer func() { _ = env.gdb.Close() }()
	tip := rec.T0
	syncing := false
	// ONE Generator object lives across the forges (whatever it keeps in memory stays), a restart builds a new one
	var (
		chain *blockchain.Chain
		cons  *fakeCons
		g     *generator.Generator
	)
	start := func() error {
		chain = blockchain.NewChain(&blockchain.ChainConfig{ChainID: env.node.Opt.ChainID, MaxBlockCache: 10, KeepEventsForHeights: -1})
		fake := &blockchain.Block{Header: &blockchain.BlockHeader{Version: 2, ID: crypto.Hash([]byte("boot"))}, Assets: blockchain.BlockAssets{}}
		chain.Init(fake, env.node.DB)
		cons = &fakeCons{Executer: env.node.Exec, node: env.node, who: env.node.Vals[0]}
		cons.onAdd = func(b *blockchain.Block) {}
		var err error
		g, err = env.newGenerator(cons, chain)
		return err
	}
	if err := start(); err != nil {
		rec.Fail = "generator init: " + err.Error()
		return rec
	}
	for i := range rec.Evs {
		ev := &rec.Evs[i]
		ev.Forged, ev.Hdr, ev.AtHand, ev.Stored, ev.Panic, ev.Signer = false, [3]uint32{}, nil, nil, "", -1
		switch ev.Op {
		case "tip":
			tip = ev.T
		case "sync":
			syncing = ev.On
		case "restart":
			syncing = false
			if err := start(); err != nil {
				rec.Fail = "generator init: " + err.Error()
				return rec
			}
		case "powerloss":
			// the machine loses power: everything not synced to disk is gone; the old handle is abandoned, not closed
			syncing = false
			mem.ResetToSyncedState()
			env.gdb, err = db.VerifC13OpenFS(mem, "gen")
			if err != nil {
				rec.Fail = "reopen generator db: " + err.Error()
				return rec
			}
			if err := start(); err != nil {
				rec.Fail = "generator init: " + err.Error()
				return rec
			}
			ev.All = nil
			for _, v := range env.node.Vals {
				info, _, _ := g.VerifC15StoredInfo(v.Addr)
				ev.All = append(ev.All, info3(info))
			}
		case "forge":
			if ev.Who < 0 || ev.Who >= len(env.node.Vals) {
				rec.Fail = "who out of range"
				return rec
			}
			who := env.node.Vals[ev.Who]
			for attempt := 0; attempt < 6 && !ev.Forged && ev.Panic == ""; attempt++ {
				now := uint32(time.Now().Unix())
				slot := env.node.Exec.GetSlotNumber(now)
				prevSlotTime := env.node.Exec.GetSlotTime(slot - 1)
				fake := &blockchain.Block{Header: &blockchain.BlockHeader{Version: 2, Height: tip[1], Timestamp: prevSlotTime,
					ID: crypto.Hash([]byte(fmt.Sprintf("fake tip %d %d", tip[0], tip[1]))), StateRoot: crypto.Hash([]byte{}),
					MaxHeightPrevoted: tip[0]}, Assets: blockchain.BlockAssets{}, Transactions: []*blockchain.Transaction{}}
				chain.Init(fake, env.node.DB) // the same Chain object, a fresh cache holding the scripted tip
				if err := chain.DataAccess().Cache(fake); err != nil {
					rec.Fail = "cache: " + err.Error()
					return rec
				}
				cons.mhp, cons.syncing, cons.who = tip[0], syncing, who
				if ev.Abort {
					env.node.ABI.S = &exh.Script{FailCommit: true}
				} else {
					env.node.ABI.S = nil
				}
				cons.onAdd = func(b *blockchain.Block) {
					ev.Forged = true
					ev.Hdr = [3]uint32{b.Header.Height, b.Header.MaxHeightPrevoted, b.Header.MaxHeightGenerated}
					for vi, v := range env.node.Vals {
						if string(v.Addr) == string(b.Header.GeneratorAddress) {
							ev.Signer = vi
						}
					}
					info, _, _ := g.VerifC15StoredInfo(who.Addr)
					ev.AtHand = info3(info)
				}
				var startSec int64
				func() {
					defer func() {
						if r := recover(); r != nil {
							ev.Panic = "forge: " + firstLine(r)
						}
					}()
					startSec = time.Now().Unix()
					g.VerifC15Forge()
				}()
				info, _, _ := g.VerifC15StoredInfo(who.Addr)
				ev.Stored = info3(info)
				// a refusal is final unless the second changed under our feet (slot computed for the fake tip is then stale)
				if ev.Forged || time.Now().Unix() == startSec && uint32(startSec) == now {
					break
				}
			}
			if ev.Forged && !ev.Lost && !ev.Drop {
				tip = [2]uint32{ev.After, tip[1] + 1}
			}
			if ev.Lost && ev.Forged { // the process dies between persist and hand-off: what follows runs in a new process
				syncing = false
				if err := start(); err != nil {
					rec.Fail = "generator init: " + err.Error()
					return rec
				}
			}
		default:
			rec.Fail = "unknown op " + ev.Op
			return rec
		}
	}
	return rec
}

func genGen(o *hx.Out, r *hx.Rng, n int) {
	// the reproduced defects first: 99,100 on chain A then 90,91 on the better, shorter chain B; a second tick before the
	// own block is processed; a tip lowered by a failed sync
	o.Put(runGen(genRec{T0: [2]uint32{50, 98}, Evs: []genEv{{Op: "forge", After: 50}, {Op: "forge", After: 50},
		{Op: "tip", T: [2]uint32{60, 89}}, {Op: "forge", After: 60}, {Op: "forge", After: 60}}}))
	o.Put(runGen(genRec{T0: [2]uint32{3, 3}, Evs: []genEv{{Op: "forge", After: 3, Drop: true}, {Op: "forge", After: 3}}}))
	o.Put(runGen(genRec{T0: [2]uint32{0, 6}, Evs: []genEv{{Op: "forge", After: 0}, {Op: "tip", T: [2]uint32{0, 5}}, {Op: "forge", After: 0}}}))
	// two keys on one node: B generates 12; restart and switch to a better shorter chain; A generates 10; B's slot at 11
	o.Put(runGen(genRec{T0: [2]uint32{5, 11}, Evs: []genEv{{Op: "forge", Who: 1, After: 5}, {Op: "restart"}, {Op: "tip", T: [2]uint32{5, 9}},
		{Op: "forge", Who: 0, After: 5}, {Op: "forge", Who: 1, After: 5}}}))
	// power loss right after a hand-off: the record of the handed-on header must have been durable
	o.Put(runGen(genRec{T0: [2]uint32{4, 20}, Evs: []genEv{{Op: "forge", Who: 0, After: 4}, {Op: "powerloss"}, {Op: "forge", Who: 0, After: 4, Drop: true}, {Op: "powerloss"},
		{Op: "forge", Who: 1, After: 4}}}))
	// two keys alternating without a restart
	o.Put(runGen(genRec{T0: [2]uint32{2, 7}, Evs: []genEv{{Op: "forge", Who: 0, After: 2}, {Op: "forge", Who: 1, After: 2}, {Op: "forge", Who: 0, After: 3},
		{Op: "forge", Who: 2, After: 3}, {Op: "forge", Who: 1, After: 3}}}))
	for i := 0; i < n; i++ {
		t := [2]uint32{0, uint32(r.Intn(200))}
		t[0] = uint32(r.Intn(int(t[1]) + 1))
		if r.Intn(8) == 0 {
			t = [2]uint32{0xffffff00 - uint32(r.Intn(100)), 0xffffff80 - uint32(r.Intn(3))}
		}
		rec := genRec{T0: t}
		cur := t
		steps := 4 + r.Intn(9)
		for s := 0; s < steps; s++ {
			bump := func(x uint32, d int) uint32 {
				if uint64(x)+uint64(d) > 0xffffffff {
					return 0xffffffff
				}
				return x + uint32(d)
			}
			switch r.Intn(12) {
			case 0, 1, 2, 3, 4, 5:
				ev := genEv{Op: "forge", After: bump(cur[0], r.Intn(2)), Lost: r.Intn(7) == 0, Drop: r.Intn(7) == 0, Who: []int{0, 0, 1, 1, 2}[r.Intn(5)]}
				if r.Intn(9) == 0 {
					ev.Abort, ev.Lost, ev.Drop = true, false, false
				}
				rec.Evs = append(rec.Evs, ev)
				if !ev.Lost && !ev.Drop && !ev.Abort && cur[1] < 0xfffffff8 {
					cur = [2]uint32{ev.After, cur[1] + 1} // as if it forged; runGen moves the real tip only when it did
				}
			case 6: // valid block of someone else on top
				cur = [2]uint32{bump(cur[0], r.Intn(2)), cur[1] + 1}
				rec.Evs = append(rec.Evs, genEv{Op: "tip", T: cur})
			case 7: // better and shorter chain
				m := bump(cur[0], 1+r.Intn(5))
				h := cur[1] - uint32(r.Intn(int(cur[1]%40)+1))
				cur = [2]uint32{m, h}
				rec.Evs = append(rec.Evs, genEv{Op: "tip", T: cur})
			case 8: // anything: deletes, failed sync, lower tip, uint32 extremes
				switch r.Intn(3) {
				case 0:
					cur = [2]uint32{cur[0] - uint32(r.Intn(int(cur[0]%5)+1)), cur[1] - uint32(r.Intn(int(cur[1]%6)+1))}
				case 1:
					cur = [2]uint32{uint32(r.Intn(220)), uint32(r.Intn(220))}
				default:
					cur = [2]uint32{cur[0], 0xfffffff0 - uint32(r.Intn(2))} // (sealBlock asks for the parameters of height+1: stay clear of the wrap)
				}
				rec.Evs = append(rec.Evs, genEv{Op: "tip", T: cur})
			case 9:
				rec.Evs = append(rec.Evs, genEv{Op: "sync", On: r.Intn(2) == 0})
			case 10:
				rec.Evs = append(rec.Evs, genEv{Op: []string{"restart", "powerloss"}[r.Intn(2)]})
			default: // same tip again (tie break keeps the key)
				rec.Evs = append(rec.Evs, genEv{Op: "tip", T: cur})
			}
		}
		out := runGen(rec)
		o.Put(out)
	}
}

// ---------------------------------------------------------------------------------------- forging when the environment misbehaves
//
// "busy": the Executer does not process the handed-over block before the next tick (its queue is never drained here;
// the same happens when the queue is full and AddInternal drops the block): the generator is asked to forge again.
// "lower": the generator forges block X, X is applied; a block sync from a better peer fails after the deletions
// (the peer stops serving), leaving a lower tip; the generator is asked to forge again.
// Both headers come from the same generator: they must not contradict.

type dblRec struct {
	K       string    `json:"k"`
	Mode    string    `json:"mode"`
	First   [3]uint32 `json:"first"` // height, maxHeightPrevoted, maxHeightGenerated
	Second  [3]uint32 `json:"second"`
	Forged1 bool      `json:"forged1"`
	Forged2 bool      `json:"forged2"`
	Contra  bool      `json:"contra"` // AreDistinctHeadersContradicting(first, second)
	SameGen bool      `json:"samegen"`
	Fail    string    `json:"fail,omitempty"`
	Panic   string    `json:"panic,omitempty"`
}

type queueCons struct {
	*consensus.Executer
	got []*blockchain.Block
}

func (c *queueCons) AddInternal(b *blockchain.Block) {
	c.got = append(c.got, b)
	c.Executer.AddInternal(b) // queued; nothing drains the queue in this scenario
}

func forgeRetry(g *generator.Generator, count func() int, rec *dblRec, attempts int) bool {
	before := count()
	for attempt := 0; attempt < attempts && count() == before && rec.Panic == ""; attempt++ {
		func() {
			defer func() {
				if r := recover(); r != nil {
					rec.Panic = "forge: " + firstLine(r)
				}
			}()
			g.VerifC15Forge()
		}()
		if count() == before && rec.Panic == "" {
			time.Sleep(1050 * time.Millisecond)
		}
	}
	return count() > before
}

func hdr3(b *blockchain.Block) [3]uint32 {
	return [3]uint32{b.Header.Height, b.Header.MaxHeightPrevoted, b.Header.MaxHeightGenerated}
}

func finishDbl(rec *dblRec, got []*blockchain.Block) {
	if len(got) >= 1 {
		rec.First = hdr3(got[0])
	}
	if len(got) >= 2 {
		rec.Second = hdr3(got[1])
		rec.SameGen = string(got[0].Header.GeneratorAddress) == string(got[1].Header.GeneratorAddress)
		rec.Contra = contradiction.AreDistinctHeadersContradicting(contradiction.NewBFTBlockHeader(got[0].Header.Readonly()),
			contradiction.NewBFTBlockHeader(got[1].Header.Readonly()))
	}
}

func runDbl(mode string) (rec dblRec) {
	rec = dblRec{K: "dbl", Mode: mode}
	switch mode {
	case "busy":
		env, err := newGenEnv(1, 2)
		if err != nil {
			rec.Fail = err.Error()
			return rec
		}
		defer env.node.DB.Close()
		defer env.gdb.Close()
		for i := 0; i < 3; i++ {
			if r := env.node.ProcessValidated(env.node.NextValid(exh.Build{}), false); !r.OK() {
				rec.Fail = "pre block"
				return rec
			}
		}
		seedInfos(env)
		cons := &queueCons{Executer: env.node.Exec}
		g, err := env.newGenerator(cons, env.node.Chain)
		if err != nil {
			rec.Fail = err.Error()
			return rec
		}
		rec.Forged1 = forgeRetry(g, func() int { return len(cons.got) }, &rec, 5)
		time.Sleep(1100 * time.Millisecond) // the next tick of the check loop
		rec.Forged2 = forgeRetry(g, func() int { return len(cons.got) }, &rec, 2)
		finishDbl(&rec, cons.got)
	case "lower":
		var cons *captureCons
		var g *generator.Generator
		var env *genEnv
		got := []*blockchain.Block{}
		pre := func(a *exh.Node) {
			got = nil // a watchdog retry of gsx.RunSync runs pre and after again: only the last run counts
			cons, g, env = nil, nil, nil
			rec.Fail, rec.Forged1, rec.Forged2 = "", false, false // a panic of the first run is kept
			var err error
			env, err = envFor(a)
			if err != nil {
				rec.Fail = err.Error()
				return
			}
			seedInfos(env)
			cons = &captureCons{Executer: a.Exec}
			g, err = env.newGenerator(cons, a.Chain)
			if err != nil {
				rec.Fail = err.Error()
				return
			}
			rec.Forged1 = forgeRetry(g, func() int {
				if cons.got != nil {
					return 1
				}
				return 0
			}, &rec, 5)
			if cons.got != nil {
				got = append(got, cons.got)
				if r := a.Process(cons.got); !r.OK() {
					rec.Fail = "own block rejected: " + firstLine(r.Err)
				}
			}
		}
		after := func(a *exh.Node) {
			if g == nil || cons == nil || rec.Fail != "" {
				return
			}
			first := cons.got
			cons.got = nil
			g2, err := env.newGenerator(cons, a.Chain) // same generator DB; the chain object is the same
			if err != nil {
				rec.Fail = err.Error()
				return
			}
			_ = first
			rec.Forged2 = forgeRetry(g2, func() int {
				if cons.got != nil {
					return 1
				}
				return 0
			}, &rec, 2)
			if cons.got != nil {
				got = append(got, cons.got)
			}
		}
		obs := gsx.RunSync(gsx.SyncSpec{N: 4, Prefix: 4, Own: 2, Peer: 14, HCB: "honest", Corrupt: -1, ErrAfter: 1}, pre, after)
		if obs.Fail != "" && rec.Fail == "" {
			rec.Fail = "sync scenario: " + obs.Fail
		}
		if obs.Hang && rec.Fail == "" {
			rec.Fail = "sync hang" // both the 12 s and the 45 s run hit the watchdog: the scenario was not exercised
		}
		if rec.Fail == "" && len(obs.After) >= len(obs.Before) {
			rec.Fail = "the failing block sync did not lower the tip"
		}
		finishDbl(&rec, got)
	}
	return rec
}

// seedInfos writes the generator DB entries that the generator would hold had it produced the chain so far.
func seedInfos(env *genEnv) {
	n := env.node
	last := map[string]*generator.GeneratorInfo{}
	for h := uint32(1); h <= n.Tip().Header.Height; h++ {
		hd := n.HeaderAt(h)
		info := &generator.GeneratorInfo{Height: hd.Height, MaxHeightPrevoted: hd.MaxHeightPrevoted, MaxHeightGenerated: hd.MaxHeightGenerated}
		if prev, ok := last[string(hd.GeneratorAddress)]; ok && prev.Height > info.MaxHeightGenerated {
			info.MaxHeightGenerated = prev.Height
		}
		last[string(hd.GeneratorAddress)] = info
	}
	store := diffdb.New(env.gdb, generator.GeneratorDBPrefixGeneratedInfo)
	for a, info := range last {
		store.WithPrefix(generator.GeneratorDBPrefixGeneratedInfo).Set([]byte(a), info.Encode())
	}
	batch := env.gdb.NewBatch()
	store.Commit(batch)
	env.gdb.Write(batch)
}

// ---------------------------------------------------------------------------------------- in-process ABI handler
//
// The generator executes a pooled transaction against the application through the in-process framework.ABIHandler
// (the configuration without IPC): the transaction must be executed and selected, not crash the node.

type abiRec struct {
	K        string `json:"k"`
	Selected int    `json:"selected"`
	Err      string `json:"err,omitempty"`
	Panic    string `json:"panic,omitempty"`
	Fail     string `json:"fail,omitempty"`
}

type okCmd struct{}

func (okCmd) ID() uint32   { return 0 }
func (okCmd) Name() string { return "ok" }
func (okCmd) Verify(ctx *statemachine.TransactionVerifyContext) statemachine.VerifyResult {
	return statemachine.NewVerifyResultOK()
}
func (okCmd) Execute(ctx *statemachine.TransactionExecuteContext) error { return nil }

type okMod struct{ blueprint.Module }

func (m *okMod) Name() string                                        { return "m" }
func (m *okMod) GetCommand(name string) (statemachine.Command, bool) { return okCmd{}, true }

func runABI() (rec abiRec) {
	rec = abiRec{K: "abi"}
	lg, _ := log.NewSilentLogger()
	sm := statemachine.NewExecuter()
	sm.Init(lg)
	m := &okMod{}
	sm.AddModule(m)
	stateDB, _ := db.NewInMemoryDB()
	moduleDB, _ := db.NewInMemoryDB()
	defer stateDB.Close()
	defer moduleDB.Close()
	h := framework.NewABIHandler(context.Background(), nil, lg, sm, nil, stateDB, moduleDB, []framework.Module{m})
	header := &blockchain.BlockHeader{Version: 2, Height: 1, AggregateCommit: &blockchain.AggregateCommit{}}
	r, err := h.InitStateMachine(&labi.InitStateMachineRequest{Header: header})
	if err != nil {
		rec.Fail = "InitStateMachine: " + err.Error()
		return rec
	}
	tx := &blockchain.Transaction{Module: "m", Command: "ok", Nonce: 0, Fee: 100000, SenderPublicKey: senderKey(1), Params: []byte{1},
		Signatures: []codec.Hex{make([]byte, 64)}}
	tx.Init()
	chain := blockchain.NewChain(&blockchain.ChainConfig{ChainID: []byte{0, 0, 0, 1}, MaxBlockCache: 10})
	g := generator.NewGenerator(&generator.GeneratorParams{Chain: chain})
	func() {
		defer func() {
			if p := recover(); p != nil {
				rec.Panic = "generator ExecuteTransaction through framework.ABIHandler: " + firstLine(p)
			}
		}()
		out, err := g.VerifC15SelectTransactionsWith(h, r.ContextID, &labi.Consensus{}, header, []*blockchain.Transaction{tx}, 10000)
		if err != nil {
			rec.Err = firstLine(err)
			return
		}
		rec.Selected = len(out)
	}()
	return rec
}

// ---------------------------------------------------------------------------------------- acceptance

type accRec struct {
	K             string            `json:"k"`
	NVal          int               `json:"nval"`
	Pre           int               `json:"pre"`     // blocks on the chain before forging
	Events        int               `json:"events"`  // scripted events of the block execution
	Rounds        int               `json:"rounds"`  // consecutive forge+process rounds
	Senders       int               `json:"senders"` // transaction pool: senders x PerSender transactions
	PerSender     int               `json:"persender"`
	Limit         int               `json:"limit"`         // Genesis.MaxTransactionsSize given to the generator (0 = 15360)
	BadEvery      int               `json:"badevery"`      // every n-th pooled transaction fails verification at generation time (0 = none)
	Agg           bool              `json:"agg"`           // all validators certify the precommitted height first: a non-empty aggregate commit is available
	ExecMix       bool              `json:"execmix"`       // pooled transactions execute as success / fail (included) / invalid (excluded), with and without events
	NextVals      bool              `json:"nextvals"`      // the application returns a new validator set and thresholds from AfterTransactionsExecute
	PendingParams bool              `json:"pendingparams"` // a BFT parameter change at height H is not yet certified, maxHeightPrecommitted >= H, single commits for H-1 and H are pooled
	ParamsH       uint32            `json:"paramsh"`       // H: the height from which the changed parameters are in force (0 = none)
	Precommitted  uint32            `json:"precommitted"`  // the node's maxHeightPrecommitted before forging
	InvalidIn     []int             `json:"invalidin"`     // transactions scripted to execute as invalid found in the block
	Fields        []map[string]bool `json:"fields"`        // per round: header field == value recomputed independently by the harness
	Hdr           [][3]uint32       `json:"hdr"`           // per round: height, maxHeightPrevoted, maxHeightGenerated of the generated header
	TipH          []uint32          `json:"tiph"`          // per round: tip height before forging
	NodeMhp       []uint32          `json:"nodemhp"`
	Disk          []*[3]uint32      `json:"disk"`   // per round: the generator's persisted info before forging (height, mhp, mhg)
	AggLen        []int             `json:"agglen"` // per round: len(AggregationBits)
	Forged        []bool            `json:"forged"`
	Accepted      []bool            `json:"accepted"`
	TipIs         []bool            `json:"tipis"`
	NTx           []int             `json:"ntx"`     // transactions in the generated block
	Payload       []int             `json:"payload"` // their total size
	BadIn         []int             `json:"badin"`   // scripted-to-fail transactions found in the block
	AggH          []uint32          `json:"aggh"`    // aggregate commit height of the generated header
	Pooled        int               `json:"pooled"`  // processable transactions offered by the pool
	Errs          []string          `json:"errs,omitempty"`
	Panic         string            `json:"panic,omitempty"`
	Fail          string            `json:"fail,omitempty"`
}

type captureCons struct {
	*consensus.Executer
	got *blockchain.Block
}

func (c *captureCons) AddInternal(b *blockchain.Block) { c.got = b }

// nullConn is the p2p side of the transaction pool: nothing is sent anywhere.
type nullConn struct{}

func (nullConn) Broadcast(ctx context.Context, event string, data []byte) error { return nil }
func (nullConn) RegisterRPCHandler(endpoint string, handler p2p.RPCHandler, opts ...p2p.RPCHandlerOption) error {
	return nil
}
func (nullConn) RegisterEventHandler(name string, handler p2p.EventHandler, validator p2p.Validator) error {
	return nil
}
func (nullConn) ApplyPenalty(pid p2p.PeerID, score int) {}
func (nullConn) RequestFrom(ctx context.Context, peerID p2p.PeerID, procedure string, data []byte) p2p.Response {
	return p2p.Response{}
}
func (nullConn) Publish(ctx context.Context, topicName string, data []byte) error { return nil }

type okVerify struct{}

func (okVerify) VerifyTransaction(req *labi.VerifyTransactionRequest) (*labi.VerifyTransactionResponse, error) {
	return &labi.VerifyTransactionResponse{Result: labi.TxVerifyResultOk}, nil
}

// genABI is the generator's view of the application: the node's ABI double, except that scripted transactions fail
// VerifyTransaction while the block is being generated (e.g. insufficient balance at that moment).
type genABI struct {
	*exh.ABI
	bad   map[string]bool
	exec  map[string]int  // 0 success, 1 fail (included), 2 invalid (excluded)
	hasEv map[string]bool // the execution response carries an event
}

func txEvent(tx *blockchain.Transaction) *blockchain.Event {
	return &blockchain.Event{Module: "token", Name: "tx", Data: append([]byte{}, tx.ID[:4]...), Topics: []codec.Hex{append([]byte{}, tx.ID[:8]...)}}
}

func (m *genABI) ExecuteTransaction(req *labi.ExecuteTransactionRequest) (*labi.ExecuteTransactionResponse, error) {
	if m.exec == nil {
		return m.ABI.ExecuteTransaction(req)
	}
	id := string(req.Transaction.ID)
	evs := []*blockchain.Event{}
	if m.hasEv[id] {
		evs = append(evs, txEvent(req.Transaction))
	}
	switch m.exec[id] {
	case 2:
		return &labi.ExecuteTransactionResponse{Result: labi.TxExecuteResultInvalid, Events: evs}, nil
	case 1:
		m.ABI.NoteTx(req.Transaction.ID)
		return &labi.ExecuteTransactionResponse{Result: labi.TxExecuteResultFail, Events: evs}, nil
	}
	m.ABI.NoteTx(req.Transaction.ID)
	return &labi.ExecuteTransactionResponse{Result: labi.TxExecuteResultSuccess, Events: evs}, nil
}

func (m *genABI) VerifyTransaction(req *labi.VerifyTransactionRequest) (*labi.VerifyTransactionResponse, error) {
	if m.bad[string(req.Transaction.ID)] {
		return &labi.VerifyTransactionResponse{Result: labi.TxVerifyResultInvalid}, nil
	}
	return m.ABI.VerifyTransaction(req)
}

func poolTx(sender, nonce uint64, fee uint64, plen int) *blockchain.Transaction {
	sg := make([]byte, 64)
	sg[0], sg[1] = byte(sender), byte(nonce)
	tx := &blockchain.Transaction{Module: "token", Command: "transfer", Nonce: nonce, Fee: fee, SenderPublicKey: senderKey(sender),
		Params: make([]byte, plen), Signatures: []codec.Hex{sg}}
	tx.Init()
	return tx
}

func runAcc(rec accRec) accRec {
	rec.K = "acc"
	rec.Forged, rec.Accepted, rec.TipIs, rec.Errs, rec.Panic, rec.Fail = []bool{}, []bool{}, []bool{}, nil, "", ""
	rec.NTx, rec.Payload, rec.BadIn, rec.AggH, rec.Pooled, rec.InvalidIn = []int{}, []int{}, []int{}, []uint32{}, 0, []int{}
	rec.Fields, rec.Hdr, rec.TipH, rec.NodeMhp, rec.Disk, rec.AggLen = []map[string]bool{}, [][3]uint32{}, []uint32{}, []uint32{}, []*[3]uint32{}, []int{}
	env, err := newGenEnv(rec.NVal, 2) // 2 s slots: with 1 s slots `now <= slot start + waitThreshold` always holds
	if err != nil {
		rec.Fail = "env: " + err.Error()
		return rec
	}
	defer env.node.DB.Close()
	defer env.gdb.Close()
	n := env.node
	if rec.Limit > 0 {
		env.cfg.Genesis.MaxTransactionsSize = uint32(rec.Limit)
	}
	if rec.Events > 0 {
		evs := []*blockchain.Event{}
		for i := 0; i < rec.Events; i++ {
			evs = append(evs, &blockchain.Event{Module: "token", Name: "ev", Data: []byte{byte(i)}, Topics: []codec.Hex{{1}}, Height: 0, Index: 0})
		}
		n.ABI.S = &exh.Script{AfterEvents: evs}
	}
	for i := 0; i < rec.Pre; i++ {
		b := n.NextValid(exh.Build{})
		if r := n.ProcessValidated(b, false); !r.OK() {
			rec.Fail = fmt.Sprintf("pre block %d: %v %s", i, r.Err, r.Panic)
			return rec
		}
	}
	if rec.PendingParams {
		// block P changes the certificate threshold: the new parameters are in force from H = P+1; then enough blocks for
		// maxHeightPrecommitted to reach H; nothing is certified yet (maxHeightCertified = 0)
		lv := []*labi.Validator{}
		for _, v := range n.Vals {
			lv = append(lv, v.Labi())
		}
		total := uint64(len(lv))
		keep := n.ABI.S
		n.ABI.S = &exh.Script{NextValidators: lv, PreCommitThreshold: total*2/3 + 1, CertificateThreshold: total}
		bp := n.NextValid(exh.Build{})
		if r := n.ProcessValidated(bp, false); !r.OK() {
			rec.Fail = fmt.Sprintf("parameter-change block: %v %s", r.Err, r.Panic)
			return rec
		}
		n.ABI.S = keep
		rec.ParamsH = bp.Header.Height + 1
		for i := 0; i < 20; i++ {
			if _, prec, _ := n.Heights(); prec >= rec.ParamsH {
				break
			}
			if r := n.ProcessValidated(n.NextValid(exh.Build{}), false); !r.OK() {
				rec.Fail = fmt.Sprintf("block after the parameter change: %v %s", r.Err, r.Panic)
				return rec
			}
		}
		_, prec, cert := n.Heights()
		rec.Precommitted = prec
		if prec < rec.ParamsH || cert >= rec.ParamsH-1 {
			rec.Fail = fmt.Sprintf("scenario not reached: precommitted %d certified %d H %d", prec, cert, rec.ParamsH)
			return rec
		}
		// single commits of every validator for H-1 and for H are in the pool
		for _, h := range []uint32{rec.ParamsH - 1, rec.ParamsH} {
			hd := n.HeaderAt(h)
			for _, v := range n.Vals {
				n.Exec.VerifC06Pool().Add(certificate.NewSingleCommit(hd, v.Addr, n.Opt.ChainID, v.BLS.PrivateKey))
			}
		}
	}
	seedInfos(env)
	if n.ABI.S == nil {
		n.ABI.S = &exh.Script{}
	}
	n.ABI.S.ComputeStateRoot = true // from here on the application computes the state root itself
	if rec.NextVals {
		if n.ABI.S == nil {
			n.ABI.S = &exh.Script{}
		}
		nv := []*labi.Validator{}
		for _, v := range n.Vals[:len(n.Vals)-1] {
			nv = append(nv, v.Labi())
		}
		thr := uint64(len(nv))*2/3 + 1
		n.ABI.S.NextValidators, n.ABI.S.PreCommitThreshold, n.ABI.S.CertificateThreshold = nv, thr, thr
	}
	if rec.Agg {
		_, prec, _ := n.Heights()
		for _, v := range n.Vals {
			if err := n.Exec.Certify(0, prec, v.Addr, v.BLS.PrivateKey); err != nil {
				rec.Fail = "certify: " + err.Error()
				return rec
			}
		}
	}
	// transaction pool with processable transactions
	pool := txpool.NewTransactionPool(nil)
	if err := pool.Init(context.Background(), env.lg, n.DB, n.Chain, nullConn{}, okVerify{}); err != nil {
		rec.Fail = "pool init: " + err.Error()
		return rec
	}
	bad := map[string]bool{}
	var exec map[string]int
	hasEv := map[string]bool{}
	if rec.ExecMix {
		exec = map[string]int{}
	}
	cnt := 0
	for s := 1; s <= rec.Senders; s++ {
		for k := 0; k < rec.PerSender; k++ {
			tx := poolTx(uint64(s), uint64(k), uint64(100000+1000*((s*7+k*3)%5)), 20+((s+k)%3)*60)
			cnt++
			if rec.BadEvery > 0 && cnt%rec.BadEvery == 0 {
				bad[string(tx.ID)] = true
			}
			if rec.ExecMix {
				exec[string(tx.ID)] = (s + 2*k) % 3
				hasEv[string(tx.ID)] = (s+k)%2 == 0
			}
			pool.Add(tx)
		}
	}
	pool.VerifC14Reorg()
	rec.Pooled = len(pool.GetProcessable())

	infoBefore := map[string][3]uint32{}
	cons := &captureCons{Executer: n.Exec}
	g := generator.NewGenerator(&generator.GeneratorParams{Consensus: cons, ABI: &genABI{ABI: n.ABI, bad: bad, exec: exec, hasEv: hasEv}, Pool: pool, Chain: n.Chain})
	if err := g.Init(&generator.GeneratorInitParams{CTX: context.Background(), Cfg: env.cfg, Logger: env.lg, BlockchainDB: n.DB, GeneratorDB: env.gdb}); err != nil {
		rec.Fail = "generator init: " + err.Error()
		return rec
	}
	for _, v := range n.Vals {
		g.EnableGeneration(v.Addr, &generator.PlainKeys{GeneratorKey: v.Pub, GeneratorPrivateKey: v.Priv, BLSKey: v.BLS.PublicKey, BLSPrivateKey: v.BLS.PrivateKey})
		if info, ok, _ := g.VerifC15StoredInfo(v.Addr); ok && info != nil {
			infoBefore[string(v.Addr)] = [3]uint32{info.Height, info.MaxHeightPrevoted, info.MaxHeightGenerated}
		}
	}
	for round := 0; round < rec.Rounds; round++ {
		cons.got = nil
		tipBefore := n.Tip().Header
		mhpBefore, _, _ := n.Heights()
		vhashBefore := n.PostValidatorsHash()
		var clockBefore, clockAfter uint32 // wall clock read immediately around the forge call that produced the block
		for attempt := 0; attempt < 5 && cons.got == nil && rec.Panic == ""; attempt++ {
			func() {
				defer func() {
					if r := recover(); r != nil {
						rec.Panic = "forge: " + firstLine(r)
					}
				}()
				clockBefore = uint32(time.Now().Unix())
				g.VerifC15Forge()
				clockAfter = uint32(time.Now().Unix())
			}()
			if cons.got == nil && rec.Panic == "" {
				time.Sleep(1050 * time.Millisecond) // same slot as the tip / slot boundary: next second
			}
		}
		rec.Forged = append(rec.Forged, cons.got != nil)
		if cons.got == nil {
			rec.Accepted = append(rec.Accepted, false)
			rec.TipIs = append(rec.TipIs, false)
			break
		}
		blk := cons.got
		size, badIn, invalidIn := 0, 0, 0
		txEvs := [][]*blockchain.Event{}
		for _, tx := range blk.Transactions {
			size += tx.Size()
			if bad[string(tx.ID)] {
				badIn++
			}
			if exec != nil && exec[string(tx.ID)] == 2 {
				invalidIn++
			}
			if hasEv[string(tx.ID)] {
				txEvs = append(txEvs, []*blockchain.Event{txEvent(tx)})
			} else {
				txEvs = append(txEvs, nil)
			}
		}
		rec.InvalidIn = append(rec.InvalidIn, invalidIn)
		// every sealed field against a value recomputed here, independently of the generator
		ids := make([][]byte, len(blk.Transactions))
		for i, tx := range blk.Transactions {
			ids[i] = tx.ID
		}
		hd := blk.Header
		fields := map[string]bool{}
		fields["stateRoot"] = bytes.Equal(hd.StateRoot, exh.RootOf(tipBefore.StateRoot, ids))
		fields["transactionRoot"] = bytes.Equal(hd.TransactionRoot, rmt.CalculateRoot(ids))
		fields["assetRoot"] = bytes.Equal(hd.AssetRoot, blockchain.BlockAssets(blk.Assets).GetRoot())
		fields["validatorsHash"] = bytes.Equal(hd.ValidatorsHash, vhashBefore)
		fields["previousBlockID"] = bytes.Equal(hd.PreviousBlockID, tipBefore.ID)
		fields["height"] = hd.Height == tipBefore.Height+1
		fields["maxHeightPrevoted"] = hd.MaxHeightPrevoted == mhpBefore
		gen := n.GeneratorAt(hd.Timestamp)
		fields["generator"] = gen != nil && bytes.Equal(gen.Addr, hd.GeneratorAddress)
		fields["timestampSlot"] = n.Slot(hd.Timestamp) > n.Slot(tipBefore.Timestamp) && n.Slot(clockBefore) <= n.Slot(hd.Timestamp) && n.Slot(hd.Timestamp) <= n.Slot(clockAfter)
		wantBits := 0
		if len(hd.AggregateCommit.CertificateSignature) > 0 { // a non-empty commit: one bit per validator of the set
			wantBits = (len(n.Vals) + 7) / 8
		}
		fields["aggregationBitsLen"] = len(hd.AggregateCommit.AggregationBits) == wantBits
		// a pooled commit was made available before the first round: it must be used there (afterwards it is certified already)
		// with a parameter change pending at H the certifiable range ends at H-1 (computed here from the scenario, not from
		// the node): the pooled commit for H-1 must be the one sealed in the first round
		if rec.PendingParams && round == 0 {
			fields["aggregateCommitBound"] = hd.AggregateCommit.Height == rec.ParamsH-1
		}
		fields["aggregateCommitPresent"] = !(rec.Agg || rec.PendingParams) || round > 0 || len(hd.AggregateCommit.CertificateSignature) > 0
		rec.AggLen = append(rec.AggLen, len(hd.AggregateCommit.AggregationBits))
		rec.Hdr = append(rec.Hdr, [3]uint32{hd.Height, hd.MaxHeightPrevoted, hd.MaxHeightGenerated})
		rec.TipH = append(rec.TipH, tipBefore.Height)
		rec.NodeMhp = append(rec.NodeMhp, mhpBefore)
		var disk *[3]uint32
		if prevInfo, ok := infoBefore[string(hd.GeneratorAddress)]; ok {
			disk = &prevInfo
		}
		rec.Disk = append(rec.Disk, disk)
		infoBefore[string(hd.GeneratorAddress)] = [3]uint32{hd.Height, hd.MaxHeightPrevoted, hd.MaxHeightGenerated}
		// the node executes the block against the same application: the same events for the same transactions
		if n.ABI.S == nil {
			n.ABI.S = &exh.Script{}
		}
		n.ABI.S.TxEvents = txEvs
		if er, err := blockchain.CalculateEventRoot(n.ABI.S.AllEvents(len(blk.Transactions))); err == nil {
			fields["eventRoot"] = bytes.Equal(hd.EventRoot, er)
		} else {
			fields["eventRoot"] = false
		}
		rec.Fields = append(rec.Fields, fields)
		rec.NTx = append(rec.NTx, len(blk.Transactions))
		rec.Payload = append(rec.Payload, size)
		rec.BadIn = append(rec.BadIn, badIn)
		rec.AggH = append(rec.AggH, blk.Header.AggregateCommit.Height)
		res := n.Process(clone(blk))
		rec.Accepted = append(rec.Accepted, res.OK())
		if !res.OK() {
			rec.Errs = append(rec.Errs, firstLine(res.Err)+" "+firstLine(res.Panic))
		}
		rec.TipIs = append(rec.TipIs, string(n.Tip().Header.ID) == string(blk.Header.ID))
		for _, tx := range blk.Transactions { // what the generator's onNewBlock does
			pool.Remove(tx.ID)
		}
	}
	return rec
}

func clone(b *blockchain.Block) *blockchain.Block {
	nb, err := blockchain.NewBlock(b.Encode())
	if err != nil {
		panic(err)
	}
	return nb
}

func genAcc(o *hx.Out, r *hx.Rng, n int) {
	fixed := []accRec{
		{NVal: 4, Pre: 3, Rounds: 1, Senders: 3, PerSender: 3},                        // transactions, all fine
		{NVal: 4, Pre: 2, Rounds: 1, Senders: 4, PerSender: 3, BadEvery: 3},           // some fail verification
		{NVal: 4, Pre: 2, Rounds: 2, Senders: 4, PerSender: 4, Limit: 500},            // size limit hit, two rounds
		{NVal: 4, Pre: 14, Rounds: 1, Senders: 2, PerSender: 2, Agg: true, Events: 1}, // aggregate commit available
		{NVal: 4, Pre: 3, Rounds: 2, Senders: 4, PerSender: 3, ExecMix: true},         // execute success / fail / invalid, with and without events
		{NVal: 4, Pre: 3, Rounds: 1, Senders: 2, PerSender: 2, NextVals: true},        // the block changes the validator set
		{NVal: 8, Pre: 26, Rounds: 1, Senders: 1, PerSender: 1, Agg: true},            // validator count a multiple of 8: length of the aggregation bits
		{NVal: 4, Pre: 6, Rounds: 1, Senders: 1, PerSender: 1, PendingParams: true},   // uncertified parameter change, commits pooled around it
	}
	for i := 0; i < n; i++ {
		if i < len(fixed) {
			o.Put(runAcc(fixed[i]))
			continue
		}
		rec := accRec{NVal: []int{1, 2, 4}[r.Intn(3)], Pre: r.Intn(9), Events: r.Intn(3), Rounds: 1 + r.Intn(2),
			Senders: r.Intn(5), PerSender: 1 + r.Intn(4)}
		if r.Intn(2) == 0 {
			rec.BadEvery = 2 + r.Intn(3)
		}
		if r.Intn(2) == 0 {
			rec.Limit = 200 + r.Intn(900)
		}
		rec.ExecMix = r.Intn(2) == 0
		if r.Intn(3) == 0 {
			rec.Agg = true
			rec.NVal = 4
			rec.Pre = 10 + r.Intn(8)
		}
		o.Put(runAcc(rec))
	}
}

func main() {
	out := flag.String("out", "cases.jsonl", "output")
	nsel := flag.Int("sel", 800, "selection cases")
	ngen := flag.Int("gen", 150, "generator info sequences")
	nacc := flag.Int("acc", 4, "acceptance scenarios")
	ndbl := flag.Int("dbl", 1, "run the two misbehaving-environment forge scenarios (0 = skip)")
	in := flag.String("in", "", "replay: JSONL of records to re-run")
	flag.Parse()
	r := hx.NewRng(hx.SeedFromEnv())
	o := hx.NewOut(*out)
	defer o.Close()
	if *in != "" {
		data, err := os.ReadFile(*in)
		if err != nil {
			panic(err)
		}
		for _, line := range strings.Split(string(data), "\n") {
			if strings.TrimSpace(line) == "" {
				continue
			}
			var probe struct {
				K string `json:"k"`
			}
			if err := json.Unmarshal([]byte(line), &probe); err != nil {
				panic(err)
			}
			switch probe.K {
			case "sel":
				var rec selRec
				if err := json.Unmarshal([]byte(line), &rec); err != nil {
					panic(err)
				}
				o.Put(runSel(rec))
			case "gen":
				var rec genRec
				if err := json.Unmarshal([]byte(line), &rec); err != nil {
					panic(err)
				}
				o.Put(runGen(rec))
			case "acc":
				var rec accRec
				if err := json.Unmarshal([]byte(line), &rec); err != nil {
					panic(err)
				}
				o.Put(runAcc(rec))
			case "abi":
				o.Put(runABI())
			case "dbl":
				var rec dblRec
				if err := json.Unmarshal([]byte(line), &rec); err != nil {
					panic(err)
				}
				o.Put(runDbl(rec.Mode))
			default:
				panic("unknown record kind " + probe.K)
			}
		}
		return
	}
	genSel(o, r, *nsel)
	genGen(o, r, *ngen)
	genAcc(o, r, *nacc)
	o.Put(runABI())
	if *ndbl > 0 {
		o.Put(runDbl("busy"))
		o.Put(runDbl("lower"))
	}
}
