// C15 correspondence driver: transaction selection, persisted generator info across forge / tip change /
// restart / crash sequences, and acceptance of generated blocks by the same node's block processing.
// One JSONL record per case (input + projected observation of the implementation).
package main

import (
	"context"
	"encoding/json"
	"flag"
	"fmt"
	"os"
	"strings"
	"time"

	"github.com/LiskHQ/lisk-engine/pkg/blockchain"
	"github.com/LiskHQ/lisk-engine/pkg/codec"
	"github.com/LiskHQ/lisk-engine/pkg/consensus"
	"github.com/LiskHQ/lisk-engine/pkg/crypto"
	"github.com/LiskHQ/lisk-engine/pkg/db"
	"github.com/LiskHQ/lisk-engine/pkg/db/diffdb"
	"github.com/LiskHQ/lisk-engine/pkg/engine/config"
	"github.com/LiskHQ/lisk-engine/pkg/generator"
	"github.com/LiskHQ/lisk-engine/pkg/labi"
	"github.com/LiskHQ/lisk-engine/pkg/log"
	"github.com/LiskHQ/lisk-engine/pkg/txpool"

	"verifharness/internal/exh"
	"verifharness/internal/hx"
)

func firstLine(v interface{}) string { return strings.SplitN(fmt.Sprint(v), "\n", 2)[0] }

// ---------------------------------------------------------------------------------------- selection

type selRec struct {
	K      string      `json:"k"`
	Pool   [][5]uint64 `json:"pool"` // sender, nonce, fee, size (filled by the harness), code
	PLen   []int       `json:"plen"` // params length per transaction (input that determines the size)
	Limit  int         `json:"limit"`
	Script [][2]uint64 `json:"script"` // code, verdict: 0 verify fails, 1 execute fails, 2 good
	Var    []int       `json:"var"`    // per transaction: variant of the failure / success answer
	Trace  []uint64    `json:"trace"`  // codes submitted to VerifyTransaction, in order
	Out    []uint64    `json:"out"`    // codes returned
	Err    string      `json:"err,omitempty"`
	Panic  string      `json:"panic,omitempty"`
}

// selABI answers VerifyTransaction / ExecuteTransaction per transaction ID and records the order of the calls.
type selABI struct {
	exh.ABI
	verdict map[string]int
	variant map[string]int
	code    map[string]uint64
	trace   []uint64
}

func (m *selABI) VerifyTransaction(req *labi.VerifyTransactionRequest) (*labi.VerifyTransactionResponse, error) {
	id := string(req.Transaction.ID)
	m.trace = append(m.trace, m.code[id])
	if m.verdict[id] == 0 {
		switch m.variant[id] % 3 {
		case 0:
			return nil, fmt.Errorf("scripted verify error")
		case 1:
			return &labi.VerifyTransactionResponse{Result: labi.TxVerifyResultInvalid}, nil
		default:
			return &labi.VerifyTransactionResponse{Result: labi.TxVerifyResultPending}, nil
		}
	}
	return &labi.VerifyTransactionResponse{Result: labi.TxVerifyResultOk}, nil
}

func (m *selABI) ExecuteTransaction(req *labi.ExecuteTransactionRequest) (*labi.ExecuteTransactionResponse, error) {
	id := string(req.Transaction.ID)
	if m.verdict[id] == 1 {
		if m.variant[id]%2 == 0 {
			return nil, fmt.Errorf("scripted execute error")
		}
		return &labi.ExecuteTransactionResponse{Result: labi.TxExecuteResultInvalid}, nil
	}
	if m.variant[id]%2 == 0 {
		return &labi.ExecuteTransactionResponse{Result: labi.TxExecuteResultFail}, nil // failed but included
	}
	return &labi.ExecuteTransactionResponse{Result: labi.TxExecuteResultSuccess}, nil
}

func senderKey(s uint64) []byte {
	k := make([]byte, 32)
	k[0] = 0xa5
	k[31] = byte(s)
	k[30] = byte(s >> 8)
	return k
}

func runSel(rec selRec) selRec {
	rec.K = "sel"
	rec.Trace, rec.Out = []uint64{}, []uint64{}
	rec.Err, rec.Panic = "", ""
	abi := &selABI{verdict: map[string]int{}, variant: map[string]int{}, code: map[string]uint64{}}
	verdictOf := map[uint64]int{}
	for _, s := range rec.Script {
		verdictOf[s[0]] = int(s[1])
	}
	txs := make([]*blockchain.Transaction, len(rec.Pool))
	for i := range rec.Pool {
		p := &rec.Pool[i]
		tx := &blockchain.Transaction{Module: "token", Command: "transfer", Nonce: p[1], Fee: p[2], SenderPublicKey: senderKey(p[0]),
			Params: make([]byte, rec.PLen[i]), Signatures: []codec.Hex{make([]byte, 64)}}
		tx.Params = append(tx.Params, byte(p[4]), byte(p[4]>>8)) // distinct IDs
		tx.Init()
		p[3] = uint64(tx.Size())
		txs[i] = tx
		v, ok := verdictOf[p[4]]
		if !ok {
			v = 2
		}
		abi.verdict[string(tx.ID)] = v
		abi.variant[string(tx.ID)] = rec.Var[i]
		abi.code[string(tx.ID)] = p[4]
	}
	chain := blockchain.NewChain(&blockchain.ChainConfig{ChainID: []byte{0, 0, 0, 1}, MaxBlockCache: 10})
	g := generator.NewGenerator(&generator.GeneratorParams{Chain: chain})
	header := &blockchain.BlockHeader{Version: 2, Height: 5}
	func() {
		defer func() {
			if r := recover(); r != nil {
				rec.Panic = "selectTransactionsByFee: " + firstLine(r)
			}
		}()
		out, err := g.VerifC15SelectTransactions(abi, header, txs, rec.Limit)
		if err != nil {
			rec.Err = firstLine(err)
			return
		}
		for _, tx := range out {
			rec.Out = append(rec.Out, abi.code[string(tx.ID)])
		}
	}()
	rec.Trace = append(rec.Trace, abi.trace...)
	return rec
}

func genSel(o *hx.Out, r *hx.Rng, n int) {
	for i := 0; i < n; i++ {
		ns := 1 + r.Intn(4)
		rec := selRec{}
		code := uint64(1)
		prios := []uint64{1, 2, 3, 5, 8}
		for s := 1; s <= ns; s++ {
			k := r.Intn(5)
			if r.Intn(10) == 0 {
				k = 0
			}
			nonces := []uint64{}
			base := uint64(r.Intn(3))
			for j := 0; j < k; j++ {
				nonces = append(nonces, base+uint64(j)+uint64(r.Intn(2)*j)) // mostly consecutive, sometimes gaps
			}
			for j := 1; j < len(nonces); j++ { // strictly increasing
				if nonces[j] <= nonces[j-1] {
					nonces[j] = nonces[j-1] + 1
				}
			}
			for _, nn := range nonces {
				plen := r.Intn(40)
				if r.Intn(4) == 0 {
					plen = 200 + r.Intn(300)
				}
				// fee chosen below once the size is known: store the wanted priority in the fee slot for now
				pr := prios[r.Intn(len(prios))]
				if r.Intn(3) == 0 {
					pr = uint64(r.Intn(12))
				}
				rec.Pool = append(rec.Pool, [5]uint64{uint64(s), nn, pr, 0, code})
				rec.PLen = append(rec.PLen, plen)
				rec.Var = append(rec.Var, r.Intn(6))
				v := uint64(2)
				switch r.Intn(10) {
				case 0, 1:
					v = 0
				case 2:
					v = 1
				}
				rec.Script = append(rec.Script, [2]uint64{code, v})
				code++
			}
		}
		// shuffle the pool (the pool hands transactions over in map order)
		for a := len(rec.Pool) - 1; a > 0; a-- {
			b := r.Intn(a + 1)
			rec.Pool[a], rec.Pool[b] = rec.Pool[b], rec.Pool[a]
			rec.PLen[a], rec.PLen[b] = rec.PLen[b], rec.PLen[a]
			rec.Var[a], rec.Var[b] = rec.Var[b], rec.Var[a]
		}
		// sizes: build once to learn them, then turn the wanted priority into a fee (priority*size + remainder)
		probe := runSel(rec)
		total := 0
		for a := range rec.Pool {
			sz := probe.Pool[a][3]
			rec.Pool[a][2] = rec.Pool[a][2]*sz + uint64(r.Intn(int(sz)))
			total += int(sz)
		}
		// the fee is part of the encoding: sizes can move by a byte or two; the final run reports the real sizes
		switch r.Intn(4) {
		case 0:
			rec.Limit = total + 10
		case 1:
			rec.Limit = r.Intn(total + 1)
		case 2:
			rec.Limit = total / 2
		default:
			rec.Limit = r.Intn(2*total + 2)
		}
		if rec.Pool == nil {
			rec.Pool, rec.PLen, rec.Var, rec.Script = [][5]uint64{}, []int{}, []int{}, [][2]uint64{}
		}
		o.Put(runSel(rec))
	}
}

// ---------------------------------------------------------------------------------------- generator info

type genEv struct {
	Op    string    `json:"op"`              // forge | tip | begin | delete | apply | end | restart
	T     [3]uint32 `json:"t,omitempty"`     // tip: header maxHeightPrevoted, state maxHeightPrevoted, height
	After uint32    `json:"after,omitempty"` // forge: state maxHeightPrevoted after the generated block
	Lost  bool      `json:"lost,omitempty"`  // forge: the process dies between persist and hand-off
	// observation (forge)
	Forged bool       `json:"forged"`
	Hdr    [3]uint32  `json:"hdr"`              // height, maxHeightPrevoted, maxHeightGenerated
	AtHand *[3]uint32 `json:"athand,omitempty"` // generator DB entry when AddInternal is called
	Stored *[3]uint32 `json:"stored,omitempty"` // generator DB entry after forge returned
	Panic  string     `json:"panic,omitempty"`
}

type genRec struct {
	K    string    `json:"k"`
	T0   [3]uint32 `json:"t0"`
	Evs  []genEv   `json:"evs"`
	Fail string    `json:"fail,omitempty"` // harness-level failure
}

// fakeCons is the Consensus seen by the generator in the generator-info runs: slots, generator keys, BFT
// parameters and the aggregate commit come from a real single-validator Executer; the tip-dependent answers
// (maxHeightPrevoted, syncing) are set by the scenario; AddInternal captures the block.
type fakeCons struct {
	*consensus.Executer
	node    *exh.Node
	mhp     uint32
	syncing bool
	onAdd   func(b *blockchain.Block)
}

func (c *fakeCons) Syncing() bool                   { return c.syncing }
func (c *fakeCons) AddInternal(b *blockchain.Block) { c.onAdd(b) }
func (c *fakeCons) GetBFTHeights(ctx *diffdb.Database) (uint32, uint32, uint32, error) {
	return c.mhp, 0, 0, nil
}
func (c *fakeCons) HeaderHasPriority(ctx *diffdb.Database, header blockchain.SealedBlockHeader, height, maxHeightPrevoted, maxHeightPreviouslyForged uint32) (bool, error) {
	return false, nil
}
func (c *fakeCons) ImpliesMaximalPrevotes(ctx *diffdb.Database, h blockchain.ReadableBlockHeader) (bool, error) {
	return false, nil
}
func (c *fakeCons) BFTBeforeTransactionsExecute(h blockchain.SealedBlockHeader, d *diffdb.Database) error {
	return nil
}

type genEnv struct {
	node *exh.Node
	gdb  *db.DB
	cfg  *config.Config
	lg   log.Logger
}

func newGenEnv(nVal int, blockTime uint32) (*genEnv, error) {
	n, err := exh.New(exh.Options{N: nVal, BlockTime: blockTime})
	if err != nil {
		return nil, err
	}
	gdb, err := db.NewInMemoryDB()
	if err != nil {
		return nil, err
	}
	lg, _ := log.NewSilentLogger()
	cfg := &config.Config{System: &config.SystemConfig{}, Genesis: &config.GenesisConfig{BlockTime: 1, MaxTransactionsSize: 15360},
		Generator: &config.GeneratorConfig{Keys: &config.KeysConfig{}}}
	return &genEnv{node: n, gdb: gdb, cfg: cfg, lg: lg}, nil
}

func (e *genEnv) newGenerator(cons generator.Consensus, chain *blockchain.Chain) (*generator.Generator, error) {
	g := generator.NewGenerator(&generator.GeneratorParams{Consensus: cons, ABI: e.node.ABI, Pool: txpool.NewTransactionPool(nil), Chain: chain})
	if err := g.Init(&generator.GeneratorInitParams{CTX: context.Background(), Cfg: e.cfg, Logger: e.lg, BlockchainDB: e.node.DB, GeneratorDB: e.gdb}); err != nil {
		return nil, err
	}
	for _, v := range e.node.Vals {
		g.EnableGeneration(v.Addr, &generator.PlainKeys{GeneratorKey: v.Pub, GeneratorPrivateKey: v.Priv, BLSKey: v.BLS.PublicKey, BLSPrivateKey: v.BLS.PrivateKey})
	}
	return g, nil
}

func info3(i *generator.GeneratorInfo) *[3]uint32 {
	if i == nil {
		return nil
	}
	return &[3]uint32{i.Height, i.MaxHeightPrevoted, i.MaxHeightGenerated}
}

func runGen(rec genRec) genRec {
	rec.K = "gen"
	rec.Fail = ""
	env, err := newGenEnv(1, 10)
	if err != nil {
		rec.Fail = "env: " + err.Error()
		return rec
	}
	defer env.node.DB.Close()
	defer env.gdb.Close()
	addr := env.node.Vals[0].Addr
	tip := rec.T0
	syncing := false
	for i := range rec.Evs {
		ev := &rec.Evs[i]
		ev.Forged, ev.Hdr, ev.AtHand, ev.Stored, ev.Panic = false, [3]uint32{}, nil, nil, ""
		switch ev.Op {
		case "tip", "delete", "apply":
			tip = ev.T
		case "begin":
			syncing = true
		case "end":
			syncing = false
		case "restart":
			// a new Generator object is built for every forge below: nothing else lives in memory
		case "forge":
			for attempt := 0; attempt < 4 && !ev.Forged && ev.Panic == ""; attempt++ {
				now := uint32(time.Now().Unix())
				slot := env.node.Exec.GetSlotNumber(now)
				prevSlotTime := env.node.Exec.GetSlotTime(slot - 1)
				fake := &blockchain.Block{Header: &blockchain.BlockHeader{Version: 2, Height: tip[2], Timestamp: prevSlotTime,
					ID: crypto.Hash([]byte(fmt.Sprintf("fake tip %d %d %d", tip[0], tip[1], tip[2]))), StateRoot: crypto.Hash([]byte{}),
					MaxHeightPrevoted: tip[0]}, Assets: blockchain.BlockAssets{}, Transactions: []*blockchain.Transaction{}}
				chain := blockchain.NewChain(&blockchain.ChainConfig{ChainID: env.node.Opt.ChainID, MaxBlockCache: 10, KeepEventsForHeights: -1})
				chain.Init(fake, env.node.DB)
				if err := chain.DataAccess().Cache(fake); err != nil {
					rec.Fail = "cache: " + err.Error()
					return rec
				}
				cons := &fakeCons{Executer: env.node.Exec, node: env.node, mhp: tip[1], syncing: syncing}
				var g *generator.Generator
				cons.onAdd = func(b *blockchain.Block) {
					ev.Forged = true
					ev.Hdr = [3]uint32{b.Header.Height, b.Header.MaxHeightPrevoted, b.Header.MaxHeightGenerated}
					info, _, _ := g.VerifC15StoredInfo(addr)
					ev.AtHand = info3(info)
				}
				g, err = env.newGenerator(cons, chain)
				if err != nil {
					rec.Fail = "generator init: " + err.Error()
					return rec
				}
				func() {
					defer func() {
						if r := recover(); r != nil {
							ev.Panic = "forge: " + firstLine(r)
						}
					}()
					g.VerifC15Forge()
				}()
				info, _, _ := g.VerifC15StoredInfo(addr)
				ev.Stored = info3(info)
				if syncing {
					break // a single attempt: nothing may be forged while syncing
				}
				if !ev.Forged && ev.Panic == "" {
					time.Sleep(1100 * time.Millisecond) // slot boundary / wait threshold: try again in the next second
				}
			}
			if ev.Forged && !ev.Lost {
				tip = [3]uint32{tip[1], ev.After, tip[2] + 1}
			}
		default:
			rec.Fail = "unknown op " + ev.Op
			return rec
		}
	}
	return rec
}

func keyLe(a, b [3]uint32) bool { return a[0] < b[0] || (a[0] == b[0] && a[2] <= b[2]) }

func genGen(o *hx.Out, r *hx.Rng, n int) {
	// the reproduced defect first: 99,100 on chain A, then 90,91 on the better, shorter chain B
	o.Put(runGen(genRec{T0: [3]uint32{50, 50, 98}, Evs: []genEv{{Op: "forge", After: 50}, {Op: "forge", After: 50},
		{Op: "tip", T: [3]uint32{60, 60, 89}}, {Op: "forge", After: 60}, {Op: "forge", After: 60}}}))
	for i := 0; i < n; i++ {
		t := [3]uint32{0, 0, uint32(r.Intn(200))}
		t[0] = uint32(r.Intn(int(t[2]) + 1))
		t[1] = t[0] + uint32(r.Intn(int(t[2]-t[0])+1))
		if r.Intn(8) == 0 {
			t = [3]uint32{0xfffffff0 - uint32(r.Intn(100)), 0xfffffff0, 0xfffffff5 - uint32(r.Intn(3))}
		}
		rec := genRec{T0: t}
		cur := t
		var orig *[3]uint32
		steps := 4 + r.Intn(8)
		for s := 0; s < steps; s++ {
			bump := func(x uint32, d int) uint32 {
				if uint64(x)+uint64(d) > 0xfffffffd {
					return 0xfffffffd
				}
				return x + uint32(d)
			}
			randTip := func() [3]uint32 { // any well-formed tip (used during a switch)
				h := uint32(r.Intn(220))
				m := uint32(r.Intn(int(h) + 1))
				return [3]uint32{m, m + uint32(r.Intn(int(h-m)+1)), h}
			}
			betterTip := func(from [3]uint32) [3]uint32 { // key_le from result
				switch r.Intn(4) {
				case 0: // valid block on top
					return [3]uint32{from[1], bump(from[1], r.Intn(2)), bump(from[2], 1)}
				case 1: // tie break: same key
					return [3]uint32{from[0], bump(from[0], r.Intn(3)), from[2]}
				case 2: // better and shorter chain
					m := bump(from[0], 1+r.Intn(5))
					h := from[2] - uint32(r.Intn(int(from[2]%40)+1))
					if h < m {
						h = m
					}
					return [3]uint32{m, bump(m, r.Intn(3)), h}
				default: // longer chain, same maxHeightPrevoted
					return [3]uint32{from[0], bump(from[0], r.Intn(3)), bump(from[2], 1+r.Intn(6))}
				}
			}
			if orig != nil {
				switch r.Intn(5) {
				case 0:
					rec.Evs = append(rec.Evs, genEv{Op: "forge"}) // must be refused while syncing
				case 1, 2:
					cur = randTip()
					rec.Evs = append(rec.Evs, genEv{Op: []string{"delete", "apply"}[r.Intn(2)], T: cur})
				default:
					cur = betterTip(*orig)
					rec.Evs = append(rec.Evs, genEv{Op: "apply", T: cur}, genEv{Op: "end"})
					orig = nil
				}
				continue
			}
			switch r.Intn(10) {
			case 0, 1, 2, 3, 4:
				ev := genEv{Op: "forge", After: bump(cur[1], r.Intn(2)), Lost: r.Intn(6) == 0}
				if cur[2] >= 0xfffffffd {
					continue
				}
				rec.Evs = append(rec.Evs, ev)
				if !ev.Lost {
					cur = [3]uint32{cur[1], ev.After, cur[2] + 1}
				}
			case 5, 6:
				cur = betterTip(cur)
				rec.Evs = append(rec.Evs, genEv{Op: "tip", T: cur})
			case 7:
				rec.Evs = append(rec.Evs, genEv{Op: "restart"})
			default:
				c := cur
				orig = &c
				rec.Evs = append(rec.Evs, genEv{Op: "begin"})
			}
		}
		if orig != nil {
			cur = [3]uint32{orig[0], orig[1], orig[2]}
			rec.Evs = append(rec.Evs, genEv{Op: "apply", T: cur}, genEv{Op: "end"})
		}
		o.Put(runGen(rec))
	}
}

// ---------------------------------------------------------------------------------------- acceptance

type accRec struct {
	K        string   `json:"k"`
	NVal     int      `json:"nval"`
	Pre      int      `json:"pre"`    // blocks on the chain before forging
	Events   int      `json:"events"` // scripted events of the block execution
	Rounds   int      `json:"rounds"` // consecutive forge+process rounds
	Forged   []bool   `json:"forged"`
	Accepted []bool   `json:"accepted"`
	TipIs    []bool   `json:"tipis"`
	Errs     []string `json:"errs,omitempty"`
	Panic    string   `json:"panic,omitempty"`
	Fail     string   `json:"fail,omitempty"`
}

type captureCons struct {
	*consensus.Executer
	got *blockchain.Block
}

func (c *captureCons) AddInternal(b *blockchain.Block) { c.got = b }

func runAcc(rec accRec) accRec {
	rec.K = "acc"
	rec.Forged, rec.Accepted, rec.TipIs, rec.Errs, rec.Panic, rec.Fail = []bool{}, []bool{}, []bool{}, nil, "", ""
	env, err := newGenEnv(rec.NVal, 2) // 2 s slots: with 1 s slots `now <= slot start + waitThreshold` always holds
	if err != nil {
		rec.Fail = "env: " + err.Error()
		return rec
	}
	defer env.node.DB.Close()
	defer env.gdb.Close()
	n := env.node
	if rec.Events > 0 {
		evs := []*blockchain.Event{}
		for i := 0; i < rec.Events; i++ {
			evs = append(evs, &blockchain.Event{Module: "token", Name: "ev", Data: []byte{byte(i)}, Topics: []codec.Hex{{1}}, Height: 0, Index: 0})
		}
		n.ABI.S = &exh.Script{AfterEvents: evs}
	}
	for i := 0; i < rec.Pre; i++ {
		b := n.NextValid(exh.Build{})
		if r := n.ProcessValidated(b, false); !r.OK() {
			rec.Fail = fmt.Sprintf("pre block %d: %v %s", i, r.Err, r.Panic)
			return rec
		}
	}
	// the chain so far was generated by these validators: their generator DB entries say so
	last := map[string]*generator.GeneratorInfo{}
	for h := uint32(1); h <= n.Tip().Header.Height; h++ {
		hd := n.HeaderAt(h)
		last[string(hd.GeneratorAddress)] = &generator.GeneratorInfo{Height: hd.Height, MaxHeightPrevoted: hd.MaxHeightPrevoted, MaxHeightGenerated: hd.MaxHeightGenerated}
	}
	store := diffdb.New(env.gdb, generator.GeneratorDBPrefixGeneratedInfo)
	for a, info := range last {
		store.WithPrefix(generator.GeneratorDBPrefixGeneratedInfo).Set([]byte(a), info.Encode())
	}
	batch := env.gdb.NewBatch()
	store.Commit(batch)
	env.gdb.Write(batch)

	cons := &captureCons{Executer: n.Exec}
	g, err := env.newGenerator(cons, n.Chain)
	if err != nil {
		rec.Fail = "generator init: " + err.Error()
		return rec
	}
	for round := 0; round < rec.Rounds; round++ {
		cons.got = nil
		for attempt := 0; attempt < 5 && cons.got == nil && rec.Panic == ""; attempt++ {
			func() {
				defer func() {
					if r := recover(); r != nil {
						rec.Panic = "forge: " + firstLine(r)
					}
				}()
				g.VerifC15Forge()
			}()
			if cons.got == nil && rec.Panic == "" {
				time.Sleep(1050 * time.Millisecond) // same slot as the tip / slot boundary: next second
			}
		}
		rec.Forged = append(rec.Forged, cons.got != nil)
		if cons.got == nil {
			rec.Accepted = append(rec.Accepted, false)
			rec.TipIs = append(rec.TipIs, false)
			break
		}
		res := n.Process(cons.got)
		rec.Accepted = append(rec.Accepted, res.OK())
		if !res.OK() {
			rec.Errs = append(rec.Errs, firstLine(res.Err)+" "+firstLine(res.Panic))
		}
		rec.TipIs = append(rec.TipIs, string(n.Tip().Header.ID) == string(cons.got.Header.ID))
	}
	return rec
}

func genAcc(o *hx.Out, r *hx.Rng, n int) {
	for i := 0; i < n; i++ {
		o.Put(runAcc(accRec{NVal: []int{1, 2, 4}[r.Intn(3)], Pre: r.Intn(9), Events: r.Intn(3), Rounds: 1 + r.Intn(2)}))
	}
}

func main() {
	out := flag.String("out", "cases.jsonl", "output")
	nsel := flag.Int("sel", 800, "selection cases")
	ngen := flag.Int("gen", 150, "generator info sequences")
	nacc := flag.Int("acc", 4, "acceptance scenarios")
	in := flag.String("in", "", "replay: JSONL of records to re-run")
	flag.Parse()
	r := hx.NewRng(hx.SeedFromEnv())
	o := hx.NewOut(*out)
	defer o.Close()
	if *in != "" {
		data, err := os.ReadFile(*in)
		if err != nil {
			panic(err)
		}
		for _, line := range strings.Split(string(data), "\n") {
			if strings.TrimSpace(line) == "" {
				continue
			}
			var probe struct {
				K string `json:"k"`
			}
			if err := json.Unmarshal([]byte(line), &probe); err != nil {
				panic(err)
			}
			switch probe.K {
			case "sel":
				var rec selRec
				if err := json.Unmarshal([]byte(line), &rec); err != nil {
					panic(err)
				}
				o.Put(runSel(rec))
			case "gen":
				var rec genRec
				if err := json.Unmarshal([]byte(line), &rec); err != nil {
					panic(err)
				}
				o.Put(runGen(rec))
			case "acc":
				var rec accRec
				if err := json.Unmarshal([]byte(line), &rec); err != nil {
					panic(err)
				}
				o.Put(runAcc(rec))
			default:
				panic("unknown record kind " + probe.K)
			}
		}
		return
	}
	genSel(o, r, *nsel)
	genGen(o, r, *ngen)
	genAcc(o, r, *nacc)
}
