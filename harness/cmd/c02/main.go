// C02 correspondence driver: random header histories on the real liskbft module (see internal/bftx).
package main

import (
	"encoding/json"
	"flag"
	"fmt"
	"os"
	"strings"

	. "verifharness/internal/bftx"
	"verifharness/internal/hx"
)

// ---------------------------------------------------------------- generators

type gen struct {
	r *hx.Rng
}

func (g *gen) valset(n, base int, maxw int) []Val {
	vs := []Val{}
	for i := 0; i < n; i++ {
		w := uint64(1 + g.r.Intn(maxw))
		if maxw < 0 { // huge weights: totals around 2^62 .. 2^65 (uint64 arithmetic of the thresholds; overflowing totals must be rejected)
			w = uint64(1)<<uint(60+g.r.Intn(4)) + uint64(g.r.Intn(3))
		}
		v := Val{A: uint32(base + i), W: w}
		switch g.r.Intn(8) { // BLS keys: mostly one per address; sometimes shared between validators or permuted
		case 0:
			v.K = uint32(1 + g.r.Intn(2))
		case 1:
			v.K = uint32(1 + (base+i+1)%3)
		}
		vs = append(vs, v)
	}
	// shuffle: SetBFTParameters must sort
	for i := len(vs) - 1; i > 0; i-- {
		j := g.r.Intn(i + 1)
		vs[i], vs[j] = vs[j], vs[i]
	}
	return vs
}
func total(vs []Val) uint64 {
	t := uint64(0)
	for _, v := range vs {
		if t+v.W < t {
			return 3 // overflowing total: any threshold, the parameters must be rejected
		}
		t += v.W
	}
	return t
}
func (g *gen) change(n, base, maxw int) Change {
	vs := g.valset(n, base, maxw)
	W := total(vs)
	lo := W/3 + 1
	pick := func() uint64 {
		switch g.r.Intn(6) {
		case 0:
			return lo
		case 1:
			return W
		case 2:
			return W*2/3 + 1
		}
		return lo + g.r.U64()%(W-lo+1)
	}
	ch := Change{PC: pick(), Cert: pick(), Vals: vs, Standby: []uint32{}}
	for i := g.r.Intn(3); i > 0; i-- {
		ch.Standby = append(ch.Standby, uint32(20+g.r.Intn(6)))
	}
	return ch
}

// history: one chain, mostly protocol-following generators, with deviations
func (g *gen) history(long bool) Case {
	r := g.r
	batch := 2 + r.Intn(4)
	n := 1 + r.Intn(batch)
	if r.Intn(3) != 0 {
		n = batch
	}
	maxw := 1
	if r.Bool() {
		maxw = 1 + r.Intn(4)
	}
	if r.Intn(14) == 0 {
		maxw = -1
	}
	c := Case{K: "hist", Batch: batch, GH: uint32(r.Intn(3)) * uint32(r.Intn(50)), Commit: r.Intn(5) != 0}
	c.Init = g.change(n, 1, maxw)
	if r.Intn(40) == 0 { // invalid initial parameters
		c.Init.PC = total(c.Init.Vals) / 3
	}
	cur := append([]Val{}, c.Init.Vals...)
	length := 1 + r.Intn(4*batch)
	if long {
		length = 3*batch + r.Intn(6*batch+1)
	}
	lastForged := map[uint32]uint32{}
	mhp := c.GH // harness-side estimate is not needed: MHP is filled by a dry run below
	_ = mhp
	base := 1
	for i := 0; i < length; i++ {
		h := c.GH + 1 + uint32(i)
		var b Block
		b.H = h
		// generator: round robin over the current set (sorted by address asc), with deviations
		sorted := append([]Val{}, cur...)
		for x := range sorted {
			for y := x + 1; y < len(sorted); y++ {
				if sorted[y].A < sorted[x].A {
					sorted[x], sorted[y] = sorted[y], sorted[x]
				}
			}
		}
		b.Gen = sorted[i%len(sorted)].A
		huge := maxw < 0 // huge weights: protocol-following generators only, so that no weight is counted twice (on a valid
		// chain every weight is at most the total < 2^64 — C02_prevote_weight_is_sum — whereas an invalid history may wrap uint64)
		dev := r.Intn(12)
		if huge {
			dev = 99
		}
		switch dev {
		case 0:
			b.Gen = sorted[r.Intn(len(sorted))].A
		case 1:
			b.Gen = uint32(1 + r.Intn(12)) // possibly not a validator
		}
		b.MHG = lastForged[b.Gen]
		dev = r.Intn(14)
		if huge {
			dev = 99
		}
		switch dev {
		case 0:
			b.MHG = uint32(r.Intn(int(h) + 2))
		case 1:
			b.MHG = h
		case 2:
			if h > 2 {
				b.MHG = h - 1 - uint32(r.Intn(2))
			}
		}
		if lastForged[b.Gen] < h {
			lastForged[b.Gen] = h
		}
		b.MHP = 0xffffffff // placeholder: "node's own value", resolved in fill()
		if r.Intn(15) == 0 {
			b.MHP = uint32(r.Intn(int(h) + 1))
		}
		if r.Intn(10) == 0 {
			v := uint32(r.Intn(int(h)))
			b.Cert = &v
		}
		if r.Intn(2*batch) == 0 {
			// parameter change: keep, add or drop validators, new weights/thresholds
			nn := 1 + r.Intn(batch)
			if r.Intn(3) == 0 {
				base += r.Intn(3)
			}
			ch := g.change(nn, base, maxw)
			switch r.Intn(12) {
			case 0:
				ch.PC = total(ch.Vals) / 3 // invalid
			case 1:
				ch.Vals = append(ch.Vals, g.valset(batch, 40, 1)...) // too many
			case 2:
				ch.Vals[0].W = 0
			case 3: // identical to current: must be a no-op
				ch = Change{PC: ch.PC, Cert: ch.Cert, Vals: append([]Val{}, cur...), Standby: ch.Standby}
			}
			b.Chg = &ch
			ok := len(ch.Vals) <= batch && ch.PC >= total(ch.Vals)/3+1 && ch.PC <= total(ch.Vals)
			for _, v := range ch.Vals {
				if v.W == 0 {
					ok = false
				}
			}
			if ok {
				cur = append([]Val{}, ch.Vals...)
			}
		}
		c.Blocks = append(c.Blocks, b)
	}
	return c
}

// fill resolves MHP placeholders with the node's own maxHeightPrevoted by running prefixes on the real module.
func fill(c *Case) {
	for i := range c.Blocks {
		if c.Blocks[i].MHP == 0xffffffff {
			pre := *c
			pre.Blocks = c.Blocks[:i]
			RunCase(&pre)
			v := c.GH
			if len(pre.Obs) > 0 && pre.Obs[len(pre.Obs)-1].Err == 0 && len(pre.Obs) == i {
				v = pre.Obs[len(pre.Obs)-1].Heights[0]
			} else if i > 0 {
				v = 0 // an earlier block failed: value irrelevant
			}
			c.Blocks[i].MHP = v
		}
	}
}

func main() {
	out := flag.String("out", "cases.jsonl", "output")
	n := flag.Int("n", 300, "random histories")
	nlong := flag.Int("long", 60, "long histories (beyond the vote window)")
	in := flag.String("in", "", "replay: JSONL of cases (inputs) to re-run")
	flag.Parse()
	o := hx.NewOut(*out)
	defer o.Close()
	if *in != "" {
		data, err := os.ReadFile(*in)
		if err != nil {
			panic(err)
		}
		for _, line := range strings.Split(string(data), "\n") {
			if strings.TrimSpace(line) == "" {
				continue
			}
			var c Case
			if err := json.Unmarshal([]byte(line), &c); err != nil {
				panic(err)
			}
			RunCase(&c)
			o.Put(c)
		}
		return
	}
	g := &gen{r: hx.NewRng(hx.SeedFromEnv())}
	for i := 0; i < *n+*nlong; i++ {
		c := g.history(i >= *n)
		fill(&c)
		RunCase(&c)
		o.Put(c)
	}
	fmt.Fprintf(os.Stderr, "c02: %d histories\n", o.N)
}
