// C11 correspondence driver: runs the real regular-Merkle-tree code (pkg/trie/rmt) on generated inputs and writes one
// JSONL record per case (input + implementation observation).  Leaves of a case are leaf(seed, i) = [seed, i/256, i%256];
// "other" values are [0xEE, seed, j/256, j%256] (never leaves: seeds < 0xEE).
package main

import (
	"bufio"
	"encoding/hex"
	"encoding/json"
	"flag"
	"fmt"
	"math/bits"
	"os"
	"sort"
	"strings"
	"time"

	"github.com/LiskHQ/lisk-engine/pkg/crypto"
	"github.com/LiskHQ/lisk-engine/pkg/trie/rmt"

	"verifharness/internal/hx"
)

// ---- in-memory rmt.Database
type memDB struct{ m map[string][]byte }

func newMem() *memDB { return &memDB{m: map[string][]byte{}} }
func (d *memDB) Get(k []byte) ([]byte, bool) {
	v, ok := d.m[string(k)]
	if !ok {
		return nil, false
	}
	c := make([]byte, len(v))
	copy(c, v)
	return c, true
}
func (d *memDB) Del(k []byte) { delete(d.m, string(k)) }
func (d *memDB) Set(k, v []byte) {
	c := make([]byte, len(v))
	copy(c, v)
	d.m[string(k)] = c
}

// pendingPath holds the input of the case being run (see cmd/c10): reported when the process dies.
var pendingPath string

func pending(v interface{}) {
	if pendingPath == "" {
		return
	}
	b, _ := json.Marshal(v)
	_ = os.WriteFile(pendingPath, b, 0o644)
}

func deepCopy(bs [][]byte) [][]byte {
	r := make([][]byte, len(bs))
	for i, b := range bs {
		r[i] = append([]byte{}, b...)
	}
	return r
}

func sameHashes(a, b [][]byte) bool {
	if len(a) != len(b) {
		return false
	}
	for i := range a {
		if hex.EncodeToString(a[i]) != hex.EncodeToString(b[i]) {
			return false
		}
	}
	return true
}

func leaf(seed, i int) []byte  { return []byte{byte(seed), byte(i / 256), byte(i % 256)} }
func other(seed, j int) []byte { return []byte{0xEE, byte(seed), byte(j / 256), byte(j % 256)} }
func leafHash(v []byte) []byte { return crypto.Hash(append([]byte{0}, v...)) }
func hx32(b []byte) string     { return hex.EncodeToString(b) }
func hxs(bs [][]byte) []string {
	r := make([]string, len(bs))
	for i, b := range bs {
		r[i] = hx32(b)
	}
	return r
}

type st struct {
	R string   `json:"r"`
	P []string `json:"p"`
	S uint64   `json:"s"`
}

func stOf(t *rmt.RegularMerkleTree) st {
	return st{R: hx32(t.Root()), P: hxs(t.AppendPath()), S: t.Size()}
}

type appRec struct {
	K     string `json:"k"`
	Seed  int    `json:"seed"`
	N     int    `json:"n"`
	St    st     `json:"st"`
	PK    int    `json:"pk"` // 0 n/a, 1 value, 2 nil, 3 panic
	Pst   st     `json:"pst"`
	RL    *st    `json:"rl"` // reloaded from storage; nil = error
	Batch string `json:"batch"`
	Panic string `json:"panic,omitempty"`
	// PredMut: CalculateRootFromAppendPath called with the LIVE tree.AppendPath() changed the tree (append path / root / size)
	PredMut bool `json:"predmut,omitempty"`
}

type tamper struct {
	K int  `json:"k"`
	I int  `json:"i"`
	V bool `json:"v"`
}
type proofRec struct {
	K       string   `json:"k"`
	Seed    int      `json:"seed"`
	Ups     [][2]int `json:"ups"`
	N       int      `json:"n"`
	Qs      []int    `json:"qs"` // leaf position or -1 = absent value
	Err     bool     `json:"err"`
	Panic   string   `json:"panic,omitempty"`
	Idxs    []uint64 `json:"idxs"`
	Sibs    []string `json:"sibs"`
	Ver     bool     `json:"ver"`
	Tampers []tamper `json:"tampers"`
	Dup     bool     `json:"dup"`
}
type updRec struct {
	K     string   `json:"k"`
	Seed  int      `json:"seed"`
	N     int      `json:"n"`
	Ups   [][2]int `json:"ups"`
	Err   bool     `json:"err"`
	Panic string   `json:"panic,omitempty"`
	Root  string   `json:"root"`
	Path  []string `json:"path"`
	Calc  *string  `json:"calc"`
	App   *string  `json:"app"`
}
type rwRec struct {
	K     string    `json:"k"`
	Seed  int       `json:"seed"`
	N     int       `json:"n"`
	Idx   int       `json:"idx"`
	W     *[]string `json:"w"`
	Root  *string   `json:"root"`
	Ver   bool      `json:"ver"`
	Panic string    `json:"panic,omitempty"`
}

// packed returns copies of the hashes laid out as sub-slices of ONE buffer (cap reaches to the end of the buffer): code that
// appends into its arguments corrupts the next hash.
func packed(hs [][]byte) ([][]byte, []byte) {
	buf := []byte{}
	for _, h := range hs {
		buf = append(buf, h...)
	}
	out := make([][]byte, len(hs))
	off := 0
	for i, h := range hs {
		out[i] = buf[off : off+len(h)]
		off += len(h)
	}
	return out, buf
}

type seqProof struct {
	QIds  []int    `json:"qids"`
	Err   bool     `json:"err"`
	Idxs  []uint64 `json:"idxs"`
	Sibs  []string `json:"sibs"`
	Ver   bool     `json:"ver"`
	Panic string   `json:"panic,omitempty"`
}
type seqRW struct {
	Idx   int       `json:"idx"`
	W     *[]string `json:"w"`
	Root  *string   `json:"root"`
	Ver   bool      `json:"ver"`
	Panic string    `json:"panic,omitempty"`
}
type seqRec struct {
	K      string     `json:"k"`
	Gen    string     `json:"gen"`
	Seed   int        `json:"seed"`
	Ids    []int      `json:"ids"`
	Ops    [][3]int   `json:"ops"` // [0,id,0] append leaf(id); [1,pos,id] Update(leaf index of pos, leaf(id)); [2,0,0] re-open from the store
	Qs     [][]int    `json:"qs"`  // query sets (value ids) to prove after the script
	RWIdx  []int      `json:"rwidx"`
	St     st         `json:"st"`
	RL     *st        `json:"rl"`
	Proofs []seqProof `json:"proofs"`
	RWs    []seqRW    `json:"rws"`
	Panic  string     `json:"panic,omitempty"`
}

func leafIdx(n uint64, pos int) uint64 {
	h := uint64(1)
	if n > 1 {
		h = uint64(bits.Len64(n-1)) + 1
	}
	return 1<<h | uint64(pos)
}

// seqCase runs a script on a tree built from explicit leaf ids (duplicates allowed), then observes state, proofs and
// right witnesses.
func seqCase(gen string, seed int, ids []int, ops [][3]int, qs [][]int, rwidx []int) (rec seqRec) {
	rec = seqRec{K: "seq", Gen: gen, Seed: seed, Ids: ids, Ops: ops, Qs: qs, RWIdx: rwidx, Proofs: []seqProof{}, RWs: []seqRW{}, St: st{P: []string{}}}
	if rec.Ops == nil {
		rec.Ops = [][3]int{}
	}
	pending(rec)
	defer func() {
		if p := recover(); p != nil {
			rec.Panic = "setup:" + fmt.Sprint(p)
		}
	}()
	db := newMem()
	t := rmt.NewRegularMerkleTree(db)
	cur := []int{}
	for _, id := range ids {
		if err := t.Append(leaf(seed, id)); err != nil {
			rec.Panic = "setup:Append:" + err.Error()
			return rec
		}
		cur = append(cur, id)
	}
	for _, op := range ops {
		var err error
		if op[0] == 0 {
			err = t.Append(leaf(seed, op[1]))
			cur = append(cur, op[1])
		} else if op[0] == 2 {
			// re-open from the store and CONTINUE on the re-opened object: everything observed below (state, later
			// Append / Update, proofs, right witnesses) depends on what saveInfo wrote
			var t2 *rmt.RegularMerkleTree
			if t2, err = rmt.NewRegularMerkleTreeWithPastData(db); err == nil {
				t = t2
			}
		} else {
			err = t.Update([]uint64{leafIdx(t.Size(), op[1])}, [][]byte{leaf(seed, op[2])})
			cur[op[1]] = op[2]
		}
		if err != nil {
			rec.Panic = fmt.Sprintf("setup:op %v: %v", op, err)
			return rec
		}
	}
	rec.St = stOf(t)
	if rl, err := rmt.NewRegularMerkleTreeWithPastData(db); err == nil {
		s := stOf(rl)
		rec.RL = &s
	}
	root := t.Root()
	for _, q := range qs {
		sp := seqProof{QIds: q, Idxs: []uint64{}, Sibs: []string{}}
		qh := make([][]byte, len(q))
		for i, id := range q {
			qh[i] = leafHash(leaf(seed, id))
		}
		var proof *rmt.Proof
		var err error
		if p := try(func() { proof, err = t.GenerateProof(qh) }); p != "" || err != nil {
			sp.Err, sp.Panic = true, p
			rec.Proofs = append(rec.Proofs, sp)
			continue
		}
		sp.Idxs, sp.Sibs = proof.Idxs, hxs(proof.SiblingHashes)
		if p := try(func() { sp.Ver = rmt.VerifyProof(qh, proof, root) }); p != "" {
			sp.Panic = "VerifyProof:" + p
		}
		// the same verification with all hashes laid out in shared buffers
		pq, bq := packed(qh)
		ps, bs := packed(proof.SiblingHashes)
		bq0, bs0 := append([]byte{}, bq...), append([]byte{}, bs...)
		var v2 bool
		p2 := try(func() {
			v2 = rmt.VerifyProof(pq, &rmt.Proof{Size: proof.Size, Idxs: proof.Idxs, SiblingHashes: ps}, root)
		})
		if p2 != "" || v2 != sp.Ver || hx32(bq) != hx32(bq0) || hx32(bs) != hx32(bs0) {
			sp.Panic = "alias:VerifyProof on hashes that are sub-slices of one buffer differs or changes the buffer " + p2
		}
		rec.Proofs = append(rec.Proofs, sp)
	}
	for _, idx := range rwidx {
		rw := seqRW{Idx: idx}
		var w [][]byte
		var err error
		if p := try(func() { w, err = t.GenerateRightWitness(uint64(idx)) }); p != "" || err != nil {
			rw.Panic = p
			rec.RWs = append(rec.RWs, rw)
			continue
		}
		ws := hxs(w)
		rw.W = &ws
		part := rmt.NewRegularMerkleTree(newMem())
		for j := 0; j < idx && j < len(cur); j++ {
			_ = part.Append(leaf(seed, cur[j]))
		}
		ap, bap := packed(part.AppendPath())
		pw, bw := packed(w)
		bap0, bw0 := append([]byte{}, bap...), append([]byte{}, bw...)
		var r1 []byte
		if p := tryFor(3*time.Second, func() { r1 = rmt.CalculateRootFromRightWitness(uint64(idx), ap, pw) }); p != "" {
			rw.Panic = "CalculateRootFromRightWitness:" + p
		} else {
			s := hx32(r1)
			rw.Root = &s
			rw.Ver = rmt.VerifyRightWitness(uint64(idx), deepCopy(part.AppendPath()), deepCopy(w), root)
			if hx32(bap) != hx32(bap0) || hx32(bw) != hx32(bw0) {
				rw.Panic = "alias:CalculateRootFromRightWitness changed its arguments' buffer"
			}
		}
		rec.RWs = append(rec.RWs, rw)
	}
	return rec
}

// bigRec: Go-side consistency at large sizes 2^k-1, 2^k, 2^k+1 (not evaluated in Coq): predicted root = root after Append =
// batch root; proofs of the first / middle / last leaf verify and reject another hash
type bigRec struct {
	K       string `json:"k"`
	Seed    int    `json:"seed"`
	N       int    `json:"n"`
	Predict bool   `json:"predict"`
	Batch   bool   `json:"batch"`
	Proof   bool   `json:"proof"`
	Reject  bool   `json:"reject"`
	Panic   string `json:"panic,omitempty"`
}

func bigRun(o *hx.Out, seed, maxExp int) {
	want := map[int]bool{}
	for k := 9; k <= maxExp; k++ {
		for d := -1; d <= 1; d++ {
			want[1<<k+d] = true
		}
	}
	t := rmt.NewRegularMerkleTree(newMem())
	vals := [][]byte{}
	for n := 1; n <= 1<<maxExp+1; n++ {
		v := leaf(seed, n-1)
		var pred []byte
		if want[n] {
			path := deepCopy(t.AppendPath())
			if p := try(func() {
				if rp := rmt.CalculateRootFromAppendPath(v, path, t.Size()); rp != nil {
					pred = rp.Root
				}
			}); p != "" {
				o.Put(bigRec{K: "big", Seed: seed, N: n, Panic: "CalculateRootFromAppendPath:" + p})
				return
			}
		}
		if err := t.Append(v); err != nil {
			o.Put(bigRec{K: "big", Seed: seed, N: n, Panic: "Append:" + err.Error()})
			return
		}
		vals = append(vals, v)
		if !want[n] {
			continue
		}
		rec := bigRec{K: "big", Seed: seed, N: n}
		pending(rec)
		root := t.Root()
		rec.Predict = hx32(pred) == hx32(root)
		if p := tryFor(20*time.Second, func() { rec.Batch = hx32(rmt.CalculateRoot(vals)) == hx32(root) }); p != "" {
			rec.Panic = "CalculateRoot:" + p
			o.Put(rec)
			return
		}
		rec.Proof, rec.Reject = true, true
		for _, pos := range []int{0, n / 2, n - 1} {
			qh := [][]byte{leafHash(vals[pos])}
			var proof *rmt.Proof
			var err error
			if p := try(func() { proof, err = t.GenerateProof(qh) }); p != "" || err != nil {
				rec.Proof, rec.Panic = false, "GenerateProof:"+p
				break
			}
			if p := try(func() {
				rec.Proof = rec.Proof && rmt.VerifyProof(qh, proof, root)
				rec.Reject = rec.Reject && !rmt.VerifyProof([][]byte{leafHash(other(seed, pos))}, proof, root)
			}); p != "" {
				rec.Proof, rec.Panic = false, "VerifyProof:"+p
			}
		}
		o.Put(rec)
	}
}

type rwxRec struct {
	K     string   `json:"k"`
	Idx   uint64   `json:"idx"`
	AP    []string `json:"ap"`
	RW    []string `json:"rw"`
	Root  *string  `json:"root"` // nil = panic or hang, "" = nil result
	Ver   bool     `json:"ver"`
	Panic string   `json:"panic,omitempty"`
}

// rwxCase: CalculateRootFromRightWitness / VerifyRightWitness on arbitrary arguments under a watchdog
func rwxCase(idx uint64, ap, rw [][]byte) rwxRec {
	rec := rwxRec{K: "rwx", Idx: idx, AP: hxs(ap), RW: hxs(rw)}
	pending(rec)
	var root []byte
	if p := tryFor(3*time.Second, func() {
		root = rmt.CalculateRootFromRightWitness(idx, append([][]byte{}, ap...), append([][]byte{}, rw...))
	}); p != "" {
		rec.Panic = "CalculateRootFromRightWitness:" + p
		return rec
	}
	s := hx32(root)
	rec.Root = &s
	if p := tryFor(3*time.Second, func() { rec.Ver = rmt.VerifyRightWitness(idx, ap, rw, leafHash([]byte{1})) }); p != "" {
		rec.Panic = "VerifyRightWitness:" + p
		rec.Root = nil
	}
	return rec
}

func try(f func()) (p string) {
	defer func() {
		if r := recover(); r != nil {
			p = fmt.Sprint(r)
			if len(p) > 80 {
				p = p[:80]
			}
		}
	}()
	f()
	return ""
}

// tryTimed runs f with a watchdog; returns "hang" if it does not return in time (limit, then once more 4x the limit).
func tryTimed(f func()) string { return tryFor(5*time.Second, f) }

func tryFor(d time.Duration, f func()) string {
	done := make(chan string, 1)
	go func() { done <- try(f) }()
	select {
	case p := <-done:
		return p
	case <-time.After(d):
	}
	// the limit expired: before reporting a hang give the SAME call a second, longer limit (a loaded machine or a GC
	// pause must not be reported as a defect); the call is not started again, its closure writes captured variables
	select {
	case p := <-done:
		return p
	case <-time.After(4 * d):
		return "hang"
	}
}

func build(seed, n int, ups [][2]int) (*rmt.RegularMerkleTree, *memDB, [][]byte) {
	db := newMem()
	t := rmt.NewRegularMerkleTree(db)
	vals := make([][]byte, n)
	for i := 0; i < n; i++ {
		vals[i] = leaf(seed, i)
		if err := t.Append(vals[i]); err != nil {
			panic(err)
		}
	}
	return t, db, vals
}

// appendRun records the state after every size in `sizes` (sorted), building one tree incrementally.
func appendRun(o *hx.Out, seed int, sizes []int) {
	sort.Ints(sizes)
	want := map[int]bool{}
	max := 0
	for _, s := range sizes {
		want[s] = true
		if s > max {
			max = s
		}
	}
	db := newMem()
	t := rmt.NewRegularMerkleTree(db)
	vals := [][]byte{}
	for n := 0; n <= max; n++ {
		pending(map[string]interface{}{"k": "app", "seed": seed, "n": n})
		var pk int
		var pst st
		if n > 0 {
			v := leaf(seed, n-1)
			var pred *rmt.RootWithAppendPath
			path := append([][]byte{}, t.AppendPath()...)
			p := try(func() { pred = rmt.CalculateRootFromAppendPath(v, path, t.Size()) })
			switch {
			case p != "":
				pk = 3
			case pred == nil:
				pk = 2
			default:
				pk = 1
				pst = st{R: hx32(pred.Root), P: hxs(pred.AppendPath), S: pred.Size}
			}
			// the prediction is a pure function: calling it with the live append path must not change the tree
			beforePath, beforeRoot, beforeSize := deepCopy(t.AppendPath()), append([]byte{}, t.Root()...), t.Size()
			_ = try(func() { rmt.CalculateRootFromAppendPath(v, t.AppendPath(), t.Size()) })
			if !sameHashes(beforePath, t.AppendPath()) || hx32(beforeRoot) != hx32(t.Root()) || beforeSize != t.Size() {
				o.Put(appRec{K: "app", Seed: seed, N: n - 1, St: stOf(t), PK: 3, Pst: st{P: []string{}}, Batch: "", PredMut: true,
					Panic: "predmut:CalculateRootFromAppendPath changed its caller's append path"})
				return
			}
			// ... and with an append path whose entries are sub-slices of one buffer
			if pp, buf := packed(t.AppendPath()); pk == 1 {
				buf0 := append([]byte{}, buf...)
				var p2 *rmt.RootWithAppendPath
				pn := try(func() { p2 = rmt.CalculateRootFromAppendPath(v, pp, t.Size()) })
				if pn != "" || p2 == nil || hx32(p2.Root) != pst.R || hx32(buf) != hx32(buf0) {
					o.Put(appRec{K: "app", Seed: seed, N: n - 1, St: stOf(t), PK: 3, Pst: st{P: []string{}}, Batch: "", PredMut: true,
						Panic: "predmut:CalculateRootFromAppendPath on an append path laid out in one buffer gives another root or changes the buffer"})
					return
				}
			}
			if err := t.Append(v); err != nil {
				o.Put(appRec{K: "app", Seed: seed, N: n, St: stOf(t), PK: 3, Pst: st{P: []string{}}, Batch: "", Panic: "Append:" + err.Error()})
				return
			}
			vals = append(vals, v)
		}
		if !want[n] {
			continue
		}
		var batch []byte
		if p := tryFor(time.Second, func() { batch = rmt.CalculateRoot(vals) }); p != "" {
			// a hanging (or panicking) CalculateRoot is reported with the concrete length; a hang leaks goroutines, so stop here
			o.Put(appRec{K: "app", Seed: seed, N: n, St: stOf(t), PK: 3, Pst: st{P: []string{}}, Panic: "CalculateRoot:" + p})
			if p == "hang" {
				o.Close()
				os.Exit(0)
			}
			continue
		}
		rec := appRec{K: "app", Seed: seed, N: n, St: stOf(t), PK: pk, Pst: pst, Batch: hx32(batch)}
		if pk != 1 {
			rec.Pst = st{R: "", P: []string{}, S: 0}
		}
		if rl, err := rmt.NewRegularMerkleTreeWithPastData(db); err == nil {
			s := stOf(rl)
			rec.RL = &s
		}
		o.Put(rec)
	}
}

var ancq = flag.Int("ancq", 1, "number of queries per proof case that get the ancestor-claim tampering (all levels)")

func proofCase(seed, n int, ups [][2]int, qs []int, withTampers bool, r *hx.Rng) (rec proofRec) {
	rec = proofRec{K: "proof", Seed: seed, Ups: ups, N: n, Qs: qs, Idxs: []uint64{}, Sibs: []string{}, Tampers: []tamper{}}
	if rec.Ups == nil {
		rec.Ups = [][2]int{}
	}
	pending(rec)
	defer func() {
		if p := recover(); p != nil {
			rec.Panic = "setup:" + fmt.Sprint(p)
			rec.Err = true
		}
	}()
	t, _, vals := build(seed, n, nil)
	applyUps(t, seed, n, vals, ups)
	qh := make([][]byte, len(qs))
	seen := map[int]bool{}
	for i, q := range qs {
		if q < 0 {
			qh[i] = leafHash(other(seed, i))
		} else {
			qh[i] = leafHash(vals[q])
			if seen[q] {
				rec.Dup = true
			}
			seen[q] = true
		}
	}
	var proof *rmt.Proof
	var err error
	if p := try(func() { proof, err = t.GenerateProof(qh) }); p != "" {
		rec.Panic = "GenerateProof:" + p
		rec.Err = true
		return rec
	}
	if err != nil {
		rec.Err = true
		return rec
	}
	rec.Idxs = proof.Idxs
	rec.Sibs = hxs(proof.SiblingHashes)
	root := t.Root()
	verify := func(q [][]byte, pr *rmt.Proof, rt []byte) bool {
		var v bool
		if p := try(func() { v = rmt.VerifyProof(q, pr, rt) }); p != "" {
			rec.Panic = "VerifyProof:" + p
			return false
		}
		return v
	}
	rec.Ver = verify(qh, proof, root)
	if !withTampers {
		return rec
	}
	cp := func(b [][]byte) [][]byte { return append([][]byte{}, b...) }
	oh := func(k int) []byte { return leafHash(other(seed, 1000+k)) }
	// (also for duplicate / absent queries) a claim for an ANCESTOR index (internal / pass-through node, every level up to
	// the child of the root) carrying the honest leaf hash, put in front, while the leaf itself is claimed with another
	// hash: accepted if the claim for the ancestor shadows the value carried up from the false leaf claim
	for i, q := range qs {
		if q < 0 || i >= *ancq || i >= len(proof.Idxs) || proof.Idxs[i] == 0 {
			continue
		}
		for up := uint(1); up < 64 && proof.Idxs[i]>>up >= 2; up++ {
			q2 := append([][]byte{qh[i]}, qh...)
			q2[i+1] = oh(i)
			i2 := append([]uint64{proof.Idxs[i] >> up}, proof.Idxs...)
			rec.Tampers = append(rec.Tampers, tamper{K: 6, I: i*64 + int(up), V: verify(q2, &rmt.Proof{Size: proof.Size, Idxs: i2, SiblingHashes: proof.SiblingHashes}, root)})
		}
	}
	// an extra claim at an index that names no node of the tree (too short, too long, beyond the last leaf / node)
	if n >= 1 {
		h := uint(1)
		if n > 1 {
			h = uint(bits.Len64(uint64(n-1))) + 1
		}
		junk := []uint64{1, 3, 1<<h + uint64(n), 1 << (h + 1), 1<<(h+1) + 1}
		if n%2 == 0 && h >= 2 {
			junk = append(junk, 1<<(h-1)+uint64(n/2))
		}
		for _, j := range junk {
			q2 := append([][]byte{oh(3)}, qh...)
			i2 := append([]uint64{j}, proof.Idxs...)
			rec.Tampers = append(rec.Tampers, tamper{K: 7, I: int(j), V: verify(q2, &rmt.Proof{Size: proof.Size, Idxs: i2, SiblingHashes: proof.SiblingHashes}, root)})
		}
	}
	if rec.Dup {
		return rec
	}
	for i, q := range qs {
		if q < 0 {
			continue
		}
		q2 := cp(qh)
		q2[i] = oh(i)
		rec.Tampers = append(rec.Tampers, tamper{K: 0, I: i, V: verify(q2, proof, root)})
	}
	rec.Tampers = append(rec.Tampers, tamper{K: 1, I: 0, V: verify(qh, proof, oh(7))})
	for i := range proof.SiblingHashes {
		s2 := cp(proof.SiblingHashes)
		s2[i] = oh(i)
		rec.Tampers = append(rec.Tampers, tamper{K: 2, I: i, V: verify(qh, &rmt.Proof{Size: proof.Size, Idxs: proof.Idxs, SiblingHashes: s2}, root)})
	}
	// a conflicting claim for the index of query i, put in front of the honest claims
	for i, q := range qs {
		if q < 0 || i > 2 {
			continue
		}
		q2 := append([][]byte{oh(i)}, qh...)
		i2 := append([]uint64{proof.Idxs[i]}, proof.Idxs...)
		rec.Tampers = append(rec.Tampers, tamper{K: 4, I: i, V: verify(q2, &rmt.Proof{Size: proof.Size, Idxs: i2, SiblingHashes: proof.SiblingHashes}, root)})
	}
	// proof.Size is not authenticated: other sizes with the same indexes / sibling hashes
	for _, sz := range []int{n - 1, n + 1, 2 * n, n / 2} {
		if sz < 1 || sz == n {
			continue
		}
		rec.Tampers = append(rec.Tampers, tamper{K: 5, I: sz, V: verify(qh, &rmt.Proof{Size: uint64(sz), Idxs: proof.Idxs, SiblingHashes: proof.SiblingHashes}, root)})
	}
	// idx of query qi replaced by the idx of an unqueried leaf j
	for tries := 0; tries < 3 && len(seen) < n && len(qs) > 0; tries++ {
		qi := r.Intn(len(qs))
		j := r.Intn(n)
		if qs[qi] < 0 || seen[j] {
			continue
		}
		var pj *rmt.Proof
		if pj, err = t.GenerateProof([][]byte{leafHash(vals[j])}); err != nil || len(pj.Idxs) != 1 {
			continue
		}
		i2 := append([]uint64{}, proof.Idxs...)
		i2[qi] = pj.Idxs[0]
		rec.Tampers = append(rec.Tampers, tamper{K: 3, I: qi*65536 + j, V: verify(qh, &rmt.Proof{Size: proof.Size, Idxs: i2, SiblingHashes: proof.SiblingHashes}, root)})
	}
	return rec
}

// applyUps updates leaves through Update (positions resolved to idxs by GenerateProof).
func applyUps(t *rmt.RegularMerkleTree, seed, n int, vals [][]byte, ups [][2]int) {
	if len(ups) == 0 {
		return
	}
	qh := make([][]byte, len(ups))
	nd := make([][]byte, len(ups))
	for i, u := range ups {
		qh[i] = leafHash(vals[u[0]])
		nd[i] = other(seed, u[1])
	}
	proof, err := t.GenerateProof(qh)
	if err != nil {
		panic(err)
	}
	if err := t.Update(proof.Idxs, nd); err != nil {
		panic(err)
	}
	for i, u := range ups {
		vals[u[0]] = nd[i]
	}
}

func updCase(seed, n int, ups [][2]int) (rec updRec) {
	rec = updRec{K: "upd", Seed: seed, N: n, Ups: ups, Path: []string{}}
	pending(rec)
	defer func() {
		if p := recover(); p != nil {
			rec.Panic = "setup:" + fmt.Sprint(p)
			rec.Err = true
		}
	}()
	t, _, vals := build(seed, n, nil)
	qh := make([][]byte, len(ups))
	nd := make([][]byte, len(ups))
	for i, u := range ups {
		qh[i] = leafHash(vals[u[0]])
		nd[i] = other(seed, u[1])
	}
	var proof *rmt.Proof
	var err error
	if p := try(func() { proof, err = t.GenerateProof(qh) }); p != "" || err != nil {
		rec.Err, rec.Panic = true, p
		return rec
	}
	var calc []byte
	if p := try(func() { calc, err = rmt.CalculateRootFromUpdateData(nd, proof) }); p != "" {
		rec.Panic = "CalculateRootFromUpdateData:" + p
	} else if err == nil {
		s := hx32(calc)
		rec.Calc = &s
	}
	if p := try(func() { err = t.Update(proof.Idxs, nd) }); p != "" || err != nil {
		rec.Err = true
		if p != "" {
			rec.Panic = "Update:" + p
		}
		return rec
	}
	rec.Root = hx32(t.Root())
	rec.Path = hxs(t.AppendPath())
	if p := try(func() { err = t.Append(leaf(seed, n)) }); p == "" && err == nil {
		s := hx32(t.Root())
		rec.App = &s
	}
	return rec
}

func rwCases(o *hx.Out, seed, n int, idxs []int) {
	defer func() {
		if p := recover(); p != nil {
			o.Put(rwRec{K: "rw", Seed: seed, N: n, Idx: -1, Panic: "setup:" + fmt.Sprint(p)})
		}
	}()
	full, _, vals := build(seed, n, nil)
	for _, idx := range idxs {
		rec := rwRec{K: "rw", Seed: seed, N: n, Idx: idx}
		pending(rec)
		var w [][]byte
		var err error
		if p := try(func() { w, err = full.GenerateRightWitness(uint64(idx)) }); p != "" {
			rec.Panic = "GenerateRightWitness:" + p
			o.Put(rec)
			continue
		}
		if err != nil {
			o.Put(rec)
			continue
		}
		ws := hxs(w)
		rec.W = &ws
		part := rmt.NewRegularMerkleTree(newMem())
		for j := 0; j < idx && j < n; j++ {
			if err := part.Append(vals[j]); err != nil {
				panic(err)
			}
		}
		ap := append([][]byte{}, part.AppendPath()...)
		var root []byte
		p := tryTimed(func() { root = rmt.CalculateRootFromRightWitness(uint64(idx), ap, w) })
		if p != "" {
			rec.Panic = "CalculateRootFromRightWitness:" + p
		} else {
			s := hx32(root)
			rec.Root = &s
			if p2 := tryTimed(func() { rec.Ver = rmt.VerifyRightWitness(uint64(idx), ap, w, full.Root()) }); p2 != "" {
				rec.Panic = "VerifyRightWitness:" + p2
			}
		}
		o.Put(rec)
	}
}

func subsetOf(mask, n int) []int {
	qs := []int{}
	for i := 0; i < n; i++ {
		if mask>>i&1 == 1 {
			qs = append(qs, i)
		}
	}
	return qs
}

func randSubset(r *hx.Rng, n, k int) []int {
	perm := make([]int, n)
	for i := range perm {
		perm[i] = i
	}
	for i := n - 1; i > 0; i-- {
		j := r.Intn(i + 1)
		perm[i], perm[j] = perm[j], perm[i]
	}
	if k > n {
		k = n
	}
	return perm[:k]
}

func randUps(r *hx.Rng, n, k int) [][2]int {
	ps := randSubset(r, n, k)
	ups := make([][2]int, len(ps))
	for i, p := range ps {
		ups[i] = [2]int{p, r.Intn(500)}
	}
	return ups
}

func nearPow2(r *hx.Rng, maxExp int) int {
	e := 1 + r.Intn(maxExp)
	n := (1 << e) + r.Intn(5) - 2
	if n < 1 {
		n = 1
	}
	return n
}

func replay(o *hx.Out, path string, r *hx.Rng) {
	f, err := os.Open(path)
	if err != nil {
		panic(err)
	}
	defer f.Close()
	sc := bufio.NewScanner(f)
	sc.Buffer(make([]byte, 1<<20), 1<<26)
	for sc.Scan() {
		line := strings.TrimSpace(sc.Text())
		if line == "" {
			continue
		}
		var g struct {
			K    string   `json:"k"`
			Seed int      `json:"seed"`
			N    int      `json:"n"`
			Ups  [][2]int `json:"ups"`
			Qs   []int    `json:"qs"`
			Idx  int      `json:"idx"`
			AP   []string `json:"ap"`
			RW   []string `json:"rw"`
		}
		var kind struct {
			K string `json:"k"`
		}
		_ = json.Unmarshal([]byte(line), &kind)
		if kind.K == "seq" {
			var q seqRec
			if err := json.Unmarshal([]byte(line), &q); err != nil {
				panic(err)
			}
			o.Put(seqCase(q.Gen, q.Seed, q.Ids, q.Ops, q.Qs, q.RWIdx))
			continue
		}
		if err := json.Unmarshal([]byte(line), &g); err != nil {
			panic(err)
		}
		switch g.K {
		case "app":
			appendRun(o, g.Seed, []int{g.N})
		case "proof":
			o.Put(proofCase(g.Seed, g.N, g.Ups, g.Qs, true, r))
		case "upd":
			o.Put(updCase(g.Seed, g.N, g.Ups))
		case "rw":
			rwCases(o, g.Seed, g.N, []int{g.Idx})
		case "rwx":
			unh := func(xs []string) [][]byte {
				r := make([][]byte, len(xs))
				for i, x := range xs {
					r[i], _ = hex.DecodeString(x)
				}
				return r
			}
			o.Put(rwxCase(uint64(g.Idx), unh(g.AP), unh(g.RW)))
		}
	}
}

func main() {
	out := flag.String("out", "cases.jsonl", "output")
	in := flag.String("in", "", "replay: JSONL of case inputs to re-run")
	nmax := flag.Int("nmax", 70, "exhaustive sizes 0..nmax for append/predict/reload")
	pexp := flag.Int("pexp", 8, "sizes around 2^k for k <= pexp")
	nsub := flag.Int("nsub", 6, "all leaf subsets for n <= nsub")
	nproof := flag.Int("nproof", 150, "random proof cases")
	pmax := flag.Int("pmax", 70, "max tree size for random proof/update cases")
	nupd := flag.Int("nupd", 120, "random update cases")
	rwmax := flag.Int("rwmax", 40, "all witness positions for sizes 0..rwmax")
	nseq := flag.Int("nseq", 40, "random update/append scripts over lists with duplicate leaves")
	bigexp := flag.Int("bigexp", 14, "largest k for the Go-side runs at sizes 2^k-1, 2^k, 2^k+1 (k >= 9; 0 = none)")
	nrwx := flag.Int("nrwx", 60, "right-witness reconstructions on arbitrary arguments")
	flag.Parse()
	r := hx.NewRng(hx.SeedFromEnv())
	o := hx.NewOut(*out)
	defer o.Close()
	pendingPath = *out + ".pending"
	defer os.Remove(pendingPath)
	if *in != "" {
		replay(o, *in, r)
		return
	}
	seed := 1 + r.Intn(200)

	// (a) exhaustive sizes + around powers of two, one incrementally grown tree
	sizes := []int{}
	for n := 0; n <= *nmax; n++ {
		sizes = append(sizes, n)
	}
	for e := 1; e <= *pexp; e++ {
		for d := -2; d <= 2; d++ {
			if n := (1 << e) + d; n > *nmax {
				sizes = append(sizes, n)
			}
		}
	}
	appendRun(o, seed, sizes)
	// a second seed, random sizes around powers of two
	s2 := []int{}
	for i := 0; i < 6; i++ {
		s2 = append(s2, nearPow2(r, *pexp))
	}
	appendRun(o, 1+r.Intn(200), s2)

	// (b) proofs: all subsets of small trees, with tamperings
	for n := 1; n <= *nsub; n++ {
		for mask := 0; mask < 1<<n; mask++ {
			o.Put(proofCase(seed, n, nil, subsetOf(mask, n), true, r))
		}
	}
	// size 0 tree
	o.Put(proofCase(seed, 0, nil, []int{-1}, false, r))
	// the last leaf of trees whose right edge has pass-through nodes (the ancestor-claim tampering needs them)
	for _, n := range []int{7, 9, 11, 13, 17, 19, 21, 25, 33, 35, 37, 41, 49, 65, 67} {
		if n <= *pmax {
			o.Put(proofCase(seed, n, nil, []int{n - 1}, true, r))
			o.Put(proofCase(seed, n, nil, []int{n - 1, 0}, true, r))
		}
	}
	// random subsets (random order), absent queries, duplicates, after updates
	for i := 0; i < *nproof; i++ {
		n := 1 + r.Intn(*pmax)
		if r.Intn(3) == 0 {
			n = nearPow2(r, 7)
			if n > *pmax {
				n = *pmax
			}
		}
		qs := randSubset(r, n, 1+r.Intn(6))
		if r.Intn(4) == 0 {
			qs = append(qs, -1)
			j := r.Intn(len(qs))
			qs[j], qs[len(qs)-1] = qs[len(qs)-1], qs[j]
		}
		if r.Intn(10) == 0 {
			qs = append(qs, qs[0])
		}
		var ups [][2]int
		if r.Intn(4) == 0 {
			ups = randUps(r, n, 1+r.Intn(3))
		}
		o.Put(proofCase(seed, n, ups, qs, true, r))
	}
	// (c) updates
	for n := 1; n <= 5; n++ {
		for mask := 1; mask < 1<<n; mask++ {
			ps := subsetOf(mask, n)
			ups := make([][2]int, len(ps))
			for i, p := range ps {
				ups[i] = [2]int{p, 7 + i}
			}
			o.Put(updCase(seed, n, ups))
			if len(ups) > 1 {
				// the same update in descending order, and with the first position given twice (same data / other data)
				rev := make([][2]int, len(ups))
				for i := range ups {
					rev[len(ups)-1-i] = ups[i]
				}
				o.Put(updCase(seed, n, rev))
				o.Put(updCase(seed, n, append(append([][2]int{}, ups...), ups[0])))
				o.Put(updCase(seed, n, append(append([][2]int{}, rev...), [2]int{ups[0][0], 99})))
			}
		}
	}
	for i := 0; i < *nupd; i++ {
		n := 1 + r.Intn(*pmax)
		if r.Intn(3) == 0 {
			n = nearPow2(r, 7)
			if n > *pmax {
				n = *pmax
			}
		}
		o.Put(updCase(seed, n, randUps(r, n, 1+r.Intn(5))))
	}
	// (f) lists with duplicate leaves / scripts of updates and appends, then proofs and witnesses
	allIdx := func(n int) []int {
		r := make([]int, n+1)
		for i := range r {
			r[i] = i
		}
		return r
	}
	singles := func(ids []int) [][]int {
		seen := map[int]bool{}
		qs := [][]int{}
		for _, id := range ids {
			if !seen[id] {
				seen[id] = true
				qs = append(qs, []int{id})
			}
		}
		return qs
	}
	// every explicit script is run as given and with a re-open step after the initial appends and after every operation
	putSeq := func(gen string, seed int, ids []int, ops [][3]int, qs [][]int, rwidx []int) {
		o.Put(seqCase(gen, seed, ids, ops, qs, rwidx))
		ro := [][3]int{{2, 0, 0}}
		for _, op := range ops {
			ro = append(ro, op, [3]int{2, 0, 0})
		}
		o.Put(seqCase(gen+"+reopen", seed, ids, ro, qs, rwidx))
	}
	for _, ids := range [][]int{{1, 1}, {1, 1, 3}, {1, 2, 2}, {1, 1, 1, 1}, {1, 1, 1, 1, 1}, {1, 2, 1, 2}, {1, 2, 1, 2, 1, 2}, {1, 2, 3, 4, 1, 2, 3, 4},
		{1, 1, 2, 2, 3, 3, 4}, {5, 1, 1, 6, 7, 7, 8, 9, 9}, {1, 2, 3, 3, 3, 3, 4, 4, 5, 6, 6}} {
		qs := append(singles(ids), []int{ids[0], ids[0]}, []int{ids[0], ids[len(ids)-1]}, []int{ids[len(ids)-1], ids[0], ids[len(ids)/2]})
		putSeq("duplicates", seed, ids, nil, qs, allIdx(len(ids)))
		// and one more leaf appended after the twins, equal to the last one
		putSeq("duplicates+append", seed, ids, [][3]int{{0, ids[len(ids)-1], 0}, {0, 77, 0}}, append(singles(ids), []int{77}), allIdx(len(ids)+2))
	}
	// Update of the last unpaired leaf (n = 1 mod 4), Append, proofs/witnesses; then a second Update
	for _, n := range []int{5, 9, 13, 17, 3, 7} {
		ids := make([]int, n)
		for i := range ids {
			ids[i] = 10 + i
		}
		after := append(append([]int{}, ids[:n-1]...), 200, 201)
		putSeq("update-last+append", seed, ids, [][3]int{{1, n - 1, 200}, {0, 201, 0}}, singles(after), allIdx(n+1))
		after2 := append([]int{}, after...)
		after2[n-1] = 202
		putSeq("update-last+append+update", seed, ids, [][3]int{{1, n - 1, 200}, {0, 201, 0}, {1, n - 1, 202}, {0, 203, 0}}, singles(append(after2, 203)), allIdx(n+2))
	}
	// Update that makes a leaf equal to the append-path leaf, then Append
	putSeq("update-to-duplicate+append", seed, []int{1, 2, 3}, [][3]int{{1, 0, 3}, {0, 4, 0}}, [][]int{{2}, {4}, {3}, {2, 4}}, allIdx(4))
	putSeq("update-to-duplicate+append", seed, []int{1, 2, 3, 4, 5, 6, 7}, [][3]int{{1, 2, 7}, {0, 8, 0}, {1, 0, 8}, {0, 9, 0}}, [][]int{{2}, {4}, {5}, {6}, {9}, {2, 9}}, allIdx(9))
	// Update on sizes whose top binary digit is the only / highest append-path entry (powers of two and neighbours),
	// then Append: the refreshed append path is what the next root is built from
	for _, n := range []int{1, 2, 3, 4, 6, 8, 12, 16, 24, 32} {
		ids := make([]int, n)
		for i := range ids {
			ids[i] = 10 + i
		}
		for _, pos := range []int{0, n / 2, n - 1} {
			after := append(append([]int{}, ids...), 301, 302)
			after[pos] = 300
			putSeq("update+append", seed, ids, [][3]int{{1, pos, 300}, {0, 301, 0}, {0, 302, 0}}, singles(after), allIdx(n+2))
		}
	}
	// random scripts over a small alphabet (many duplicates) with re-open steps; every value of the final list is
	// queried (queries that hit the stale hash->location index are classified by the oracle, not filtered here)
	for i := 0; i < *nseq; i++ {
		n := 1 + r.Intn(14)
		ids := make([]int, n)
		for j := range ids {
			ids[j] = 1 + r.Intn(4)
		}
		cur := append([]int{}, ids...)
		ops := [][3]int{}
		for j := r.Intn(7); j > 0; j-- {
			switch r.Intn(5) {
			case 0, 1:
				id := 1 + r.Intn(6)
				ops = append(ops, [3]int{0, id, 0})
				cur = append(cur, id)
			case 2, 3:
				p, id := r.Intn(len(cur)), 1+r.Intn(6)
				if i%2 == 1 {
					id = 100 + 10*i + j // fresh value: no repeated values come from this Update
				}
				ops = append(ops, [3]int{1, p, id})
				cur[p] = id
			default:
				ops = append(ops, [3]int{2, 0, 0})
			}
		}
		qs := singles(cur)
		if len(qs) > 1 {
			qs = append(qs, []int{qs[0][0], qs[len(qs)-1][0], qs[0][0]})
		}
		o.Put(seqCase("random-script", seed, ids, ops, qs, allIdx(len(cur))))
	}
	// (e) right-witness reconstruction on inconsistent arguments (must terminate): the reported hang first
	hs := func(k int) [][]byte {
		r := make([][]byte, k)
		for i := range r {
			r[i] = leafHash(other(seed, 2000+i))
		}
		return r
	}
	first := rwxCase(0, hs(2), hs(1))
	o.Put(first)
	for i := 0; i < *nrwx && !strings.Contains(first.Panic, "hang"); i++ {
		idx := uint64(r.Intn(40))
		if r.Intn(5) == 0 {
			idx = r.U64()
		}
		rec := rwxCase(idx, hs(r.Intn(5)), hs(r.Intn(5)))
		o.Put(rec)
		if strings.Contains(rec.Panic, "hang") {
			break // a hung call keeps spinning: one concrete case is enough
		}
	}
	// (f) large sizes, Go side only
	if *bigexp >= 9 {
		bigRun(o, seed, *bigexp)
	}
	// (d) right witnesses: all positions 0..n+1
	for n := 0; n <= *rwmax; n++ {
		idxs := []int{}
		for i := 0; i <= n+1; i++ {
			idxs = append(idxs, i)
		}
		rwCases(o, seed, n, idxs)
	}
}
