// C16 correspondence driver: runs the real framework.ABIHandler + statemachine.Executer with a scripted module
// (public API only).  One JSONL record per scenario: a sequence of blocks (transactions = scripts of store / event /
// snapshot actions ending in success or failure; then Commit), Reverts, and restarts (Init with the application ahead
// of the engine).  Observations: result codes, events, values read, sorted state dump, tree-state record, and whether
// every returned root equals the sparse Merkle root of the dumped state computed from scratch.
package main

import (
	"bytes"
	"context"
	"encoding/hex"
	"encoding/json"
	"errors"
	"flag"
	"fmt"
	"os"
	"strings"
	"sync"

	"github.com/LiskHQ/lisk-engine/pkg/blockchain"
	"github.com/LiskHQ/lisk-engine/pkg/codec"
	"github.com/LiskHQ/lisk-engine/pkg/consensus"
	"github.com/LiskHQ/lisk-engine/pkg/consensus/liskbft"
	"github.com/LiskHQ/lisk-engine/pkg/crypto"
	"github.com/LiskHQ/lisk-engine/pkg/db"
	"github.com/LiskHQ/lisk-engine/pkg/db/diffdb"
	"github.com/LiskHQ/lisk-engine/pkg/framework"
	"github.com/LiskHQ/lisk-engine/pkg/framework/blueprint"
	"github.com/LiskHQ/lisk-engine/pkg/generator"
	"github.com/LiskHQ/lisk-engine/pkg/labi"
	"github.com/LiskHQ/lisk-engine/pkg/log"
	"github.com/LiskHQ/lisk-engine/pkg/statemachine"
	"github.com/LiskHQ/lisk-engine/pkg/trie/smt"

	"verifharness/internal/hx"
)

type logAdapter struct{}

func (logAdapter) Debug(string, ...interface{})     {}
func (logAdapter) Info(string, ...interface{})      {}
func (logAdapter) Error(string, ...interface{})     {}
func (logAdapter) Debugf(string, ...interface{})    {}
func (logAdapter) Infof(string, ...interface{})     {}
func (logAdapter) Errorf(string, ...interface{})    {}
func (logAdapter) Warning(string, ...interface{})   {}
func (logAdapter) Warningf(string, ...interface{})  {}
func (l logAdapter) With(...interface{}) log.Logger { return l }

// ---- scripts

type act struct {
	Op    string `json:"op"` // set del get ev snap restore
	Store int    `json:"st,omitempty"`
	Key   []int  `json:"k,omitempty"`
	Val   []int  `json:"v,omitempty"`
	Unrev bool   `json:"u,omitempty"`
	Name  int    `json:"n,omitempty"` // event name code; 0 = invalid name
	Topic int    `json:"tp,omitempty"`
	View  int    `json:"vw,omitempty"`
	ID    int    `json:"id,omitempty"`
}

type script struct {
	Acts []act `json:"acts"`
	Fail bool  `json:"fail"`
}

type txScript struct {
	Before  script `json:"before"`
	Command script `json:"cmd"`
	After   script `json:"after"`
	Unknown bool   `json:"unknown,omitempty"` // command name not registered
}

var stores = [][2][]byte{{{0, 0, 0, 1}, {0, 0}}, {{0, 0, 0, 1}, {0, 1}}, {{0, 0, 0, 2}, {0, 0}}}

func fullKey(st int, k []int) []int {
	out := []int{0}
	for _, b := range stores[st][0] {
		out = append(out, int(b))
	}
	for _, b := range stores[st][1] {
		out = append(out, int(b))
	}
	return append(out, k...)
}

func toBytes(x []int) []byte {
	b := make([]byte, len(x))
	for i, v := range x {
		b[i] = byte(v)
	}
	return b
}
func toInts(b []byte) []int {
	x := make([]int, len(b))
	for i, v := range b {
		x[i] = int(v)
	}
	return x
}

var eventNames = []string{"!", "alpha", "beta", "gamma"}

// observation of scripted code, in order
type obsRec struct {
	K   string `json:"k"` // got | everr | snap | resterr
	V   []int  `json:"v,omitempty"`
	Nil bool   `json:"nil,omitempty"`
	ID  int    `json:"id,omitempty"`
}

type mod struct {
	blueprint.Module
	cur     *txScript
	scripts map[int]*txScript // by Transaction.Params[0] (block generation executes in its own order)
	nb, na  int               // events emitted by Before/AfterTransactionsExecute
	obs     []obsRec
}

func (m *mod) Name() string { return "m" }
func (m *mod) GetCommand(name string) (statemachine.Command, bool) {
	if name != "run" {
		return nil, false
	}
	return &cmd{m: m}, true
}

func (m *mod) script(ctx *statemachine.TransactionExecuteContext) *txScript {
	if p := ctx.Transaction().Params(); len(p) > 0 && m.scripts != nil {
		if s, ok := m.scripts[int(p[0])]; ok {
			return s
		}
	}
	return m.cur
}

func (m *mod) runScript(ctx *statemachine.TransactionExecuteContext, s script) error {
	views := map[int]statemachine.Store{}
	view := func(i int) statemachine.Store {
		if v, ok := views[i]; ok {
			return v
		}
		v := ctx.GetStore(stores[i-1][0], stores[i-1][1])
		views[i] = v
		return v
	}
	for _, a := range s.Acts {
		switch a.Op {
		case "set":
			view(a.Store).Set(toBytes(a.Key), toBytes(a.Val))
		case "del":
			view(a.Store).Del(toBytes(a.Key))
		case "get":
			v, ok := view(a.Store).Get(toBytes(a.Key))
			m.obs = append(m.obs, obsRec{K: "got", V: toInts(v), Nil: !ok})
		case "ev":
			var topics []codec.Hex
			if a.Topic > 0 {
				topics = []codec.Hex{{byte(a.Topic)}}
			}
			var err error
			if a.Unrev {
				err = ctx.EventQueue().AddUnrevertible("m", eventNames[a.Name], toBytes(a.Val), topics)
			} else {
				err = ctx.EventQueue().Add("m", eventNames[a.Name], toBytes(a.Val), topics)
			}
			if err != nil {
				m.obs = append(m.obs, obsRec{K: "everr"})
			}
		case "snap":
			var id int
			if a.View == 0 {
				id = ctx.Snapshot()
			} else {
				id = view(a.View).Snapshot()
			}
			m.obs = append(m.obs, obsRec{K: "snap", ID: id})
		case "restore":
			var err error
			if a.View == 0 {
				err = ctx.RestoreSnapshot(a.ID)
			} else {
				err = view(a.View).RestoreSnapshot(a.ID)
			}
			if err != nil {
				m.obs = append(m.obs, obsRec{K: "resterr"})
			}
		}
	}
	if s.Fail {
		return errors.New("scripted failure")
	}
	return nil
}

func (m *mod) BeforeTransactionsExecute(ctx *statemachine.BeforeTransactionsExecuteContext) error {
	if m.nb > 0 { // block-level hooks write state too
		ctx.GetStore(stores[0][0], stores[0][1]).Set([]byte{9}, []byte{byte(m.nb)})
	}
	for i := 0; i < m.nb; i++ {
		if err := ctx.EventQueue().Add("m", "alpha", []byte{byte(i)}, nil); err != nil {
			return err
		}
	}
	return nil
}
func (m *mod) AfterTransactionsExecute(ctx *statemachine.AfterTransactionsExecuteContext) error {
	if m.na > 0 {
		ctx.GetStore(stores[1][0], stores[1][1]).Set([]byte{9}, []byte{byte(m.na)})
		ctx.GetStore(stores[0][0], stores[0][1]).Del([]byte{9})
	}
	for i := 0; i < m.na; i++ {
		if err := ctx.EventQueue().AddUnrevertible("m", "beta", []byte{byte(i)}, nil); err != nil {
			return err
		}
	}
	return nil
}
func (m *mod) BeforeCommandExecute(ctx *statemachine.TransactionExecuteContext) error {
	return m.runScript(ctx, m.script(ctx).Before)
}
func (m *mod) AfterCommandExecute(ctx *statemachine.TransactionExecuteContext) error {
	return m.runScript(ctx, m.script(ctx).After)
}

type cmd struct {
	blueprint.Command
	m *mod
}

func (c *cmd) ID() uint32   { return 0 }
func (c *cmd) Name() string { return "run" }
func (c *cmd) Execute(ctx *statemachine.TransactionExecuteContext) error {
	return c.m.runScript(ctx, c.m.script(ctx).Command)
}

// ---- records

type evRec struct {
	Name   int   `json:"n"`
	Data   []int `json:"d"`
	Topics []int `json:"t"` // first = 0 (the transaction id), then topic bytes
	Index  int   `json:"i"`
	Height int   `json:"h"`
	TxOK   bool  `json:"txok"` // first topic equals the transaction id
}

type txRec struct {
	S      txScript `json:"s"`
	Dry    bool     `json:"dry,omitempty"` // ExecuteTransactionRequest.DryRun: runs over the committed state, leaves no trace
	Result int      `json:"r"`
	Events []evRec  `json:"ev"`
	Obs    []obsRec `json:"obs"`
	Panic  string   `json:"panic,omitempty"`
}

type dumpRec struct {
	State   [][2][]int `json:"state"`
	THeight int        `json:"th"` // tree state record: height, -1 = absent
	TRoot   string     `json:"troot"`
}

type stepRec struct {
	T        string     `json:"t"` // block | revert | init
	Height   int        `json:"h"`
	Txs      []txRec    `json:"txs,omitempty"`
	Txs2     []txRec    `json:"txs2,omitempty"` // gen: the selected transactions executed again as a block
	SelOK    bool       `json:"selok,omitempty"`
	NB       int        `json:"nb,omitempty"`
	NA       int        `json:"na,omitempty"`
	BEvents  []evRec    `json:"bev,omitempty"`   // cblock: the block's events after the engine's renumbering
	Cands    []txScript `json:"cands,omitempty"` // gen: the candidate scripts in pool order (for replay)
	Dry      bool       `json:"dry,omitempty"`
	Mid      string     `json:"mid,omitempty"` // a dry-run / refused Commit in the middle of the block (same context keeps being used)
	Expected string     `json:"exp"`           // none | right | wrong
	Last     int        `json:"last,omitempty"`
	Res      string     `json:"res"` // ok | mismatch | nodiff | behind | conflict | err:<msg> | panic
	Root     string     `json:"root,omitempty"`
	RootRef  bool       `json:"rootref"` // returned root == SMT root of the dumped state built from scratch
	TreeRef  bool       `json:"treeref"` // tree-state record's root == SMT root of the dumped state
	Dump     dumpRec    `json:"dump"`
	Panic    string     `json:"panic,omitempty"`
}

type scnRec struct {
	K     string    `json:"k"`
	ID    int       `json:"id"`
	Steps []stepRec `json:"steps"`
}

// smt.Update writes from several goroutines
type memdb struct {
	mu sync.Mutex
	m  map[string][]byte
}

func (m *memdb) Get(k []byte) ([]byte, bool) {
	m.mu.Lock()
	defer m.mu.Unlock()
	v, ok := m.m[string(k)]
	return v, ok
}
func (m *memdb) Set(k, v []byte) {
	m.mu.Lock()
	defer m.mu.Unlock()
	m.m[string(k)] = append([]byte{}, v...)
}
func (m *memdb) Del(k []byte) {
	m.mu.Lock()
	defer m.mu.Unlock()
	delete(m.m, string(k))
}

type node struct {
	h       *framework.ABIHandler
	m       *mod
	stateDB *db.DB
	roots   map[int][]byte // root after the block at that height (engine's view)
	tip     int
	final   int // highest height passed to Finalize
}

func newNode() *node {
	sm := statemachine.NewExecuter()
	sm.Init(logAdapter{})
	m := &mod{cur: &txScript{}}
	if err := sm.AddModule(m); err != nil {
		panic(err)
	}
	stateDB, _ := db.NewInMemoryDB()
	moduleDB, _ := db.NewInMemoryDB()
	h := framework.NewABIHandler(context.Background(), nil, logAdapter{}, sm, nil, stateDB, moduleDB, []framework.Module{m})
	return &node{h: h, m: m, stateDB: stateDB, roots: map[int][]byte{0: crypto.Hash([]byte{})}}
}

// a fresh handler over the same databases (= process restart)
func (n *node) restart() {
	sm := statemachine.NewExecuter()
	sm.Init(logAdapter{})
	m := &mod{cur: &txScript{}}
	if err := sm.AddModule(m); err != nil {
		panic(err)
	}
	moduleDB, _ := db.NewInMemoryDB()
	n.m = m
	n.h = framework.NewABIHandler(context.Background(), nil, logAdapter{}, sm, nil, n.stateDB, moduleDB, []framework.Module{m})
}

func (n *node) dump() (dumpRec, []byte) {
	d := dumpRec{State: [][2][]int{}, THeight: -1}
	keys, vals := [][]byte{}, [][]byte{}
	for _, kv := range n.stateDB.IterateRange([]byte{0}, bytes.Repeat([]byte{0xff}, 64), -1, false) {
		k := kv.Key()
		switch k[0] {
		case 0:
			d.State = append(d.State, [2][]int{toInts(k), toInts(kv.Value())})
			tk := append(append([]byte{}, k[1:7]...), crypto.Hash(k[7:])...)
			keys = append(keys, tk)
			vals = append(vals, crypto.Hash(kv.Value()))
		case 3:
			v := kv.Value()
			d.THeight = int(uint32(v[0])<<24 | uint32(v[1])<<16 | uint32(v[2])<<8 | uint32(v[3]))
			d.TRoot = hex.EncodeToString(v[4:])
		}
	}
	ref := crypto.Hash([]byte{})
	if len(keys) > 0 {
		tr := smt.NewTrie(nil, 38)
		r, err := tr.Update(&memdb{m: map[string][]byte{}}, keys, vals)
		if err != nil {
			panic(err)
		}
		ref = r
	}
	return d, ref
}

func guard(f func()) (p string) {
	defer func() {
		if r := recover(); r != nil {
			p = fmt.Sprint(r)
			if i := strings.Index(p, "\n"); i > 0 {
				p = p[:i]
			}
		}
	}()
	f()
	return ""
}

func (n *node) block(height int, txs []txScript, dry bool, expected string, mid string) stepRec {
	st := stepRec{T: "block", Height: height, Dry: dry, Expected: expected, Mid: mid}
	header := &blockchain.BlockHeader{Version: 2, Height: uint32(height), AggregateCommit: &blockchain.AggregateCommit{}}
	r, err := n.h.InitStateMachine(&labi.InitStateMachineRequest{Header: header})
	if err != nil {
		panic(err)
	}
	cons := &labi.Consensus{}
	// a dry run of a transaction (engine: transaction pool admission) is interleaved now and then
	expanded := []txScript{}
	dryFlags := []bool{}
	for i := range txs {
		if (height*7+i)%5 == 0 {
			expanded = append(expanded, txs[i])
			dryFlags = append(dryFlags, true)
		}
		expanded = append(expanded, txs[i])
		dryFlags = append(dryFlags, false)
	}
	txs = expanded
	midAt := len(txs) / 2
	midPanic := ""
	for i := range txs {
		if mid != "" && i == midAt {
			// the context is asked for its root (dry run) or refused (wrong expected root) and then keeps being used
			mreq := &labi.CommitRequest{ContextID: r.ContextID, StateRoot: n.roots[height-1], DryRun: mid == "dry"}
			if mid == "wrong" {
				mreq.ExpectedStateRoot = bytes.Repeat([]byte{0xab}, 32)
			}
			if p := guard(func() { _, _ = n.h.Commit(mreq) }); p != "" {
				midPanic = p
			}
		}
		s := txs[i]
		n.m.cur = &s
		n.m.obs = []obsRec{}
		command := "run"
		if s.Unknown {
			command = "nope"
		}
		t := &blockchain.Transaction{Module: "m", Command: command, Params: []byte{byte(i)}, Nonce: uint64(height*100 + i), SenderPublicKey: make([]byte, 32), Signatures: []codec.Hex{make([]byte, 64)}}
		t.Init()
		rec := txRec{S: s, Dry: dryFlags[i], Events: []evRec{}}
		rec.Panic = guard(func() {
			resp, err := n.h.ExecuteTransaction(&labi.ExecuteTransactionRequest{ContextID: r.ContextID, Transaction: t, Header: header, Consensus: cons, DryRun: dryFlags[i]})
			if err != nil {
				panic(err)
			}
			rec.Result = int(resp.Result)
			rec.Events = convEvents(resp.Events, t.ID)
		})
		rec.Obs = n.m.obs
		st.Txs = append(st.Txs, rec)
	}
	prev := n.roots[height-1]
	req := &labi.CommitRequest{ContextID: r.ContextID, StateRoot: prev, DryRun: dry}
	var resp *labi.CommitResponse
	commit := func(exp []byte) {
		req.ExpectedStateRoot = exp
		st.Panic = guard(func() {
			resp, err = n.h.Commit(req)
			switch {
			case err == nil:
				st.Res = "ok"
				st.Root = hex.EncodeToString(resp.StateRoot)
			case strings.Contains(err.Error(), "does not match with expected state root"):
				st.Res = "mismatch"
			default:
				st.Res = "err:" + err.Error()
			}
		})
	}
	switch expected {
	case "none":
		commit(nil)
	case "wrong":
		commit(bytes.Repeat([]byte{0xab}, 32))
	case "right":
		// learn the root with a dry run first (the engine gets it from the block header)
		req.DryRun = true
		commit(nil)
		req.DryRun = dry
		if st.Res == "ok" {
			commit(resp.StateRoot)
		}
	}
	if st.Panic == "" && midPanic != "" {
		st.Panic = "mid-block commit: " + midPanic
	}
	if st.Panic != "" {
		st.Res = "panic"
	}
	n.h.Clear(&labi.ClearRequest{})
	var ref []byte
	st.Dump, ref = n.dump()
	if st.Res == "ok" && !dry {
		n.roots[height] = resp.StateRoot
		n.tip = height
		st.RootRef = bytes.Equal(resp.StateRoot, ref)
	}
	st.TreeRef = st.Dump.TRoot == hex.EncodeToString(ref)
	return st
}

func (n *node) revert(expected string) stepRec {
	height := n.tip
	st := stepRec{T: "revert", Height: height, Expected: expected}
	header := &blockchain.BlockHeader{Version: 2, Height: uint32(height), AggregateCommit: &blockchain.AggregateCommit{}}
	r, err := n.h.InitStateMachine(&labi.InitStateMachineRequest{Header: header})
	if err != nil {
		panic(err)
	}
	req := &labi.RevertRequest{ContextID: r.ContextID, StateRoot: n.roots[height]}
	switch expected {
	case "right":
		req.ExpectedStateRoot = n.roots[height-1]
	case "wrong":
		req.ExpectedStateRoot = bytes.Repeat([]byte{0xcd}, 32)
	}
	var resp *labi.RevertResponse
	st.Panic = guard(func() {
		resp, err = n.h.Revert(req)
		switch {
		case err == nil:
			st.Res = "ok"
			st.Root = hex.EncodeToString(resp.StateRoot)
		case strings.Contains(err.Error(), "does not match with expected state root"):
			st.Res = "mismatch"
		case strings.Contains(err.Error(), "does not exist"):
			st.Res = "nodiff"
		default:
			st.Res = "err:" + err.Error()
		}
	})
	if st.Panic != "" {
		st.Res = "panic"
	}
	n.h.Clear(&labi.ClearRequest{})
	var ref []byte
	st.Dump, ref = n.dump()
	if st.Res == "ok" {
		st.RootRef = bytes.Equal(resp.StateRoot, ref) && bytes.Equal(resp.StateRoot, n.roots[height-1])
		n.tip = height - 1
	}
	st.TreeRef = st.Dump.TRoot == hex.EncodeToString(ref)
	return st
}

// Finalize(fh): the engine tells the application that everything up to fh is final (diffs below fh are pruned)
func (n *node) finalize(fh int) stepRec {
	st := stepRec{T: "fin", Height: n.tip, Last: fh, Expected: "none"}
	st.Panic = guard(func() {
		if _, err := n.h.Finalize(&labi.FinalizeRequest{FinalizedHeight: uint32(fh)}); err != nil {
			st.Res = "err:" + err.Error()
		} else {
			st.Res = "ok"
		}
	})
	if st.Panic != "" {
		st.Res = "panic"
	}
	if fh > n.final {
		n.final = fh
	}
	var ref []byte
	st.Dump, ref = n.dump()
	st.TreeRef = st.Dump.TRoot == hex.EncodeToString(ref)
	st.RootRef = true
	return st
}

// restart with the engine's tip at [last] (the application may be ahead)
func (n *node) init(last int, rootKind string) stepRec {
	st := stepRec{T: "init", Height: n.tip, Last: last, Expected: rootKind}
	n.restart()
	root := n.roots[last]
	if rootKind == "wrong" {
		root = bytes.Repeat([]byte{0xee}, 32)
	}
	st.Panic = guard(func() {
		_, err := n.h.Init(&labi.InitRequest{ChainID: []byte{0, 0, 0, 1}, LastBlockHeight: uint32(last), LastStateRoot: root})
		switch {
		case err == nil:
			st.Res = "ok"
		case strings.Contains(err.Error(), "conflict in state root"):
			st.Res = "conflict"
		case strings.Contains(err.Error(), "current height is"):
			st.Res = "behind"
		case strings.Contains(err.Error(), "does not exist"):
			st.Res = "nodiff"
		default:
			st.Res = "err:" + err.Error()
		}
	})
	if st.Panic != "" {
		st.Res = "panic"
	}
	var ref []byte
	st.Dump, ref = n.dump()
	st.TreeRef = st.Dump.TRoot == hex.EncodeToString(ref)
	if st.Res == "ok" || st.Res == "conflict" {
		if last <= n.tip {
			n.tip = last
		}
		st.RootRef = bytes.Equal(ref, n.roots[n.tip])
	}
	return st
}

func convEvents(es []*blockchain.Event, txID []byte) []evRec {
	out := []evRec{}
	for _, e := range es {
		er := evRec{Data: toInts(e.Data), Index: int(e.Index), Height: int(e.Height), Name: -1, Topics: []int{}}
		for j, nm := range eventNames {
			if nm == e.Name {
				er.Name = j
			}
		}
		if e.Name == blockchain.EventNameDefault {
			er.Name = 100
		}
		for j, tp := range e.Topics {
			if j == 0 {
				er.TxOK = bytes.Equal(tp, txID)
				er.Topics = append(er.Topics, 0)
			} else {
				er.Topics = append(er.Topics, int(tp[0]))
			}
		}
		out = append(out, er)
	}
	return out
}

// recABI records the ExecuteTransaction calls block generation makes
type recABI struct {
	*framework.ABIHandler
	n       *node
	scripts []txScript
	calls   []txRec
	ids     [][]byte
}

func (a *recABI) ExecuteTransaction(req *labi.ExecuteTransactionRequest) (*labi.ExecuteTransactionResponse, error) {
	idx := int(req.Transaction.Params[0])
	a.n.m.obs = []obsRec{}
	resp, err := a.ABIHandler.ExecuteTransaction(req)
	rec := txRec{S: a.scripts[idx], Events: []evRec{}}
	if err == nil {
		rec.Result = int(resp.Result)
		rec.Events = convEvents(resp.Events, req.Transaction.ID)
	} else {
		rec.Panic = "error: " + err.Error()
	}
	rec.Obs = a.n.m.obs
	a.calls = append(a.calls, rec)
	a.ids = append(a.ids, req.Transaction.ID)
	return resp, err
}

// cblock: a block executed the way consensus.processValidated does it — newBlockExecuteABI + Execute (hook
// VerifC16ExecuteBlock): BeforeTransactionsExecute, Verify/ExecuteTransaction per transaction, AfterTransactionsExecute and the
// block-level renumbering of the events (Events.UpdateIndex) — then Commit.
func (n *node) cblock(height int, txs []txScript, nb, na int) stepRec {
	st := stepRec{T: "cblock", Height: height, Expected: "none", Cands: txs, NB: nb, NA: na}
	n.m.scripts = map[int]*txScript{}
	n.m.nb, n.m.na = nb, na
	defer func() { n.m.scripts, n.m.nb, n.m.na = nil, 0, 0 }()
	block := &blockchain.Block{Transactions: []*blockchain.Transaction{}, Assets: blockchain.BlockAssets{}}
	for i := range txs {
		sc := txs[i]
		n.m.scripts[i] = &sc
		pk := make([]byte, 32)
		pk[0] = byte(i + 1)
		t := &blockchain.Transaction{Module: "m", Command: "run", Params: []byte{byte(i)}, Nonce: 0, Fee: 1000, SenderPublicKey: pk, Signatures: []codec.Hex{make([]byte, 64)}}
		t.Init()
		block.Transactions = append(block.Transactions, t)
		st.Txs = append(st.Txs, txRec{S: sc, Events: []evRec{}})
	}
	// a BFT store in which the block's height is the next one
	memdb, _ := db.NewInMemoryDB()
	defer memdb.Close()
	store := diffdb.New(memdb, []byte{9})
	bft := liskbft.NewModule()
	if err := bft.Init(103); err != nil {
		panic(err)
	}
	gaddr := make([]byte, 20)
	gaddr[0] = 7
	gh := &blockchain.BlockHeader{Height: uint32(height - 1), AggregateCommit: &blockchain.AggregateCommit{}}
	gh.Init()
	if err := bft.InitGenesisState(gh.Readonly(), store); err != nil {
		panic(err)
	}
	vals, gens := liskbft.GetBFTValidatorAndGenerators(labi.Validators{{Address: gaddr, BFTWeight: 1, GeneratorKey: make([]byte, 32), BLSKey: make([]byte, 48)}})
	if err := bft.API().SetBFTParameters(store, 1, 1, vals); err != nil {
		panic(err)
	}
	if err := bft.API().SetGeneratorKeys(store, gens); err != nil {
		panic(err)
	}
	block.Header = &blockchain.BlockHeader{Version: 2, Height: uint32(height), GeneratorAddress: gaddr, AggregateCommit: &blockchain.AggregateCommit{}}
	block.Header.Init()
	var ctxID codec.Hex
	var evs []*blockchain.Event
	var xerr error
	st.Panic = guard(func() { ctxID, evs, xerr = consensus.VerifC16ExecuteBlock(n.h, bft, store, block) })
	if st.Panic != "" || xerr != nil {
		st.Res = "panic"
		if xerr != nil {
			st.Res = "err:" + xerr.Error()
		}
		n.h.Clear(&labi.ClearRequest{})
		st.Dump, _ = n.dump()
		return st
	}
	st.BEvents = []evRec{}
	for _, e := range evs {
		er := evRec{Data: toInts(e.Data), Index: int(e.Index), Height: int(e.Height), Name: -1, Topics: []int{}, TxOK: len(e.Topics) > 0}
		for j, nm := range eventNames {
			if nm == e.Name {
				er.Name = j
			}
		}
		if e.Name == blockchain.EventNameDefault {
			er.Name = 100
		}
		for j, tp := range e.Topics {
			switch {
			case j == 0 && len(tp) == 1: // block-level default topics: [2] before, [3] after the transactions
				er.Topics = append(er.Topics, 200+int(tp[0]))
			case j == 0: // a transaction id: which transaction of the block?
				k := -1
				for i, t := range block.Transactions {
					if bytes.Equal(tp, t.ID) {
						k = i
					}
				}
				er.Topics = append(er.Topics, 1000+k)
				er.TxOK = er.TxOK && k >= 0
			default:
				er.Topics = append(er.Topics, int(tp[0]))
			}
		}
		st.BEvents = append(st.BEvents, er)
	}
	var resp *labi.CommitResponse
	st.Panic = guard(func() {
		var e error
		resp, e = n.h.Commit(&labi.CommitRequest{ContextID: ctxID, StateRoot: n.roots[height-1]})
		if e == nil {
			st.Res = "ok"
			st.Root = hex.EncodeToString(resp.StateRoot)
		} else {
			st.Res = "err:" + e.Error()
		}
	})
	if st.Panic != "" {
		st.Res = "panic"
	}
	n.h.Clear(&labi.ClearRequest{})
	var ref []byte
	st.Dump, ref = n.dump()
	if st.Res == "ok" {
		n.roots[height] = resp.StateRoot
		n.tip = height
		st.RootRef = bytes.Equal(resp.StateRoot, ref)
	}
	st.TreeRef = st.Dump.TRoot == hex.EncodeToString(ref)
	return st
}

// gen: what block generation does with the application — one context, the candidate transactions executed in fee order by
// generator.selectTransactionsByFee (invalid ones are skipped and the SAME context keeps being used), Commit{DryRun} for
// the header's state root — followed by what every node does with the generated block: the selected transactions on a
// fresh context and a Commit that expects the header's root.
func (n *node) gen(height int, txs []txScript) stepRec {
	st := stepRec{T: "gen", Height: height, Expected: "given", Cands: txs}
	header := &blockchain.BlockHeader{Version: 2, Height: uint32(height), AggregateCommit: &blockchain.AggregateCommit{}}
	r, err := n.h.InitStateMachine(&labi.InitStateMachineRequest{Header: header})
	if err != nil {
		panic(err)
	}
	n.m.scripts = map[int]*txScript{}
	cands := []*blockchain.Transaction{}
	for i := range txs {
		sc := txs[i]
		n.m.scripts[i] = &sc
		command := "run"
		if sc.Unknown {
			command = "nope"
		}
		pk := make([]byte, 32)
		pk[0] = byte(i + 1)
		t := &blockchain.Transaction{Module: "m", Command: command, Params: []byte{byte(i)}, Nonce: 0, Fee: uint64(1000000 - 1000*i), SenderPublicKey: pk, Signatures: []codec.Hex{make([]byte, 64)}}
		t.Init()
		cands = append(cands, t)
	}
	wr := &recABI{ABIHandler: n.h, n: n, scripts: txs}
	chain := blockchain.NewChain(&blockchain.ChainConfig{ChainID: []byte{0, 0, 0, 1}, MaxBlockCache: 10})
	g := generator.NewGenerator(&generator.GeneratorParams{Chain: chain})
	var sel []*blockchain.Transaction
	st.Panic = guard(func() {
		var e error
		sel, e = g.VerifC15SelectTransactionsWith(wr, r.ContextID, &labi.Consensus{}, header, cands, 1<<20)
		if e != nil {
			panic(e)
		}
	})
	st.Txs = wr.calls
	var genRoot []byte
	if st.Panic == "" {
		st.Panic = guard(func() {
			resp, e := n.h.Commit(&labi.CommitRequest{ContextID: r.ContextID, StateRoot: n.roots[height-1], DryRun: true})
			if e != nil {
				panic(e)
			}
			genRoot = resp.StateRoot
		})
	}
	n.h.Clear(&labi.ClearRequest{})
	// the selection must be the executed, not invalid transactions, in execution order
	want := [][]byte{}
	for i, c := range wr.calls {
		if c.Result != int(labi.TxExecuteResultInvalid) && c.Panic == "" {
			want = append(want, wr.ids[i])
		}
	}
	st.SelOK = len(want) == len(sel)
	for i := range sel {
		if st.SelOK && !bytes.Equal(sel[i].ID, want[i]) {
			st.SelOK = false
		}
	}
	if st.Panic != "" {
		st.Res = "panic"
		st.Dump, _ = n.dump()
		return st
	}
	// the block on a fresh context
	r2, err := n.h.InitStateMachine(&labi.InitStateMachineRequest{Header: header})
	if err != nil {
		panic(err)
	}
	for _, t := range sel {
		idx := int(t.Params[0])
		n.m.obs = []obsRec{}
		rec := txRec{S: txs[idx], Events: []evRec{}}
		rec.Panic = guard(func() {
			resp, e := n.h.ExecuteTransaction(&labi.ExecuteTransactionRequest{ContextID: r2.ContextID, Transaction: t, Header: header, Consensus: &labi.Consensus{}})
			if e != nil {
				panic(e)
			}
			rec.Result = int(resp.Result)
			rec.Events = convEvents(resp.Events, t.ID)
		})
		rec.Obs = n.m.obs
		st.Txs2 = append(st.Txs2, rec)
	}
	var resp *labi.CommitResponse
	st.Panic = guard(func() {
		var e error
		resp, e = n.h.Commit(&labi.CommitRequest{ContextID: r2.ContextID, StateRoot: n.roots[height-1], ExpectedStateRoot: genRoot})
		switch {
		case e == nil:
			st.Res = "ok"
			st.Root = hex.EncodeToString(resp.StateRoot)
		case strings.Contains(e.Error(), "does not match with expected state root"):
			st.Res = "mismatch"
		default:
			st.Res = "err:" + e.Error()
		}
	})
	if st.Panic != "" {
		st.Res = "panic"
	}
	n.h.Clear(&labi.ClearRequest{})
	n.m.scripts = nil
	var ref []byte
	st.Dump, ref = n.dump()
	if st.Res == "ok" {
		n.roots[height] = resp.StateRoot
		n.tip = height
		st.RootRef = bytes.Equal(resp.StateRoot, ref)
	}
	st.TreeRef = st.Dump.TRoot == hex.EncodeToString(ref)
	return st
}

// ---- generators

func randScript(r *hx.Rng, n int, failP int) script {
	s := script{Acts: []act{}}
	snaps := map[int]int{}
	for i := 0; i < n; i++ {
		k := []int{r.Intn(4)}
		if r.Intn(8) == 0 {
			k = []int{}
		}
		st := 1 + r.Intn(3)
		switch x := r.Intn(20); {
		case x < 7:
			v := []int{r.Intn(256)}
			if r.Intn(6) == 0 {
				v = []int{}
			}
			s.Acts = append(s.Acts, act{Op: "set", Store: st, Key: k, Val: v})
		case x < 11:
			s.Acts = append(s.Acts, act{Op: "del", Store: st, Key: k})
		case x < 14:
			s.Acts = append(s.Acts, act{Op: "get", Store: st, Key: k})
		case x < 17:
			nm := 1 + r.Intn(3)
			if r.Intn(10) == 0 {
				nm = 0
			}
			s.Acts = append(s.Acts, act{Op: "ev", Unrev: r.Bool(), Name: nm, Val: []int{r.Intn(256)}, Topic: r.Intn(3)})
		case x < 19:
			vw := r.Intn(4)
			s.Acts = append(s.Acts, act{Op: "snap", View: vw})
			snaps[vw]++
		default:
			vw := r.Intn(4)
			id := r.Intn(3)
			if snaps[vw] > 0 && r.Intn(4) != 0 {
				id = r.Intn(snaps[vw] + 1)
			}
			if vw == 0 {
				id = r.Intn(6) // may hit the snapshot taken by ExecuteTransaction itself
			}
			s.Acts = append(s.Acts, act{Op: "restore", View: vw, ID: id})
		}
	}
	s.Fail = r.Intn(100) < failP
	return s
}

func randTx(r *hx.Rng) txScript {
	t := txScript{Before: script{Acts: []act{}}, After: script{Acts: []act{}}, Command: randScript(r, 1+r.Intn(8), 45)}
	if r.Intn(5) == 0 {
		t.Before = randScript(r, 1+r.Intn(2), 10)
	}
	if r.Intn(5) == 0 {
		t.After = randScript(r, 1+r.Intn(2), 10)
	}
	t.Unknown = r.Intn(25) == 0
	return t
}

func main() {
	out := flag.String("out", "cases.jsonl", "output")
	nscn := flag.Int("scenarios", 40, "scenarios")
	nsteps := flag.Int("steps", 14, "steps per scenario")
	in := flag.String("in", "", "replay a scenario file: re-run the scripted steps of each record")
	flag.Parse()
	r := hx.NewRng(hx.SeedFromEnv())
	o := hx.NewOut(*out)
	defer o.Close()
	if *in != "" {
		data, err := os.ReadFile(*in)
		if err != nil {
			panic(err)
		}
		for _, line := range strings.Split(string(data), "\n") {
			if strings.TrimSpace(line) == "" {
				continue
			}
			var rec scnRec
			if err := json.Unmarshal([]byte(line), &rec); err != nil {
				panic(err)
			}
			n := newNode()
			outRec := scnRec{K: "scn", ID: rec.ID}
			for _, s := range rec.Steps {
				switch s.T {
				case "block":
					txs := []txScript{}
					for _, t := range s.Txs {
						if !t.Dry { // dry runs are re-inserted by block()
							txs = append(txs, t.S)
						}
					}
					outRec.Steps = append(outRec.Steps, n.block(s.Height, txs, s.Dry, s.Expected, s.Mid))
				case "gen":
					outRec.Steps = append(outRec.Steps, n.gen(s.Height, s.Cands))
				case "cblock":
					outRec.Steps = append(outRec.Steps, n.cblock(s.Height, s.Cands, s.NB, s.NA))
				case "fin":
					outRec.Steps = append(outRec.Steps, n.finalize(s.Last))
				case "revert":
					outRec.Steps = append(outRec.Steps, n.revert(s.Expected))
				case "init":
					outRec.Steps = append(outRec.Steps, n.init(s.Last, s.Expected))
				}
			}
			o.Put(outRec)
		}
		return
	}
	for i := 0; i < *nscn; i++ {
		n := newNode()
		rec := scnRec{K: "scn", ID: i}
		for j := 0; j < *nsteps; j++ {
			x := r.Intn(20)
			switch {
			case x == 18 && n.tip > 0 && r.Intn(2) == 0:
				// the engine finalises some height up to its tip; reverts / restarts below it are no longer its business,
				// but everything from the finalised height upwards must stay undoable
				rec.Steps = append(rec.Steps, n.finalize(n.final+r.Intn(n.tip-n.final+1)))
				if r.Intn(3) == 0 { // walk back to the finalised floor and one step beyond: the last revert must find no diff
					for k := 0; k < 40 && n.tip >= n.final && n.tip > 0; k++ {
						st := n.revert("right")
						rec.Steps = append(rec.Steps, st)
						if st.Res != "ok" {
							break
						}
					}
				}
			case x == 19:
				txs := []txScript{}
				for k := r.Intn(4); k > 0; k-- {
					t := randTx(r)
					t.Unknown = false
					t.Before.Fail, t.After.Fail = false, false
					for _, sc := range []*script{&t.Before, &t.Command, &t.After} {
						kept := []act{}
						for _, a := range sc.Acts {
							if !(a.Op == "restore" && a.View == 0) {
								kept = append(kept, a)
							}
						}
						sc.Acts = kept
					}
					txs = append(txs, t)
				}
				rec.Steps = append(rec.Steps, n.cblock(n.tip+1, txs, r.Intn(3), r.Intn(3)))
			case x < 3 && n.tip > 0:
				txs := []txScript{}
				for k := 1 + r.Intn(4); k >= 0; k-- {
					t := randTx(r)
					switch r.Intn(5) {
					case 0: // a hook that writes and then fails: the transaction is invalid
						t.Before = randScript(r, 1+r.Intn(3), 100)
					case 1:
						t.After = randScript(r, 1+r.Intn(3), 100)
					}
					// snapshot ids of the context are relative to its history (the generating context has executed the
					// skipped transactions too): a script may only restore what it took itself, so the blind
					// context-level restores of the random scripts are left out here
					for _, sc := range []*script{&t.Before, &t.Command, &t.After} {
						kept := []act{}
						for _, a := range sc.Acts {
							if !(a.Op == "restore" && a.View == 0) {
								kept = append(kept, a)
							}
						}
						sc.Acts = kept
					}
					txs = append(txs, t)
				}
				rec.Steps = append(rec.Steps, n.gen(n.tip+1, txs))
			case x < 12 || n.tip == 0:
				txs := []txScript{}
				for k := r.Intn(4); k >= 0; k-- {
					txs = append(txs, randTx(r))
				}
				exp := []string{"none", "none", "right", "wrong"}[r.Intn(4)]
				mid := []string{"", "", "dry", "wrong"}[r.Intn(4)]
				rec.Steps = append(rec.Steps, n.block(n.tip+1, txs, r.Intn(8) == 0, exp, mid))
			case x == 15 && n.tip > n.final+1:
				// a fork switch two blocks deep whose new branch has a block that does not touch the state: the diff of the
				// old block at that height must not be what a later revert / restart applies
				rec.Steps = append(rec.Steps, n.revert("right"))
				rec.Steps = append(rec.Steps, n.revert("right"))
				rec.Steps = append(rec.Steps, n.block(n.tip+1, []txScript{randTx(r)}, false, "none", ""))
				idle := []txScript{}
				for k := r.Intn(3); k > 0; k-- { // commands that fail (or nothing at all): no state change
					t := randTx(r)
					t.Before, t.After = script{Acts: []act{}}, script{Acts: []act{}}
					t.Command.Fail = true
					t.Unknown = false
					kept := []act{}
					for _, a := range t.Command.Acts {
						if !(a.Op == "restore" && a.View == 0) {
							kept = append(kept, a)
						}
					}
					t.Command.Acts = kept
					idle = append(idle, t)
				}
				rec.Steps = append(rec.Steps, n.block(n.tip+1, idle, false, "none", ""))
				if r.Bool() {
					rec.Steps = append(rec.Steps, n.revert("right"))
				} else {
					rec.Steps = append(rec.Steps, n.init(n.tip-1, "right"))
				}
			case x < 16:
				rec.Steps = append(rec.Steps, n.revert([]string{"none", "right", "right", "wrong"}[r.Intn(4)]))
			default:
				last := n.tip - r.Intn(3)
				if last < 0 {
					last = 0
				}
				if last < n.final {
					last = n.final
				}
				if r.Intn(8) == 0 {
					last = n.tip + 1
				}
				kind := "right"
				if r.Intn(5) == 0 {
					kind = "wrong"
				}
				if _, ok := n.roots[last]; !ok {
					kind = "wrong"
				}
				rec.Steps = append(rec.Steps, n.init(last, kind))
			}
		}
		o.Put(rec)
	}
}
