// C12 correspondence driver: random operation sequences on the real pkg/db/diffdb (several prefix views
// sharing one cache, snapshots) over an in-memory pebble, every read observed, then Commit + write +
// RevertDiff (through the diff codec) + write with full database dumps; and single scans of pkg/db
// (IterateRange / Iterate / IterateKey on DB and on a Reader). One JSONL record per case.
package main

import (
	"bufio"
	"encoding/hex"
	"encoding/json"
	"flag"
	"fmt"
	"os"
	"sort"
	"strings"

	"github.com/LiskHQ/lisk-engine/pkg/db"
	"github.com/LiskHQ/lisk-engine/pkg/db/batchdb"
	"github.com/LiskHQ/lisk-engine/pkg/db/diffdb"

	"verifharness/internal/hx"
)

type KV [2]string // hex key, hex value

type Op struct {
	O   string      `json:"o"` // get has set del range iter snap restore delsnap view
	V   int         `json:"v"` // view index
	A   string      `json:"a"` // key / start / prefix (hex)
	B   string      `json:"b"` // end (hex)
	X   string      `json:"x"` // value (hex)
	L   int         `json:"l"` // limit
	R   bool        `json:"r"` // reverse
	ID  int         `json:"id"`
	D   int         `json:"d,omitempty"` // kind "two": which of the two roots
	Res interface{} `json:"res"`         // get: hex|null; has/restore: bool; range/iter: [][2]hex; snap: id; "panic:<msg>"
}

type Commit struct {
	Added    []string `json:"added"`
	Updated  []KV     `json:"updated"`
	Deleted  []KV     `json:"deleted"`
	After    []KV     `json:"after"`
	Reverted []KV     `json:"reverted"`
	CodecOK  bool     `json:"codec_ok"`
	DryOK    bool     `json:"dry_ok"`
}

type OpsCase struct {
	K       string  `json:"k"`
	Root    string  `json:"root"`
	DB      []KV    `json:"db"`
	Ops     []*Op   `json:"ops"`
	Commit  *Commit `json:"commit"`
	Dry     bool    `json:"dry"`            // input: precede every Commit by a dry-run Commit into a batch that is never written
	Ops2    []*Op   `json:"ops2,omitempty"` // kind "ops2": continued use of the same Database objects after Commit
	Commit2 *Commit `json:"commit2,omitempty"`
	Panic   string  `json:"panic,omitempty"`
	Close   string  `json:"close,omitempty"` // error class of DB.Close (leaked iterators)
}

type ScanCase struct {
	K     string `json:"k"`
	DB    []KV   `json:"db"`
	Kind  int    `json:"kind"` // 0 IterateRange, 1 Iterate, 2 IterateKey
	Src   string `json:"src"`  // db | reader
	A     string `json:"a"`
	B     string `json:"b"`
	L     int    `json:"l"`
	R     bool   `json:"r"`
	Res   []KV   `json:"res"`
	Close string `json:"close,omitempty"`
}

// BdbCase: pkg/db/batchdb over (DB, Batch): gets observed, then the batch is written and the DB dumped.
type BdbCase struct {
	K     string `json:"k"`
	Root  string `json:"root"`
	DB    []KV   `json:"db"`
	Ops   []*Op  `json:"ops"` // get set del
	After []KV   `json:"after"`
	Panic string `json:"panic,omitempty"`
	Close string `json:"close,omitempty"`
}

func runBdb(c *BdbCase) {
	d, err := db.NewInMemoryDB()
	if err != nil {
		panic(err)
	}
	c.Close, c.Panic, c.After = "", "", nil
	defer func() {
		if err := d.Close(); err != nil {
			c.Close = closeClass(err)
		}
	}()
	defer func() {
		if e := recover(); e != nil {
			c.Panic = fmt.Sprintf("bdb:%v", e)
		}
	}()
	fill(d, c.DB)
	batch := d.NewBatch()
	var b *batchdb.Database
	if c.Root == "" {
		b = batchdb.New(d, batch)
	} else {
		b = batchdb.NewWithPrefix(d, batch, unhex(c.Root))
	}
	for _, o := range c.Ops {
		o.Res = nil
		k := unhex(o.A)
		switch o.O {
		case "get":
			v, ok := b.Get(k)
			if ok {
				o.Res = hx2(v)
			}
			scribble(v)
		case "set":
			v := unhex(o.X)
			b.Set(k, v)
			scribble(v)
		case "del":
			b.Del(k)
		}
		scribble(k)
	}
	d.Write(batch)
	c.After = dump(d)
}

var alphabet = []byte{0x00, 0x61, 0xff}

func hx2(b []byte) string { return hex.EncodeToString(b) }
func unhex(s string) []byte {
	b, err := hex.DecodeString(s)
	if err != nil {
		panic(err)
	}
	return b
}

// scribble overwrites a buffer the way a caller reusing it would: the staged store must not alias caller memory.
func scribble(b []byte) {
	for i := range b {
		b[i] ^= 0x5a
	}
}

func scribbleKVs(l []db.KeyValue) {
	for _, kv := range l {
		scribble(kv.Key())
		scribble(kv.Value())
	}
}

// longPool, when set, makes rkey produce framework-like keys: 6-byte store prefix + 32-byte key (38 bytes), near
// neighbours of them (last byte changed, one byte shorter, one byte longer) and their short prefixes.
var longPool [][]byte

func setLongPool(r *hx.Rng) {
	p6 := []byte{0x3c, 0x46, 0x9e, 0x9d, 0x00, 0x00}
	mk := func() []byte {
		k := append([]byte{}, p6...)
		for i := 0; i < 32; i++ {
			k = append(k, []byte{0x00, 0x61, 0xff, byte(r.Intn(256))}[r.Intn(4)])
		}
		return k
	}
	k0, k2 := mk(), mk()
	k1 := append([]byte{}, k0...)
	k1[37]++
	k3 := append([]byte{}, k0[:37]...)
	k4 := append(append([]byte{}, k0...), 0x00)
	k5 := append(append([]byte{}, p6[:4]...), 0x80, 0x00)
	k5 = append(k5, k2[6:]...)
	longPool = [][]byte{k0, k1, k2, k3, k4, k5}
}

func rkey(r *hx.Rng, maxLen int) []byte {
	if longPool != nil && r.Intn(5) != 0 {
		k := longPool[r.Intn(len(longPool))]
		if r.Intn(4) == 0 { // a prefix: store prefix, module prefix, or a cut inside the 32-byte part
			k = k[:[]int{0, 4, 6, 7, 20, 37}[r.Intn(6)]]
		}
		return append([]byte{}, k...)
	}
	n := r.Intn(maxLen + 1)
	k := make([]byte, n)
	for i := range k {
		k[i] = alphabet[r.Intn(len(alphabet))]
	}
	return k
}

func rval(r *hx.Rng) []byte {
	n := r.Intn(3)
	v := make([]byte, n)
	for i := range v {
		v[i] = byte(1 + r.Intn(5))
	}
	return v
}

func rlimit(r *hx.Rng) int {
	return []int{-1, -1, -1, 0, 1, 1, 2, 3, -2, 5}[r.Intn(10)]
}

func kvList(l []db.KeyValue) []KV {
	out := make([]KV, 0, len(l))
	for _, kv := range l {
		out = append(out, KV{hx2(kv.Key()), hx2(kv.Value())})
	}
	return out
}

// dump observes the whole database with a bare pebble iterator (hook VerifC12RawDump), NOT with the Iterate under test: a scan
// defect can then not hide a Commit / RevertDiff deviation.
func dump(d *db.DB) []KV {
	ks, vs := d.VerifC12RawDump()
	out := make([]KV, 0, len(ks))
	for i := range ks {
		out = append(out, KV{hx2(ks[i]), hx2(vs[i])})
	}
	return out
}

func sortKV(l []KV) []KV {
	sort.Slice(l, func(i, j int) bool { return string(unhex(l[i][0])) < string(unhex(l[j][0])) })
	return l
}

func fill(d *db.DB, kvs []KV) {
	for _, kv := range kvs {
		d.Set(unhex(kv[0]), unhex(kv[1]))
	}
}

// genDB: keys under the root prefix (dense) plus a few keys anywhere.
func genDB(r *hx.Rng, root []byte) []KV {
	m := map[string][]byte{}
	n := r.Intn(11)
	for i := 0; i < n; i++ {
		var k []byte
		if r.Intn(5) == 0 {
			k = rkey(r, 4)
		} else {
			k = append(append([]byte{}, root...), rkey(r, 4)...)
		}
		m[string(k)] = rval(r)
	}
	out := []KV{}
	for k, v := range m {
		out = append(out, KV{hx2([]byte(k)), hx2(v)})
	}
	return sortKV(out)
}

type genState struct {
	views     int
	snapCount []int
	minSnap   []int // per view: snapshot ids below this were taken before a Commit and are not restored any more
}

func genOps(r *hx.Rng, n int, st *genState) []*Op {
	ops := []*Op{}
	if st.views == 0 {
		st.views, st.snapCount = 1, []int{0}
	}
	views, snapCount := st.views, st.snapCount
	defer func() { st.views, st.snapCount = views, snapCount }()
	for i := 0; i < n; i++ {
		v := r.Intn(views)
		o := &Op{V: v}
		switch x := r.Intn(100); {
		case x < 12:
			o.O, o.A = "get", hx2(rkey(r, 3))
		case x < 15:
			o.O, o.A = "has", hx2(rkey(r, 3))
		case x < 36:
			o.O, o.A, o.X = "set", hx2(rkey(r, 3)), hx2(rval(r))
		case x < 49:
			o.O, o.A = "del", hx2(rkey(r, 3))
		case x < 63:
			o.O, o.A, o.B, o.L, o.R = "range", hx2(rkey(r, 2)), hx2(rkey(r, 3)), rlimit(r), r.Bool()
			if r.Intn(3) == 0 {
				o.A = ""
			}
			if r.Intn(3) == 0 {
				o.B = "ffffff"
			}
		case x < 75:
			o.O, o.A, o.L, o.R = "iter", hx2(rkey(r, 2)), rlimit(r), r.Bool()
		case x < 81:
			o.O = "snap"
			snapCount[v]++
		case x < 86:
			o.O = "restore"
			lo := 0
			if v < len(st.minSnap) {
				lo = st.minSnap[v]
			}
			if snapCount[v] > lo && r.Intn(5) != 0 {
				o.ID = lo + r.Intn(snapCount[v]-lo)
			} else {
				o.ID = snapCount[v] + r.Intn(4) // no such snapshot
				if lo == 0 {
					o.ID = r.Intn(4)
				}
			}
		case x < 88:
			o.O, o.ID = "delsnap", r.Intn(3)
		default:
			// WithPrefix, preferably of an already derived view: nested views (state -> module -> store), several
			// siblings off one derived parent, prefixes of different lengths; old and new siblings are then used interleaved
			if views >= 7 {
				o.O, o.A = "get", hx2(rkey(r, 3))
			} else {
				if views > 1 && r.Intn(4) != 0 {
					o.V = 1 + r.Intn(views-1)
				}
				p := rkey(r, 3)
				if len(p) == 0 && r.Intn(3) != 0 {
					p = []byte{alphabet[r.Intn(len(alphabet))]}
				}
				o.O, o.A = "view", hx2(p)
				views++
				snapCount = append(snapCount, 0)
			}
		}
		ops = append(ops, o)
	}
	return ops
}

// runOps executes the inputs of c on the real code and fills in the observations.
// execOps runs ops on the views (created views are appended); it answers the panic site ("" if none).
func execOps(ops []*Op, views *[]*diffdb.Database) (site string) {
	for _, o := range ops {
		o.Res = nil
	}
	for _, o := range ops {
		func() {
			defer func() {
				if e := recover(); e != nil {
					o.Res = fmt.Sprintf("panic:%v", e)
					site = "op:" + o.O
				}
			}()
			if o.V >= len(*views) {
				o.Res = "badview"
				return
			}
			s := (*views)[o.V]
			switch o.O {
			case "get":
				k := unhex(o.A)
				v, ok := s.Get(k)
				if ok {
					o.Res = hx2(v)
				}
				scribble(k)
				scribble(v) // a caller may reuse its buffers and overwrite what it received
			case "has":
				o.Res = s.Has(unhex(o.A))
			case "set":
				k, v := unhex(o.A), unhex(o.X)
				s.Set(k, v)
				scribble(k)
				scribble(v)
			case "del":
				k := unhex(o.A)
				s.Del(k)
				scribble(k)
			case "range":
				a, b := unhex(o.A), unhex(o.B)
				res := s.Range(a, b, o.L, o.R)
				o.Res = kvList(res)
				scribble(a)
				scribble(b)
				scribbleKVs(res)
			case "iter":
				a := unhex(o.A)
				res := s.Iterate(a, o.L, o.R)
				o.Res = kvList(res)
				scribble(a)
				scribbleKVs(res)
			case "snap":
				o.Res = s.Snapshot()
			case "restore":
				o.Res = s.RestoreSnapshot(o.ID) == nil
			case "delsnap":
				s.DeleteSnapshot(o.ID)
			case "view":
				*views = append(*views, s.WithPrefix(unhex(o.A)))
			default:
				panic("unknown op " + o.O)
			}
		}()
		if site != "" {
			return site
		}
	}
	return ""
}

func diffString(df *diffdb.Diff) string {
	parts := []string{}
	for _, k := range df.Added {
		parts = append(parts, "a"+hx2(k))
	}
	for _, kv := range df.Updated {
		parts = append(parts, "u"+hx2(kv.Key)+"="+hx2(kv.Value))
	}
	for _, kv := range df.Deleted {
		parts = append(parts, "d"+hx2(kv.Key)+"="+hx2(kv.Value))
	}
	sort.Strings(parts)
	return strings.Join(parts, ",")
}

// doCommit: Commit -> Write -> dump; with revert also RevertDiff (through the diff codec, as consensus/execute.go) -> Write -> dump.
func doCommit(d *db.DB, root *diffdb.Database, revert, dry bool) (cm *Commit, site string) {
	defer func() {
		if e := recover(); e != nil {
			site = fmt.Sprintf("commit:%v", e)
		}
	}()
	cm = &Commit{Added: []string{}, Updated: []KV{}, Deleted: []KV{}}
	// a dry-run Commit into a batch that is never written (framework ABIHandler.Commit with DryRun) must leave the staged
	// state untouched: the real Commit right after returns the same diff
	var dryDiff *diffdb.Diff
	if dry { // only in half of the cases, so that the plain single-Commit path stays covered as well
		dryDiff = root.Commit(d.NewBatch())
	}
	batch := d.NewBatch()
	diff := root.Commit(batch)
	cm.DryOK = dryDiff == nil || diffString(dryDiff) == diffString(diff)
	d.Write(batch)
	cm.After = dump(d)
	for _, k := range diff.Added {
		cm.Added = append(cm.Added, hx2(k))
	}
	sort.Slice(cm.Added, func(i, j int) bool { return string(unhex(cm.Added[i])) < string(unhex(cm.Added[j])) })
	for _, kv := range diff.Updated {
		cm.Updated = append(cm.Updated, KV{hx2(kv.Key), hx2(kv.Value)})
	}
	for _, kv := range diff.Deleted {
		cm.Deleted = append(cm.Deleted, KV{hx2(kv.Key), hx2(kv.Value)})
	}
	sortKV(cm.Updated)
	sortKV(cm.Deleted)
	decoded := &diffdb.Diff{}
	if err := decoded.Decode(diff.Encode()); err != nil {
		return cm, "diff-decode:" + err.Error()
	}
	cm.CodecOK = len(decoded.Added) == len(diff.Added) && len(decoded.Updated) == len(diff.Updated) && len(decoded.Deleted) == len(diff.Deleted)
	if revert {
		batch2 := d.NewBatch()
		root.RevertDiff(batch2, decoded)
		d.Write(batch2)
		cm.Reverted = dump(d)
	}
	return cm, ""
}

// runOps executes the inputs of c on the real code and fills in the observations.
// K = "ops": ops, Commit, write, RevertDiff, write.  K = "ops2": ops, Commit, write, then the SAME Database objects keep being
// used (ops2) over the now changed store, second Commit, write, RevertDiff of the second diff, write.
func runOps(c *OpsCase) {
	d, err := db.NewInMemoryDB()
	if err != nil {
		panic(err)
	}
	c.Close = ""
	defer func() {
		if err := d.Close(); err != nil {
			c.Close = closeClass(err)
		}
	}()
	fill(d, c.DB)
	root := diffdb.New(d, unhex(c.Root))
	views := []*diffdb.Database{root}
	c.Commit, c.Commit2, c.Panic = nil, nil, ""
	if c.Panic = execOps(c.Ops, &views); c.Panic != "" {
		return
	}
	if c.Commit, c.Panic = doCommit(d, root, c.K != "ops2", c.Dry); c.Panic != "" || c.K != "ops2" {
		return
	}
	if c.Panic = execOps(c.Ops2, &views); c.Panic != "" {
		return
	}
	c.Commit2, c.Panic = doCommit(d, root, true, c.Dry)
}

// TwoCase: two independent diffdb.Database roots (own caches) over ONE store, used interleaved; nothing reaches the store
// before both are committed (root 0 first). Op.D selects the root.
type TwoCase struct {
	K       string    `json:"k"`
	Roots   [2]string `json:"roots"`
	DB      []KV      `json:"db"`
	Ops     []*Op     `json:"ops"`
	Dry     bool      `json:"dry"`
	Commits []*Commit `json:"commits"`
	Panic   string    `json:"panic,omitempty"`
	Close   string    `json:"close,omitempty"`
}

func runTwo(c *TwoCase) {
	d, err := db.NewInMemoryDB()
	if err != nil {
		panic(err)
	}
	c.Close, c.Panic, c.Commits = "", "", nil
	defer func() {
		if err := d.Close(); err != nil {
			c.Close = closeClass(err)
		}
	}()
	fill(d, c.DB)
	roots := [2]*diffdb.Database{diffdb.New(d, unhex(c.Roots[0])), diffdb.New(d, unhex(c.Roots[1]))}
	views := [2][]*diffdb.Database{{roots[0]}, {roots[1]}}
	for _, o := range c.Ops {
		if site := execOps([]*Op{o}, &views[o.D&1]); site != "" {
			c.Panic = site
			return
		}
	}
	for i := 0; i < 2; i++ {
		cm, site := doCommit(d, roots[i], false, c.Dry)
		c.Commits = append(c.Commits, cm)
		if site != "" {
			c.Panic = site
			return
		}
	}
}

func closeClass(err error) string {
	if strings.Contains(err.Error(), "leaked iterators") {
		return "leaked-iterators"
	}
	return "other"
}

func runScan(c *ScanCase) {
	d, err := db.NewInMemoryDB()
	if err != nil {
		panic(err)
	}
	c.Close = ""
	defer func() {
		if err := d.Close(); err != nil {
			c.Close = closeClass(err)
		}
	}()
	fill(d, c.DB)
	type scanner interface {
		IterateKey(prefix []byte, limit int, reverse bool) [][]byte
		Iterate(prefix []byte, limit int, reverse bool) []db.KeyValue
		IterateRange(start, end []byte, limit int, reverse bool) []db.KeyValue
	}
	var s scanner = d
	if c.Src == "reader" {
		rd := d.NewReader()
		defer rd.Close()
		// writes after the snapshot must not be visible
		d.Set([]byte{0x61, 0x61, 0x61, 0x61, 0x61}, []byte{9})
		s = rd
	}
	switch c.Kind {
	case 0:
		c.Res = kvList(s.IterateRange(unhex(c.A), unhex(c.B), c.L, c.R))
	case 1:
		c.Res = kvList(s.Iterate(unhex(c.A), c.L, c.R))
	default:
		c.Res = []KV{}
		for _, k := range s.IterateKey(unhex(c.A), c.L, c.R) {
			c.Res = append(c.Res, KV{hx2(k), ""})
		}
	}
}

func main() {
	out := flag.String("out", "", "output jsonl")
	nOps := flag.Int("ops", 1500, "random operation-sequence cases")
	nScan := flag.Int("scan", 1500, "random db scan cases")
	nBdb := flag.Int("bdb", 300, "random batchdb cases")
	nTwo := flag.Int("two", 150, "random two-roots-over-one-store cases")
	maxLen := flag.Int("len", 22, "max operations per sequence")
	in := flag.String("in", "", "replay: jsonl of cases to re-execute")
	corpus := flag.String("corpus", "", "directory of corpus jsonl files to run first")
	flag.Parse()
	if *out == "" {
		fmt.Fprintln(os.Stderr, "-out required")
		os.Exit(2)
	}
	o := hx.NewOut(*out)
	defer o.Close()
	replayFile := func(path string) {
		f, err := os.Open(path)
		if err != nil {
			panic(err)
		}
		defer f.Close()
		sc := bufio.NewScanner(f)
		sc.Buffer(make([]byte, 1<<20), 1<<26)
		for sc.Scan() {
			line := sc.Bytes()
			if len(line) == 0 {
				continue
			}
			var probe struct {
				K string `json:"k"`
			}
			if err := json.Unmarshal(line, &probe); err != nil {
				panic(err)
			}
			if probe.K == "two" {
				c := &TwoCase{}
				if err := json.Unmarshal(line, c); err != nil {
					panic(err)
				}
				runTwo(c)
				o.Put(c)
			} else if probe.K == "bdb" {
				c := &BdbCase{}
				if err := json.Unmarshal(line, c); err != nil {
					panic(err)
				}
				runBdb(c)
				o.Put(c)
			} else if probe.K == "scan" {
				c := &ScanCase{}
				if err := json.Unmarshal(line, c); err != nil {
					panic(err)
				}
				runScan(c)
				o.Put(c)
			} else {
				c := &OpsCase{}
				if err := json.Unmarshal(line, c); err != nil {
					panic(err)
				}
				runOps(c)
				o.Put(c)
			}
		}
	}
	if *in != "" {
		replayFile(*in)
		return
	}
	if *corpus != "" {
		ents, _ := os.ReadDir(*corpus)
		names := []string{}
		for _, e := range ents {
			if !e.IsDir() && len(e.Name()) > 6 && e.Name()[len(e.Name())-6:] == ".jsonl" {
				names = append(names, e.Name())
			}
		}
		sort.Strings(names)
		for _, n := range names {
			replayFile(*corpus + "/" + n)
		}
	}
	r := hx.NewRng(hx.SeedFromEnv())
	roots := [][]byte{{}, {0x0a}, {0x61}, {0xff}, {0x61, 0xff}, {0x0a}}
	for i := 0; i < *nOps; i++ {
		root := roots[r.Intn(len(roots))]
		longPool = nil
		if r.Intn(8) == 0 {
			setLongPool(r)
		}
		st := &genState{}
		c := &OpsCase{K: "ops", Root: hx2(root), DB: genDB(r, root), Ops: genOps(r, 3+r.Intn(*maxLen), st), Dry: r.Bool()}
		if r.Intn(6) == 0 { // the same Database objects keep being used after Commit
			// restoring, after a Commit, a snapshot taken before it is meaningless (the snapshot does not know what reached
			// the store): phase 2 only restores snapshots taken in phase 2
			st.minSnap = append([]int{}, st.snapCount...)
			c.K, c.Ops2 = "ops2", genOps(r, 2+r.Intn(*maxLen/2+1), st)
		}
		runOps(c)
		o.Put(c)
	}
	longPool = nil
	for i := 0; i < *nTwo; i++ {
		// two roots over one store: mostly disjoint key spaces, sometimes equal or nested prefixes
		pr := [][2][]byte{{{0x0a}, {0x0b}}, {{0x61}, {0xff}}, {{0x0a, 0x61}, {0x0a, 0xff}}, {{0x0a}, {0x0a}}, {{0x0a}, {0x0a, 0x61}}, {{}, {0x61}}}[r.Intn(6)]
		c := &TwoCase{K: "two", Roots: [2]string{hx2(pr[0]), hx2(pr[1])}, DB: []KV{}, Dry: r.Bool()}
		longPool = nil
		if r.Intn(8) == 0 {
			setLongPool(r)
		}
		m := map[string]KV{}
		for _, kv := range append(genDB(r, pr[0]), genDB(r, pr[1])...) {
			m[kv[0]] = kv
		}
		for _, kv := range m {
			c.DB = append(c.DB, kv)
		}
		sortKV(c.DB)
		sts := [2]*genState{{}, {}}
		for j, n := 0, 4+r.Intn(*maxLen); j < n; j++ {
			dsel := r.Intn(2)
			for _, op := range genOps(r, 1, sts[dsel]) {
				op.D = dsel
				c.Ops = append(c.Ops, op)
			}
		}
		runTwo(c)
		o.Put(c)
	}
	for i := 0; i < *nBdb; i++ {
		longPool = nil
		if r.Intn(8) == 0 {
			setLongPool(r)
		}
		root := roots[r.Intn(len(roots))]
		c := &BdbCase{K: "bdb", Root: hx2(root), DB: genDB(r, root)}
		n := 2 + r.Intn(10)
		for j := 0; j < n; j++ {
			o := &Op{A: hx2(rkey(r, 2))}
			switch r.Intn(3) {
			case 0:
				o.O = "get"
			case 1:
				o.O, o.X = "set", hx2(rval(r))
			default:
				o.O = "del"
			}
			c.Ops = append(c.Ops, o)
		}
		runBdb(c)
		o.Put(c)
	}
	for i := 0; i < *nScan; i++ {
		longPool = nil
		if r.Intn(8) == 0 {
			setLongPool(r)
		}
		c := &ScanCase{K: "scan", DB: genDB(r, rkey(r, 1)), Kind: r.Intn(3), Src: []string{"db", "reader"}[r.Intn(2)],
			A: hx2(rkey(r, 3)), B: hx2(rkey(r, 3)), L: rlimit(r), R: r.Bool()}
		if c.Kind == 0 && r.Intn(4) == 0 {
			c.B = "ffff"
		}
		runScan(c)
		o.Put(c)
	}
}
