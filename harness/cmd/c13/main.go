// C13 driver: op-log + fault enumeration.  The engine database of a real consensus.Executer lives on pebble's strict
// in-memory file system (unsynced data is lost at a crash), wrapped so that every File.Sync is counted.
//
//	kind "step":  one record per block step (processValidated / deleteBlock, accepted or rejected): number of syncs
//	              issued during the step, projected DB before/after (model keys), inputs of the model batch.
//	kind "crash": for EVERY sync boundary j inside every step (j = number of syncs of the step that reach the disk), the
//	              scenario is re-run from scratch, syncs after the j-th are dropped, the step completes in memory, the
//	              process "dies" (ResetToSyncedState), the database is reopened, Init/PrepareCache run, and the recovered
//	              DB is compared with the dumps before/after the step, checked for consistency and extended by one block.
package main

import (
	stdbytes "bytes"
	"encoding/hex"
	"flag"
	"fmt"
	"io"
	"os"
	"sort"
	"strconv"
	"strings"
	"sync"

	"github.com/cockroachdb/pebble"
	"github.com/cockroachdb/pebble/record"
	"github.com/cockroachdb/pebble/vfs"

	"github.com/LiskHQ/lisk-engine/pkg/blockchain"
	"github.com/LiskHQ/lisk-engine/pkg/collection/bytes"
	"github.com/LiskHQ/lisk-engine/pkg/consensus/liskbft"
	"github.com/LiskHQ/lisk-engine/pkg/crypto"
	"github.com/LiskHQ/lisk-engine/pkg/db/diffdb"

	"verifharness/internal/exh"
	"verifharness/internal/hx"
)

// ---- sync-counting file system over strict MemFS ----
type cfs struct {
	vfs.FS
	mem           *vfs.MemFS
	mu            sync.Mutex
	syncs         int64 // syncs seen since arm()
	walSyncs      int64 // syncs of a WAL file holding unsynced writes (= durable commits) since arm()
	firstWal      int64 // index (1-based, among syncs) of the first / last such sync, 0 if none
	lastWal       int64
	newestWal     *cfile
	newestWalName string
	limit         int64 // -1: unlimited; otherwise syncs beyond this count are dropped (SetIgnoreSyncs)
	armed         bool
	cutoff        bool
}

type cfile struct {
	vfs.File
	fs    *cfs
	wal   bool
	dirty bool
}

func (f *cfile) Write(p []byte) (int, error) {
	f.fs.mu.Lock()
	f.dirty = true
	f.fs.mu.Unlock()
	return f.File.Write(p)
}
func (f *cfile) Sync() error {
	f.fs.onSync(f)
	return f.File.Sync()
}
func (c *cfs) onSync(f *cfile) {
	c.mu.Lock()
	defer c.mu.Unlock()
	// a durable commit = a sync of the CURRENT write-ahead log while it holds unsynced writes (the closing sync of a log
	// that pebble has already rotated away from carries no commit)
	commit := f.wal && f.dirty && f == c.newestWal
	f.dirty = false
	if !c.armed {
		return
	}
	c.syncs++
	if commit {
		c.walSyncs++
		if c.firstWal == 0 {
			c.firstWal = c.syncs
		}
		c.lastWal = c.syncs
	}
	if c.limit >= 0 && c.syncs > c.limit && !c.cutoff {
		c.cutoff = true
		c.mem.SetIgnoreSyncs(true)
	}
}
func (c *cfs) wrap(name string, f vfs.File, err error) (vfs.File, error) {
	if err != nil {
		return nil, err
	}
	return &cfile{File: f, fs: c, wal: strings.HasSuffix(name, ".log")}, nil
}
func (c *cfs) wrapNew(name string, f vfs.File, err error) (vfs.File, error) {
	w, err := c.wrap(name, f, err)
	if err == nil && strings.HasSuffix(name, ".log") {
		c.mu.Lock()
		c.newestWal = w.(*cfile)
		c.newestWalName = name
		c.mu.Unlock()
	}
	return w, err
}
func (c *cfs) Create(name string) (vfs.File, error) {
	f, err := c.FS.Create(name)
	return c.wrapNew(name, f, err)
}
func (c *cfs) Open(name string, opts ...vfs.OpenOption) (vfs.File, error) {
	f, err := c.FS.Open(name, opts...)
	return c.wrap(name, f, err)
}
func (c *cfs) OpenDir(name string) (vfs.File, error) {
	f, err := c.FS.OpenDir(name)
	return c.wrap("", f, err)
}
func (c *cfs) ReuseForWrite(o, n string) (vfs.File, error) {
	f, err := c.FS.ReuseForWrite(o, n)
	return c.wrapNew(n, f, err)
}
func (c *cfs) Lock(name string) (io.Closer, error) { return c.FS.Lock(name) }

// walRecords counts, per write-ahead-log file, the commit records it holds (one record = one pebble batch commit).
func walRecords(fs vfs.FS) map[string]int {
	out := map[string]int{}
	names, err := fs.List("db")
	if err != nil {
		return out
	}
	for _, name := range names {
		if !strings.HasSuffix(name, ".log") {
			continue
		}
		num, err := strconv.ParseUint(strings.TrimSuffix(name, ".log"), 10, 64)
		if err != nil {
			continue
		}
		f, err := fs.Open(fs.PathJoin("db", name))
		if err != nil {
			continue
		}
		rr := record.NewReader(f, pebble.FileNum(num))
		cnt := 0
		for {
			r, err := rr.Next()
			if err != nil {
				break
			}
			if _, err := io.Copy(io.Discard, r); err != nil {
				break
			}
			cnt++
		}
		_ = f.Close()
		out[name] = cnt
	}
	return out
}

// commitsBetween = number of commit records appended to the write-ahead logs between two snapshots.
func commitsBetween(before, after map[string]int) int64 {
	n := 0
	for name, c := range after {
		if c > before[name] {
			n += c - before[name]
		}
	}
	return int64(n)
}

func newCFS() *cfs {
	m := vfs.NewStrictMem()
	// the database directory itself must be durable (pebble syncs its own directory, not the parent)
	if err := m.MkdirAll("db", 0o755); err != nil {
		panic(err)
	}
	for _, root := range []string{"/", ""} {
		if d, err := m.OpenDir(root); err == nil {
			_ = d.Sync()
			_ = d.Close()
		}
	}
	return &cfs{FS: m, mem: m, limit: -1}
}
func (c *cfs) arm(limit int64) {
	c.mu.Lock()
	defer c.mu.Unlock()
	c.syncs, c.walSyncs, c.firstWal, c.lastWal, c.limit, c.armed, c.cutoff = 0, 0, 0, 0, limit, true, false
	if limit == 0 {
		c.cutoff = true
		c.mem.SetIgnoreSyncs(true)
	}
}
func (c *cfs) disarm() {
	c.mu.Lock()
	c.armed = false
	c.mu.Unlock()
}

var emptyHash = crypto.Hash([]byte{})

// ---- projection of the DB onto the keys of coq/Chain/Crash.v ----
type Ent struct {
	C string `json:"c"`           // header | idx | body | events | temp | fin | tipmark | state | diff
	A string `json:"a"`           // id / state key (hex) or height (decimal)
	V string `json:"v"`           // height (decimal) for header/fin/tipmark, id hex for idx, digest of the value otherwise
	P bool   `json:"p,omitempty"` // header entries: the block has a payload (transaction root or asset root not the empty hash)
}

func project(n *exh.Node) []Ent {
	out := []Ent{}
	for _, kv := range canonDump(n) {
		k, _ := hex.DecodeString(kv.K)
		v, _ := hex.DecodeString(kv.V)
		dg := exh.Digest([]exh.KV{{K: "", V: kv.V}})[:12]
		switch k[0] {
		case 3:
			h := &blockchain.BlockHeader{}
			hv := "undecodable"
			payload := false
			if err := h.Decode(v); err == nil {
				hv = fmt.Sprint(h.Height)
				payload = !stdbytes.Equal(h.TransactionRoot, emptyHash) || !stdbytes.Equal(h.AssetRoot, emptyHash)
			}
			out = append(out, Ent{C: "header", A: hex.EncodeToString(k[1:]), V: hv, P: payload})
		case 4:
			out = append(out, Ent{C: "idx", A: fmt.Sprint(bytes.ToUint32(k[1:])), V: hex.EncodeToString(v)})
		case 5, 8:
			e := Ent{C: "body", A: hex.EncodeToString(k[1:]), V: "1"}
			dup := false
			for _, x := range out {
				if x == e {
					dup = true
				}
			}
			if !dup {
				out = append(out, e)
			}
		case 6:
			// transactions by their own ID: covered by the whole-dump digests
		case 7:
			out = append(out, Ent{C: "temp", A: fmt.Sprint(bytes.ToUint32(k[1:])), V: dg})
		case 9:
			out = append(out, Ent{C: "events", A: fmt.Sprint(bytes.ToUint32(k[1:])), V: dg})
		case 27:
			out = append(out, Ent{C: "fin", A: "0", V: fmt.Sprint(bytes.ToUint32(v))})
		case 10:
			out = append(out, Ent{C: "state", A: hex.EncodeToString(k[1:]), V: dg})
		case 51:
			out = append(out, Ent{C: "diff", A: fmt.Sprint(bytes.ToUint32(k[1:])), V: dg})
		default:
			out = append(out, Ent{C: "unknown", A: kv.K, V: dg})
		}
	}
	// the height of the newest block recorded in the BFT votes (0 right after genesis: empty window)
	func() {
		defer func() { recover() }()
		infos, _, err := liskbft.VerifC02DumpVotes(diffdb.New(n.DB, []byte{10}))
		if err != nil {
			return
		}
		m := n.Genesis.Header.Height // empty window right after genesis: the store is at the genesis height
		if len(infos) > 0 {
			m = infos[0].Height
		}
		out = append(out, Ent{C: "tipmark", A: "0", V: fmt.Sprint(m)})
	}()
	return out
}

// canonDump: the whole DB with the stored revert diffs in a canonical order (diffdb.Commit emits the entries of a diff in
// map-iteration order, so the same step yields differently ordered — equivalent — diff values in different runs).
func canonDump(n *exh.Node) []exh.KV {
	d := n.Dump()
	for i, kv := range d {
		if len(kv.K) >= 2 && kv.K[:2] == "33" {
			raw, _ := hex.DecodeString(kv.V)
			df := &diffdb.Diff{}
			if err := df.Decode(raw); err != nil {
				continue
			}
			sort.Slice(df.Added, func(a, b int) bool { return string(df.Added[a]) < string(df.Added[b]) })
			sort.Slice(df.Updated, func(a, b int) bool { return string(df.Updated[a].Key) < string(df.Updated[b].Key) })
			sort.Slice(df.Deleted, func(a, b int) bool { return string(df.Deleted[a].Key) < string(df.Deleted[b].Key) })
			d[i].V = hex.EncodeToString(df.Encode())
		}
	}
	return d
}
func canonDigest(n *exh.Node) string { return exh.Digest(canonDump(n)) }

// ---- scenario ----
type sstep struct {
	kind   string // genesis | add | add_invalid | del | del_refused | restore
	block  *blockchain.Block
	script *exh.Script
	save   bool
	quiet  bool // set-up step of a long scenario: replayed, but neither recorded nor crashed
}

type StepRec struct {
	K        string `json:"k"`
	Sc       int    `json:"scenario"`
	Family   string `json:"family"`
	T        int    `json:"t"`
	Op       string `json:"op"`
	Expect   bool   `json:"expect_ok"`
	ImplOK   bool   `json:"impl_ok"`
	Class    string `json:"class"`
	ID       string `json:"id"`
	H        uint32 `json:"h"`
	Save     bool   `json:"save"`
	RT       bool   `json:"rt"`
	Syncs    int64  `json:"syncs"`
	WalSyncs int64  `json:"wal_syncs"`
	Commits  int64  `json:"commits"` // commit records appended to the write-ahead log during the step (= durable writes)
	Bytes    int    `json:"payload_bytes"`
	FinJump  uint32 `json:"fin_jump"`
	// inputs from which the check derives the EXPECTED batch independently of the dumps
	P          uint32 `json:"p"`           // maxHeightPrecommited of the post-state (liskbft on a scratch staged store)
	Keep       int    `json:"keep"`        // keepEventsForHeights
	NEvents    int    `json:"nevents"`     // events the scripted application produces for this block
	HasBody    bool   `json:"has_body"`    // the block has transactions or assets
	TempDigest string `json:"temp_digest"` // digest of the encoded block (value of the temp entry when it is saved)
	Before     []Ent  `json:"before"`
	After      []Ent  `json:"after"`
	DBefore    string `json:"dg_before"`
	DAfter     string `json:"dg_after"`
}

type CrashRec struct {
	K          string   `json:"k"`
	Sc         int      `json:"scenario"`
	Family     string   `json:"family"`
	T          int      `json:"t"`
	Op         string   `json:"op"`
	ID         string   `json:"id"`
	H          uint32   `json:"h"`
	RT         bool     `json:"rt"`
	Torn       int      `json:"torn"`      // > 0: additionally this many UNSYNCED bytes at the tail of the write-ahead log survived
	J          int64    `json:"j"`         // syncs of the step that reached the disk
	Syncs      int64    `json:"syncs"`     // syncs the step issued in this run
	FirstWal   int64    `json:"first_wal"` // position of the first / last WAL commit sync among them (0: none)
	LastWal    int64    `json:"last_wal"`
	Before     []Ent    `json:"before"`
	After      []Ent    `json:"after"`
	Recovered  []Ent    `json:"recovered"`
	EqBefore   bool     `json:"eq_before"`
	EqAfter    bool     `json:"eq_after"`
	ReopenOK   bool     `json:"reopen_ok"`
	ReopenErr  string   `json:"reopen_err,omitempty"`
	TipHeight  uint32   `json:"tip_height"`
	NextOK     bool     `json:"next_ok"`
	NextErr    string   `json:"next_err,omitempty"`
	DiffBefore []string `json:"diff_before,omitempty"`
	DiffAfter  []string `json:"diff_after,omitempty"`
}

func runStep(n *exh.Node, s sstep) exh.Result {
	n.ABI.S = s.script
	switch s.kind {
	case "genesis":
		// first start on an empty data directory: Executer.Init processes the genesis block and prepares the cache
		return exh.Result{Err: n.Reattach()}
	case "add", "add_invalid":
		return n.ProcessValidated(s.block, false)
	case "restore":
		return n.ProcessValidated(s.block, true)
	case "cleartemp":
		n.Chain.DataAccess().ClearTempBlocks()
		return exh.Result{}
	case "del_finalized":
		fin, _ := n.Finalized()
		b, err := n.Chain.DataAccess().GetBlockByHeight(fin)
		if err != nil {
			return exh.Result{Err: err}
		}
		return n.DeleteBlock(b, false)
	default:
		return n.DeleteBlock(n.Tip(), s.save)
	}
}

type planner struct {
	n       *exh.Node
	r       *hx.Rng
	family  string
	scripts map[string]*exh.Script
	pending []*blockchain.Block // blocks deleted with saveTemp, lowest height last; restored in order
	seq     int
	stall   int // family "stall": number of blocks forged during the finality stall
}

func (p *planner) events(h uint32) *exh.Script {
	s := &exh.Script{}
	for i := p.r.Intn(3); i > 0; i-- {
		s.BeforeEvents = append(s.BeforeEvents, exh.MakeEvent(p.r.U64(), h, 1+p.r.Intn(2)))
	}
	return s
}

func (p *planner) addStep(bo exh.Build, invalid bool) sstep {
	n := p.n
	s := sstep{kind: "add", script: p.events(n.Tip().Header.Height + 1)}
	n.ABI.S = s.script
	s.block = n.NextValid(bo)
	p.scripts[hex.EncodeToString(s.block.Header.ID)] = s.script
	if invalid {
		s.kind = "add_invalid"
		if p.r.Bool() {
			s.block.Header.Signature[5] ^= 2
			s.block.Header.Init()
		} else {
			s.script = &exh.Script{FailCommit: true, BeforeEvents: s.script.BeforeEvents}
		}
	}
	return s
}

func (p *planner) bigTxs(count int) []*blockchain.Transaction {
	txs := make([]*blockchain.Transaction, count)
	for i := range txs {
		p.seq++
		txs[i] = exh.MakeTx(uint64(500000+p.seq), 14000)
	}
	return txs
}

// next decides the next step of the scenario from the current state.
func (p *planner) next(t int) sstep {
	n, r := p.n, p.r
	tip := n.Tip().Header
	fin, _ := n.Finalized()
	// blocks waiting in the temp table are restored first (lowest height first), most of the time
	if len(p.pending) > 0 && r.Intn(4) > 0 {
		b := p.pending[len(p.pending)-1]
		if b.Header.Height == tip.Height+1 {
			p.pending = p.pending[:len(p.pending)-1]
			return sstep{kind: "restore", block: b, script: p.scripts[hex.EncodeToString(b.Header.ID)]}
		}
		p.pending = nil
	}
	switch p.family {
	case "big":
		switch {
		case t == 1 || t == 4:
			return p.addStep(exh.Build{Txs: p.bigTxs(100 + r.Intn(250))}, false) // 1.4 .. 4.9 MiB of payload
		case (t == 2 || t == 5) && tip.Height > fin:
			p.pending = append(p.pending, n.Tip())
			return sstep{kind: "del", save: true, script: &exh.Script{}}
		}
	case "restore":
		if t%5 == 3 {
			// delete up to 3 tips with saveTemp (decided one step at a time)
			if tip.Height > fin && tip.Height > 0 {
				p.pending = append(p.pending, n.Tip())
				return sstep{kind: "del", save: true, script: &exh.Script{}}
			}
		}
		if t%5 == 4 && len(p.pending) > 0 && tip.Height > fin && tip.Height > 0 && r.Bool() {
			p.pending = append(p.pending, n.Tip())
			return sstep{kind: "del", save: true, script: &exh.Script{}}
		}
	case "stall":
		// finality stalls while only the light validator forges eventful blocks; then the heavy one ends the stall: one block
		// makes every event list of the stalled heights prunable at once (keepEventsForHeights is small)
		by := n.Vals[0]
		if t > p.stall {
			by = n.Vals[1]
		}
		s := sstep{kind: "add", script: &exh.Script{BeforeEvents: []*blockchain.Event{exh.MakeEvent(uint64(t), tip.Height+1, 1)}}}
		n.ABI.S = s.script
		s.block = n.NextValid(exh.Build{By: by})
		s.quiet = t <= p.stall
		return s
	case "scripted":
		// a fixed plan that contains, BY CONSTRUCTION, at least one step of every kind the check claims to cover
		switch t {
		case 2:
			return p.addStep(exh.Build{Txs: []*blockchain.Transaction{exh.MakeTx(4242, 9)}, Assets: []*blockchain.BlockAsset{{Module: "random", Data: []byte{1, 2}}}}, false)
		case 7:
			return p.addStep(exh.Build{}, true) // invalid block
		case 8:
			return sstep{kind: "del", save: false, script: &exh.Script{}}
		case 9:
			return sstep{kind: "del", save: true, script: &exh.Script{}}
		case 10:
			return sstep{kind: "cleartemp", script: &exh.Script{}}
		case 11:
			p.pending = append(p.pending, n.Tip())
			return sstep{kind: "del", save: true, script: &exh.Script{}}
		case 12:
			b := p.pending[len(p.pending)-1]
			p.pending = nil
			return sstep{kind: "restore", block: b, script: p.scripts[hex.EncodeToString(b.Header.ID)]}
		case 13:
			return sstep{kind: "del_refused", script: &exh.Script{FailRevert: true}} // deleteBlock fails before anything is written
		case 14:
			return sstep{kind: "del_finalized", script: &exh.Script{}} // delete request for a finalized block: the guard refuses
		case 15:
			return sstep{kind: "cleartemp", script: &exh.Script{}} // nothing to clear: no write at all
		}
		return p.addStep(exh.Build{}, false)
	case "jump":
		// validator 0 (weight 1) forges a run, then validator 1 (weight 3) forges two blocks: prevotes then precommits for
		// the whole run at once
		by := n.Vals[0]
		if t%6 >= 3 {
			by = n.Vals[1]
		}
		return p.addStep(exh.Build{By: by}, false)
	}
	c := r.Intn(100)
	if tb, err := n.Chain.DataAccess().GetTempBlocks(); err == nil && len(tb) > 0 && len(p.pending) == 0 && c < 50 {
		// a finished (or abandoned) sync: DataAccess.ClearTempBlocks, its own durable write
		return sstep{kind: "cleartemp", script: &exh.Script{}}
	}
	switch {
	case c < 60 || tip.Height == 0:
		bo := exh.Build{}
		if r.Intn(3) == 0 {
			bo.Txs = []*blockchain.Transaction{exh.MakeTx(r.U64()%100000, r.Intn(30)), exh.MakeTx(r.U64()%100000, 3)}
		}
		if r.Intn(3) == 0 {
			bo.Assets = []*blockchain.BlockAsset{{Module: "random", Data: r.Bytes(6)}}
		}
		if r.Intn(4) == 0 {
			bo.SkipSlots = 1 + r.Intn(2)
		}
		return p.addStep(bo, false)
	case c < 70:
		return p.addStep(exh.Build{}, true)
	case tip.Height <= fin:
		return sstep{kind: "del_refused", script: &exh.Script{}}
	default:
		s := sstep{kind: "del", save: r.Bool(), script: &exh.Script{}}
		if s.save {
			p.pending = append(p.pending, n.Tip())
		} else {
			p.pending = nil
		}
		return s
	}
}

func main() {
	out := flag.String("out", "cases.jsonl", "output")
	scen := flag.Int("scenarios", 3, "number of scenarios")
	steps := flag.Int("steps", 10, "steps per scenario")
	stall := flag.Int("stall", 60, "length of the finality stall of the stall scenario (0 = no such scenario)")
	flag.Parse()
	r := hx.NewRng(hx.SeedFromEnv())
	o := hx.NewOut(*out)
	defer o.Close()
	defer func() {
		if p := recover(); p != nil {
			o.Close()
			fmt.Fprintln(os.Stderr, "c13 harness failure:", p)
			os.Exit(3)
		}
	}()
	families := []string{"big", "restore", "jump", "random"}
	total := *scen + 1
	if *stall > 0 {
		total++
	}
	for sc := 0; sc < total; sc++ {
		family := families[sc%len(families)]
		if sc == *scen {
			family = "scripted"
		}
		if sc == *scen+1 {
			family = "stall"
		}
		opt := exh.Options{N: 1 + r.Intn(4)}
		if r.Intn(2) == 0 {
			opt.KeepEvents, opt.KeepEventsSet = r.Intn(3), true
		}
		nsteps := *steps
		switch family {
		case "big":
			opt.MaxTxLen = 8 << 20
			if nsteps > 7 {
				nsteps = 7
			}
		case "jump":
			opt.N, opt.Weights, opt.PreCommit, opt.Certificate = 2, []uint64{1, 3}, 3, 3
		case "stall":
			opt.N, opt.Weights, opt.PreCommit, opt.Certificate = 2, []uint64{1, 3}, 3, 3
			opt.KeepEvents, opt.KeepEventsSet = 1, true
			nsteps = *stall + 4
		case "scripted":
			opt = exh.Options{N: 2} // two validators taking turns: finality follows the tip at a fixed distance
			nsteps = 16
		}
		opt.NoInit = true
		// ---- phase A: build the scenario on a counting FS, record the op log ----
		fsA := newCFS()
		optA := opt
		optA.FS = fsA
		n, err := exh.New(optA)
		if err != nil {
			panic(err)
		}
		opt.GenesisTime = n.Opt.GenesisTime
		pl := &planner{n: n, r: r, family: family, scripts: map[string]*exh.Script{}, stall: *stall}
		var plan []sstep
		var recs []StepRec
		var dumpsA [][]exh.KV
		for t := 0; t < nsteps; t++ {
			var s sstep
			if t == 0 {
				s = sstep{kind: "genesis", script: &exh.Script{}}
			} else {
				s = pl.next(t)
			}
			if s.quiet {
				runStep(n, s)
				plan = append(plan, s)
				recs = append(recs, StepRec{})
				dumpsA = append(dumpsA, nil)
				continue
			}
			tip := n.Genesis.Header
			fin0 := uint32(0)
			if t > 0 {
				tip = n.Tip().Header
				fin0, _ = n.Finalized()
			}
			rec := StepRec{K: "step", Sc: sc, Family: family, T: t, Op: s.kind, Expect: s.kind == "add" || s.kind == "del" || s.kind == "restore" || s.kind == "genesis" || s.kind == "cleartemp",
				Save: s.save, RT: s.kind == "restore", Before: project(n), DBefore: canonDigest(n)}
			if s.block != nil {
				rec.ID, rec.H = hex.EncodeToString(s.block.Header.ID), s.block.Header.Height
				for _, tx := range s.block.Transactions {
					rec.Bytes += tx.Size()
				}
			} else {
				rec.ID, rec.H = hex.EncodeToString(tip.ID), tip.Height
			}
			if s.kind == "genesis" {
				opt.GenesisTime = n.Opt.GenesisTime
			}
			rec.Keep = n.Opt.KeepEvents
			if s.block != nil && s.kind != "genesis" {
				rec.NEvents = len(s.script.AllEvents(len(s.block.Transactions)))
				rec.HasBody = len(s.block.Transactions) > 0 || len(s.block.Assets) > 0
				func() {
					defer func() { recover() }()
					store := n.Exec.VerifC03ConsensusStore()
					if err := n.Exec.BFTBeforeTransactionsExecute(s.block.Header.Readonly(), store); err == nil {
						_, rec.P, _, _ = n.Exec.GetBFTHeights(store)
					}
				}()
			} else if s.kind == "del" || s.kind == "del_refused" {
				tb := n.Tip()
				rec.HasBody = len(tb.Transactions) > 0 || len(tb.Assets) > 0
				rec.TempDigest = exh.Digest([]exh.KV{{K: "", V: hex.EncodeToString(tb.Encode())}})[:12]
			}
			dumpsA = append(dumpsA, canonDump(n))
			wal0 := walRecords(fsA.mem)
			fsA.arm(-1)
			res := runStep(n, s)
			fsA.disarm()
			rec.Commits = commitsBetween(wal0, walRecords(fsA.mem))
			if os.Getenv("C13DBG") != "" && res.Err != nil {
				fmt.Fprintln(os.Stderr, "DBG", sc, t, s.kind, res.Err)
			}
			rec.Syncs, rec.WalSyncs, rec.ImplOK, rec.Class = fsA.syncs, fsA.walSyncs, res.OK(), exh.ErrClass(res)
			if s.kind == "restore" && !res.OK() {
				rec.Expect = false // a restored block whose parent is gone is rejected; nothing may change
				pl.pending = nil
			}
			fin1, _ := n.Finalized()
			rec.FinJump = fin1 - fin0
			rec.After, rec.DAfter = project(n), canonDigest(n)
			plan = append(plan, s)
			recs = append(recs, rec)
			o.Put(rec)
		}
		dumpsA = append(dumpsA, canonDump(n))
		// ---- phase B: every sync boundary of every step ----
		for t, s := range plan {
			if s.quiet {
				continue
			}
			tornDone := false
			for j := int64(0); ; j++ {
				torn := false
				if j == 0 && !tornDone && recs[t].Commits > 0 {
					// extra crash point: nothing of the step was synced, but a random prefix of the unsynced bytes at the tail of
					// the write-ahead log reached the disk anyway (a torn commit record)
					torn, tornDone = true, true
					j = -1
				}
				limit := j
				if torn {
					limit = 0
				}
				fsB := newCFS()
				optB := opt
				optB.FS = fsB
				nb, err := exh.New(optB)
				if err != nil {
					panic(err)
				}
				for u := 0; u < t; u++ {
					runStep(nb, plan[u])
				}
				if canonDigest(nb) != recs[t].DBefore {
					panic(fmt.Sprintf("scenario %d: replay diverged before step %d: %v", sc, t, exh.DiffKeys(canonDump(nb), dumpsA[t])))
				}
				fsB.arm(limit)
				runStep(nb, s)
				// the process dies here: whatever was not synced is lost
				fsB.mu.Lock()
				total, firstWal, lastWal := fsB.syncs, fsB.firstWal, fsB.lastWal
				fsB.mu.Unlock()
				if !fsB.cutoff {
					// every sync of the step reached the disk: nothing more may (syncs issued by Close belong to no step)
					fsB.mem.SetIgnoreSyncs(true)
				}
				fsB.disarm()
				var full []byte
				walName := fsB.newestWalName
				if torn && walName != "" {
					if f, err := fsB.mem.Open(walName); err == nil {
						full, _ = io.ReadAll(f)
						_ = f.Close()
					}
				}
				_ = nb.DB.Close()
				fsB.mem.ResetToSyncedState()
				fsB.mem.SetIgnoreSyncs(false)
				tornBytes := 0
				if torn {
					if f, err := fsB.mem.Open(walName); err == nil {
						syn, _ := io.ReadAll(f)
						_ = f.Close()
						if len(full) > len(syn)+1 {
							tornBytes = 1 + r.Intn(len(full)-len(syn)-1)
							if w, err := fsB.mem.Create(walName); err == nil {
								_, _ = w.Write(full[:len(syn)+tornBytes])
								_ = w.Sync()
								_ = w.Close()
								if dd, err := fsB.mem.OpenDir("db"); err == nil {
									_ = dd.Sync()
									_ = dd.Close()
								}
							}
						}
					}
					if tornBytes == 0 {
						continue // the log was created inside the step (not durable) or holds nothing unsynced: no torn variant
					}
					j = 0
				}
				cr := CrashRec{K: "crash", Sc: sc, Family: family, T: t, Op: s.kind, ID: recs[t].ID, H: recs[t].H, RT: recs[t].RT, J: j, Torn: tornBytes,
					Syncs: total, FirstWal: firstWal, LastWal: lastWal, Before: recs[t].Before, After: recs[t].After}
				optR := optB
				func() {
					defer func() {
						if p := recover(); p != nil {
							cr.ReopenErr = fmt.Sprint("panic: ", p)
						}
					}()
					nr, err := exh.New(optR) // NoInit: the database as found on disk, before the node touches it
					if err != nil {
						cr.ReopenErr = err.Error()
						return
					}
					cr.Recovered = project(nr)
					dg := canonDigest(nr)
					defer func() { _ = nr.DB.Close() }()
					if err := nr.Reattach(); err != nil { // the node starts: Init (genesis if absent), PrepareCache
						cr.ReopenErr = "init: " + err.Error()
						return
					}
					cr.ReopenOK = true
					cr.EqBefore, cr.EqAfter = dg == recs[t].DBefore, dg == recs[t].DAfter
					if !cr.EqBefore && !cr.EqAfter {
						cr.DiffBefore = exh.DiffKeys(canonDump(nr), dumpsA[t])
						cr.DiffAfter = exh.DiffKeys(canonDump(nr), dumpsA[t+1])
						if len(cr.DiffBefore) > 10 {
							cr.DiffBefore = cr.DiffBefore[:10]
						}
						if len(cr.DiffAfter) > 10 {
							cr.DiffAfter = cr.DiffAfter[:10]
						}
					}
					cr.TipHeight = nr.Tip().Header.Height
					nr.ABI.S = &exh.Script{}
					res := nr.ProcessValidated(nr.NextValid(exh.Build{}), false)
					cr.NextOK = res.OK()
					if !res.OK() {
						cr.NextErr = exh.ErrClass(res)
					}
				}()
				o.Put(cr)
				if torn {
					j = -1 // the ordinary enumeration starts at 0 next
					continue
				}
				if j >= total {
					break
				}
				// a step with very many sync boundaries (only a defective tree produces that): the first 16, the last 16 and
				// every (total/16)-th in between — the evidence then says "not exhaustive"
				if total > 48 && j >= 15 && j < total-16 {
					step := total / 16
					if step < 1 {
						step = 1
					}
					j += step - 1
					if j >= total-16 {
						j = total - 17
					}
				}
			}
		}
	}
}
