// C13 driver: op-log + fault enumeration.  The engine database of a real consensus.Executer lives on pebble's strict
// in-memory file system (unsynced data is lost at a crash), wrapped so that every File.Sync is counted.
//
//	kind "step":  one record per block step (processValidated / deleteBlock, accepted or rejected): number of syncs
//	              issued during the step, projected DB before/after (model keys), inputs of the model batch.
//	kind "crash": for EVERY sync boundary j inside every step (j = number of syncs of the step that reach the disk), the
//	              scenario is re-run from scratch, syncs after the j-th are dropped, the step completes in memory, the
//	              process "dies" (ResetToSyncedState), the database is reopened, Init/PrepareCache run, and the recovered
//	              DB is compared with the dumps before/after the step, checked for consistency and extended by one block.
package main

import (
	"encoding/hex"
	"flag"
	"fmt"
	"io"
	"os"
	"sort"
	"sync/atomic"

	"github.com/cockroachdb/pebble/vfs"

	"github.com/LiskHQ/lisk-engine/pkg/blockchain"
	"github.com/LiskHQ/lisk-engine/pkg/collection/bytes"
	"github.com/LiskHQ/lisk-engine/pkg/consensus/liskbft"
	"github.com/LiskHQ/lisk-engine/pkg/db/diffdb"

	"verifharness/internal/exh"
	"verifharness/internal/hx"
)

// ---- sync-counting file system over strict MemFS ----
type cfs struct {
	vfs.FS
	mem    *vfs.MemFS
	syncs  int64 // syncs seen since arm()
	limit  int64 // -1: unlimited; otherwise syncs beyond this count are dropped (SetIgnoreSyncs)
	armed  bool
	cutoff bool
}

type cfile struct {
	vfs.File
	fs *cfs
}

func (f *cfile) Sync() error {
	f.fs.onSync()
	return f.File.Sync()
}
func (c *cfs) onSync() {
	if !c.armed {
		return
	}
	n := atomic.AddInt64(&c.syncs, 1)
	if c.limit >= 0 && n > c.limit && !c.cutoff {
		c.cutoff = true
		c.mem.SetIgnoreSyncs(true)
	}
}
func (c *cfs) wrap(f vfs.File, err error) (vfs.File, error) {
	if err != nil {
		return nil, err
	}
	return &cfile{File: f, fs: c}, nil
}
func (c *cfs) Create(name string) (vfs.File, error) { return c.wrap(c.FS.Create(name)) }
func (c *cfs) Open(name string, opts ...vfs.OpenOption) (vfs.File, error) {
	return c.wrap(c.FS.Open(name, opts...))
}
func (c *cfs) OpenDir(name string) (vfs.File, error) { return c.wrap(c.FS.OpenDir(name)) }
func (c *cfs) ReuseForWrite(o, n string) (vfs.File, error) {
	return c.wrap(c.FS.ReuseForWrite(o, n))
}
func (c *cfs) Lock(name string) (io.Closer, error) { return c.FS.Lock(name) }

func newCFS() *cfs {
	m := vfs.NewStrictMem()
	// the database directory itself must be durable (pebble syncs its own directory, not the parent)
	if err := m.MkdirAll("db", 0o755); err != nil {
		panic(err)
	}
	for _, root := range []string{"/", ""} {
		if d, err := m.OpenDir(root); err == nil {
			_ = d.Sync()
			_ = d.Close()
		}
	}
	return &cfs{FS: m, mem: m, limit: -1}
}
func (c *cfs) arm(limit int64) {
	c.syncs, c.limit, c.armed, c.cutoff = 0, limit, true, false
	if limit == 0 {
		c.cutoff = true
		c.mem.SetIgnoreSyncs(true)
	}
}
func (c *cfs) disarm() { c.armed = false }

// ---- projection of the DB onto the keys of coq/Chain/Crash.v ----
type Ent struct {
	C string `json:"c"` // header | idx | body | events | temp | fin | tipmark | state | diff
	A string `json:"a"` // id / state key (hex) or height (decimal)
	V string `json:"v"` // height (decimal) for header/fin/tipmark, id hex for idx, digest of the value otherwise
}

func project(n *exh.Node) []Ent {
	out := []Ent{}
	for _, kv := range canonDump(n) {
		k, _ := hex.DecodeString(kv.K)
		v, _ := hex.DecodeString(kv.V)
		dg := exh.Digest([]exh.KV{{K: "", V: kv.V}})[:12]
		switch k[0] {
		case 3:
			h := &blockchain.BlockHeader{}
			hv := "undecodable"
			if err := h.Decode(v); err == nil {
				hv = fmt.Sprint(h.Height)
			}
			out = append(out, Ent{"header", hex.EncodeToString(k[1:]), hv})
		case 4:
			out = append(out, Ent{"idx", fmt.Sprint(bytes.ToUint32(k[1:])), hex.EncodeToString(v)})
		case 5, 8:
			e := Ent{"body", hex.EncodeToString(k[1:]), "1"}
			dup := false
			for _, x := range out {
				if x == e {
					dup = true
				}
			}
			if !dup {
				out = append(out, e)
			}
		case 6:
			// transactions by their own ID: covered by the whole-dump digests
		case 7:
			out = append(out, Ent{"temp", fmt.Sprint(bytes.ToUint32(k[1:])), dg})
		case 9:
			out = append(out, Ent{"events", fmt.Sprint(bytes.ToUint32(k[1:])), dg})
		case 27:
			out = append(out, Ent{"fin", "0", fmt.Sprint(bytes.ToUint32(v))})
		case 10:
			out = append(out, Ent{"state", hex.EncodeToString(k[1:]), dg})
		case 51:
			out = append(out, Ent{"diff", fmt.Sprint(bytes.ToUint32(k[1:])), dg})
		default:
			out = append(out, Ent{"unknown", kv.K, dg})
		}
	}
	// the height of the newest block recorded in the BFT votes (0 right after genesis: empty window)
	func() {
		defer func() { recover() }()
		infos, _, err := liskbft.VerifC02DumpVotes(n.Exec.VerifC03ConsensusStore())
		if err != nil {
			return
		}
		m := uint32(0)
		if len(infos) > 0 {
			m = infos[0].Height
		}
		out = append(out, Ent{"tipmark", "0", fmt.Sprint(m)})
	}()
	return out
}

// canonDump: the whole DB with the stored revert diffs in a canonical order (diffdb.Commit emits the entries of a diff in
// map-iteration order, so the same step yields differently ordered — equivalent — diff values in different runs).
func canonDump(n *exh.Node) []exh.KV {
	d := n.Dump()
	for i, kv := range d {
		if len(kv.K) >= 2 && kv.K[:2] == "33" {
			raw, _ := hex.DecodeString(kv.V)
			df := &diffdb.Diff{}
			if err := df.Decode(raw); err != nil {
				continue
			}
			sort.Slice(df.Added, func(a, b int) bool { return string(df.Added[a]) < string(df.Added[b]) })
			sort.Slice(df.Updated, func(a, b int) bool { return string(df.Updated[a].Key) < string(df.Updated[b].Key) })
			sort.Slice(df.Deleted, func(a, b int) bool { return string(df.Deleted[a].Key) < string(df.Deleted[b].Key) })
			d[i].V = hex.EncodeToString(df.Encode())
		}
	}
	return d
}
func canonDigest(n *exh.Node) string { return exh.Digest(canonDump(n)) }

// ---- scenario ----
type sstep struct {
	kind   string // add | add_invalid | del | del_refused
	block  *blockchain.Block
	script *exh.Script
	save   bool
}

type StepRec struct {
	K       string `json:"k"`
	Sc      int    `json:"scenario"`
	T       int    `json:"t"`
	Op      string `json:"op"`
	Expect  bool   `json:"expect_ok"`
	ImplOK  bool   `json:"impl_ok"`
	Class   string `json:"class"`
	ID      string `json:"id"`
	H       uint32 `json:"h"`
	Save    bool   `json:"save"`
	Syncs   int64  `json:"syncs"`
	Before  []Ent  `json:"before"`
	After   []Ent  `json:"after"`
	DBefore string `json:"dg_before"`
	DAfter  string `json:"dg_after"`
}

type CrashRec struct {
	K          string   `json:"k"`
	Sc         int      `json:"scenario"`
	T          int      `json:"t"`
	Op         string   `json:"op"`
	J          int64    `json:"j"` // syncs of the step that reached the disk
	Syncs      int64    `json:"syncs"`
	Before     []Ent    `json:"before"`
	After      []Ent    `json:"after"`
	Recovered  []Ent    `json:"recovered"`
	EqBefore   bool     `json:"eq_before"`
	EqAfter    bool     `json:"eq_after"`
	ReopenOK   bool     `json:"reopen_ok"`
	ReopenErr  string   `json:"reopen_err,omitempty"`
	TipHeight  uint32   `json:"tip_height"`
	NextOK     bool     `json:"next_ok"`
	NextErr    string   `json:"next_err,omitempty"`
	DiffBefore []string `json:"diff_before,omitempty"`
	DiffAfter  []string `json:"diff_after,omitempty"`
}

func runStep(n *exh.Node, s sstep) exh.Result {
	n.ABI.S = s.script
	switch s.kind {
	case "add", "add_invalid":
		return n.ProcessValidated(s.block, false)
	default:
		return n.DeleteBlock(n.Tip(), s.save)
	}
}

func main() {
	out := flag.String("out", "cases.jsonl", "output")
	scen := flag.Int("scenarios", 3, "number of scenarios")
	steps := flag.Int("steps", 10, "steps per scenario")
	flag.Parse()
	r := hx.NewRng(hx.SeedFromEnv())
	o := hx.NewOut(*out)
	defer o.Close()
	defer func() {
		if p := recover(); p != nil {
			o.Close()
			fmt.Fprintln(os.Stderr, "c13 harness failure:", p)
			os.Exit(3)
		}
	}()
	for sc := 0; sc < *scen; sc++ {
		opt := exh.Options{N: 1 + r.Intn(4)}
		if r.Intn(2) == 0 {
			opt.KeepEvents, opt.KeepEventsSet = r.Intn(3), true
		}
		// ---- phase A: build the scenario on a counting FS, record the op log ----
		fsA := newCFS()
		optA := opt
		optA.FS = fsA
		n, err := exh.New(optA)
		if err != nil {
			panic(err)
		}
		opt.GenesisTime = n.Opt.GenesisTime
		var plan []sstep
		var recs []StepRec
		var dumpsA [][]exh.KV
		for t := 0; t < *steps; t++ {
			var s sstep
			tip := n.Tip().Header
			fin, _ := n.Finalized()
			c := r.Intn(100)
			switch {
			case c < 60 || tip.Height == 0:
				s.kind = "add"
			case c < 70:
				s.kind = "add_invalid"
			case tip.Height <= fin:
				s.kind = "del_refused"
			default:
				s.kind = "del"
				s.save = r.Bool()
			}
			if s.kind == "add" || s.kind == "add_invalid" {
				s.script = &exh.Script{}
				for i := r.Intn(3); i > 0; i-- {
					s.script.BeforeEvents = append(s.script.BeforeEvents, exh.MakeEvent(r.U64(), tip.Height+1, 1+r.Intn(2)))
				}
				bo := exh.Build{}
				if r.Intn(3) == 0 {
					bo.Txs = []*blockchain.Transaction{exh.MakeTx(r.U64()%100000, r.Intn(30)), exh.MakeTx(r.U64()%100000, 3)}
				}
				if r.Intn(3) == 0 {
					bo.Assets = []*blockchain.BlockAsset{{Module: "random", Data: r.Bytes(6)}}
				}
				if r.Intn(4) == 0 {
					bo.SkipSlots = 1 + r.Intn(2)
				}
				n.ABI.S = s.script
				s.block = n.NextValid(bo)
				if s.kind == "add_invalid" {
					if r.Bool() {
						s.block.Header.Signature[5] ^= 2
						s.block.Header.Init()
					} else {
						s.script = &exh.Script{FailCommit: true, BeforeEvents: s.script.BeforeEvents}
					}
				}
			} else {
				s.script = &exh.Script{}
			}
			rec := StepRec{K: "step", Sc: sc, T: t, Op: s.kind, Expect: s.kind == "add" || s.kind == "del", Save: s.save,
				Before: project(n), DBefore: canonDigest(n)}
			if s.block != nil {
				rec.ID, rec.H = hex.EncodeToString(s.block.Header.ID), s.block.Header.Height
			} else {
				rec.ID, rec.H = hex.EncodeToString(tip.ID), tip.Height
			}
			dumpsA = append(dumpsA, canonDump(n))
			fsA.arm(-1)
			res := runStep(n, s)
			fsA.disarm()
			rec.Syncs, rec.ImplOK, rec.Class = fsA.syncs, res.OK(), exh.ErrClass(res)
			rec.After, rec.DAfter = project(n), canonDigest(n)
			plan = append(plan, s)
			recs = append(recs, rec)
			o.Put(rec)
		}
		// ---- phase B: every sync boundary of every step ----
		for t, s := range plan {
			for j := int64(0); j <= recs[t].Syncs; j++ {
				fsB := newCFS()
				optB := opt
				optB.FS = fsB
				nb, err := exh.New(optB)
				if err != nil {
					panic(err)
				}
				for u := 0; u < t; u++ {
					runStep(nb, plan[u])
				}
				if canonDigest(nb) != recs[t].DBefore {
					panic(fmt.Sprintf("scenario %d: replay diverged before step %d: %v", sc, t, exh.DiffKeys(canonDump(nb), dumpsA[t])))
				}
				fsB.arm(j)
				runStep(nb, s)
				// the process dies here: whatever was not synced is lost
				_ = nb.DB.Close()
				fsB.disarm()
				fsB.mem.ResetToSyncedState()
				fsB.mem.SetIgnoreSyncs(false)
				cr := CrashRec{K: "crash", Sc: sc, T: t, Op: s.kind, J: j, Syncs: recs[t].Syncs, Before: recs[t].Before, After: recs[t].After}
				optR := optB
				func() {
					defer func() {
						if p := recover(); p != nil {
							cr.ReopenErr = fmt.Sprint("panic: ", p)
						}
					}()
					nr, err := exh.New(optR)
					if err != nil {
						cr.ReopenErr = err.Error()
						return
					}
					cr.ReopenOK = true
					cr.Recovered = project(nr)
					dg := canonDigest(nr)
					cr.EqBefore, cr.EqAfter = dg == recs[t].DBefore, dg == recs[t].DAfter
					if !cr.EqBefore && !cr.EqAfter {
						cr.DiffBefore = exh.DiffKeys(canonDump(nr), dumpsA[t])
						if t+1 < len(dumpsA) {
							cr.DiffAfter = exh.DiffKeys(canonDump(nr), dumpsA[t+1])
						}
					}
					cr.TipHeight = nr.Tip().Header.Height
					nr.ABI.S = &exh.Script{}
					res := nr.ProcessValidated(nr.NextValid(exh.Build{}), false)
					cr.NextOK = res.OK()
					if !res.OK() {
						cr.NextErr = exh.ErrClass(res)
					}
				}()
				o.Put(cr)
			}
		}
	}
}
