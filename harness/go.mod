module verifharness

go 1.21

require (
	github.com/cockroachdb/pebble v0.0.0-20221021145029-f34af25a0187
	github.com/fatih/structtag v1.2.0
	github.com/gdamore/tcell/v2 v2.5.3
	github.com/go-bindata/go-bindata v3.1.2+incompatible
	github.com/go-zeromq/zmq4 v0.14.1
	github.com/gorilla/websocket v1.5.0
	github.com/libp2p/go-libp2p v0.32.2
	github.com/libp2p/go-libp2p-pubsub v0.10.0
	github.com/multiformats/go-multiaddr v0.12.0
	github.com/stretchr/testify v1.8.4
	github.com/supranational/blst v0.3.11
	github.com/tyler-smith/go-bip39 v1.1.0
	github.com/urfave/cli/v2 v2.3.0
	go.uber.org/ratelimit v0.2.0
	go.uber.org/zap v1.26.0
	golang.org/x/crypto v0.17.0
	golang.org/x/sync v0.4.0
	gopkg.in/yaml.v2 v2.4.0
)

require (
	github.com/gdamore/encoding v1.0.0 // indirect
	github.com/google/pprof v0.0.0-20231023181126-ff6d637d2a7b // indirect
	github.com/hashicorp/golang-lru/v2 v2.0.5 // indirect
	github.com/ipfs/go-log v1.0.5 // indirect
	github.com/jbenet/goprocess v0.1.4 // indirect
	github.com/lucasb-eyer/go-colorful v1.2.0 // indirect
	github.com/mattn/go-runewidth v0.0.13 // indirect
	github.com/onsi/ginkgo/v2 v2.13.0 // indirect
	github.com/opentracing/opentracing-go v1.2.0 // indirect
	github.com/quic-go/qpack v0.4.0 // indirect
	github.com/quic-go/qtls-go1-20 v0.3.4 // indirect
	github.com/quic-go/quic-go v0.39.4 // indirect
	github.com/quic-go/webtransport-go v0.6.0 // indirect
	github.com/rivo/uniseg v0.4.2 // indirect
	go.uber.org/dig v1.17.1 // indirect
	go.uber.org/fx v1.20.1 // indirect
	go.uber.org/mock v0.3.0 // indirect
	golang.org/x/term v0.15.0 // indirect
)

require (
	github.com/DataDog/zstd v1.5.2 // indirect
	github.com/andres-erbsen/clock v0.0.0-20160526145045-9e14626cd129 // indirect
	github.com/benbjohnson/clock v1.3.5 // indirect
	github.com/beorn7/perks v1.0.1 // indirect
	github.com/cespare/xxhash/v2 v2.2.0 // indirect
	github.com/cockroachdb/errors v1.9.0 // indirect
	github.com/cockroachdb/logtags v0.0.0-20211118104740-dabe8e521a4f // indirect
	github.com/cockroachdb/redact v1.1.3 // indirect
	github.com/containerd/cgroups v1.1.0 // indirect
	github.com/coreos/go-systemd/v22 v22.5.0 // indirect
	github.com/cpuguy83/go-md2man/v2 v2.0.0 // indirect
	github.com/davecgh/go-spew v1.1.1 // indirect
	github.com/davidlazar/go-crypto v0.0.0-20200604182044-b73af7476f6c // indirect
	github.com/decred/dcrd/dcrec/secp256k1/v4 v4.2.0 // indirect
	github.com/docker/go-units v0.5.0 // indirect
	github.com/elastic/gosigar v0.14.2 // indirect
	github.com/flynn/noise v1.0.0 // indirect
	github.com/francoispqt/gojay v1.2.13 // indirect
	github.com/getsentry/sentry-go v0.14.0 // indirect
	github.com/go-task/slim-sprig v0.0.0-20230315185526-52ccab3ef572 // indirect
	github.com/go-zeromq/goczmq/v4 v4.2.2 // indirect
	github.com/godbus/dbus/v5 v5.1.0 // indirect
	github.com/gogo/protobuf v1.3.2 // indirect
	github.com/golang/protobuf v1.5.3 // indirect
	github.com/golang/snappy v0.0.4 // indirect
	github.com/google/gopacket v1.1.19 // indirect
	github.com/google/uuid v1.3.0
	github.com/huin/goupnp v1.3.0 // indirect
	github.com/ipfs/go-cid v0.4.1 // indirect
	github.com/ipfs/go-log/v2 v2.5.1 // indirect
	github.com/ipfs/kubo v0.19.0
	github.com/jackpal/go-nat-pmp v1.0.2 // indirect
	github.com/jbenet/go-temp-err-catcher v0.1.0 // indirect
	github.com/klauspost/compress v1.17.2 // indirect
	github.com/klauspost/cpuid/v2 v2.2.5 // indirect
	github.com/koron/go-ssdp v0.0.4 // indirect
	github.com/kr/pretty v0.3.1 // indirect
	github.com/kr/text v0.2.0 // indirect
	github.com/libp2p/go-buffer-pool v0.1.0 // indirect
	github.com/libp2p/go-cidranger v1.1.0 // indirect
	github.com/libp2p/go-flow-metrics v0.1.0 // indirect
	github.com/libp2p/go-libp2p-asn-util v0.3.0 // indirect
	github.com/libp2p/go-msgio v0.3.0 // indirect
	github.com/libp2p/go-nat v0.2.0 // indirect
	github.com/libp2p/go-netroute v0.2.1 // indirect
	github.com/libp2p/go-reuseport v0.4.0 // indirect
	github.com/libp2p/go-yamux/v4 v4.0.1 // indirect
	github.com/marten-seemann/tcp v0.0.0-20210406111302-dfbc87cc63fd // indirect
	github.com/mattn/go-isatty v0.0.20 // indirect
	github.com/matttproud/golang_protobuf_extensions v1.0.4 // indirect
	github.com/miekg/dns v1.1.56 // indirect
	github.com/mikioh/tcpinfo v0.0.0-20190314235526-30a79bb1804b // indirect
	github.com/mikioh/tcpopt v0.0.0-20190314235656-172688c1accc // indirect
	github.com/minio/sha256-simd v1.0.1 // indirect
	github.com/mr-tron/base58 v1.2.0 // indirect
	github.com/multiformats/go-base32 v0.1.0 // indirect
	github.com/multiformats/go-base36 v0.2.0 // indirect
	github.com/multiformats/go-multiaddr-dns v0.3.1 // indirect
	github.com/multiformats/go-multiaddr-fmt v0.1.0 // indirect
	github.com/multiformats/go-multibase v0.2.0 // indirect
	github.com/multiformats/go-multicodec v0.9.0 // indirect
	github.com/multiformats/go-multihash v0.2.3 // indirect
	github.com/multiformats/go-multistream v0.5.0 // indirect
	github.com/multiformats/go-varint v0.0.7 // indirect
	github.com/opencontainers/runtime-spec v1.1.0 // indirect
	github.com/pbnjay/memory v0.0.0-20210728143218-7b4eea64cf58 // indirect
	github.com/pkg/errors v0.9.1 // indirect
	github.com/pmezard/go-difflib v1.0.0 // indirect
	github.com/prometheus/client_golang v1.14.0 // indirect
	github.com/prometheus/client_model v0.4.0 // indirect
	github.com/prometheus/common v0.42.0 // indirect
	github.com/prometheus/procfs v0.9.0 // indirect
	github.com/raulk/go-watchdog v1.3.0 // indirect
	github.com/rivo/tview v0.0.0-20230104153304-892d1a2eb0da
	github.com/rogpeppe/go-internal v1.9.0 // indirect
	github.com/russross/blackfriday/v2 v2.1.0 // indirect
	github.com/spaolacci/murmur3 v1.1.0 // indirect
	github.com/stretchr/objx v0.5.0 // indirect
	go.uber.org/multierr v1.11.0 // indirect
	golang.org/x/exp v0.0.0-20231006140011-7918f672742d
	golang.org/x/mod v0.13.0 // indirect
	golang.org/x/net v0.17.0 // indirect
	golang.org/x/sys v0.15.0 // indirect
	golang.org/x/text v0.14.0
	golang.org/x/tools v0.14.0 // indirect
	google.golang.org/protobuf v1.30.0 // indirect
	gopkg.in/yaml.v3 v3.0.1 // indirect
	lukechampine.com/blake3 v1.2.1 // indirect
)

require github.com/LiskHQ/lisk-engine v0.0.0

replace github.com/LiskHQ/lisk-engine => /repo
