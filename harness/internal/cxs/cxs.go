// Package cxs: struct-level codec cases shared by the C08 and C09 drivers: a generic value generator/encoder
// driven by the translated schemas (independent of the generated Go code), and the guarded execution of the real
// Decode / DecodeStrict / Encode of every registered struct.
package cxs

import (
	"encoding/hex"
	"reflect"

	"github.com/LiskHQ/lisk-engine/pkg/codec"

	"verifharness/internal/c08reg"
	"verifharness/internal/cx"
	"verifharness/internal/hx"
)

// StructRec: input bytes + observation of Decode (then Encode) and DecodeStrict (then Encode).
type StructRec struct {
	K    string `json:"k"`
	Name string `json:"name"`
	D    string `json:"d"`
	Gen  string `json:"gen"` // how the input was produced
	St   int    `json:"st"`  // Decode: 0 ok, 1 error, 2 panic, 3 timeout
	Ec   int    `json:"ec"`
	Re   string `json:"re"` // re-encoding of the decoded value
	Sst  int    `json:"sst"`
	Sec  int    `json:"sec"`
	Sre  string `json:"sre"`
	// when Decode succeeded: fixed point Re2 of Encode.Decode starting at Re (St2 = 0 iff reached), DecodeStrict of it
	St2   int    `json:"st2"`
	Re2   string `json:"re2"`
	Sst2  int    `json:"sst2"`
	Sre2  string `json:"sre2"`
	Panic string `json:"panic,omitempty"`
}

var byName = map[string]*c08reg.Entry{}

func init() {
	for i := range c08reg.Entries {
		e := &c08reg.Entries[i]
		if e.New == nil {
			panic("no constructor for " + e.Name + " (missing VerifC08Registry entry)")
		}
		byName[e.Name] = e
	}
}

func Lookup(name string) *c08reg.Entry { return byName[name] }

func RunStruct(e *c08reg.Entry, d []byte, gen string) StructRec {
	rec := StructRec{K: "s", Name: e.Name, D: hex.EncodeToString(d), Gen: gen}
	one := func(strict bool, d []byte) (int, int, string, string) {
		var st, ec int
		var re string
		pst, msg := cx.Guard(func() {
			v := e.New()
			in := append([]byte{}, d...)
			var err error
			if strict {
				err = v.(interface{ DecodeStrict([]byte) error }).DecodeStrict(in)
			} else {
				err = v.Decode(in)
			}
			if err != nil {
				st, ec = 1, cx.ErrCode(err)
				return
			}
			re = hex.EncodeToString(v.Encode())
		})
		if pst != 0 {
			return pst, 0, "", msg
		}
		return st, ec, re, ""
	}
	var m1, m2 string
	rec.St, rec.Ec, rec.Re, m1 = one(false, d)
	rec.Sst, rec.Sec, rec.Sre, m2 = one(true, d)
	if rec.St == 0 {
		// iterate Encode . Decode to its fixed point (each round materialises one more level of absent nested
		// messages), then the fixed point must be accepted by DecodeStrict and re-encode to itself
		cur := rec.Re
		rec.St2 = 1
		for i := 0; i < 12; i++ {
			b, _ := hex.DecodeString(cur)
			st, _, nxt, _ := one(false, b)
			if st != 0 {
				rec.St2 = 1 + st
				break
			}
			if nxt == cur {
				rec.St2 = 0
				break
			}
			cur = nxt
		}
		rec.Re2 = cur
		fix, _ := hex.DecodeString(cur)
		rec.Sst2, _, rec.Sre2, _ = one(true, fix)
	}
	rec.Panic = m1
	if m1 == "" {
		rec.Panic = m2
	}
	return rec
}

var boundaryU = []uint64{0, 1, 127, 128, 255, 16383, 16384, 1<<31 - 1, 1 << 31, 1<<32 - 1, 1 << 32, 1<<63 - 1, 1 << 63, 1<<64 - 1}

// strings whose NFC status the model decides; the last three are not NFC-normal (the real decoder must reject them)
var normalStrings = []string{"", "a", "token", "transfer", "pos", "caf\u00e9", "\u00c5\u00f6", "\u02ff",
	"q\u0301", "x\u0323\u0301", "a\u0338", "\u1161", "\u11a8", "\uac00"} // NFC-normal with quick-check "Maybe" runes
var nonNormalStrings = []string{"e\u0301", "A\u030a", "\u212b", "x\u0301\u0323", "\u1100\u1161"}

func key(fn, wt int) []byte { return cx.Uvarint(uint64(fn)<<3 | uint64(wt)) }

func lenPrefixed(fn int, b []byte) []byte {
	out := append(key(fn, 2), cx.Uvarint(uint64(len(b)))...)
	return append(out, b...)
}

func zigzag(v int64) uint64 { return uint64(v<<1) ^ uint64(v>>63) }

func randBytes(r *hx.Rng) []byte {
	switch r.Intn(6) {
	case 0:
		return []byte{}
	case 1:
		return r.Bytes(20)
	case 2:
		return r.Bytes(32)
	case 3:
		return r.Bytes(48 + 80*r.Intn(2))
	}
	return r.Bytes(r.Intn(12))
}

func randU(r *hx.Rng, bits uint) uint64 {
	v := boundaryU[r.Intn(len(boundaryU))]
	if r.Intn(3) == 0 {
		v = r.U64()
	}
	if r.Intn(3) == 0 {
		v = uint64(r.Intn(300))
	}
	if bits == 32 {
		v = uint64(uint32(v))
	}
	return v
}

func randStr(r *hx.Rng, allowBad bool) string {
	if allowBad && r.Intn(25) == 0 {
		return nonNormalStrings[r.Intn(len(nonNormalStrings))]
	}
	return normalStrings[r.Intn(len(normalStrings))]
}

// GenValue encodes a random value of the struct, following the schema (not the generated code).
func GenValue(r *hx.Rng, e *c08reg.Entry, depth int, allowBad bool) []byte {
	var out []byte
	for _, f := range e.Fields {
		switch f.Ty {
		case "TBool":
			out = append(out, key(f.Fn, 0)...)
			out = append(out, byte(r.Intn(2)))
		case "TU32":
			out = append(append(out, key(f.Fn, 0)...), cx.Uvarint(randU(r, 32))...)
		case "TU64":
			out = append(append(out, key(f.Fn, 0)...), cx.Uvarint(randU(r, 64))...)
		case "TI32":
			out = append(append(out, key(f.Fn, 0)...), cx.Uvarint(zigzag(int64(int32(randU(r, 32)))))...)
		case "TI64":
			out = append(append(out, key(f.Fn, 0)...), cx.Uvarint(zigzag(int64(randU(r, 64))))...)
		case "TStr":
			out = append(out, lenPrefixed(f.Fn, []byte(randStr(r, allowBad)))...)
		case "TBytes":
			out = append(out, lenPrefixed(f.Fn, randBytes(r))...)
		case "TBytesArr":
			for n := r.Intn(4); n > 0; n-- {
				out = append(out, lenPrefixed(f.Fn, randBytes(r))...)
			}
		case "TStrs":
			for n := r.Intn(4); n > 0; n-- {
				out = append(out, lenPrefixed(f.Fn, []byte(randStr(r, allowBad)))...)
			}
		case "TBools", "TU32s", "TU64s":
			var body []byte
			for n := r.Intn(5); n > 0; n-- {
				switch f.Ty {
				case "TBools":
					body = append(body, byte(r.Intn(2)))
				case "TU32s":
					body = append(body, cx.Uvarint(randU(r, 32))...)
				default:
					body = append(body, cx.Uvarint(randU(r, 64))...)
				}
			}
			if len(body) > 0 {
				out = append(out, lenPrefixed(f.Fn, body)...)
			}
		case "TMsg":
			ne := byName[f.Ref]
			if ne == nil {
				panic("unknown nested struct " + f.Ref)
			}
			if depth < 4 && (r.Intn(8) != 0 || !allowBad) {
				out = append(out, lenPrefixed(f.Fn, GenValue(r, ne, depth+1, allowBad))...)
			}
		case "TMsgs":
			ne := byName[f.Ref]
			if ne == nil {
				panic("unknown nested struct " + f.Ref)
			}
			if depth < 4 {
				for n := r.Intn(3); n > 0; n-- {
					out = append(out, lenPrefixed(f.Fn, GenValue(r, ne, depth+1, allowBad))...)
				}
			}
		default:
			panic("unknown field type " + f.Ty)
		}
	}
	return out
}

// GenBoundary encodes a value of the struct whose field number idx (a packed array, bytes or string field) has a payload of
// exactly size bytes; two selects two-byte elements for packed integer arrays (size must then be even).
func GenBoundary(r *hx.Rng, e *c08reg.Entry, idx, size int, two bool) []byte {
	var out []byte
	for i, f := range e.Fields {
		if i != idx {
			one := c08reg.Entry{Name: e.Name, New: e.New, Fields: []c08reg.Field{f}}
			out = append(out, GenValue(r, &one, 3, false)...)
			continue
		}
		var body []byte
		switch f.Ty {
		case "TBools":
			for len(body) < size {
				body = append(body, byte(r.Intn(2)))
			}
		case "TU32s", "TU64s":
			for len(body) < size {
				if two {
					body = append(body, cx.Uvarint(uint64(128+r.Intn(16000)))...)
				} else {
					body = append(body, byte(r.Intn(128)))
				}
			}
		case "TStr":
			for len(body) < size {
				body = append(body, byte('a'+r.Intn(26)))
			}
		default: // TBytes
			body = r.Bytes(size)
		}
		out = append(out, lenPrefixed(f.Fn, body)...)
	}
	return out
}

// BoundaryKind reports whether GenBoundary applies to the field type.
func BoundaryKind(ty string) bool {
	switch ty {
	case "TBools", "TU32s", "TU64s", "TStr", "TBytes":
		return true
	}
	return false
}

// Entries returns all registered structs (name order).
func Entries() []*c08reg.Entry {
	out := make([]*c08reg.Entry, len(c08reg.Entries))
	for i := range c08reg.Entries {
		out[i] = &c08reg.Entries[i]
	}
	return out
}

// ---- hostile varints / length prefixes
var evilVarints = [][]byte{
	cx.Uvarint(1<<31 - 1), cx.Uvarint(1 << 31), cx.Uvarint(1<<32 + 5), cx.Uvarint(1<<63 - 1), cx.Uvarint(1 << 63), cx.Uvarint(1<<64 - 1),
	{0xff, 0xff, 0xff, 0xff, 0xff, 0xff, 0xff, 0xff, 0xff, 0x02},
	{0x80, 0x80, 0x80, 0x80, 0x80, 0x80, 0x80, 0x80, 0x80, 0x80, 0x80},
	{0x80, 0x00},
}

// top-level scan of key/value pairs: replaces each length prefix / varint value by hostile ones, and the length by
// len+1 / len+1000 (pointing past the field / the buffer)
func VarintAttacks(d []byte) [][]byte {
	var out [][]byte
	i := 0
	count := 0
	for i < len(d) && count < 6 {
		_, ks := uvar(d[i:])
		if ks <= 0 {
			break
		}
		wt := d[i] & 7
		vpos := i + ks
		v, vs := uvar(d[vpos:])
		if vs <= 0 {
			break
		}
		repl := func(nv []byte) {
			m := append(append(append([]byte{}, d[:vpos]...), nv...), d[vpos+vs:]...)
			out = append(out, m)
		}
		for _, ev := range evilVarints {
			repl(ev)
		}
		if wt == 2 {
			repl(cx.Uvarint(v + 1))
			repl(cx.Uvarint(v + 1000))
			repl(cx.Uvarint(uint64(len(d))))
			if v > 0 {
				repl(cx.Uvarint(v - 1))
			}
			i = vpos + vs + int(v)
		} else {
			i = vpos + vs
		}
		count++
	}
	return out
}

// KeyAttacks re-encodes every top-level field key k as the shortest varint of k + m*2^32 (5..10 bytes): a decoder that
// narrows keys to 32 bits before checking the field number accepts these non-canonical wire forms.
func KeyAttacks(d []byte) [][]byte {
	var out [][]byte
	i := 0
	for count := 0; i < len(d) && count < 8; count++ {
		k, ks := uvar(d[i:])
		if ks <= 0 {
			break
		}
		for _, m := range []uint64{1, 2, 1 << 31, 1<<32 - 1} {
			w := k + m<<32
			if w>>32 != m { // overflow
				continue
			}
			out = append(out, append(append(append([]byte{}, d[:i]...), cx.Uvarint(w)...), d[i+ks:]...))
		}
		vpos := i + ks
		v, vs := uvar(d[vpos:])
		if vs <= 0 {
			break
		}
		if d[i]&7 == 2 {
			i = vpos + vs + int(v)
		} else {
			i = vpos + vs
		}
	}
	return out
}

func uvar(b []byte) (uint64, int) {
	var x uint64
	var s uint
	for i, c := range b {
		if i == 10 {
			return 0, -1
		}
		if c < 0x80 {
			return x | uint64(c)<<s, i + 1
		}
		x |= uint64(c&0x7f) << s
		s += 7
	}
	return 0, 0
}

var _ codec.EncodeDecodable

// ---- locally built values with nil elements in []*T fields
type NilRec struct {
	K     string `json:"k"`
	Name  string `json:"name"`
	D     string `json:"d"`
	N     int    `json:"n"`  // nil elements inserted
	St    int    `json:"st"` // 0 Encode returned, 2 panic, 3 timeout
	Same  bool   `json:"same"`
	Panic string `json:"panic,omitempty"`
}

// RunNilElems decodes d, inserts nil elements into every []*T field (recursively through nested messages), and
// compares Encode of the result with Encode of the decoded value.
func RunNilElems(e *c08reg.Entry, d []byte, seed uint64) (NilRec, bool) {
	rec := NilRec{K: "nil", Name: e.Name, D: hex.EncodeToString(d)}
	v := e.New()
	if err := v.Decode(append([]byte{}, d...)); err != nil {
		return rec, false
	}
	want := hex.EncodeToString(v.Encode())
	r := hx.NewRng(seed)
	rec.N = insertNils(reflect.ValueOf(v), r, 0)
	if rec.N == 0 {
		return rec, false
	}
	st, msg := cx.Guard(func() { rec.Same = hex.EncodeToString(v.Encode()) == want })
	rec.St, rec.Panic = st, msg
	return rec, true
}

func insertNils(v reflect.Value, r *hx.Rng, depth int) int {
	if depth > 5 {
		return 0
	}
	for v.Kind() == reflect.Ptr {
		if v.IsNil() {
			return 0
		}
		v = v.Elem()
	}
	if v.Kind() != reflect.Struct {
		return 0
	}
	n := 0
	for i := 0; i < v.NumField(); i++ {
		f := v.Field(i)
		if !f.CanSet() {
			continue
		}
		switch {
		case f.Kind() == reflect.Slice && f.Type().Elem().Kind() == reflect.Ptr && f.Type().Elem().Elem().Kind() == reflect.Struct:
			for j := 0; j < f.Len(); j++ {
				n += insertNils(f.Index(j), r, depth+1)
			}
			out := reflect.MakeSlice(f.Type(), 0, f.Len()+2)
			for j := 0; j <= f.Len(); j++ {
				if r.Intn(2) == 0 {
					out = reflect.Append(out, reflect.Zero(f.Type().Elem()))
					n++
				}
				if j < f.Len() {
					out = reflect.Append(out, f.Index(j))
				}
			}
			f.Set(out)
		case f.Kind() == reflect.Ptr && f.Type().Elem().Kind() == reflect.Struct:
			n += insertNils(f, r, depth+1)
		}
	}
	return n
}
