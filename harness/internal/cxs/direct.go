package cxs

import (
	"encoding/hex"
	"fmt"
	"reflect"
	"strconv"

	"verifharness/internal/c08reg"
	"verifharness/internal/cx"
	"verifharness/internal/hx"
)

// ---- Go values built DIRECTLY from abstract (model) values, not through Decode ----

// AV is an abstract value, one per schema field: exactly one member is meaningful for the field type.
type AV struct {
	B   *bool    `json:"b,omitempty"`   // TBool
	U   *string  `json:"u,omitempty"`   // TU32 / TU64 (decimal)
	I   *string  `json:"i,omitempty"`   // TI32 / TI64
	X   *string  `json:"x,omitempty"`   // TBytes / TStr (hex of the bytes)
	XL  []string `json:"xl,omitempty"`  // TBytesArr / TStrs
	BL  []bool   `json:"bl,omitempty"`  // TBools
	UL  []string `json:"ul,omitempty"`  // TU32s / TU64s
	M   []AV     `json:"m,omitempty"`   // TMsg (present)
	Nil bool     `json:"nil,omitempty"` // TMsg nil
	ML  [][]AV   `json:"ml,omitempty"`  // TMsgs
	Ty  string   `json:"ty"`
}

// DirectRec: abstract value, bytes written by the real Encode of the Go value built from it, abstract value read off the Go value
// the real Decode produced from those bytes, status of DecodeStrict.
type DirectRec struct {
	K     string `json:"k"`
	Name  string `json:"name"`
	V     []AV   `json:"v"`
	St    int    `json:"st"` // 0 ok, 1 decode error, 2 panic, 3 timeout
	Enc   string `json:"enc"`
	Back  []AV   `json:"back"`
	Sst   int    `json:"sst"` // DecodeStrict of enc: 0 ok, 1 error
	Panic string `json:"panic,omitempty"`
}

var directStrings = append(append([]string{}, normalStrings...), nonNormalStrings...)

func genAV(r *hx.Rng, e *c08reg.Entry, depth int) []AV {
	out := make([]AV, len(e.Fields))
	for i, f := range e.Fields {
		a := AV{Ty: f.Ty}
		switch f.Ty {
		case "TBool":
			b := r.Bool()
			a.B = &b
		case "TU32", "TU64":
			bits := uint(64)
			if f.Ty == "TU32" {
				bits = 32
			}
			s := cx.U(randU(r, bits))
			if f.Ty == "TU32" && r.Intn(3) == 0 {
				s = []string{"0", "1", "2147483647", "2147483648", "4294967295"}[r.Intn(5)]
			}
			a.U = &s
		case "TI32":
			s := cx.I(int64(int32(randU(r, 32))))
			a.I = &s
		case "TI64":
			s := cx.I(int64(randU(r, 64)))
			a.I = &s
		case "TStr":
			s := hex.EncodeToString([]byte(directStrings[r.Intn(len(directStrings))]))
			a.X = &s
		case "TBytes":
			s := hex.EncodeToString(randBytes(r))
			a.X = &s
		case "TBytesArr":
			a.XL = []string{}
			for n := r.Intn(4); n > 0; n-- {
				a.XL = append(a.XL, hex.EncodeToString(randBytes(r)))
			}
		case "TStrs":
			a.XL = []string{}
			for n := r.Intn(4); n > 0; n-- {
				a.XL = append(a.XL, hex.EncodeToString([]byte(directStrings[r.Intn(len(directStrings))])))
			}
		case "TBools":
			a.BL = []bool{}
			for n := r.Intn(5); n > 0; n-- {
				a.BL = append(a.BL, r.Bool())
			}
		case "TU32s", "TU64s":
			a.UL = []string{}
			bits := uint(64)
			if f.Ty == "TU32s" {
				bits = 32
			}
			for n := r.Intn(5); n > 0; n-- {
				a.UL = append(a.UL, cx.U(randU(r, bits)))
			}
		case "TMsg":
			if depth >= 4 || r.Intn(3) == 0 {
				a.Nil = true // nil nested message, at every depth
			} else {
				a.M = genAV(r, byName[f.Ref], depth+1)
			}
		case "TMsgs":
			a.ML = [][]AV{}
			if depth < 4 {
				for n := r.Intn(3); n > 0; n-- {
					a.ML = append(a.ML, genAV(r, byName[f.Ref], depth+1))
				}
			}
		}
		out[i] = a
	}
	return out
}

func fieldByNumber(v reflect.Value, fn int) (reflect.Value, bool) {
	t := v.Type()
	for i := 0; i < t.NumField(); i++ {
		if t.Field(i).Tag.Get("fieldNumber") == strconv.Itoa(fn) {
			return v.Field(i), true
		}
	}
	return reflect.Value{}, false
}

var errUnsettable = fmt.Errorf("unexported field")

// fill sets the fields of the struct behind ptr from the abstract value; empty lists are set as nil or empty slices at random
func fill(r *hx.Rng, ptr reflect.Value, e *c08reg.Entry, av []AV) error {
	v := ptr.Elem()
	for i, f := range e.Fields {
		fv, ok := fieldByNumber(v, f.Fn)
		if !ok {
			return fmt.Errorf("no field with number %d in %s", f.Fn, e.Name)
		}
		if !fv.CanSet() {
			return errUnsettable
		}
		a := av[i]
		switch f.Ty {
		case "TBool":
			fv.SetBool(*a.B)
		case "TU32", "TU64":
			fv.SetUint(cx.ParseU(*a.U))
		case "TI32", "TI64":
			fv.SetInt(cx.ParseI(*a.I))
		case "TStr":
			b, _ := hex.DecodeString(*a.X)
			fv.SetString(string(b))
		case "TBytes":
			b, _ := hex.DecodeString(*a.X)
			if len(b) == 0 && r.Bool() {
				fv.Set(reflect.Zero(fv.Type())) // nil slice
			} else {
				fv.SetBytes(b)
			}
		case "TBytesArr", "TStrs":
			if len(a.XL) == 0 && r.Bool() {
				fv.Set(reflect.Zero(fv.Type()))
				break
			}
			s := reflect.MakeSlice(fv.Type(), len(a.XL), len(a.XL))
			for j, x := range a.XL {
				b, _ := hex.DecodeString(x)
				if f.Ty == "TStrs" {
					s.Index(j).SetString(string(b))
				} else {
					s.Index(j).SetBytes(b)
				}
			}
			fv.Set(s)
		case "TBools":
			if len(a.BL) == 0 && r.Bool() {
				fv.Set(reflect.Zero(fv.Type()))
				break
			}
			s := reflect.MakeSlice(fv.Type(), len(a.BL), len(a.BL))
			for j, x := range a.BL {
				s.Index(j).SetBool(x)
			}
			fv.Set(s)
		case "TU32s", "TU64s":
			if len(a.UL) == 0 && r.Bool() {
				fv.Set(reflect.Zero(fv.Type()))
				break
			}
			s := reflect.MakeSlice(fv.Type(), len(a.UL), len(a.UL))
			for j, x := range a.UL {
				s.Index(j).SetUint(cx.ParseU(x))
			}
			fv.Set(s)
		case "TMsg":
			if a.Nil {
				fv.Set(reflect.Zero(fv.Type()))
				break
			}
			n := reflect.New(fv.Type().Elem())
			if err := fill(r, n, byName[f.Ref], a.M); err != nil {
				return err
			}
			fv.Set(n)
		case "TMsgs":
			if len(a.ML) == 0 && r.Bool() {
				fv.Set(reflect.Zero(fv.Type()))
				break
			}
			s := reflect.MakeSlice(fv.Type(), len(a.ML), len(a.ML))
			for j, x := range a.ML {
				n := reflect.New(fv.Type().Elem().Elem())
				if err := fill(r, n, byName[f.Ref], x); err != nil {
					return err
				}
				s.Index(j).Set(n)
			}
			fv.Set(s)
		}
	}
	return nil
}

// read: abstract value of a Go struct (works on unexported fields too)
func read(ptr reflect.Value, e *c08reg.Entry) []AV {
	v := ptr.Elem()
	out := make([]AV, len(e.Fields))
	for i, f := range e.Fields {
		fv, _ := fieldByNumber(v, f.Fn)
		a := AV{Ty: f.Ty}
		switch f.Ty {
		case "TBool":
			b := fv.Bool()
			a.B = &b
		case "TU32", "TU64":
			s := cx.U(fv.Uint())
			a.U = &s
		case "TI32", "TI64":
			s := cx.I(fv.Int())
			a.I = &s
		case "TStr":
			s := hex.EncodeToString([]byte(fv.String()))
			a.X = &s
		case "TBytes":
			s := hex.EncodeToString(fv.Bytes())
			a.X = &s
		case "TBytesArr", "TStrs":
			a.XL = []string{}
			for j := 0; j < fv.Len(); j++ {
				if f.Ty == "TStrs" {
					a.XL = append(a.XL, hex.EncodeToString([]byte(fv.Index(j).String())))
				} else {
					a.XL = append(a.XL, hex.EncodeToString(fv.Index(j).Bytes()))
				}
			}
		case "TBools":
			a.BL = []bool{}
			for j := 0; j < fv.Len(); j++ {
				a.BL = append(a.BL, fv.Index(j).Bool())
			}
		case "TU32s", "TU64s":
			a.UL = []string{}
			for j := 0; j < fv.Len(); j++ {
				a.UL = append(a.UL, cx.U(fv.Index(j).Uint()))
			}
		case "TMsg":
			if fv.IsNil() {
				a.Nil = true
			} else {
				a.M = read(fv, byName[f.Ref])
			}
		case "TMsgs":
			a.ML = [][]AV{}
			for j := 0; j < fv.Len(); j++ {
				a.ML = append(a.ML, read(fv.Index(j), byName[f.Ref]))
			}
		}
		out[i] = a
	}
	return out
}

// RunDirect builds the Go value from av, runs the real Encode, then the real Decode / DecodeStrict on those bytes.
// ok=false when the struct has unexported fields (cannot be built from outside the package).
func RunDirect(r *hx.Rng, e *c08reg.Entry, av []AV) (DirectRec, bool) {
	rec := DirectRec{K: "dv", Name: e.Name, V: av}
	v := e.New()
	if err := fill(r, reflect.ValueOf(v), e, av); err != nil {
		if err == errUnsettable {
			return rec, false
		}
		panic(err)
	}
	st, msg := cx.Guard(func() {
		enc := v.Encode()
		rec.Enc = hex.EncodeToString(enc)
		v2 := e.New()
		if err := v2.Decode(append([]byte{}, enc...)); err != nil {
			rec.St = 1
			return
		}
		rec.Back = read(reflect.ValueOf(v2), e)
		v3 := e.New()
		if err := v3.(interface{ DecodeStrict([]byte) error }).DecodeStrict(append([]byte{}, enc...)); err != nil {
			rec.Sst = 1
		}
	})
	if st != 0 {
		rec.St, rec.Panic = st, msg
	}
	return rec, true
}

// GenDirect returns n directly built values of the struct.
func GenDirect(r *hx.Rng, e *c08reg.Entry, n int) []DirectRec {
	var out []DirectRec
	for i := 0; i < n; i++ {
		rec, ok := RunDirect(r, e, genAV(r, e, 0))
		if !ok {
			return out
		}
		out = append(out, rec)
	}
	return out
}
