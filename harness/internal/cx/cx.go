// Package cx: helpers shared by the codec drivers (C08, C09): guarded execution with outcome classes
// {ok/err decided by the caller, PANIC(recovered), TIMEOUT}, error-class codes, varints, byte mutations.
package cx

import (
	"encoding/binary"
	"errors"
	"fmt"
	"runtime"
	"strconv"
	"strings"
	"time"

	"github.com/LiskHQ/lisk-engine/pkg/codec"

	"verifharness/internal/hx"
)

// Timeout per guarded call (first limit; a call that exceeds it gets 4x more before it is reported as TIMEOUT).
var Timeout = 3 * time.Second

// Guard runs f; returns 0 when it returned, 2 + site when it panicked (recovered), 3 on timeout.
func Guard(f func()) (int, string) {
	type outc struct {
		st  int
		msg string
	}
	done := make(chan outc, 1)
	go func() {
		defer func() {
			if r := recover(); r != nil {
				done <- outc{2, fmt.Sprintf("%v @ %s", r, panicSite())}
			}
		}()
		f()
		done <- outc{0, ""}
	}()
	t := time.NewTimer(Timeout)
	defer t.Stop()
	select {
	case o := <-done:
		return o.st, o.msg
	case <-t.C:
	}
	// the limit expired: before reporting a hang give the SAME call (not restarted) a second, four times longer limit, so that a
	// loaded machine or a GC pause is not reported as a defect; only a call still running after that is a TIMEOUT
	t2 := time.NewTimer(4 * Timeout)
	defer t2.Stop()
	select {
	case o := <-done:
		return o.st, o.msg
	case <-t2.C:
		return 3, "timeout"
	}
}

// panicSite: first lisk-engine frame below the runtime panic frames.
func panicSite() string {
	pcs := make([]uintptr, 32)
	n := runtime.Callers(3, pcs)
	frames := runtime.CallersFrames(pcs[:n])
	for {
		fr, more := frames.Next()
		if strings.Contains(fr.Function, "lisk-engine") {
			fn := fr.Function
			if i := strings.LastIndex(fn, "/"); i >= 0 {
				fn = fn[i+1:]
			}
			return fn
		}
		if !more {
			return "?"
		}
	}
}

func U(v uint64) string { return strconv.FormatUint(v, 10) }
func I(v int64) string  { return strconv.FormatInt(v, 10) }
func B(v bool) string {
	if v {
		return "1"
	}
	return "0"
}
func ParseU(s string) uint64 {
	v, err := strconv.ParseUint(s, 10, 64)
	if err != nil {
		i, _ := strconv.ParseInt(s, 10, 64)
		return uint64(i)
	}
	return v
}
func ParseI(s string) int64 {
	v, err := strconv.ParseInt(s, 10, 64)
	if err != nil {
		u, _ := strconv.ParseUint(s, 10, 64)
		return int64(u)
	}
	return v
}

// ErrCode: error class shared with coq/Corr/C08.v errcode.
func ErrCode(err error) int {
	switch {
	case err == nil:
		return 0
	case errors.Is(err, codec.ErrInvalidData):
		return 1
	case errors.Is(err, codec.ErrOutOfRange):
		return 2
	case errors.Is(err, codec.ErrNoTerminate):
		return 3
	case errors.Is(err, codec.ErrUnexpectedFieldNumber):
		return 4
	case errors.Is(err, codec.ErrFieldNumberNotFound):
		return 5
	case errors.Is(err, codec.ErrUnreadBytes):
		return 6
	case errors.Is(err, codec.ErrUnnecessaryLeadingBytes):
		return 7
	case strings.HasPrefix(err.Error(), "invalid byte size"):
		return 8
	case strings.HasPrefix(err.Error(), "invalid byte for UTF-8"):
		return 9
	case strings.HasPrefix(err.Error(), "UTF-8 is not normalized"):
		return 10
	}
	return 99
}

func Uvarint(v uint64) []byte {
	b := make([]byte, binary.MaxVarintLen64)
	n := binary.PutUvarint(b, v)
	return b[:n]
}

var boundaryBytes = []byte{0x00, 0x01, 0x02, 0x7f, 0x80, 0x81, 0xfe, 0xff, 0x08, 0x0a}

// Mutate applies n structure-unaware byte mutations.
func Mutate(r *hx.Rng, d []byte, n int) []byte {
	d = append([]byte{}, d...)
	for ; n > 0; n-- {
		switch r.Intn(6) {
		case 0: // truncate
			if len(d) > 0 {
				d = d[:r.Intn(len(d))]
			}
		case 1: // set a byte to a boundary value
			if len(d) > 0 {
				d[r.Intn(len(d))] = boundaryBytes[r.Intn(len(boundaryBytes))]
			}
		case 2: // flip a bit
			if len(d) > 0 {
				d[r.Intn(len(d))] ^= 1 << uint(r.Intn(8))
			}
		case 3: // insert a byte
			i := r.Intn(len(d) + 1)
			d = append(d[:i], append([]byte{boundaryBytes[r.Intn(len(boundaryBytes))]}, d[i:]...)...)
		case 4: // delete a byte
			if len(d) > 0 {
				i := r.Intn(len(d))
				d = append(d[:i], d[i+1:]...)
			}
		case 5: // increment / decrement a byte
			if len(d) > 0 {
				i := r.Intn(len(d))
				if r.Bool() {
					d[i]++
				} else {
					d[i]--
				}
			}
		}
	}
	return d
}
