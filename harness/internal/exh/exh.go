// Package exh ("executer harness") builds a real consensus.Executer in-process for the correspondence drivers
// (C03/C04/C13, reused by C15/C19).  Needs `-tags verif` (hooks pkg/consensus/export_c03_verif.go,
// pkg/db/export_c13_verif.go).
//
// API (keep small):
//
//	n, err := exh.New(exh.Options{N: 4})        // N validators (real Ed25519 + BLS keys), genesis processed, cache prepared
//	n.ABI.S = &exh.Script{...}                   // scripted answers of the ABI double for the next calls (zero value: all succeed)
//	n.ABI.Commits / Reverts / AppRoot            // what the "application" has been told to commit / revert so far
//	b := n.NextValid(exh.Build{})                // VALID successor of the current tip (slot, generator, signature, roots,
//	                                             // Build{By: v} picks v's next slot; Options.Weights sets unequal BFT weights;
//	                                             // validatorsHash, maxHeightPrevoted, maxHeightGenerated, eventRoot for n.ABI.S)
//	n.Sign(b.Header, v)                          // (re-)sign + recompute ID after altering a field
//	r := n.ProcessValidated(b, removeTemp)       // synchronous; r.Err / r.Panic (recovered) ; also n.Process, n.DeleteBlock
//	n.Dump()                                     // whole DB, sorted, key->value hex;  n.DumpDigest() = sha256 of it
//	n.Finalized(), n.Heights(), n.Tip(), n.HeaderAt(h), n.GeneratorAt(ts), n.ValidatorByAddr(a)
//	n.DrainEvents()                              // EventBlockNew/Delete/Finalize/ValidatorsChange published since last drain, in order
//	n.Restart()                                  // close DB, reopen on the same vfs.FS, new Chain + Executer, Init (PrepareCache)
//	n.Reattach()                                 // new Chain + Executer on the already open DB handle (used after a simulated crash)
//	Options.Listen + n.StartNet()/ConnectTo(m)   // real loopback p2p: n.ProcessFrom(block, m.Conn.Peer.ID()) enters the real sync
//
// Time: the genesis timestamp is now-Options.GenesisBack, so that thousands of non-future slots exist; blocks built by
// NextValid use consecutive slots (Build.SkipSlots to leave gaps).  All answers that the real ABI would give are scripted.
package exh

import (
	"bytes"
	"context"
	"crypto/sha256"
	"encoding/hex"
	"fmt"
	"sort"
	"strings"
	"time"

	"github.com/cockroachdb/pebble/vfs"

	"github.com/LiskHQ/lisk-engine/pkg/blockchain"
	"github.com/LiskHQ/lisk-engine/pkg/codec"
	"github.com/LiskHQ/lisk-engine/pkg/consensus"
	"github.com/LiskHQ/lisk-engine/pkg/consensus/validator"
	"github.com/LiskHQ/lisk-engine/pkg/crypto"
	"github.com/LiskHQ/lisk-engine/pkg/db"
	"github.com/LiskHQ/lisk-engine/pkg/db/diffdb"
	"github.com/LiskHQ/lisk-engine/pkg/labi"
	"github.com/LiskHQ/lisk-engine/pkg/log"
	"github.com/LiskHQ/lisk-engine/pkg/p2p"
	"github.com/LiskHQ/lisk-engine/pkg/trie/rmt"
)

// ---------------------------------------------------------------- validators

type Validator struct {
	Index  int
	Pub    []byte
	Priv   []byte
	Addr   []byte
	BLS    *crypto.BLSKeyPair
	Weight uint64
	// generator-key rotation: the keys in force before the last rotation (nil if never rotated)
	OldPub  []byte
	OldPriv []byte
	rotated int
}

// FreshGeneratorKey derives a new Ed25519 generator key pair for v (its address, BLS key and weight stay).
func (v *Validator) FreshGeneratorKey() (pub, priv []byte) {
	pub, priv, err := crypto.GetKeys(fmt.Sprintf("verif harness validator %d rotated generator key %d", v.Index, v.rotated+1))
	if err != nil {
		panic(err)
	}
	return pub, priv
}

// UseGeneratorKey makes (pub, priv) the validator's generator key from now on (call it once the block announcing the
// rotation has been applied); the previous pair is kept in OldPub / OldPriv.
func (v *Validator) UseGeneratorKey(pub, priv []byte) {
	v.OldPub, v.OldPriv = v.Pub, v.Priv
	v.Pub, v.Priv = pub, priv
	v.rotated++
}

func MakeValidator(i int) *Validator {
	pub, priv, err := crypto.GetKeys(fmt.Sprintf("verif harness validator passphrase number %d", i))
	if err != nil {
		panic(err)
	}
	seed := sha256.Sum256([]byte(fmt.Sprintf("verif bls seed %d", i)))
	return &Validator{Index: i, Pub: pub, Priv: priv, Addr: crypto.GetAddress(pub), BLS: crypto.BLSKeyGen(seed[:]), Weight: 1}
}

func (v *Validator) Labi() *labi.Validator {
	return &labi.Validator{Address: v.Addr, BFTWeight: v.Weight, GeneratorKey: v.Pub, BLSKey: v.BLS.PublicKey}
}

// ValidatorsHash of a validator set with a certificate threshold (the value a header must carry).
func ValidatorsHash(vs []*labi.Validator, certThreshold uint64) []byte {
	hv := make([]validator.HashValidator, 0, len(vs))
	for _, v := range vs {
		hv = append(hv, validator.NewHashValidator(v.BLSKey, v.BFTWeight))
	}
	h, err := validator.ComputeValidatorsHash(hv, certThreshold)
	if err != nil {
		panic(err)
	}
	return h
}

// ---------------------------------------------------------------- ABI double

// Script holds the answers of the ABI double. The zero value makes every call succeed with no events.
type Script struct {
	FailInitStateMachine bool
	FailVerifyAssets     bool
	FailBeforeTxs        bool
	FailAfterTxs         bool
	FailCommit           bool
	FailRevert           bool
	FailVerifyTx         int           // 1-based index of the transaction whose VerifyTransaction returns an error (0 = none)
	FailExecTx           int           // 1-based index of the transaction whose ExecuteTransaction returns an error (0 = none)
	VerifyTxResult       map[int]int32 // 0-based tx index -> VerifyTransaction result (default TxVerifyResultOk)
	BeforeEvents         []*blockchain.Event
	TxEvents             [][]*blockchain.Event // per transaction index
	AfterEvents          []*blockchain.Event
	NextValidators       []*labi.Validator
	PreCommitThreshold   uint64
	CertificateThreshold uint64
	// StateRoot, when non-nil, is what the application computes: Commit fails unless ExpectedStateRoot equals it.
	StateRoot []byte
	// ComputeStateRoot (opt-in, used by the C15 acceptance runs; off = unchanged behaviour): the application derives the
	// state root itself, RootOf(previous root, IDs of the transactions executed since InitStateMachine): Commit returns it,
	// and fails when a non-empty ExpectedStateRoot differs from it.
	ComputeStateRoot bool
}

// RootOf is the state root the double computes with Script.ComputeStateRoot.
func RootOf(prev []byte, txIDs [][]byte) []byte {
	h := sha256.New()
	h.Write([]byte("verif-app-state"))
	h.Write(prev)
	for _, id := range txIDs {
		h.Write(id)
	}
	return h.Sum(nil)
}

// NoteTx records a transaction as executed in the current block (for callers that answer ExecuteTransaction themselves).
func (m *ABI) NoteTx(id []byte) { m.executed = append(m.executed, append([]byte{}, id...)) }

// AllEvents returns the events the block execution will produce, in order, for nTx transactions (fresh copies, indexed).
func (s *Script) AllEvents(nTx int) []*blockchain.Event {
	out := blockchain.Events{}
	cp := func(es []*blockchain.Event) {
		for _, e := range es {
			c := *e
			out = append(out, &c)
		}
	}
	if s == nil {
		return out
	}
	cp(s.BeforeEvents)
	for i := 0; i < nTx; i++ {
		if i < len(s.TxEvents) {
			cp(s.TxEvents[i])
		}
	}
	cp(s.AfterEvents)
	out.UpdateIndex()
	return out
}

type ABI struct {
	S        *Script
	Genesis  *labi.InitGenesisStateResponse
	Calls    []string                        // names of the calls received since the last ResetCalls
	OnInit   func(h *blockchain.BlockHeader) // optional: called at InitStateMachine (start of every block step) before answering
	Commits  int                             // successful Commit calls (DryRun excluded) so far
	Reverts  int                             // successful Revert calls so far
	AppRoot  []byte                          // state root the "application" holds committed (last Commit / Revert target)
	txCursor int
	executed [][]byte // IDs executed since InitStateMachine (Script.ComputeStateRoot)
}

func (m *ABI) s() *Script {
	if m.S == nil {
		return &Script{}
	}
	return m.S
}
func (m *ABI) log(c string) { m.Calls = append(m.Calls, c) }
func (m *ABI) ResetCalls()  { m.Calls = nil }

func cpEvents(es []*blockchain.Event) []*blockchain.Event {
	out := make([]*blockchain.Event, len(es))
	for i, e := range es {
		c := *e
		out[i] = &c
	}
	return out
}

var errScript = fmt.Errorf("abi-double: scripted failure")

func (m *ABI) Init(req *labi.InitRequest) (*labi.InitResponse, error) {
	return &labi.InitResponse{}, nil
}
func (m *ABI) InitStateMachine(req *labi.InitStateMachineRequest) (*labi.InitStateMachineResponse, error) {
	m.log("InitStateMachine")
	m.txCursor = 0
	m.executed = nil
	if m.OnInit != nil {
		m.OnInit(req.Header)
	}
	if m.s().FailInitStateMachine {
		return nil, errScript
	}
	return &labi.InitStateMachineResponse{ContextID: []byte{1}}, nil
}
func (m *ABI) InitGenesisState(req *labi.InitGenesisStateRequest) (*labi.InitGenesisStateResponse, error) {
	m.log("InitGenesisState")
	return m.Genesis, nil
}
func (m *ABI) InsertAssets(req *labi.InsertAssetsRequest) (*labi.InsertAssetsResponse, error) {
	return &labi.InsertAssetsResponse{}, nil
}
func (m *ABI) VerifyAssets(req *labi.VerifyAssetsRequest) (*labi.VerifyAssetsResponse, error) {
	m.log("VerifyAssets")
	if m.s().FailVerifyAssets {
		return nil, errScript
	}
	return &labi.VerifyAssetsResponse{}, nil
}
func (m *ABI) BeforeTransactionsExecute(req *labi.BeforeTransactionsExecuteRequest) (*labi.BeforeTransactionsExecuteResponse, error) {
	m.log("BeforeTransactionsExecute")
	if m.s().FailBeforeTxs {
		return nil, errScript
	}
	return &labi.BeforeTransactionsExecuteResponse{Events: cpEvents(m.s().BeforeEvents)}, nil
}
func (m *ABI) AfterTransactionsExecute(req *labi.AfterTransactionsExecuteRequest) (*labi.AfterTransactionsExecuteResponse, error) {
	m.log("AfterTransactionsExecute")
	if m.s().FailAfterTxs {
		return nil, errScript
	}
	return &labi.AfterTransactionsExecuteResponse{Events: cpEvents(m.s().AfterEvents), NextValidators: m.s().NextValidators,
		PreCommitThreshold: m.s().PreCommitThreshold, CertificateThreshold: m.s().CertificateThreshold}, nil
}
func (m *ABI) VerifyTransaction(req *labi.VerifyTransactionRequest) (*labi.VerifyTransactionResponse, error) {
	m.log("VerifyTransaction")
	i := m.txCursor
	if m.s().FailVerifyTx == i+1 {
		return nil, errScript
	}
	res := labi.TxVerifyResultOk
	if r, ok := m.s().VerifyTxResult[i]; ok {
		res = r
	}
	return &labi.VerifyTransactionResponse{Result: res}, nil
}
func (m *ABI) ExecuteTransaction(req *labi.ExecuteTransactionRequest) (*labi.ExecuteTransactionResponse, error) {
	m.log("ExecuteTransaction")
	i := m.txCursor
	m.txCursor++
	if m.s().FailExecTx == i+1 {
		return nil, errScript
	}
	var evs []*blockchain.Event
	if i < len(m.s().TxEvents) {
		evs = cpEvents(m.s().TxEvents[i])
	}
	if req.Transaction != nil {
		m.NoteTx(req.Transaction.ID)
	}
	return &labi.ExecuteTransactionResponse{Result: labi.TxExecuteResultSuccess, Events: evs}, nil
}
func (m *ABI) Commit(req *labi.CommitRequest) (*labi.CommitResponse, error) {
	m.log("Commit")
	if m.s().FailCommit {
		return nil, errScript
	}
	if m.s().StateRoot != nil && !bytes.Equal(m.s().StateRoot, req.ExpectedStateRoot) {
		return nil, fmt.Errorf("abi-double: state root mismatch")
	}
	if m.s().ComputeStateRoot {
		root := RootOf(req.StateRoot, m.executed)
		if len(req.ExpectedStateRoot) > 0 && !bytes.Equal(root, req.ExpectedStateRoot) {
			return nil, fmt.Errorf("abi-double: state root mismatch")
		}
		if !req.DryRun {
			m.Commits++
			m.AppRoot = append([]byte{}, root...)
		}
		return &labi.CommitResponse{StateRoot: root}, nil
	}
	if !req.DryRun {
		m.Commits++
		m.AppRoot = append([]byte{}, req.ExpectedStateRoot...)
	}
	return &labi.CommitResponse{StateRoot: req.ExpectedStateRoot}, nil
}
func (m *ABI) Revert(req *labi.RevertRequest) (*labi.RevertResponse, error) {
	m.log("Revert")
	if m.s().FailRevert {
		return nil, errScript
	}
	m.Reverts++
	m.AppRoot = append([]byte{}, req.ExpectedStateRoot...)
	return &labi.RevertResponse{StateRoot: req.ExpectedStateRoot}, nil
}
func (m *ABI) Clear(req *labi.ClearRequest) (*labi.ClearResponse, error) {
	m.log("Clear")
	return &labi.ClearResponse{}, nil
}
func (m *ABI) Finalize(req *labi.FinalizeRequest) (*labi.FinalizeResponse, error) {
	m.log("Finalize")
	return &labi.FinalizeResponse{}, nil
}
func (m *ABI) GetMetadata(req *labi.MetadataRequest) (*labi.MetadataResponse, error) { return nil, nil }
func (m *ABI) Query(req *labi.QueryRequest) (*labi.QueryResponse, error)             { return nil, nil }
func (m *ABI) Prove(req *labi.ProveRequest) (*labi.ProveResponse, error)             { return nil, nil }

// nopLogger discards everything (log.NewSilentLogger still prints errors with stack traces to stdout).
type nopLogger struct{}

func (nopLogger) Debug(string, ...interface{})    {}
func (nopLogger) Info(string, ...interface{})     {}
func (nopLogger) Error(string, ...interface{})    {}
func (nopLogger) Debugf(string, ...interface{})   {}
func (nopLogger) Infof(string, ...interface{})    {}
func (nopLogger) Errorf(string, ...interface{})   {}
func (nopLogger) Warning(string, ...interface{})  {}
func (nopLogger) Warningf(string, ...interface{}) {}
func (nopLogger) With(...interface{}) log.Logger  { return nopLogger{} }

// ---------------------------------------------------------------- node

type Options struct {
	N             int    // validators in the genesis set (default 4)
	ChainID       []byte // default 00000001
	BlockTime     uint32 // default 10
	BatchSize     int    // liskbft batch size (default 2*N, at least N)
	MaxBlockCache int    // default 515
	KeepEvents    int    // ChainConfig.KeepEventsForHeights (default -1 = keep all); use KeepEventsSet to pass 0
	KeepEventsSet bool
	MaxTxLen      uint32   // ChainConfig.MaxTransactionsLength (default 15360)
	GenesisBack   uint32   // genesis timestamp = now - GenesisBack (default 1_000_000)
	PreCommit     uint64   // genesis precommit threshold (default 2N/3+1 of total weight)
	Certificate   uint64   // genesis certificate threshold (default same)
	FS            vfs.FS   // default vfs.NewMem()
	Dir           string   // default "db"
	GenesisTime   uint32   // if non-zero, fixed genesis timestamp (replays / crash enumeration re-runs)
	NoInit        bool     // New only opens the database; the caller runs n.Reattach() (= Executer.Init: genesis step, PrepareCache)
	Listen        bool     // give the Executer's p2p connection a loopback listen address (StartNet starts it); default: unstarted
	Weights       []uint64 // BFT weight per genesis validator (default 1 each); unequal weights give finality jumps
}

type Ev struct {
	Topic  string `json:"t"`
	Height uint32 `json:"h"`
	ID     string `json:"id,omitempty"`
	Orig   uint32 `json:"orig,omitempty"`
	Next   uint32 `json:"next,omitempty"`
	NEv    int    `json:"nev,omitempty"`
}

type Node struct {
	Opt     Options
	Vals    []*Validator // every validator ever created through the node (genesis set first)
	Genesis *blockchain.Block
	DB      *db.DB
	Chain   *blockchain.Chain
	Exec    *consensus.Executer
	Conn    *p2p.Connection // the Executer's connection (unstarted unless StartNet is called)
	ABI     *ABI
	Ctx     context.Context
	chans   map[string]chan interface{}
}

type Result struct {
	Err   error
	Panic string // recovered panic value of the code under test ("" if none)
}

func (r Result) OK() bool { return r.Err == nil && r.Panic == "" }

var topics = []string{consensus.EventBlockNew, consensus.EventBlockDelete, consensus.EventBlockFinalize, consensus.EventValidatorsChange}

func New(opt Options) (*Node, error) {
	if opt.N == 0 {
		opt.N = 4
	}
	if opt.ChainID == nil {
		opt.ChainID = []byte{0, 0, 0, 1}
	}
	if opt.BlockTime == 0 {
		opt.BlockTime = 10
	}
	if opt.BatchSize == 0 {
		opt.BatchSize = 2 * opt.N
	}
	if opt.MaxBlockCache == 0 {
		opt.MaxBlockCache = 515
	}
	if !opt.KeepEventsSet && opt.KeepEvents == 0 {
		opt.KeepEvents = -1
	}
	if opt.MaxTxLen == 0 {
		opt.MaxTxLen = 15360
	}
	if opt.GenesisBack == 0 {
		opt.GenesisBack = 1000000
	}
	if opt.FS == nil {
		opt.FS = vfs.NewMem()
	}
	if opt.Dir == "" {
		opt.Dir = "db"
	}
	n := &Node{Opt: opt, Ctx: context.Background()}
	total := uint64(0)
	lv := []*labi.Validator{}
	for i := 0; i < opt.N; i++ {
		v := MakeValidator(i)
		if i < len(opt.Weights) && opt.Weights[i] > 0 {
			v.Weight = opt.Weights[i]
		}
		n.Vals = append(n.Vals, v)
		lv = append(lv, v.Labi())
		total += v.Weight
	}
	if opt.PreCommit == 0 {
		opt.PreCommit = total*2/3 + 1
	}
	if opt.Certificate == 0 {
		opt.Certificate = opt.PreCommit
	}
	n.Opt = opt
	emptyHash := crypto.Hash([]byte{})
	ts := opt.GenesisTime
	if ts == 0 {
		ts = uint32(time.Now().Unix()) - opt.GenesisBack
		n.Opt.GenesisTime = ts
	}
	g := blockchain.NewGenesisBlock(0, ts, bytes.Repeat([]byte{0}, 32), blockchain.BlockAssets{})
	g.Header.ValidatorsHash = ValidatorsHash(lv, opt.Certificate)
	g.Header.EventRoot = emptyHash
	g.Header.StateRoot = emptyHash
	g.Init()
	n.Genesis = g
	n.ABI = &ABI{Genesis: &labi.InitGenesisStateResponse{PreCommitThreshold: opt.PreCommit, CertificateThreshold: opt.Certificate, NextValidators: lv}}
	d, err := db.VerifC13OpenFS(opt.FS, opt.Dir)
	if err != nil {
		return nil, err
	}
	n.DB = d
	if opt.NoInit {
		return n, nil
	}
	if err := n.Reattach(); err != nil {
		return nil, err
	}
	return n, nil
}

// AddValidator creates one more validator identity known to the node (not active until scripted via NextValidators).
func (n *Node) AddValidator() *Validator {
	v := MakeValidator(len(n.Vals))
	n.Vals = append(n.Vals, v)
	return v
}

// Reattach builds a fresh Chain + Executer over the already open DB handle and runs Init (genesis if absent, PrepareCache).
func (n *Node) Reattach() error {
	if n.Exec != nil {
		n.Exec.VerifC03StopTicker()
	}
	n.Chain = blockchain.NewChain(&blockchain.ChainConfig{ChainID: n.Opt.ChainID, MaxTransactionsLength: n.Opt.MaxTxLen,
		MaxBlockCache: n.Opt.MaxBlockCache, KeepEventsForHeights: n.Opt.KeepEvents})
	n.Chain.Init(n.Genesis, n.DB)
	var lg log.Logger = nopLogger{}
	cfg := &p2p.Config{ChainID: n.Opt.ChainID}
	if n.Opt.Listen {
		cfg.Addresses = []string{"/ip4/127.0.0.1/tcp/0"}
	}
	conn := p2p.NewConnection(lg, cfg)
	n.Conn = conn
	n.Exec = consensus.NewExecuter(&consensus.ExecuterConfig{CTX: n.Ctx, ABI: n.ABI, Chain: n.Chain, Conn: conn,
		BlockTime: n.Opt.BlockTime, BatchSize: n.Opt.BatchSize})
	// ONE buffered channel for all topics: the publication order across topics is observable (Finalize before/after New, …)
	n.chans = map[string]chan interface{}{}
	all := make(chan interface{}, 16384)
	n.chans["*"] = all
	for _, t := range topics {
		n.Exec.VerifC03On(t, all)
	}
	return n.Exec.Init(&consensus.ExecuterInitParam{CTX: n.Ctx, Logger: lg, Database: n.DB, GenesisBlock: n.Genesis})
}

// Restart = process restart: close the DB, reopen it from the same file system, rebuild Chain/Executer, Init.
func (n *Node) Restart() error {
	_ = n.DB.Close() // leaked iterators inside pkg/db make Close report an error; the files are complete either way
	d, err := db.VerifC13OpenFS(n.Opt.FS, n.Opt.Dir)
	if err != nil {
		return err
	}
	n.DB = d
	return n.Reattach()
}

// StartNet starts the Executer's p2p connection (Options.Listen must be set); the sync RPC handlers registered by
// Executer.Init serve this node's real chain. ConnectTo dials another started node.
func (n *Node) StartNet() error { return n.Conn.Start([]byte{}) }
func (n *Node) StopNet()        { _ = n.Conn.Stop() }
func (n *Node) ConnectTo(o *Node) error {
	addrs, err := o.Conn.Peer.MultiAddress()
	if err != nil || len(addrs) == 0 {
		return fmt.Errorf("exh: peer has no address: %v", err)
	}
	info, err := p2p.AddrInfoFromMultiAddr(addrs[0])
	if err != nil {
		return err
	}
	return n.Conn.Peer.Connect(n.Ctx, *info)
}

// ProcessFrom runs the fork-choice entry point as if the block had been received from the given peer.
func (n *Node) ProcessFrom(b *blockchain.Block, peer p2p.PeerID) Result {
	return guard(func() error { return n.Exec.VerifC03Process(n.Ctx, b, peer) })
}

func guard(f func() error) (r Result) {
	defer func() {
		if p := recover(); p != nil {
			r.Panic = fmt.Sprint(p)
		}
	}()
	r.Err = f()
	return
}

func (n *Node) ProcessValidated(b *blockchain.Block, removeTemp bool) Result {
	return guard(func() error { return n.Exec.VerifC03ProcessValidated(n.Ctx, b, false, removeTemp) })
}

// Process runs the fork-choice entry point with a non-empty peer ID (so that nothing is published to the network).
func (n *Node) Process(b *blockchain.Block) Result {
	return guard(func() error { return n.Exec.VerifC03Process(n.Ctx, b, p2p.PeerID("verif-peer")) })
}
func (n *Node) DeleteBlock(b *blockchain.Block, saveTemp bool) Result {
	return guard(func() error { return n.Exec.VerifC03DeleteBlock(n.Ctx, b, saveTemp) })
}
func (n *Node) VerifyBlock(b *blockchain.Block) Result {
	return guard(func() error { return n.Exec.VerifC03VerifyBlock(b) })
}

func (n *Node) Tip() *blockchain.Block { return n.Chain.LastBlock() }

func (n *Node) HeaderAt(h uint32) *blockchain.BlockHeader {
	hd, err := n.Chain.DataAccess().GetBlockHeaderByHeight(h)
	if err != nil {
		return nil
	}
	return hd
}

func (n *Node) Finalized() (uint32, error) { return n.Chain.DataAccess().GetFinalizedHeight() }

// Heights returns the node's own maxHeightPrevoted, maxHeightPrecommited, maxHeightCertified.
func (n *Node) Heights() (uint32, uint32, uint32) {
	a, b, c, err := n.Exec.GetBFTHeights(n.Exec.VerifC03ConsensusStore())
	if err != nil {
		panic(err)
	}
	return a, b, c
}

func (n *Node) ValidatorByAddr(a []byte) *Validator {
	for _, v := range n.Vals {
		if bytes.Equal(v.Addr, a) {
			return v
		}
	}
	return nil
}

// Slot of a timestamp (same arithmetic as validator.BlockSlot: uint32 wrap, floor division).
func (n *Node) Slot(ts uint32) int { return n.Exec.GetSlotNumber(ts) }

// GeneratorAt returns the validator assigned to the slot of ts for a block at the next height.
func (n *Node) GeneratorAt(ts uint32) *Validator {
	gens, err := n.Exec.GetGeneratorKeys(n.Exec.VerifC03ConsensusStore(), n.Tip().Header.Height+1)
	if err != nil || len(gens) == 0 {
		return nil
	}
	g := gens[n.Slot(ts)%len(gens)]
	return n.ValidatorByAddr(g.Address())
}

// GeneratorAddrs: generator list in force for the next height (addresses, in slot order).
func (n *Node) GeneratorAddrs() [][]byte {
	gens, err := n.Exec.GetGeneratorKeys(n.Exec.VerifC03ConsensusStore(), n.Tip().Header.Height+1)
	if err != nil {
		return nil
	}
	out := make([][]byte, len(gens))
	for i, g := range gens {
		out[i] = g.Address()
	}
	return out
}

// lastGenerated: largest height on the current chain generated by addr (0 if none), by walking the stored chain.
func (n *Node) lastGenerated(addr []byte) uint32 {
	for h := n.Tip().Header.Height; h > 0; h-- {
		hd := n.HeaderAt(h)
		if hd != nil && bytes.Equal(hd.GeneratorAddress, addr) {
			return h
		}
	}
	return 0
}

// PostValidatorsHash: validatorsHash a valid successor must carry given the script in force
// (the scripted next validator set if any, else the parameters already valid for height+1).
func (n *Node) PostValidatorsHash() []byte {
	s := n.ABI.s()
	if len(s.NextValidators) != 0 || s.PreCommitThreshold != 0 || s.CertificateThreshold != 0 {
		return ValidatorsHash(s.NextValidators, s.CertificateThreshold)
	}
	p, err := n.Exec.GetBFTParameters(n.Exec.VerifC03ConsensusStore(), n.Tip().Header.Height+1)
	if err != nil {
		panic(err)
	}
	return p.ValidatorsHash()
}

type Build struct {
	SkipSlots int                       // leave this many empty slots after the tip's slot
	Txs       []*blockchain.Transaction // payload (IDs must be initialised)
	Assets    []*blockchain.BlockAsset
	Agg       *blockchain.AggregateCommit // default: empty commit at the node's maxHeightCertified
	MHG       *uint32                     // maxHeightGenerated override (default: generator's last height on this chain)
	StateRoot []byte                      // default: script's StateRoot or the empty hash
	By        *Validator                  // if set: use the first slot (after SkipSlots) assigned to this validator
}

// NextValid builds a block that satisfies every rule against the current tip/state and the script n.ABI.S.
func (n *Node) NextValid(bo Build) *blockchain.Block {
	last := n.Tip().Header
	slot := n.Slot(last.Timestamp) + 1 + bo.SkipSlots
	ts := n.Exec.GetSlotTime(slot)
	g := n.GeneratorAt(ts)
	if g == nil {
		panic("exh: no generator for slot")
	}
	if bo.By != nil {
		for k := 0; k < 1000 && !bytes.Equal(g.Addr, bo.By.Addr); k++ {
			slot++
			ts = n.Exec.GetSlotTime(slot)
			g = n.GeneratorAt(ts)
		}
		if !bytes.Equal(g.Addr, bo.By.Addr) {
			panic("exh: validator has no slot")
		}
	}
	mhp, _, mhc := n.Heights()
	emptyHash := crypto.Hash([]byte{})
	txs := bo.Txs
	if txs == nil {
		txs = []*blockchain.Transaction{}
	}
	assets := bo.Assets
	if assets == nil {
		assets = []*blockchain.BlockAsset{}
	}
	ids := make([][]byte, len(txs))
	for i, tx := range txs {
		ids[i] = tx.ID
	}
	agg := bo.Agg
	if agg == nil {
		agg = &blockchain.AggregateCommit{Height: mhc, AggregationBits: codec.Hex{}, CertificateSignature: codec.Hex{}}
	}
	mhg := n.lastGenerated(g.Addr)
	if bo.MHG != nil {
		mhg = *bo.MHG
	}
	sr := bo.StateRoot
	if sr == nil {
		sr = n.ABI.s().StateRoot
	}
	if sr == nil {
		sr = emptyHash
	}
	er, err := blockchain.CalculateEventRoot(n.ABI.s().AllEvents(len(txs)))
	if err != nil {
		panic(err)
	}
	h := &blockchain.BlockHeader{
		Version: 2, Timestamp: ts, Height: last.Height + 1, PreviousBlockID: last.ID, GeneratorAddress: g.Addr,
		TransactionRoot: rmt.CalculateRoot(ids), AssetRoot: blockchain.BlockAssets(assets).GetRoot(), EventRoot: er, StateRoot: sr,
		MaxHeightPrevoted: mhp, MaxHeightGenerated: mhg, ValidatorsHash: n.PostValidatorsHash(), AggregateCommit: agg,
	}
	h.Sign(n.Opt.ChainID, g.Priv)
	return &blockchain.Block{Header: h, Transactions: txs, Assets: assets}
}

// Sign (re-)signs the header with v's key for this chain and recomputes the ID.
func (n *Node) Sign(h *blockchain.BlockHeader, v *Validator) { h.Sign(n.Opt.ChainID, v.Priv) }

// MakeTx builds a statically valid transaction (64-byte signature, 32-byte sender key), ID initialised.
func MakeTx(seed uint64, paramLen int) *blockchain.Transaction {
	pk := sha256.Sum256([]byte(fmt.Sprintf("txpk %d", seed)))
	sg := sha256.Sum256([]byte(fmt.Sprintf("txsig %d", seed)))
	tx := &blockchain.Transaction{Module: "token", Command: "transfer", Nonce: seed, Fee: 1000 + seed%7, SenderPublicKey: pk[:],
		Params: bytes.Repeat([]byte{byte(seed)}, paramLen), Signatures: []codec.Hex{append(append([]byte{}, sg[:]...), sg[:]...)}}
	tx.Init()
	return tx
}

// MakeEvent builds an application event for height h.
func MakeEvent(seed uint64, h uint32, nTopics int) *blockchain.Event {
	tp := []codec.Hex{}
	for i := 0; i < nTopics; i++ {
		t := sha256.Sum256([]byte(fmt.Sprintf("topic %d %d", seed, i)))
		tp = append(tp, t[:8])
	}
	return blockchain.NewEventFromValues("token", "transfer", []byte{byte(seed), byte(seed >> 8)}, tp, h, 0)
}

// ---------------------------------------------------------------- observation

type KV struct {
	K string `json:"k"`
	V string `json:"v"`
}

// Dump returns the whole engine database, sorted by key (pebble order), hex encoded.
func (n *Node) Dump() []KV {
	kvs := n.DB.Iterate([]byte{}, -1, false)
	out := make([]KV, len(kvs))
	for i, kv := range kvs {
		out[i] = KV{hex.EncodeToString(kv.Key()), hex.EncodeToString(kv.Value())}
	}
	sort.SliceStable(out, func(i, j int) bool { return out[i].K < out[j].K })
	return out
}

func Digest(d []KV) string {
	h := sha256.New()
	for _, kv := range d {
		h.Write([]byte(kv.K))
		h.Write([]byte{'='})
		h.Write([]byte(kv.V))
		h.Write([]byte{'\n'})
	}
	return hex.EncodeToString(h.Sum(nil))[:32]
}

func (n *Node) DumpDigest() string { return Digest(n.Dump()) }

// Canon returns the dump with every stored revert diff (prefix 0x33) re-encoded in a canonical entry order: diffdb.Commit emits
// the entries of a diff in Go map order, so the same step can store byte-different but equivalent diffs.
func Canon(d []KV) []KV {
	out := make([]KV, len(d))
	copy(out, d)
	for i, kv := range out {
		if len(kv.K) >= 2 && kv.K[:2] == "33" {
			raw, err := hex.DecodeString(kv.V)
			if err != nil {
				continue
			}
			df := &diffdb.Diff{}
			if err := df.Decode(raw); err != nil {
				continue
			}
			sort.Slice(df.Added, func(a, b int) bool { return string(df.Added[a]) < string(df.Added[b]) })
			sort.Slice(df.Updated, func(a, b int) bool { return string(df.Updated[a].Key) < string(df.Updated[b].Key) })
			sort.Slice(df.Deleted, func(a, b int) bool { return string(df.Deleted[a].Key) < string(df.Deleted[b].Key) })
			out[i].V = hex.EncodeToString(df.Encode())
		}
	}
	return out
}

// DiffKeys lists the keys whose value differs between two dumps (for failure reports).
func DiffKeys(a, b []KV) []string {
	ma := map[string]string{}
	for _, kv := range a {
		ma[kv.K] = kv.V
	}
	out := []string{}
	seen := map[string]bool{}
	for _, kv := range b {
		seen[kv.K] = true
		if v, ok := ma[kv.K]; !ok || v != kv.V {
			out = append(out, kv.K)
		}
	}
	for _, kv := range a {
		if !seen[kv.K] {
			out = append(out, kv.K)
		}
	}
	sort.Strings(out)
	return out
}

// DrainEvents returns the events published since the previous drain, in publication order (all topics share one
// buffered channel, so the order across topics is the real one).
func (n *Node) DrainEvents() []Ev {
	out := []Ev{}
	for _, t := range []string{"*"} {
		ch := n.chans[t]
		for {
			select {
			case m := <-ch:
				switch v := m.(type) {
				case *consensus.EventBlockNewMessage:
					out = append(out, Ev{Topic: "new", Height: v.Block.Header.Height, ID: hex.EncodeToString(v.Block.Header.ID), NEv: len(v.Events)})
				case *consensus.EventBlockDeleteMessage:
					out = append(out, Ev{Topic: "delete", Height: v.Block.Header.Height, ID: hex.EncodeToString(v.Block.Header.ID)})
				case *consensus.EventBlockFinalizeMessage:
					out = append(out, Ev{Topic: "finalize", Height: v.Trigger.Height, ID: hex.EncodeToString(v.Trigger.ID), Orig: v.Original, Next: v.Next})
				case *consensus.EventChangeValidator:
					out = append(out, Ev{Topic: "validators", NEv: len(v.NextValidators)})
				}
				continue
			default:
			}
			break
		}
	}
	return out
}

// ErrClass maps an error of process/processValidated/deleteBlock to a small stable enum (rule class).
func ErrClass(r Result) string {
	if r.Panic != "" {
		return "panic"
	}
	if r.Err == nil {
		return "ok"
	}
	s := r.Err.Error()
	for _, p := range [][2]string{
		{"block header version", "version"},
		{"is not consecutive", "height"},
		{"invalid previous block id", "previd"},
		{"future block", "future"},
		{"less or equal to last block slot", "pastslot"},
		{"invalid block generator", "generator"},
		{"invalid maxHeight prevoted", "mhp"},
		{"received contradicting block header", "contradiction"},
		{"aggregate commit", "aggcommit"},
		{"invalid certificate received", "aggcommit"},
		{"invalid signature", "signature"},
		{"generator keys does not exist", "genlookup"},
		{"invalid state.", "bft"},
		{"invalid validatorsHash", "vhash"},
		{"invalid precommit threshold", "setparams"},
		{"invalid validators size", "setparams"},
		{"invalid BFT weight", "setparams"},
		{"invalid number of events", "nevents"},
		{"invalid event root", "eventroot"},
		{"transaction root must match", "txroot"},
		{"assets root must match", "assetroot"},
		{"assets must be sorted", "assets"},
		{"assets module must be unique", "assets"},
		{"previous block id must be 32", "static"},
		{"generator address must be 20", "static"},
		{"block signature must not be empty", "static"},
		{"failed to execute transaction", "txverify"},
		{"state root mismatch", "stateroot"},
		{"abi-double: scripted failure", "abi"},
		{"does not satisfy alphanumeric", "txstatic"},
		{"params size", "txstatic"},
		{"senderPublicKey must have length", "txstatic"},
		{"signatures must have length", "txstatic"},
		{"exceeds the maximum", "payloadsize"},
		{"cannot be deleted", "finalized"},
		{"genesis block cannot be removed", "genesis"},
		{"does not exist", "notfound"},
		{"data was not found", "notfound"},
	} {
		if strings.Contains(s, p[0]) {
			return p[1]
		}
	}
	return "other:" + s
}
