// Package bftx drives the real liskbft module for the C01/C02 correspondence: feeds header histories to the real liskbft module (over diffdb on an
// in-memory pebble, committing after every block as processValidated does) and records, after every block,
// the heights, the contradiction flag, and the decoded BFTVotes.
package bftx

import (
	"bytes"
	"crypto/sha256"
	"encoding/hex"
	"sort"

	"github.com/LiskHQ/lisk-engine/pkg/blockchain"
	"github.com/LiskHQ/lisk-engine/pkg/consensus/liskbft"
	"github.com/LiskHQ/lisk-engine/pkg/db"
	"github.com/LiskHQ/lisk-engine/pkg/db/diffdb"
	"github.com/LiskHQ/lisk-engine/pkg/labi"
)

type Val struct {
	A uint32 `json:"a"`
	W uint64 `json:"w"`
	K uint32 `json:"k"` // BLS key code (0 = derived from the address); validators may share or swap keys
}

func blsKey(v Val) []byte {
	if v.K == 0 {
		return []byte{byte(v.A)}
	}
	return []byte{0xee, byte(v.K)}
}

type Change struct {
	PC      uint64   `json:"pc"`
	Cert    uint64   `json:"cert"`
	Vals    []Val    `json:"vals"`
	Standby []uint32 `json:"standby"` // additional generators without BFT weight
}
type Block struct {
	H    uint32  `json:"h"`
	Gen  uint32  `json:"gen"`
	MHG  uint32  `json:"mhg"`
	MHP  uint32  `json:"mhp"`
	Cert *uint32 `json:"cert"`
	Chg  *Change `json:"chg"`
}
type Info struct {
	H, G, MHG, MHP uint32
	PV, PC         uint64
}
type Obs struct {
	Err     int          `json:"err"`    // 0 ok, 1 BeforeTransactionsExecute error, 2 SetBFTParameters error
	Contra  bool         `json:"contra"` // IsHeaderContradictingChain before applying
	Heights [3]uint32    `json:"heights"`
	Infos   [][6]uint64  `json:"infos"` // height, gen, mhg, mhp, prevote weight, precommit weight
	Act     [][3]uint32  `json:"act"`   // addr, minActiveHeight, largestHeightPrecommit
	PKeys   []uint32     `json:"pkeys"`
	IMP     int          `json:"imp"`    // ImpliesMaximalPrevotes: 0 false 1 true 2 error
	Next    int64        `json:"next"`   // NextHeightBFTParameters(tip) or -1
	GKeys   []uint32     `json:"gkeys"`  // heights with a generator keys entry
	Gens    []GenProbe   `json:"gens"`   // GetGeneratorKeys at probe heights
	At      [][2]uint32  `json:"at"`     // (slot, address of Generators.AtTimestamp) for the generators of tip+1
	Nexts   [][2]int64   `json:"nexts"`  // NextHeightBFTParameters at probe heights: (height, answer or -1)
	Params  []ParamProbe `json:"params"` // GetBFTParameters at probe heights
	VHash   bool         `json:"vhash"`  // every probed validatorsHash equals the independently computed LIP-0058 hash
}

// ParamProbe is the answer of GetBFTParameters(height).
type ParamProbe struct {
	H    uint32      `json:"h"`
	Err  bool        `json:"err"`
	PV   uint64      `json:"pv"`
	PC   uint64      `json:"pc"`
	Cert uint64      `json:"cert"`
	Vals [][2]uint64 `json:"vals"` // (address, BFT weight) in stored order
	Keys []string    `json:"keys"` // stored BLS key per validator (hex), same order
}

func uvarint(x uint64) []byte {
	out := []byte{}
	for x >= 0x80 {
		out = append(out, byte(x)|0x80)
		x >>= 7
	}
	return append(out, byte(x))
}

// IndepValidatorsHash computes LIP-0058's validatorsHash from scratch (not through pkg/consensus/validator or pkg/codec):
// sha256 of the Lisk encoding of {1: repeated {1: bytes blsKey, 2: uint64 bftWeight} sorted by blsKey, 2: uint64 certificateThreshold}.
func IndepValidatorsHash(keys [][]byte, weights []uint64, cert uint64) []byte {
	idx := make([]int, len(keys))
	for i := range idx {
		idx[i] = i
	}
	sort.SliceStable(idx, func(a, b int) bool { return bytes.Compare(keys[idx[a]], keys[idx[b]]) < 0 })
	enc := []byte{}
	for _, i := range idx {
		inner := append([]byte{0x0a}, uvarint(uint64(len(keys[i])))...)
		inner = append(inner, keys[i]...)
		inner = append(inner, 0x10)
		inner = append(inner, uvarint(weights[i])...)
		enc = append(enc, 0x0a)
		enc = append(enc, uvarint(uint64(len(inner)))...)
		enc = append(enc, inner...)
	}
	enc = append(enc, 0x10)
	enc = append(enc, uvarint(cert)...)
	h := sha256.Sum256(enc)
	return h[:]
}

// GenProbe is the answer of GetGeneratorKeys(height): the generator addresses, or Err.
type GenProbe struct {
	H     uint32   `json:"h"`
	Err   bool     `json:"err"`
	Addrs []uint32 `json:"addrs"`
}

type slot10 struct{}

func (slot10) GetSlotNumber(unixTime uint32) int { return int(unixTime / 10) }

// Generators builds the generator list of a change: the BFT validators in the given order followed by the standby ones,
// derived through convert.go's GetBFTValidatorAndGenerators.
func Generators(c Change) liskbft.Generators {
	lv := labi.Validators{}
	for _, v := range c.Vals {
		lv = append(lv, &labi.Validator{Address: Addr(v.A), BFTWeight: v.W, GeneratorKey: []byte{byte(v.A), 1}, BLSKey: blsKey(v)})
	}
	for _, a := range c.Standby {
		lv = append(lv, &labi.Validator{Address: Addr(a), BFTWeight: 0, GeneratorKey: []byte{byte(a), 1}, BLSKey: []byte{}})
	}
	_, gens := liskbft.GetBFTValidatorAndGenerators(lv)
	return gens
}

type Case struct {
	K      string  `json:"k"`
	Batch  int     `json:"batch"`
	GH     uint32  `json:"gh"`
	Init   Change  `json:"init"`
	Blocks []Block `json:"blocks"`
	InitOK bool    `json:"initok"`
	Obs    []Obs   `json:"obs"`
	Commit bool    `json:"commit"` // commit the staged store after every block
}

func Addr(n uint32) []byte {
	a := make([]byte, 20)
	a[16], a[17], a[18], a[19] = byte(n>>24), byte(n>>16), byte(n>>8), byte(n)
	return a
}
func AddrN(a []byte) uint32 {
	return uint32(a[16])<<24 | uint32(a[17])<<16 | uint32(a[18])<<8 | uint32(a[19])
}

// Vals builds the validator list the way the consensus layer does: application validators (labi) through convert.go's
// GetBFTValidatorAndGenerators (zero weights occur in the harness only as invalid input and are passed on directly).
func Vals(vs []Val) liskbft.BFTValidators {
	lv := labi.Validators{}
	zero := false
	for _, v := range vs {
		lv = append(lv, &labi.Validator{Address: Addr(v.A), BFTWeight: v.W, GeneratorKey: []byte{byte(v.A), 1}, BLSKey: blsKey(v)})
		zero = zero || v.W == 0
	}
	if !zero {
		out, _ := liskbft.GetBFTValidatorAndGenerators(lv)
		return out
	}
	out := liskbft.BFTValidators{}
	for _, v := range vs {
		out = append(out, liskbft.NewValidator(Addr(v.A), v.W, blsKey(v)))
	}
	return out
}

var prefix = []byte{10}

// Node is one liskbft module over one database, as the consensus Executer uses it: blocks are applied one by one (each
// committed with its revert diff kept) and the newest one can be reverted again (RevertLast), which is what a chain switch does.
type Node struct {
	Batch  int
	commit bool
	m      *liskbft.Module
	dbase  *db.DB
	store  *diffdb.Database
	diffs  []*diffdb.Diff
	gh     uint32
}

func (n *Node) Close() { n.dbase.Close() }

func (n *Node) doCommit() {
	if !n.commit {
		return
	}
	batch := n.dbase.NewBatch()
	d := n.store.Commit(batch)
	n.dbase.Write(batch)
	n.diffs = append(n.diffs, d)
	n.store = diffdb.New(n.dbase, prefix)
}

// RevertLast undoes the newest committed block by applying its revert diff (only for nodes that commit per block).
func (n *Node) RevertLast() {
	d := n.diffs[len(n.diffs)-1]
	n.diffs = n.diffs[:len(n.diffs)-1]
	batch := n.dbase.NewBatch()
	n.store.RevertDiff(batch, d)
	n.dbase.Write(batch)
	n.store = diffdb.New(n.dbase, prefix)
}

// NewNode initialises genesis state and the initial parameters; ok=false if SetBFTParameters rejects them.
func NewNode(c *Case) (*Node, bool) {
	database, err := db.NewInMemoryDB()
	if err != nil {
		panic(err)
	}
	n := &Node{Batch: c.Batch, commit: c.Commit, m: liskbft.NewModule(), dbase: database, gh: c.GH}
	if err := n.m.Init(c.Batch); err != nil {
		panic(err)
	}
	n.store = diffdb.New(database, prefix)
	gen := &blockchain.BlockHeader{Height: c.GH, AggregateCommit: &blockchain.AggregateCommit{}}
	if err := n.m.InitGenesisState(gen.Readonly(), n.store); err != nil {
		panic(err)
	}
	if err := n.m.API().SetBFTParameters(n.store, c.Init.PC, c.Init.Cert, Vals(c.Init.Vals)); err != nil {
		return n, false
	}
	if err := n.m.API().SetGeneratorKeys(n.store, Generators(c.Init)); err != nil {
		panic(err)
	}
	n.doCommit()
	n.diffs = nil
	return n, true
}

// RunCase executes the blocks of c on the real module and fills c.Obs (stops at the first error).
func RunCase(c *Case) {
	n, ok := NewNode(c)
	defer n.Close()
	c.Obs = []Obs{}
	c.InitOK = ok
	if !ok {
		return
	}
	for _, b := range c.Blocks {
		o := n.Apply(b)
		c.Obs = append(c.Obs, o)
		if o.Err != 0 {
			return
		}
	}
}

// Apply processes one block like processValidated does with the BFT module and returns the observation.
func (n *Node) Apply(b Block) Obs {
	m := n.m
	store := n.store
	{
		// an EMPTY aggregate commit (no bits and no signature) leaves maxHeightCertified alone whatever height it names; any
		// other commit sets it: the three non-empty shapes (both parts, bits only, signature only) are rotated deterministically
		ac := &blockchain.AggregateCommit{Height: b.H / 2}
		if b.Cert != nil {
			switch (b.H + *b.Cert) % 3 {
			case 0:
				ac = &blockchain.AggregateCommit{Height: *b.Cert, AggregationBits: []byte{1}, CertificateSignature: []byte{1}}
			case 1:
				ac = &blockchain.AggregateCommit{Height: *b.Cert, AggregationBits: []byte{1}, CertificateSignature: []byte{}}
			default:
				ac = &blockchain.AggregateCommit{Height: *b.Cert, AggregationBits: []byte{}, CertificateSignature: []byte{1}}
			}
		}
		bh := &blockchain.BlockHeader{Version: 2, Height: b.H, MaxHeightGenerated: b.MHG, MaxHeightPrevoted: b.MHP,
			GeneratorAddress: Addr(b.Gen), AggregateCommit: ac}
		bh.Init()
		var o Obs
		contra, err := m.API().IsHeaderContradictingChain(store, bh.Readonly())
		if err != nil {
			panic(err)
		}
		o.Contra = contra
		if err := m.BeforeTransactionsExecute(bh.Readonly(), store); err != nil {
			o.Err = 1
			return o
		}
		imp, err := m.API().ImpliesMaximalPrevotes(store, bh.Readonly())
		switch {
		case err != nil:
			o.IMP = 2
		case imp:
			o.IMP = 1
		}
		if b.Chg != nil {
			if err := m.API().SetBFTParameters(store, b.Chg.PC, b.Chg.Cert, Vals(b.Chg.Vals)); err != nil {
				o.Err = 2
				return o
			}
			if err := m.API().SetGeneratorKeys(store, Generators(*b.Chg)); err != nil {
				panic(err)
			}
		}
		n.doCommit()
		store = n.store
		pv, pc, ct, err := m.API().GetBFTHeights(store)
		if err != nil {
			panic(err)
		}
		o.Heights = [3]uint32{pv, pc, ct}
		infos, act, err := liskbft.VerifC02DumpVotes(store)
		if err != nil {
			panic(err)
		}
		o.Infos = [][6]uint64{}
		for _, i := range infos {
			o.Infos = append(o.Infos, [6]uint64{uint64(i.Height), uint64(AddrN(i.Generator)), uint64(i.MaxHeightGenerated), uint64(i.MaxHeightPrevoted), i.PrevoteWeight, i.PrecommitWeight})
		}
		o.Act = [][3]uint32{}
		for _, a := range act {
			o.Act = append(o.Act, [3]uint32{AddrN(a.Address), a.MinActiveHeight, a.LargestHeightPrecommit})
		}
		o.PKeys = liskbft.VerifC02ParamHeights(store)
		if o.PKeys == nil {
			o.PKeys = []uint32{}
		}
		nx, err := m.API().NextHeightBFTParameters(store, b.H)
		if err != nil {
			o.Next = -1
		} else {
			o.Next = int64(nx)
		}
		o.GKeys = liskbft.VerifC02GeneratorKeyHeights(store)
		if o.GKeys == nil {
			o.GKeys = []uint32{}
		}
		oldest := b.H
		if len(o.Infos) > 0 {
			oldest = uint32(o.Infos[len(o.Infos)-1][0])
		}
		o.Gens = []GenProbe{}
		for _, h := range []uint32{b.H + 1, b.H, oldest} {
			gs, err := m.API().GetGeneratorKeys(store, h)
			p := GenProbe{H: h, Err: err != nil, Addrs: []uint32{}}
			for _, g := range gs {
				p.Addrs = append(p.Addrs, AddrN(g.Address()))
			}
			o.Gens = append(o.Gens, p)
		}
		// production asks at maxHeightCertified+1, where several pending changes may lie above: probe there and below the window
		o.Nexts = [][2]int64{}
		low := uint32(0)
		if oldest > 0 {
			low = oldest - 1
		}
		for _, h := range []uint32{b.H, low, o.Heights[2], o.Heights[2] + 1, 0} {
			ans := int64(-1)
			if v, err := m.API().NextHeightBFTParameters(store, h); err == nil {
				ans = int64(v)
			}
			o.Nexts = append(o.Nexts, [2]int64{int64(h), ans})
		}
		o.Params = []ParamProbe{}
		o.VHash = true
		for _, h := range []uint32{b.H + 1, b.H, oldest} {
			ps, err := m.API().GetBFTParameters(store, h)
			p := ParamProbe{H: h, Err: err != nil, Vals: [][2]uint64{}, Keys: []string{}}
			if err == nil {
				p.PV, p.PC, p.Cert = ps.PrevoteThreshold(), ps.PrecommitThreshold(), ps.CertificateThreshold()
				keys, ws := [][]byte{}, []uint64{}
				for _, v := range ps.Validators() {
					p.Vals = append(p.Vals, [2]uint64{uint64(AddrN(v.Address())), v.BFTWeight()})
					p.Keys = append(p.Keys, hex.EncodeToString(v.BLSKey()))
					keys = append(keys, v.BLSKey())
					ws = append(ws, v.BFTWeight())
				}
				if !bytes.Equal(ps.ValidatorsHash(), IndepValidatorsHash(keys, ws, p.Cert)) {
					o.VHash = false
				}
			}
			o.Params = append(o.Params, p)
		}
		o.At = [][2]uint32{}
		if gs, err := m.API().GetGeneratorKeys(store, b.H+1); err == nil && len(gs) > 0 {
			for _, sl := range []uint32{0, 1, uint32(len(gs)) - 1, uint32(len(gs)), b.H * 7, 429496729} {
				g, err := gs.AtTimestamp(slot10{}, sl*10+3)
				if err == nil {
					o.At = append(o.At, [2]uint32{sl, AddrN(g.Address())})
				}
			}
		}
		return o
	}
}
