// Package gsx holds the two-node sync scenario used by the C19 (and C15) drivers: a real exh node A whose chain is
// synchronised by the real sync.Syncer (fast_sync.go / block_sync.go / download.go) from a peer B reached over real
// loopback libp2p connections.  B serves the sync RPCs through the REAL handlers over its own real chain, wrapped by
// a script that can withhold, truncate or corrupt answers.
package gsx

import (
	"bytes"
	"context"
	"fmt"
	"strings"
	"time"

	"github.com/LiskHQ/lisk-engine/pkg/blockchain"
	"github.com/LiskHQ/lisk-engine/pkg/codec"
	csync "github.com/LiskHQ/lisk-engine/pkg/consensus/sync"
	"github.com/LiskHQ/lisk-engine/pkg/consensus/validator"
	"github.com/LiskHQ/lisk-engine/pkg/log"
	"github.com/LiskHQ/lisk-engine/pkg/p2p"

	"verifharness/internal/exh"
)

type SyncSpec struct {
	N            int    `json:"n"`                      // validators
	Prefix       int    `json:"prefix"`                 // common blocks after genesis
	Own          int    `json:"own"`                    // length of A's fork
	Peer         int    `json:"peer"`                   // length of B's fork
	Full         bool   `json:"full"`                   // all validators forge (finality advances); otherwise two of them (no finality)
	HCB          string `json:"hcb"`                    // honest | none | foreign | low
	Corrupt      int    `json:"corrupt"`                // index in the served stream of the corrupted block, -1 = none
	CorruptKind  string `json:"corruptkind"`            // sig (processing rejects) | static (Validate rejects)
	ErrAfter     int    `json:"errafter"`               // answer an error once this many blocks have been served, -1 = never
	ForkMode     string `json:"forkmode,omitempty"`     // "" = both forks like the prefix (Full); "peerfull" = own fork by two validators, peer's fork by all (better although shorter)
	NonValidator bool   `json:"nonvalidator,omitempty"` // the generator of the triggering block is not among the current validators handed to Sync
	Batch        int    `json:"batch,omitempty"`        // the peer serves at most this many blocks per getBlocksFromID response (0 = up to the 103 cap); still honest
	PeerCache    int    `json:"peercache,omitempty"`    // MaxBlockCache of the serving node (0 = default 515)
	PeerRevert   int    `json:"peerrevert,omitempty"`   // the serving node built this many more blocks and removed them again before serving (a deep revert when >= PeerCache)
	WithTxs      bool   `json:"withtxs,omitempty"`      // the peer's fork blocks carry transactions
	SlowFirst    int    `json:"slowfirst,omitempty"`    // the peer answers its first SlowFirst getBlocksFromID requests after 300 ms each (a slow link that recovers); the sync is started so that the recovery falls just after a rate-limiter tick
	Recent       bool   `json:"recent,omitempty"`       // genesis time such that the last block's slot is the current one (the finalized block is recent)
	// third node: the SENDER of the block that triggers the sync is not the best peer. It shares the prefix and the first
	// SenderShare blocks of our own fork, then has SenderOwn blocks of its own
	Sender      bool `json:"sender,omitempty"`
	SenderShare int  `json:"sendershare,omitempty"`
	SenderOwn   int  `json:"senderown,omitempty"`
	genesisTime uint32
	wd          time.Duration // watchdog per sync (0 = 12 s)
	Stall       string        `json:"stall,omitempty"` // instead of the error: "empty" = answer zero blocks forever, "repeat" = answer the first segment forever
	// optional second sync on the same node afterwards (a later block from the same peer): A first extends its chain by Own2
	// blocks; the peer then follows this script
	Second       bool   `json:"second,omitempty"`
	Own2         int    `json:"own2,omitempty"`
	HCB2         string `json:"hcb2,omitempty"`
	Corrupt2     int    `json:"corrupt2,omitempty"`
	CorruptKind2 string `json:"corruptkind2,omitempty"`
	ErrAfter2    int    `json:"errafter2,omitempty"`
	Stall2       string `json:"stall2,omitempty"`
}

// script of the peer for one sync
type peerScript struct {
	hcb         string
	corrupt     int
	corruptKind string
	errAfter    int
	stall       string
}

type SyncObs struct {
	Spec   SyncSpec `json:"spec"`
	Kind   string   `json:"kind"`   // fast | block
	Before []uint64 `json:"before"` // A's chain as codes, index = height
	After  []uint64 `json:"after"`
	Phase  int      `json:"phase"` // 1 = first sync of the scenario, 2 = second
	// ground truth of the scenario (independent of what the peers answered)
	PeerChain      []uint64    `json:"peerchain"`      // chain of the best peer (B)
	Honest         bool        `json:"honest"`         // the peers follow the protocol in this sync
	Better         bool        `json:"better"`         // B's tip has priority over ours: larger maxHeightPrevoted, or equal and higher
	ForkH          uint32      `json:"forkh"`          // height of the last block we share with B
	OwnH           uint32      `json:"ownh"`           // our tip height before
	BlockH         uint32      `json:"blockh"`         // height of the block that triggers the sync (the sender's tip)
	SlotGap        int         `json:"slotgap"`        // current slot - slot of our finalized block
	NVals          int         `json:"nvals"`          // len(CurrentValidators) handed to Sync
	PenOwn         int         `json:"penown"`         // penalty our gater added for the peers' address during the sync
	PenPeer        int         `json:"penpeer"`        // penalty the best peer's gater added for our address during the sync
	GenIsValidator bool        `json:"genisvalidator"` // the triggering block's generator is among them
	TempBefore     [][2]uint64 `json:"tempbefore"`     // (height, code) of A's temp blocks before this sync
	Finalized      uint32      `json:"finalized"`      // A's finalized height before
	TargetH        uint32      `json:"targeth"`
	Common         *uint64     `json:"common"`    // code of the ID B answered to getHighestCommonBlock (last answer), nil = none
	Delivered      []uint64    `json:"delivered"` // blocks that reached the syncer and passed Validate, in order
	Ending         string      `json:"ending"`    // ok | err | invalid
	Links          [][2]uint64 `json:"links"`     // (parent code, block code) of every honest block: the validity oracle
	FinAt          [][2]uint64 `json:"finat"`     // (block code, finalized height of its node right after the block was applied): finality as a function of the chain
	FinAfter       uint32      `json:"finafter"`  // our stored finalized height after the sync
	Err            string      `json:"err"`       // "" = Sync returned nil
	Banned         bool        `json:"banned"`
	TempAfter      [][2]uint64 `json:"tempafter"`        // (height, code) of A's temp blocks afterwards
	DBEqual        bool        `json:"dbequal"`          // A's whole database equals the one before
	DBDiff         []string    `json:"dbdiff,omitempty"` // differing keys (hex, at most 8) when the chain is unchanged but the database is not
	Hang           bool        `json:"hang,omitempty"`
	Retried        bool        `json:"retried,omitempty"` // the first run hit the watchdog; this is the second run with a 45 s limit
	Panic          string      `json:"panic,omitempty"`
	Fail           string      `json:"fail,omitempty"` // harness failure
	LowDeleted     bool        `json:"lowdeleted"`     // a block at or below the finalized height changed
}

type capWriter struct {
	wrote  bool
	data   []byte
	errSet error
}

func (w *capWriter) Write(d []byte)  { w.wrote = true; w.data = d }
func (w *capWriter) Error(err error) { w.errSet = err }

type coder struct {
	m    map[string]uint64
	next uint64
}

func (c *coder) of(id []byte) uint64 {
	if v, ok := c.m[string(id)]; ok {
		return v
	}
	c.next++
	c.m[string(id)] = c.next
	return c.next
}

func clone(b *blockchain.Block) *blockchain.Block {
	nb, err := blockchain.NewBlock(b.Encode())
	if err != nil {
		panic(err)
	}
	return nb
}

// nextBlock builds a valid successor on n; when !full only the first two validators ever forge.
func nextBlock(n *exh.Node, full bool, extraSkip int, txs ...*blockchain.Transaction) *blockchain.Block {
	skip := extraSkip
	if !full {
		for ; ; skip++ {
			last := n.Tip().Header
			ts := n.Exec.GetSlotTime(n.Slot(last.Timestamp) + 1 + skip)
			g := n.GeneratorAt(ts)
			if g != nil && g.Index < 2 {
				break
			}
		}
	}
	return n.NextValid(exh.Build{SkipSlots: skip, Txs: txs})
}

func chainCodes(n *exh.Node, c *coder) []uint64 {
	out := []uint64{}
	for h := uint32(0); h <= n.Tip().Header.Height; h++ {
		hd := n.HeaderAt(h)
		if hd == nil {
			out = append(out, 0)
			continue
		}
		out = append(out, c.of(hd.ID))
	}
	return out
}

func startConn(chainID []byte) (*p2p.Connection, error) {
	lg, _ := log.NewSilentLogger()
	conn := p2p.NewConnection(lg, &p2p.Config{ChainID: chainID, Addresses: []string{"/ip4/127.0.0.1/tcp/0"}})
	return conn, nil
}

func firstLine(v interface{}) string { return strings.SplitN(fmt.Sprint(v), "\n", 2)[0] }

// RunSync builds the scenario, runs A's Syncer once against B and reports the projected observation.
// pre, when non-nil, is called with node A after the chains are built and before the sync; after, when non-nil, once the
// sync returned (used by C15 to forge before and after a failing block sync).
func RunSync(spec SyncSpec, pre, after func(a *exh.Node)) SyncObs {
	all := RunSyncAll(spec, pre, after)
	return all[0]
}

// RunSyncAll returns one observation per sync of the scenario (two when spec.Second).
func RunSyncAll(spec SyncSpec, pre, after func(a *exh.Node)) []SyncObs {
	res := runSyncAll(spec, pre, after)
	for _, o := range res {
		if o.Hang && spec.wd == 0 {
			// a watchdog expiry may be machine load: the scenario is run once more with a much longer limit before a hang is reported
			spec.wd = 45 * time.Second
			res2 := runSyncAll(spec, pre, after)
			for i := range res2 {
				res2[i].Retried = true
			}
			return res2
		}
	}
	return res
}

func runSyncAll(spec SyncSpec, pre, after func(a *exh.Node)) (out []SyncObs) {
	var obs SyncObs
	defer func() {
		if len(out) == 0 {
			out = []SyncObs{obs}
		}
	}()
	obs = SyncObs{Spec: spec, Before: []uint64{}, After: []uint64{}, Delivered: []uint64{}, Links: [][2]uint64{}, TempAfter: [][2]uint64{}}
	if spec.Recent && spec.genesisTime == 0 {
		// first pass: measure how many slots the scenario needs, then rebuild it with the genesis that far in the past
		last, err := measureSlots(spec)
		if err != nil {
			obs.Fail = "measure: " + err.Error()
			return nil
		}
		spec2 := spec
		spec2.genesisTime = uint32(time.Now().Unix()) - uint32(last)*10 - 4 // now is 4 s into the slot of the newest block
		res := runSyncAll(spec2, pre, after)
		for i := range res {
			res[i].Spec = spec
		}
		return res
	}
	cd := &coder{m: map[string]uint64{}}
	a, b, c, links, finat, err := buildChains(spec, cd)
	if a != nil {
		defer a.DB.Close()
	}
	if b != nil {
		defer b.DB.Close()
	}
	if c != nil {
		defer c.DB.Close()
	}
	if err != nil {
		obs.Fail = err.Error()
		return nil
	}
	obs.Links = links
	obs.FinAt = finat
	link := func(blk *blockchain.Block) {
		obs.Links = append(obs.Links, [2]uint64{cd.of(blk.Header.PreviousBlockID), cd.of(blk.Header.ID)})
	}
	if pre != nil {
		pre(a)
	}

	// ---- peer B: real handlers over B's chain, wrapped by the script of the current phase
	lg, _ := log.NewSilentLogger()
	slot := validator.NewBlockSlot(a.Opt.GenesisTime, a.Opt.BlockTime)
	connA, _ := startConn(a.Opt.ChainID)
	connB, _ := startConn(a.Opt.ChainID)
	noProc := func(ctx context.Context, block *blockchain.Block, publish bool, removeTemp bool) error {
		return fmt.Errorf("not used")
	}
	noRev := func(ctx context.Context, deletingBlock *blockchain.Block, saveTemp bool) error {
		return fmt.Errorf("not used")
	}
	syncerB := csync.NewSyncer(b.Chain, slot, connB, lg, noProc, noRev)
	realLast := syncerB.HandleRPCEndpointGetLastBlock()
	realHCB := syncerB.HandleRPCEndpointGetHighestCommonBlock()
	realBFI := syncerB.HandleRPCEndpointGetBlocksFromID()
	type item struct {
		code   uint64
		static bool
	}
	var (
		sc       peerScript
		served   int
		stream   []item
		common   *uint64
		firstSeg []byte
	)
	_ = connB.RegisterRPCHandler(csync.RPCEndpointGetLastBlock, realLast)
	_ = connB.RegisterRPCHandler(csync.RPCEndpointGetHighestCommonBlock, func(w p2p.ResponseWriter, r *p2p.Request) {
		answer := func(id []byte) {
			c := cd.of(id)
			common = &c
			w.Write((&csync.GetHighestCommonBlockResponse{ID: id}).Encode())
		}
		switch sc.hcb {
		case "none":
			common = nil
			w.Write(nil)
			return
		case "foreign":
			answer(b.Tip().Header.ID)
			return
		case "low":
			answer(a.Genesis.Header.ID)
			return
		case "echo": // the first ID of the request itself: the requester's own tip, above our chain if we are shorter
			req := &csync.GetHighestCommonBlockRequest{}
			if err := req.Decode(r.Data); err == nil && len(req.IDs) > 0 {
				answer(req.IDs[0])
				return
			}
			w.Write(nil)
			return
		}
		cw := &capWriter{}
		realHCB(cw, r)
		common = nil
		if cw.wrote && len(cw.data) > 0 {
			resp := &csync.GetHighestCommonBlockResponse{}
			if err := resp.Decode(cw.data); err == nil {
				c := cd.of(resp.ID)
				common = &c
			}
		}
		if cw.errSet != nil {
			w.Error(cw.errSet)
			return
		}
		if cw.wrote {
			w.Write(cw.data)
		}
	})
	bfiRequests := 0
	_ = connB.RegisterRPCHandler(csync.RPCEndpointGetBlocksFromID, func(w p2p.ResponseWriter, r *p2p.Request) {
		bfiRequests++
		if bfiRequests <= spec.SlowFirst {
			time.Sleep(300 * time.Millisecond)
		}
		if sc.errAfter >= 0 && served >= sc.errAfter {
			switch sc.stall {
			case "empty": // a well-formed response that decodes to zero blocks
				w.Write([]byte{0x10, 0x00})
			case "repeat": // the first segment again, whatever was asked
				if firstSeg == nil {
					w.Write([]byte{0x10, 0x00})
				} else {
					w.Write(firstSeg)
				}
			default:
				w.Error(fmt.Errorf("scripted peer: no more blocks"))
			}
			return
		}
		cw := &capWriter{}
		realBFI(cw, r)
		if cw.errSet != nil || !cw.wrote {
			if cw.errSet != nil {
				w.Error(cw.errSet)
			}
			return
		}
		resp := &csync.GetBlocksFromIDResponse{}
		if err := resp.Decode(cw.data); err != nil {
			w.Error(err)
			return
		}
		outBlocks := []*blockchain.Block{}
		for bi, blk := range resp.Blocks {
			if sc.errAfter >= 0 && served >= sc.errAfter {
				break
			}
			if spec.Batch > 0 && bi >= spec.Batch {
				break
			}
			blk.Init()
			it := item{}
			if served == sc.corrupt {
				if sc.corruptKind == "static" {
					blk.Header.Signature = codec.Hex{1, 2, 3}
					it.static = true
				} else {
					sig := append([]byte{}, blk.Header.Signature...)
					sig[5] ^= 0x40
					blk.Header.Signature = sig
				}
				blk.Header.Init()
			}
			it.code = cd.of(blk.Header.ID)
			stream = append(stream, it)
			outBlocks = append(outBlocks, blk)
			served++
		}
		data := (&csync.GetBlocksFromIDResponse{Blocks: outBlocks}).Encode()
		if firstSeg == nil && len(outBlocks) > 0 {
			firstSeg = data
		}
		w.Write(data)
	})

	// ---- node A: the real Syncer over A's chain, processing / reverting through A's real Executer
	proc := func(ctx context.Context, block *blockchain.Block, publish bool, removeTemp bool) error {
		return a.Exec.VerifC03ProcessValidated(ctx, block, false, removeTemp)
	}
	rev := func(ctx context.Context, block *blockchain.Block, saveTemp bool) error {
		return a.Exec.VerifC03DeleteBlock(ctx, block, saveTemp)
	}
	syncerA := csync.NewSyncer(a.Chain, slot, connA, lg, proc, rev)
	// the requester must know the procedures as well: a response for an unregistered procedure gets the peer banned
	_ = connA.RegisterRPCHandler(csync.RPCEndpointGetLastBlock, syncerA.HandleRPCEndpointGetLastBlock())
	_ = connA.RegisterRPCHandler(csync.RPCEndpointGetHighestCommonBlock, syncerA.HandleRPCEndpointGetHighestCommonBlock())
	_ = connA.RegisterRPCHandler(csync.RPCEndpointGetBlocksFromID, syncerA.HandleRPCEndpointGetBlocksFromID())
	if err := connA.Start([]byte{}); err != nil {
		obs.Fail = "start A: " + err.Error()
		return nil
	}
	defer connA.Stop() //nolint:errcheck
	startB := time.Now()
	if err := connB.Start([]byte{}); err != nil {
		obs.Fail = "start B: " + err.Error()
		return nil
	}
	defer connB.Stop() //nolint:errcheck
	addrs, err := connB.Peer.MultiAddress()
	if err != nil || len(addrs) == 0 {
		obs.Fail = "B has no address"
		return nil
	}
	info, err := p2p.AddrInfoFromMultiAddr(addrs[0])
	if err != nil {
		obs.Fail = "addr: " + err.Error()
		return nil
	}
	if err := connA.Peer.Connect(context.Background(), *info); err != nil {
		obs.Fail = "connect: " + err.Error()
		return nil
	}
	sender, senderNode := connB.Peer.ID(), b
	if c != nil {
		// the sender C: an honest node serving its own chain through the real handlers
		connC, _ := startConn(a.Opt.ChainID)
		syncerC := csync.NewSyncer(c.Chain, slot, connC, lg, noProc, noRev)
		_ = connC.RegisterRPCHandler(csync.RPCEndpointGetLastBlock, syncerC.HandleRPCEndpointGetLastBlock())
		_ = connC.RegisterRPCHandler(csync.RPCEndpointGetHighestCommonBlock, syncerC.HandleRPCEndpointGetHighestCommonBlock())
		_ = connC.RegisterRPCHandler(csync.RPCEndpointGetBlocksFromID, syncerC.HandleRPCEndpointGetBlocksFromID())
		if err := connC.Start([]byte{}); err != nil {
			obs.Fail = "start C: " + err.Error()
			return nil
		}
		defer connC.Stop() //nolint:errcheck
		addrsC, err := connC.Peer.MultiAddress()
		if err != nil || len(addrsC) == 0 {
			obs.Fail = "C has no address"
			return nil
		}
		infoC, err := p2p.AddrInfoFromMultiAddr(addrsC[0])
		if err != nil {
			obs.Fail = "addr C: " + err.Error()
			return nil
		}
		if err := connA.Peer.Connect(context.Background(), *infoC); err != nil {
			obs.Fail = "connect C: " + err.Error()
			return nil
		}
		sender, senderNode = connC.Peer.ID(), c
	}
	vals := make([]codec.Lisk32, 0, spec.N)
	for _, ad := range a.GeneratorAddrs() {
		vals = append(vals, ad)
	}
	tempOf := func() [][2]uint64 {
		res := [][2]uint64{}
		if tb, err := a.Chain.DataAccess().GetTempBlocks(); err == nil {
			blockchain.SortBlockByHeightAsc(tb)
			for _, t := range tb {
				res = append(res, [2]uint64{uint64(t.Header.Height), cd.of(t.Header.ID)})
			}
		}
		return res
	}

	phases := []peerScript{{hcb: spec.HCB, corrupt: spec.Corrupt, corruptKind: spec.CorruptKind, errAfter: spec.ErrAfter, stall: spec.Stall}}
	if spec.Second {
		phases = append(phases, peerScript{hcb: spec.HCB2, corrupt: spec.Corrupt2, corruptKind: spec.CorruptKind2, errAfter: spec.ErrAfter2, stall: spec.Stall2})
	}
	bannedBefore := false
	for ph, script := range phases {
		if ph == 1 {
			for i := 0; i < spec.Own2; i++ {
				blk := nextBlock(a, spec.Full, 2*spec.N) // later slots than the peer's blocks at these heights: different blocks
				if r := a.ProcessValidated(blk, false); !r.OK() {
					obs.Fail = fmt.Sprintf("own2 block %d: %v %s", i, r.Err, r.Panic)
					out = append(out, obs)
					return out
				}
				link(blk)
				f2, _ := a.Finalized()
				obs.FinAt = append(obs.FinAt, [2]uint64{cd.of(blk.Header.ID), uint64(f2)})
			}
			if bannedBefore { // the first sync banned the peer: no second sync with it
				return out
			}
		}
		obs = SyncObs{Spec: spec, Phase: ph + 1, Before: []uint64{}, After: []uint64{}, Delivered: []uint64{}, Links: obs.Links, FinAt: obs.FinAt, TempAfter: [][2]uint64{}}
		sc, served, stream, common, firstSeg = script, 0, nil, nil, nil
		fin, err := a.Finalized()
		if err != nil {
			obs.Fail = "finalized: " + err.Error()
			out = append(out, obs)
			return out
		}
		obs.Finalized = fin
		obs.Before = chainCodes(a, cd)
		obs.TempBefore = tempOf()
		obs.TargetH = senderNode.Tip().Header.Height
		obs.PeerChain = chainCodes(b, cd)
		obs.Honest = script.hcb == "honest" && script.corrupt < 0 && script.errAfter < 0
		at, bt := a.Tip().Header, b.Tip().Header
		amhp, _, _ := a.Heights()
		bmhp, _, _ := b.Heights()
		_ = amhp
		_ = bmhp
		obs.Better = at.MaxHeightPrevoted < bt.MaxHeightPrevoted || (at.MaxHeightPrevoted == bt.MaxHeightPrevoted && at.Height < bt.Height)
		obs.ForkH = 0
		for h := uint32(0); h <= at.Height && h <= bt.Height; h++ {
			ha, hb := a.HeaderAt(h), b.HeaderAt(h)
			if ha == nil || hb == nil || !bytes.Equal(ha.ID, hb.ID) {
				break
			}
			obs.ForkH = h
		}
		obs.OwnH, obs.BlockH = at.Height, senderNode.Tip().Header.Height
		obs.SlotGap = a.Slot(uint32(time.Now().Unix())) - a.Slot(a.HeaderAt(fin).Timestamp)
		diff := int(senderNode.Tip().Header.Height) - int(a.Tip().Header.Height)
		if diff < 0 {
			diff = -diff
		}
		if diff <= 2*spec.N {
			obs.Kind = "fast"
		} else {
			obs.Kind = "block"
		}
		finHeader := a.HeaderAt(fin)
		lowBefore := [][]byte{}
		for h := uint32(0); h <= fin; h++ {
			lowBefore = append(lowBefore, a.HeaderAt(h).ID)
		}
		dumpBeforeKV := a.Dump()
		penOwn0, penPeer0 := connA.Peer.VerifC19PenaltyScore("127.0.0.1"), connB.Peer.VerifC19PenaltyScore("127.0.0.1")
		if spec.SlowFirst > 0 {
			// the slow phase takes SlowFirst * 0.3 s; let the fast phase begin 0.3 s after a tick of the 10 s rate-limiter interval
			slow := time.Duration(spec.SlowFirst) * 300 * time.Millisecond
			since := time.Since(startB) % (10 * time.Second)
			wait := (20*time.Second + 300*time.Millisecond - slow - since) % (10 * time.Second)
			time.Sleep(wait)
		}
		wd := spec.wd
		if wd == 0 {
			wd = 12 * time.Second
		}
		if spec.Batch > 0 { // one request per Batch blocks at 10 requests per second
			wd += time.Duration(spec.Peer/spec.Batch)*150*time.Millisecond + time.Duration(spec.SlowFirst)*400*time.Millisecond + 10*time.Second
		}
		ctx, cancel := context.WithTimeout(context.Background(), 2*wd+time.Second)
		curVals := vals
		if spec.NonValidator {
			// the generator's address is replaced by a foreign one: the number of validators (the two- and three-round
			// thresholds) stays the same, only the membership of the generator changes
			curVals = []codec.Lisk32{}
			for _, ad := range vals {
				if bytes.Equal(ad, senderNode.Tip().Header.GeneratorAddress) {
					curVals = append(curVals, codec.Lisk32(bytes.Repeat([]byte{0xee}, len(ad))))
				} else {
					curVals = append(curVals, ad)
				}
			}
		}
		obs.NVals, obs.GenIsValidator = len(curVals), !spec.NonValidator
		sctx := &csync.SyncContext{Ctx: ctx, Block: clone(senderNode.Tip()), FinalizedBlockHeader: finHeader, PeerID: sender, CurrentValidators: curVals}
		done := make(chan string, 1)
		go func() {
			defer func() {
				if r := recover(); r != nil {
					done <- "PANIC " + firstLine(r)
				}
			}()
			if err := syncerA.Sync(sctx); err != nil {
				done <- "ERR " + firstLine(err)
				return
			}
			done <- ""
		}()
		hang := false
		select {
		case res := <-done:
			if strings.HasPrefix(res, "PANIC ") {
				obs.Panic = res[6:]
			} else if strings.HasPrefix(res, "ERR ") {
				obs.Err = res[4:]
			}
		case <-time.After(wd):
			hang = true
		}
		cancel()
		if hang {
			obs.Hang = true
			out = append(out, obs)
			return out
		}
		// delivered blocks / ending, as the downloader consumed them
		obs.Common = common
		obs.Ending = "ok"
		target := cd.of(b.Tip().Header.ID)
		reached := false
		for _, it := range stream {
			if it.static {
				obs.Ending = "invalid"
				break
			}
			obs.Delivered = append(obs.Delivered, it.code)
			if it.code == target {
				reached = true
				break
			}
		}
		if obs.Ending == "ok" && !reached {
			obs.Ending = "err"
		}
		obs.After = chainCodes(a, cd)
		obs.Banned = len(connA.Peer.BlacklistedPeers()) > 0
		bannedBefore = obs.Banned
		obs.TempAfter = tempOf()
		obs.PenOwn, obs.PenPeer = connA.Peer.VerifC19PenaltyScore("127.0.0.1")-penOwn0, connB.Peer.VerifC19PenaltyScore("127.0.0.1")-penPeer0
		// byte-identical up to the temp table (observed separately) and what finality legitimately changes: blocks applied and removed again may have advanced the
		// finalized height (never rolled back, key 1b) which prunes the state diffs (prefix 33) at or below it
		dumpAfterKV := a.Dump()
		finAfter, _ := a.Finalized()
		obs.FinAfter = finAfter
		present := map[string]bool{}
		for _, kv := range dumpAfterKV {
			present[kv.K] = true
		}
		obs.DBEqual = true
		for _, k := range exh.DiffKeys(dumpBeforeKV, dumpAfterKV) {
			if k == "1b" || strings.HasPrefix(k, "07") { // temp blocks are compared separately (TempAfter)
				continue
			}
			if strings.HasPrefix(k, "33") && len(k) == 10 && !present[k] {
				var h uint64
				fmt.Sscanf(k[2:], "%x", &h)
				if uint32(h) <= finAfter {
					continue
				}
			}
			obs.DBEqual = false
			if len(obs.DBDiff) < 8 {
				obs.DBDiff = append(obs.DBDiff, k)
			}
		}
		for h := uint32(0); h <= fin; h++ {
			hd := a.HeaderAt(h)
			if hd == nil || !bytes.Equal(hd.ID, lowBefore[h]) {
				obs.LowDeleted = true
			}
		}
		out = append(out, obs)
		if ph == 0 && after != nil {
			after(a)
		}
	}
	return out
}

// buildChains creates node A (prefix + own fork), the best peer B (prefix + peer fork) and, if asked, the sender C.
func buildChains(spec SyncSpec, cd *coder) (a, b, c *exh.Node, links, finat [][2]uint64, err error) {
	links, finat = [][2]uint64{}, [][2]uint64{}
	fin := func(n *exh.Node, blk *blockchain.Block) {
		f, _ := n.Finalized()
		finat = append(finat, [2]uint64{cd.of(blk.Header.ID), uint64(f)})
	}
	a, err = exh.New(exh.Options{N: spec.N, GenesisTime: spec.genesisTime})
	if err != nil {
		return
	}
	b, err = exh.New(exh.Options{N: spec.N, GenesisTime: a.Opt.GenesisTime, MaxBlockCache: spec.PeerCache})
	if err != nil {
		return
	}
	if !bytes.Equal(a.Genesis.Header.ID, b.Genesis.Header.ID) {
		err = fmt.Errorf("genesis blocks differ")
		return
	}
	nodes := []*exh.Node{a, b}
	if spec.Sender {
		c, err = exh.New(exh.Options{N: spec.N, GenesisTime: a.Opt.GenesisTime})
		if err != nil {
			return
		}
		nodes = append(nodes, c)
	}
	link := func(blk *blockchain.Block) {
		links = append(links, [2]uint64{cd.of(blk.Header.PreviousBlockID), cd.of(blk.Header.ID)})
	}
	ownFull, peerFull := spec.Full, spec.Full
	if spec.ForkMode == "peerfull" {
		ownFull, peerFull = false, true
	}
	cd.of(a.Genesis.Header.ID)
	for i := 0; i < spec.Prefix; i++ {
		blk := nextBlock(a, spec.Full, 0)
		for ni, n := range nodes {
			if r := n.ProcessValidated(clone(blk), false); !r.OK() {
				err = fmt.Errorf("prefix block %d on node %d: %v %s", i, ni, r.Err, r.Panic)
				return
			}
		}
		link(blk)
		fin(a, blk)
	}
	for i := 0; i < spec.Own; i++ {
		blk := nextBlock(a, ownFull, 0)
		if r := a.ProcessValidated(blk, false); !r.OK() {
			err = fmt.Errorf("own block %d: %v %s", i, r.Err, r.Panic)
			return
		}
		if c != nil && i < spec.SenderShare {
			if r := c.ProcessValidated(clone(blk), false); !r.OK() {
				err = fmt.Errorf("shared block %d on the sender: %v %s", i, r.Err, r.Panic)
				return
			}
		}
		link(blk)
		fin(a, blk)
	}
	for i := 0; i < spec.Peer; i++ {
		extra := 0
		if i == 0 {
			extra = spec.N // same generator, a later slot: a different block at the same height
			if spec.ForkMode == "peerfull" {
				extra = 0 // the generators differ anyway; keep the slots dense
			}
		}
		var txs []*blockchain.Transaction
		if spec.WithTxs {
			txs = []*blockchain.Transaction{exh.MakeTx(uint64(1000+i), 10+i%5), exh.MakeTx(uint64(2000+i), 3)}
		}
		blk := nextBlock(b, peerFull, extra, txs...)
		if r := b.ProcessValidated(blk, false); !r.OK() {
			err = fmt.Errorf("peer block %d: %v %s", i, r.Err, r.Panic)
			return
		}
		link(blk)
		fin(b, blk)
	}
	// the serving node once was on a longer branch and reverted it (more blocks than its block cache holds)
	for i := 0; i < spec.PeerRevert; i++ {
		blk := nextBlock(b, peerFull, 0)
		if r := b.ProcessValidated(blk, false); !r.OK() {
			err = fmt.Errorf("peer extra block %d: %v %s", i, r.Err, r.Panic)
			return
		}
	}
	for i := 0; i < spec.PeerRevert; i++ {
		if r := b.DeleteBlock(b.Tip(), false); !r.OK() {
			if strings.Contains(fmt.Sprint(r.Err), "already finalized") {
				break // finality caught up: the branch cannot be reverted any further
			}
			err = fmt.Errorf("peer revert %d: %v %s", i, r.Err, r.Panic)
			return
		}
	}
	if c != nil {
		for i := 0; i < spec.SenderOwn; i++ {
			extra := 0
			if i == 0 {
				extra = 2 * spec.N
			}
			blk := nextBlock(c, spec.Full, extra)
			if r := c.ProcessValidated(blk, false); !r.OK() {
				err = fmt.Errorf("sender block %d: %v %s", i, r.Err, r.Panic)
				return
			}
			link(blk)
			fin(c, blk)
		}
	}
	return
}

// measureSlots builds the chains once and returns the largest slot number used by any block.
func measureSlots(spec SyncSpec) (int, error) {
	cd := &coder{m: map[string]uint64{}}
	spec.genesisTime = 0
	a, b, c, _, _, err := buildChains(spec, cd)
	last := 0
	for _, n := range []*exh.Node{a, b, c} {
		if n != nil {
			if s := n.Slot(n.Tip().Header.Timestamp); s > last {
				last = s
			}
			n.DB.Close()
		}
	}
	return last, err
}
