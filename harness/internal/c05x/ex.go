package c05x

// Record types and projections of the Executer-level C05 driver (cmd/c05e).

import (
	"bytes"
	"crypto/sha256"
	"encoding/json"
	"sort"
	"strconv"
	"strings"

	"github.com/LiskHQ/lisk-engine/pkg/consensus/liskbft"
	"github.com/LiskHQ/lisk-engine/pkg/db"
	"github.com/LiskHQ/lisk-engine/pkg/db/diffdb"
)

type EApply struct {
	Op         string  `json:"op"`
	Pre        []KV    `json:"pre"`
	Post       []KV    `json:"post"`
	Blk        BlkObs  `json:"blk"`
	NEvents    int     `json:"n_events"`
	RemoveTemp bool    `json:"remove_temp"`
	FhPre      int64   `json:"fh_pre"`
	FhPost     int64   `json:"fh_post"`
	ValChange  bool    `json:"val_change"`
	Sibling    bool    `json:"sibling"`
	Reapply    bool    `json:"reapply"`
	VotesPre   string  `json:"votes_pre"`
	VotesPost  string  `json:"votes_post"`
	Err        string  `json:"err"`
	Panic      string  `json:"panic"`
	TipAfter   *TipObs `json:"tip_after"`
}

// ERestart2: a restart step inside a history (exh.Node.Restart: close + reopen the database, new Chain + Executer, Init
// incl. PrepareCache); the deletes that follow take their blocks from the cache PrepareCache filled.
type ERestartStep struct {
	Op       string  `json:"op"`
	Pre      []KV    `json:"pre"`
	Post     []KV    `json:"post"`
	Err      string  `json:"err"`
	Panic    string  `json:"panic"`
	TipAfter *TipObs `json:"tip_after"`
}

type EDelete struct {
	Op             string   `json:"op"`
	Pre            []KV     `json:"pre"`
	Post           []KV     `json:"post"`
	Blk            BlkObs   `json:"blk"`
	SaveTemp       bool     `json:"save_temp"`
	Height         uint32   `json:"height"`
	ID             string   `json:"id"`
	FhPre          int64    `json:"fh_pre"`
	BelowFinalized bool     `json:"below_finalized"`
	Err            string   `json:"err"`
	Panic          string   `json:"panic"`
	TipAfter       *TipObs  `json:"tip_after"`
	VotesPre       string   `json:"votes_pre"`
	VotesPost      string   `json:"votes_post"`
	TempIDs        []string `json:"temp_ids"`
	TempOK         *bool    `json:"temp_ok"`
	FlushDiff      []string `json:"flush_diff"` // keys reading differently after a forced memtable flush (nil: no flush forced)
}

type ETwin struct {
	B       *BlkObs  `json:"b"`
	B2      *BlkObs  `json:"b2"`
	FhBPre  int64    `json:"fh_b_pre"`
	FhBPost int64    `json:"fh_b_post"`
	Keep    int      `json:"keep"`
	A0      []KV     `json:"a0"` // node A just before B is applied
	T0      []KV     `json:"t0"` // twin after replaying the surviving chain, before B'
	A       []KV     `json:"a"`
	T       []KV     `json:"t"`
	FhB2A   int64    `json:"fh_b2_post_a"` // finalized height of A after B'
	FhB2T   int64    `json:"fh_b2_post_t"`
	ErrA    []string `json:"err_a"`
	ErrT    []string `json:"err_t"`
	TipA    *TipObs  `json:"tip_a"`
	TipT    *TipObs  `json:"tip_t"`
	VotesA  string   `json:"votes_a"`
	VotesT  string   `json:"votes_t"`
}

type ERestart struct {
	Err   *string `json:"err"`
	Tip   *TipObs `json:"tip"`
	DBTip *TipObs `json:"db_tip"`
}

type EHist struct {
	K              string        `json:"k"`
	Seed           uint64        `json:"seed"`
	Idx            uint64        `json:"idx"`
	GenesisTime    uint32        `json:"genesis_time"`
	Keep           int           `json:"keep"`
	MaxCache       int           `json:"maxcache"`
	NVals          int           `json:"nvals"`
	Steps          []interface{} `json:"steps"`
	Twin           *ETwin        `json:"twin"`
	Restart        *ERestart     `json:"restart"`
	FlushEvery     bool          `json:"flush_every"`
	FinalFlushDiff []string      `json:"final_flush_diff"`
}

type EDup struct {
	K               string   `json:"k"`
	Seed            uint64   `json:"seed"`
	Idx             uint64   `json:"idx"`
	GenesisTime     uint32   `json:"genesis_time"`
	Keep            int      `json:"keep"`
	MaxCache        int      `json:"maxcache"`
	T               string   `json:"t"`
	Apply1          *EApply  `json:"apply1"`
	Apply2          *EApply  `json:"apply2"`
	Accepted        bool     `json:"accepted"`
	Err             string   `json:"err"`
	Delete2         *EDelete `json:"delete2"`
	TxRecordPresent bool     `json:"tx_record_present"`
	GetB1Fresh      string   `json:"get_b1_fresh"`
	RestartErr      *string  `json:"restart_err"`
	RestartTip      *TipObs  `json:"restart_tip"`
	DBTip           *TipObs  `json:"db_tip"`
}

// EIn is what a replay input record must carry.
type EIn struct {
	K           string `json:"k"`
	Seed        uint64 `json:"seed"`
	Idx         uint64 `json:"idx"`
	GenesisTime uint32 `json:"genesis_time"`
}

// DumpCanon is Dump with the values under the state-diff prefix (33|height) canonicalised: consensusStore.Commit lists
// the added/updated/deleted entries in Go map order, so the stored bytes differ from run to run; the lists are put in key
// order (same multiset). nonCanon counts the records whose stored bytes were not already in that order (diagnostic only).
func DumpCanon(d *db.DB) (out []KV, nonCanon int) {
	out = Dump(d)
	for i, kv := range out {
		if !strings.HasPrefix(kv[0], "33") {
			continue
		}
		raw := Unhex(kv[1])
		canon, ok := CanonDiffBytes(raw)
		if !ok {
			continue // not a well-formed record: left as stored, the checks will see it
		}
		if c := Hex(canon); c != kv[1] {
			out[i][1] = c
			nonCanon++
		}
	}
	return out, nonCanon
}

// CanonDiffBytes reorders a stored diff record WITHOUT the implementation's codec: the record is a sequence of
// length-delimited fields (tag = fieldNumber<<3|2, varint length, payload); the entries of each field number 1..3 are
// sorted by their key (field 1: the payload itself; fields 2, 3: the payload's own first field) and re-emitted byte for
// byte, field 1 first. Anything else (other wire types, field numbers, truncated input) makes it answer false.
func CanonDiffBytes(raw []byte) ([]byte, bool) {
	type entry struct{ key, whole []byte }
	uvarint := func(b []byte) (uint64, int) {
		var x uint64
		for i := 0; i < len(b) && i < 10; i++ {
			x |= uint64(b[i]&0x7f) << (7 * uint(i))
			if b[i] < 0x80 {
				return x, i + 1
			}
		}
		return 0, 0
	}
	field := func(b []byte) (num uint64, payload, whole []byte, ok bool) {
		tag, n := uvarint(b)
		if n == 0 || tag&7 != 2 {
			return 0, nil, nil, false
		}
		ln, m := uvarint(b[n:])
		if m == 0 || uint64(len(b)-n-m) < ln {
			return 0, nil, nil, false
		}
		end := n + m + int(ln)
		return tag >> 3, b[n+m : end], b[:end], true
	}
	groups := map[uint64][]entry{}
	for rest := raw; len(rest) > 0; {
		num, payload, whole, ok := field(rest)
		if !ok || num < 1 || num > 3 {
			return nil, false
		}
		key := payload
		if num != 1 {
			key = []byte{}
			if len(payload) > 0 {
				kn, kp, _, ok := field(payload)
				if !ok {
					return nil, false
				}
				if kn == 1 {
					key = kp
				}
			}
		}
		groups[num] = append(groups[num], entry{key, whole})
		rest = rest[len(whole):]
	}
	out := make([]byte, 0, len(raw))
	for num := uint64(1); num <= 3; num++ {
		es := groups[num]
		sort.SliceStable(es, func(i, j int) bool { return bytes.Compare(es[i].key, es[j].key) < 0 })
		for _, e := range es {
			out = append(out, e.whole...)
		}
	}
	return out, true
}

// VotesDigest = sha256 of a canonical JSON of the decoded BFTVotes read through a (fresh, never committed) staged view.
func VotesDigest(store *diffdb.Database) (dg string) {
	defer func() {
		if r := recover(); r != nil {
			dg = "panic"
		}
	}()
	infos, act, err := liskbft.VerifC02DumpVotes(store)
	e := ""
	if err != nil {
		e = err.Error()
	}
	raw, jerr := json.Marshal(struct {
		Infos  []liskbft.VerifC02Info
		Active []liskbft.VerifC02Active
		Err    string
	}{infos, act, e})
	Must(jerr)
	sum := sha256.Sum256(raw)
	return Hex(sum[:])
}

// Lookup returns the value stored under a hex key in a dump.
func Lookup(d []KV, key string) *string {
	for _, kv := range d {
		if kv[0] == key {
			return Str(kv[1])
		}
	}
	return nil
}

// HeightKey = hex of prefix|bigendian(height).
func HeightKey(prefix string, h uint32) string {
	s := strconv.FormatUint(uint64(h), 16)
	return prefix + strings.Repeat("0", 8-len(s)) + s
}

// DBTip reads the tip from a dump: the largest key 04|height.
func DBTip(d []KV) *TipObs {
	var t *TipObs
	for _, kv := range d {
		if strings.HasPrefix(kv[0], "04") && len(kv[0]) == 10 {
			h, err := strconv.ParseUint(kv[0][2:], 16, 32)
			Must(err)
			t = &TipObs{ID: kv[1], Height: uint32(h)}
		}
	}
	return t
}

// RestartClass maps an Init error to a small enum.
func RestartClass(err error) *string {
	if err == nil {
		return nil
	}
	m := err.Error()
	if strings.Contains(m, "not found") || strings.Contains(m, "does not exist") {
		return Str("notfound")
	}
	return Str("other:" + m)
}
