// Package c05x holds the record types, projection helpers and generators of the C05 driver (cmd/c05).
package c05x

import (
	"encoding/hex"
	"encoding/json"
	"sort"
	"strings"

	"github.com/LiskHQ/lisk-engine/pkg/blockchain"
	"github.com/LiskHQ/lisk-engine/pkg/collection/bytes"
	"github.com/LiskHQ/lisk-engine/pkg/db"
	"github.com/LiskHQ/lisk-engine/pkg/db/diffdb"
)

type KV = [2]string

type TipObs struct {
	ID     string `json:"id"`
	Height uint32 `json:"height"`
	// BodyOK: the cached tip block (header, transactions, assets) encodes to the same bytes as the block a fresh
	// DataAccess reads from the database under that id (nil when not evaluated)
	BodyOK *bool `json:"body_ok,omitempty"`
}

type BlkObs struct {
	ID     string  `json:"id"`
	Height uint32  `json:"height"`
	Header string  `json:"header"`
	Txs    []KV    `json:"txs"`
	Assets *string `json:"assets"`
	Events *string `json:"events"`
	Block  string  `json:"block"`
}

type DiffObs struct {
	Added   []string `json:"added"`
	Updated []KV     `json:"updated"`
	Deleted []KV     `json:"deleted"`
}

type ApplyStep struct {
	Op         string     `json:"op"`
	Pre        []KV       `json:"pre"`
	Post       []KV       `json:"post"`
	Blk        BlkObs     `json:"blk"`
	EventsList []string   `json:"events_list"`
	FhPre      *uint32    `json:"fh_pre"`
	Fh         uint32     `json:"fh"`
	RemoveTemp bool       `json:"remove_temp"`
	DupTx      bool       `json:"dup_tx"`
	Reapply    bool       `json:"reapply"`
	Staged     [][]string `json:"staged"`
	Diff       *DiffObs   `json:"diff"`
	DiffRT     bool       `json:"diff_enc_roundtrip"`
	Pruned     *uint32    `json:"pruned_diff_below"`
	Err        *string    `json:"err"`
	Panic      string     `json:"panic,omitempty"`
	TipAfter   *TipObs    `json:"tip_after"`
}

// RestartStep: a fresh Chain over the same database, Init + PrepareCache (what a process restart does); the following
// deletes take their blocks from the cache PrepareCache filled.
type RestartStep struct {
	Op       string  `json:"op"`
	Pre      []KV    `json:"pre"`
	Post     []KV    `json:"post"`
	Err      *string `json:"err"`
	Panic    string  `json:"panic,omitempty"`
	TipAfter *TipObs `json:"tip_after"`
}

type DeleteStep struct {
	Op        string  `json:"op"`
	Pre       []KV    `json:"pre"`
	Post      []KV    `json:"post"`
	SaveTemp  bool    `json:"save_temp"`
	Height    uint32  `json:"height"`
	ID        string  `json:"id"`
	FhPre     *uint32 `json:"fh_pre"`
	Finalized bool    `json:"finalized_guard"` // Executer.deleteBlock would have refused (height <= finalized); not enforced here
	Enforce   bool    `json:"enforce_guard"`   // input: refuse the delete like Executer.deleteBlock when the guard holds
	// FlushDiff: keys whose value differs between the dump right after the step and the dump after a memtable flush
	// (what a restarted node reads); nil when no flush was forced after this step
	FlushDiff []string `json:"flush_diff"`
	DiffFound bool     `json:"diff_found"`
	Err       *string  `json:"err"`
	Panic     string   `json:"panic,omitempty"`
	TipAfter  *TipObs  `json:"tip_after"`
	TempIDs   []string `json:"temp_ids"`
	TempOK    *bool    `json:"temp_ok"`
}

// DiffDumps lists the keys whose value differs between two dumps.
func DiffDumps(a, b []KV) []string {
	ma, out := map[string]string{}, []string{}
	seen := map[string]bool{}
	for _, kv := range a {
		ma[kv[0]] = kv[1]
	}
	for _, kv := range b {
		seen[kv[0]] = true
		if v, ok := ma[kv[0]]; !ok || v != kv[1] {
			out = append(out, kv[0])
		}
	}
	for _, kv := range a {
		if !seen[kv[0]] {
			out = append(out, kv[0])
		}
	}
	sort.Strings(out)
	return out
}

type HistHead struct {
	K             string `json:"k"`
	Keep          int    `json:"keep"`
	MaxCache      int    `json:"maxcache"`
	GenesisHeight uint32 `json:"genesis_height"`
	GenesisDiff   bool   `json:"genesis_diff"` // genesis stored with an (empty) diff record like processGenesisBlock
	Genesis       string `json:"genesis"`      // hex(genesis.Encode()), for replay
	Prestate      []KV   `json:"prestate"`     // keys written directly before Init, for replay
	Drain         bool   `json:"drain"`        // small cache, blocks with transactions and assets, then more consecutive deletes than the cache holds
	Scripted      bool   `json:"scripted"`     // the first history of a run: a fixed-shape drain with flushes, so that the check's count floors are met by construction
	FlushEvery    bool   `json:"flush_every"`  // force a memtable flush after every successful delete (always one at the end)
}

type HistRec struct {
	HistHead
	Steps    []interface{} `json:"steps"`
	FinalDB  *TipObs       `json:"final_last_block_db"`
	FinalErr *string       `json:"final_last_block_db_err"`
	// restart view: a fresh Chain over the same database, Init + PrepareCache (what Executer.Init does)
	FinalFlushDiff []string `json:"final_flush_diff"` // as DeleteStep.FlushDiff, at the end of the history
	PrepErr        *string  `json:"prepare_cache_err"`
	PrepTip        *TipObs  `json:"prepare_cache_tip"`
	CloseErr       *string  `json:"close_err"`
}

type HistIn struct {
	HistHead
	Steps []json.RawMessage `json:"steps"`
}

var StatePrefix = blockchain.DBPrefixToBytes(blockchain.DBPrefixState)

func Hex(b []byte) string { return hex.EncodeToString(b) }
func Unhex(s string) []byte {
	b, err := hex.DecodeString(s)
	if err != nil {
		panic("bad hex in input: " + s)
	}
	return b
}
func Must(err error) {
	if err != nil {
		panic(err)
	}
}
func Str(s string) *string  { return &s }
func U32p(v uint32) *uint32 { return &v }

func DiffKey(height uint32) []byte {
	return bytes.Join(blockchain.DBPrefixToBytes(blockchain.DBPrefixStateDiff), bytes.FromUint32(height))
}

func Dump(d *db.DB) []KV {
	out := []KV{}
	for _, e := range d.Iterate([]byte{}, -1, false) {
		out = append(out, KV{Hex(e.Key()), Hex(e.Value())})
	}
	return out
}

func Classify(err error) *string {
	m := err.Error()
	switch {
	case strings.Contains(m, "genesis block cannot be removed"):
		return Str("genesis")
	case strings.Contains(m, "cannot be added since"), strings.Contains(m, "does not exist in cache"):
		return Str("cache")
	}
	return Str("other")
}

// SortDiff puts the three lists (Commit returns them in Go map order) in key order, so that the stored
// diff bytes and the output are deterministic; every order is a possible behaviour of the real code.
func SortDiff(d *diffdb.Diff) {
	sort.Slice(d.Added, func(i, j int) bool { return bytes.Compare(d.Added[i], d.Added[j]) < 0 })
	sort.Slice(d.Updated, func(i, j int) bool { return bytes.Compare(d.Updated[i].Key, d.Updated[j].Key) < 0 })
	sort.Slice(d.Deleted, func(i, j int) bool { return bytes.Compare(d.Deleted[i].Key, d.Deleted[j].Key) < 0 })
}

func ObsDiff(d *diffdb.Diff) *DiffObs {
	o := &DiffObs{Added: []string{}, Updated: []KV{}, Deleted: []KV{}}
	for _, k := range d.Added {
		o.Added = append(o.Added, Hex(k))
	}
	for _, e := range d.Updated {
		o.Updated = append(o.Updated, KV{Hex(e.Key), Hex(e.Value)})
	}
	for _, e := range d.Deleted {
		o.Deleted = append(o.Deleted, KV{Hex(e.Key), Hex(e.Value)})
	}
	sort.Strings(o.Added)
	sort.Slice(o.Updated, func(i, j int) bool { return o.Updated[i][0] < o.Updated[j][0] })
	sort.Slice(o.Deleted, func(i, j int) bool { return o.Deleted[i][0] < o.Deleted[j][0] })
	return o
}

func Describe(b *blockchain.Block, events []*blockchain.Event) (BlkObs, []string) {
	o := BlkObs{ID: Hex(b.Header.ID), Height: b.Header.Height, Header: Hex(b.Header.Encode()), Txs: []KV{}, Block: Hex(b.Encode())}
	for _, tx := range b.Transactions {
		o.Txs = append(o.Txs, KV{Hex(tx.ID), Hex(tx.Encode())})
	}
	if len(b.Assets) > 0 {
		o.Assets = Str(Hex(blockchain.VerifC05AssetsBytes(b.Assets)))
	}
	if len(events) > 0 {
		o.Events = Str(Hex(blockchain.VerifC05EventsBytes(events)))
	}
	list := []string{}
	for _, e := range events {
		list = append(list, Hex(e.Encode()))
	}
	return o, list
}
