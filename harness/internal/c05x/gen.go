package c05x

import (
	"github.com/LiskHQ/lisk-engine/pkg/blockchain"
	"github.com/LiskHQ/lisk-engine/pkg/codec"
	"github.com/LiskHQ/lisk-engine/pkg/collection/bytes"
	"github.com/LiskHQ/lisk-engine/pkg/db"

	"verifharness/internal/hx"
)

var alphabet = []byte{0x00, 0x61, 0xff}

func word(r *hx.Rng) string {
	const cs = "abcXYZ019"
	n := 1 + r.Intn(4)
	b := make([]byte, n)
	for i := range b {
		b[i] = cs[r.Intn(len(cs))]
	}
	return string(b)
}

func SmallKey(r *hx.Rng) []byte {
	k := make([]byte, 1+r.Intn(2))
	for i := range k {
		k[i] = alphabet[r.Intn(3)]
	}
	return k
}

func root32(r *hx.Rng) []byte {
	if r.Intn(3) == 0 {
		return make([]byte, 32)
	}
	return r.Bytes(32)
}

func GenTx(r *hx.Rng) *blockchain.Transaction {
	tx := &blockchain.Transaction{Module: word(r), Command: word(r), Nonce: uint64(r.Intn(1000)), Fee: uint64(r.Intn(100000)),
		SenderPublicKey: r.Bytes(32), Params: r.Bytes(r.Intn(9)), Signatures: []codec.Hex{r.Bytes(64)}}
	tx.Init()
	return tx
}

func GenBlock(r *hx.Rng, height uint32, prev []byte, txs []*blockchain.Transaction, genesis bool) *blockchain.Block {
	h := &blockchain.BlockHeader{Version: 2, Timestamp: r.U32() % 100000, Height: height, PreviousBlockID: prev, GeneratorAddress: r.Bytes(20),
		TransactionRoot: root32(r), AssetRoot: root32(r), EventRoot: root32(r), StateRoot: root32(r), MaxHeightPrevoted: uint32(r.Intn(5)),
		MaxHeightGenerated: uint32(r.Intn(5)), ImpliesMaxPrevotes: r.Bool(), ValidatorsHash: root32(r),
		AggregateCommit: &blockchain.AggregateCommit{Height: uint32(r.Intn(4)), AggregationBits: r.Bytes(r.Intn(3)), CertificateSignature: r.Bytes(r.Intn(4))},
		Signature:       r.Bytes(64)}
	if genesis {
		h.Version, h.GeneratorAddress, h.Signature = 0, make([]byte, 20), []byte{}
	}
	b := &blockchain.Block{Header: h, Transactions: txs, Assets: []*blockchain.BlockAsset{}}
	for i, n := 0, r.Intn(3); i < n; i++ {
		b.Assets = append(b.Assets, &blockchain.BlockAsset{Module: word(r), Data: r.Bytes(r.Intn(6))})
	}
	b.Init()
	return b
}

func GenEvents(r *hx.Rng, height uint32) []*blockchain.Event {
	events := []*blockchain.Event{}
	for i, n := 0, r.Intn(4); i < n; i++ {
		topics := []codec.Hex{r.Bytes(1 + r.Intn(3))}
		if r.Bool() {
			topics = append(topics, r.Bytes(1+r.Intn(3)))
		}
		events = append(events, blockchain.NewEventFromValues(word(r), word(r), r.Bytes(r.Intn(5)), topics, height, uint32(i)))
	}
	return events
}

// GenStaged produces 0..6 ops on the consensus store, through the root store or a WithPrefix view; only the
// resulting full keys are recorded. The ops are NOT executed here (views share one cache; replay uses the root store).
func GenStaged(r *hx.Rng, database *db.DB) [][]string {
	ops := [][]string{}
	full := func() []byte {
		if r.Intn(3) == 0 { // a WithPrefix([]byte{p}) view
			return bytes.Join(StatePrefix, []byte{alphabet[r.Intn(3)]}, SmallKey(r))
		}
		return bytes.Join(StatePrefix, SmallKey(r))
	}
	set := func(k []byte) { ops = append(ops, []string{"set", Hex(k), Hex(r.Bytes(r.Intn(4)))}) }
	del := func(k []byte) { ops = append(ops, []string{"del", Hex(k)}) }
	get := func(k []byte) { ops = append(ops, []string{"get", Hex(k)}) }
	n := r.Intn(7)
	existing0 := database.Iterate(StatePrefix, -1, false)
	if r.Intn(3) == 0 {
		// a failed transaction: touch a key (preferably a stored one with an EMPTY value), snapshot, write, restore the
		// snapshot, then overwrite or delete the key in the same block
		k := full()
		if len(existing0) > 0 && r.Intn(4) != 0 {
			k = existing0[r.Intn(len(existing0))].Key()
			for _, kv := range existing0 {
				if len(kv.Value()) == 0 && r.Intn(3) != 0 {
					k = kv.Key()
					break
				}
			}
		}
		switch r.Intn(3) {
		case 0:
			get(k)
		case 1:
			set(k)
		}
		ops = append(ops, []string{"snap"})
		for i, m := 0, r.Intn(3); i < m; i++ {
			if r.Bool() {
				set(k)
			} else {
				set(full())
			}
		}
		if r.Intn(4) == 0 {
			del(k)
		}
		ops = append(ops, []string{"restore", "0"})
		switch r.Intn(4) {
		case 0:
			del(k)
		case 1:
		default:
			set(k)
		}
		return ops
	}
	switch existing := existing0; {
	case n >= 3 && r.Intn(4) == 0: // create, overwrite, delete in the same block
		k := full()
		set(k)
		set(k)
		del(k)
	case n >= 2 && len(existing) > 0 && r.Intn(3) == 0: // delete an existing key, then set it again
		k := existing[r.Intn(len(existing))].Key()
		del(k)
		set(k)
	}
	for len(ops) < n {
		if r.Intn(3) == 0 {
			del(full())
		} else {
			set(full())
		}
	}
	return ops
}

func Pick(r *hx.Rng, xs ...int) int { return xs[r.Intn(len(xs))] }
