// Package hx holds helpers shared by the correspondence harness drivers:
// a single deterministic PRNG (splitmix64) seeded from VERIF_SEED and a JSONL writer.
package hx

import (
	"bufio"
	"encoding/json"
	"os"
	"strconv"
)

type Rng struct{ s uint64 }

// NewRng: seed 1 (the default) keeps its original stream; every other seed is first passed through the splitmix64 finaliser, so
// that different seeds give unrelated streams (seed*gamma alone would only shift the default stream by a few draws).
func NewRng(seed uint64) *Rng {
	if seed == 1 {
		return &Rng{s: seed*0x9E3779B97F4A7C15 + 0x1234567}
	}
	z := seed + 0x9E3779B97F4A7C15
	z = (z ^ (z >> 30)) * 0xBF58476D1CE4E5B9
	z = (z ^ (z >> 27)) * 0x94D049BB133111EB
	return &Rng{s: z ^ (z >> 31)}
}

func SeedFromEnv() uint64 {
	v := os.Getenv("VERIF_SEED")
	if v == "" {
		return 1
	}
	n, err := strconv.ParseUint(v, 10, 64)
	if err != nil {
		return 1
	}
	return n
}

func (r *Rng) U64() uint64 {
	r.s += 0x9E3779B97F4A7C15
	z := r.s
	z = (z ^ (z >> 30)) * 0xBF58476D1CE4E5B9
	z = (z ^ (z >> 27)) * 0x94D049BB133111EB
	return z ^ (z >> 31)
}
func (r *Rng) Intn(n int) int {
	if n <= 0 {
		return 0
	}
	return int(r.U64() % uint64(n))
}
func (r *Rng) U32() uint32 { return uint32(r.U64()) }
func (r *Rng) Bool() bool  { return r.U64()&1 == 1 }
func (r *Rng) Bytes(n int) []byte {
	b := make([]byte, n)
	for i := range b {
		b[i] = byte(r.U64())
	}
	return b
}

// Out is a JSONL writer: one record per line.
type Out struct {
	f *os.File
	w *bufio.Writer
	e *json.Encoder
	N int
}

func NewOut(path string) *Out {
	f, err := os.Create(path)
	if err != nil {
		panic(err)
	}
	w := bufio.NewWriterSize(f, 1<<20)
	return &Out{f: f, w: w, e: json.NewEncoder(w)}
}
func (o *Out) Put(v interface{}) {
	if err := o.e.Encode(v); err != nil {
		panic(err)
	}
	o.N++
}
func (o *Out) Close() { o.w.Flush(); o.f.Close() }
