(* Conc/TipCache.v — "concurrent readers always obtain some complete committed tip".
   Chain.AddBlock / Chain.RemoveBlock are NOT one critical section: they are a database batch followed (or preceded) by
   separate block-cache operations, and Chain.LastBlock() reads the cache at any moment in between.  Model: the single
   writer (the consensus goroutine) performs, per operation, the atomic steps below; a reader's LastBlock is one atomic
   read of the cache head (blockCache.last is a single critical section - obligation atomic_ops_single_section).
     AddBlock b   : [database.Write(batch)]  db := b :: db          ; [cache.push b]  cache := firstn max (b :: cache)
     RemoveBlock  : [CachedLastBlock; cache.len(); GetBlockByHeight(parent)]  refill := parent if the cache holds one block
                    [database.Write(batch)]  db := tl db             ; [cache.popAndRefill refill]
   Blocks are identified by numbers; lists are newest-first.
   Theorem: in every state the writer passes through, for every operation sequence and every cache size >= 1, a read
   returns a block, and that block is the tip of the chain as it was immediately before or immediately after the
   writer operation in progress (exactly the tip when no operation is in progress).  With the pre-ac4bab0 code
   (pop, then reload) there is a reachable state in which the read returns nothing. *)
From Coq Require Import List Arith Lia Bool.
Import ListNotations.

Record st := mkSt { db : list nat; cache : list nat }.
Definition tip (s : st) : option nat := hd_error (db s).
Definition read (s : st) : option nat := hd_error (cache s).     (* Chain.LastBlock() *)

Inductive wop := Add (b : nat) | Remove.

Definition pop_refill (c : list nat) (refill : option nat) : list nat :=
  match tl c with
  | [] => match refill with Some q => [q] | None => [] end
  | c' => c'
  end.

(* the states after each atomic step of one writer operation *)
Definition steps_of (mx : nat) (s : st) (o : wop) : list st :=
  match o with
  | Add b => [mkSt (b :: db s) (cache s); mkSt (b :: db s) (firstn mx (b :: cache s))]
  | Remove =>
    match db s with
    | _ :: (p :: _) as rest =>
      let refill := if length (cache s) =? 1 then Some p else None in
      [mkSt rest (cache s); mkSt rest (pop_refill (cache s) refill)]
    | _ => []                                  (* the genesis block cannot be removed *)
    end
  end.

Definition Inv (mx : nat) (s : st) : Prop :=
  1 <= mx /\ exists k, 1 <= k /\ db s <> [] /\ cache s = firstn k (db s).

Definition read_ok (s0 s1 x : st) : Prop :=
  exists b, read x = Some b /\ (tip s0 = Some b \/ tip s1 = Some b).

Lemma inv_read_tip : forall mx s, Inv mx s -> read s = tip s /\ read s <> None.
Proof.
  intros mx s (Hm & k & Hk & Hne & Hc). unfold read, tip. rewrite Hc. destruct (db s) as [|t r]; [congruence|].
  destruct k; [lia|]. simpl. split; [auto|discriminate].
Qed.

Theorem op_tip_linearizable : forall mx s o, Inv mx s ->
  let tr := steps_of mx s o in let s' := last tr s in
  Inv mx s' /\ Forall (read_ok s s') tr.
Proof.
  intros mx s o HI. pose proof HI as (Hm & k & Hk & Hne & Hc). destruct o as [b|]; simpl.
  - assert (Hc2 : firstn mx (b :: cache s) = firstn (Nat.min mx (S k)) (b :: db s)).
    { rewrite Hc. change (b :: firstn k (db s)) with (firstn (S k) (b :: db s)). apply firstn_firstn. }
    split.
    + split; auto. exists (Nat.min mx (S k)). cbn [db cache]. split; [lia|]. split; [discriminate|exact Hc2].
    + destruct (inv_read_tip _ _ HI) as [Hrt Hrn]. constructor; [|constructor; [|constructor]].
      * unfold read_ok, read, tip in *. simpl. destruct (hd_error (cache s)) as [x|] eqn:E; [|congruence]. exists x. auto.
      * unfold read_ok, read, tip. simpl. rewrite Hc2. destruct (Nat.min mx (S k)) eqn:Em; [lia|]. simpl. exists b. auto.
  - destruct (db s) as [|t [|p rest]] eqn:Ed; simpl.
    + congruence.
    + split; [exact HI|constructor].
    + destruct k as [|k']; [lia|]. simpl in Hc.
      assert (Hpr : pop_refill (cache s) (if length (cache s) =? 1 then Some p else None) = firstn (Nat.max 1 k') (p :: rest)).
      { rewrite Hc. unfold pop_refill. simpl. destruct k' as [|k'']; simpl; auto. }
      split.
      * split; auto. exists (Nat.max 1 k'). cbn [db cache]. split; [lia|]. split; [discriminate|exact Hpr].
      * constructor; [|constructor; [|constructor]].
        -- unfold read_ok, read, tip. simpl. rewrite Hc, Ed. simpl. exists t. auto.
        -- unfold read_ok, read, tip. simpl. rewrite Hpr. destruct (Nat.max 1 k') eqn:Em; [lia|]. simpl. exists p. auto.
Qed.

(* all operation sequences: every state the system passes through *)
Fixpoint trace (mx : nat) (s : st) (ops : list wop) : list (st * st * st) :=   (* (state before the op, after the op, intermediate) *)
  match ops with
  | [] => []
  | o :: r => let tr := steps_of mx s o in let s' := last tr s in
              map (fun x => (s, s', x)) tr ++ trace mx s' r
  end.

Theorem tip_linearizable : forall mx ops s, Inv mx s ->
  Forall (fun y => let '(s0, s1, x) := y in read_ok s0 s1 x) (trace mx s ops).
Proof.
  intros mx ops. induction ops as [|o r IH]; intros s HI; simpl; [constructor|].
  destruct (op_tip_linearizable mx s o HI) as [HI' Hall]. apply Forall_app. split.
  - rewrite Forall_map. exact Hall.
  - apply IH. exact HI'.
Qed.

Corollary quiescent_read_is_tip : forall mx ops s, Inv mx s ->
  let s' := fold_left (fun a o => last (steps_of mx a o) a) ops s in read s' = tip s' /\ read s' <> None.
Proof.
  intros mx ops. induction ops as [|o r IH]; intros s HI; simpl; [eapply inv_read_tip; eauto|].
  apply IH. apply (op_tip_linearizable mx s o HI).
Qed.

Example genesis_inv : forall mx, 1 <= mx -> Inv mx (mkSt [0] [0]).
Proof. intros. split; auto. exists 1. simpl. repeat split; auto. discriminate. Qed.

(* ---- the code before ac4bab0: pop, and only afterwards reload the tip when the cache ran empty ---- *)
Definition steps_of_old (mx : nat) (s : st) (o : wop) : list st :=
  match o with
  | Add b => steps_of mx s o
  | Remove =>
    match db s with
    | _ :: (p :: _) as rest =>
      [mkSt rest (cache s); mkSt rest (tl (cache s));
       mkSt rest (match tl (cache s) with [] => [p] | c => c end)]
    | _ => []
    end
  end.

Theorem nil_tip_refuted : exists mx s o x, Inv mx s /\ In x (steps_of_old mx s o) /\ read x = None.
Proof.
  exists 1, (mkSt [2; 1; 0] [2]), Remove, (mkSt [1; 0] []). split.
  - split; auto. exists 1. simpl. repeat split; auto. discriminate.
  - split; [simpl; auto|reflexivity].
Qed.
