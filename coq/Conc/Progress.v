(* Conc/Progress.v — progress for safe skeletons under the writer-preferring RWMutex, and stuck configurations
   for each of the unsafe patterns. *)
From Coq Require Import List Arith Lia Bool.
From LE Require Import Conc.RWMutex Conc.Skeleton.
Import ListNotations.

(* the rest of a thread's program is well typed from its held set down to the empty held set *)
Fixpoint typed_stack (M : nat) (h : held_t) (k : list prog) : Prop :=
  match k with
  | [] => h = []
  | p :: k' => exists h', typed M h p h' /\ typed_stack M h' k'
  end.

Definition wf (M : nat) (t : thread) : Prop :=
  typed_stack M (held t) (stack t) /\ (ann t = true -> exists l k, stack t = Acq l W :: k).

Lemma init_wf : forall M progs, Forall (safe M) progs -> Forall (wf M) (init progs).
Proof.
  intros M progs H. unfold init. rewrite Forall_map. eapply Forall_impl; [|exact H].
  intros p Hp. split; simpl; [exists []; split; auto | discriminate].
Qed.

(* ---------------- preservation ---------------- *)
Lemma tstep_preserves_wf : forall M cfg t t' sp, wf M t -> tstep cfg t t' sp -> wf M t' /\ Forall (wf M) sp.
Proof.
  intros M cfg t t' sp [Hs Ha] Hst.
  assert (Hna : forall h k a p, t = mkT h (p :: k) a -> (forall l, p <> Acq l W) -> a = false).
  { intros h k a p -> Hp. destruct a; auto. destruct (Ha eq_refl) as (l & k' & E). simpl in E. inversion E; subst.
    exfalso. eapply Hp; eauto. }
  inversion Hst; subst; simpl in *; unfold wf; simpl;
    try (destruct Hs as (h' & Ht & Hk); inversion Ht; subst;
         try (rewrite (Hna _ _ _ _ eq_refl) by (intros; discriminate))).
  - split; [split; [auto|discriminate]|constructor].
  - split; [split; [auto|discriminate]|constructor].
  - split; [split; [auto|discriminate]|constructor].
  - split; [split; [|discriminate]|constructor]. exists h1. split; [auto|]. exists h'. split; [auto|auto].
  - split; [split; [|discriminate]|constructor]. exists h'. split; auto.
  - split; [split; [|discriminate]|constructor]. exists h'. split; auto.
  - split; [split; [auto|discriminate]|constructor].
  - split; [split; [|discriminate]|constructor]. exists h'. split; [auto|]. exists h'. split; [constructor; auto|auto].
  - split; [split; [auto|discriminate]|]. constructor; [|constructor].
    split; simpl; [exists []; split; auto|discriminate].
  - split; [split; [auto|discriminate]|constructor].
  - split; [split; [auto|discriminate]|constructor].
  - split; [split|constructor]. { exists ((l, W) :: h). split; auto. } intros _. eauto.
  - split; [split; [auto|discriminate]|constructor].
Qed.

Theorem step_preserves_wf : forall M c c', Forall (wf M) c -> step c c' -> Forall (wf M) c'.
Proof.
  intros M c c' Hwf Hst. inversion Hst; subst.
  rewrite Forall_app in Hwf. destruct Hwf as [H1 H2]. inversion H2; subst.
  destruct (tstep_preserves_wf M _ _ _ _ H4 H) as [Ht' Hsp].
  rewrite Forall_app. split; auto. constructor; auto. rewrite Forall_app. split; auto.
Qed.

Theorem env_step_preserves_wf : forall M c c', Forall (wf M) c -> env_step c c' -> Forall (wf M) c'.
Proof.
  intros M c c' Hwf Hst. inversion Hst; subst.
  rewrite Forall_app in *. destruct Hwf as [H1 H2]. inversion H2; subst. split; auto. constructor; auto.
  destruct H3 as [Hs Ha]. simpl in *. destruct Hs as (h' & Ht & Hk). inversion Ht; subst.
  split; simpl; auto. intros E. destruct (Ha E) as (? & ? & X). discriminate.
Qed.

Theorem reachable_wf : forall M progs c, Forall (safe M) progs -> reachable (init progs) c -> Forall (wf M) c.
Proof.
  intros M progs c Hs Hr. induction Hr.
  - apply init_wf; auto.
  - eapply step_preserves_wf; eauto.
  - eapply env_step_preserves_wf; eauto.
Qed.

(* ---------------- progress ---------------- *)
Lemma in_split_ctx : forall (t : thread) cfg, In t cfg -> exists pre post, cfg = pre ++ t :: post.
Proof. intros. apply in_split. assumption. Qed.

(* a thread whose next instruction is neither an acquisition nor a blocking operation steps unconditionally *)
Lemma free_head_steps : forall cfg t p k,
  In t cfg -> stack t = p :: k -> (forall l m, p <> Acq l m) -> p <> Block -> exists cfg', step cfg cfg'.
Proof.
  intros cfg t p k Hin Hs Hna Hnb. destruct (in_split_ctx _ _ Hin) as (pre & post & ->).
  destruct t as [h st a]. simpl in Hs. subst st.
  destruct p; try (exfalso; eapply Hna; reflexivity); try congruence;
    eexists; apply step_at; first [apply s_skip | apply s_call | apply s_guarded | apply s_seq | apply s_alt_l | apply s_loop_exit
                                  | apply s_go | apply s_rel].
Qed.

(* a well-formed holder of [l] is unfinished, is not parked at a blocking operation, and if its next instruction
   is an acquisition it is of a strictly greater lock *)
Lemma holder_next : forall M u l, wf M u -> holdsb (held u) l = true ->
  match stack u with
  | [] => False
  | Acq l' _ :: _ => l < l' /\ l' < M
  | Block :: _ => False
  | _ => True
  end.
Proof.
  intros M u l [Hs _] Hh. destruct (holdsb_In _ _ Hh) as (m & Hin).
  destruct (stack u) as [|p k]; simpl in Hs.
  - rewrite Hs in Hin. contradiction.
  - destruct Hs as (h' & Ht & _). destruct p; auto.
    + inversion Ht; subst. split; auto.
      match goal with H : forall x, In x _ -> fst x < _ |- _ => apply (H _ Hin) end.
    + inversion Ht; subst.
      match goal with H : [] = held u |- _ => rewrite <- H in Hin end. contradiction.
Qed.

(* main lemma: a thread that wants lock l (with M - l <= n) guarantees that somebody can step *)
Lemma wants_progress : forall M n cfg, Forall (wf M) cfg ->
  forall t l m k, In t cfg -> stack t = Acq l m :: k -> M - l <= n -> exists cfg', step cfg cfg'.
Proof.
  intros M n. induction n as [n IH] using lt_wf_ind. intros cfg Hwf t l m k Hin Hp Hn.
  assert (HwfT : wf M t) by (rewrite Forall_forall in Hwf; apply Hwf; auto).
  assert (HlM : l < M).
  { destruct HwfT as [Hs _]. rewrite Hp in Hs. simpl in Hs. destruct Hs as (h' & Ht & _). inversion Ht; auto. }
  (* if some thread u holds l, then someone can step *)
  assert (Hholder : forall u, In u cfg -> holdsb (held u) l = true -> exists cfg', step cfg cfg').
  { intros u Hu Hh.
    assert (HwfU : wf M u) by (rewrite Forall_forall in Hwf; apply Hwf; auto).
    pose proof (holder_next M u l HwfU Hh) as Hnx.
    destruct (stack u) as [|p ku] eqn:Esu; [contradiction|].
    destruct p; try contradiction;
      try (eapply free_head_steps; [exact Hu | exact Esu | intros; discriminate | discriminate]).
    destruct Hnx as [Hl1 Hl2].
    assert (Hlt : M - l0 < n) by lia.
    exact (IH (M - l0) Hlt cfg Hwf u l0 m0 ku Hu Esu (le_n _)). }
  destruct (in_split_ctx _ _ Hin) as (pre & post & E).
  destruct t as [ht st at_]. simpl in Hp. subst st.
  destruct m.
  - (* wants the read lock *)
    destruct at_.
    { destruct HwfT as [_ Ha]. destruct (Ha eq_refl) as (? & ? & X). simpl in X. discriminate. }
    destruct (existsb (fun u => holdsWb (held u) l || pendingb u l) cfg) eqn:Hb.
    + apply existsb_exists in Hb. destruct Hb as (u & Hu & Hcond).
      apply orb_true_iff in Hcond. destruct Hcond as [HW|HP].
      * apply (Hholder u Hu). apply holdsW_holds; auto.
      * (* u is an announced writer for l: either it can take the lock or someone holds l *)
        unfold pendingb in HP. apply andb_true_iff in HP. destruct HP as [Hau Hpu].
        destruct u as [hu su au]. simpl in *. subst au.
        destruct su as [|p qu]; [discriminate|]. destruct p; try discriminate. destruct m; try discriminate.
        apply Nat.eqb_eq in Hpu. subst l0.
        destruct (existsb (fun v => holdsb (held v) l) cfg) eqn:Hh.
        -- apply existsb_exists in Hh. destruct Hh as (v & Hv & Hvh). apply (Hholder v); auto.
        -- destruct (in_split_ctx _ _ Hu) as (pre' & post' & E'). rewrite E' in *.
           eexists. apply step_at. apply s_wlock. exact Hh.
    + rewrite E in *. eexists. apply step_at. apply s_rlock. exact Hb.
  - (* wants the write lock *)
    destruct at_.
    + destruct (existsb (fun v => holdsb (held v) l) cfg) eqn:Hh.
      * apply existsb_exists in Hh. destruct Hh as (v & Hv & Hvh). apply (Hholder v); auto.
      * rewrite E in *. eexists. apply step_at. apply s_wlock. exact Hh.
    + rewrite E. eexists. apply step_at. apply s_announce.
Qed.

(* any thread that is neither finished nor parked at a blocking operation implies a possible step *)
Theorem wf_progress : forall M cfg, Forall (wf M) cfg ->
  (exists t p k, In t cfg /\ stack t = p :: k /\ p <> Block) -> exists cfg', step cfg cfg'.
Proof.
  intros M cfg Hwf (t & p & k & Hin & Hs & Hnb).
  destruct p; try (eapply free_head_steps; [exact Hin | exact Hs | intros; discriminate | discriminate]).
  - eapply (wants_progress M (M - l)); eauto.
  - congruence.
Qed.

Lemma parked_or_active : forall M cfg, Forall (wf M) cfg ->
  env_parked cfg \/ exists t p k, In t cfg /\ stack t = p :: k /\ p <> Block.
Proof.
  intros M cfg Hwf. induction cfg as [|t cfg IH].
  - left. constructor.
  - inversion Hwf; subst. destruct (IH H2) as [Hp | (u & p & k & Hin & Hs & Hnb)].
    + destruct (stack t) as [|p k] eqn:Es.
      * left. constructor; auto.
      * destruct p; try (right; exists t; eexists; eexists; split; [left; reflexivity | split; [exact Es | discriminate]]).
        left. constructor; auto. right. destruct H1 as [Hts _]. rewrite Es in Hts. simpl in Hts.
        destruct Hts as (h' & Ht & _). inversion Ht; subst. split; eauto.
    + right. exists u, p, k. split; [right; auto | auto].
Qed.

(* THE theorem: safe skeletons never get stuck on a lock.  Every reachable configuration is finished, or can step,
   or all its unfinished threads own no lock and wait at a blocking operation for the environment. *)
Theorem safe_skeleton_progress : forall M progs, Forall (safe M) progs ->
  forall c, reachable (init progs) c -> finished c \/ (exists c', step c c') \/ env_parked c.
Proof.
  intros M progs Hs c Hr. pose proof (reachable_wf M progs c Hs Hr) as Hwf.
  destruct (parked_or_active M c Hwf) as [Hp | Hact].
  - right. right. exact Hp.
  - right. left. eapply wf_progress; eauto.
Qed.

Corollary safe_prog_progress : forall M progs, forallb (safe_prog M) progs = true ->
  forall c, reachable (init progs) c -> finished c \/ (exists c', step c c') \/ env_parked c.
Proof.
  intros M progs H. apply (safe_skeleton_progress M). rewrite forallb_forall in H. apply Forall_forall.
  intros p Hp. apply safe_prog_sound. auto.
Qed.

(* no thread ever waits for a lock while every lock owner is parked: a thread at an acquisition means a step exists *)
Corollary lock_waiter_never_stuck : forall M progs, Forall (safe M) progs ->
  forall c t l m k, reachable (init progs) c -> In t c -> stack t = Acq l m :: k -> exists c', step c c'.
Proof.
  intros M progs Hs c t l m k Hr Hin Hst. eapply wf_progress; [eapply reachable_wf; eauto|].
  exists t, (Acq l m), k. repeat split; auto. discriminate.
Qed.

(* threads drawn from a library of operations (any number of goroutines, each running any operation) *)
Corollary library_progress : forall M ops, forallb (safe_prog M) ops = true ->
  forall progs, Forall (fun p => In p ops) progs ->
  forall c, reachable (init progs) c -> finished c \/ (exists c', step c c') \/ env_parked c.
Proof.
  intros M ops H progs Hin. apply (safe_skeleton_progress M). rewrite forallb_forall in H.
  eapply Forall_impl; [|exact Hin]. intros p Hp. apply safe_prog_sound. auto.
Qed.

(* ---------------- block-free libraries: finished or can step, nothing else ---------------- *)
Fixpoint blockfree (p : prog) : bool :=
  match p with
  | Block => false
  | Seq a b | Alt a b => blockfree a && blockfree b
  | Loop a | Go a => blockfree a
  | _ => true
  end.

Definition bf_thread (t : thread) : Prop := forallb blockfree (stack t) = true.

Lemma tstep_preserves_bf : forall cfg t t' sp, bf_thread t -> tstep cfg t t' sp -> bf_thread t' /\ Forall bf_thread sp.
Proof.
  unfold bf_thread. intros cfg t t' sp Hb Hst. inversion Hst; subst; simpl in *;
    repeat match goal with H : _ && _ = true |- _ => apply andb_true_iff in H; destruct H end;
    split; try constructor; simpl; repeat (apply andb_true_iff; split); auto.
Qed.

Lemma reachable_bf : forall progs c, forallb blockfree progs = true -> reachable (init progs) c -> Forall bf_thread c.
Proof.
  intros progs c Hb Hr. induction Hr.
  - unfold init. rewrite Forall_map. rewrite forallb_forall in Hb. apply Forall_forall. intros p Hp.
    unfold bf_thread. simpl. rewrite (Hb p Hp). reflexivity.
  - inversion H; subst. rewrite Forall_app in IHHr. destruct IHHr as [H1 H2]. inversion H2; subst.
    destruct (tstep_preserves_bf _ _ _ _ H5 H0) as [Ht Hsp].
    rewrite Forall_app. split; auto. constructor; auto. rewrite Forall_app. split; auto.
  - inversion H; subst. rewrite Forall_app in IHHr. destruct IHHr as [H1 H2]. inversion H2; subst.
    unfold bf_thread in H4. simpl in H4. discriminate.
Qed.

Theorem blockfree_progress : forall M progs, Forall (safe M) progs -> forallb blockfree progs = true ->
  forall c, reachable (init progs) c -> finished c \/ exists c', step c c'.
Proof.
  intros M progs Hs Hb c Hr. destruct (safe_skeleton_progress M progs Hs c Hr) as [H|[H|H]]; auto.
  left. pose proof (reachable_bf progs c Hb Hr) as Hbf. unfold finished. unfold env_parked in H.
  rewrite Forall_forall in *. intros t Ht. destruct (H t Ht) as [E | (_ & k & E)]; auto.
  specialize (Hbf t Ht). unfold bf_thread in Hbf. rewrite E in Hbf. simpl in Hbf. discriminate.
Qed.

Corollary blockfree_library_progress : forall M ops, forallb (safe_prog M) ops = true -> forallb blockfree ops = true ->
  forall progs, Forall (fun p => In p ops) progs ->
  forall c, reachable (init progs) c -> finished c \/ exists c', step c c'.
Proof.
  intros M ops H Hb progs Hin. apply (blockfree_progress M).
  - rewrite forallb_forall in H. eapply Forall_impl; [|exact Hin]. intros p Hp. apply safe_prog_sound. auto.
  - rewrite forallb_forall in *. intros p Hp. apply Hb. rewrite Forall_forall in Hin. auto.
Qed.

(* ---------------- the unsafe patterns are really stuck ---------------- *)
Definition stuck (c : config) : Prop :=
  ~ finished c /\ ~ env_parked c /\ ~ exists c', step c c'.

(* 1. blockCache.last(): RLock; getByHeight: RLock ... with a writer that has called Lock() in between *)
Definition nested_rlock_reader := mkT [(0, R)] [Acq 0 R; Rel 0 R; Rel 0 R] false.
Definition pending_writer := mkT [] [Acq 0 W; Rel 0 W] true.

Lemma not_finished_head : forall t c p k, stack t = p :: k -> ~ finished (t :: c).
Proof. intros t c p k E H. inversion H; subst. congruence. Qed.
Lemma not_parked_head : forall t c p k, stack t = p :: k -> p <> Block -> ~ env_parked (t :: c).
Proof.
  intros t c p k E Hnb H. inversion H; subst. destruct H2 as [H2 | (_ & k' & H2)]; rewrite E in H2; congruence.
Qed.

Theorem nested_rlock_refuted : stuck [nested_rlock_reader; pending_writer].
Proof.
  split; [eapply not_finished_head; reflexivity|]. split; [eapply not_parked_head; [reflexivity|discriminate]|].
  intros (c' & Hst). inversion Hst as [pre t t' post sp Ht E E']. clear E'.
  destruct pre as [|x [|y pre']]; simpl in E.
  - inversion E; subst. inversion Ht; subst. simpl in *. discriminate.
  - inversion E; subst. inversion Ht; subst. simpl in *. discriminate.
  - inversion E. destruct pre'; discriminate.
Qed.
(* ... and it is reachable from the two source-level programs (so the premise of the theorem cannot be dropped) *)
Definition last_unsafe := Seq (Acq 0 R) (Seq (Seq (Acq 0 R) (Rel 0 R)) (Rel 0 R)).
Definition push_prog := Seq (Acq 0 W) (Rel 0 W).
Example last_unsafe_rejected : safe_prog 1 last_unsafe = false. Proof. reflexivity. Qed.

Lemma r_first : forall c0 c1 c, step c0 c1 -> reachable c1 c -> reachable c0 c.
Proof.
  intros c0 c1 c Hs Hr. induction Hr.
  - eapply r_step; [apply r_refl | exact Hs].
  - eapply r_step; eauto.
  - eapply r_env; eauto.
Qed.

Lemma step_first : forall t t' post sp, tstep (t :: post) t t' sp -> step (t :: post) (t' :: post ++ sp).
Proof. intros. apply (step_at [] t t' post sp). assumption. Qed.
Lemma step_second : forall a t t' post sp,
  tstep (a :: t :: post) t t' sp -> step (a :: t :: post) (a :: t' :: post ++ sp).
Proof. intros. apply (step_at [a] t t' post sp). assumption. Qed.
Ltac fwd0 r := eapply r_first; [ apply step_first; r | simpl ].
Ltac fwd1 r := eapply r_first; [ apply step_second; r | simpl ].

Theorem nested_rlock_reachable_stuck :
  exists c, reachable (init [last_unsafe; push_prog]) c /\ stuck c.
Proof.
  exists [nested_rlock_reader; pending_writer]. split; [|exact nested_rlock_refuted].
  unfold init, last_unsafe, push_prog. simpl.
  fwd0 ltac:(apply s_seq).
  fwd0 ltac:(apply s_rlock; reflexivity).
  fwd0 ltac:(apply s_seq).
  fwd0 ltac:(apply s_seq).
  fwd1 ltac:(apply s_seq).
  fwd1 ltac:(apply s_announce).
  apply r_refl.
Qed.

(* 2. TransactionPool.Add: Lock; evictUnprocessable: RLock of the same mutex — a single goroutine blocks itself *)
Definition self_upgrade := mkT [(0, W)] [Acq 0 R; Rel 0 R; Rel 0 W] false.
Theorem rlock_under_lock_refuted : stuck [self_upgrade].
Proof.
  split; [eapply not_finished_head; reflexivity|]. split; [eapply not_parked_head; [reflexivity|discriminate]|].
  intros (c' & Hst). inversion Hst as [pre t t' post sp Ht E E']. clear E'.
  destruct pre as [|x pre']; simpl in E.
  - inversion E; subst. inversion Ht; subst. simpl in *. discriminate.
  - inversion E. destruct pre'; discriminate.
Qed.
Definition add_unsafe := Seq (Acq 0 W) (Seq (Seq (Acq 0 R) (Rel 0 R)) (Rel 0 W)).
Theorem rlock_under_lock_reachable_stuck : exists c, reachable (init [add_unsafe]) c /\ stuck c.
Proof.
  exists [self_upgrade]. split; [|exact rlock_under_lock_refuted].
  unfold init, add_unsafe. simpl.
  fwd0 ltac:(apply s_seq).
  fwd0 ltac:(apply s_announce).
  fwd0 ltac:(apply s_wlock; reflexivity).
  fwd0 ltac:(apply s_seq).
  fwd0 ltac:(apply s_seq).
  apply r_refl.
Qed.
(* Lock under Lock (remove() called from Add) *)
Definition self_relock := mkT [(0, W)] [Acq 0 W; Rel 0 W; Rel 0 W] true.
Theorem lock_under_lock_refuted : stuck [self_relock].
Proof.
  split; [eapply not_finished_head; reflexivity|]. split; [eapply not_parked_head; [reflexivity|discriminate]|].
  intros (c' & Hst). inversion Hst as [pre t t' post sp Ht E E']. clear E'.
  destruct pre as [|x pre']; simpl in E.
  - inversion E; subst. inversion Ht; subst. simpl in *. discriminate.
  - inversion E. destruct pre'; discriminate.
Qed.

(* 3. opposite nesting orders *)
Definition ab_holder := mkT [(0, W)] [Acq 1 W; Rel 1 W; Rel 0 W] true.
Definition ba_holder := mkT [(1, W)] [Acq 0 W; Rel 0 W; Rel 1 W] true.
Theorem lock_order_inversion_refuted : stuck [ab_holder; ba_holder].
Proof.
  split; [eapply not_finished_head; reflexivity|]. split; [eapply not_parked_head; [reflexivity|discriminate]|].
  intros (c' & Hst). inversion Hst as [pre t t' post sp Ht E E']. clear E'.
  destruct pre as [|x [|y pre']]; simpl in E.
  - inversion E; subst. inversion Ht; subst. simpl in *. discriminate.
  - inversion E; subst. inversion Ht; subst. simpl in *. discriminate.
  - inversion E. destruct pre'; discriminate.
Qed.

(* 4. blocking operation inside a critical section: if the environment never answers, the lock waiter starves *)
Definition blocked_owner := mkT [(0, W)] [Block; Rel 0 W] false.
Definition lock_waiter := mkT [] [Acq 0 W; Rel 0 W] true.
Theorem block_under_lock_refuted : stuck [lock_waiter; blocked_owner].
Proof.
  split; [eapply not_finished_head; reflexivity|]. split; [eapply not_parked_head; [reflexivity|discriminate]|].
  intros (c' & Hst). inversion Hst as [pre t t' post sp Ht E E']. clear E'.
  destruct pre as [|x [|y pre']]; simpl in E.
  - inversion E; subst. inversion Ht; subst. simpl in *. discriminate.
  - inversion E; subst. inversion Ht; subst.
  - inversion E. destruct pre'; discriminate.
Qed.

(* the checker rejects each of the source patterns *)
Example unsafe_patterns_rejected :
  safe_prog 2 (Seq (Acq 0 W) (Seq (Seq (Acq 0 R) (Rel 0 R)) (Rel 0 W))) = false /\
  safe_prog 2 (Seq (Acq 0 W) (Seq (Seq (Acq 0 W) (Rel 0 W)) (Rel 0 W))) = false /\
  safe_prog 2 (Seq (Acq 1 W) (Seq (Seq (Acq 0 W) (Rel 0 W)) (Rel 1 W))) = false /\
  safe_prog 2 (Seq (Acq 0 W) (Seq Block (Rel 0 W))) = false /\
  safe_prog 2 (Alt (Acq 0 W) Skip) = false /\
  safe_prog 2 (Seq (Acq 0 W) (Seq (Seq (Acq 1 W) (Rel 1 W)) (Rel 0 W))) = true.
Proof. repeat split. Qed.
