(* Conc/SnapshotRead.v — compound values stored under several keys that the writer commits in ONE batch
   (a block = header, transaction-id list, assets; blockchain.DataAccess.saveBlock / removeBlock + db.Write).
   A reader that assembles the value from separate Gets may see different committed states for different keys
   (torn read); a reader that performs all Gets on one snapshot sees exactly one committed state. *)
From Coq Require Import List Arith Bool Lia.
Import ListNotations.

(* how a multi-key getter of the listed files reads (classified from the source by translate/skeletons) *)
Inductive read_discipline := OneSnapshot | SeparateReads.
Definition read_discipline_ok (d : read_discipline) : bool := match d with OneSnapshot => true | SeparateReads => false end.

Record blk := mkB { bid : nat; bhdr : nat; btxs : list nat; bassets : list nat }.
Inductive field := FHdr | FTxs | FAssets.
Inductive val := VH (h : nat) | VL (l : list nat).

(* committed state = the blocks present, keyed by id; every writer operation is one atomic batch *)
Definition state := list blk.
Fixpoint lookup (id : nat) (s : state) : option blk :=
  match s with [] => None | b :: r => if bid b =? id then Some b else lookup id r end.
Definition drop (id : nat) (s : state) : state := filter (fun b => negb (bid b =? id)) s.
Inductive wop := WAdd (b : blk) | WDel (id : nat).
Definition apply (s : state) (o : wop) : state :=
  match o with WAdd b => b :: drop (bid b) s | WDel id => drop id s end.

(* one Get *)
Definition get (s : state) (id : nat) (f : field) : option val :=
  match lookup id s with
  | Some b => Some (match f with FHdr => VH (bhdr b) | FTxs => VL (btxs b) | FAssets => VL (bassets b) end)
  | None => None
  end.

(* getBlock: no header = not found; a missing id list means "no transactions", missing assets "no assets" *)
Definition assemble (id : nat) (h t a : option val) : option blk :=
  match h with
  | Some (VH x) => Some (mkB id x (match t with Some (VL l) => l | _ => [] end) (match a with Some (VL l) => l | _ => [] end))
  | _ => None
  end.

Definition read_snapshot (s : state) (id : nat) : option blk :=
  assemble id (get s id FHdr) (get s id FTxs) (get s id FAssets).
(* the three Gets hit the states the writer had reached at three successive moments *)
Definition read_separate (s1 s2 s3 : state) (id : nat) : option blk :=
  assemble id (get s1 id FHdr) (get s2 id FTxs) (get s3 id FAssets).

Lemma lookup_id : forall id s b, lookup id s = Some b -> bid b = id.
Proof.
  induction s as [|x r IH]; simpl; intros b H; [discriminate|]. destruct (bid x =? id) eqn:E; auto.
  inversion H; subst. apply Nat.eqb_eq. auto.
Qed.

(* a snapshot read returns exactly the committed block, or not found *)
Theorem snapshot_read_atomic : forall s id, read_snapshot s id = lookup id s.
Proof.
  intros s id. unfold read_snapshot, get. destruct (lookup id s) as [b|] eqn:E; simpl; auto.
  apply lookup_id in E. destruct b; simpl in *. subst. reflexivity.
Qed.

(* ... in every state of every history of batches, so a reader racing with the writer obtains a block that was
   committed at the moment of its snapshot, or not found *)
Theorem snapshot_read_committed : forall s0 ops n id,
  let s := fold_left apply (firstn n ops) s0 in
  read_snapshot s id = lookup id s.
Proof. intros. apply snapshot_read_atomic. Qed.

(* separate reads racing with one removal: header of the block, but no transactions and no assets -
   a value that is the block of NO state of the history *)
Definition history (s0 : state) (ops : list wop) : list state :=
  map (fun n => fold_left apply (firstn n ops) s0) (seq 0 (S (length ops))).

Theorem separate_reads_torn_refuted :
  exists s0 ops id torn,
    let s1 := fold_left apply ops s0 in
    read_separate s0 s1 s1 id = Some torn /\
    forall s, In s (history s0 ops) -> read_snapshot s id <> Some torn.
Proof.
  exists [mkB 1 7 [3; 4] [9]], [WDel 1], 1, (mkB 1 7 [] []). split; [reflexivity|].
  intros s Hs. simpl in Hs. destruct Hs as [<-|[<-|[]]]; vm_compute; discriminate.
Qed.

(* with all three reads on the same state nothing is torn, whatever the writer does before or after *)
Lemma separate_same_state : forall s id, read_separate s s s id = read_snapshot s id.
Proof. reflexivity. Qed.
