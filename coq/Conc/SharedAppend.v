(* Conc/SharedAppend.v — result accumulation of the errgroup/WaitGroup fan-out helpers
   (DataAccess.GetBlockHeaders / GetBlockHeadersByHeights / GetTransactions, blockSyncer.Sync).
   Goroutine i looks item i up (Some v = found, None = not found) and publishes it into a shared result.
   Three publication disciplines:
     slots  : results[i] = v            one write to a private index            (GetBlocksBetweenHeight, the repaired getters)
     locked : mu.Lock(); res = append(res, v); mu.Unlock()   one atomic step    (the repaired blockSyncer.Sync)
     racy   : res = append(res, v)      read of the slice header, then write    (the original code)
   A schedule is the order in which the goroutines' shared-memory steps happen. *)
From Coq Require Import List Arith Lia Bool Permutation.
Import ListNotations.

(* how a goroutine of a fan-out publishes its result (classified from the source by translate/skeletons) *)
(* Slots: writes only its own index of a captured slice; Locked: appends under a lock; Private: writes nothing it shares
   with its spawner; Delegated: `go f(x)` - f is translated and classified on its own; Racy: any other shared write *)
Inductive discipline := Slots | Locked | Private | Delegated | Racy.
Definition discipline_ok (d : discipline) : bool := match d with Racy => false | _ => true end.

Section SharedAppend.
Context {A : Type}.

Definition some_list (o : option A) : list A := match o with Some v => [v] | None => [] end.
(* the sequential answer: every existing item once, in request order *)
Definition found (items : list (option A)) : list A := flat_map some_list items.

Definition lookup (items : list (option A)) (i : nat) : option A :=
  match nth_error items i with Some o => o | None => None end.

(* ---------- slots ---------- *)
Fixpoint set_nth {B} (n : nat) (x : B) (l : list B) : list B :=
  match l, n with
  | [], _ => []
  | _ :: t, O => x :: t
  | y :: t, S n' => y :: set_nth n' x t
  end.

Definition slot_step (items : list (option A)) (s : list (option A)) (i : nat) : list (option A) :=
  set_nth i (lookup items i) s.
Definition run_slots (items : list (option A)) (sched : list nat) : list (option A) :=
  fold_left (slot_step items) sched (repeat None (length items)).
Definition result_slots items sched : list A := found (run_slots items sched).

Lemma set_nth_length : forall B n (x : B) l, length (set_nth n x l) = length l.
Proof. intros B n x l. revert n. induction l; destruct n; simpl; auto. Qed.
Lemma nth_error_set_nth_eq : forall B n (x : B) l, n < length l -> nth_error (set_nth n x l) n = Some x.
Proof. intros B n x l. revert n. induction l; destruct n; simpl; intros; try lia; auto. apply IHl. lia. Qed.
Lemma nth_error_set_nth_neq : forall B n j (x : B) l, n <> j -> nth_error (set_nth n x l) j = nth_error l j.
Proof.
  intros B n j x l. revert n j. induction l; destruct n, j; simpl; intros; try congruence; auto.
Qed.

Lemma run_slots_gen : forall items sched s, length s = length items ->
  let r := fold_left (slot_step items) sched s in
  length r = length items /\
  forall j, j < length items ->
    (In j sched -> nth_error r j = Some (lookup items j)) /\ (~ In j sched -> nth_error r j = nth_error s j).
Proof.
  intros items sched. induction sched as [|i rest IH]; intros s Hl; simpl.
  - split; auto. intros j Hj. split; [contradiction|auto].
  - assert (Hl1 : length (slot_step items s i) = length items) by (unfold slot_step; rewrite set_nth_length; auto).
    destruct (IH _ Hl1) as [Hlen Hall]. split; auto. intros j Hj. destruct (Hall j Hj) as [Hin Hnin]. split.
    + intros [->|Hr].
      * destruct (in_dec Nat.eq_dec j rest) as [Hi|Hi]; auto.
        rewrite (Hnin Hi). unfold slot_step. apply nth_error_set_nth_eq. lia.
      * auto.
    + intros Hn. rewrite Hnin by tauto. unfold slot_step. apply nth_error_set_nth_neq. tauto.
Qed.

Lemma nth_error_ext : forall B (l1 l2 : list B), length l1 = length l2 ->
  (forall j, j < length l1 -> nth_error l1 j = nth_error l2 j) -> l1 = l2.
Proof.
  intros B l1. induction l1 as [|x l1 IH]; destruct l2 as [|y l2]; simpl; intros Hl H; try discriminate; auto.
  f_equal.
  - specialize (H 0 ltac:(lia)). simpl in H. congruence.
  - apply IH; [lia|]. intros j Hj. apply (H (S j)). lia.
Qed.

(* whatever the order in which the goroutines run, the slot array ends up equal to the lookups *)
Theorem slots_exact : forall items sched,
  (forall i, i < length items -> In i sched) -> run_slots items sched = items.
Proof.
  intros items sched Hall. unfold run_slots.
  destruct (run_slots_gen items sched (repeat None (length items)) (repeat_length _ _)) as [Hlen H].
  apply nth_error_ext; auto. intros j Hj. rewrite Hlen in Hj. destruct (H j Hj) as [Hin _].
  rewrite (Hin (Hall j Hj)). unfold lookup. destruct (nth_error items j) eqn:E; auto.
  apply nth_error_None in E. lia.
Qed.

(* ---------- locked append ---------- *)
Definition run_locked (items : list (option A)) (sched : list nat) : list A :=
  fold_left (fun s i => s ++ some_list (lookup items i)) sched [].

Lemma fold_append_flat_map : forall (f : nat -> list A) sched s,
  fold_left (fun s i => s ++ f i) sched s = s ++ flat_map f sched.
Proof.
  intros f sched. induction sched; intros s; simpl; [rewrite app_nil_r; auto|].
  rewrite IHsched. rewrite <- app_assoc. reflexivity.
Qed.

Lemma found_as_seq : forall items,
  found items = flat_map (fun i => some_list (lookup items i)) (seq 0 (length items)).
Proof.
  intros items. unfold found.
  assert (G : forall pre, flat_map some_list items =
             flat_map (fun i => some_list (lookup (pre ++ items) i)) (seq (length pre) (length items))).
  { induction items as [|o items IH]; intros pre; simpl; auto.
    f_equal.
    - unfold lookup. rewrite nth_error_app2 by lia. rewrite Nat.sub_diag. reflexivity.
    - specialize (IH (pre ++ [o])). rewrite <- app_assoc in IH. simpl in IH. rewrite app_length in IH.
      simpl in IH. rewrite Nat.add_1_r in IH. exact IH. }
  exact (G []).
Qed.

Theorem locked_permutation : forall items sched,
  Permutation sched (seq 0 (length items)) -> Permutation (run_locked items sched) (found items).
Proof.
  intros items sched Hp. unfold run_locked. rewrite fold_append_flat_map. simpl.
  rewrite found_as_seq. apply Permutation_flat_map. exact Hp.
Qed.

(* ---------- the two sound disciplines return every existing item exactly once ---------- *)
Theorem bulk_lookup_exactly_once : forall items sched,
  Permutation sched (seq 0 (length items)) ->
  result_slots items sched = found items /\ Permutation (run_locked items sched) (found items).
Proof.
  intros items sched Hp. split.
  - unfold result_slots. rewrite slots_exact; auto. intros i Hi.
    apply (Permutation_in i (Permutation_sym Hp)). apply in_seq. lia.
  - apply locked_permutation; auto.
Qed.

(* ---------- racy append: read the shared slice, later write back the extended copy ---------- *)
Inductive ev := Rd (i : nat) | Wr (i : nat).
(* state: the shared slice and each goroutine's private copy taken at its read *)
Definition racy_step (items : list (option A)) (st : list A * list (nat * list A)) (e : ev) :=
  let '(s, tmp) := st in
  match e with
  | Rd i => (s, (i, s) :: tmp)
  | Wr i => match find (fun p => fst p =? i) tmp with
            | Some (_, t) => (t ++ some_list (lookup items i), tmp)
            | None => (s, tmp)
            end
  end.
Definition run_racy items (sched : list ev) : list A := fst (fold_left (racy_step items) sched ([], [])).

Fixpoint ev_pos (e : ev) (sched : list ev) : option nat :=
  match sched with
  | [] => None
  | x :: t => if (match e, x with Rd i, Rd j | Wr i, Wr j => i =? j | _, _ => false end) then Some 0
              else option_map S (ev_pos e t)
  end.
(* each goroutine reads once, then writes once *)
Definition valid_racy_sched (n : nat) (sched : list ev) : bool :=
  (length sched =? 2 * n) &&
  forallb (fun i => match ev_pos (Rd i) sched, ev_pos (Wr i) sched with
                    | Some a, Some b => a <? b | _, _ => false end) (seq 0 n).
End SharedAppend.

(* two goroutines read the empty slice before either writes: the first item is lost *)
Theorem racy_append_loses_refuted :
  exists (items : list (option nat)) sched,
    valid_racy_sched (length items) sched = true /\
    length (run_racy items sched) < length (found items) /\
    ~ Permutation (run_racy items sched) (found items).
Proof.
  exists [Some 1; Some 2], [Rd 0; Rd 1; Wr 0; Wr 1]. split; [reflexivity|]. split; [simpl; lia|].
  intros H. apply Permutation_length in H. simpl in H. discriminate.
Qed.

(* and with the goroutines serialised (each read immediately followed by its write) nothing is lost: the defect is the race *)
Example racy_append_serial_ok :
  run_racy [Some 1; None; Some 3] [Rd 2; Wr 2; Rd 0; Wr 0; Rd 1; Wr 1] = [3; 1].
Proof. reflexivity. Qed.
