(* Conc/Atomic.v — "one critical section per operation".
   The sequential models (Pool/TxPool.v, the block cache, the certificate pool, the staged store) treat every method of a
   lock-owning object as ONE atomic step.  That is only faithful if the method enters the object's own lock at most once
   per call: a method that checks under one critical section, releases, and mutates under a second one (check-then-act
   across sections, e.g. an Add that decides "pool is full" under a read lock, calls the verifier unlocked and inserts
   under the write lock) is a different state machine - two atomic steps with a possibly stale decision in between - and
   the invariants proved for the single-step model say nothing about it.
   [entries l p] bounds, over all paths of the calling goroutine, how often p acquires l (capped at 2; an acquisition
   inside a loop counts as "more than once"; goroutines started by p are other callers). *)
From Coq Require Import List Arith Bool.
From LE Require Import Conc.RWMutex Conc.Skeleton.
Import ListNotations.

Fixpoint entries (l : nat) (p : prog) : nat :=
  match p with
  | Acq l' _ => if l' =? l then 1 else 0
  | Seq a b => Nat.min 2 (entries l a + entries l b)
  | Alt a b => Nat.max (entries l a) (entries l b)
  | Loop a => if entries l a =? 0 then 0 else 2
  | _ => 0
  end.

Definition single_section (l : nat) (p : prog) : bool := entries l p <=? 1.

(* the shape of the split Add: RLock..RUnlock; call; Lock..Unlock *)
Example split_add_rejected :
  single_section 0 (Seq (Seq (Acq 0 R) (Rel 0 R)) (Seq Call (Seq (Acq 0 W) (Rel 0 W)))) = false.
Proof. reflexivity. Qed.
Example one_section_with_early_returns_accepted :
  single_section 0 (Seq (Acq 0 W) (Alt (Rel 0 W) (Seq Call (Alt (Rel 0 W) (Seq (Seq (Acq 1 W) (Rel 1 W)) (Rel 0 W)))))) = true.
Proof. reflexivity. Qed.
Example two_paths_one_entry_each_accepted :
  single_section 0 (Alt (Seq (Acq 0 R) (Rel 0 R)) (Seq (Acq 0 W) (Rel 0 W))) = true.
Proof. reflexivity. Qed.

(* ---- "lock l is never held at an operation that may wait for another party" ----
   [wu l held p] = (is l held afterwards on some path, does some Block or Guarded operation happen while l is held).
   Stronger than the premise of the progress theorem for Guarded (which the theorem treats as a step): for the emitter
   it says that neither a plain send nor a select on a subscriber channel ever happens under the emitter lock. *)
Fixpoint wu (l : nat) (held : bool) (p : prog) : bool * bool :=
  match p with
  | Acq l' _ => (if l' =? l then true else held, false)
  | Rel l' _ => (if l' =? l then false else held, false)
  | Block | Guarded => (held, held)
  | Seq a b => let '(h1, b1) := wu l held a in let '(h2, b2) := wu l h1 b in (h2, b1 || b2)
  | Alt a b => let '(h1, b1) := wu l held a in let '(h2, b2) := wu l held b in (h1 || h2, b1 || b2)
  | Loop a => let '(h1, b1) := wu l held a in (held || h1, b1)
  | Go a => (held, snd (wu l false a))
  | _ => (held, false)
  end.
Definition never_waits_holding (l : nat) (p : prog) : bool := negb (snd (wu l false p)).

(* the pre-fix Publish: Lock; for each subscriber: out <- msg; Unlock *)
Example old_publish_waits_holding :
  never_waits_holding 0 (Seq (Acq 0 W) (Seq (Loop Block) (Rel 0 W))) = false /\
  safe_prog 1 (Seq (Acq 0 W) (Seq (Loop Block) (Rel 0 W))) = false.
Proof. split; reflexivity. Qed.
(* the repaired one: copy the list under the read lock, then per subscriber: sendMutex.RLock; select{send, <-done}; RUnlock *)
Example new_publish_ok :
  let p := Seq (Acq 0 R) (Seq (Rel 0 R) (Loop (Seq (Acq 1 R) (Seq Guarded (Rel 1 R))))) in
  never_waits_holding 0 p = true /\ never_waits_holding 1 p = false /\ safe_prog 2 p = true.
Proof. repeat split; reflexivity. Qed.

(* ---- "takes its own lock exactly once, in the expected mode, on EVERY path" ----
   [entries] is an upper bound over paths; [min_entries] the lower bound (a path that never locks gives 0);
   [entries_m] counts acquisitions in one mode.  A method pinned as (l, m) must have max = min = 1 and no acquisition of l
   in the other mode; a helper pinned as "called with the lock held" must never acquire it. *)
Fixpoint min_entries (l : nat) (p : prog) : nat :=
  match p with
  | Acq l' _ => if l' =? l then 1 else 0
  | Seq a b => Nat.min 2 (min_entries l a + min_entries l b)
  | Alt a b => Nat.min (min_entries l a) (min_entries l b)
  | _ => 0
  end.
Fixpoint entries_m (l : nat) (m : mode) (p : prog) : nat :=
  match p with
  | Acq l' m' => if (l' =? l) && mode_eqb m' m then 1 else 0
  | Seq a b => Nat.min 2 (entries_m l m a + entries_m l m b)
  | Alt a b => Nat.max (entries_m l m a) (entries_m l m b)
  | Loop a => if entries_m l m a =? 0 then 0 else 2
  | _ => 0
  end.
Definition other_mode (m : mode) : mode := match m with R => W | W => R end.
Definition locks_exactly_once (l : nat) (m : mode) (p : prog) : bool :=
  (entries l p =? 1) && (min_entries l p =? 1) && (entries_m l (other_mode m) p =? 0).
Definition never_locks (l : nat) (p : prog) : bool := entries l p =? 0.

Example unlocked_reader_rejected : locks_exactly_once 0 R Call = false. Proof. reflexivity. Qed.
Example wrong_mode_rejected : locks_exactly_once 0 W (Seq (Acq 0 R) (Seq Call (Rel 0 R))) = false. Proof. reflexivity. Qed.
Example lock_on_one_path_only_rejected : locks_exactly_once 0 W (Alt Skip (Seq (Acq 0 W) (Rel 0 W))) = false. Proof. reflexivity. Qed.
Example locked_mutator_accepted :
  locks_exactly_once 0 W (Seq (Acq 0 W) (Alt (Rel 0 W) (Seq Call (Rel 0 W)))) = true. Proof. reflexivity. Qed.
