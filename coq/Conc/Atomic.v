(* Conc/Atomic.v — "one critical section per operation".
   The sequential models (Pool/TxPool.v, the block cache, the certificate pool, the staged store) treat every method of a
   lock-owning object as ONE atomic step.  That is only faithful if the method enters the object's own lock at most once
   per call: a method that checks under one critical section, releases, and mutates under a second one (check-then-act
   across sections, e.g. an Add that decides "pool is full" under a read lock, calls the verifier unlocked and inserts
   under the write lock) is a different state machine - two atomic steps with a possibly stale decision in between - and
   the invariants proved for the single-step model say nothing about it.
   [entries l p] bounds, over all paths of the calling goroutine, how often p acquires l (capped at 2; an acquisition
   inside a loop counts as "more than once"; goroutines started by p are other callers). *)
From Coq Require Import List Arith Bool.
From LE Require Import Conc.RWMutex Conc.Skeleton.
Import ListNotations.

Fixpoint entries (l : nat) (p : prog) : nat :=
  match p with
  | Acq l' _ => if l' =? l then 1 else 0
  | Seq a b => Nat.min 2 (entries l a + entries l b)
  | Alt a b => Nat.max (entries l a) (entries l b)
  | Loop a => if entries l a =? 0 then 0 else 2
  | _ => 0
  end.

Definition single_section (l : nat) (p : prog) : bool := entries l p <=? 1.

(* the shape of the split Add: RLock..RUnlock; call; Lock..Unlock *)
Example split_add_rejected :
  single_section 0 (Seq (Seq (Acq 0 R) (Rel 0 R)) (Seq Call (Seq (Acq 0 W) (Rel 0 W)))) = false.
Proof. reflexivity. Qed.
Example one_section_with_early_returns_accepted :
  single_section 0 (Seq (Acq 0 W) (Alt (Rel 0 W) (Seq Call (Alt (Rel 0 W) (Seq (Seq (Acq 1 W) (Rel 1 W)) (Rel 0 W)))))) = true.
Proof. reflexivity. Qed.
Example two_paths_one_entry_each_accepted :
  single_section 0 (Alt (Seq (Acq 0 R) (Rel 0 R)) (Seq (Acq 0 W) (Rel 0 W))) = true.
Proof. reflexivity. Qed.
