(* Conc/Skeleton.v — lock/blocking skeletons of Go methods and their interleaving semantics.
   A skeleton keeps only what matters for blocking: lock acquisitions/releases, operations that may block on another
   goroutine or the environment (channel send/receive, WaitGroup/errgroup Wait), opaque non-blocking calls, control flow
   (sequence, choice, iteration) and goroutine creation.  coq/Gen/Skeletons.v is regenerated from /repo on every run. *)
From Coq Require Import List Arith Lia Bool.
From LE Require Import Conc.RWMutex.
Import ListNotations.

Inductive prog :=
| Skip
| Acq (l : nat) (m : mode)
| Rel (l : nat) (m : mode)
| Block                      (* may wait for another goroutine / the environment *)
| Call                       (* opaque call assumed to return (callback, interface method of an untranslated package) *)
| Guarded                    (* a select with a default arm, or with a quit arm (receive from a channel that the party able to
                                end the wait closes BEFORE it asks for any lock): it may wait for a peer, but it is always
                                released - by the peer or by the quit signal - so it is a step, not a Block.  Plain channel
                                sends/receives, range over a channel, Wait() and selects without such an arm are Block. *)
| Seq (a b : prog)
| Alt (a b : prog)
| Loop (a : prog)
| Go (a : prog).

(* a thread: held locks, continuation stack, "Lock() announced" flag (the writer is queued and blocks new readers) *)
Record thread := mkT { held : held_t; stack : list prog; ann : bool }.
Definition config := list thread.

Definition pendingb (t : thread) (l : nat) : bool :=
  ann t && match stack t with Acq l' W :: _ => l' =? l | _ => false end.

(* one thread steps inside configuration [cfg] (which contains the thread itself), possibly spawning threads *)
Inductive tstep (cfg : config) : thread -> thread -> list thread -> Prop :=
| s_skip : forall h k a, tstep cfg (mkT h (Skip :: k) a) (mkT h k a) []
| s_call : forall h k a, tstep cfg (mkT h (Call :: k) a) (mkT h k a) []
| s_guarded : forall h k a, tstep cfg (mkT h (Guarded :: k) a) (mkT h k a) []
| s_seq : forall h p q k a, tstep cfg (mkT h (Seq p q :: k) a) (mkT h (p :: q :: k) a) []
| s_alt_l : forall h p q k a, tstep cfg (mkT h (Alt p q :: k) a) (mkT h (p :: k) a) []
| s_alt_r : forall h p q k a, tstep cfg (mkT h (Alt p q :: k) a) (mkT h (q :: k) a) []
| s_loop_exit : forall h p k a, tstep cfg (mkT h (Loop p :: k) a) (mkT h k a) []
| s_loop_iter : forall h p k a, tstep cfg (mkT h (Loop p :: k) a) (mkT h (p :: Loop p :: k) a) []
| s_go : forall h p k a, tstep cfg (mkT h (Go p :: k) a) (mkT h k a) [mkT [] [p] false]
| s_rel : forall h l m k a, tstep cfg (mkT h (Rel l m :: k) a) (mkT (remove_one (l, m) h) k a) []
| s_rlock : forall h l k,
    existsb (fun u => holdsWb (held u) l || pendingb u l) cfg = false ->
    tstep cfg (mkT h (Acq l R :: k) false) (mkT ((l, R) :: h) k false) []
| s_announce : forall h l k, tstep cfg (mkT h (Acq l W :: k) false) (mkT h (Acq l W :: k) true) []
| s_wlock : forall h l k,
    existsb (fun u => holdsb (held u) l) cfg = false ->
    tstep cfg (mkT h (Acq l W :: k) true) (mkT ((l, W) :: h) k false) [].

Inductive step : config -> config -> Prop :=
| step_at : forall pre t t' post sp,
    tstep (pre ++ t :: post) t t' sp -> step (pre ++ t :: post) (pre ++ t' :: post ++ sp).

(* the environment (another goroutine outside the skeleton, a channel peer, a WaitGroup reaching zero) lets a Block pass *)
Inductive env_step : config -> config -> Prop :=
| env_at : forall pre h k a post, env_step (pre ++ mkT h (Block :: k) a :: post) (pre ++ mkT h k a :: post).

Definition init (progs : list prog) : config := map (fun p => mkT [] [p] false) progs.

Inductive reachable (c0 : config) : config -> Prop :=
| r_refl : reachable c0 c0
| r_step : forall c c', reachable c0 c -> step c c' -> reachable c0 c'
| r_env : forall c c', reachable c0 c -> env_step c c' -> reachable c0 c'.

Definition finished (c : config) : Prop := Forall (fun t => stack t = []) c.
(* every unfinished thread is parked at a blocking operation and owns no lock: only the environment is awaited *)
Definition env_parked (c : config) : Prop :=
  Forall (fun t => stack t = [] \/ (held t = [] /\ exists k, stack t = Block :: k)) c.

(* ---- the static discipline, as a typing judgement  h |- p -| h'  (held set before / after) ----
   [M] bounds the lock identifiers; identifiers are the positions of the locks in the one fixed acquisition order. *)
Inductive typed (M : nat) : held_t -> prog -> held_t -> Prop :=
| T_skip : forall h, typed M h Skip h
| T_call : forall h, typed M h Call h
| T_guarded : forall h, typed M h Guarded h
| T_acq : forall h l m, l < M -> (forall x, In x h -> fst x < l) -> typed M h (Acq l m) ((l, m) :: h)
      (* never a lock already held (any mode), nested acquisitions strictly ascending in the fixed order *)
| T_rel : forall h l m, In (l, m) h -> typed M h (Rel l m) (remove_one (l, m) h)
| T_block : typed M [] Block []                                  (* blocking only with no lock held *)
| T_seq : forall h h1 h2 a b, typed M h a h1 -> typed M h1 b h2 -> typed M h (Seq a b) h2
| T_alt : forall h h' a b, typed M h a h' -> typed M h b h' -> typed M h (Alt a b) h'   (* balanced on every path *)
| T_loop : forall h a, typed M h a h -> typed M h (Loop a) h
| T_go : forall h a, typed M [] a [] -> typed M h (Go a) h.

Definition safe (M : nat) (p : prog) : Prop := typed M [] p [].

(* ---- boolean checker ---- *)
Fixpoint exec (M : nat) (h : held_t) (p : prog) : option held_t :=
  match p with
  | Skip | Call | Guarded => Some h
  | Acq l m => if (l <? M) && forallb (fun x => fst x <? l) h then Some ((l, m) :: h) else None
  | Rel l m => if holds_modeb h l m then Some (remove_one (l, m) h) else None
  | Block => match h with [] => Some [] | _ => None end
  | Seq a b => match exec M h a with Some h1 => exec M h1 b | None => None end
  | Alt a b => match exec M h a, exec M h b with
               | Some h1, Some h2 => if held_eqb h1 h2 then Some h1 else None
               | _, _ => None
               end
  | Loop a => match exec M h a with Some h1 => if held_eqb h1 h then Some h else None | None => None end
  | Go a => match exec M [] a with Some [] => Some h | _ => None end
  end.

Definition safe_prog (M : nat) (p : prog) : bool :=
  match exec M [] p with Some [] => true | _ => false end.

Lemma exec_sound : forall M p h h', exec M h p = Some h' -> typed M h p h'.
Proof.
  intros M p. induction p; intros h h' H; simpl in H.
  - inversion H; subst. constructor.
  - destruct ((l <? M) && forallb (fun x => fst x <? l) h) eqn:E; [|discriminate]. inversion H; subst.
    apply andb_true_iff in E. destruct E as [E1 E2]. apply Nat.ltb_lt in E1. constructor; auto.
    intros x Hx. rewrite forallb_forall in E2. apply Nat.ltb_lt. auto.
  - destruct (holds_modeb h l m) eqn:E; [|discriminate]. inversion H; subst. constructor. apply holds_modeb_In. auto.
  - destruct h; [|discriminate]. inversion H; subst. constructor.
  - inversion H; subst. constructor.
  - inversion H; subst. constructor.
  - destruct (exec M h p1) eqn:E1; [|discriminate]. econstructor; eauto.
  - destruct (exec M h p1) eqn:E1; [|discriminate]. destruct (exec M h p2) eqn:E2; [|discriminate].
    destruct (held_eqb h0 h1) eqn:E; [|discriminate]. inversion H; subst. apply held_eqb_eq in E. subst.
    constructor; auto.
  - destruct (exec M h p) eqn:E1; [|discriminate]. destruct (held_eqb h0 h) eqn:E; [|discriminate].
    inversion H; subst. apply held_eqb_eq in E. subst. constructor; auto.
  - destruct (exec M [] p) as [[|]|] eqn:E1; try discriminate. inversion H; subst. constructor; auto.
Qed.

Theorem safe_prog_sound : forall M p, safe_prog M p = true -> safe M p.
Proof.
  unfold safe_prog, safe. intros M p H. destruct (exec M [] p) as [[|]|] eqn:E; try discriminate.
  apply exec_sound; auto.
Qed.

(* the discipline does not depend on the bound beyond covering the identifiers *)
Lemma typed_weaken : forall M M' h p h', M <= M' -> typed M h p h' -> typed M' h p h'.
Proof. intros M M' h p h' Hle H. induction H; econstructor; eauto; lia. Qed.
