(* Conc/RWMutex.v — lock modes, held sets and the admission rules of Go's sync.RWMutex
   (writer-preferring: a Lock() that has been announced blocks new RLock()s; sync.Mutex = RWMutex used in mode W only).
   The lock state is *derived* from the threads' held sets, so there is no separate lock invariant. *)
From Coq Require Import List Arith Lia Bool.
Import ListNotations.

Inductive mode := R | W.

Definition mode_eqb (a b : mode) : bool := match a, b with R, R | W, W => true | _, _ => false end.

Lemma mode_eqb_eq : forall a b, mode_eqb a b = true <-> a = b.
Proof. destruct a, b; simpl; split; congruence. Qed.

(* a held set: the (lock, mode) pairs a thread currently owns, most recent first *)
Definition held_t := list (nat * mode).

Definition holdsb (h : held_t) (l : nat) : bool := existsb (fun x => fst x =? l) h.
Definition holdsWb (h : held_t) (l : nat) : bool := existsb (fun x => (fst x =? l) && mode_eqb (snd x) W) h.
Definition holds_modeb (h : held_t) (l : nat) (m : mode) : bool :=
  existsb (fun x => (fst x =? l) && mode_eqb (snd x) m) h.

Fixpoint remove_one (x : nat * mode) (h : held_t) : held_t :=
  match h with
  | [] => []
  | y :: t => if (fst x =? fst y) && mode_eqb (snd x) (snd y) then t else y :: remove_one x t
  end.

Fixpoint held_eqb (a b : held_t) : bool :=
  match a, b with
  | [], [] => true
  | x :: a', y :: b' => (fst x =? fst y) && mode_eqb (snd x) (snd y) && held_eqb a' b'
  | _, _ => false
  end.

Lemma held_eqb_eq : forall a b, held_eqb a b = true -> a = b.
Proof.
  induction a as [|[l m] a IH]; destruct b as [|[l' m'] b]; simpl; intros H; try discriminate; auto.
  apply andb_true_iff in H. destruct H as [H H3]. apply andb_true_iff in H. destruct H as [H1 H2].
  apply Nat.eqb_eq in H1. apply mode_eqb_eq in H2. subst. f_equal. auto.
Qed.

Lemma holdsW_holds : forall h l, holdsWb h l = true -> holdsb h l = true.
Proof.
  unfold holdsWb, holdsb. intros. apply existsb_exists in H. destruct H as (x & Hin & Hx).
  apply andb_true_iff in Hx. apply existsb_exists. exists x. tauto.
Qed.

Lemma holds_modeb_In : forall h l m, holds_modeb h l m = true -> In (l, m) h.
Proof.
  unfold holds_modeb. intros. apply existsb_exists in H. destruct H as ([l' m'] & Hin & Hx). simpl in Hx.
  apply andb_true_iff in Hx. destruct Hx as [H1 H2]. apply Nat.eqb_eq in H1. apply mode_eqb_eq in H2. subst. auto.
Qed.

Lemma holdsb_In : forall h l, holdsb h l = true -> exists m, In (l, m) h.
Proof.
  unfold holdsb. intros. apply existsb_exists in H. destruct H as ([l' m'] & Hin & Hx). simpl in Hx.
  apply Nat.eqb_eq in Hx. subst. eauto.
Qed.

(* admission rules, over the held sets of ALL threads (the requester included) and the announced writers *)
Definition can_rlock (holders : list held_t) (pending : list nat) (l : nat) : bool :=
  negb (existsb (fun h => holdsWb h l) holders) && negb (existsb (Nat.eqb l) pending).
Definition can_wlock (holders : list held_t) (l : nat) : bool :=
  negb (existsb (fun h => holdsb h l) holders).
