(* Conc/Instances.v — the progress theorem instantiated on the skeletons regenerated from /repo (coq/Gen/Skeletons.v).
   Every statement is about ANY number of goroutines, each running ANY function of the named component. *)
From Coq Require Import List Bool.
From LE Require Import Conc.RWMutex Conc.Skeleton Conc.Progress Conc.Atomic Gen.Skeletons.
Import ListNotations.

Definition progress3 (ops : list prog) : Prop :=
  forall progs, Forall (fun p => In p ops) progs ->
  forall c, reachable (init progs) c -> finished c \/ (exists c', step c c') \/ env_parked c.
Definition progress2 (ops : list prog) : Prop :=
  forall progs, Forall (fun p => In p ops) progs ->
  forall c, reachable (init progs) c -> finished c \/ exists c', step c c'.
Definition lock_waiters_live (ops : list prog) : Prop :=
  forall progs, Forall (fun p => In p ops) progs ->
  forall c t l m k, reachable (init progs) c -> In t c -> stack t = Acq l m :: k -> exists c', step c c'.

Lemma progress3_of : forall ops, forallb (safe_prog n_locks) ops = true -> progress3 ops.
Proof. intros ops H progs Hin. eapply library_progress; eauto. Qed.
Lemma progress2_of : forall ops, forallb (safe_prog n_locks) ops = true -> forallb blockfree ops = true -> progress2 ops.
Proof. intros ops H Hb progs Hin. eapply blockfree_library_progress; eauto. Qed.
Lemma lock_waiters_live_of : forall ops, forallb (safe_prog n_locks) ops = true -> lock_waiters_live ops.
Proof.
  intros ops H progs Hin c t l m k Hr Ht Hs.
  apply (lock_waiter_never_stuck n_locks progs) with (t := t) (l := l) (m := m) (k := k); auto.
  rewrite forallb_forall in H. eapply Forall_impl; [|exact Hin]. intros p Hp. apply safe_prog_sound. auto.
Qed.

(* the whole listed code base at once: chain, cache, data access, certificate pool, emitter, staged store, sync, tx pool *)
Lemma all_ops_safe : forallb (safe_prog n_locks) all_ops = true.
Proof. vm_compute. reflexivity. Qed.
Theorem all_ops_progress : progress3 all_ops.
Proof. apply progress3_of. exact all_ops_safe. Qed.
Theorem all_ops_lock_waiters_live : lock_waiters_live all_ops.
Proof. apply lock_waiters_live_of. exact all_ops_safe. Qed.

(* components without any blocking operation: finished or can step, nothing else *)
Theorem blockCache_progress : progress2 ops_blockCache.
Proof. apply progress2_of; vm_compute; reflexivity. Qed.
Theorem certificate_pool_progress : progress2 ops_Pool.
Proof. apply progress2_of; vm_compute; reflexivity. Qed.
(* the emitter and its subscriptions.  No assumption about subscribers: a plain channel send is a Block in the skeleton
   (the pre-fix Publish - Lock; for ... out <- msg; Unlock - is therefore NOT a safe program); the only operation that may
   wait for a subscriber is subscription.send's select{send, <-done}, a Guarded step taken under the subscription's send
   mutex only.  (1) all emitter/subscription code is safe and free of Block: finished or can step;  (2) the emitter lock
   rwMutex is never held at any operation that may wait (Block or Guarded), in any function of the package. *)
Definition emitter_ops : list prog := ops_EventEmitter ++ ops_subscription.
Theorem event_emitter_progress : progress2 emitter_ops.
Proof. apply progress2_of; vm_compute; reflexivity. Qed.
Theorem emitter_lock_never_held_while_waiting :
  forallb (never_waits_holding lk_EventEmitter_rwMutex) (emitter_ops ++ ops_event_funcs) = true.
Proof. vm_compute. reflexivity. Qed.
Theorem diffdb_progress : progress2 ops_Database.
Proof. apply progress2_of; vm_compute; reflexivity. Qed.
(* single-lock readers and the consensus writer together: the scenario of the stress harness *)
Theorem chain_readers_writer_progress : progress3 (ops_blockCache ++ ops_DataAccess ++ ops_Chain).
Proof. apply progress3_of; vm_compute; reflexivity. Qed.
Theorem sync_progress : progress3 (ops_blockSyncer ++ ops_Syncer ++ ops_DataAccess ++ ops_Chain).
Proof. apply progress3_of; vm_compute; reflexivity. Qed.

(* ---- transaction pool (C14) ---- *)
Definition pool_api : list prog :=
  [skel_TransactionPool_Get; skel_TransactionPool_GetAll; skel_TransactionPool_GetProcessable;
   skel_TransactionPool_Add; skel_TransactionPool_Remove; skel_TransactionPool_Subscribe].
Definition pool_all : list prog := ops_TransactionPool ++ ops_addressTransactions ++ ops_EventEmitter ++ ops_subscription.

(* API calls alone (any number of concurrent callers): no blocking operation at all *)
Theorem pool_api_progress : progress2 pool_api.
Proof. apply progress2_of; vm_compute; reflexivity. Qed.
(* API calls mixed with the reorg ticker, announcement handler and event emitter: nobody ever waits for a lock forever;
   the only parked threads are reorg's wg.Wait / Start's select, which own no lock *)
Theorem pool_all_progress : progress3 pool_all.
Proof. apply progress3_of; vm_compute; reflexivity. Qed.
Theorem pool_lock_waiters_live : lock_waiters_live pool_all.
Proof. apply lock_waiters_live_of; vm_compute; reflexivity. Qed.
(* the order actually used: pool mutex strictly before the per-sender list mutex *)
Example pool_lock_order : lk_TransactionPool_mutex < lk_addressTransactions_mutex.
Proof. vm_compute. repeat constructor. Qed.
