(* Proofs about Store.DiffDB, part 3: the refinement theorem. Every operation of the multi-view staged store
   (get/has/set/del/range/iterate/snapshot/restore/delete-snapshot/with-prefix) returns what the same operation
   returns on the specification state (ONE sorted map + saved maps), for every operation sequence. *)
From Coq Require Import List NArith ZArith Bool Lia.
From LE Require Import Base.Lex Store.SMap Store.PebbleIter Store.PebbleIterProofs Store.DiffDB Store.DiffDBProofs
  Store.DiffDBScanProofs Store.DiffDBSpec.
Import ListNotations.

(* a cache represents a sorted map over the store *)
Definition rep (db : smap) (c : cache) (m : smap) : Prop :=
  Inv db c /\ sorted m /\ forall k, lookup m k = overlay db c k.

Definition snap_rel (db : smap) (a : N * cache) (b : N * smap) : Prop := fst a = fst b /\ rep db (snd a) (snd b).
Definition view_rel (db : smap) (dv : view) (sv : sview) : Prop :=
  v_prefix dv = sv_prefix sv /\ wf_key (v_prefix dv) /\ v_count dv = sv_count sv /\
  Forall2 (snap_rel db) (v_snaps dv) (sv_snaps sv).
Definition R (db : smap) (d : dstate) (s : sstate) : Prop :=
  rep db (d_cache d) (s_map s) /\ Forall2 (view_rel db) (d_views d) (s_views s).

Definition op_wf (o : op) : Prop :=
  match o with
  | OIterate _ p _ _ => wf_key p
  | OWithPrefix _ p => wf_key p
  | _ => True
  end.

(* ------------------------------------------------------------------ Forall2 helpers *)
Lemma Forall2_nth_error : forall {A B} (P : A -> B -> Prop) l1 l2 i, Forall2 P l1 l2 ->
  match nth_error l1 i, nth_error l2 i with
  | Some a, Some b => P a b
  | None, None => True
  | _, _ => False
  end.
Proof.
  intros A B P l1 l2 i H. revert i. induction H; intros [|i]; simpl; auto. apply IHForall2.
Qed.

Lemma Forall2_set_nth : forall {A B} (P : A -> B -> Prop) l1 l2 i a b, Forall2 P l1 l2 -> P a b ->
  Forall2 P (set_nth l1 i a) (set_nth l2 i b).
Proof.
  intros A B P l1 l2 i a b H Hab. revert i. induction H; intros [|i]; simpl; constructor; auto.
Qed.

Lemma snap_get_rel : forall db l1 l2 id, Forall2 (snap_rel db) l1 l2 ->
  match snap_get l1 id, snap_get l2 id with
  | Some c, Some m => rep db c m
  | None, None => True
  | _, _ => False
  end.
Proof.
  intros db l1 l2 id H. induction H as [|[i c] [j m] l1 l2 [E Hr] H IH]; simpl; auto.
  simpl in E. subst j. destruct (i =? id)%N; auto.
Qed.

Lemma snap_del_rel : forall db l1 l2 id, Forall2 (snap_rel db) l1 l2 ->
  Forall2 (snap_rel db) (snap_del l1 id) (snap_del l2 id).
Proof.
  intros db l1 l2 id H. induction H as [|[i c] [j m] l1 l2 [E Hr] H IH]; simpl; auto.
  simpl in E. subst j. destruct (i =? id)%N; auto. constructor; auto. split; auto.
Qed.

(* ------------------------------------------------------------------ one step *)
Lemma rep_nil : forall db, sorted db -> rep db [] db.
Proof. intros. split; [apply Inv_nil|]. split; auto. Qed.

Lemma R_intro : forall db c m dviews sviews, Inv db c -> sorted m -> (forall k, lookup m k = overlay db c k) ->
  Forall2 (view_rel db) dviews sviews ->
  R db {| d_cache := c; d_views := dviews |} {| s_map := m; s_views := sviews |}.
Proof. intros. split; [split; [|split]|]; assumption. Qed.

Theorem step_refines : forall db d s o, sorted db -> wf_db db -> R db d s -> op_wf o ->
  snd (step db d o) = snd (spec_step s o) /\ R db (fst (step db d o)) (fst (spec_step s o)).
Proof.
  intros db d s o Hsdb Hwdb [Hrep Hviews] Hwf.
  destruct Hrep as (HI & Hsm & Hm).
  assert (Hnth : forall i, match nth_error (d_views d) i, nth_error (s_views s) i with
                           | Some a, Some b => view_rel db a b | None, None => True | _, _ => False end)
    by (intros; apply Forall2_nth_error; auto).
  destruct d as [c dviews]. destruct s as [m sviews]. simpl in *.
  assert (HR0 : R db {| d_cache := c; d_views := dviews |} {| s_map := m; s_views := sviews |}) by (apply R_intro; auto).
  destruct o as [i k|i k|i k x|i k|i s0 e limit reverse|i p limit reverse|i|i id|i id|i p]; simpl;
    specialize (Hnth i); destruct (nth_error dviews i) as [dv|] eqn:Ed; destruct (nth_error sviews i) as [sv|] eqn:Es;
    try contradiction; try (split; [reflexivity|exact HR0]);
    destruct Hnth as (Epfx & Hwpfx & Ecnt & Hsnaps); rewrite <- ?Epfx.
  - (* Get *)
    destruct (get_refines db c (v_prefix dv) k HI) as (A & B & C).
    destruct (db_Get db c (v_prefix dv) k) as [r c']. simpl in *. split; [rewrite A, Hm; reflexivity|].
    apply R_intro; auto. intros k0. rewrite C. apply Hm.
  - (* Has *)
    destruct (get_refines db c (v_prefix dv) k HI) as (A & B & C).
    destruct (db_Get db c (v_prefix dv) k) as [r c']. simpl in *. split; [rewrite A, Hm; reflexivity|].
    apply R_intro; auto. intros k0. rewrite C. apply Hm.
  - (* Set *)
    destruct (set_refines db c (v_prefix dv) k x HI) as (c' & -> & B & C). simpl. split; [reflexivity|].
    apply R_intro; auto using insert_sorted. intros k0. rewrite lookup_insert, C, Hm. reflexivity.
  - (* Del *)
    destruct (del_refines db c (v_prefix dv) k HI) as (B & C). split; [reflexivity|].
    apply R_intro; auto using remove_sorted. intros k0. rewrite lookup_remove by auto. rewrite C, Hm. reflexivity.
  - (* Range *)
    destruct (range_refines db c m (v_prefix dv) s0 e limit reverse Hsdb Hsm HI Hm) as (A & B & C).
    destruct (db_Range db c (v_prefix dv) s0 e limit reverse) as [r c']. simpl in *. split; [rewrite A; reflexivity|].
    apply R_intro; auto. intros k0. rewrite C. apply Hm.
  - (* Iterate *)
    assert (Hw : wf_key (v_prefix dv ++ p)) by (apply Forall_app; split; auto).
    destruct (iterate_refines db c m (v_prefix dv) p limit reverse Hsdb Hwdb Hw Hsm HI Hm) as (A & B & C).
    destruct (db_Iterate db c (v_prefix dv) p limit reverse) as [r c']. simpl in *. split; [rewrite A; reflexivity|].
    apply R_intro; auto. intros k0. rewrite C. apply Hm.
  - (* Snapshot *)
    split; [rewrite Ecnt; reflexivity|]. apply R_intro; auto.
    apply Forall2_set_nth; auto. split; [reflexivity|]. split; [exact Hwpfx|]. simpl. split; [rewrite Ecnt; reflexivity|].
    unfold snap_put. constructor.
    + split; [exact Ecnt|]. unfold c_copy. simpl. split; auto.
    + rewrite Ecnt. apply snap_del_rel; auto.
  - (* Restore *)
    pose proof (snap_get_rel db (v_snaps dv) (sv_snaps sv) id Hsnaps) as Hg.
    destruct (snap_get (v_snaps dv) id) as [snap|]; destruct (snap_get (sv_snaps sv) id) as [saved|]; try contradiction.
    + simpl. split; [reflexivity|]. destruct Hg as (G1 & G2 & G3). apply R_intro; auto.
      apply Forall2_set_nth; auto. split; [reflexivity|]. split; [exact Hwpfx|]. split; [exact Ecnt|].
      apply snap_del_rel; auto.
    + simpl. split; [reflexivity|exact HR0].
  - (* DeleteSnapshot *)
    split; [reflexivity|]. apply R_intro; auto.
    apply Forall2_set_nth; auto. split; [reflexivity|]. split; [exact Hwpfx|]. split; [exact Ecnt|].
    apply snap_del_rel; auto.
  - (* WithPrefix *)
    split; [reflexivity|]. apply R_intro; auto. apply Forall2_app; auto. constructor; [|constructor].
    split; [reflexivity|]. split; [simpl; apply Forall_app; split; auto|]. split; [reflexivity|constructor].
Qed.

(* ------------------------------------------------------------------ all operation sequences *)
Theorem run_refines : forall db ops d s, sorted db -> wf_db db -> R db d s -> Forall op_wf ops ->
  snd (run db d ops) = snd (spec_run s ops) /\ R db (fst (run db d ops)) (fst (spec_run s ops)).
Proof.
  intros db ops. induction ops as [|o t IH]; intros d s Hs Hw HR Hops; simpl; auto.
  inversion Hops; subst.
  destruct (step_refines db d s o Hs Hw HR H1) as [A B].
  destruct (step db d o) as [d' r]. destruct (spec_step s o) as [s' r']. simpl in *.
  destruct (IH d' s' Hs Hw B H2) as [C D].
  destruct (run db d' t) as [d'' rs]. destruct (spec_run s' t) as [s'' rs']. simpl in *.
  split; [congruence|exact D].
Qed.

Lemma R_init : forall db root, sorted db -> wf_key root -> R db (init_state root) (spec_init db root).
Proof.
  intros. split; [apply rep_nil; auto|]. simpl. constructor; [|constructor].
  split; [reflexivity|]. split; [assumption|]. split; [reflexivity|constructor].
Qed.

(* the statement of C12: every read of every operation sequence equals the specification's; the batch written
   by Commit turns the database into the specification's map; RevertDiff of the returned diff restores it *)
Theorem diffdb_refinement : forall db root ops, sorted db -> wf_db db -> wf_key root -> Forall op_wf ops ->
  let d := fst (run db (init_state root) ops) in
  let s := fst (spec_run (spec_init db root) ops) in
  snd (run db (init_state root) ops) = snd (spec_run (spec_init db root) ops) /\
  apply_writes (fst (db_Commit d)) db = s_map s /\
  apply_writes (revert_writes (snd (db_Commit d))) (apply_writes (fst (db_Commit d)) db) = db.
Proof.
  intros db root ops Hs Hw Hr Hops d s.
  destruct (run_refines db ops (init_state root) (spec_init db root) Hs Hw (R_init db root Hs Hr) Hops) as [A [(HI & Hsm & Hm) _]].
  fold d in HI, Hm. fold s in Hsm, Hm.
  split; [exact A|]. split.
  - apply commit_writes_final_state; auto.
  - apply revert_commit_id; auto.
Qed.

(* restoring a snapshot returns exactly the staged state at the time of the snapshot (specification side:
   immediate; stated for the implementation through the refinement) *)
Lemma set_nth_other : forall {A} (l : list A) j i x, j <> i -> nth_error (set_nth l j x) i = nth_error l i.
Proof. induction l as [|y l IH]; intros [|j] [|i] x H; simpl; auto; try congruence. Qed.
Lemma set_nth_same : forall {A} (l : list A) j x y, nth_error l j = Some y -> nth_error (set_nth l j x) j = Some x.
Proof. induction l as [|z l IH]; intros [|j] x y H; simpl in *; try discriminate; auto. eapply IH; eauto. Qed.

(* [o] is not a snapshot-management operation addressed to view [i] (reads, writes, scans on any view and
   snapshot operations of other views are all allowed) *)
Definition no_snap_op_on (i : nat) (o : op) : Prop :=
  match o with OSnapshot j | ORestore j _ | ODeleteSnapshot j _ => j <> i | _ => True end.

Lemma spec_restore_exact : forall s i vw,
  nth_error (s_views s) i = Some vw ->
  let s1 := fst (spec_step s (OSnapshot i)) in
  forall ops, (forall o, In o ops -> no_snap_op_on i o) ->
  let s2 := fst (spec_run s1 ops) in
  s_map (fst (spec_step s2 (ORestore i (sv_count vw)))) = s_map s.
Proof.
  intros s i vw Hn s1 ops Hops s2.
  (* the snapshot (id, map) stays in view i's list while no snapshot operation addresses view i *)
  assert (Hkeep : forall ops s1, (forall o, In o ops -> no_snap_op_on i o) ->
            forall vw1, nth_error (s_views s1) i = Some vw1 ->
            exists vw2, nth_error (s_views (fst (spec_run s1 ops))) i = Some vw2 /\ sv_snaps vw2 = sv_snaps vw1).
  { clear. induction ops as [|o t IH]; intros s1 Hops vw1 Hn; simpl; [eauto|].
    assert (Hstep : exists vw', nth_error (s_views (fst (spec_step s1 o))) i = Some vw' /\ sv_snaps vw' = sv_snaps vw1).
    { assert (Ho := Hops o (or_introl eq_refl)). unfold no_snap_op_on in Ho.
      assert (Hset : forall (l : list sview) j x, j <> i -> nth_error (set_nth l j x) i = nth_error l i)
        by (intros; apply set_nth_other; auto).
      destruct o as [j k|j k|j k x|j k|j a b l r|j p l r|j|j id|j id|j p]; simpl;
        destruct (nth_error (s_views s1) j) as [w|] eqn:Ev; simpl; eauto.
      - rewrite Hset by auto. eauto.
      - destruct (snap_get (sv_snaps w) id); simpl; eauto. rewrite Hset by auto. eauto.
      - rewrite Hset by auto. eauto.
      - exists vw1. split; auto. rewrite nth_error_app1; auto. apply nth_error_Some. congruence. }
    destruct Hstep as (vw' & Hn' & Es).
    destruct (spec_step s1 o) as [s1' r] eqn:E1. simpl in *.
    destruct (IH s1' (fun o Ho => Hops o (or_intror Ho)) vw' Hn') as (vw2 & A & B).
    destruct (spec_run s1' t) as [s'' rs]. simpl in *. exists vw2. split; auto. congruence. }
  assert (Hn1 : exists vw1, nth_error (s_views s1) i = Some vw1 /\ snap_get (sv_snaps vw1) (sv_count vw) = Some (s_map s)).
  { unfold s1. simpl. rewrite Hn. simpl.
    eexists. split; [eapply set_nth_same; eauto|]. simpl. rewrite N.eqb_refl. reflexivity. }
  destruct Hn1 as (vw1 & Hn1 & Hg).
  destruct (Hkeep ops s1 Hops vw1 Hn1) as (vw2 & Hn2 & E2). fold s2 in Hn2.
  simpl. rewrite Hn2. rewrite E2, Hg. reflexivity.
Qed.

(* ------------------------------------------------------------------ after Commit
   Commit does not touch the cache (in the code: cacheDB.commit only reads it; the framework's dry-run Commit relies on
   that).  Right after the batch is written every key still reads the same... *)
Lemma post_commit_overlay : forall db c k, sorted db -> Inv db c ->
  overlay (apply_writes (commit_writes c) db) c k = overlay db c k.
Proof.
  intros db c k Hs [Hnd Hinv]. unfold overlay. destruct (cget c k) as [e|] eqn:E; auto.
  rewrite lookup_apply_writes by auto. apply fapply_notin.
  intros Hin. apply in_map_iff in Hin. destruct Hin as (w & Ek & Hin). unfold commit_writes in Hin.
  apply in_flat_map in Hin. destruct Hin as ([k0 e0] & Hc & Hw). apply write_of_keys in Hw. simpl in Hw.
  apply (cget_none _ _ E). apply in_map_iff. exists (k0, e0). split; [simpl; rewrite <- Hw; exact Ek|exact Hc].
Qed.

(* ... but the cache is then STALE with respect to the store (init/dirty describe the store before the Commit), and using
   the same Database further is not covered by the refinement: deleting a key that was added before the Commit only
   drops the cache entry, so the key is still read from the store. *)
Lemma continued_use_after_commit_refuted :
  exists db root ops1 ops2,
    let d1 := fst (run db (init_state root) ops1) in
    let m1 := apply_writes (fst (db_Commit d1)) db in
    let s1 := fst (spec_run (spec_init db root) ops1) in
    sorted db /\ m1 = s_map s1 /\ snd (run m1 d1 ops2) <> snd (spec_run s1 ops2).
Proof.
  exists [([10%N; 98%N], [2%N])], [10%N], [OSet 0%nat [97%N] [1%N]], [ODel 0%nat [97%N]; OGet 0%nat [97%N]].
  split; [apply sortedb_sound; vm_compute; reflexivity|]. split; vm_compute; [reflexivity|discriminate].
Qed.

(* ------------------------------------------------------------------ restore_exact, nested snapshots included:
   between Snapshot (returning id) and Restore id on view i ANY operation may happen — further snapshots of the same
   view (they get larger ids), restores / deletions of OTHER snapshot ids — except restoring or deleting id itself. *)
Definition keeps_snapshot (i : nat) (id : N) (o : op) : Prop :=
  match o with ORestore j id' | ODeleteSnapshot j id' => j = i -> id' <> id | _ => True end.

Lemma snap_get_del_other : forall {A} (l : list (N * A)) id id', id' <> id -> snap_get (snap_del l id') id = snap_get l id.
Proof.
  induction l as [|[j x] t IH]; intros id id' H; simpl; auto.
  destruct (N.eqb_spec j id') as [->|Hn]; simpl.
  - rewrite IH by auto. destruct (N.eqb_spec id' id); [congruence|reflexivity].
  - rewrite IH by auto. reflexivity.
Qed.

Lemma snap_get_put_other : forall {A} (l : list (N * A)) id id' x, id' <> id -> snap_get (snap_put l id' x) id = snap_get l id.
Proof.
  intros. unfold snap_put. simpl. destruct (N.eqb_spec id' id); [congruence|]. apply snap_get_del_other; auto.
Qed.

Lemma spec_restore_exact_nested : forall s i vw,
  nth_error (s_views s) i = Some vw ->
  let id := sv_count vw in
  let s1 := fst (spec_step s (OSnapshot i)) in
  forall ops, (forall o, In o ops -> keeps_snapshot i id o) ->
  let s2 := fst (spec_run s1 ops) in
  s_map (fst (spec_step s2 (ORestore i id))) = s_map s.
Proof.
  intros s i vw Hn id s1 ops Hops s2.
  (* invariant: view i still holds (id, map of s) and its counter is beyond id *)
  set (P := fun st : sstate => exists w, nth_error (s_views st) i = Some w /\ snap_get (sv_snaps w) id = Some (s_map s) /\ (id < sv_count w)%N).
  assert (Hstep : forall st o, keeps_snapshot i id o -> P st -> P (fst (spec_step st o))).
  { intros st o Hk (w & Hw & Hg & Hc). unfold P.
    destruct o as [j k|j k|j k x|j k|j a b l r|j p l r|j|j id'|j id'|j p]; simpl;
      destruct (nth_error (s_views st) j) as [wj|] eqn:Ej; simpl; try (exists w; auto; fail).
    - (* snapshot of view j *)
      destruct (Nat.eq_dec j i) as [->|Hji].
      + rewrite Hw in Ej. inversion Ej; subst wj. eexists. split; [eapply set_nth_same; eauto|]. cbn [sv_snaps sv_count]. split.
        * rewrite snap_get_put_other by lia. exact Hg.
        * lia.
      + exists w. rewrite set_nth_other by auto. auto.
    - (* restore *)
      destruct (snap_get (sv_snaps wj) id') eqn:Eg; simpl; [|exists w; auto].
      destruct (Nat.eq_dec j i) as [->|Hji].
      + rewrite Hw in Ej. inversion Ej; subst wj. eexists. split; [eapply set_nth_same; eauto|]. cbn [sv_snaps sv_count]. split; auto.
        rewrite snap_get_del_other; auto.
      + exists w. rewrite set_nth_other by auto. auto.
    - (* delete snapshot *)
      destruct (Nat.eq_dec j i) as [->|Hji].
      + rewrite Hw in Ej. inversion Ej; subst wj. eexists. split; [eapply set_nth_same; eauto|]. cbn [sv_snaps sv_count]. split; auto.
        rewrite snap_get_del_other; auto.
      + exists w. rewrite set_nth_other by auto. auto.
    - (* with prefix *)
      exists w. split; auto. rewrite nth_error_app1; auto. apply nth_error_Some. congruence. }
  assert (Hrun : forall ops st, (forall o, In o ops -> keeps_snapshot i id o) -> P st -> P (fst (spec_run st ops))).
  { induction ops0 as [|o t IH]; intros st Ho HP; simpl; auto.
    pose proof (Hstep st o (Ho o (or_introl eq_refl)) HP) as HP'.
    destruct (spec_step st o) as [st' r]. simpl in HP'.
    specialize (IH st' (fun o' H => Ho o' (or_intror H)) HP'). destruct (spec_run st' t). exact IH. }
  assert (HP1 : P s1).
  { unfold P, s1. simpl. rewrite Hn. simpl. eexists. split; [eapply set_nth_same; eauto|]. simpl. split.
    - fold id. rewrite N.eqb_refl. reflexivity.
    - fold id. lia. }
  destruct (Hrun ops s1 Hops HP1) as (w & Hw & Hg & _). fold s2 in Hw.
  simpl. rewrite Hw, Hg. reflexivity.
Qed.
