(* pkg/db: db.go (Get, IterateKey, Iterate, IterateRange, upperBound), iterator.go (iterateRange,
   iteratePrefix, iterateKeyPrefix), reader.go (same functions over a snapshot).
   The pebble iterator is modelled by its documented sorted-map semantics: the iterator ranges over the
   keys k of the database with LowerBound <= k < UpperBound; SeekGE/SeekLT/First/Last position it,
   Next/Prev move it, and it becomes invalid when moved past either end.  (Trusted: pebble obeys this.)
   The model is of the REPAIRED code (fix: reverse iterateRange seeks below end||0x00). *)
From Coq Require Import List NArith ZArith Bool.
From LE Require Import Base.Lex Store.SMap.
Import ListNotations.

(* iterator position: the element under the cursor, the elements before it (nearest first) and after it *)
Inductive iter :=
| AtElem (before : list kv) (x : kv) (after : list kv)
| Invalid.

(* NewIter(&IterOptions{LowerBound: lo, UpperBound: hi}); nil options / empty lower bound = unbounded *)
Definition visible (db : smap) (lo : key) (hi : option key) : list kv :=
  filter (fun x => leb lo (fst x) && below_ub (fst x) hi) db.

Definition it_first (vis : list kv) : iter :=
  match vis with [] => Invalid | x :: t => AtElem [] x t end.

Fixpoint it_last_aux (before : list kv) (x : kv) (l : list kv) : iter :=
  match l with [] => AtElem before x [] | y :: t => it_last_aux (x :: before) y t end.
Definition it_last (vis : list kv) : iter :=
  match vis with [] => Invalid | x :: t => it_last_aux [] x t end.

(* SeekGE k: first element with key >= k *)
Fixpoint seek_ge_aux (before : list kv) (l : list kv) (k : key) : iter :=
  match l with
  | [] => Invalid
  | x :: t => if leb k (fst x) then AtElem before x t else seek_ge_aux (x :: before) t k
  end.
Definition it_seek_ge (vis : list kv) (k : key) : iter := seek_ge_aux [] vis k.

(* SeekLT k: last element with key < k *)
Fixpoint seek_lt_aux (before : list kv) (l : list kv) (k : key) : iter :=
  match l with
  | [] => match before with [] => Invalid | y :: b => AtElem b y [] end
  | x :: t =>
      if ltb (fst x) k then seek_lt_aux (x :: before) t k
      else match before with [] => Invalid | y :: b => AtElem b y (x :: t) end
  end.
Definition it_seek_lt (vis : list kv) (k : key) : iter := seek_lt_aux [] vis k.

Definition it_next (it : iter) : iter :=
  match it with
  | AtElem b x (y :: a) => AtElem (x :: b) y a
  | _ => Invalid
  end.
Definition it_prev (it : iter) : iter :=
  match it with
  | AtElem (y :: b) x a => AtElem b y (x :: a)
  | _ => Invalid
  end.
Definition it_valid (it : iter) : bool := match it with AtElem _ _ _ => true | Invalid => false end.

(* the sequence of elements a loop `for ; it.Valid(); it.Next()` (resp. Prev) visits *)
Definition visit_fwd (it : iter) : list kv := match it with AtElem _ x a => x :: a | Invalid => [] end.
Definition visit_bwd (it : iter) : list kv := match it with AtElem b x _ => x :: b | Invalid => [] end.

(* the loop shared by all scans of iterator.go (repaired limit handling):
     for seek; it.Valid() && !limitReached(limit, count); step { key := it.Key(); if stop(key) { break };
                                                                 data = append(data, kv); count++ }
   with limitReached(limit, count) = limit >= 0 && count >= limit, over the visit sequence [l]. *)
Fixpoint scan_loop (stop : key -> bool) (limit : Z) (count : Z) (l : list kv) : list kv :=
  match l with
  | [] => []
  | x :: t =>
      if (limit >? -1)%Z && (count >=? limit)%Z then []
      else if stop (fst x) then []
      else x :: scan_loop stop limit (count + 1)%Z t
  end.

(* iterateRange(iter, start, end, limit, reverse), iter = NewIter(nil) *)
Definition iterate_range (db : smap) (s e : key) (limit : Z) (reverse : bool) : list kv :=
  let vis := visible db [] None in
  if negb reverse
  then scan_loop (fun k => ltb e k) limit 0 (visit_fwd (it_seek_ge vis s))
  else scan_loop (fun k => ltb k s) limit 0 (visit_bwd (it_seek_lt vis (e ++ [0%N]))).

(* iteratePrefix(iter, prefix, limit, reverse), iter bounded by [prefix, upperBound(prefix)) *)
Definition iterate_prefix (db : smap) (p : key) (limit : Z) (reverse : bool) : list kv :=
  let vis := visible db p (upper_bound p) in
  if negb reverse
  then scan_loop (fun _ => false) limit 0 (visit_fwd (it_first vis))
  else scan_loop (fun _ => false) limit 0 (visit_bwd (it_last vis)).

(* iterateKeyPrefix: same loop, keys only *)
Definition iterate_key (db : smap) (p : key) (limit : Z) (reverse : bool) : list key :=
  map fst (iterate_prefix db p limit reverse).

Definition db_get (db : smap) (k : key) : option val := lookup db k.

(* ---- declarative scans (the oracle): the keys inside the bounds, in order, truncated ----
   a limit >= 0 is the maximum number of results (0 = none), any negative limit = no limit: exactly the reading of
   diffdb's mergeSortLimit ([SMap.take_limit]), so that both layers agree for every limit a caller can pass. *)
Definition eff_limit (limit : Z) (l : list kv) : list kv :=
  if (limit >? -1)%Z then firstn (Z.to_nat limit) l else l.
Definition dir (reverse : bool) (l : list kv) : list kv := if reverse then rev l else l.

Definition range_spec (db : smap) (s e : key) (limit : Z) (reverse : bool) : list kv :=
  eff_limit limit (dir reverse (filter (fun x => leb s (fst x) && leb (fst x) e) db)).
Definition prefix_spec (db : smap) (p : key) (limit : Z) (reverse : bool) : list kv :=
  eff_limit limit (dir reverse (filter (fun x => is_prefix p (fst x)) db)).
