(* The specification of the staged store: ONE sorted map, "the database with all staged writes and deletes
   applied"; a prefix view is key translation; a snapshot is a saved map. Every operation is the obvious
   operation on that map. *)
From Coq Require Import List NArith ZArith Bool.
From LE Require Import Base.Lex Store.SMap Store.PebbleIter Store.DiffDB.
Import ListNotations.

Record sview := { sv_prefix : key; sv_snaps : list (N * smap); sv_count : N }.
Record sstate := { s_map : smap; s_views : list sview }.

Definition spec_init (db : smap) (root : key) : sstate :=
  {| s_map := db; s_views := [ {| sv_prefix := root; sv_snaps := []; sv_count := 0 |} ] |}.

Definition strip (plen : nat) (x : kv) : kv := (skipn plen (fst x), snd x).

(* keys of [m] between pfx++s and pfx++e (inclusive), in the requested direction, at most [limit] (when > -1),
   reported without the view prefix *)
Definition spec_range (m : smap) (pfx s e : key) (limit : Z) (reverse : bool) : list kv :=
  take_limit limit (map (strip (length pfx))
    (dir reverse (filter (fun x => leb (pfx ++ s) (fst x) && leb (fst x) (pfx ++ e)) m))).

(* keys of [m] that start with pfx++p *)
Definition spec_iterate (m : smap) (pfx p : key) (limit : Z) (reverse : bool) : list kv :=
  take_limit limit (map (strip (length pfx))
    (dir reverse (filter (fun x => is_prefix (pfx ++ p) (fst x)) m))).

Definition spec_step (s : sstate) (o : op) : sstate * res :=
  let m := s_map s in
  let with_view (i : nat) (f : sview -> sstate * res) : sstate * res :=
    match nth_error (s_views s) i with Some vw => f vw | None => (s, RBadView) end in
  let upd (m' : smap) := {| s_map := m'; s_views := s_views s |} in
  match o with
  | OGet i k => with_view i (fun vw => (s, RVal (lookup m (sv_prefix vw ++ k))))
  | OHas i k => with_view i (fun vw => (s, RBool (match lookup m (sv_prefix vw ++ k) with Some _ => true | None => false end)))
  | OSet i k x => with_view i (fun vw => (upd (insert m (sv_prefix vw ++ k) x), RNone))
  | ODel i k => with_view i (fun vw => (upd (remove m (sv_prefix vw ++ k)), RNone))
  | ORange i s0 e limit reverse => with_view i (fun vw => (s, RList (spec_range m (sv_prefix vw) s0 e limit reverse)))
  | OIterate i p limit reverse => with_view i (fun vw => (s, RList (spec_iterate m (sv_prefix vw) p limit reverse)))
  | OSnapshot i =>
      with_view i (fun vw =>
        let id := sv_count vw in
        let vw' := {| sv_prefix := sv_prefix vw; sv_snaps := snap_put (sv_snaps vw) id m; sv_count := (id + 1)%N |} in
        ({| s_map := m; s_views := set_nth (s_views s) i vw' |}, RId id))
  | ORestore i id =>
      with_view i (fun vw =>
        match snap_get (sv_snaps vw) id with
        | None => (s, RBool false)
        | Some saved =>
            let vw' := {| sv_prefix := sv_prefix vw; sv_snaps := snap_del (sv_snaps vw) id; sv_count := sv_count vw |} in
            ({| s_map := saved; s_views := set_nth (s_views s) i vw' |}, RBool true)
        end)
  | ODeleteSnapshot i id =>
      with_view i (fun vw =>
        let vw' := {| sv_prefix := sv_prefix vw; sv_snaps := snap_del (sv_snaps vw) id; sv_count := sv_count vw |} in
        ({| s_map := m; s_views := set_nth (s_views s) i vw' |}, RNone))
  | OWithPrefix i p =>
      with_view i (fun vw =>
        ({| s_map := m; s_views := s_views s ++ [ {| sv_prefix := sv_prefix vw ++ p; sv_snaps := []; sv_count := 0 |} ] |}, RNone))
  end.

Fixpoint spec_run (s : sstate) (ops : list op) : sstate * list res :=
  match ops with
  | [] => (s, [])
  | o :: t => let (s', r) := spec_step s o in let (s'', rs) := spec_run s' t in (s'', r :: rs)
  end.
