(* pkg/db/batchdb: a prefixed view whose reads go to the DATABASE and whose writes go to a BATCH (no staging
   overlay): Get does not see the batch; once the batch is written the database is the one the overlay
   specification (Store.DiffDBSpec) reaches with the same set/del operations. *)
From Coq Require Import List NArith ZArith Bool.
From LE Require Import Base.Lex Store.SMap Store.PebbleIter Store.DiffDB Store.DiffDBSpec.
Import ListNotations.

Inductive bop := BGet (k : key) | BSet (k : key) (v : val) | BDel (k : key).

(* Database{database, batch, prefix}: Get = database.Get(prefix||key); Set/Del = batch.Set/Del(prefix||key, ...) *)
Definition bdb_step (db : smap) (pfx : key) (batch : list wr) (o : bop) : list wr * res :=
  match o with
  | BGet k => (batch, RVal (db_get db (pfx ++ k)))
  | BSet k v => (batch ++ [(pfx ++ k, Some v)], RNone)
  | BDel k => (batch ++ [(pfx ++ k, None)], RNone)
  end.

Fixpoint bdb_run (db : smap) (pfx : key) (batch : list wr) (ops : list bop) : list wr * list res :=
  match ops with
  | [] => (batch, [])
  | o :: t => let (b', r) := bdb_step db pfx batch o in let (b'', rs) := bdb_run db pfx b' t in (b'', r :: rs)
  end.

(* what the reads return: the database value, whatever was written to the batch before *)
Definition bdb_read_spec (db : smap) (pfx : key) (o : bop) : res :=
  match o with BGet k => RVal (lookup db (pfx ++ k)) | _ => RNone end.

(* the writes, as operations of the staged-store specification on the root view *)
Definition bop_as_op (o : bop) : list op :=
  match o with BGet _ => [] | BSet k v => [OSet 0%nat k v] | BDel k => [ODel 0%nat k] end.

Lemma bdb_reads_ignore_batch : forall db pfx ops batch,
  snd (bdb_run db pfx batch ops) = map (bdb_read_spec db pfx) ops.
Proof.
  intros db pfx ops. induction ops as [|o t IH]; intros batch; simpl; auto.
  destruct o as [k|k v|k]; simpl.
  - specialize (IH batch). destruct (bdb_run db pfx batch t) as [b rs]. simpl in *. rewrite IH. reflexivity.
  - specialize (IH (batch ++ [(pfx ++ k, Some v)])). destruct (bdb_run db pfx (batch ++ [(pfx ++ k, Some v)]) t) as [b rs].
    simpl in *. rewrite IH. reflexivity.
  - specialize (IH (batch ++ [(pfx ++ k, None)])). destruct (bdb_run db pfx (batch ++ [(pfx ++ k, None)]) t) as [b rs].
    simpl in *. rewrite IH. reflexivity.
Qed.

(* the specification state reached by the writes: one view with prefix pfx, map m *)
Definition one_view (m : smap) (pfx : key) : sstate :=
  {| s_map := m; s_views := [ {| sv_prefix := pfx; sv_snaps := []; sv_count := 0 |} ] |}.

Lemma spec_run_writes : forall pfx ops m,
  fst (spec_run (one_view m pfx) (flat_map bop_as_op ops)) =
  one_view (fold_left (fun m o => match o with
                                   | BGet _ => m
                                   | BSet k v => insert m (pfx ++ k) v
                                   | BDel k => remove m (pfx ++ k)
                                   end) ops m) pfx.
Proof.
  intros pfx ops. induction ops as [|o t IH]; intros m; simpl; auto.
  destruct o as [k|k v|k]; simpl.
  - apply IH.
  - specialize (IH (insert m (pfx ++ k) v)). unfold one_view in *. simpl in *.
    destruct (spec_run {| s_map := insert m (pfx ++ k) v; s_views := [{| sv_prefix := pfx; sv_snaps := []; sv_count := 0 |}] |}
                       (flat_map bop_as_op t)) as [s rs]. simpl in *. exact IH.
  - specialize (IH (remove m (pfx ++ k))). unfold one_view in *. simpl in *.
    destruct (spec_run {| s_map := remove m (pfx ++ k); s_views := [{| sv_prefix := pfx; sv_snaps := []; sv_count := 0 |}] |}
                       (flat_map bop_as_op t)) as [s rs]. simpl in *. exact IH.
Qed.

Lemma bdb_batch_fold : forall db pfx ops batch m,
  apply_writes batch db = m ->
  apply_writes (fst (bdb_run db pfx batch ops)) db =
  fold_left (fun m o => match o with
                        | BGet _ => m
                        | BSet k v => insert m (pfx ++ k) v
                        | BDel k => remove m (pfx ++ k)
                        end) ops m.
Proof.
  intros db pfx ops. induction ops as [|o t IH]; intros batch m Hm; simpl; auto.
  destruct o as [k|k v|k]; simpl.
  - specialize (IH batch m Hm). destruct (bdb_run db pfx batch t). exact IH.
  - specialize (IH (batch ++ [(pfx ++ k, Some v)]) (insert m (pfx ++ k) v)).
    destruct (bdb_run db pfx (batch ++ [(pfx ++ k, Some v)]) t). simpl in *. apply IH.
    unfold apply_writes. rewrite fold_left_app. simpl. unfold apply_write. simpl. f_equal. exact Hm.
  - specialize (IH (batch ++ [(pfx ++ k, None)]) (remove m (pfx ++ k))).
    destruct (bdb_run db pfx (batch ++ [(pfx ++ k, None)]) t). simpl in *. apply IH.
    unfold apply_writes. rewrite fold_left_app. simpl. unfold apply_write. simpl. f_equal. exact Hm.
Qed.

(* writing the batch produces exactly the map the overlay specification reaches with the same writes *)
Theorem bdb_write_equals_spec : forall db pfx ops,
  apply_writes (fst (bdb_run db pfx [] ops)) db = s_map (fst (spec_run (spec_init db pfx) (flat_map bop_as_op ops))).
Proof.
  intros. rewrite (bdb_batch_fold db pfx ops [] db eq_refl).
  change (spec_init db pfx) with (one_view db pfx). rewrite spec_run_writes. reflexivity.
Qed.
