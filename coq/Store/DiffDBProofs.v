(* Proofs about Store.DiffDB, part 1: the cache invariant, Get/Set/Del refine the overlay map, Commit writes
   the final state, RevertDiff of the returned diff restores the previous database (as a list). *)
From Coq Require Import List NArith ZArith Bool Lia.
From LE Require Import Base.Lex Store.SMap Store.PebbleIter Store.DiffDB.
Import ListNotations.

Ltac keq a b :=
  let E := fresh "E" in
  destruct (keqb a b) eqn:E; [apply keqb_eq in E; try subst | apply keqb_neq in E].

(* ------------------------------------------------------------------ association-list facts *)
Lemma cget_cput : forall c k e k', cget (cput c k e) k' = if keqb k' k then Some e else cget c k'.
Proof.
  induction c as [|[k0 e0] t IH]; intros k e k'; simpl.
  - destruct (keqb k' k); reflexivity.
  - keq k k0; simpl.
    + destruct (keqb k' k0); reflexivity.
    + rewrite IH. destruct (keqb k' k0) eqn:E0; auto. apply keqb_eq in E0. subst k0.
      rewrite (proj2 (keqb_neq k' k)); auto.
Qed.

Lemma cput_keys : forall c k e k', In k' (map fst (cput c k e)) <-> k' = k \/ In k' (map fst c).
Proof.
  induction c as [|[k0 e0] t IH]; intros k e k'; simpl.
  - intuition.
  - keq k k0; simpl; [intuition|]. rewrite IH. intuition.
Qed.

Lemma cput_nodup : forall c k e, NoDup (map fst c) -> NoDup (map fst (cput c k e)).
Proof.
  induction c as [|[k0 e0] t IH]; intros k e Hnd; simpl.
  - constructor; [intros []|constructor].
  - inversion Hnd; subst. keq k k0; simpl.
    + constructor; auto.
    + constructor; auto. rewrite cput_keys. intros [C|Hin]; [congruence|contradiction].
Qed.

Lemma cget_in : forall c k e, cget c k = Some e -> In k (map fst c).
Proof.
  induction c as [|[k0 e0] t IH]; simpl; intros; [discriminate|]. keq k k0; [left; auto|right; eauto].
Qed.

Lemma cget_In : forall c k e, cget c k = Some e -> In (k, e) c.
Proof.
  induction c as [|[k0 e0] t IH]; simpl; intros k e H; [discriminate|].
  keq k k0; [inversion H; subst; left; auto|right; auto].
Qed.

Lemma cget_none : forall c k, cget c k = None -> ~ In k (map fst c).
Proof.
  induction c as [|[k0 e0] t IH]; simpl; intros k H; auto. keq k k0; [discriminate|].
  intros [C|C]; [congruence|]. eapply IH; eauto.
Qed.

Lemma in_cget : forall c k e, NoDup (map fst c) -> In (k, e) c -> cget c k = Some e.
Proof.
  induction c as [|[k0 e0] t IH]; intros k e Hnd Hin; simpl in *; [contradiction|].
  inversion Hnd; subst. destruct Hin as [E|Hin].
  - inversion E; subst. rewrite keqb_refl. reflexivity.
  - keq k k0; [exfalso; apply H1; apply in_map_iff; exists (k0, e); auto|auto].
Qed.

Lemma cremove_keys : forall c k k', In k' (map fst (cremove c k)) -> In k' (map fst c).
Proof.
  induction c as [|[k0 e0] t IH]; intros k k'; simpl; auto. keq k k0; simpl; auto.
  intros [H|H]; auto. right. eapply IH; eauto.
Qed.

Lemma cget_cremove : forall c k k', NoDup (map fst c) -> cget (cremove c k) k' = if keqb k' k then None else cget c k'.
Proof.
  induction c as [|[k0 e0] t IH]; intros k k' Hnd; simpl.
  - destruct (keqb k' k); reflexivity.
  - inversion Hnd; subst. keq k k0; simpl.
    + destruct (keqb k' k0) eqn:E0; [|reflexivity]. apply keqb_eq in E0. subst k'.
      destruct (cget t k0) eqn:C; [apply cget_in in C; contradiction|reflexivity].
    + rewrite IH by assumption. destruct (keqb k' k0) eqn:E0; auto. apply keqb_eq in E0. subst k0.
      rewrite (proj2 (keqb_neq k' k)); auto.
Qed.

Lemma cremove_nodup : forall c k, NoDup (map fst c) -> NoDup (map fst (cremove c k)).
Proof.
  induction c as [|[k0 e0] t IH]; intros k Hnd; simpl; auto. inversion Hnd; subst.
  keq k k0; simpl; auto. constructor; auto. intro Hin. apply H1. eapply cremove_keys; eauto.
Qed.

(* ------------------------------------------------------------------ overlay map and invariant *)
(* the database with the staged writes applied, as a function *)
Definition overlay (db : smap) (c : cache) (k : key) : option val :=
  match cget c k with
  | Some e => if deleted e then None else Some (value e)
  | None => lookup db k
  end.

(* init = the stored value; an added entry is never marked deleted; a clean entry carries the stored value *)
Definition entry_ok (db : smap) (k : key) (e : centry) : Prop :=
  init e = lookup db k /\ (init e = None -> deleted e = false) /\
  (forall v0, init e = Some v0 -> dirty e = false -> deleted e = false -> value e = v0).
Definition Inv (db : smap) (c : cache) : Prop :=
  NoDup (map fst c) /\ forall k e, cget c k = Some e -> entry_ok db k e.

Lemma Inv_nil : forall db, Inv db [].
Proof. intros. split; [constructor|]. simpl. discriminate. Qed.

Lemma Inv_cput : forall db c k e, Inv db c -> entry_ok db k e -> Inv db (cput c k e).
Proof.
  intros db c k e [Hnd Hinv] Hok. split; [apply cput_nodup; auto|].
  intros k0 e0 H. rewrite cget_cput in H. keq k0 k; [inversion H; subst; auto|auto].
Qed.

Lemma view_cput : forall db c k e k', overlay db (cput c k e) k' =
  if keqb k' k then (if deleted e then None else Some (value e)) else overlay db c k'.
Proof. intros. unfold overlay. rewrite cget_cput. destruct (keqb k' k); reflexivity. Qed.

Lemma cached_ok : forall db k v, lookup db k = Some v ->
  entry_ok db k {| init := Some v; value := v; dirty := false; deleted := false |}.
Proof. intros. unfold entry_ok; simpl. repeat split; auto; try discriminate. intros v0 E; inversion E; auto. Qed.

Lemma Inv_c_cache : forall db c k v, Inv db c -> cget c k = None -> lookup db k = Some v ->
  Inv db (c_cache c k v) /\ forall k', overlay db (c_cache c k v) k' = overlay db c k'.
Proof.
  intros db c k v HI Hn Hl. unfold c_cache. split.
  - apply Inv_cput; auto. apply cached_ok; auto.
  - intros k'. rewrite view_cput. simpl. keq k' k; auto. unfold overlay. rewrite Hn. auto.
Qed.

(* ------------------------------------------------------------------ Get / Set / Del *)
Lemma get_refines : forall db c pfx k, Inv db c ->
  fst (db_Get db c pfx k) = overlay db c (pfx ++ k) /\ Inv db (snd (db_Get db c pfx k)) /\
  forall k', overlay db (snd (db_Get db c pfx k)) k' = overlay db c k'.
Proof.
  intros db c pfx k HI. unfold db_Get, c_get, db_get. unfold overlay at 1.
  destruct (cget c (pfx ++ k)) as [e|] eqn:E.
  - destruct (deleted e); simpl; auto.
  - destruct (lookup db (pfx ++ k)) as [v|] eqn:Es; simpl; [|auto].
    split; [reflexivity|]. apply Inv_c_cache; auto.
Qed.

Lemma ensure_ok : forall db c k, Inv db c -> cget c k = None ->
  Inv db (snd (ensure_cache db c k)) /\ (forall k', overlay db (snd (ensure_cache db c k)) k' = overlay db c k') /\
  (fst (ensure_cache db c k) = true -> exists v, lookup db k = Some v /\
      cget (snd (ensure_cache db c k)) k = Some {| init := Some v; value := v; dirty := false; deleted := false |}) /\
  (fst (ensure_cache db c k) = false -> lookup db k = None /\ snd (ensure_cache db c k) = c).
Proof.
  intros db c k HI Hn. unfold ensure_cache, db_get. destruct (lookup db k) as [v|] eqn:Es; simpl.
  - destruct (Inv_c_cache db c k v HI Hn Es) as [A B]. split; [exact A|]. split; [exact B|]. split; [|discriminate].
    intros _. exists v. split; auto. unfold c_cache. rewrite cget_cput. rewrite keqb_refl. reflexivity.
  - split; [exact HI|]. split; [reflexivity|]. split; [discriminate|]. intros _. split; reflexivity.
Qed.

Lemma set_refines : forall db c pfx k v, Inv db c ->
  exists c', db_Set db c pfx k v = Some c' /\ Inv db c' /\
  forall k', overlay db c' k' = if keqb k' (pfx ++ k) then Some v else overlay db c k'.
Proof.
  intros db c pfx k v HI. unfold db_Set, c_exist_any, c_set.
  set (pk := pfx ++ k).
  destruct (cget c pk) as [e|] eqn:E.
  - eexists. split; [reflexivity|]. destruct HI as [Hnd Hinv]. destruct (Hinv _ _ E) as (A & B & C). split.
    + apply Inv_cput; [split; auto|]. unfold entry_ok; simpl. repeat split; auto; discriminate.
    + intros k'. rewrite view_cput. simpl. destruct (keqb k' pk); auto.
  - destruct (ensure_ok db c pk HI E) as (HI1 & Hview & Ht & Hf).
    destruct (ensure_cache db c pk) as [ex c1] eqn:Ee. simpl in *. destruct ex.
    + destruct (Ht eq_refl) as (v0 & Hl & Hc). rewrite Hc. eexists. split; [reflexivity|]. split.
      * apply Inv_cput; auto. unfold entry_ok; simpl. repeat split; auto; discriminate.
      * intros k'. rewrite view_cput. simpl. destruct (keqb k' pk); auto.
    + destruct (Hf eq_refl) as [Hl ->]. eexists. split; [reflexivity|]. unfold c_add. split.
      * apply Inv_cput; auto. unfold entry_ok; simpl. repeat split; auto; discriminate.
      * intros k'. rewrite view_cput. simpl. destruct (keqb k' pk); auto.
Qed.

Lemma del_refines : forall db c pfx k, Inv db c ->
  Inv db (db_Del db c pfx k) /\
  forall k', overlay db (db_Del db c pfx k) k' = if keqb k' (pfx ++ k) then None else overlay db c k'.
Proof.
  intros db c pfx k HI. unfold db_Del, c_exist_any.
  set (pk := pfx ++ k).
  assert (Hc1 : exists c1, (if match cget c pk with Some _ => true | None => false end then c else snd (ensure_cache db c pk)) = c1 /\
             Inv db c1 /\ (forall k', overlay db c1 k' = overlay db c k') /\ (cget c1 pk = None -> lookup db pk = None)).
  { destruct (cget c pk) as [e|] eqn:E.
    - exists c. split; [reflexivity|]. split; [exact HI|]. split; [reflexivity|]. intros Hn. congruence.
    - destruct (ensure_ok db c pk HI E) as (HI1 & Hview & Ht & Hf). eexists. split; [reflexivity|].
      split; [exact HI1|]. split; [exact Hview|].
      intros Hn. destruct (fst (ensure_cache db c pk)) eqn:Ef.
      + destruct (Ht eq_refl) as (v0 & _ & Hc). rewrite Hc in Hn. discriminate.
      + apply Hf; auto. }
  destruct Hc1 as (c1 & -> & HI1 & Hview & Hnone). unfold c_del.
  destruct (cget c1 pk) as [e|] eqn:E.
  - destruct HI1 as [Hnd Hinv]. destruct (Hinv _ _ E) as (A & B & C).
    destruct (init e) as [v0|] eqn:Ei.
    + split.
      * apply Inv_cput; [split; auto|]. unfold entry_ok; simpl. repeat split; auto; discriminate.
      * intros k'. rewrite view_cput. simpl. destruct (keqb k' pk); auto.
    + split; [split|].
      * apply cremove_nodup; auto.
      * intros k0 e0 H. rewrite cget_cremove in H by auto. destruct (keqb k0 pk); [discriminate|auto].
      * intros k'. unfold overlay at 1. rewrite cget_cremove by auto. keq k' pk; [congruence|].
        rewrite <- Hview. reflexivity.
  - split; auto. intros k'. keq k' pk; [|apply Hview].
    unfold overlay. rewrite E. apply Hnone. reflexivity.
Qed.

(* ------------------------------------------------------------------ Commit / RevertDiff *)
(* pointwise reading of a batch *)
Definition fapply (ws : list wr) (s : key -> option val) : key -> option val :=
  fold_left (fun s w k' => if keqb k' (fst w) then snd w else s k') ws s.

Lemma fapply_ext : forall (ws : list wr) (s1 s2 : key -> option val),
  (forall k, s1 k = s2 k) -> forall k, fapply ws s1 k = fapply ws s2 k.
Proof.
  unfold fapply. induction ws as [|w ws IH]; intros s1 s2 H k; simpl; auto. apply IH. intros k0. rewrite H. reflexivity.
Qed.

Lemma lookup_apply_writes : forall ws m k, sorted m -> lookup (apply_writes ws m) k = fapply ws (lookup m) k.
Proof.
  induction ws as [|w ws IH]; intros m k Hs; simpl; auto.
  rewrite IH by (apply apply_write_sorted; auto).
  change (fapply (w :: ws) (lookup m) k) with (fapply ws (fun k' => if keqb k' (fst w) then snd w else lookup m k') k).
  apply fapply_ext. intros k0. apply lookup_apply_write; auto.
Qed.

Lemma fapply_notin : forall ws s k, ~ In k (map fst ws) -> fapply ws s k = s k.
Proof.
  induction ws as [|[k0 ov] t IH]; intros s k Hn; simpl in *; auto.
  unfold fapply in *. simpl. rewrite IH by tauto. simpl. keq k k0; [tauto|reflexivity].
Qed.
Lemma fapply_app : forall a b s, fapply (a ++ b) s = fapply b (fapply a s).
Proof. intros. unfold fapply. apply fold_left_app. Qed.
Lemma fapply_local : forall ws s1 s2 k, s1 k = s2 k -> fapply ws s1 k = fapply ws s2 k.
Proof.
  induction ws as [|w ws IHw]; intros s1 s2 k E12; simpl; auto. unfold fapply in *. simpl. apply IHw.
  destruct (keqb k (fst w)); auto.
Qed.

Lemma fapply_flat_map : forall (f : key * centry -> list wr) c s k,
  NoDup (map fst c) -> (forall ke w, In w (f ke) -> fst w = fst ke) ->
  fapply (flat_map f c) s k = match cget c k with Some e => fapply (f (k, e)) s k | None => s k end.
Proof.
  intros f. induction c as [|[k0 e0] t IH]; intros s k Hnd Hf; simpl; auto.
  inversion Hnd; subst. rewrite fapply_app. rewrite IH by assumption.
  keq k k0.
  - destruct (cget t k0) eqn:E; [apply cget_in in E; contradiction|]. reflexivity.
  - assert (Hno : ~ In k (map fst (f (k0, e0)))).
    { intro Hin. apply in_map_iff in Hin. destruct Hin as (w & Hw & Hin). apply Hf in Hin. simpl in Hin. congruence. }
    destruct (cget t k) as [e|] eqn:C.
    + apply fapply_local. apply fapply_notin. assumption.
    + apply fapply_notin. assumption.
Qed.

Lemma write_of_keys : forall ke w, In w (write_of ke) -> fst w = fst ke.
Proof.
  intros [k1 e1] w Hin. unfold write_of in Hin. simpl.
  destruct (init e1); [destruct (deleted e1); [|destruct (dirty e1)]|]; simpl in Hin; intuition; subst; reflexivity.
Qed.

Lemma fapply_single : forall k ov s, fapply [(k, ov)] s k = ov.
Proof. intros. unfold fapply. simpl. rewrite keqb_refl. reflexivity. Qed.

Lemma commit_pointwise : forall db c k, Inv db c -> fapply (commit_writes c) (lookup db) k = overlay db c k.
Proof.
  intros db c k [Hnd Hinv]. unfold commit_writes. rewrite fapply_flat_map; auto using write_of_keys.
  unfold overlay. destruct (cget c k) as [e|] eqn:E; auto.
  destruct (Hinv _ _ E) as (Hi & Hnodel & Hclean). unfold write_of.
  destruct (init e) as [v0|] eqn:Ei.
  - destruct (deleted e) eqn:Ed.
    + apply fapply_single.
    + destruct (dirty e) eqn:Edi.
      * apply fapply_single.
      * simpl. rewrite <- Hi. rewrite (Hclean v0 eq_refl eq_refl eq_refl). reflexivity.
  - rewrite fapply_single. rewrite (Hnodel eq_refl). reflexivity.
Qed.

Definition revert_of (ke : key * centry) : list wr :=
  let (k, e) := ke in
  match init e with
  | None => [(k, None)]
  | Some v0 => if deleted e then [(k, Some v0)] else if dirty e then [(k, Some v0)] else []
  end.

Lemma fapply_const : forall ws s k ov,
  (forall ov', In (k, ov') ws -> ov' = ov) -> In (k, ov) ws -> fapply ws s k = ov.
Proof.
  induction ws as [|[k0 ov0] t IH]; intros s k ov Hall Hin; simpl in *; [contradiction|].
  unfold fapply in *. simpl.
  destruct (in_dec key_eq_dec k (map fst t)) as [Hint|Hnot].
  - apply in_map_iff in Hint. destruct Hint as ([k' ov'] & Ek & Hin'). simpl in Ek. subst k'.
    assert (ov' = ov) by (apply Hall; auto). subst. apply IH; auto.
  - pose proof (fapply_notin t (fun k' => if keqb k' k0 then ov0 else s k') k Hnot) as Hn. unfold fapply in Hn. rewrite Hn.
    destruct Hin as [E|Hin]; [inversion E; subst; rewrite keqb_refl; reflexivity|].
    exfalso. apply Hnot. apply in_map_iff. exists (k, ov); auto.
Qed.

Lemma in_revert_writes : forall c k ov,
  In (k, ov) (revert_writes (diff_of c)) <-> exists e, In (k, e) c /\ In (k, ov) (revert_of (k, e)).
Proof.
  intros c k ov. unfold revert_writes, diff_of; simpl.
  rewrite !in_app_iff, !in_map_iff. split.
  - intros [(k1 & E & Hin)|[([k1 v1] & E & Hin)|([k1 v1] & E & Hin)]]; inversion E; subst; clear E;
      apply in_flat_map in Hin; destruct Hin as ([k2 e2] & Hc & Hin); simpl in Hin; exists e2.
    + unfold revert_of. destruct (init e2) eqn:Ei; simpl in Hin; [contradiction|]. destruct Hin as [Ek|[]]. subst k2.
      split; [assumption|left; reflexivity].
    + unfold revert_of. destruct (init e2) eqn:Ei; [|contradiction]. destruct (deleted e2) eqn:Ed; [|contradiction].
      destruct Hin as [E|[]]. inversion E; subst. split; [assumption|left; reflexivity].
    + unfold revert_of. destruct (init e2) eqn:Ei; [|contradiction]. destruct (deleted e2) eqn:Ed; [contradiction|].
      destruct (dirty e2) eqn:Edi; [|contradiction].
      destruct Hin as [E|[]]. inversion E; subst. split; [assumption|left; reflexivity].
  - intros (e & Hc & Hin). unfold revert_of in Hin.
    destruct (init e) as [v0|] eqn:Ei.
    + destruct (deleted e) eqn:Ed.
      * destruct Hin as [E|[]]. inversion E; subst. right; left. exists (k, v0). split; auto.
        apply in_flat_map. exists (k, e). split; auto. simpl. rewrite Ei, Ed. left; auto.
      * destruct (dirty e) eqn:Edi; [|contradiction].
        destruct Hin as [E|[]]. inversion E; subst. right; right. exists (k, v0). split; auto.
        apply in_flat_map. exists (k, e). split; auto. simpl. rewrite Ei, Ed, Edi. left; auto.
    + destruct Hin as [E|[]]. inversion E; subst. left. exists k. split; auto.
      apply in_flat_map. exists (k, e). split; auto. simpl. rewrite Ei. left; auto.
Qed.

Lemma revert_pointwise : forall db c k, Inv db c ->
  fapply (revert_writes (diff_of c)) (fapply (commit_writes c) (lookup db)) k = lookup db k.
Proof.
  intros db c k HI. pose proof HI as [Hnd Hinv].
  set (s' := fapply (commit_writes c) (lookup db)).
  assert (Hs' : s' k = overlay db c k) by (apply commit_pointwise; auto).
  destruct (cget c k) as [e|] eqn:E.
  - destruct (Hinv _ _ E) as (Hi & Hnodel & Hclean).
    assert (Huniq : forall e', In (k, e') c -> e' = e).
    { intros e' Hin. apply in_cget in Hin; auto. congruence. }
    assert (Hine : In (k, e) c) by (apply cget_In; auto).
    destruct (init e) as [v0|] eqn:Ei.
    + destruct (orb (deleted e) (dirty e)) eqn:Eo.
      * rewrite (fapply_const _ _ k (Some v0)); auto.
        -- intros ov' Hin. apply in_revert_writes in Hin. destruct Hin as (e' & Hc & Hin).
           apply Huniq in Hc. subst e'. unfold revert_of in Hin. rewrite Ei in Hin.
           destruct (deleted e); [|destruct (dirty e)]; simpl in Hin; intuition; congruence.
        -- apply in_revert_writes. exists e. split; auto. unfold revert_of. rewrite Ei.
           destruct (deleted e); [left; auto|]. simpl in Eo. rewrite Eo. left; auto.
      * apply orb_false_iff in Eo. destruct Eo as [Ed Edi].
        rewrite fapply_notin.
        -- rewrite Hs'. unfold overlay. rewrite E, Ed. rewrite (Hclean v0 eq_refl Edi Ed). auto.
        -- intro Hin. apply in_map_iff in Hin. destruct Hin as ([k' ov] & Ek & Hin). simpl in Ek. subst k'.
           apply in_revert_writes in Hin. destruct Hin as (e' & Hc & Hin). apply Huniq in Hc. subst e'.
           unfold revert_of in Hin. rewrite Ei, Ed, Edi in Hin. contradiction.
    + rewrite (fapply_const _ _ k None); auto.
      * intros ov' Hin. apply in_revert_writes in Hin. destruct Hin as (e' & Hc & Hin).
        apply Huniq in Hc. subst e'. unfold revert_of in Hin. rewrite Ei in Hin. simpl in Hin. intuition; congruence.
      * apply in_revert_writes. exists e. split; auto. unfold revert_of. rewrite Ei. left; auto.
  - rewrite fapply_notin.
    + rewrite Hs'. unfold overlay. rewrite E. reflexivity.
    + intro Hin. apply in_map_iff in Hin. destruct Hin as ([k' ov] & Ek & Hin). simpl in Ek. subst k'.
      apply in_revert_writes in Hin. destruct Hin as (e' & Hc & _). apply in_cget in Hc; auto. congruence.
Qed.

(* list-level statements: the database after the batch IS the sorted map with the staged writes applied, and
   the reverted database IS the previous one *)
Theorem commit_writes_final_state : forall db c m, sorted db -> Inv db c -> sorted m ->
  (forall k, lookup m k = overlay db c k) -> apply_writes (commit_writes c) db = m.
Proof.
  intros db c m Hs HI Hm Hv. apply sorted_ext; auto using apply_writes_sorted.
  intros k. rewrite lookup_apply_writes by auto. rewrite commit_pointwise by auto. symmetry. apply Hv.
Qed.

Theorem revert_commit_id : forall db c, sorted db -> Inv db c ->
  apply_writes (revert_writes (diff_of c)) (apply_writes (commit_writes c) db) = db.
Proof.
  intros db c Hs HI. apply sorted_ext; auto using apply_writes_sorted.
  intros k. rewrite lookup_apply_writes by auto using apply_writes_sorted.
  rewrite <- (revert_pointwise db c k HI). apply fapply_local.
  apply lookup_apply_writes; auto.
Qed.
