(* C05, store part: the Diff returned by cacheDB.commit classifies exactly the changed keys; RevertDiff of the
   stored (encoded, then decoded) diff undoes the committed batch for EVERY staged operation sequence; every
   key the staged store ever touches carries the root prefix (so the consensus-store batch cannot collide with
   block records).  The diff codec is abstract: an encode/decode pair with the round-trip law as a section
   hypothesis (the codec round trip itself is C08). *)
From Coq Require Import List NArith ZArith Bool Lia.
From LE Require Import Base.Lex Store.SMap Store.PebbleIter Store.PebbleIterProofs Store.DiffDB Store.DiffDBProofs
  Store.DiffDBScanProofs Store.DiffDBSpec Store.DiffDBRefine.
Import ListNotations.

(* ------------------------------------------------------------------ classification *)
Theorem diff_sound : forall db c, Inv db c ->
  (forall k, In k (d_added (diff_of c)) -> lookup db k = None /\ overlay db c k <> None) /\
  (forall k v, In (k, v) (d_updated (diff_of c)) -> lookup db k = Some v /\ overlay db c k <> None) /\
  (forall k v, In (k, v) (d_deleted (diff_of c)) -> lookup db k = Some v /\ overlay db c k = None).
Proof.
  intros db c [Hnd Hinv]. unfold diff_of; simpl. split; [|split].
  - intros k Hin. apply in_flat_map in Hin. destruct Hin as ([k0 e] & Hc & Hin). simpl in Hin.
    destruct (init e) eqn:Ei; [contradiction|]. destruct Hin as [<-|[]].
    pose proof (in_cget _ _ _ Hnd Hc) as Hg. destruct (Hinv _ _ Hg) as (A & B & _).
    split; [congruence|]. unfold overlay. rewrite Hg, (B Ei). discriminate.
  - intros k v Hin. apply in_flat_map in Hin. destruct Hin as ([k0 e] & Hc & Hin). simpl in Hin.
    destruct (init e) eqn:Ei; [|contradiction]. destruct (deleted e) eqn:Ed; [contradiction|].
    destruct (dirty e); [|contradiction]. destruct Hin as [E|[]]. inversion E; subst.
    pose proof (in_cget _ _ _ Hnd Hc) as Hg. destruct (Hinv _ _ Hg) as (A & _).
    split; [congruence|]. unfold overlay. rewrite Hg, Ed. discriminate.
  - intros k v Hin. apply in_flat_map in Hin. destruct Hin as ([k0 e] & Hc & Hin). simpl in Hin.
    destruct (init e) eqn:Ei; [|contradiction]. destruct (deleted e) eqn:Ed; [|contradiction].
    destruct Hin as [E|[]]. inversion E; subst.
    pose proof (in_cget _ _ _ Hnd Hc) as Hg. destruct (Hinv _ _ Hg) as (A & _).
    split; [congruence|]. unfold overlay. rewrite Hg, Ed. reflexivity.
Qed.

Theorem diff_complete : forall db c k, Inv db c -> overlay db c k <> lookup db k ->
  In k (d_added (diff_of c)) \/ (exists v, In (k, v) (d_updated (diff_of c))) \/ (exists v, In (k, v) (d_deleted (diff_of c))).
Proof.
  intros db c k [Hnd Hinv] Hne. unfold overlay in Hne. destruct (cget c k) as [e|] eqn:Hg; [|congruence].
  destruct (Hinv _ _ Hg) as (A & B & C). pose proof (cget_In _ _ _ Hg) as Hc. unfold diff_of; simpl.
  destruct (init e) as [v0|] eqn:Ei.
  - destruct (deleted e) eqn:Ed.
    + right. right. exists v0. apply in_flat_map. exists (k, e). split; auto. simpl. rewrite Ei, Ed. left; auto.
    + destruct (dirty e) eqn:Edi.
      * right. left. exists v0. apply in_flat_map. exists (k, e). split; auto. simpl. rewrite Ei, Ed, Edi. left; auto.
      * exfalso. apply Hne. rewrite (C v0 eq_refl eq_refl eq_refl). congruence.
  - left. apply in_flat_map. exists (k, e). split; auto. simpl. rewrite Ei. left; auto.
Qed.

(* ------------------------------------------------------------------ every staged key carries the root prefix *)
Definition cache_pref (root : key) (c : cache) : Prop := forall x, In x c -> is_prefix root (fst x) = true.
Definition view_pref (root : key) (vw : view) : Prop :=
  is_prefix root (v_prefix vw) = true /\ forall ic, In ic (v_snaps vw) -> cache_pref root (snd ic).
Definition state_pref (root : key) (d : dstate) : Prop :=
  cache_pref root (d_cache d) /\ forall vw, In vw (d_views d) -> view_pref root vw.

Lemma is_prefix_app_r : forall p a b, is_prefix p a = true -> is_prefix p (a ++ b) = true.
Proof. intros p a b H. apply is_prefix_spec in H. destruct H as [r ->]. rewrite <- app_assoc. apply is_prefix_app. Qed.

Lemma cput_In : forall c k e x, In x (cput c k e) -> x = (k, e) \/ In x c.
Proof.
  induction c as [|[k0 e0] t IH]; intros k e x; simpl; [intuition|].
  destruct (keqb k k0); simpl; intros [H|H]; auto. apply IH in H. destruct H; auto.
Qed.
Lemma cremove_In : forall c k x, In x (cremove c k) -> In x c.
Proof.
  induction c as [|[k0 e0] t IH]; intros k x; simpl; auto. destruct (keqb k k0); simpl; auto.
  intros [H|H]; auto. right. eapply IH; eauto.
Qed.

Lemma cache_pref_cput : forall root c k e, cache_pref root c -> is_prefix root k = true -> cache_pref root (cput c k e).
Proof. intros root c k e H Hk x Hx. apply cput_In in Hx. destruct Hx as [->|Hx]; auto. Qed.

Lemma scan_merge_pref : forall root plen kvs c, cache_pref root c ->
  (forall x, In x kvs -> is_prefix root (fst x) = true) -> cache_pref root (fst (scan_merge c plen kvs)).
Proof.
  induction kvs as [|[k v] t IH]; intros c Hc Hk; simpl; auto.
  assert (Hk' : forall x, In x t -> is_prefix root (fst x) = true) by (intros; apply Hk; right; auto).
  destruct (c_get c k).
  - specialize (IH c Hc Hk'). destruct (scan_merge c plen t). exact IH.
  - apply IH; auto.
  - assert (Hc' : cache_pref root (c_cache c k v)) by (apply cache_pref_cput; auto; apply (Hk (k, v)); left; auto).
    specialize (IH _ Hc' Hk'). destruct (scan_merge (c_cache c k v) plen t). exact IH.
Qed.

Lemma snap_del_In : forall {A} (l : list (N * A)) id x, In x (snap_del l id) -> In x l.
Proof.
  induction l as [|[i a] t IH]; intros id x; simpl; auto. destruct (i =? id)%N; simpl; intros H; auto.
  - right. eapply IH; eauto.
  - destruct H; auto. right. eapply IH; eauto.
Qed.
Lemma snap_get_In : forall {A} (l : list (N * A)) id a, snap_get l id = Some a -> In (id, a) l.
Proof.
  induction l as [|[i b] t IH]; intros id a; simpl; [discriminate|]. destruct (i =? id)%N eqn:E; intros H.
  - inversion H; subst. apply N.eqb_eq in E. subst. left; auto.
  - right. auto.
Qed.
Lemma set_nth_In : forall {A} (l : list A) i a x, In x (set_nth l i a) -> x = a \/ In x l.
Proof.
  induction l as [|y t IH]; intros [|i] a x; simpl; auto; intros [H|H]; auto. apply IH in H. destruct H; auto.
Qed.

Lemma step_pref : forall db root d o, sorted db -> wf_db db -> op_wf o ->
  (forall vw, In vw (d_views d) -> wf_key (v_prefix vw)) ->
  state_pref root d -> state_pref root (fst (step db d o)).
Proof.
  intros db root [c views] o Hs Hw Hop Hwv [Hc Hv]. simpl in *.
  assert (Hnth : forall i vw, nth_error views i = Some vw -> view_pref root vw /\ wf_key (v_prefix vw)).
  { intros i vw H. apply nth_error_In in H. split; auto. }
  destruct o as [i k|i k|i k x|i k|i s0 e limit reverse|i p limit reverse|i|i id|i id|i p]; simpl;
    destruct (nth_error views i) as [vw|] eqn:En; try (split; assumption);
    destruct (Hnth i vw En) as [[Hp Hsn] Hwp].
  - (* Get *)
    unfold db_Get. destruct (c_get c (v_prefix vw ++ k)); simpl; try (split; assumption).
    destruct (db_get db (v_prefix vw ++ k)); simpl; split; auto.
    apply cache_pref_cput; auto. apply is_prefix_app_r; auto.
  - (* Has *)
    unfold db_Get. destruct (c_get c (v_prefix vw ++ k)); simpl; try (split; assumption).
    destruct (db_get db (v_prefix vw ++ k)); simpl; split; auto.
    apply cache_pref_cput; auto. apply is_prefix_app_r; auto.
  - (* Set *)
    assert (Hk : is_prefix root (v_prefix vw ++ k) = true) by (apply is_prefix_app_r; auto).
    destruct (db_Set db c (v_prefix vw) k x) as [c'|] eqn:E; simpl; [|split; assumption]. split; auto.
    unfold db_Set in E. destruct (c_exist_any c (v_prefix vw ++ k)).
    + unfold c_set in E. destruct (cget c (v_prefix vw ++ k)); inversion E; subst. apply cache_pref_cput; auto.
    + unfold ensure_cache in E. destruct (db_get db (v_prefix vw ++ k)).
      * unfold c_set in E. destruct (cget (c_cache c (v_prefix vw ++ k) v) (v_prefix vw ++ k)); inversion E; subst.
        apply cache_pref_cput; auto. apply cache_pref_cput; auto.
      * inversion E; subst. apply cache_pref_cput; auto.
  - (* Del *)
    assert (Hk : is_prefix root (v_prefix vw ++ k) = true) by (apply is_prefix_app_r; auto).
    split; auto. unfold db_Del.
    assert (Hc1 : cache_pref root (if c_exist_any c (v_prefix vw ++ k) then c else snd (ensure_cache db c (v_prefix vw ++ k)))).
    { destruct (c_exist_any c (v_prefix vw ++ k)); auto. unfold ensure_cache.
      destruct (db_get db (v_prefix vw ++ k)); simpl; auto. apply cache_pref_cput; auto. }
    set (c1 := if c_exist_any c (v_prefix vw ++ k) then c else snd (ensure_cache db c (v_prefix vw ++ k))) in *.
    unfold c_del. destruct (cget c1 (v_prefix vw ++ k)) as [o|]; auto. destruct (init o).
    + apply cache_pref_cput; auto.
    + intros y Hy. apply cremove_In in Hy. auto.
  - (* Range *)
    unfold db_Range.
    assert (Hk : forall y, In y (iterate_range db (v_prefix vw ++ s0) (v_prefix vw ++ e) (-1) reverse) -> is_prefix root (fst y) = true).
    { intros y Hy. rewrite iterate_range_exact in Hy by auto. unfold range_spec, eff_limit in Hy. simpl in Hy.
      apply in_dir in Hy. apply filter_In in Hy. destruct Hy as [_ Hy]. apply andb_true_iff in Hy. destruct Hy as [H1 H2].
      pose proof (between_prefix _ _ _ _ H1 H2) as Hpp. apply is_prefix_spec in Hpp. destruct Hpp as [r ->].
      apply is_prefix_app_r; auto. }
    pose proof (scan_merge_pref root (length (v_prefix vw)) _ c Hc Hk) as Hsm.
    destruct (scan_merge c (length (v_prefix vw)) (iterate_range db (v_prefix vw ++ s0) (v_prefix vw ++ e) (-1) reverse)).
    simpl in *. split; auto.
  - (* Iterate *)
    unfold db_Iterate.
    assert (Hk : forall y, In y (iterate_prefix db (v_prefix vw ++ p) (-1) reverse) -> is_prefix root (fst y) = true).
    { intros y Hy. rewrite iterate_prefix_exact in Hy; auto; [|apply Forall_app; split; auto].
      unfold prefix_spec, eff_limit in Hy. simpl in Hy.
      apply in_dir in Hy. apply filter_In in Hy. destruct Hy as [_ Hy].
      apply is_prefix_spec in Hy. destruct Hy as [r ->]. rewrite <- app_assoc. apply is_prefix_app_r; auto. }
    pose proof (scan_merge_pref root (length (v_prefix vw)) _ c Hc Hk) as Hsm.
    destruct (scan_merge c (length (v_prefix vw)) (iterate_prefix db (v_prefix vw ++ p) (-1) reverse)).
    simpl in *. split; auto.
  - (* Snapshot *)
    split; auto. intros w Hw0. apply set_nth_In in Hw0. destruct Hw0 as [->|Hw0]; auto. split; auto. simpl.
    intros ic [<-|Hic]; auto. apply snap_del_In in Hic. auto.
  - (* Restore *)
    destruct (snap_get (v_snaps vw) id) as [snap|] eqn:Eg; simpl; [|split; assumption]. split.
    + apply snap_get_In in Eg. apply (Hsn _ Eg).
    + intros w Hw0. apply set_nth_In in Hw0. destruct Hw0 as [->|Hw0]; auto. split; auto. simpl.
      intros ic Hic. apply snap_del_In in Hic. auto.
  - (* DeleteSnapshot *)
    split; auto. intros w Hw0. apply set_nth_In in Hw0. destruct Hw0 as [->|Hw0]; auto. split; auto. simpl.
    intros ic Hic. apply snap_del_In in Hic. auto.
  - (* WithPrefix *)
    split; auto. intros w Hw0. apply in_app_iff in Hw0. destruct Hw0 as [Hw0|[<-|[]]]; auto.
    split; simpl; [apply is_prefix_app_r; auto|intros ? []].
Qed.

Lemma step_views_wf : forall db d o, op_wf o -> (forall vw, In vw (d_views d) -> wf_key (v_prefix vw)) ->
  forall vw, In vw (d_views (fst (step db d o))) -> wf_key (v_prefix vw).
Proof.
  intros db [c views] o Hop Hwv. simpl in *.
  destruct o as [i k|i k|i k x|i k|i s0 e limit reverse|i p limit reverse|i|i id|i id|i p]; simpl;
    destruct (nth_error views i) as [w|] eqn:En; simpl; auto.
  - destruct (db_Get db c (v_prefix w) k); auto.
  - destruct (db_Get db c (v_prefix w) k); auto.
  - destruct (db_Set db c (v_prefix w) k x); auto.
  - destruct (db_Range db c (v_prefix w) s0 e limit reverse); auto.
  - destruct (db_Iterate db c (v_prefix w) p limit reverse); auto.
  - intros vw H. apply set_nth_In in H. destruct H as [->|H]; auto. simpl. apply Hwv. eapply nth_error_In; eauto.
  - destruct (snap_get (v_snaps w) id); simpl; auto.
    intros vw H. apply set_nth_In in H. destruct H as [->|H]; auto. simpl. apply Hwv. eapply nth_error_In; eauto.
  - intros vw H. apply set_nth_In in H. destruct H as [->|H]; auto. simpl. apply Hwv. eapply nth_error_In; eauto.
  - intros vw H. apply in_app_iff in H. destruct H as [H|[<-|[]]]; auto. simpl. apply Forall_app. split; auto.
    apply Hwv. eapply nth_error_In; eauto.
Qed.

Theorem run_pref : forall db root ops d, sorted db -> wf_db db -> Forall op_wf ops ->
  (forall vw, In vw (d_views d) -> wf_key (v_prefix vw)) ->
  state_pref root d -> state_pref root (fst (run db d ops)).
Proof.
  intros db root ops. induction ops as [|o t IH]; intros d Hs Hw Hops Hwv HP; simpl; auto.
  inversion Hops; subst.
  pose proof (step_pref db root d o Hs Hw H1 Hwv HP) as HP'.
  pose proof (step_views_wf db d o H1 Hwv) as Hwv'.
  destruct (step db d o) as [d' r]. simpl in *.
  specialize (IH d' Hs Hw H2 Hwv' HP'). destruct (run db d' t) as [d'' rs]. exact IH.
Qed.

Lemma is_prefix_refl : forall p, is_prefix p p = true.
Proof. intros. rewrite <- (app_nil_r p) at 2. apply is_prefix_app. Qed.

Theorem staged_keys_prefixed : forall db root ops, sorted db -> wf_db db -> wf_key root -> Forall op_wf ops ->
  cache_pref root (d_cache (fst (run db (init_state root) ops))).
Proof.
  intros db root ops Hs Hw Hr Hops.
  apply (run_pref db root ops (init_state root)); auto.
  - simpl. intros vw [<-|[]]. exact Hr.
  - split; simpl; [intros ? []|]. intros vw [<-|[]]. split; simpl; [apply is_prefix_refl|intros ? []].
Qed.

(* ------------------------------------------------------------------ RevertDiff of the stored diff, all sequences *)
Section Codec.
  Variable encode : diff -> val.
  Variable decode : val -> option diff.
  Hypothesis roundtrip : forall d, decode (encode d) = Some d.

  Theorem revert_stored_diff_id : forall db root ops, sorted db -> wf_db db -> wf_key root -> Forall op_wf ops ->
    let d := fst (run db (init_state root) ops) in
    let batch := fst (db_Commit d) in
    let stored := encode (snd (db_Commit d)) in
    exists df, decode stored = Some df /\
               apply_writes (revert_writes df) (apply_writes batch db) = db.
  Proof.
    intros db root ops Hs Hw Hr Hops d batch stored. exists (snd (db_Commit d)). split; [apply roundtrip|].
    destruct (diffdb_refinement db root ops Hs Hw Hr Hops) as (_ & _ & H). exact H.
  Qed.
End Codec.
