(* db_scans_exact: the loops of pkg/db/iterator.go over the pebble-iterator model return exactly the keys inside
   the bounds, in order, truncated by the (effective) limit. *)
From Coq Require Import List NArith ZArith Bool Lia.
From LE Require Import Base.Lex Store.SMap Store.PebbleIter.
Import ListNotations.

Lemma filter_all : forall {A} (f : A -> bool) l, (forall x, In x l -> f x = true) -> filter f l = l.
Proof.
  induction l as [|x t IH]; simpl; intros H; auto. rewrite (H x (or_introl eq_refl)). f_equal. apply IH. auto.
Qed.
Lemma filter_none : forall {A} (f : A -> bool) l, (forall x, In x l -> f x = false) -> filter f l = [].
Proof.
  induction l as [|x t IH]; simpl; intros H; auto. rewrite (H x (or_introl eq_refl)). apply IH. auto.
Qed.
Lemma filter_filter : forall {A} (f g : A -> bool) l, filter f (filter g l) = filter (fun x => g x && f x) l.
Proof.
  induction l as [|x t IH]; simpl; auto. destruct (g x); simpl; [destruct (f x)|]; rewrite IH; reflexivity.
Qed.
Lemma filter_rev : forall {A} (f : A -> bool) l, filter f (rev l) = rev (filter f l).
Proof.
  induction l as [|x t IH]; simpl; auto. rewrite filter_app, IH. simpl. destruct (f x); simpl; auto. rewrite app_nil_r. reflexivity.
Qed.

Lemma visible_unbounded : forall db, visible db [] None = db.
Proof. intros. unfold visible. apply filter_all. intros x _. rewrite nil_leb. reflexivity. Qed.

(* ---- the loop ---- *)
Definition nostop : key -> bool := fun _ => false.

Lemma scan_loop_nostop : forall l limit count,
  scan_loop nostop limit count l =
  if (limit >? -1)%Z then firstn (Z.to_nat (limit - count)) l else l.
Proof.
  induction l as [|x t IH]; intros limit count; simpl.
  - destruct (limit >? -1)%Z; auto. destruct (Z.to_nat _); reflexivity.
  - destruct (limit >? -1)%Z eqn:E; simpl.
    + destruct (count >=? limit)%Z eqn:G.
      * assert (Hz : Z.to_nat (limit - count) = 0%nat) by lia. rewrite Hz. reflexivity.
      * unfold nostop at 1. rewrite IH, E.
        assert (Hs : Z.to_nat (limit - count) = S (Z.to_nat (limit - (count + 1)))) by lia. rewrite Hs. reflexivity.
    + unfold nostop at 1. rewrite IH, E. reflexivity.
Qed.

(* [stop] is closed along the visit sequence: once it holds it holds for everything after *)
Fixpoint closed (stop : key -> bool) (l : list kv) : Prop :=
  match l with
  | [] => True
  | x :: t => (stop (fst x) = true -> forall y, In y t -> stop (fst y) = true) /\ closed stop t
  end.

Lemma scan_loop_reached : forall stop limit count l, (limit >? -1)%Z && (count >=? limit)%Z = true ->
  scan_loop stop limit count l = [].
Proof. intros stop limit count [|x t] H; simpl; auto. rewrite H. reflexivity. Qed.

Lemma scan_loop_closed : forall stop l limit count, closed stop l ->
  scan_loop stop limit count l = scan_loop nostop limit count (filter (fun x => negb (stop (fst x))) l).
Proof.
  induction l as [|x t IH]; intros limit count Hc; simpl; auto. destruct Hc as [H1 H2].
  destruct ((limit >? -1)%Z && (count >=? limit)%Z) eqn:R.
  - symmetry. apply scan_loop_reached. exact R.
  - destruct (stop (fst x)) eqn:E; simpl.
    + rewrite filter_none; auto. intros y Hy. rewrite (H1 eq_refl y Hy). reflexivity.
    + rewrite R. unfold nostop at 1. f_equal. auto.
Qed.

Lemma closed_asc : forall e l, ssorted ltb l -> closed (fun k => ltb e k) l.
Proof.
  induction l as [|x t IH]; simpl; auto. intros [H1 H2]. split; auto.
  intros He y Hy. eapply ltb_trans; eauto.
Qed.
Lemma closed_desc : forall s l, ssorted gtb l -> closed (fun k => ltb k s) l.
Proof.
  induction l as [|x t IH]; simpl; auto. intros [H1 H2]. split; auto.
  intros He y Hy. specialize (H1 y Hy). unfold gtb in H1. eapply ltb_trans; eauto.
Qed.

(* ---- positioning ---- *)
Lemma seek_ge_visit : forall k l before, ssorted ltb l ->
  visit_fwd (seek_ge_aux before l k) = filter (fun x => leb k (fst x)) l.
Proof.
  induction l as [|x t IH]; intros before Hs; simpl; auto. destruct Hs as [H1 H2].
  destruct (leb k (fst x)) eqn:E; simpl.
  - f_equal. symmetry. apply filter_all. intros y Hy. apply ltb_leb. eapply leb_ltb_trans; eauto.
  - apply IH; auto.
Qed.

Lemma seek_lt_visit : forall k l before, ssorted ltb l ->
  visit_bwd (seek_lt_aux before l k) = rev (filter (fun x => ltb (fst x) k) l) ++ before.
Proof.
  induction l as [|x t IH]; intros before Hs; simpl.
  - destruct before; reflexivity.
  - destruct Hs as [H1 H2]. destruct (ltb (fst x) k) eqn:E; simpl.
    + rewrite IH by auto. rewrite <- app_assoc. reflexivity.
    + rewrite filter_none.
      * destruct before; reflexivity.
      * intros y Hy. specialize (H1 y Hy). destruct (ltb (fst y) k) eqn:G; auto.
        rewrite (ltb_trans _ _ _ H1 G) in E. discriminate.
Qed.

Lemma last_visit : forall l x before, visit_bwd (it_last_aux before x l) = rev l ++ x :: before.
Proof.
  induction l as [|y t IH]; intros x before; simpl; auto. rewrite IH. rewrite <- app_assoc. reflexivity.
Qed.

(* ---- the theorems ---- *)
Theorem iterate_range_exact : forall db s e limit reverse, sorted db ->
  iterate_range db s e limit reverse = range_spec db s e limit reverse.
Proof.
  intros db s e limit reverse Hs. unfold iterate_range, range_spec, eff_limit, dir. rewrite visible_unbounded.
  destruct reverse; simpl negb; cbv iota.
  - unfold it_seek_lt. rewrite seek_lt_visit by auto. rewrite app_nil_r.
    assert (Hf : filter (fun x => ltb (fst x) (e ++ [0%N])) db = filter (fun x => leb (fst x) e) db).
    { apply filter_ext. intros x. apply ltb_succ. }
    rewrite Hf. rewrite scan_loop_closed.
    + rewrite scan_loop_nostop. rewrite filter_rev, filter_filter. rewrite Z.sub_0_r.
      assert (Hg : filter (fun x => leb (fst x) e && negb (ltb (fst x) s)) db = filter (fun x => leb s (fst x) && leb (fst x) e) db).
      { apply filter_ext. intros x. rewrite <- leb_negb_ltb. apply andb_comm. }
      rewrite Hg. reflexivity.
    + apply closed_desc. apply ssorted_rev. apply ssorted_filter. exact Hs.
  - unfold it_seek_ge. rewrite seek_ge_visit by auto. rewrite scan_loop_closed.
    + rewrite scan_loop_nostop. rewrite filter_filter. rewrite Z.sub_0_r.
      assert (Hg : filter (fun x => leb s (fst x) && negb (ltb e (fst x))) db = filter (fun x => leb s (fst x) && leb (fst x) e) db).
      { apply filter_ext. intros x. rewrite <- leb_negb_ltb. reflexivity. }
      rewrite Hg. reflexivity.
    + apply closed_asc. apply ssorted_filter. exact Hs.
Qed.

Definition wf_db (db : smap) : Prop := forall x, In x db -> wf_key (fst x).

Lemma visible_prefix : forall db p, wf_key p -> wf_db db ->
  visible db p (upper_bound p) = filter (fun x => is_prefix p (fst x)) db.
Proof.
  intros db p Hp Hdb. unfold visible. apply filter_ext_in. intros x Hx. symmetry. apply upper_bound_spec; auto.
Qed.

Lemma closed_nostop : forall l, closed nostop l.
Proof. induction l; simpl; auto. Qed.

Theorem iterate_prefix_exact : forall db p limit reverse, wf_key p -> wf_db db ->
  iterate_prefix db p limit reverse = prefix_spec db p limit reverse.
Proof.
  intros db p limit reverse Hp Hdb. unfold iterate_prefix, prefix_spec, eff_limit, dir.
  rewrite visible_prefix by auto. set (vis := filter (fun x => is_prefix p (fst x)) db).
  change (fun _ : key => false) with nostop.
  destruct reverse; simpl negb; cbv iota; rewrite scan_loop_nostop, Z.sub_0_r.
  - assert (Hv : visit_bwd (it_last vis) = rev vis).
    { unfold it_last. destruct vis as [|x t]; [reflexivity|]. rewrite last_visit. reflexivity. }
    rewrite Hv. reflexivity.
  - assert (Hv : visit_fwd (it_first vis) = vis) by (destruct vis; reflexivity).
    rewrite Hv. reflexivity.
Qed.

Theorem iterate_key_exact : forall db p limit reverse, wf_key p -> wf_db db ->
  iterate_key db p limit reverse = map fst (prefix_spec db p limit reverse).
Proof. intros. unfold iterate_key. rewrite iterate_prefix_exact; auto. Qed.

(* the limit reading of pkg/db is the one of diffdb's mergeSortLimit, for EVERY limit *)
Corollary eff_limit_take_limit : forall limit (l : list kv), eff_limit limit l = take_limit limit l.
Proof. reflexivity. Qed.

Corollary eff_limit_sane : forall limit l,
  (limit < 0 -> eff_limit limit l = l)%Z /\ (0 <= limit -> eff_limit limit l = firstn (Z.to_nat limit) l)%Z.
Proof.
  intros. unfold eff_limit. split; intros H.
  - assert (E : (limit >? -1)%Z = false) by lia. rewrite E. reflexivity.
  - assert (E : (limit >? -1)%Z = true) by lia. rewrite E. reflexivity.
Qed.
