(* Sorted association lists over byte-string keys: the abstract key-value database (pebble = sorted map),
   batch writes, insertion sort as used by mergeSortLimit, and the uniqueness of strictly sorted lists.
   Definitions are computable; the laws are proved here once. *)
From Coq Require Import List NArith ZArith Bool Lia.
From LE Require Import Base.Lex.
Import ListNotations.

Definition val := list N.
Definition kv := (key * val)%type.
Definition smap := list kv.

(* ------------------------------------------------------------------ generic strict order on keys *)
Section Ord.
  Variable lt : key -> key -> bool.

  Fixpoint ssorted (l : list kv) : Prop :=
    match l with
    | [] => True
    | x :: t => (forall y, In y t -> lt (fst x) (fst y) = true) /\ ssorted t
    end.

  Fixpoint ssortedb (l : list kv) : bool :=
    match l with
    | [] => true
    | x :: t => match t with [] => true | y :: _ => lt (fst x) (fst y) && ssortedb t end
    end.

  Fixpoint ins (x : kv) (l : list kv) : list kv :=
    match l with
    | [] => [x]
    | y :: t => if lt (fst x) (fst y) then x :: l else y :: ins x t
    end.

  Fixpoint isort (l : list kv) : list kv :=
    match l with [] => [] | x :: t => ins x (isort t) end.

  Hypothesis lt_trans : forall a b c, lt a b = true -> lt b c = true -> lt a c = true.
  Hypothesis lt_irrefl : forall a, lt a a = false.
  Hypothesis lt_total : forall a b, a <> b -> lt a b = true \/ lt b a = true.

  Lemma ssortedb_sound : forall l, ssortedb l = true -> ssorted l.
  Proof.
    induction l as [|x t IH]; simpl; auto. destruct t as [|y t'].
    - intros _. split; [intros ? []|exact I].
    - intros H. apply andb_true_iff in H. destruct H as [H1 H2]. specialize (IH H2). split; auto.
      intros z [<-|Hz]; auto. destruct IH as [Hy _]. eapply lt_trans; eauto.
  Qed.

  Lemma ssorted_nodup : forall l, ssorted l -> NoDup (map fst l).
  Proof.
    induction l as [|x t IH]; simpl; intros H; [constructor|]. destruct H as [H1 H2]. constructor; auto.
    intros Hin. apply in_map_iff in Hin. destruct Hin as (y & E & Hy). specialize (H1 y Hy).
    rewrite E in H1. rewrite lt_irrefl in H1. discriminate.
  Qed.

  Lemma ssorted_unique : forall a b, ssorted a -> ssorted b -> (forall x, In x a <-> In x b) -> a = b.
  Proof.
    induction a as [|x a IH]; intros b Ha Hb Heq.
    - destruct b as [|y b]; auto. exfalso. apply (Heq y). left; auto.
    - destruct b as [|y b]; [exfalso; apply (Heq x); left; auto|].
      simpl in Ha, Hb. destruct Ha as [Ha1 Ha2]. destruct Hb as [Hb1 Hb2].
      assert (Hxy : x = y).
      { assert (Hx : In x (y :: b)) by (apply Heq; left; auto).
        assert (Hy : In y (x :: a)) by (apply Heq; left; auto).
        destruct Hx as [E|Hx]; auto. destruct Hy as [E|Hy]; auto.
        specialize (Hb1 x Hx). specialize (Ha1 y Hy).
        pose proof (lt_trans _ _ _ Hb1 Ha1) as C. rewrite lt_irrefl in C. discriminate. }
      subst y. f_equal. apply IH; auto.
      intros z. split; intros Hz.
      + assert (H : In z (x :: b)) by (apply Heq; right; auto). destruct H as [E|H]; auto.
        subst z. specialize (Ha1 x Hz). rewrite lt_irrefl in Ha1. discriminate.
      + assert (H : In z (x :: a)) by (apply Heq; right; auto). destruct H as [E|H]; auto.
        subst z. specialize (Hb1 x Hz). rewrite lt_irrefl in Hb1. discriminate.
  Qed.

  Lemma ins_in : forall x l y, In y (ins x l) <-> y = x \/ In y l.
  Proof.
    induction l as [|z t IH]; intros y; simpl.
    - intuition.
    - destruct (lt (fst x) (fst z)); simpl; [intuition|]. rewrite IH. intuition.
  Qed.

  Lemma isort_in : forall l y, In y (isort l) <-> In y l.
  Proof.
    induction l as [|x t IH]; intros y; simpl; [tauto|]. rewrite ins_in, IH. intuition.
  Qed.

  Lemma ins_ssorted : forall x l, ssorted l -> ~ In (fst x) (map fst l) -> ssorted (ins x l).
  Proof.
    induction l as [|z t IH]; intros Hs Hn; simpl.
    - split; [intros ? []|exact I].
    - simpl in Hs. destruct Hs as [H1 H2]. destruct (lt (fst x) (fst z)) eqn:E.
      + simpl. split; [|split; auto]. intros y [<-|Hy]; auto. eapply lt_trans; eauto.
      + simpl. split.
        * intros y Hy. apply ins_in in Hy. destruct Hy as [->|Hy]; auto.
          destruct (lt_total (fst x) (fst z)) as [C|C]; auto; [|congruence].
          intros Ek. apply Hn. simpl. left. auto.
        * apply IH; auto. intros Hin. apply Hn. simpl. right. auto.
  Qed.

  Lemma isort_ssorted : forall l, NoDup (map fst l) -> ssorted (isort l).
  Proof.
    induction l as [|x t IH]; simpl; intros Hnd; auto. inversion Hnd; subst.
    apply ins_ssorted; [apply IH; assumption|].
    intros Hin. apply H1. apply in_map_iff in Hin. destruct Hin as (y & E & Hy).
    apply (proj1 (isort_in _ _)) in Hy. apply in_map_iff. exists y. split; assumption.
  Qed.

  (* sorting any list whose elements are those of a strictly sorted list gives that list *)
  Lemma isort_unique : forall l target, NoDup (map fst l) -> ssorted target ->
    (forall x, In x l <-> In x target) -> isort l = target.
  Proof.
    intros l target Hnd Ht Heq. apply ssorted_unique; auto using isort_ssorted.
    intros x. rewrite isort_in. apply Heq.
  Qed.

  Lemma ssorted_filter : forall f l, ssorted l -> ssorted (filter f l).
  Proof.
    induction l as [|x t IH]; simpl; auto. intros [H1 H2]. destruct (f x); simpl; auto.
    split; auto. intros y Hy. apply filter_In in Hy. apply H1. tauto.
  Qed.

  Lemma ssorted_app : forall a b, ssorted a -> ssorted b ->
    (forall x y, In x a -> In y b -> lt (fst x) (fst y) = true) -> ssorted (a ++ b).
  Proof.
    induction a as [|x a IH]; simpl; auto. intros b [H1 H2] Hb Hab. split.
    - intros y Hy. apply in_app_iff in Hy. destruct Hy; auto.
    - apply IH; auto.
  Qed.
End Ord.

Definition gtb (a b : key) : bool := ltb b a.

Lemma gtb_trans : forall a b c, gtb a b = true -> gtb b c = true -> gtb a c = true.
Proof. unfold gtb. intros. eapply ltb_trans; eauto. Qed.
Lemma gtb_irrefl : forall a, gtb a a = false.
Proof. intros. apply ltb_irrefl. Qed.
Lemma gtb_total : forall a b, a <> b -> gtb a b = true \/ gtb b a = true.
Proof. unfold gtb. intros a b H. destruct (ltb_total a b H); auto. Qed.

Lemma ssorted_rev : forall l, ssorted ltb l -> ssorted gtb (rev l).
Proof.
  induction l as [|x t IH]; simpl; auto. intros [H1 H2].
  apply ssorted_app; auto.
  - simpl. split; [intros ? []|exact I].
  - intros a b Ha Hb. destruct Hb as [<-|[]]. unfold gtb. apply H1. apply in_rev. auto.
Qed.

(* ------------------------------------------------------------------ the sorted map *)
Definition sorted (m : smap) : Prop := ssorted ltb m.
Definition sortedb (m : smap) : bool := ssortedb ltb m.

Lemma sortedb_sound : forall m, sortedb m = true -> sorted m.
Proof. apply ssortedb_sound. exact ltb_trans. Qed.

Fixpoint lookup (m : smap) (k : key) : option val :=
  match m with
  | [] => None
  | (k', v) :: t => if keqb k k' then Some v else lookup t k
  end.

Fixpoint insert (m : smap) (k : key) (v : val) : smap :=
  match m with
  | [] => [(k, v)]
  | (k', v') :: t =>
      match lex_cmp k k' with
      | Lt => (k, v) :: m
      | Eq => (k, v) :: t
      | Gt => (k', v') :: insert t k v
      end
  end.

Fixpoint remove (m : smap) (k : key) : smap :=
  match m with
  | [] => []
  | (k', v') :: t => if keqb k k' then t else (k', v') :: remove t k
  end.

(* a batch: Some v = Set, None = Del, applied in order *)
Definition wr := (key * option val)%type.
Definition apply_write (m : smap) (w : wr) : smap :=
  match snd w with Some v => insert m (fst w) v | None => remove m (fst w) end.
Definition apply_writes (ws : list wr) (m : smap) : smap := fold_left apply_write ws m.

Lemma lookup_in : forall m k v, lookup m k = Some v -> In (k, v) m.
Proof.
  induction m as [|[k' v'] t IH]; simpl; intros k v H; [discriminate|].
  destruct (keqb k k') eqn:E; [apply keqb_eq in E; inversion H; subst; auto|right; auto].
Qed.

Lemma lookup_none_notin : forall m k, lookup m k = None -> ~ In k (map fst m).
Proof.
  induction m as [|[k' v'] t IH]; simpl; intros k H; auto.
  destruct (keqb k k') eqn:E; [discriminate|]. apply keqb_neq in E. intros [C|C]; [congruence|]. eapply IH; eauto.
Qed.

Lemma in_lookup : forall m k v, sorted m -> In (k, v) m -> lookup m k = Some v.
Proof.
  induction m as [|[k' v'] t IH]; simpl; intros k v Hs Hin; [contradiction|].
  destruct Hs as [H1 H2]. destruct Hin as [E|Hin].
  - inversion E; subst. rewrite keqb_refl. reflexivity.
  - destruct (keqb k k') eqn:E; auto. apply keqb_eq in E. subst k'. specialize (H1 _ Hin). simpl in H1.
    rewrite ltb_irrefl in H1. discriminate.
Qed.

Lemma lookup_lb : forall m k, (forall y, In y m -> ltb k (fst y) = true) -> lookup m k = None.
Proof.
  induction m as [|[k' v'] t IH]; simpl; intros k H; auto.
  destruct (keqb k k') eqn:E.
  - apply keqb_eq in E. subst. specialize (H (k', v') (or_introl eq_refl)). simpl in H. rewrite ltb_irrefl in H. discriminate.
  - apply IH. auto.
Qed.

Lemma sorted_ext : forall a b, sorted a -> sorted b -> (forall k, lookup a k = lookup b k) -> a = b.
Proof.
  intros a b Ha Hb H. apply (ssorted_unique ltb ltb_trans ltb_irrefl); auto.
  intros [k v]. split; intros Hin.
  - apply lookup_in. rewrite <- H. apply in_lookup; auto.
  - apply lookup_in. rewrite H. apply in_lookup; auto.
Qed.

Lemma lookup_insert : forall m k v k', lookup (insert m k v) k' = if keqb k' k then Some v else lookup m k'.
Proof.
  induction m as [|[k0 v0] t IH]; intros k v k'; simpl.
  - reflexivity.
  - destruct (lex_cmp k k0) eqn:E; simpl.
    + apply lex_cmp_eq in E. subst k0. destruct (keqb k' k); reflexivity.
    + reflexivity.
    + rewrite IH. destruct (keqb k' k0) eqn:E0; auto. apply keqb_eq in E0. subst k0.
      destruct (keqb k' k) eqn:E1; auto. apply keqb_eq in E1. subst k'. rewrite lex_cmp_refl in E. discriminate.
Qed.

Lemma insert_in : forall m k v y, In y (insert m k v) -> y = (k, v) \/ In y m.
Proof.
  induction m as [|[k0 v0] t IH]; intros k v y; simpl.
  - intuition.
  - destruct (lex_cmp k k0); simpl; intros H.
    + destruct H; auto.
    + destruct H as [H|[H|H]]; auto.
    + destruct H as [H|H]; auto. apply IH in H. destruct H; auto.
Qed.

Lemma insert_sorted : forall m k v, sorted m -> sorted (insert m k v).
Proof.
  unfold sorted. induction m as [|[k0 v0] t IH]; intros k v Hs; simpl.
  - split; [intros ? []|exact I].
  - simpl in Hs. destruct Hs as [H1 H2]. destruct (lex_cmp k k0) eqn:E; simpl.
    + apply lex_cmp_eq in E. subst. split; auto.
    + assert (L : ltb k k0 = true) by (unfold ltb; rewrite E; reflexivity).
      split; [|split; auto]. intros y [<-|Hy]; auto. simpl. eapply ltb_trans; eauto.
    + split; [|apply IH; auto]. intros y Hy. apply insert_in in Hy. destruct Hy as [->|Hy]; auto.
      simpl. unfold ltb. rewrite lex_cmp_antisym, E. reflexivity.
Qed.

Lemma remove_in : forall m k y, In y (remove m k) -> In y m.
Proof.
  induction m as [|[k0 v0] t IH]; intros k y; simpl; auto.
  destruct (keqb k k0); simpl; intros H; auto. destruct H; auto. right. eapply IH; eauto.
Qed.

Lemma remove_sorted : forall m k, sorted m -> sorted (remove m k).
Proof.
  unfold sorted. induction m as [|[k0 v0] t IH]; intros k Hs; simpl; auto.
  simpl in Hs. destruct Hs as [H1 H2]. destruct (keqb k k0); auto. simpl. split; auto.
  intros y Hy. apply H1. eapply remove_in; eauto.
Qed.

Lemma lookup_remove : forall m k k', sorted m -> lookup (remove m k) k' = if keqb k' k then None else lookup m k'.
Proof.
  unfold sorted. induction m as [|[k0 v0] t IH]; intros k k' Hs; simpl.
  - destruct (keqb k' k); reflexivity.
  - simpl in Hs. destruct Hs as [H1 H2]. destruct (keqb k k0) eqn:E.
    + apply keqb_eq in E. subst k0. destruct (keqb k' k) eqn:E1; auto.
      apply keqb_eq in E1. subst k'. apply lookup_lb. auto.
    + simpl. rewrite IH by auto. destruct (keqb k' k0) eqn:E0; auto.
      apply keqb_eq in E0. subst k0. rewrite keqb_sym in E. rewrite E. reflexivity.
Qed.

Lemma apply_write_sorted : forall m w, sorted m -> sorted (apply_write m w).
Proof. intros m [k [v|]] H; unfold apply_write; simpl; auto using insert_sorted, remove_sorted. Qed.

Lemma apply_writes_sorted : forall ws m, sorted m -> sorted (apply_writes ws m).
Proof. induction ws as [|w ws IH]; simpl; intros; auto. apply IH. apply apply_write_sorted; auto. Qed.

Lemma lookup_apply_write : forall m w k, sorted m ->
  lookup (apply_write m w) k = if keqb k (fst w) then snd w else lookup m k.
Proof.
  intros m [k0 [v|]] k H; unfold apply_write; simpl.
  - apply lookup_insert.
  - apply lookup_remove; auto.
Qed.

(* limits as in mergeSortLimit: a limit > -1 truncates *)
Definition take_limit {A} (limit : Z) (l : list A) : list A :=
  if (limit >? -1)%Z then firstn (Z.to_nat limit) l else l.
