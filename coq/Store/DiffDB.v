(* pkg/db/diffdb: cachedb.go (cacheValue {init,value,dirty,deleted}, add/cache/set/get/del/existAny/
   withPrefix/dataBetween/copy/commit) and db.go (Database: WithPrefix views sharing one cacheDB, Get with
   caching, Range, Iterate, mergeSortLimit, Set/Del with ensureCache, Commit, RevertDiff, Snapshot,
   DeleteSnapshot, RestoreSnapshot).  The underlying store is the sorted map of Store.PebbleIter.
   Go's map iteration order is not observable here: the cache is an association list with distinct keys and
   every result that depends on the order is sorted afterwards (Range/Iterate) or order-insensitive (commit).
   The model is of the REPAIRED code: store scans are not limited (limit applied after the merge), Iterate
   filters the cache with the prefixed key, RestoreSnapshot replaces the contents of the shared cacheDB. *)
From Coq Require Import List NArith ZArith Bool.
From LE Require Import Base.Lex Store.SMap Store.PebbleIter.
Import ListNotations.

Record centry := { init : option val; value : val; dirty : bool; deleted : bool }.
Definition cache := list (key * centry).

Fixpoint cget (c : cache) (k : key) : option centry :=
  match c with [] => None | (k', e) :: t => if keqb k k' then Some e else cget t k end.
Fixpoint cput (c : cache) (k : key) (e : centry) : cache :=
  match c with
  | [] => [(k, e)]
  | (k', e') :: t => if keqb k k' then (k, e) :: t else (k', e') :: cput t k e
  end.
Fixpoint cremove (c : cache) (k : key) : cache :=
  match c with [] => [] | (k', e') :: t => if keqb k k' then t else (k', e') :: cremove t k end.

(* ---- cachedb.go ---- *)
Definition c_add (c : cache) (k : key) (v : val) : cache :=
  cput c k {| init := None; value := v; dirty := false; deleted := false |}.
Definition c_cache (c : cache) (k : key) (v : val) : cache :=
  cput c k {| init := Some v; value := v; dirty := false; deleted := false |}.
(* set panics ("it should exist") when the key is not cached: None *)
Definition c_set (c : cache) (k : key) (v : val) : option cache :=
  match cget c k with
  | None => None
  | Some o => Some (cput c k {| init := init o; value := v; dirty := true; deleted := false |})
  end.
Inductive cres := CExist (v : val) | CDeleted | CAbsent.
Definition c_get (c : cache) (k : key) : cres :=
  match cget c k with
  | None => CAbsent
  | Some o => if deleted o then CDeleted else CExist (value o)
  end.
Definition c_del (c : cache) (k : key) : cache :=
  match cget c k with
  | None => c
  | Some o =>
      match init o with
      | None => cremove c k
      | Some _ => cput c k {| init := init o; value := value o; dirty := dirty o; deleted := true |}
      end
  end.
Definition c_exist_any (c : cache) (k : key) : bool :=
  match cget c k with Some _ => true | None => false end.
Definition c_with_prefix (c : cache) (p : key) (plen : nat) : list kv :=
  flat_map (fun ke => if deleted (snd ke) then []
                      else if is_prefix p (fst ke) then [(skipn plen (fst ke), value (snd ke))] else []) c.
Definition c_data_between (c : cache) (s e : key) (plen : nat) : list kv :=
  flat_map (fun ke => if deleted (snd ke) then []
                      else if leb s (fst ke) && leb (fst ke) e then [(skipn plen (fst ke), value (snd ke))] else []) c.
Definition c_copy (c : cache) : cache := c.   (* deep copy of immutable values *)

(* commit: the writes sent to the batch and the returned Diff *)
Record diff := { d_added : list key; d_updated : list kv; d_deleted : list kv }.
Definition write_of (ke : key * centry) : list wr :=
  let (k, e) := ke in
  match init e with
  | None => [(k, Some (value e))]
  | Some _ => if deleted e then [(k, None)] else if dirty e then [(k, Some (value e))] else []
  end.
Definition commit_writes (c : cache) : list wr := flat_map write_of c.
Definition diff_of (c : cache) : diff :=
  {| d_added := flat_map (fun ke => match init (snd ke) with None => [fst ke] | Some _ => [] end) c;
     d_updated := flat_map (fun ke => match init (snd ke) with
                                      | Some v0 => if deleted (snd ke) then [] else if dirty (snd ke) then [(fst ke, v0)] else []
                                      | None => [] end) c;
     d_deleted := flat_map (fun ke => match init (snd ke) with
                                      | Some v0 => if deleted (snd ke) then [(fst ke, v0)] else []
                                      | None => [] end) c |}.
(* db.go RevertDiff: Del every added key, Set every deleted pair, Set every updated pair *)
Definition revert_writes (d : diff) : list wr :=
  map (fun k => (k, None)) (d_added d) ++ map (fun x => (fst x, Some (snd x))) (d_deleted d)
  ++ map (fun x => (fst x, Some (snd x))) (d_updated d).

(* ---- db.go, one view = (shared cache, prefix) over the store [db] ---- *)
Definition db_Get (db : smap) (c : cache) (pfx k : key) : option val * cache :=
  let pk := pfx ++ k in
  match c_get c pk with
  | CExist v => (Some v, c)
  | CDeleted => (None, c)
  | CAbsent => match db_get db pk with
               | None => (None, c)
               | Some v => (Some v, c_cache c pk v)
               end
  end.

(* the loop over the store scan in Range/Iterate: skip staged deletes, cache unknown entries; the appended
   value is the one returned by cache.get (nil when the entry was not cached yet: a quirk that
   mergeSortLimit hides because the entry is cached by then) *)
Fixpoint scan_merge (c : cache) (plen : nat) (kvs : list kv) : cache * list kv :=
  match kvs with
  | [] => (c, [])
  | (k, v) :: t =>
      match c_get c k with
      | CDeleted => scan_merge c plen t
      | CExist x => let (c', r) := scan_merge c plen t in (c', (skipn plen k, x) :: r)
      | CAbsent => let (c', r) := scan_merge (c_cache c k v) plen t in (c', (skipn plen k, []) :: r)
      end
  end.

Definition merge_sort_limit (cached stored : list kv) (reverse : bool) (limit : Z) : list kv :=
  let result := cached ++ filter (fun d => negb (existsb (fun x => keqb (fst x) (fst d)) cached)) stored in
  let sorted := isort (if reverse then gtb else ltb) result in
  if (limit >? -1)%Z && (Z.of_nat (length sorted) >? limit)%Z then firstn (Z.to_nat limit) sorted else sorted.

Definition db_Range (db : smap) (c : cache) (pfx s e : key) (limit : Z) (reverse : bool) : list kv * cache :=
  let ps := pfx ++ s in
  let pe := pfx ++ e in
  let kvs := iterate_range db ps pe (-1) reverse in
  let (c', stored) := scan_merge c (length pfx) kvs in
  let cached := c_data_between c' ps pe (length pfx) in
  (merge_sort_limit cached stored reverse limit, c').

Definition db_Iterate (db : smap) (c : cache) (pfx p : key) (limit : Z) (reverse : bool) : list kv * cache :=
  let pk := pfx ++ p in
  let kvs := iterate_prefix db pk (-1) reverse in
  let (c', stored) := scan_merge c (length pfx) kvs in
  let cached := c_with_prefix c' pk (length pfx) in
  (merge_sort_limit cached stored reverse limit, c').

Definition ensure_cache (db : smap) (c : cache) (k : key) : bool * cache :=
  match db_get db k with None => (false, c) | Some v => (true, c_cache c k v) end.

(* None = the panic of cacheDB.set *)
Definition db_Set (db : smap) (c : cache) (pfx k : key) (v : val) : option cache :=
  let pk := pfx ++ k in
  if c_exist_any c pk then c_set c pk v
  else let (ex, c1) := ensure_cache db c pk in
       if ex then c_set c1 pk v else Some (c_add c1 pk v).

Definition db_Del (db : smap) (c : cache) (pfx k : key) : cache :=
  let pk := pfx ++ k in
  let c1 := if c_exist_any c pk then c else snd (ensure_cache db c pk) in
  c_del c1 pk.

(* ---- several views over one shared cacheDB; snapshots are per Database object ---- *)
Record view := { v_prefix : key; v_snaps : list (N * cache); v_count : N }.
Record dstate := { d_cache : cache; d_views : list view }.

Definition init_state (root : key) : dstate :=
  {| d_cache := []; d_views := [ {| v_prefix := root; v_snaps := []; v_count := 0 |} ] |}.

Inductive op :=
| OGet (v : nat) (k : key)
| OHas (v : nat) (k : key)
| OSet (v : nat) (k : key) (x : val)
| ODel (v : nat) (k : key)
| ORange (v : nat) (s e : key) (limit : Z) (reverse : bool)
| OIterate (v : nat) (p : key) (limit : Z) (reverse : bool)
| OSnapshot (v : nat)
| ORestore (v : nat) (id : N)
| ODeleteSnapshot (v : nat) (id : N)
| OWithPrefix (v : nat) (p : key).

Inductive res :=
| RNone
| RVal (o : option val)
| RBool (b : bool)
| RList (l : list kv)
| RId (n : N)
| RPanic
| RBadView.

Fixpoint snap_get {A} (l : list (N * A)) (id : N) : option A :=
  match l with [] => None | (i, x) :: t => if (i =? id)%N then Some x else snap_get t id end.
Fixpoint snap_del {A} (l : list (N * A)) (id : N) : list (N * A) :=
  match l with [] => [] | (i, x) :: t => if (i =? id)%N then snap_del t id else (i, x) :: snap_del t id end.
Definition snap_put {A} (l : list (N * A)) (id : N) (x : A) : list (N * A) := (id, x) :: snap_del l id.

Fixpoint set_nth {A} (l : list A) (n : nat) (x : A) : list A :=
  match l, n with
  | [], _ => []
  | _ :: t, O => x :: t
  | y :: t, S n' => y :: set_nth t n' x
  end.

Definition step (db : smap) (d : dstate) (o : op) : dstate * res :=
  let c := d_cache d in
  let with_view (i : nat) (f : view -> dstate * res) : dstate * res :=
    match nth_error (d_views d) i with Some vw => f vw | None => (d, RBadView) end in
  let upd (c' : cache) := {| d_cache := c'; d_views := d_views d |} in
  match o with
  | OGet i k => with_view i (fun vw => let (r, c') := db_Get db c (v_prefix vw) k in (upd c', RVal r))
  | OHas i k => with_view i (fun vw => let (r, c') := db_Get db c (v_prefix vw) k in
                                        (upd c', RBool (match r with Some _ => true | None => false end)))
  | OSet i k x => with_view i (fun vw => match db_Set db c (v_prefix vw) k x with
                                         | Some c' => (upd c', RNone)
                                         | None => (d, RPanic)
                                         end)
  | ODel i k => with_view i (fun vw => (upd (db_Del db c (v_prefix vw) k), RNone))
  | ORange i s e limit reverse =>
      with_view i (fun vw => let (r, c') := db_Range db c (v_prefix vw) s e limit reverse in (upd c', RList r))
  | OIterate i p limit reverse =>
      with_view i (fun vw => let (r, c') := db_Iterate db c (v_prefix vw) p limit reverse in (upd c', RList r))
  | OSnapshot i =>
      with_view i (fun vw =>
        let id := v_count vw in
        let vw' := {| v_prefix := v_prefix vw; v_snaps := snap_put (v_snaps vw) id (c_copy c); v_count := (id + 1)%N |} in
        ({| d_cache := c; d_views := set_nth (d_views d) i vw' |}, RId id))
  | ORestore i id =>
      with_view i (fun vw =>
        match snap_get (v_snaps vw) id with
        | None => (d, RBool false)
        | Some snap =>
            let vw' := {| v_prefix := v_prefix vw; v_snaps := snap_del (v_snaps vw) id; v_count := v_count vw |} in
            ({| d_cache := snap; d_views := set_nth (d_views d) i vw' |}, RBool true)
        end)
  | ODeleteSnapshot i id =>
      with_view i (fun vw =>
        let vw' := {| v_prefix := v_prefix vw; v_snaps := snap_del (v_snaps vw) id; v_count := v_count vw |} in
        ({| d_cache := c; d_views := set_nth (d_views d) i vw' |}, RNone))
  | OWithPrefix i p =>
      with_view i (fun vw =>
        ({| d_cache := c; d_views := d_views d ++ [ {| v_prefix := v_prefix vw ++ p; v_snaps := []; v_count := 0 |} ] |}, RNone))
  end.

Fixpoint run (db : smap) (d : dstate) (ops : list op) : dstate * list res :=
  match ops with
  | [] => (d, [])
  | o :: t => let (d', r) := step db d o in let (d'', rs) := run db d' t in (d'', r :: rs)
  end.

(* Commit / RevertDiff at the level of the database *)
Definition db_Commit (d : dstate) : list wr * diff := (commit_writes (d_cache d), diff_of (d_cache d)).
