(* Proofs about Store.DiffDB, part 2: Range and Iterate (store scan + overlay merge + sort + limit) return
   exactly the selection of the overlay map, in order, truncated, with the view prefix removed. *)
From Coq Require Import List NArith ZArith Bool Lia.
From LE Require Import Base.Lex Store.SMap Store.PebbleIter Store.PebbleIterProofs Store.DiffDB Store.DiffDBProofs
  Store.DiffDBSpec.
Import ListNotations.

(* ------------------------------------------------------------------ list helpers *)
Lemma flat_map_filter_map : forall {A B} (g : A -> bool) (f : A -> B) l,
  flat_map (fun x => if g x then [f x] else []) l = map f (filter g l).
Proof. induction l as [|x t IH]; simpl; auto. destruct (g x); simpl; rewrite IH; reflexivity. Qed.

Lemma NoDup_map_inj : forall {A B C} (h1 : A -> B) (h2 : A -> C) l, NoDup (map h1 l) ->
  (forall a b, In a l -> In b l -> h2 a = h2 b -> h1 a = h1 b) -> NoDup (map h2 l).
Proof.
  induction l as [|x t IH]; simpl; intros Hnd Hinj; [constructor|]. inversion Hnd; subst. constructor.
  - intros Hin. apply in_map_iff in Hin. destruct Hin as (y & E & Hy). apply H1. apply in_map_iff. exists y. split; [apply Hinj; auto|auto].
  - apply IH; auto.
Qed.

Lemma NoDup_map_filter : forall {A B} (h : A -> B) (g : A -> bool) l, NoDup (map h l) -> NoDup (map h (filter g l)).
Proof.
  induction l as [|x t IH]; simpl; intros Hnd; auto. inversion Hnd; subst. destruct (g x); simpl; auto.
  constructor; auto. intros Hin. apply H1. apply in_map_iff in Hin. destruct Hin as (y & E & Hy).
  apply filter_In in Hy. apply in_map_iff. exists y. tauto.
Qed.

Lemma impl_limit : forall (l : list kv) limit,
  (if (limit >? -1)%Z && (Z.of_nat (length l) >? limit)%Z then firstn (Z.to_nat limit) l else l) = take_limit limit l.
Proof.
  intros. unfold take_limit. destruct (limit >? -1)%Z eqn:E; simpl; auto.
  destruct (Z.of_nat (length l) >? limit)%Z eqn:G; auto. symmetry. apply firstn_all2. lia.
Qed.

(* removing a common prefix preserves the order *)
Lemma strip_ssorted : forall pfx l, ssorted ltb l -> (forall x, In x l -> is_prefix pfx (fst x) = true) ->
  ssorted ltb (map (strip (length pfx)) l).
Proof.
  induction l as [|x t IH]; simpl; auto. intros [H1 H2] Hp. split; [|apply IH; auto].
  intros y Hy. apply in_map_iff in Hy. destruct Hy as (z & <- & Hz). simpl.
  destruct (proj1 (is_prefix_spec _ _) (Hp x (or_introl eq_refl))) as [a Ea].
  destruct (proj1 (is_prefix_spec _ _) (Hp z (or_intror Hz))) as [b Eb].
  specialize (H1 z Hz). rewrite Ea, Eb in *. rewrite !skipn_app_exact. rewrite ltb_app in H1. exact H1.
Qed.

(* ------------------------------------------------------------------ the loop over the store scan *)
Lemma scan_merge_ok : forall db plen kvs c, Inv db c -> (forall k v, In (k, v) kvs -> lookup db k = Some v) ->
  let c' := fst (scan_merge c plen kvs) in
  let stored := snd (scan_merge c plen kvs) in
  Inv db c' /\ (forall k, overlay db c' k = overlay db c k) /\
  (forall k e, cget c k = Some e -> cget c' k = Some e) /\
  (forall k v, In (k, v) kvs -> cget c' k <> None) /\
  (forall y, In y stored -> exists k v e, In (k, v) kvs /\ fst y = skipn plen k /\ cget c' k = Some e /\ deleted e = false).
Proof.
  induction kvs as [|[k v] t IH]; intros c HI Hdb; simpl.
  - split; [exact HI|]. split; [reflexivity|]. split; [auto|]. split; [intros ? ? []|intros ? []].
  - assert (Hdb' : forall k v, In (k, v) t -> lookup db k = Some v) by (intros; apply Hdb; right; auto).
    unfold c_get. destruct (cget c k) as [e|] eqn:E.
    + destruct (deleted e) eqn:Ed.
      * destruct (IH c HI Hdb') as (A & B & C & D & F). split; [exact A|]. split; [exact B|]. split; [exact C|]. split.
        -- intros k0 v0 [G|G]; [inversion G; subst; rewrite (C _ _ E); discriminate|eapply D; eauto].
        -- intros y Hy. destruct (F y Hy) as (k1 & v1 & e1 & G1 & G2). exists k1, v1, e1. split; [right; auto|auto].
      * destruct (IH c HI Hdb') as (A & B & C & D & F). destruct (scan_merge c plen t) as [c' r] eqn:Es. simpl in *.
        split; [exact A|]. split; [exact B|]. split; [exact C|]. split.
        -- intros k0 v0 [G|G]; [inversion G; subst; rewrite (C _ _ E); discriminate|eapply D; eauto].
        -- intros y [<-|Hy].
           ++ exists k, v, e. simpl. split; [left; auto|]. split; auto.
           ++ destruct (F y Hy) as (k1 & v1 & e1 & G1 & G2). exists k1, v1, e1. split; [right; auto|auto].
    + assert (Hl : lookup db k = Some v) by (apply Hdb; left; auto).
      destruct (Inv_c_cache db c k v HI E Hl) as [HI1 Hv1].
      destruct (IH (c_cache c k v) HI1 Hdb') as (A & B & C & D & F).
      destruct (scan_merge (c_cache c k v) plen t) as [c' r] eqn:Es. simpl in *.
      assert (Hck : cget (c_cache c k v) k = Some {| init := Some v; value := v; dirty := false; deleted := false |}).
      { unfold c_cache. rewrite cget_cput, keqb_refl. reflexivity. }
      split; [exact A|]. split; [intros k0; rewrite B; apply Hv1|]. split; [|split].
      * intros k0 e0 G. apply C. unfold c_cache. rewrite cget_cput. keq k0 k; [congruence|auto].
      * intros k0 v0 [G|G]; [inversion G; subst; rewrite (C _ _ Hck); discriminate|eapply D; eauto].
      * intros y [<-|Hy].
        -- eexists k, v, _. simpl. split; [left; auto|]. split; auto. split; [apply C; exact Hck|reflexivity].
        -- destruct (F y Hy) as (k1 & v1 & e1 & G1 & G2). exists k1, v1, e1. split; [right; auto|auto].
Qed.

(* ------------------------------------------------------------------ the merge, for any selection predicate g
   that implies the view prefix *)
Section Overlay.
  Variables (db m : smap) (pfx : key) (g : key -> bool).
  Hypothesis Hsdb : sorted db.
  Hypothesis Hsm : sorted m.
  Hypothesis Hg : forall k, g k = true -> is_prefix pfx k = true.

  Definition sel_cache (c : cache) : list kv :=
    flat_map (fun ke => if deleted (snd ke) then []
                        else if g (fst ke) then [(skipn (length pfx) (fst ke), value (snd ke))] else []) c.

  Lemma sel_cache_map : forall c, sel_cache c =
    map (fun ke => (skipn (length pfx) (fst ke), value (snd ke))) (filter (fun ke => negb (deleted (snd ke)) && g (fst ke)) c).
  Proof.
    intros. unfold sel_cache. rewrite <- flat_map_filter_map. apply flat_map_ext. intros [k e]. simpl.
    destruct (deleted e); reflexivity.
  Qed.

  Lemma overlay_scan : forall c kvs reverse limit,
    Inv db c -> (forall k, lookup m k = overlay db c k) ->
    (forall k v, In (k, v) kvs <-> (In (k, v) db /\ g k = true)) ->
    let c' := fst (scan_merge c (length pfx) kvs) in
    let stored := snd (scan_merge c (length pfx) kvs) in
    merge_sort_limit (sel_cache c') stored reverse limit =
    take_limit limit (map (strip (length pfx)) (dir reverse (filter (fun x => g (fst x)) m))).
  Proof.
    intros c kvs reverse limit HI Hm Hkvs c' stored.
    assert (Hdbk : forall k v, In (k, v) kvs -> lookup db k = Some v).
    { intros k v H. apply in_lookup; auto. apply Hkvs in H. tauto. }
    destruct (scan_merge_ok db (length pfx) kvs c HI Hdbk) as (HI' & Hv' & _ & Hcached & Hstored).
    fold c' in HI', Hv', Hcached, Hstored. fold stored in Hstored.
    assert (Hm' : forall k, lookup m k = overlay db c' k) by (intros; rewrite Hv'; auto).
    destruct HI' as [Hnd Hinv].
    (* every stored element is shadowed by a cached one *)
    assert (Hshadow : filter (fun d => negb (existsb (fun x => keqb (fst x) (fst d)) (sel_cache c'))) stored = []).
    { apply filter_none. intros y Hy. destruct (Hstored y Hy) as (k & v & e & Hin & Ey & Hc & Hd).
      apply negb_false_iff. apply existsb_exists. exists (skipn (length pfx) k, value e). split.
      - rewrite sel_cache_map. apply in_map_iff. exists (k, e). split; auto. apply filter_In. split.
        + apply cget_In; auto.
        + simpl. rewrite Hd. simpl. apply Hkvs in Hin. tauto.
      - simpl. rewrite Ey. apply keqb_refl. }
    unfold merge_sort_limit. rewrite Hshadow, app_nil_r. rewrite impl_limit. f_equal.
    set (sel := filter (fun x => g (fst x)) m).
    assert (Hsel_sorted : ssorted ltb sel) by (apply ssorted_filter; exact Hsm).
    assert (Hsel_pfx : forall x, In x sel -> is_prefix pfx (fst x) = true).
    { intros x Hx. apply filter_In in Hx. apply Hg. tauto. }
    assert (Htarget : ssorted ltb (map (strip (length pfx)) sel)) by (apply strip_ssorted; auto).
    assert (Hnodup : NoDup (map fst (sel_cache c'))).
    { rewrite sel_cache_map. rewrite map_map. simpl.
      apply NoDup_map_inj with (h1 := fst).
      - apply NoDup_map_filter. exact Hnd.
      - intros [ka ea] [kb eb] Ha Hb E. apply filter_In in Ha. apply filter_In in Hb.
        destruct Ha as [_ Ha]. destruct Hb as [_ Hb]. apply andb_true_iff in Ha. apply andb_true_iff in Hb.
        simpl in *.
        destruct (proj1 (is_prefix_spec _ _) (Hg _ (proj2 Ha))) as [ra Ea].
        destruct (proj1 (is_prefix_spec _ _) (Hg _ (proj2 Hb))) as [rb Eb].
        subst ka kb. rewrite !skipn_app_exact in E. congruence. }
    assert (Hmem : forall y, In y (sel_cache c') <-> In y (map (strip (length pfx)) sel)).
    { intros y. rewrite sel_cache_map. rewrite !in_map_iff. split.
      - intros ([k e] & <- & Hin). apply filter_In in Hin. destruct Hin as [Hin Hc]. simpl in Hc.
        apply andb_true_iff in Hc. destruct Hc as [Hd Hgk]. apply negb_true_iff in Hd.
        exists (k, value e). split; [reflexivity|]. apply filter_In. split; auto.
        apply lookup_in. rewrite Hm'. unfold overlay. rewrite (in_cget _ _ _ Hnd Hin). rewrite Hd. reflexivity.
      - intros ([k v] & <- & Hin). apply filter_In in Hin. destruct Hin as [Hin Hgk]. simpl in Hgk.
        pose proof (in_lookup _ _ _ Hsm Hin) as Hl. rewrite Hm' in Hl. unfold overlay in Hl.
        destruct (cget c' k) as [e|] eqn:Ec.
        + destruct (deleted e) eqn:Ed; [discriminate|]. inversion Hl; subst.
          exists (k, e). split; [reflexivity|]. apply filter_In. split; [apply cget_In; auto|]. simpl. rewrite Ed, Hgk. reflexivity.
        + exfalso. apply (Hcached k v); auto. apply Hkvs. split; auto. apply lookup_in; auto. }
    destruct reverse; simpl dir.
    - rewrite map_rev. apply (isort_unique gtb gtb_trans gtb_irrefl gtb_total); auto.
      + apply ssorted_rev. exact Htarget.
      + intros y. rewrite Hmem. apply in_rev.
    - apply (isort_unique ltb ltb_trans ltb_irrefl ltb_total); auto.
  Qed.
End Overlay.

(* ------------------------------------------------------------------ Range and Iterate *)
Lemma in_dir : forall (rv : bool) (l : list kv) x, In x (dir rv l) <-> In x l.
Proof. intros. destruct rv; simpl; [symmetry; apply in_rev|tauto]. Qed.

Theorem range_refines : forall db c m pfx s e limit reverse,
  sorted db -> sorted m -> Inv db c -> (forall k, lookup m k = overlay db c k) ->
  fst (db_Range db c pfx s e limit reverse) = spec_range m pfx s e limit reverse /\
  Inv db (snd (db_Range db c pfx s e limit reverse)) /\
  forall k, overlay db (snd (db_Range db c pfx s e limit reverse)) k = overlay db c k.
Proof.
  intros db c m pfx s e limit reverse Hsdb Hsm HI Hm. unfold db_Range, spec_range.
  set (g := fun k => leb (pfx ++ s) k && leb k (pfx ++ e)).
  set (kvs := iterate_range db (pfx ++ s) (pfx ++ e) (-1) reverse).
  assert (Hkvs : forall k v, In (k, v) kvs <-> (In (k, v) db /\ g k = true)).
  { intros k v. unfold kvs. rewrite iterate_range_exact by auto. unfold range_spec, eff_limit. simpl.
    rewrite in_dir. rewrite filter_In. reflexivity. }
  assert (Hdbk : forall k v, In (k, v) kvs -> lookup db k = Some v).
  { intros k v H. apply in_lookup; auto. apply Hkvs in H. tauto. }
  pose proof (overlay_scan db m pfx g Hsdb Hsm) as Hov.
  assert (Hgp : forall k, g k = true -> is_prefix pfx k = true).
  { intros k Hk. unfold g in Hk. apply andb_true_iff in Hk. destruct Hk. eapply between_prefix; eauto. }
  specialize (Hov Hgp c kvs reverse limit HI Hm Hkvs).
  destruct (scan_merge_ok db (length pfx) kvs c HI Hdbk) as (HI' & Hv' & _).
  destruct (scan_merge c (length pfx) kvs) as [c' stored] eqn:Es. simpl in *.
  split; [|split; auto]. exact Hov.
Qed.

Theorem iterate_refines : forall db c m pfx p limit reverse,
  sorted db -> wf_db db -> wf_key (pfx ++ p) -> sorted m -> Inv db c -> (forall k, lookup m k = overlay db c k) ->
  fst (db_Iterate db c pfx p limit reverse) = spec_iterate m pfx p limit reverse /\
  Inv db (snd (db_Iterate db c pfx p limit reverse)) /\
  forall k, overlay db (snd (db_Iterate db c pfx p limit reverse)) k = overlay db c k.
Proof.
  intros db c m pfx p limit reverse Hsdb Hwdb Hwp Hsm HI Hm. unfold db_Iterate, spec_iterate.
  set (g := fun k => is_prefix (pfx ++ p) k).
  set (kvs := iterate_prefix db (pfx ++ p) (-1) reverse).
  assert (Hkvs : forall k v, In (k, v) kvs <-> (In (k, v) db /\ g k = true)).
  { intros k v. unfold kvs. rewrite iterate_prefix_exact by auto. unfold prefix_spec, eff_limit. simpl.
    rewrite in_dir. rewrite filter_In. reflexivity. }
  assert (Hdbk : forall k v, In (k, v) kvs -> lookup db k = Some v).
  { intros k v H. apply in_lookup; auto. apply Hkvs in H. tauto. }
  pose proof (overlay_scan db m pfx g Hsdb Hsm) as Hov.
  assert (Hgp : forall k, g k = true -> is_prefix pfx k = true).
  { intros k Hk. unfold g in Hk. apply is_prefix_spec in Hk. destruct Hk as [r ->]. rewrite <- app_assoc. apply is_prefix_app. }
  specialize (Hov Hgp c kvs reverse limit HI Hm Hkvs).
  destruct (scan_merge_ok db (length pfx) kvs c HI Hdbk) as (HI' & Hv' & _).
  destruct (scan_merge c (length pfx) kvs) as [c' stored] eqn:Es. simpl in *.
  split; [|split; auto]. exact Hov.
Qed.
