(* C10 — refinement of the layered model (SMT/Layered.v) to the reference trie.
   [trunc g t] is the sub-tree stored for the reference trie t (cut at depth g, deeper branches become stubs holding
   their hash); [stored lv s t]: the store s holds the sub-tree of t under hash t and, recursively, of every branch of
   t at depth h.  Main lemma [sub_ok]: updateSubtree on the sub-tree of t computes the sub-tree of [bupd .. t ops]
   (SMT/LayeredBatch.v), keeps [stored], and changes no fact [has s u] about a trie u all of whose keys lie outside the
   prefix being updated ([Frame]) — which is why the deletions of old sub-trees and the order of the left/right
   goroutines cannot hurt.  Needs: the hash is injective and domain separated (leaf / branch / empty), h > 0. *)
From Coq Require Import List Bool Arith Lia Permutation.
From LE Require Import SMT.Spec SMT.Tree SMT.TreeProofs SMT.Layered SMT.LayeredBatch.
Import ListNotations.

Section LP.
  Context {V Hsh : Type}.
  Variable hempty : Hsh.
  Variable hleaf : key -> V -> Hsh.
  Variable hbranch : Hsh -> Hsh -> Hsh.
  Variable heqb : Hsh -> Hsh -> bool.
  Variable h : nat.
  Variable n : nat.                                   (* key length in bits *)
  Hypothesis Hheqb : forall a b, heqb a b = true <-> a = b.
  Hypothesis Hbr_inj : forall a b c d, hbranch a b = hbranch c d -> a = c /\ b = d.
  Hypothesis Hlf_inj : forall k v k' v', length k = length k' -> hleaf k v = hleaf k' v' -> k = k' /\ v = v'.
  Hypothesis Hlb : forall k v a b, hleaf k v <> hbranch a b.
  Hypothesis Hle : forall k v, hleaf k v <> hempty.
  Hypothesis Hbe : forall a b, hbranch a b <> hempty.
  Hypothesis Hh : 0 < h.

  Notation T := (@T V).
  Notation op := (@op V).
  Notation ST := (@ST V Hsh).
  Notation snode := (@snode V Hsh).
  Notation store := (@store V Hsh).
  Notation hash := (hash hempty hleaf hbranch).
  Notation shash := (shash hempty hleaf hbranch).
  Notation sget := (@sget V Hsh heqb).
  Notation sset := (@sset V Hsh heqb).
  Notation sdel := (@sdel V Hsh heqb).
  Notation get_subtree := (@get_subtree V Hsh hempty heqb h).
  Notation upd := (@upd V Hsh).
  Notation upd_sub := (@upd_sub V Hsh hempty hleaf hbranch heqb h).
  Notation descend_with := (@descend_with V Hsh hempty hleaf hbranch heqb h).

  (* ---- the sub-tree of a reference trie ---- *)
  Fixpoint trunc (g : nat) (t : T) {struct t} : ST :=
    match t with
    | E => SN NE
    | L k v => SN (NL k v)
    | B l r => match g with O => SN (NS (hash t)) | S g' => SB (trunc g' l) (trunc g' r) end
    end.
  Fixpoint lowers (g : nat) (t : T) {struct t} : list T :=
    match t with
    | B l r => match g with O => [t] | S g' => lowers g' l ++ lowers g' r end
    | _ => []
    end.
  Fixpoint tnodes (t : T) : nat := match t with B l r => S (tnodes l + tnodes r) | _ => 1 end.
  Definition klen (t : T) : Prop := forall kv, In kv (tomap t) -> length (fst kv) = n.

  Definition has (s : store) (t : T) : Prop := sget (hash t) s = Some (flatten 0 (trunc h t)).
  Fixpoint stored (lv : nat) (s : store) (t : T) : Prop :=
    match lv with
    | O => False
    | S lv' => has s t /\ Forall (stored lv' s) (lowers h t)
    end.
  Definition Frame (i : nat) (p : list bool) (s s' : store) : Prop :=
    forall u, klen u -> (forall kv, In kv (tomap u) -> firstn i (fst kv) <> p) -> has s u -> has s' u.

  (* ---- hash injectivity on tries with keys of one length ---- *)
  Lemma klen_B : forall l r, klen (B l r) -> klen l /\ klen r.
  Proof. intros l r H. split; intros kv Hin; apply H; cbn [tomap]; apply in_or_app; auto. Qed.
  Lemma hash_inj : forall t1 t2 : T, klen t1 -> klen t2 -> hash t1 = hash t2 -> t1 = t2.
  Proof.
    induction t1 as [|k v|l IHl r IHr]; intros t2 K1 K2 Hh12; destruct t2 as [|k2 v2|l2 r2]; cbn [Tree.hash] in Hh12.
    - reflexivity.
    - symmetry in Hh12. apply Hle in Hh12. contradiction.
    - symmetry in Hh12. apply Hbe in Hh12. contradiction.
    - apply Hle in Hh12. contradiction.
    - assert (E1 : length k = length k2).
      { pose proof (K1 (k, v) (or_introl eq_refl)) as A1. pose proof (K2 (k2, v2) (or_introl eq_refl)) as A2.
        cbn [fst] in A1, A2. congruence. }
      destruct (Hlf_inj _ _ _ _ E1 Hh12). congruence.
    - apply Hlb in Hh12. contradiction.
    - apply Hbe in Hh12. contradiction.
    - symmetry in Hh12. apply Hlb in Hh12. contradiction.
    - apply Hbr_inj in Hh12. destruct Hh12 as [Ha Hb]. apply klen_B in K1. apply klen_B in K2.
      f_equal; [apply IHl|apply IHr]; tauto.
  Qed.

  (* ---- store ---- *)
  Lemma heqb_refl : forall a, heqb a a = true.
  Proof. intros. apply Hheqb. reflexivity. Qed.
  Lemma heqb_neq : forall a b, a <> b -> heqb a b = false.
  Proof. intros a b Hne. destruct (heqb a b) eqn:E1; auto. apply Hheqb in E1. contradiction. Qed.
  Lemma sget_sdel_other : forall r r' (s : store), r <> r' -> sget r' (sdel r s) = sget r' s.
  Proof.
    intros r r' s Hne. unfold Layered.sdel. induction s as [|[r0 c] s IH]; cbn [Layered.sget filter fst]; auto.
    destruct (heqb r r0) eqn:E0; cbn [negb].
    - apply Hheqb in E0. subst r0. rewrite (heqb_neq r' r) by congruence. exact IH.
    - cbn [Layered.sget]. rewrite IH. reflexivity.
  Qed.
  Lemma sget_sset_same : forall r c (s : store), sget r (sset r c s) = Some c.
  Proof. intros. unfold Layered.sset. cbn [Layered.sget]. rewrite heqb_refl. reflexivity. Qed.
  Lemma sget_sset_other : forall r r' c (s : store), r <> r' -> sget r' (sset r c s) = sget r' s.
  Proof.
    intros r r' c s Hne. unfold Layered.sset. cbn [Layered.sget]. rewrite (heqb_neq r' r) by congruence.
    apply sget_sdel_other. exact Hne.
  Qed.

  Lemma has_sset : forall (s : store) t u, klen t -> klen u -> has s u -> has (sset (hash t) (flatten 0 (trunc h t)) s) u.
  Proof.
    intros s t u Kt Ku Hu. unfold has in *.
    destruct (heqb (hash t) (hash u)) eqn:E1.
    - apply Hheqb in E1. apply hash_inj in E1; auto. subst u. apply sget_sset_same.
    - rewrite sget_sset_other; auto. intro E2. rewrite E2, heqb_refl in E1. discriminate.
  Qed.
  Lemma has_sdel : forall (s : store) r u, hash u <> r -> has s u -> has (sdel r s) u.
  Proof. intros s r u Hne Hu. unfold has in *. rewrite sget_sdel_other; auto. Qed.

  (* ---- parse / flatten ---- *)
  Fixpoint sdepth (st : ST) : nat := match st with SN _ => 0 | SB l r => S (Nat.max (sdepth l) (sdepth r)) end.
  Lemma flatten_head : forall (st : ST) d, exists d' x rest, flatten d st = (d', x) :: rest /\ d <= d' /\ (d' = d -> exists y, st = SN y).
  Proof.
    induction st as [x|l IHl r IHr]; intros d; cbn [flatten].
    - exists d, x, []. repeat split; auto. intros _. exists x. reflexivity.
    - destruct (IHl (S d)) as (d' & x & rest & E1 & Hle1 & _). rewrite E1. exists d', x, (rest ++ flatten (S d) r).
      repeat split; auto; try lia.
  Qed.
  Lemma parse_flatten : forall fuel (st : ST) d rest, sdepth st < fuel ->
    parse fuel d (flatten d st ++ rest) = Some (st, rest).
  Proof.
    induction fuel as [|f IH]; intros st d rest Hd; [lia|].
    destruct st as [x|l r]; cbn [flatten].
    - cbn [app parse]. rewrite Nat.eqb_refl. reflexivity.
    - cbn [sdepth] in Hd. destruct (flatten_head l (S d)) as (d' & x & rest' & E1 & Hle1 & _).
      assert (Ene : Nat.eqb d' d = false) by (apply Nat.eqb_neq; lia).
      rewrite <- app_assoc.
      assert (Hstep : forall whole, (exists tl, whole = (d', x) :: tl) ->
                parse (S f) d whole =
                match parse f (S d) whole with
                | None => None
                | Some (a, r1) => match parse f (S d) r1 with None => None | Some (b, r2) => Some (SB a b, r2) end
                end).
      { intros whole (tl & ->). cbn [parse]. rewrite Ene. reflexivity. }
      rewrite Hstep by (rewrite E1; eexists; reflexivity).
      rewrite IH by lia. rewrite IH by lia. reflexivity.
  Qed.
  Lemma sdepth_trunc : forall g t, sdepth (trunc g t) <= g.
  Proof.
    intros g t. revert g. induction t as [|k v|l IHl r IHr]; intros g; cbn [trunc sdepth]; try lia.
    destruct g as [|g']; cbn [sdepth]; [lia|]. specialize (IHl g'). specialize (IHr g'). lia.
  Qed.
  Lemma decode_trunc : forall t, decode h (flatten 0 (trunc h t)) = Some (trunc h t).
  Proof.
    intros t. unfold decode. rewrite <- (app_nil_r (flatten 0 (trunc h t))).
    rewrite parse_flatten; [reflexivity|]. pose proof (sdepth_trunc h t). lia.
  Qed.

  Lemma get_subtree_ok : forall (s : store) t, klen t -> t = E \/ has s t -> get_subtree s (hash t) = Some (trunc h t).
  Proof.
    intros s t Kt Ht. unfold Layered.get_subtree. destruct (heqb (hash t) hempty) eqn:E1.
    - apply Hheqb in E1. assert (t = E).
      { apply hash_inj; auto. intros kv []. }
      subst t. reflexivity.
    - destruct Ht as [->|Ht]; [cbn in E1; rewrite heqb_refl in E1; discriminate|].
      unfold has in Ht. rewrite Ht. apply decode_trunc.
  Qed.

  (* ---- trunc / norm / collapse ---- *)
  Lemma shash_trunc : forall g t, shash (trunc g t) = hash t.
  Proof.
    intros g t. revert g. induction t as [|k v|l IHl r IHr]; intros g; cbn [trunc]; try reflexivity.
    destruct g as [|g']; cbn [Layered.shash Layered.nhash Tree.hash]; [reflexivity|]. rewrite IHl, IHr. reflexivity.
  Qed.
  Lemma trunc_collapse : forall g l r, trunc (S g) (collapse l r) = scollapse (trunc g l) (trunc g r).
  Proof.
    intros g l r. destruct l as [|kl vl|la lb], r as [|kr vr|ra rb]; cbn [collapse trunc scollapse]; try reflexivity;
      destruct g; reflexivity.
  Qed.
  Lemma collapse_wf_id : forall d i (l r : T), wf d i (B l r) -> collapse l r = B l r.
  Proof.
    intros d i l r Hwf. destruct d as [|d']; [contradiction|]. cbn [wf] in Hwf. destruct Hwf as (_ & _ & Hsz & _).
    destruct l, r; cbn [collapse]; try reflexivity; cbn [tsize] in Hsz; lia.
  Qed.
  Lemma norm_trunc : forall g t d i, wf d i t -> norm (trunc g t) = trunc g t.
  Proof.
    induction g as [|g' IH]; intros t d i Hwf; destruct t as [|k v|l r]; cbn [trunc norm]; try reflexivity.
    pose proof (collapse_wf_id _ _ _ _ Hwf) as Ec.
    destruct d as [|d']; [contradiction|]. cbn [wf] in Hwf. destruct Hwf as (Hl & Hr & _).
    rewrite (IH l d' (S i) Hl), (IH r d' (S i) Hr). rewrite <- trunc_collapse. rewrite Ec. reflexivity.
  Qed.
  Lemma lowers_collapse : forall g l r, lowers (S g) (collapse l r) = lowers g l ++ lowers g r.
  Proof.
    intros g l r. destruct l as [|kl vl|la lb], r as [|kr vr|ra rb]; cbn [collapse lowers app]; try reflexivity.
  Qed.
  Lemma lowers_sub : forall t g u, In u (lowers g t) ->
    (forall kv, In kv (tomap u) -> In kv (tomap t)) /\ tnodes u <= tnodes t /\ (0 < g -> tnodes u < tnodes t) /\
    exists a b, u = B a b.
  Proof.
    induction t as [|k v|l IHl r IHr]; intros g u Hin; cbn [lowers] in Hin; try contradiction.
    destruct g as [|g'].
    - destruct Hin as [<-|[]]. repeat split; auto; try lia. eauto.
    - apply in_app_or in Hin. cbn [tomap tnodes]. destruct Hin as [Hin|Hin].
      + destruct (IHl _ _ Hin) as (Hk & Hn & _ & Hb). repeat split; auto; try lia. intros kv Hkv. apply in_or_app. left; auto.
      + destruct (IHr _ _ Hin) as (Hk & Hn & _ & Hb). repeat split; auto; try lia. intros kv Hkv. apply in_or_app. right; auto.
  Qed.
  Lemma lowers_wf : forall t g d i u, wf (g + d) i t -> In u (lowers g t) -> wf d (g + i) u.
  Proof.
    induction t as [|k v|l IHl r IHr]; intros g d i u Hwf Hin; cbn [lowers] in Hin; try contradiction.
    destruct g as [|g'].
    - destruct Hin as [<-|[]]. exact Hwf.
    - cbn [plus] in Hwf. cbn [wf] in Hwf. destruct Hwf as (Hl & Hr & _).
      replace (S g' + i) with (g' + S i) by lia.
      apply in_app_or in Hin. destruct Hin as [Hin|Hin]; [eapply IHl|eapply IHr]; eauto.
  Qed.

  (* ---- frames ---- *)
  Lemma wf_klen : forall d i (t : T), wf d i t -> i + d = n -> klen t.
  Proof. intros d i t Hwf Hn kv Hin. rewrite (wf_keys _ _ _ _ Hwf Hin). exact Hn. Qed.
  Lemma klen_lower : forall g t u, klen t -> In u (lowers g t) -> klen u.
  Proof. intros g t u Kt Hu kv Hin. apply Kt. destruct (lowers_sub _ _ _ Hu) as (Hk & _). auto. Qed.

  Lemma frame_refl : forall i p (s : store), Frame i p s s.
  Proof. intros i p s u _ _ Hu. exact Hu. Qed.
  Lemma frame_trans : forall i p (s1 s2 s3 : store), Frame i p s1 s2 -> Frame i p s2 s3 -> Frame i p s1 s3.
  Proof. intros i p s1 s2 s3 F1 F2 u Ku Ho Hu. apply F2; auto. Qed.
  Lemma frame_weaken : forall i p b (s s' : store), i < n -> Frame (S i) (p ++ [b]) s s' -> Frame i p s s'.
  Proof.
    intros i p b s s' Hi F u Ku Ho Hu. apply F; auto. intros kv Hin E1. apply (Ho kv Hin).
    rewrite firstn_snoc in E1 by (rewrite (Ku kv Hin); exact Hi). apply app_inj_tail in E1. tauto.
  Qed.
  Lemma stored_frame : forall lv i p (s s' : store) t, Frame i p s s' -> klen t ->
    (forall kv, In kv (tomap t) -> firstn i (fst kv) <> p) -> stored lv s t -> stored lv s' t.
  Proof.
    induction lv as [|lv IH]; intros i p s s' t F Kt Ho Hs; cbn [stored] in *; [contradiction|].
    destruct Hs as [Hhas Hall]. split; [apply (F t); auto|].
    rewrite Forall_forall in *. intros u Hu. destruct (lowers_sub _ _ _ Hu) as (Hk & _).
    apply (IH i p s s'); auto.
    - eapply klen_lower; eauto.
  Qed.
  Lemma stored_sset : forall lv (s : store) t u, klen t -> klen u -> stored lv s u ->
    stored lv (sset (hash t) (flatten 0 (trunc h t)) s) u.
  Proof.
    induction lv as [|lv IH]; intros s t u Kt Ku Hs; cbn [stored] in *; [contradiction|].
    destruct Hs as [Hhas Hall]. split; [apply has_sset; auto|].
    rewrite Forall_forall in *. intros w Hw. apply IH; auto. eapply klen_lower; eauto.
  Qed.
  Lemma stored_sdel : forall lv (s : store) t u, klen t -> klen u -> tnodes u < tnodes t -> stored lv s u ->
    stored lv (sdel (hash t) s) u.
  Proof.
    induction lv as [|lv IH]; intros s t u Kt Ku Hlt Hs; cbn [stored] in *; [contradiction|].
    destruct Hs as [Hhas Hall]. split.
    - apply has_sdel; auto. intro E1. apply hash_inj in E1; auto. subst u. lia.
    - rewrite Forall_forall in *. intros w Hw. destruct (lowers_sub _ _ _ Hw) as (_ & Hn & _).
      apply IH; auto; [eapply klen_lower; eauto|lia].
  Qed.
  Lemma frame_sdel : forall i p (s : store) t, klen t -> under i p t -> 1 <= tsize t -> Frame i p s (sdel (hash t) s).
  Proof.
    intros i p s t Kt Hp Hsz u Ku Ho Hu. apply has_sdel; auto. intro E1. apply hash_inj in E1; auto. subst u.
    rewrite <- size_tomap in Hsz. destruct (tomap t) as [|kv m] eqn:Em; [cbn in Hsz; lia|].
    apply (Ho kv); [left; auto|]. apply Hp. rewrite Em. left; auto.
  Qed.
  Lemma frame_sset : forall i p (s : store) t, klen t -> Frame i p s (sset (hash t) (flatten 0 (trunc h t)) s).
  Proof. intros i p s t Kt u Ku _ Hu. apply has_sset; auto. Qed.

  (* ---- node level ---- *)
  Definition node_of (t : T) : snode := match t with E => NE | L k v => NL k v | B _ _ => NS (hash t) end.
  Definition leafy (t : T) : Prop := match t with B _ _ => False | _ => True end.
  Lemma trunc0 : forall t, trunc 0 t = SN (node_of t).
  Proof. destruct t; reflexivity. Qed.
  Lemma trunc_leafy : forall g t, leafy t -> trunc g t = SN (node_of t) /\ lowers g t = [].
  Proof. intros g t Hl. destruct t; [split; reflexivity|split; reflexivity|contradiction]. Qed.
  Lemma direct_tdirect : forall (t : T) (ops : list op),
    match tdirect t ops with
    | Some t' => direct (node_of t) ops = Some (node_of t') /\ leafy t'
    | None => direct (node_of t) ops = None
    end.
  Proof.
    intros t ops. unfold tdirect, direct. destruct ops as [|[k ov] [|o2 ops]]; try reflexivity.
    destruct t as [|k' v'|l r]; cbn [node_of].
    - split; destruct ov; cbn; auto.
    - destruct (key_eqb k' k); [|reflexivity]. split; destruct ov; cbn; auto.
    - reflexivity.
  Qed.
  Lemma place_children : forall i (t : T), leafy t ->
    place i (node_of t) = Some (node_of (fst (children i t)), node_of (snd (children i t))) /\
    leafy (fst (children i t)) /\ leafy (snd (children i t)).
  Proof.
    intros i t Hl. destruct t as [|k v|l r]; [| |contradiction]; cbn [node_of place children].
    - cbn. auto.
    - destruct (bit i k); cbn; auto.
  Qed.

  (* ---- unfolding [upd] ---- *)
  Section UpdEq.
    Variable descend : store -> nat -> snode -> list op -> option (store * snode).
    Definition both_of (g' i : nat) (l r : ST) (ops : list op) (s : store) : option (store * ST) :=
      match upd descend g' (S i) l (opsb false i ops) s with
      | None => None
      | Some (s1, l') =>
        match upd descend g' (S i) r (opsb true i ops) s1 with None => None | Some (s2, r') => Some (s2, SB l' r') end
      end.
    Lemma upd_nil : forall g i st s, upd descend g i st [] s = Some (s, st).
    Proof. destruct g; reflexivity. Qed.
    Lemma upd_SB : forall g' i l r ops s, ops <> [] -> upd descend (S g') i (SB l r) ops s = both_of g' i l r ops s.
    Proof. intros g' i l r ops s Hne. destruct ops; [contradiction|]. reflexivity. Qed.
    Lemma upd_direct : forall g i x x' ops s, ops <> [] -> direct x ops = Some x' ->
      upd descend g i (SN x) ops s = Some (s, SN x').
    Proof. intros g i x x' ops s Hne Hd. destruct ops; [contradiction|]. destruct g; cbn [Layered.upd]; rewrite Hd; reflexivity. Qed.
    Lemma upd_descend : forall i x ops s, ops <> [] -> direct x ops = None ->
      upd descend 0 i (SN x) ops s = match descend s i x ops with Some (s', x') => Some (s', SN x') | None => None end.
    Proof. intros i x ops s Hne Hd. destruct ops; [contradiction|]. cbn [Layered.upd]. rewrite Hd. reflexivity. Qed.
    Lemma upd_split : forall g' i x xl xr ops s, ops <> [] -> direct x ops = None -> place i x = Some (xl, xr) ->
      upd descend (S g') i (SN x) ops s = both_of g' i (SN xl) (SN xr) ops s.
    Proof. intros g' i x xl xr ops s Hne Hd Hp. destruct ops; [contradiction|]. cbn [Layered.upd]. rewrite Hd, Hp. reflexivity. Qed.
  End UpdEq.

  (* ---- the inner walk of one sub-tree ---- *)
  Definition DS (lv' : nat) (descend : store -> nat -> snode -> list op -> option (store * snode)) : Prop :=
    forall (s : store) i p (t : T) (ops : list op),
      i + lv' * h = n -> wf (lv' * h) i t -> under i p t -> okops (lv' * h) i p ops -> ops <> [] -> tdirect t ops = None ->
      Forall (stored lv' s) (lowers 0 t) ->
      exists s', descend s i (node_of t) ops = Some (s', node_of (bupd (lv' * h) i t ops)) /\
                 Forall (stored lv' s') (lowers 0 (bupd (lv' * h) i t ops)) /\ Frame i p s s'.

  Lemma under_out : forall i p b (t : T), under (S i) (p ++ [b]) t ->
    forall kv, In kv (tomap t) -> firstn (S i) (fst kv) <> p ++ [negb b].
  Proof.
    intros i p b t Hu kv Hin E1. rewrite (Hu kv Hin) in E1. apply app_inj_tail in E1. destruct E1 as [_ E1].
    destruct b; discriminate.
  Qed.
  Lemma forall_stored_frame : forall lv i p (s s' : store) t (us : list T), Frame i p s s' -> klen t ->
    (forall kv, In kv (tomap t) -> firstn i (fst kv) <> p) -> (forall u, In u us -> exists g, In u (lowers g t)) ->
    Forall (stored lv s) us -> Forall (stored lv s') us.
  Proof.
    intros lv i p s s' t us F Kt Ho Hus Hall. rewrite Forall_forall in *. intros u Hu.
    destruct (Hus u Hu) as (g & Hg). destruct (lowers_sub _ _ _ Hg) as (Hk & _).
    apply (stored_frame lv i p s s'); auto. eapply klen_lower; eauto.
  Qed.

  Lemma upd_ok : forall descend lv', DS lv' descend ->
    forall g (s : store) i p (t : T) (ops : list op),
      i + (g + lv' * h) = n -> wf (g + lv' * h) i t -> under i p t -> okops (g + lv' * h) i p ops ->
      Forall (stored lv' s) (lowers g t) ->
      exists s' raw, upd descend g i (trunc g t) ops s = Some (s', raw) /\
                     norm raw = trunc g (bupd (g + lv' * h) i t ops) /\
                     Forall (stored lv' s') (lowers g (bupd (g + lv' * h) i t ops)) /\ Frame i p s s'.
  Proof.
    intros descend lv' HDS. induction g as [|g' IH]; intros s i p t ops Hn Hwf Hp Hok Hst.
    - (* bottom row of the sub-tree *)
      destruct ops as [|o0 ops0].
      { exists s, (trunc 0 t). rewrite upd_nil, bupd_nil. repeat split; auto; [eapply norm_trunc; eauto|apply frame_refl]. }
      remember (o0 :: ops0) as ops eqn:Eops. assert (Hne : ops <> []) by (subst ops; discriminate).
      rewrite trunc0. pose proof (direct_tdirect t ops) as Hd.
      destruct (tdirect t ops) as [t'|] eqn:Etd.
      + destruct Hd as [Hd Hl]. exists s, (SN (node_of t')). rewrite (upd_direct _ _ _ _ _ _ _ Hne Hd).
        rewrite (bupd_direct _ _ _ _ _ Etd). destruct (trunc_leafy 0 t' Hl) as [E1 E2]. rewrite E1, E2.
        repeat split; auto. apply frame_refl.
      + rewrite (upd_descend _ _ _ _ _ Hne Hd).
        destruct (HDS s i p t ops Hn Hwf Hp Hok Hne Etd Hst) as (s' & E1 & Hst' & F).
        rewrite E1. exists s', (SN (node_of (bupd (0 + lv' * h) i t ops))). rewrite trunc0.
        repeat split; auto.
    - destruct ops as [|o0 ops0].
      { exists s, (trunc (S g') t). rewrite upd_nil, bupd_nil. repeat split; auto; [eapply norm_trunc; eauto|apply frame_refl]. }
      remember (o0 :: ops0) as ops eqn:Eops. assert (Hne : ops <> []) by (subst ops; discriminate).
      pose proof (direct_tdirect t ops) as Hd.
      destruct (tdirect t ops) as [t'|] eqn:Etd.
      + (* direct: only on a bottom node *)
        destruct Hd as [Hd Hl].
        assert (Hlt : leafy t).
        { destruct t; cbn; auto. unfold tdirect in Etd. destruct ops as [|[? ?] [|? ?]]; discriminate. }
        destruct (trunc_leafy (S g') t Hlt) as [E0 _]. rewrite E0.
        exists s, (SN (node_of t')). rewrite (upd_direct _ _ _ _ _ _ _ Hne Hd).
        rewrite (bupd_direct _ _ _ _ _ Etd). destruct (trunc_leafy (S g') t' Hl) as [E1 E2]. rewrite E1, E2.
        repeat split; auto. apply frame_refl.
      + (* both sides *)
        cbn [plus] in Hwf, Hok, Hn |- *.
        set (d' := g' + lv' * h) in *.
        destruct (children_ok d' i p t Hwf Hp) as (Hwl & Hwr & Etm & Hbl & Hbr).
        destruct (under_children d' i p t Hwf Hp) as (Hul & Hur).
        set (cl := fst (children i t)) in *. set (cr := snd (children i t)) in *.
        assert (Hupd : upd descend (S g') i (trunc (S g') t) ops s = both_of descend g' i (trunc g' cl) (trunc g' cr) ops s).
        { destruct t as [|k v|l r].
          - destruct (place_children i E I) as (Ep & _). cbn [trunc]. rewrite (upd_split _ g' i NE _ _ ops s Hne Hd Ep). reflexivity.
          - destruct (place_children i (L k v) I) as (Ep & Hl1 & Hl2). cbn [trunc].
            rewrite (upd_split _ g' i _ _ _ ops s Hne Hd Ep).
            fold cl in Hl1, Hl2 |- *. fold cr in Hl2 |- *.
            destruct (trunc_leafy g' cl Hl1) as [-> _]. destruct (trunc_leafy g' cr Hl2) as [-> _]. reflexivity.
          - cbn [trunc]. rewrite (upd_SB _ _ _ _ _ _ _ Hne). reflexivity. }
        assert (Hlow : lowers (S g') t = lowers g' cl ++ lowers g' cr).
        { destruct t as [|k v|l r]; [reflexivity| |reflexivity].
          destruct (place_children i (L k v) I) as (_ & Hl1 & Hl2). fold cl in Hl1. fold cr in Hl2.
          destruct (trunc_leafy g' cl Hl1) as [_ ->]. destruct (trunc_leafy g' cr Hl2) as [_ ->]. reflexivity. }
        rewrite Hlow in Hst. apply Forall_app in Hst. destruct Hst as [Hstl Hstr].
        assert (Hi : i < n) by lia.
        assert (Hnl : S i + (g' + lv' * h) = n) by (fold d'; lia).
        pose proof (okops_opsb d' i p false ops Hok) as Hok0. pose proof (okops_opsb d' i p true ops Hok) as Hok1.
        destruct (IH s (S i) (p ++ [false]) cl (opsb false i ops) Hnl Hwl Hul Hok0 Hstl) as (s1 & rawl & El & Nl & Sl & Fl).
        assert (Kcr : klen cr) by (apply (wf_klen d' (S i)); auto; lia).
        assert (Hstr1 : Forall (stored lv' s1) (lowers g' cr)).
        { apply (forall_stored_frame lv' (S i) (p ++ [false]) s s1 cr); auto.
          - apply (under_out i p true cr Hur).
          - intros u Hu. exists g'. exact Hu. }
        destruct (IH s1 (S i) (p ++ [true]) cr (opsb true i ops) Hnl Hwr Hur Hok1 Hstr1) as (s2 & rawr & Er & Nr & Sr & Fr).
        fold d' in El, Nl, Sl, Er, Nr, Sr.
        destruct (bupd_ok' d' (S i) (p ++ [false]) cl (opsb false i ops) Hwl Hul Hok0) as [Hwl' Hul'].
        exists s2, (SB rawl rawr). rewrite Hupd. unfold both_of. rewrite El, Er.
        rewrite (bupd_step d' i t ops Hne Etd). fold cl. fold cr.
        split; [reflexivity|]. split; [cbn [norm]; rewrite Nl, Nr, trunc_collapse; reflexivity|].
        split.
        * rewrite lowers_collapse. apply Forall_app. split; [|exact Sr].
          apply (forall_stored_frame lv' (S i) (p ++ [true]) s1 s2 (bupd d' (S i) cl (opsb false i ops))); auto.
          -- apply (wf_klen d' (S i)); auto; lia.
          -- apply (under_out i p false _ Hul').
          -- intros u Hu. exists g'. exact Hu.
        * apply (frame_trans i p s s1 s2); eapply frame_weaken; eauto.
  Qed.

  (* ---- one layer: updateSubtree ---- *)
  Definition SUBP (lv' : nat) : Prop :=
    forall (s : store) i p (t : T) (ops : list op),
      i + S lv' * h = n -> wf (S lv' * h) i t -> under i p t -> okops (S lv' * h) i p ops ->
      Forall (stored lv' s) (lowers h t) ->
      exists s', upd_sub (S lv') s i (trunc h t) ops = Some (s', trunc h (bupd (S lv' * h) i t ops)) /\
                 (ops <> [] -> has s' (bupd (S lv' * h) i t ops)) /\
                 Forall (stored lv' s') (lowers h (bupd (S lv' * h) i t ops)) /\ Frame i p s s'.

  Lemma sub_of_ds : forall lv', DS lv' (descend_with (upd_sub lv')) -> SUBP lv'.
  Proof.
    intros lv' HDS s i p t ops Hn Hwf Hp Hok Hst.
    destruct ops as [|o0 ops0].
    { exists s. rewrite bupd_nil. repeat split; auto; [congruence|apply frame_refl]. }
    remember (o0 :: ops0) as ops eqn:Eops. assert (Hne : ops <> []) by (subst ops; discriminate).
    assert (Hunf : upd_sub (S lv') s i (trunc h t) ops =
                   match upd (descend_with (upd_sub lv')) h i (trunc h t) ops s with
                   | None => None
                   | Some (s1, raw) => Some (sset (shash (norm raw)) (flatten 0 (norm raw)) s1, norm raw)
                   end) by (subst ops; reflexivity).
    rewrite Hunf. clear Hunf.
    cbn [Nat.mul] in Hn, Hwf, Hok |- *.
    destruct (upd_ok _ lv' HDS h s i p t ops Hn Hwf Hp Hok Hst) as (s1 & raw & E1 & Nr & Sr & Fr).
    rewrite E1, Nr. rewrite shash_trunc.
    destruct (bupd_ok' _ i p t ops Hwf Hp Hok) as [Hw' Hu'].
    assert (K' : klen (bupd (h + lv' * h) i t ops)) by (eapply wf_klen; eauto).
    eexists. split; [reflexivity|]. split; [|split].
    - intros _. unfold has. apply sget_sset_same.
    - rewrite Forall_forall in *. intros u Hu. apply stored_sset; auto. eapply klen_lower; eauto.
    - eapply frame_trans; [exact Fr|]. apply frame_sset. exact K'.
  Qed.

  Lemma node_of_trunc : forall t, (match trunc h t with SN y => y | SB _ _ => NS (shash (trunc h t)) end) = node_of t.
  Proof.
    intros t. destruct t as [|k v|l r]; try reflexivity. rewrite shash_trunc. destruct h as [|h']; [lia|]. reflexivity.
  Qed.
  Lemma lowers0_stored : forall lv' (s : store) t, (leafy t \/ has s t) -> Forall (stored lv' s) (lowers h t) ->
    Forall (stored (S lv') s) (lowers 0 t).
  Proof.
    intros lv' s t Hh0 Hall. destruct t as [|k v|l r]; cbn [lowers]; try constructor; [|constructor].
    cbn [stored]. split; auto. destruct Hh0 as [[]|Hh0]; exact Hh0.
  Qed.

  Lemma ds_of_sub : forall lv', SUBP lv' -> DS (S lv') (descend_with (upd_sub (S lv'))).
  Proof.
    intros lv' HS s i p t ops Hn Hwf Hp Hok Hne Etd Hst. unfold Layered.descend_with.
    assert (Kt : klen t) by (eapply wf_klen; eauto).
    assert (Hfin : forall s0, Forall (stored lv' s0) (lowers h t) -> Frame i p s s0 ->
              exists s', match upd_sub (S lv') s0 i (trunc h t) ops with
                         | None => None
                         | Some (s1, new) => Some (s1, match new with SN y => y | SB _ _ => NS (shash new) end)
                         end = Some (s', node_of (bupd (S lv' * h) i t ops)) /\
                         Forall (stored (S lv') s') (lowers 0 (bupd (S lv' * h) i t ops)) /\ Frame i p s s').
    { intros s0 Hst0 F0. destruct (HS s0 i p t ops Hn Hwf Hp Hok Hst0) as (s' & E1 & Hhas & Hall & F1).
      exists s'. rewrite E1. rewrite node_of_trunc. split; [reflexivity|]. split.
      - apply lowers0_stored; auto.
      - eapply frame_trans; eauto. }
    destruct t as [|k v|l r]; cbn [node_of].
    - apply (Hfin s); [constructor|apply frame_refl].
    - apply (Hfin s); [constructor|apply frame_refl].
    - cbn [lowers] in Hst. inversion Hst as [|? ? Hst1 _]; subst. cbn [stored] in Hst1. destruct Hst1 as [Hhas Hall].
      rewrite (get_subtree_ok s (B l r) Kt (or_intror Hhas)).
      apply Hfin.
      + rewrite Forall_forall in *. intros u Hu. destruct (lowers_sub _ _ _ Hu) as (_ & _ & Hlt & _).
        apply stored_sdel; auto. eapply klen_lower; eauto.
      + apply frame_sdel; auto. cbn [tsize]. destruct (S lv' * h) as [|dd]; [contradiction|]. cbn [wf] in Hwf. lia.
  Qed.

  Lemma ds_all : forall lv', DS lv' (descend_with (upd_sub lv')).
  Proof.
    induction lv' as [|lv' IH].
    - intros s i p t ops Hn Hwf Hp Hok Hne Etd Hst. exfalso. cbn [Nat.mul] in *. eapply d0_direct; eauto.
    - apply ds_of_sub. apply sub_of_ds. exact IH.
  Qed.
  Lemma sub_ok : forall lv', SUBP lv'.
  Proof. intros. apply sub_of_ds. apply ds_all. Qed.

  (* ---- trie.Update, histories ---- *)
  Lemma dedupe_nodup : forall (ops : list op) seen,
    NoDup (map fst (dedupe seen ops)) /\ forall o, In o (dedupe seen ops) -> ~ In (fst o) seen.
  Proof.
    induction ops as [|o ops IH]; intros seen; cbn [dedupe].
    - split; [constructor|intros o []].
    - destruct (existsb (key_eqb (fst o)) seen) eqn:Ex; [apply IH|].
      destruct (IH (fst o :: seen)) as [Hnd Hout]. split.
      + cbn [map]. constructor; auto. intro Hin. apply in_map_iff in Hin. destruct Hin as (o' & E1 & Ho').
        apply (Hout o' Ho'). left. auto.
      + intros o' [<-|Ho'].
        * intro Hin. assert (existsb (key_eqb (fst o)) seen = true); [|congruence].
          apply existsb_exists. exists (fst o). split; auto. apply key_eqb_refl.
        * intro Hin. apply (Hout o' Ho'). right. exact Hin.
  Qed.

  Definition Inv (lv : nat) (s : store) (root : Hsh) (t : T) : Prop :=
    root = hash t /\ wf (lv * h) 0 t /\ (t = E \/ stored lv s t).

  Theorem layered_update_ok : forall lv' (s : store) root (t : T) (ops : list op),
    n = S lv' * h -> Inv (S lv') s root t -> (forall o, In o ops -> length (fst o) = n) ->
    let t' := bupd n 0 t (dedupe [] ops) in
    exists s', layered_update hempty hleaf hbranch heqb h (S lv') (s, root) ops = Some (s', hash t') /\
               Inv (S lv') s' (hash t') t' /\ Permutation (tomap t') (map_batch (tomap t) ops).
  Proof.
    intros lv' s root t ops Hn (Hr & Hwf & Hst) Hlen t'. subst root.
    assert (Hu : under 0 [] t) by (intros kv _; reflexivity).
    assert (Hok : okops (S lv' * h) 0 [] (dedupe [] ops)).
    { split; [|apply dedupe_nodup]. intros o Ho. apply dedupe_incl in Ho. split; [rewrite (Hlen o Ho); lia|reflexivity]. }
    destruct (bupd_ok (S lv' * h) 0 [] t (dedupe [] ops) Hwf Hu (proj1 Hok) (proj2 Hok)) as [Hw' HP].
    rewrite <- Hn in Hw', HP. fold t' in Hw', HP.
    destruct ops as [|o0 ops0].
    { exists s. cbn [dedupe] in t'. unfold t'. rewrite bupd_nil. cbn [Layered.layered_update].
      split; [reflexivity|]. split; [split; [reflexivity|split; [exact Hwf|exact Hst]]|]. unfold map_batch. cbn. apply Permutation_refl. }
    remember (o0 :: ops0) as ops eqn:Eops.
    assert (Kt : klen t) by (apply (wf_klen (S lv' * h) 0); auto).
    assert (Hlow : Forall (stored lv' s) (lowers h t)).
    { destruct Hst as [->|Hst]; [constructor|]. cbn [stored] in Hst. tauto. }
    assert (Hne : dedupe [] ops <> []) by (subst ops; cbn; discriminate).
    destruct (sub_ok lv' s 0 [] t (dedupe [] ops) (eq_sym Hn) Hwf Hu Hok Hlow) as (s' & E1 & Hhas & Hall & _).
    exists s'. split.
    - assert (Hunf : layered_update hempty hleaf hbranch heqb h (S lv') (s, hash t) ops =
                     match get_subtree s (hash t) with
                     | None => None
                     | Some cur => match upd_sub (S lv') s 0 cur (dedupe [] ops) with
                                   | None => None
                                   | Some (s', new) => Some (s', shash new)
                                   end
                     end) by (subst ops; reflexivity).
      rewrite Hunf. rewrite (get_subtree_ok s t Kt); [|destruct Hst as [->|Hst]; [left; auto|right; cbn [stored] in Hst; tauto]].
      rewrite E1. rewrite shash_trunc. rewrite <- Hn. reflexivity.
    - rewrite <- Hn in Hhas, Hall. fold t' in Hhas, Hall. split; [|exact HP].
      split; [reflexivity|]. split; [rewrite <- Hn; exact Hw'|]. right. cbn [stored]. split; auto.
  Qed.

  Lemma map_batch_perm : forall (ops : list op) m m', Permutation m m' -> Permutation (map_batch m ops) (map_batch m' ops).
  Proof. intros. unfold map_batch. apply fold_perm. assumption. Qed.

  Theorem layered_history_ok : forall lv' (bs : list (list op)) (s : store) root (t : T) m,
    n = S lv' * h -> Inv (S lv') s root t -> Permutation (tomap t) m -> keys_ok n bs ->
    exists s' t', layered_history hempty hleaf hbranch heqb h (S lv') (s, root) bs = Some (s', hash t') /\
                  Inv (S lv') s' (hash t') t' /\ Permutation (tomap t') (fold_left map_batch bs m).
  Proof.
    intros lv'. induction bs as [|b bs IH]; intros s root t m Hn HI HP Hk.
    - exists s, t. cbn. destruct HI as (-> & ?). repeat split; tauto.
    - destruct (layered_update_ok lv' s root t b Hn HI) as (s1 & E1 & HI1 & HP1).
      { intros o Ho. apply (Hk b); [left; auto|exact Ho]. }
      destruct (IH s1 _ _ (map_batch m b) Hn HI1) as (s2 & t2 & E2 & HI2 & HP2).
      { eapply Permutation_trans; [exact HP1|]. apply map_batch_perm. exact HP. }
      { intros b' o Hb Ho. apply (Hk b'); [right; auto|exact Ho]. }
      exists s2, t2. cbn [Layered.layered_history fold_left]. rewrite E1. auto.
  Qed.

  (* ---- reading the trie back through the store ---- *)
  Lemma abs_st_trunc : forall (rec : Hsh -> option T) (t : T) g,
    (forall u, In u (lowers g t) -> rec (hash u) = Some u) -> abs_st rec (trunc g t) = Some t.
  Proof.
    intros rec. induction t as [|k v|l IHl r IHr]; intros g Hrec; cbn [trunc]; try reflexivity.
    destruct g as [|g']; cbn [abs_st].
    - apply Hrec. left. reflexivity.
    - cbn [lowers] in Hrec. rewrite IHl, IHr; auto; intros u Hu; apply Hrec; apply in_or_app; auto.
  Qed.
  Lemma abs_stored : forall lv (s : store) (t : T), klen t -> stored lv s t -> abs hempty heqb h lv s (hash t) = Some t.
  Proof.
    induction lv as [|lv IH]; intros s t Kt Hst; cbn [stored] in Hst; [contradiction|].
    destruct Hst as [Hhas Hall]. cbn [Layered.abs]. rewrite (get_subtree_ok s t Kt (or_intror Hhas)).
    apply abs_st_trunc. intros u Hu. rewrite Forall_forall in Hall. apply IH; auto. eapply klen_lower; eauto.
  Qed.
  Lemma abs_inv : forall lv' (s : store) root (t : T), n = S lv' * h -> Inv (S lv') s root t ->
    abs hempty heqb h (S lv') s root = Some t /\ layered_open hempty heqb h s root = Some (trunc h t).
  Proof.
    intros lv' s root t Hn (-> & Hwf & Hst). assert (Kt : klen t) by (apply (wf_klen (S lv' * h) 0); auto).
    split.
    - destruct Hst as [->|Hst]; [|apply abs_stored; auto].
      cbn [Layered.abs Tree.hash]. unfold Layered.get_subtree. rewrite heqb_refl. reflexivity.
    - unfold Layered.layered_open. apply get_subtree_ok; auto. destruct Hst as [->|Hst]; [left; auto|right; cbn [stored] in Hst; tauto].
  Qed.

  Lemma layered_history_app : forall lv (b1 b2 : list (list op)) sr,
    layered_history hempty hleaf hbranch heqb h lv sr (b1 ++ b2) =
    match layered_history hempty hleaf hbranch heqb h lv sr b1 with
    | None => None
    | Some sr' => layered_history hempty hleaf hbranch heqb h lv sr' b2
    end.
  Proof.
    intros lv. induction b1 as [|b b1 IH]; intros b2 sr; cbn [app Layered.layered_history]; auto.
    destruct (layered_update hempty hleaf hbranch heqb h lv sr b); auto.
  Qed.
End LP.
