(* C10 — byte encoding of a stored sub-tree (subtree.go encode / newSubTree): one length byte (number of bottom nodes - 1),
   the structure bytes (depth of every bottom node), then the node data: leaf = 0x00 key value, stub = 0x01 hash,
   empty = 0x02.  The decoder cuts keys by the trie's key length and values / stub hashes by the hash size 32.
   [dec_enc]: decoding an encoding gives the sub-tree back PROVIDED it has 1..256 bottom nodes (the length byte is a uint8:
   a full 8-bit sub-tree has 256 nodes, length byte 255), every leaf key has 8*kl bits, every leaf VALUE HAS 32 BYTES and
   every stub hash has 32 bytes.  (With another value length the Go decoder mis-cuts the data or panics: values must be
   32-byte hashes for a trie that is ever re-opened.) *)
From Coq Require Import List NArith Bool Arith Lia ZifyBool ZifyN ZifyNat.
From LE Require Import SMT.Spec SMT.Verify SMT.BitsProofs SMT.Layered.
Import ListNotations.
Local Open Scope N_scope.

Definition bnode : Type := @snode (list N) (list N).
Definition bflat : Type := list (nat * bnode).
Definition node_bytes (x : bnode) : list N :=
  match x with NE => [2] | NL k v => 0 :: from_bools k ++ v | NS s => 1 :: s end.
Definition enc_bytes (c : bflat) : list N :=
  (N.of_nat (length c - 1) mod 256) :: map (fun e => N.of_nat (fst e)) c ++ flat_map (fun e => node_bytes (snd e)) c.
Fixpoint dec_nodes (fuel kl : nat) (d : list N) : option (list bnode) :=
  match fuel with
  | O => None
  | S f =>
    match d with
    | [] => Some []
    | 0 :: r => match dec_nodes f kl (skipn (kl + 32) r) with
                | Some ns => if Nat.eqb (length (firstn (kl + 32) r)) (kl + 32)
                             then Some (NL (to_bools (firstn kl r)) (firstn 32 (skipn kl r)) :: ns) else None
                | None => None end
    | 1 :: r => match dec_nodes f kl (skipn 32 r) with
                | Some ns => if Nat.eqb (length (firstn 32 r)) 32 then Some (NS (firstn 32 r) :: ns) else None
                | None => None end
    | 2 :: r => match dec_nodes f kl r with Some ns => Some (NE :: ns) | None => None end
    | _ => None
    end
  end.
Definition dec_bytes (kl : nat) (d : list N) : option bflat :=
  match d with
  | [] => None
  | b :: r =>
    let nl := S (N.to_nat b) in
    let str := firstn nl r in
    match dec_nodes (S (length r)) kl (skipn nl r) with
    | Some ns => if Nat.eqb (length str) nl && Nat.eqb (length ns) nl
                 then Some (combine (map N.to_nat str) ns) else None
    | None => None
    end
  end.

Definition node_ok (kl : nat) (x : bnode) : Prop :=
  match x with
  | NE => True
  | NL k v => length k = (8 * kl)%nat /\ length v = 32%nat
  | NS s => length s = 32%nat
  end.

Lemma firstn_app_exact : forall (A : Type) (a b : list A) n, length a = n -> firstn n (a ++ b) = a.
Proof. intros A a b n <-. rewrite firstn_app, Nat.sub_diag, firstn_all. cbn. apply app_nil_r. Qed.
Lemma skipn_app_exact : forall (A : Type) (a b : list A) n, length a = n -> skipn n (a ++ b) = b.
Proof. intros A a b n <-. rewrite skipn_app, Nat.sub_diag, skipn_all. reflexivity. Qed.

Lemma dec_nodes_ok : forall kl (ns : list bnode) fuel, (length ns < fuel)%nat -> Forall (node_ok kl) ns ->
  dec_nodes fuel kl (flat_map node_bytes ns) = Some ns.
Proof.
  intros kl. induction ns as [|x ns IH]; intros fuel Hf Hok; destruct fuel as [|f]; cbn [length] in Hf; try lia.
  - reflexivity.
  - inversion Hok as [|? ? Hx Hns]; subst. cbn [flat_map]. destruct x as [|k v|s]; cbn [node_bytes node_ok] in *.
    + cbn [app dec_nodes]. rewrite IH by (auto; lia). reflexivity.
    + destruct Hx as [Hk Hv]. cbn [app dec_nodes].
      assert (Hfb : length (from_bools k) = kl) by (apply from_bools_length; exact Hk).
      assert (Hkv : length (from_bools k ++ v) = (kl + 32)%nat) by (rewrite app_length; lia).
      rewrite <- app_assoc.
      assert (E1 : skipn (kl + 32) (from_bools k ++ v ++ flat_map node_bytes ns) = flat_map node_bytes ns).
      { rewrite app_assoc. apply skipn_app_exact. exact Hkv. }
      assert (E2 : firstn (kl + 32) (from_bools k ++ v ++ flat_map node_bytes ns) = from_bools k ++ v).
      { rewrite app_assoc. apply firstn_app_exact. exact Hkv. }
      rewrite E1, E2, Hkv, Nat.eqb_refl. rewrite IH by (auto; lia).
      rewrite (firstn_app_exact _ (from_bools k) _ kl Hfb). rewrite (skipn_app_exact _ (from_bools k) _ kl Hfb).
      rewrite (firstn_app_exact _ v _ 32%nat Hv). rewrite (from_to_bools kl k Hk). reflexivity.
    + cbn [app dec_nodes]. rewrite (skipn_app_exact _ s _ 32%nat Hx), (firstn_app_exact _ s _ 32%nat Hx), Hx.
      cbn [Nat.eqb]. rewrite IH by (auto; lia). reflexivity.
Qed.

Lemma combine_fst_snd : forall (A B : Type) (l : list (A * B)), combine (map fst l) (map snd l) = l.
Proof. induction l as [|[a b] l IH]; cbn; [reflexivity|]. rewrite IH. reflexivity. Qed.

Theorem dec_enc : forall kl (c : bflat), (1 <= length c <= 256)%nat -> Forall (fun e => node_ok kl (snd e)) c ->
  dec_bytes kl (enc_bytes c) = Some c.
Proof.
  intros kl c Hlen Hok. unfold enc_bytes, dec_bytes.
  assert (Hb : N.to_nat (N.of_nat (length c - 1) mod 256) = (length c - 1)%nat).
  { rewrite N.mod_small by lia. apply Nat2N.id. }
  rewrite Hb. replace (S (length c - 1)) with (length c) by lia.
  assert (Hm : length (map (fun e : nat * bnode => N.of_nat (fst e)) c) = length c) by apply map_length.
  rewrite (firstn_app_exact _ _ _ _ Hm), (skipn_app_exact _ _ _ _ Hm).
  assert (Hfm : flat_map (fun e : nat * bnode => node_bytes (snd e)) c = flat_map node_bytes (map snd c)).
  { clear. induction c as [|e c IH]; cbn; [reflexivity|]. rewrite IH. reflexivity. }
  rewrite Hfm. rewrite dec_nodes_ok.
  - rewrite Hm, !map_length, Nat.eqb_refl. cbn [andb]. f_equal.
    rewrite map_map. replace (map (fun x => N.to_nat (N.of_nat (fst x))) c) with (map fst c).
    + apply combine_fst_snd.
    + apply map_ext. intros a. symmetry. apply Nat2N.id.
  - rewrite map_length, app_length, Hm. lia.
  - rewrite Forall_forall in *. intros x Hx. apply in_map_iff in Hx. destruct Hx as (e & <- & He). auto.
Qed.

(* ---- every sub-tree the layered model stores for a reference trie satisfies the side conditions of [dec_enc] ---- *)
From LE Require Import SMT.Tree SMT.TreeProofs SMT.LayeredProofs.
Local Open Scope nat_scope.
Section StoredOk.
  Variable hempty : list N.
  Variable hleaf : key -> list N -> list N.
  Variable hbranch : list N -> list N -> list N.
  Hypothesis Hbr32 : forall a b, length (hbranch a b) = 32.
  Notation T := (@T (list N)).
  (* every key has 8*kl bits and EVERY VALUE HAS 32 BYTES *)
  Definition kv_ok (kl : nat) (t : T) : Prop :=
    forall kv, In kv (tomap t) -> length (fst kv) = 8 * kl /\ length (snd kv) = 32.

  Lemma flatten_len : forall (st : @ST (list N) (list N)) d, 1 <= length (flatten d st) <= 2 ^ sdepth st.
  Proof.
    induction st as [x|l IHl r IHr]; intros d; cbn [flatten sdepth length]; [cbn; lia|].
    rewrite app_length. specialize (IHl (S d)). specialize (IHr (S d)).
    assert (2 ^ sdepth l <= 2 ^ Nat.max (sdepth l) (sdepth r)) by (apply Nat.pow_le_mono_r; lia).
    assert (2 ^ sdepth r <= 2 ^ Nat.max (sdepth l) (sdepth r)) by (apply Nat.pow_le_mono_r; lia).
    cbn [Nat.pow]. lia.
  Qed.
  Lemma trunc_nodes_ok : forall kl (t : T) g d, kv_ok kl t ->
    Forall (fun e => node_ok kl (snd e)) (flatten d (trunc hempty hleaf hbranch g t)).
  Proof.
    intros kl. induction t as [|k v|l IHl r IHr]; intros g d Hkv; cbn [trunc flatten].
    - repeat constructor.
    - constructor; [|constructor]. cbn [snd node_ok]. apply (Hkv (k, v)). left. reflexivity.
    - destruct g as [|g']; cbn [flatten].
      + constructor; [|constructor]. cbn [snd node_ok Tree.hash]. apply Hbr32.
      + apply Forall_app. split; [apply IHl|apply IHr]; intros kv Hin; apply Hkv; cbn [tomap]; apply in_or_app; auto.
  Qed.
  Lemma sdepth_trunc' : forall g (t : T), sdepth (trunc hempty hleaf hbranch g t) <= g.
  Proof.
    intros g t. revert g. induction t as [|k v|l IHl r IHr]; intros g; cbn [trunc sdepth]; try lia.
    destruct g as [|g']; cbn [sdepth]; [lia|]. specialize (IHl g'). specialize (IHr g'). lia.
  Qed.
  (* the stored sub-tree of t for sub-tree height h <= 8 decodes from its bytes *)
  Theorem stored_entry_decodes : forall kl h (t : T), h <= 8 -> kv_ok kl t ->
    dec_bytes kl (enc_bytes (flatten 0 (trunc hempty hleaf hbranch h t))) = Some (flatten 0 (trunc hempty hleaf hbranch h t)).
  Proof.
    intros kl h t Hh Hkv. apply dec_enc; [|apply trunc_nodes_ok; exact Hkv].
    pose proof (flatten_len (trunc hempty hleaf hbranch h t) 0) as [H1 H2].
    pose proof (sdepth_trunc' h t) as Hd.
    assert (Hp : 2 ^ sdepth (trunc hempty hleaf hbranch h t) <= 256).
    { change 256 with (2 ^ 8). apply Nat.pow_le_mono_r; lia. }
    split; [exact H1|]. eapply Nat.le_trans; [exact H2|exact Hp].
  Qed.
End StoredOk.
