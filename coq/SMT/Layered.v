(* C10 — LAYERED model of the sub-tree storage design of pkg/trie/smt/smt.go (Update / updateSubtree / updateNode /
   getSubtree), utils.go (calculateSubTree) and subtree.go (structure + nodes), parametric in the sub-tree height h
   (the code supports 4 and 8) and in the hash.

   Go                                               here
   -----------------------------------------------  ------------------------------------------------------------
   node kinds empty / leaf / stub                   [snode] = NE | NL k v | NS hash
   subTree{structure []uint8, nodes []*node}        [flat] = list (depth, snode) — what is stored — and its tree
                                                    reading [ST] ([parse] / [flatten]: the structure bytes are the
                                                    depths of the bottom nodes in left-to-right order)
   DB (Get/Set/Del) keyed by sub-tree root hash     [store] = association list, [sget]/[sset]/[sdel]
   getSubtree                                       [get_subtree] (the empty hash is never read from the DB)
   key bins (getBinIndex) + bin ranges per node     the update walks the tree reading of the sub-tree and splits the
                                                    batch by the key bit at position height+depth ([opsb]); the bin
                                                    of a key is the integer value of those h bits, a bottom node at
                                                    depth d owns 2^(h-d) consecutive bins = the keys below its path
   updateNode                                       [upd] on a bottom node: no data -> unchanged; one key on an empty
                                                    node or on the leaf with that key -> [direct]; depth h ->
                                                    [descend_with] (read + Del the stub's sub-tree / wrap the leaf /
                                                    empty sub-tree, recursive updateSubtree, single node lifted, else
                                                    stub of the new root); else split the node by its key bit
   calculateSubTree (levels from the deepest up,    [norm] = bottom-up [scollapse] ((empty,empty) -> empty,
   temp holders)                                    (leaf,empty)/(empty,leaf) -> the leaf, anything else stays)
   db.Set(newSubtree.root, encode) — always,        [upd_sub]: [sset (shash new) (flatten 0 new)]
   also for a single leaf / the empty sub-tree
   Update (de-duplication, first wins)              [layered_update]; the trie object is (root hash, parameters)
                                                    only, so "re-opening" is [layered_open] on the same pair.
   The left/right goroutines of updateNode are run left first (they touch different DB keys, see LayeredProofs).
   Errors / panics of the Go code are [None]. *)
From Coq Require Import List Bool Arith.
From LE Require Import SMT.Spec SMT.Tree.
Import ListNotations.

Section Layered.
  Context {V Hsh : Type}.
  Variable hempty : Hsh.
  Variable hleaf : key -> V -> Hsh.
  Variable hbranch : Hsh -> Hsh -> Hsh.
  Variable heqb : Hsh -> Hsh -> bool.
  Variable h : nat.                                   (* sub-tree height *)

  Inductive snode := NE | NL (k : key) (v : V) | NS (s : Hsh).
  Definition nhash (x : snode) : Hsh := match x with NE => hempty | NL k v => hleaf k v | NS s => s end.
  Inductive ST := SN (x : snode) | SB (l r : ST).
  (* treeHasher on (structure, node hashes) *)
  Fixpoint shash (st : ST) : Hsh := match st with SN x => nhash x | SB l r => hbranch (shash l) (shash r) end.

  Definition flat := list (nat * snode).
  Fixpoint flatten (d : nat) (st : ST) : flat :=
    match st with SN x => [(d, x)] | SB l r => flatten (S d) l ++ flatten (S d) r end.
  Fixpoint parse (fuel d : nat) (l : flat) : option (ST * flat) :=
    match fuel with
    | O => None
    | S f =>
      match l with
      | [] => None
      | (d', x) :: rest =>
        if Nat.eqb d' d then Some (SN x, rest)
        else match parse f (S d) l with
             | None => None
             | Some (a, r1) => match parse f (S d) r1 with None => None | Some (b, r2) => Some (SB a b, r2) end
             end
      end
    end.
  Definition decode (c : flat) : option ST :=
    match parse (S h) 0 c with Some (st, []) => Some st | _ => None end.

  Definition store := list (Hsh * flat).
  Fixpoint sget (r : Hsh) (s : store) : option flat :=
    match s with [] => None | (r', c) :: t => if heqb r r' then Some c else sget r t end.
  Definition sdel (r : Hsh) (s : store) : store := filter (fun e => negb (heqb r (fst e))) s.
  Definition sset (r : Hsh) (c : flat) (s : store) : store := (r, c) :: sdel r s.

  Definition get_subtree (s : store) (r : Hsh) : option ST :=
    if heqb r hempty then Some (SN NE) else match sget r s with Some c => decode c | None => None end.

  Definition opsb (b : bool) (i : nat) (ops : list (@op V)) : list op :=
    filter (fun o => Bool.eqb (bit i (fst o)) b) ops.

  Definition put (k : key) (ov : option V) : snode := match ov with Some v => NL k v | None => NE end.
  (* totalData == 1 on an empty node, or on the leaf holding exactly that key *)
  Definition direct (x : snode) (ops : list (@op V)) : option snode :=
    match ops with
    | [(k, ov)] =>
      match x with
      | NE => Some (put k ov)
      | NL k' _ => if key_eqb k' k then Some (put k ov) else None
      | NS _ => None
      end
    | _ => None
    end.
  (* an empty node / a leaf pushed one level down *)
  Definition place (i : nat) (x : snode) : option (snode * snode) :=
    match x with
    | NE => Some (NE, NE)
    | NL k v => Some (if bit i k then (NE, x) else (x, NE))
    | NS _ => None
    end.

  Definition scollapse (l r : ST) : ST :=
    match l, r with
    | SN NE, SN NE => SN NE
    | SN (NL k v), SN NE => SN (NL k v)
    | SN NE, SN (NL k v) => SN (NL k v)
    | _, _ => SB l r
    end.
  Fixpoint norm (st : ST) : ST := match st with SN x => SN x | SB l r => scollapse (norm l) (norm r) end.

  Section Upd.
    (* the step into the next layer: store, bit position, bottom node at depth h, its keys *)
    Variable descend : store -> nat -> snode -> list (@op V) -> option (store * snode).

    (* g = h - depth, i = absolute bit position of the next key bit *)
    Fixpoint upd (g i : nat) (st : ST) (ops : list (@op V)) (s : store) : option (store * ST) :=
      match ops with
      | [] => Some (s, st)
      | _ =>
        let both (g' : nat) (l r : ST) :=
          match upd g' (S i) l (opsb false i ops) s with
          | None => None
          | Some (s1, l') =>
            match upd g' (S i) r (opsb true i ops) s1 with None => None | Some (s2, r') => Some (s2, SB l' r') end
          end in
        match st with
        | SB l r => match g with O => None | S g' => both g' l r end
        | SN x =>
          match direct x ops with
          | Some x' => Some (s, SN x')
          | None =>
            match g with
            | O => match descend s i x ops with Some (s', x') => Some (s', SN x') | None => None end
            | S g' => match place i x with Some (xl, xr) => both g' (SN xl) (SN xr) | None => None end
            end
          end
        end
      end.
  End Upd.

  Definition descend_with (sub : store -> nat -> ST -> list (@op V) -> option (store * ST))
             (s : store) (i : nat) (x : snode) (ops : list (@op V)) : option (store * snode) :=
    match (match x with
           | NS r => match get_subtree s r with Some lower => Some (sdel r s, lower) | None => None end
           | _ => Some (s, SN x)
           end) with
    | None => None
    | Some (s0, lower) =>
      match sub s0 i lower ops with
      | None => None
      | Some (s1, new) => Some (s1, match new with SN y => y | SB _ _ => NS (shash new) end)
      end
    end.

  (* updateSubtree; lv = sub-tree levels left below bit position i (0: the key is exhausted, Go would index past it) *)
  Fixpoint upd_sub (lv : nat) (s : store) (i : nat) (cur : ST) (ops : list (@op V)) : option (store * ST) :=
    match ops with
    | [] => Some (s, cur)
    | _ =>
      match lv with
      | O => None
      | S lv' =>
        match upd (descend_with (upd_sub lv')) h i cur ops s with
        | None => None
        | Some (s1, raw) => let new := norm raw in Some (sset (shash new) (flatten 0 new) s1, new)
        end
      end
    end.

  (* NewTrie(root) + getSubtree(root) *)
  Definition layered_open (s : store) (root : Hsh) : option ST := get_subtree s root.

  (* trie.Update on a trie object holding [root], database [s]; keys of lv*h bits *)
  Definition layered_update (lv : nat) (sr : store * Hsh) (ops : list (@op V)) : option (store * Hsh) :=
    match ops with
    | [] => Some sr
    | _ =>
      match layered_open (fst sr) (snd sr) with
      | None => None
      | Some cur =>
        match upd_sub lv (fst sr) 0 cur (dedupe [] ops) with
        | None => None
        | Some (s', new) => Some (s', shash new)
        end
      end
    end.
  Fixpoint layered_history (lv : nat) (sr : store * Hsh) (bs : list (list (@op V))) : option (store * Hsh) :=
    match bs with
    | [] => Some sr
    | b :: rest => match layered_update lv sr b with None => None | Some sr' => layered_history lv sr' rest end
    end.

  (* the reference trie reachable from a root hash through the store *)
  Fixpoint abs_st (rec : Hsh -> option (@T V)) (st : ST) : option (@T V) :=
    match st with
    | SN NE => Some E
    | SN (NL k v) => Some (L k v)
    | SN (NS r) => rec r
    | SB l r => match abs_st rec l, abs_st rec r with Some a, Some b => Some (B a b) | _, _ => None end
    end.
  Fixpoint abs (lv : nat) (s : store) (root : Hsh) : option (@T V) :=
    match lv with
    | O => None
    | S lv' => match get_subtree s root with None => None | Some st => abs_st (abs lv' s) st end
    end.
End Layered.
Arguments NE {V Hsh}.
Arguments NL {V Hsh}.
Arguments NS {V Hsh}.
Arguments SN {V Hsh}.
Arguments SB {V Hsh}.
