(* C10 — completeness of the path recomputation for one key: walking down the trie along the key bits collects, level by
   level, the bitmap (is the sibling non-empty?) and the non-empty sibling hashes; CalculateRoot's bottom-up fold over
   exactly these data (bitmap bottom-first, siblings in consumption order), started from the hash of the node reached
   (a leaf or the empty node), returns the root hash.  No hypothesis on the hash. *)
From Coq Require Import List Bool Arith Lia.
From LE Require Import SMT.Spec SMT.Tree SMT.PathProofs.
Import ListNotations.

Section Complete.
  Context {V Hsh : Type}.
  Variable hempty : Hsh.
  Variable hleaf : key -> V -> Hsh.
  Variable hbranch : Hsh -> Hsh -> Hsh.
  Notation T := (@T V).
  Notation hash := (hash hempty hleaf hbranch).
  Notation recompute := (recompute hempty hbranch).

  Definition is_E (t : T) : bool := match t with E => true | _ => false end.

  (* node reached, bitmap top-first, non-empty sibling hashes top-first *)
  Fixpoint walk (t : T) (bits : key) : T * list bool * list Hsh :=
    match t with
    | B l r =>
      if hd false bits
      then let '(nd, bm, sb) := walk r (tl bits) in (nd, negb (is_E l) :: bm, if is_E l then sb else hash l :: sb)
      else let '(nd, bm, sb) := walk l (tl bits) in (nd, negb (is_E r) :: bm, if is_E r then sb else hash r :: sb)
    | _ => (t, [], [])
    end.

  (* recompute, also returning the sibling hashes left over *)
  Fixpoint recompute_r (bits : key) (bm : list bool) (sibs : list Hsh) (h : Hsh) : option (Hsh * list Hsh) :=
    match bm with
    | [] => Some (h, sibs)
    | b0 :: bm' =>
      let dir := nth (length bm') bits false in
      if b0 then match sibs with
                 | [] => None
                 | s :: sibs' => recompute_r bits bm' sibs' (if dir then hbranch s h else hbranch h s)
                 end
      else recompute_r bits bm' sibs (if dir then hbranch hempty h else hbranch h hempty)
    end.
  Lemma recompute_r_fst : forall bm bits sibs h,
    recompute bits bm sibs h = match recompute_r bits bm sibs h with Some (x, _) => Some x | None => None end.
  Proof.
    induction bm as [|b0 bm IH]; intros; cbn [PathProofs.recompute recompute_r]; auto.
    destruct b0; [destruct sibs; auto|]; apply IH.
  Qed.

  Lemma nth_tl : forall (j : nat) (bs : key), nth (S j) bs false = nth j (tl bs) false.
  Proof. intros j [|b t]; cbn; [destruct j; reflexivity|reflexivity]. Qed.

  Lemma recompute_r_snoc : forall bm bs b sibs h,
    recompute_r bs (bm ++ [b]) sibs h =
    match recompute_r (tl bs) bm sibs h with
    | None => None
    | Some (x, rest) =>
      let d := hd false bs in
      if b then match rest with [] => None | s :: rest' => Some ((if d then hbranch s x else hbranch x s), rest') end
      else Some ((if d then hbranch hempty x else hbranch x hempty), rest)
    end.
  Proof.
    induction bm as [|b0 bm IH]; intros bs b sibs h.
    - cbn [app recompute_r length]. assert (Hd : nth 0 bs false = hd false bs) by (destruct bs; reflexivity). rewrite Hd.
      destruct b; [destruct sibs|]; reflexivity.
    - cbn [app recompute_r]. rewrite app_length. cbn [length]. replace (length bm + 1) with (S (length bm)) by lia.
      rewrite nth_tl. destruct b0; [destruct sibs as [|s sibs']; [reflexivity|]|]; apply IH.
  Qed.

  Theorem walk_recomputes : forall (t : T) bits extra,
    let '(nd, bm, sb) := walk t bits in
    recompute_r bits (rev bm) (rev sb ++ extra) (hash nd) = Some (hash t, extra).
  Proof.
    induction t as [|k v|l IHl r IHr]; intros bits extra; try reflexivity.
    cbn [walk]. destruct (hd false bits) eqn:Ed.
    - specialize (IHr (tl bits)). destruct (walk r (tl bits)) as [[nd bm] sb].
      cbn [rev]. rewrite recompute_r_snoc, Ed. destruct (is_E l) eqn:El.
      + rewrite (IHr extra). cbn [negb]. destruct l; try discriminate. reflexivity.
      + cbn [rev negb]. rewrite <- app_assoc. cbn [app]. rewrite (IHr (hash l :: extra)). reflexivity.
    - specialize (IHl (tl bits)). destruct (walk l (tl bits)) as [[nd bm] sb].
      cbn [rev]. rewrite recompute_r_snoc, Ed. destruct (is_E r) eqn:Er.
      + rewrite (IHl extra). cbn [negb]. destruct r; try discriminate. reflexivity.
      + cbn [rev negb]. rewrite <- app_assoc. cbn [app]. rewrite (IHl (hash r :: extra)). reflexivity.
  Qed.

  (* the canonical proof for a key verifies: from the node reached (a leaf or the empty node) the recomputed root is
     the trie root *)
  Theorem canonical_proof_verifies : forall (t : T) bits,
    let '(nd, bm, sb) := walk t bits in
    recompute bits (rev bm) (rev sb) (hash nd) = Some (hash t) /\ (nd = E \/ exists k v, nd = L k v).
  Proof.
    intros t bits. pose proof (walk_recomputes t bits []) as H.
    assert (Hnd : forall (t0 : T) bs, let '(nd, _, _) := walk t0 bs in nd = E \/ exists k v, nd = L k v).
    { induction t0 as [|k v|l IHl r IHr]; intros bs; cbn [walk]; [left; reflexivity|right; eauto|].
      destruct (hd false bs); [specialize (IHr (tl bs)); destruct (walk r (tl bs)) as [[? ?] ?]; exact IHr
                              |specialize (IHl (tl bs)); destruct (walk l (tl bs)) as [[? ?] ?]; exact IHl]. }
    specialize (Hnd t bits). destruct (walk t bits) as [[nd bm] sb].
    rewrite app_nil_r in H. rewrite recompute_r_fst, H. split; [reflexivity|exact Hnd].
  Qed.
End Complete.
