(* C10 — distinct nodes of a well-formed trie have distinct hashes (first missing lemma, "L1", of multi-key completeness:
   trie.Prove drops a sibling hash iff it EQUALS an ancestor hash or an already emitted hash; by this lemma an equal hash
   means the same node).  Under the injective, domain-separated hash: if the sub-tries of a well-formed trie at paths p and
   p' are not empty and have the same hash then p = p'. *)
From Coq Require Import List Bool Arith Lia.
From LE Require Import SMT.Spec SMT.Tree SMT.TreeProofs SMT.PathProofs SMT.LayeredProofs.
Import ListNotations.

Section ND.
  Context {V Hsh : Type}.
  Variable hempty : Hsh.
  Variable hleaf : key -> V -> Hsh.
  Variable hbranch : Hsh -> Hsh -> Hsh.
  Hypothesis Hbr_inj : forall a b c d, hbranch a b = hbranch c d -> a = c /\ b = d.
  Hypothesis Hlf_inj : forall k v k' v', length k = length k' -> hleaf k v = hleaf k' v' -> k = k' /\ v = v'.
  Hypothesis Hlb : forall k v a b, hleaf k v <> hbranch a b.
  Hypothesis Hle : forall k v, hleaf k v <> hempty.
  Hypothesis Hbe : forall a b, hbranch a b <> hempty.
  Notation T := (@T V).
  Notation hash := (hash hempty hleaf hbranch).

  Lemma subtree_at_app : forall p q (t : T),
    subtree_at t (p ++ q) = match subtree_at t p with Some a => subtree_at a q | None => None end.
  Proof.
    induction p as [|x p IH]; intros q t; cbn [app subtree_at]; [reflexivity|].
    destruct t as [|k v|l r]; try reflexivity. apply IH.
  Qed.
  Lemma subtree_smaller : forall q (a b : T), subtree_at a q = Some b -> q <> [] -> tnodes b < tnodes a.
  Proof.
    induction q as [|x q IH]; intros a b Hs Hne; [contradiction|]. cbn [subtree_at] in Hs.
    destruct a as [|k v|l r]; try discriminate. cbn [tnodes].
    destruct q as [|y q'].
    - cbn [subtree_at] in Hs. inversion Hs; subst. destruct x; lia.
    - assert (Hlt : tnodes b < tnodes (if x then r else l)) by (apply IH; [exact Hs|discriminate]).
      destruct x; lia.
  Qed.
  Lemma subtree_wf_prefix : forall p (t a : T) d i, wf d i t -> subtree_at t p = Some a ->
    length p <= d /\ wf (d - length p) (i + length p) a /\
    forall kv, In kv (tomap a) -> forall j, j < length p -> bit (i + j) (fst kv) = nth j p false.
  Proof.
    induction p as [|x p IH]; intros t a d i Hwf Hs; cbn [subtree_at] in Hs.
    - inversion Hs; subst. cbn [length]. rewrite Nat.sub_0_r, Nat.add_0_r. split; [lia|]. split; [exact Hwf|]. intros; lia.
    - destruct t as [|k v|l r]; try discriminate. destruct d as [|d']; [contradiction|].
      cbn [wf] in Hwf. destruct Hwf as (Hl & Hr & _ & Hbl & Hbr).
      assert (Hc : wf d' (S i) (if x then r else l)) by (destruct x; assumption).
      destruct (IH _ _ _ _ Hc Hs) as (Hlen & Hwa & Hbits). cbn [length].
      split; [lia|]. split.
      + replace (S d' - S (length p)) with (d' - length p) by lia. replace (i + S (length p)) with (S i + length p) by lia. exact Hwa.
      + intros kv Hin j Hj. destruct j as [|j'].
        * rewrite Nat.add_0_r. cbn [nth].
          assert (Hin' : In kv (tomap (if x then r else l))) by (exact (subtree_incl p _ a Hs kv Hin)).
          destruct x; [apply Hbr|apply Hbl]; exact Hin'.
        * cbn [nth]. replace (i + S j') with (S i + j') by lia. apply Hbits; [exact Hin|lia].
  Qed.

  Lemma nonempty_has_key : forall d i (a : T), wf d i a -> a <> E -> exists kv, In kv (tomap a).
  Proof.
    intros d i a Hwf Hne. destruct a as [|k v|l r]; [contradiction|exists (k, v); left; reflexivity|].
    destruct d as [|d']; [contradiction|]. cbn [wf] in Hwf. destruct Hwf as (_ & _ & Hsz & _).
    cbn [tomap]. rewrite <- !size_tomap in Hsz. destruct (tomap l) as [|kv m]; [|exists kv; left; reflexivity].
    destruct (tomap r) as [|kv m]; [cbn in Hsz; lia|exists kv; left; reflexivity].
  Qed.

  Theorem node_hash_distinct : forall n (t a b : T) p p', wf n 0 t ->
    subtree_at t p = Some a -> subtree_at t p' = Some b -> a <> E -> hash a = hash b -> p = p'.
  Proof.
    intros n t a b p p' Hwf Ha Hb Hne Hh.
    destruct (subtree_wf_prefix p t a n 0 Hwf Ha) as (Hlp & Hwa & Hba).
    destruct (subtree_wf_prefix p' t b n 0 Hwf Hb) as (Hlp' & Hwb & Hbb).
    assert (Kt : klen n t) by (apply (wf_klen n n 0); auto).
    assert (Ka : klen n a) by (intros kv Hin; apply Kt; exact (subtree_incl p t a Ha kv Hin)).
    assert (Kb : klen n b) by (intros kv Hin; apply Kt; exact (subtree_incl p' t b Hb kv Hin)).
    assert (Eab : a = b) by (apply (hash_inj hempty hleaf hbranch n Hbr_inj Hlf_inj Hlb Hle Hbe); auto).
    subst b. destruct (nonempty_has_key _ _ a Hwa Hne) as (kv & Hkv).
    assert (Hagree : forall j, j < length p -> j < length p' -> nth j p false = nth j p' false).
    { intros j H1 H2. rewrite <- (Hba kv Hkv j H1), <- (Hbb kv Hkv j H2). reflexivity. }
    assert (Hpre : forall (x y : list bool), length x <= length y ->
              (forall j, j < length x -> nth j x false = nth j y false) -> y = x ++ skipn (length x) y).
    { induction x as [|c x IHx]; intros y Hl Hn; [reflexivity|]. destruct y as [|c' y]; cbn [length] in Hl; [lia|].
      cbn [length skipn app]. pose proof (Hn 0 (Nat.lt_0_succ _)) as H0. cbn [nth] in H0. subst c'. f_equal.
      apply IHx; [lia|]. intros j Hj. apply (Hn (S j)). cbn [length]. lia. }
    destruct (Nat.lt_trichotomy (length p) (length p')) as [Hlt|[Heq|Hgt]].
    - exfalso. pose proof (Hpre p p' (Nat.lt_le_incl _ _ Hlt) (fun j Hj => Hagree j Hj (Nat.lt_trans _ _ _ Hj Hlt))) as Ep.
      rewrite Ep in Hb. rewrite subtree_at_app, Ha in Hb.
      apply subtree_smaller in Hb; [lia|]. intro E0. apply (f_equal (@length bool)) in E0. rewrite skipn_length in E0. cbn in E0. lia.
    - pose proof (Hpre p p' (Nat.eq_le_incl _ _ Heq) (fun j Hj => Hagree j Hj (eq_ind _ (fun z => j < z) Hj _ Heq))) as Ep.
      rewrite Heq, skipn_all, app_nil_r in Ep. symmetry. exact Ep.
    - exfalso. pose proof (Hpre p' p (Nat.lt_le_incl _ _ Hgt) (fun j Hj => eq_sym (Hagree j (Nat.lt_trans _ _ _ Hj Hgt) Hj))) as Ep.
      rewrite Ep in Ha. rewrite subtree_at_app, Hb in Ha.
      apply subtree_smaller in Ha; [lia|]. intro E0. apply (f_equal (@length bool)) in E0. rewrite skipn_length in E0. cbn in E0. lia.
  Qed.
End ND.
