(* C10 — the batch update of smt.go read on the REFERENCE trie (no layers, no store): all keys of a batch go down the
   trie together, split by the key bit at each level ([opsb]); one key arriving on an empty node or on the leaf holding
   that key is applied directly; an empty node / a leaf met by more is pushed down one level; on the way back every
   pair is collapsed (calculateSubTree).  [bupd_ok]: for a batch with distinct keys the result is well-formed and holds
   exactly the map obtained by applying the batch entries one after the other ([map_apply]) — hence, by
   [hash_is_root], its hash is the LIP-0039 root of that map.  SMT/LayeredProofs.v shows that the layered model
   computes [bupd] through the store. *)
From Coq Require Import List Bool Arith Lia Permutation.
From LE Require Import SMT.Spec SMT.Tree SMT.TreeProofs SMT.Layered.
Import ListNotations.

Section Batch.
  Context {V : Type}.
  Notation T := (@T V).
  Notation op := (@op V).
  Implicit Types m : list (key * V).

  Definition tput (k : key) (ov : option V) : T := match ov with Some v => L k v | None => E end.
  Definition tdirect (t : T) (ops : list op) : option T :=
    match ops with
    | [(k, ov)] =>
      match t with
      | E => Some (tput k ov)
      | L k' _ => if key_eqb k' k then Some (tput k ov) else None
      | B _ _ => None
      end
    | _ => None
    end.
  Definition children (i : nat) (t : T) : T * T :=
    match t with B l r => (l, r) | E => (E, E) | L k v => if bit i k then (E, t) else (t, E) end.
  Fixpoint bupd (d i : nat) (t : T) (ops : list op) : T :=
    match ops with
    | [] => t
    | _ =>
      match tdirect t ops with
      | Some t' => t'
      | None =>
        match d with
        | O => t
        | S d' => collapse (bupd d' (S i) (fst (children i t)) (opsb false i ops))
                           (bupd d' (S i) (snd (children i t)) (opsb true i ops))
        end
      end
    end.

  (* ---- map level ---- *)
  Lemma map_apply_perm : forall m m' (o : op), Permutation m m' -> Permutation (map_apply m o) (map_apply m' o).
  Proof.
    intros m m' [k [v|]] HP; unfold map_apply, mins, mdel, others; cbn [fst snd].
    - apply perm_skip. apply perm_filter. exact HP.
    - apply perm_filter. exact HP.
  Qed.
  Lemma fold_perm : forall (ops : list op) m m', Permutation m m' ->
    Permutation (fold_left map_apply ops m) (fold_left map_apply ops m').
  Proof.
    induction ops as [|o ops IH]; intros m m' HP; cbn [fold_left]; auto. apply IH. apply map_apply_perm. exact HP.
  Qed.
  Lemma map_apply_keys : forall m (o : op) kv, In kv (map_apply m o) -> In kv m \/ fst kv = fst o.
  Proof.
    intros m [k [v|]] kv; unfold map_apply, mins, mdel; cbn [fst snd]; intros Hin.
    - destruct Hin as [<-|Hin]; [right; reflexivity|]. apply others_in in Hin. left; tauto.
    - apply others_in in Hin. left; tauto.
  Qed.
  Lemma fold_keys : forall (ops : list op) m kv, In kv (fold_left map_apply ops m) ->
    In kv m \/ exists o, In o ops /\ fst kv = fst o.
  Proof.
    induction ops as [|o ops IH]; intros m kv Hin; cbn [fold_left] in Hin; auto.
    apply IH in Hin. destruct Hin as [Hin|(o' & Ho' & E1)].
    - apply map_apply_keys in Hin. destruct Hin as [Hin|E1]; auto. right. exists o. split; [left; auto|auto].
    - right. exists o'. split; [right; auto|auto].
  Qed.

  Lemma opsb_in : forall b i (ops : list op) o, In o (opsb b i ops) -> In o ops /\ bit i (fst o) = b.
  Proof.
    intros b i ops o Hin. unfold opsb in Hin. apply filter_In in Hin. destruct Hin as [Hin Hb]. split; auto.
    apply Bool.eqb_prop in Hb. exact Hb.
  Qed.
  Lemma nodup_map_filter : forall (A B : Type) (f : A -> B) (p : A -> bool) l, NoDup (map f l) -> NoDup (map f (filter p l)).
  Proof.
    intros A B0 f p l. induction l as [|x l IH]; intros Hnd; cbn; [constructor|].
    inversion Hnd as [|? ? Hnotin Hnd']; subst. destruct (p x); cbn; auto. constructor; auto.
    intro Hin. apply Hnotin. apply in_map_iff in Hin. destruct Hin as (y & E1 & Hy). apply filter_In in Hy.
    apply in_map_iff. exists y. tauto.
  Qed.
  Lemma opsb_nodup : forall b i (ops : list op), NoDup (map fst ops) -> NoDup (map fst (opsb b i ops)).
  Proof. intros. unfold opsb. apply nodup_map_filter. assumption. Qed.

  Lemma others_bit : forall i k m, (forall kv, In kv m -> bit i (fst kv) = negb (bit i k)) -> others k m = m.
  Proof.
    intros i k m Hm. apply others_all. intros kv Hin E1. specialize (Hm _ Hin). rewrite E1 in Hm.
    destruct (bit i k); discriminate.
  Qed.

  Lemma map_apply_bits : forall i b m (o : op), (forall kv, In kv m -> bit i (fst kv) = b) -> bit i (fst o) = b ->
    forall kv, In kv (map_apply m o) -> bit i (fst kv) = b.
  Proof.
    intros i b m o Hm Ho kv Hin. apply map_apply_keys in Hin. destruct Hin as [Hin|E1]; [auto|congruence].
  Qed.

  Lemma fold_split : forall i (ops : list op) ml mr,
    (forall kv, In kv ml -> bit i (fst kv) = false) -> (forall kv, In kv mr -> bit i (fst kv) = true) ->
    Permutation (fold_left map_apply ops (ml ++ mr))
                (fold_left map_apply (opsb false i ops) ml ++ fold_left map_apply (opsb true i ops) mr).
  Proof.
    intros i. induction ops as [|o ops IH]; intros ml mr Hl Hr; cbn [fold_left opsb filter]; [apply Permutation_refl|].
    fold (opsb false i ops). fold (opsb true i ops).
    destruct (bit i (fst o)) eqn:Bo; cbn [Bool.eqb fold_left].
    - (* goes right *)
      eapply Permutation_trans; [apply fold_perm with (m' := ml ++ map_apply mr o)|].
      + destruct o as [k [v|]]; unfold map_apply, mins, mdel; cbn [fst snd] in *.
        * rewrite others_app. rewrite (others_bit i k ml) by (intros kv Hin; rewrite Bo; apply Hl; auto).
          apply Permutation_middle.
        * rewrite others_app. rewrite (others_bit i k ml) by (intros kv Hin; rewrite Bo; apply Hl; auto).
          apply Permutation_refl.
      + apply IH; auto. apply map_apply_bits; auto.
    - eapply Permutation_trans; [apply fold_perm with (m' := map_apply ml o ++ mr)|].
      + destruct o as [k [v|]]; unfold map_apply, mins, mdel; cbn [fst snd] in *.
        * rewrite others_app. rewrite (others_bit i k mr) by (intros kv Hin; rewrite Bo; apply Hr; auto).
          apply Permutation_refl.
        * rewrite others_app. rewrite (others_bit i k mr) by (intros kv Hin; rewrite Bo; apply Hr; auto).
          apply Permutation_refl.
      + apply IH; auto. apply map_apply_bits; auto.
  Qed.

  (* ---- prefixes ---- *)
  Lemma firstn_snoc : forall i (k : key), i < length k -> firstn (S i) k = firstn i k ++ [bit i k].
  Proof.
    induction i; intros k Hk; destruct k as [|b t]; cbn [length] in Hk; try lia.
    - reflexivity.
    - rewrite (firstn_cons (S i) b t), (firstn_cons i b t). rewrite IHi by lia. reflexivity.
  Qed.
  Lemma firstn_full_eq : forall (k k' : key) i, length k = i -> length k' = i -> firstn i k = firstn i k' -> k = k'.
  Proof. intros k k' i Hk Hk' Hf. rewrite <- (firstn_all k), <- (firstn_all k'), Hk, Hk'. exact Hf. Qed.

  Lemma children_ok : forall d' i p (t : T), wf (S d') i t -> (forall kv, In kv (tomap t) -> firstn i (fst kv) = p) ->
    wf d' (S i) (fst (children i t)) /\ wf d' (S i) (snd (children i t)) /\
    tomap t = tomap (fst (children i t)) ++ tomap (snd (children i t)) /\
    (forall kv, In kv (tomap (fst (children i t))) -> bit i (fst kv) = false) /\
    (forall kv, In kv (tomap (snd (children i t))) -> bit i (fst kv) = true).
  Proof.
    intros d' i p t Hwf Hp. destruct t as [|k v|l r]; cbn [children].
    - cbn. repeat split; auto; try contradiction.
    - cbn [wf] in Hwf. destruct (bit i k) eqn:Bk; cbn [fst snd tomap wf app].
      + split; [exact I|]. split; [lia|]. split; [reflexivity|]. split; [intros kv []|]. intros kv [<-|[]]. exact Bk.
      + split; [lia|]. split; [exact I|]. split; [reflexivity|]. split; [|intros kv []]. intros kv [<-|[]]. exact Bk.
    - cbn [wf] in Hwf. cbn [fst snd tomap]. tauto.
  Qed.

  Theorem bupd_ok : forall d i p (t : T) (ops : list op),
    wf d i t -> (forall kv, In kv (tomap t) -> firstn i (fst kv) = p) ->
    (forall o, In o ops -> length (fst o) = i + d /\ firstn i (fst o) = p) -> NoDup (map fst ops) ->
    wf d i (bupd d i t ops) /\ Permutation (tomap (bupd d i t ops)) (fold_left map_apply ops (tomap t)).
  Proof.
    induction d as [|d' IH]; intros i p t ops Hwf Hp Hops Hnd.
    - (* no level left: at most one key, the one of the leaf *)
      destruct ops as [|[k ov] ops]; [cbn; split; auto|].
      assert (Hk : length k = i + 0 /\ firstn i k = p) by (apply (Hops (k, ov)); left; auto).
      assert (Hnil : ops = []).
      { destruct ops as [|[k2 ov2] ops]; auto. exfalso.
        assert (Hk2 : length k2 = i + 0 /\ firstn i k2 = p) by (apply (Hops (k2, ov2)); right; left; auto).
        cbn [map fst] in Hnd. inversion Hnd as [|? ? Hnotin _]; subst. apply Hnotin. left.
        apply (firstn_full_eq k2 k i); try lia. destruct Hk, Hk2. congruence. }
      subst ops. destruct t as [|k' v'|l r]; [| |contradiction].
      + cbn [bupd tdirect]. destruct ov as [v|]; cbn [tput wf tomap fold_left map_apply snd fst]; split; auto; try lia;
          try apply Permutation_refl.
      + cbn [wf] in Hwf. assert (Ek : k' = k).
        { apply (firstn_full_eq k' k i); try lia. pose proof (Hp (k', v') (or_introl eq_refl)) as Hk'.
          cbn [fst] in Hk'. destruct Hk; congruence. }
        subst k'. cbn [bupd tdirect]. rewrite key_eqb_refl.
        destruct ov as [v|]; cbn [tput wf tomap fold_left]; unfold map_apply, mins, mdel, others; cbn [fst snd filter];
          rewrite key_eqb_refl; cbn [negb]; split; auto; try lia; try apply Permutation_refl.
    - destruct ops as [|o0 ops0]; [cbn; split; auto|].
      remember (o0 :: ops0) as ops eqn:Eops.
      assert (Hunf : bupd (S d') i t ops =
                     match tdirect t ops with
                     | Some t' => t'
                     | None => collapse (bupd d' (S i) (fst (children i t)) (opsb false i ops))
                                        (bupd d' (S i) (snd (children i t)) (opsb true i ops))
                     end) by (subst ops; reflexivity).
      rewrite Hunf. clear Hunf.
      destruct (tdirect t ops) as [t'|] eqn:Ed.
      + (* direct *)
        unfold tdirect in Ed. destruct ops as [|[k ov] [|o2 ops2]]; try discriminate.
        assert (Hk : length k = i + S d' /\ firstn i k = p) by (apply (Hops (k, ov)); left; auto).
        destruct t as [|k' v'|l r]; try discriminate.
        * inversion Ed; subst t'. destruct ov as [v|]; cbn [tput wf tomap fold_left map_apply snd fst]; split; auto; try tauto;
            try apply Permutation_refl.
        * destruct (key_eqb k' k) eqn:Ek; try discriminate. apply key_eqb_true in Ek. subst k'. inversion Ed; subst t'.
          destruct ov as [v|]; cbn [tput wf tomap fold_left]; unfold map_apply, mins, mdel, others; cbn [fst snd filter];
            rewrite key_eqb_refl; cbn [negb]; split; auto; try tauto; try apply Permutation_refl.
      + destruct (children_ok d' i p t Hwf Hp) as (Hwl & Hwr & Etm & Hbl & Hbr).
        set (cl := fst (children i t)) in *. set (cr := snd (children i t)) in *.
        assert (Hlen : forall kv, In kv (tomap t) -> i < length (fst kv)).
        { intros kv Hin. rewrite (wf_keys _ _ _ _ Hwf Hin). lia. }
        assert (Hpl : forall kv, In kv (tomap cl) -> firstn (S i) (fst kv) = p ++ [false]).
        { intros kv Hin. assert (Hin' : In kv (tomap t)) by (rewrite Etm; apply in_or_app; left; auto).
          rewrite firstn_snoc by auto. rewrite (Hp _ Hin'), (Hbl _ Hin). reflexivity. }
        assert (Hpr : forall kv, In kv (tomap cr) -> firstn (S i) (fst kv) = p ++ [true]).
        { intros kv Hin. assert (Hin' : In kv (tomap t)) by (rewrite Etm; apply in_or_app; right; auto).
          rewrite firstn_snoc by auto. rewrite (Hp _ Hin'), (Hbr _ Hin). reflexivity. }
        assert (Hopsb : forall b o, In o (opsb b i ops) -> length (fst o) = S i + d' /\ firstn (S i) (fst o) = p ++ [b]).
        { intros b o Hin. apply opsb_in in Hin. destruct Hin as [Hin Hb]. destruct (Hops o Hin) as [Hl1 Hp1].
          split; [lia|]. rewrite firstn_snoc by lia. rewrite Hp1, Hb. reflexivity. }
        destruct (IH (S i) (p ++ [false]) cl (opsb false i ops) Hwl Hpl (Hopsb false) (opsb_nodup _ _ _ Hnd)) as [Hw1 Hp1].
        destruct (IH (S i) (p ++ [true]) cr (opsb true i ops) Hwr Hpr (Hopsb true) (opsb_nodup _ _ _ Hnd)) as [Hw2 Hp2].
        assert (Hb1 : forall kv, In kv (tomap (bupd d' (S i) cl (opsb false i ops))) -> bit i (fst kv) = false).
        { intros kv Hin. apply (Permutation_in _ Hp1) in Hin. apply fold_keys in Hin.
          destruct Hin as [Hin|(o & Ho & E1)]; [auto|]. apply opsb_in in Ho. rewrite E1. tauto. }
        assert (Hb2 : forall kv, In kv (tomap (bupd d' (S i) cr (opsb true i ops))) -> bit i (fst kv) = true).
        { intros kv Hin. apply (Permutation_in _ Hp2) in Hin. apply fold_keys in Hin.
          destruct Hin as [Hin|(o & Ho & E1)]; [auto|]. apply opsb_in in Ho. rewrite E1. tauto. }
        split.
        * apply (@collapse_wf V unit); auto; exact tt.
        * rewrite collapse_tomap. rewrite Etm.
          eapply Permutation_trans; [apply Permutation_app; [exact Hp1|exact Hp2]|].
          apply Permutation_sym. apply fold_split; auto.
  Qed.

  (* keys of the result lie below the same prefix and have the same length *)
  Lemma bupd_keys : forall d i p (t : T) (ops : list op),
    wf d i t -> (forall kv, In kv (tomap t) -> firstn i (fst kv) = p) ->
    (forall o, In o ops -> length (fst o) = i + d /\ firstn i (fst o) = p) -> NoDup (map fst ops) ->
    forall kv, In kv (tomap (bupd d i t ops)) -> firstn i (fst kv) = p.
  Proof.
    intros d i p t ops Hwf Hp Hops Hnd kv Hin.
    destruct (bupd_ok d i p t ops Hwf Hp Hops Hnd) as [_ HP]. apply (Permutation_in _ HP) in Hin.
    apply fold_keys in Hin. destruct Hin as [Hin|(o & Ho & E1)]; [auto|]. rewrite E1. apply Hops; auto.
  Qed.

  Lemma bupd_nil : forall d i (t : T), bupd d i t [] = t.
  Proof. destruct d; reflexivity. Qed.

  (* ---- packaged side conditions, used by SMT/LayeredProofs.v ---- *)
  Definition okops (d i : nat) (p : list bool) (ops : list op) : Prop :=
    (forall o, In o ops -> length (fst o) = i + d /\ firstn i (fst o) = p) /\ NoDup (map fst ops).
  Definition under (i : nat) (p : list bool) (t : T) : Prop := forall kv, In kv (tomap t) -> firstn i (fst kv) = p.

  Lemma okops_opsb : forall d' i p b (ops : list op), okops (S d') i p ops -> okops d' (S i) (p ++ [b]) (opsb b i ops).
  Proof.
    intros d' i p b ops [Hops Hnd]. split; [|apply opsb_nodup; exact Hnd].
    intros o Hin. apply opsb_in in Hin. destruct Hin as [Hin Hb]. destruct (Hops o Hin) as [Hl1 Hp1].
    split; [lia|]. rewrite firstn_snoc by lia. rewrite Hp1, Hb. reflexivity.
  Qed.
  Lemma under_children : forall d' i p (t : T), wf (S d') i t -> under i p t ->
    under (S i) (p ++ [false]) (fst (children i t)) /\ under (S i) (p ++ [true]) (snd (children i t)).
  Proof.
    intros d' i p t Hwf Hp. destruct (children_ok d' i p t Hwf Hp) as (Hwl & Hwr & Etm & Hbl & Hbr).
    assert (Hlen : forall kv, In kv (tomap t) -> i < length (fst kv)).
    { intros kv Hin. rewrite (wf_keys _ _ _ _ Hwf Hin). lia. }
    split; intros kv Hin.
    - assert (Hin' : In kv (tomap t)) by (rewrite Etm; apply in_or_app; left; auto).
      rewrite firstn_snoc by auto. rewrite (Hp _ Hin'), (Hbl _ Hin). reflexivity.
    - assert (Hin' : In kv (tomap t)) by (rewrite Etm; apply in_or_app; right; auto).
      rewrite firstn_snoc by auto. rewrite (Hp _ Hin'), (Hbr _ Hin). reflexivity.
  Qed.
  Lemma bupd_ok' : forall d i p (t : T) (ops : list op), wf d i t -> under i p t -> okops d i p ops ->
    wf d i (bupd d i t ops) /\ under i p (bupd d i t ops).
  Proof.
    intros d i p t ops Hwf Hp [Hops Hnd]. split.
    - apply (bupd_ok d i p t ops Hwf Hp Hops Hnd).
    - intros kv Hin. eapply bupd_keys; eauto.
  Qed.
  (* with no level left the direct case always applies *)
  Lemma d0_direct : forall i p (t : T) (ops : list op), wf 0 i t -> under i p t -> okops 0 i p ops -> ops <> [] ->
    tdirect t ops <> None.
  Proof.
    intros i p t ops Hwf Hp [Hops Hnd] Hne.
    destruct ops as [|[k ov] ops]; [contradiction|].
    assert (Hk : length k = i + 0 /\ firstn i k = p) by (apply (Hops (k, ov)); left; auto).
    assert (Hnil : ops = []).
    { destruct ops as [|[k2 ov2] ops]; auto. exfalso.
      assert (Hk2 : length k2 = i + 0 /\ firstn i k2 = p) by (apply (Hops (k2, ov2)); right; left; auto).
      cbn [map fst] in Hnd. inversion Hnd as [|? ? Hnotin _]; subst. apply Hnotin. left.
      apply (firstn_full_eq k2 k i); try lia. destruct Hk, Hk2. congruence. }
    subst ops. destruct t as [|k' v'|l r]; [| |contradiction]; cbn [tdirect].
    - discriminate.
    - cbn [wf] in Hwf. assert (Ek : k' = k).
      { apply (firstn_full_eq k' k i); try lia. pose proof (Hp (k', v') (or_introl eq_refl)) as Hk'.
        cbn [fst] in Hk'. destruct Hk; congruence. }
      subst k'. rewrite key_eqb_refl. discriminate.
  Qed.
  Lemma bupd_step : forall d' i (t : T) (ops : list op), ops <> [] -> tdirect t ops = None ->
    bupd (S d') i t ops = collapse (bupd d' (S i) (fst (children i t)) (opsb false i ops))
                                   (bupd d' (S i) (snd (children i t)) (opsb true i ops)).
  Proof. intros d' i t ops Hne Hd. destruct ops; [contradiction|]. cbn [bupd]. rewrite Hd. reflexivity. Qed.
  Lemma bupd_direct : forall d i (t t' : T) (ops : list op), tdirect t ops = Some t' -> bupd d i t ops = t'.
  Proof.
    intros d i t t' ops Hd. destruct ops as [|o ops]; [discriminate|]. destruct d; cbn [bupd]; rewrite Hd; reflexivity.
  Qed.
End Batch.
