(* C10 — proof generation: per-query data read from the reference tree (what generateQueryProof/calculateQueryHashes
   compute through the sub-tree layout: bitmap bottom-first, non-empty sibling hashes top-first, ancestor hashes)
   followed by a transcription of trie.Prove's merge (utils.go calculateSiblingHashes with insertAndFilterQueries).
   Tree keys are bit lists; wire keys are bytes (from_bools of the bit list, exact for multiples of 8). *)
From Coq Require Import List NArith Bool.
From LE Require Import SMT.Spec SMT.Tree SMT.Verify.
Import ListNotations.

Section Prove.
  Context {Hsh : Type}.
  Variable hempty : Hsh.
  Variable hleafb : list N -> list N -> Hsh.       (* key bytes, value bytes *)
  Variable hbranch : Hsh -> Hsh -> Hsh.
  Variable heqb : Hsh -> Hsh -> bool.
  Definition V := list N.
  Definition hleaf (k : key) (v : V) : Hsh := hleafb (from_bools k) v.
  Notation hash := (hash hempty hleaf hbranch).

  Definition is_E (t : @T V) : bool := match t with E => true | _ => false end.

  (* descend along the query key: (leaf reached or None for empty, bitmap top-first, sibling hashes top-first,
     ancestor hashes) *)
  Definition qstep (sibling : @T V) (self : Hsh)
             (sub : option (key * V) * list bool * list Hsh * list Hsh) :=
    let '(res, bm, sibs, anc) := sub in
    (res, negb (is_E sibling) :: bm, (if is_E sibling then sibs else hash sibling :: sibs), self :: anc).
  Fixpoint qpath (t : @T V) (bits : key) (i : nat) : option (key * V) * list bool * list Hsh * list Hsh :=
    match t with
    | E => (None, [], [], [])
    | L k v => (Some (k, v), [], [], [hash t])
    | B l r => if bit i bits then qstep l (hash t) (qpath r bits (S i)) else qstep r (hash t) (qpath l bits (S i))
    end.

  (* working query of Prove: key bytes, bitmap bottom-first, own sibling hashes top-first *)
  Record pq := P { p_key : list N; p_value : list N; p_bm : list bool; p_sibs : list Hsh }.
  Definition pheight (p : pq) : nat := length (p_bm p).
  Definition ppath (p : pq) : list bool := firstn (pheight p) (to_bools (p_key p)).
  Definition pq_before (a b : pq) : bool :=
    (Nat.eqb (pheight a) (pheight b) && bytes_ltb (p_key a) (p_key b)) || Nat.ltb (pheight b) (pheight a).
  Fixpoint psort_ins (x : pq) (l : list pq) : list pq :=
    match l with [] => [x] | y :: t => if pq_before y x then y :: psort_ins x t else x :: l end.
  Definition psort (l : list pq) : list pq := fold_right psort_ins [] l.
  Fixpoint pinsert_filter (x : pq) (l : list pq) : list pq :=
    match l with
    | [] => [x]
    | y :: t => if pq_before x y
                then (if bools_eqb (ppath x) (ppath y) then l else x :: l)
                else y :: pinsert_filter x t
    end.

  Definition query_of (t : @T V) (kbytes : list N) : pq * list Hsh :=
    let '(res, bm, sibs, anc) := qpath t (to_bools kbytes) 0 in
    match res with
    | Some (k, v) => (P (from_bools k) v (rev bm) sibs, anc)
    | None => (P kbytes [] (rev bm) sibs, anc)
    end.

  Fixpoint calc_sibs (fuel : nat) (qs : list pq) (anc acc : list Hsh) : list Hsh :=
    match fuel with
    | O => acc
    | S f =>
      match qs with
      | [] => acc
      | q :: rest =>
        match p_bm q with
        | [] => calc_sibs f rest anc acc
        | b0 :: bm' =>
          let '(sibs', acc') :=
            if b0 then
              match rev (p_sibs q) with
              | [] => (p_sibs q, acc)          (* Go would panic: never for well-formed paths *)
              | h :: r => (rev r, if existsb (heqb h) acc || existsb (heqb h) anc then acc else acc ++ [h])
              end
            else (p_sibs q, acc) in
          calc_sibs f (pinsert_filter (P (p_key q) (p_value q) bm' sibs') rest) anc acc'
        end
      end
    end.

  (* trie.Prove(queryKeys): (sibling hashes, queries in request order) *)
  Definition prove (t : @T V) (keys : list (list N)) : list Hsh * list (query) :=
    let qa := map (query_of t) keys in
    let qs := map fst qa in
    let anc := flat_map snd qa in
    let fuel := S (fold_right (fun q a => (S (pheight q) + a)%nat) O qs) in
    (calc_sibs fuel (psort qs) anc [],
     map (fun q => Q (p_key q) (p_value q) (from_bools (p_bm q))) qs).
End Prove.
