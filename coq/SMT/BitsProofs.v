(* C10 — bytes.ToBools / bytes.FromBools round trip on bit strings whose length is a multiple of 8, and the common
   prefix computed by collection.CommonPrefix. *)
From Coq Require Import List Bool Arith Lia NArith.
From LE Require Import SMT.Verify.
Import ListNotations.

Lemma byte_roundtrip : forall b0 b1 b2 b3 b4 b5 b6 b7 : bool,
  byte_bits (bits_val [b0; b1; b2; b3; b4; b5; b6; b7] 0) = [b0; b1; b2; b3; b4; b5; b6; b7].
Proof. intros [] [] [] [] [] [] [] []; vm_compute; reflexivity. Qed.

Lemma chunks8_roundtrip : forall m l fuel, length l = 8 * m -> m <= fuel -> to_bools (chunks8 fuel l) = l.
Proof.
  induction m; intros l fuel Hl Hf.
  - destruct l; [|cbn in Hl; lia]. destruct fuel; reflexivity.
  - destruct fuel; [lia|].
    destruct l as [|b0 [|b1 [|b2 [|b3 [|b4 [|b5 [|b6 [|b7 rest]]]]]]]]; cbn [length] in Hl; try lia.
    cbn [chunks8 firstn skipn]. cbn [to_bools flat_map]. fold (to_bools (chunks8 fuel rest)).
    rewrite byte_roundtrip. rewrite (IHm rest fuel) by lia. reflexivity.
Qed.

Lemma from_to_bools : forall m l, length l = 8 * m -> to_bools (from_bools l) = l.
Proof.
  intros m l Hl. unfold from_bools.
  assert (E : Nat.modulo (length l) 8 = 0) by (rewrite Hl, Nat.mul_comm; apply Nat.mod_mul; lia).
  rewrite E. cbn [Nat.eqb app]. apply (chunks8_roundtrip m); lia.
Qed.

Lemma to_bools_length' : forall bs, length (to_bools bs) = 8 * length bs.
Proof. induction bs; cbn [to_bools flat_map length]; auto. rewrite app_length. fold (to_bools bs). rewrite IHbs. cbn. lia. Qed.
Lemma from_bools_length : forall m l, length l = 8 * m -> length (from_bools l) = m.
Proof.
  intros m l Hl. pose proof (from_to_bools m l Hl) as E. apply (f_equal (@length bool)) in E.
  rewrite to_bools_length' in E. lia.
Qed.

Lemma common_prefix_firstn : forall h a b, h <= common_prefix_len a b -> firstn h a = firstn h b.
Proof.
  induction h; intros a b H; [reflexivity|].
  destruct a as [|x a], b as [|y b]; cbn [common_prefix_len] in H; try lia.
  destruct (Bool.eqb x y) eqn:E; [|lia]. apply eqb_prop in E. subst. cbn [firstn]. f_equal. apply IHh. lia.
Qed.

Lemma bytes_eqb_eq : forall a b, bytes_eqb a b = true -> a = b.
Proof.
  induction a as [|x a IH]; intros [|y b] H; cbn in H; try discriminate; auto.
  apply andb_true_iff in H. destruct H as [H1 H2]. apply N.eqb_eq in H1. subst. f_equal. auto.
Qed.
