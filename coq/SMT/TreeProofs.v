(* C10 — proofs: the hash of the incrementally maintained tree is the LIP-0039 root of the resulting map, for every
   history of batches (insertions, overwrites, deletions, duplicates inside a batch). *)
From Coq Require Import List Bool Arith Lia Permutation.
From LE Require Import SMT.Spec SMT.Tree.
Import ListNotations.

Section Proofs.
  Context {V Hsh : Type}.
  Variable hempty : Hsh.
  Variable hleaf : key -> V -> Hsh.
  Variable hbranch : Hsh -> Hsh -> Hsh.
  Notation T := (@T V).
  Notation root_at := (root_at hempty hleaf hbranch).
  Notation smt_root := (smt_root hempty hleaf hbranch).
  Notation hash := (hash hempty hleaf hbranch).
  Implicit Types m : list (key * V).

  (* well-formedness at position i with d levels left: keys have length n = i + d, agree with the path,
     and no branch could be collapsed *)
  Fixpoint wf (d i : nat) (t : T) {struct t} : Prop :=
    match t with
    | E => True
    | L k v => length k = i + d
    | B l r => match d with
               | O => False
               | S d' => wf d' (S i) l /\ wf d' (S i) r /\ 2 <= tsize l + tsize r /\
                         (forall kv, In kv (tomap l) -> bit i (fst kv) = false) /\
                         (forall kv, In kv (tomap r) -> bit i (fst kv) = true)
               end
    end.

  Lemma size_tomap : forall t : T, length (tomap t) = tsize t.
  Proof. induction t; simpl; auto. rewrite app_length. lia. Qed.

  Lemma side_all : forall b i m, (forall kv, In kv m -> bit i (fst kv) = b) -> side b i m = m.
  Proof.
    intros b i m Hm. unfold side. induction m as [|x t IH]; simpl; auto.
    rewrite (Hm x) by (left; auto). rewrite Bool.eqb_reflx. f_equal. apply IH. intros; apply Hm; right; auto.
  Qed.
  Lemma side_none : forall b i m, (forall kv, In kv m -> bit i (fst kv) = negb b) -> side b i m = [].
  Proof.
    intros b i m Hm. unfold side. induction m as [|x t IH]; simpl; auto.
    rewrite (Hm x) by (left; auto). destruct b; simpl; apply IH; intros; apply Hm; right; auto.
  Qed.
  Lemma side_app : forall b i m1 m2, side b i (m1 ++ m2) = side b i m1 ++ side b i m2.
  Proof. intros. unfold side. apply filter_app. Qed.

  Lemma root_at_two : forall d i m, 2 <= length m ->
    root_at (S d) i m = hbranch (root_at d (S i) (side false i m)) (root_at d (S i) (side true i m)).
  Proof. intros d i m Hm. destruct m as [|[k v] [|y t]]; simpl in Hm; try lia. reflexivity. Qed.

  Theorem hash_is_root : forall t d i, wf d i t -> hash t = root_at d i (tomap t).
  Proof.
    induction t as [|k v|l IHl r IHr]; intros d i Hwf.
    - destruct d; reflexivity.
    - destruct d; reflexivity.
    - destruct d as [|d']; [contradiction|]. destruct Hwf as (Hl & Hr & Hsz & Hbl & Hbr).
      cbn [Tree.hash Tree.tomap]. rewrite (IHl _ _ Hl), (IHr _ _ Hr).
      rewrite root_at_two by (rewrite app_length, !size_tomap; lia).
      rewrite !side_app.
      rewrite (side_all false i (tomap l)), (side_none false i (tomap r)), (side_none true i (tomap l)), (side_all true i (tomap r)); auto.
      rewrite app_nil_r. reflexivity.
  Qed.

  (* ---- the root does not depend on the order of the pairs ---- *)
  Lemma perm_filter : forall (A : Type) (f : A -> bool) l l', Permutation l l' -> Permutation (filter f l) (filter f l').
  Proof.
    intros A f l l' HP. induction HP; simpl; auto.
    - destruct (f x); auto.
    - destruct (f x), (f y); auto. apply perm_swap.
    - eapply Permutation_trans; eauto.
  Qed.
  Lemma root_at_perm : forall d i m m', Permutation m m' -> root_at d i m = root_at d i m'.
  Proof.
    induction d; intros i m m' HP.
    - pose proof (Permutation_length HP) as Hlen.
      destruct m as [|[k v] [|y t]], m' as [|[k' v'] [|y' t']]; simpl in Hlen; try lia; try reflexivity.
      apply Permutation_length_1 in HP. inversion HP; reflexivity.
    - pose proof (Permutation_length HP) as Hlen.
      destruct (le_lt_dec 2 (length m)) as [H2|H2].
      + rewrite !root_at_two by lia. f_equal; apply IHd; apply perm_filter; auto.
      + destruct m as [|[k v] [|y t]], m' as [|[k' v'] [|y' t']]; simpl in *; try lia; try reflexivity.
        apply Permutation_length_1 in HP. inversion HP; reflexivity.
  Qed.


  Lemma key_eqb_refl : forall k, key_eqb k k = true.
  Proof. intros. unfold key_eqb. destruct (list_eq_dec bool_dec k k); congruence. Qed.
  Lemma key_eqb_neq : forall a b, a <> b -> key_eqb a b = false.
  Proof. intros. unfold key_eqb. destruct (list_eq_dec bool_dec a b); congruence. Qed.
  Lemma key_eqb_true : forall a b, key_eqb a b = true -> a = b.
  Proof. intros a b. unfold key_eqb. destruct (list_eq_dec bool_dec a b); congruence. Qed.

  Lemma others_all : forall k m, (forall kv, In kv m -> fst kv <> k) -> others k m = m.
  Proof.
    intros k m Hm. unfold others. induction m as [|x t IH]; simpl; auto.
    rewrite key_eqb_neq by (intro; apply (Hm x); [left; auto|congruence]). simpl. f_equal. apply IH. intros; apply Hm; right; auto.
  Qed.
  Lemma others_app : forall k (a b : list (key * V)), others k (a ++ b) = others k a ++ others k b.
  Proof. intros. unfold others. apply filter_app. Qed.

  Lemma wf_keys : forall t d i kv, wf d i t -> In kv (tomap t) -> length (fst kv) = i + d.
  Proof.
    induction t as [|k v|l IHl r IHr]; intros d i kv Hwf Hin; simpl in *.
    - contradiction.
    - destruct Hin as [<-|[]]. simpl. exact Hwf.
    - destruct d as [|d']; [contradiction|]. destruct Hwf as (Hl & Hr & _).
      apply in_app_or in Hin. destruct Hin as [Hin|Hin]; [rewrite (IHl _ _ _ Hl Hin)|rewrite (IHr _ _ _ Hr Hin)]; lia.
  Qed.
  Lemma wf_size0 : forall t d i, wf d i t -> tsize t = 0 -> t = E.
  Proof. destruct t; simpl; intros; auto; try lia. destruct d; [contradiction|]. lia. Qed.

  Lemma firstn_S_bit : forall i (k k' : key), i < length k -> i < length k' ->
    firstn i k = firstn i k' -> bit i k = bit i k' -> firstn (S i) k = firstn (S i) k'.
  Proof.
    induction i; intros k k' Hk Hk' Hf Hb; destruct k as [|b t], k' as [|b' t']; simpl in *; try lia.
    - unfold bit in Hb. simpl in Hb. congruence.
    - inversion Hf; subst. f_equal. apply IHi; auto; lia.
  Qed.

  Lemma split_ok : forall d i k v k' v', length k = i + d -> length k' = i + d -> firstn i k = firstn i k' -> k <> k' ->
    wf d i (split d i k v k' v') /\ Permutation (tomap (split d i k v k' v')) [(k, v); (k', v')].
  Proof.
    induction d; intros i k v k' v' Hk Hk' Hf Hne.
    - exfalso. apply Hne. rewrite Nat.add_0_r in *. rewrite <- (firstn_all k), <- (firstn_all k'), Hk, Hk'. exact Hf.
    - cbn [split].
      destruct (bit i k) eqn:Bk, (bit i k') eqn:Bk'.
      + destruct (IHd (S i) k v k' v') as [Hw Hp]; try lia; auto.
        { apply firstn_S_bit; try lia; congruence. }
        pose proof (Permutation_length Hp) as Hl. rewrite size_tomap in Hl. cbn [length] in Hl.
        split; [|cbn [tomap]; exact Hp].
        cbn [wf]. split; [exact I|]. split; [exact Hw|]. split; [cbn [tsize]; lia|].
        split; [intros kv []|].
        intros kv Hin. apply (Permutation_in _ Hp) in Hin. destruct Hin as [<-|[<-|[]]]; auto.
      + split; [|cbn [tomap app]; apply perm_swap].
        cbn [wf]. split; [lia|]. split; [lia|]. split; [cbn [tsize]; lia|].
        split; intros kv [<-|[]]; auto.
      + split; [|cbn [tomap app]; apply Permutation_refl].
        cbn [wf]. split; [lia|]. split; [lia|]. split; [cbn [tsize]; lia|].
        split; intros kv [<-|[]]; auto.
      + destruct (IHd (S i) k v k' v') as [Hw Hp]; try lia; auto.
        { apply firstn_S_bit; try lia; congruence. }
        pose proof (Permutation_length Hp) as Hl. rewrite size_tomap in Hl. cbn [length] in Hl.
        split; [|cbn [tomap]; rewrite app_nil_r; exact Hp].
        cbn [wf]. split; [exact Hw|]. split; [exact I|]. split; [cbn [tsize]; lia|].
        split; [|intros kv []].
        intros kv Hin. apply (Permutation_in _ Hp) in Hin. destruct Hin as [<-|[<-|[]]]; auto.
  Qed.

  Lemma nodup_app : forall (A : Type) (a b : list A), NoDup a -> NoDup b -> (forall x, In x a -> ~ In x b) -> NoDup (a ++ b).
  Proof.
    induction a as [|x a IH]; intros b Ha Hb Hd; simpl; auto.
    inversion Ha; subst. constructor.
    - intro Hin. apply in_app_or in Hin. destruct Hin; [contradiction|]. apply (Hd x); [left; auto|assumption].
    - apply IH; auto. intros y Hy. apply Hd. right; auto.
  Qed.

  Lemma wf_nodup : forall t d i, wf d i t -> NoDup (map fst (tomap t)).
  Proof.
    induction t as [|k v|l IHl r IHr]; intros d i Hwf; cbn [tomap map].
    - constructor.
    - constructor; [intros []|constructor].
    - destruct d as [|d']; [contradiction|]. destruct Hwf as (Hl & Hr & _ & Hbl & Hbr).
      rewrite map_app. apply nodup_app; eauto.
      intros x Hx Hx'. apply in_map_iff in Hx. apply in_map_iff in Hx'.
      destruct Hx as (kv & <- & Hin). destruct Hx' as (kv' & E & Hin').
      pose proof (Hbl _ Hin). pose proof (Hbr _ Hin'). rewrite E in *. congruence.
  Qed.

  Lemma others_length : forall k m, NoDup (map fst m) -> length m <= S (length (others k m)).
  Proof.
    intros k m. unfold others. induction m as [|[k0 v0] t IH]; intros Hnd; simpl; [lia|].
    inversion Hnd as [|? ? Hnotin Hnd']; subst. destruct (key_eqb k k0) eqn:Ek; simpl.
    - apply key_eqb_true in Ek. subst. fold (others k0 t). rewrite others_all; [lia|].
      intros kv Hin E. apply Hnotin. apply in_map_iff. exists kv. auto.
    - specialize (IH Hnd'). lia.
  Qed.
  Lemma others_in : forall k m kv, In kv (others k m) -> In kv m /\ fst kv <> k.
  Proof.
    intros k m kv Hin. unfold others in Hin. apply filter_In in Hin. destruct Hin as [Hin Hf]. split; auto.
    intro E. subst. rewrite key_eqb_refl in Hf. discriminate.
  Qed.

  Lemma bit_diff_neq : forall i (k k' : key), bit i k <> bit i k' -> k <> k'.
  Proof. intros. congruence. Qed.

  Theorem ins_ok : forall t d i k v, wf d i t -> length k = i + d ->
    (forall kv, In kv (tomap t) -> firstn i (fst kv) = firstn i k) ->
    wf d i (ins d i k v t) /\ Permutation (tomap (ins d i k v t)) (mins k v (tomap t)).
  Proof.
    induction t as [|k' v'|l IHl r IHr]; intros d i k v Hwf Hk Hpre.
    - cbn [ins wf tomap]. split; [exact Hk|apply Permutation_refl].
    - cbn [ins]. destruct (key_eqb k k') eqn:Ek.
      + apply key_eqb_true in Ek. subst k'. cbn [wf tomap]. split; [exact Hk|].
        unfold mins, others. cbn [filter fst]. rewrite key_eqb_refl. cbn [negb]. apply Permutation_refl.
      + assert (Hne : k <> k') by (intro; subst; rewrite key_eqb_refl in Ek; discriminate).
        cbn [wf] in Hwf.
        destruct (split_ok d i k v k' v') as [Hw Hp]; auto.
        { symmetry. apply (Hpre (k', v')). left; auto. }
        split; auto. unfold mins, others. cbn [tomap filter fst]. rewrite Ek. exact Hp.
    - destruct d as [|d']; [contradiction|]. destruct Hwf as (Hl & Hr & Hsz & Hbl & Hbr).
      pose proof (wf_nodup _ _ _ Hl) as Hndl. pose proof (wf_nodup _ _ _ Hr) as Hndr.
      cbn [ins]. destruct (bit i k) eqn:Bk.
      + destruct (IHr d' (S i) k v Hr) as [Hw Hp]; try lia.
        { intros kv Hin. apply firstn_S_bit.
          - rewrite (wf_keys _ _ _ _ Hr Hin). lia.
          - lia.
          - apply Hpre. cbn [tomap]. apply in_or_app. right; auto.
          - rewrite (Hbr _ Hin). auto. }
        assert (Hl_others : others k (tomap l) = tomap l).
        { apply others_all. intros kv Hin E. pose proof (Hbl _ Hin). rewrite E in *. congruence. }
        split.
        * cbn [wf]. split; [exact Hl|]. split; [exact Hw|]. split.
          -- pose proof (Permutation_length Hp) as Hlen. rewrite !size_tomap in Hlen. unfold mins in Hlen. cbn [length] in Hlen.
             pose proof (others_length k (tomap r) Hndr) as Ho. rewrite size_tomap in Ho. lia.
          -- split; [exact Hbl|]. intros kv Hin. apply (Permutation_in _ Hp) in Hin.
             destruct Hin as [<-|Hin]; [auto|]. apply others_in in Hin. apply Hbr. tauto.
        * cbn [tomap]. unfold mins. rewrite others_app, Hl_others.
          eapply Permutation_trans; [apply Permutation_app_head; exact Hp|].
          unfold mins. apply Permutation_sym. apply Permutation_middle.
      + destruct (IHl d' (S i) k v Hl) as [Hw Hp]; try lia.
        { intros kv Hin. apply firstn_S_bit.
          - rewrite (wf_keys _ _ _ _ Hl Hin). lia.
          - lia.
          - apply Hpre. cbn [tomap]. apply in_or_app. left; auto.
          - rewrite (Hbl _ Hin). auto. }
        assert (Hr_others : others k (tomap r) = tomap r).
        { apply others_all. intros kv Hin E. pose proof (Hbr _ Hin). rewrite E in *. congruence. }
        split.
        * cbn [wf]. split; [exact Hw|]. split; [exact Hr|]. split.
          -- pose proof (Permutation_length Hp) as Hlen. rewrite !size_tomap in Hlen. unfold mins in Hlen. cbn [length] in Hlen.
             pose proof (others_length k (tomap l) Hndl) as Ho. rewrite size_tomap in Ho. lia.
          -- split; [|exact Hbr]. intros kv Hin. apply (Permutation_in _ Hp) in Hin.
             destruct Hin as [<-|Hin]; [auto|]. apply others_in in Hin. apply Hbl. tauto.
        * cbn [tomap]. unfold mins. rewrite others_app, Hr_others.
          apply (Permutation_app_tail (tomap r)) in Hp. exact Hp.
  Qed.

  Lemma collapse_tomap : forall l r : T, tomap (collapse l r) = tomap l ++ tomap r.
  Proof. destruct l, r; simpl; auto. Qed.
  Lemma wf_B_size : forall d i a b, wf d i (B a b) -> 2 <= tsize (B a b).
  Proof. intros d i a b H. destruct d; [contradiction|]. cbn [wf] in H. cbn [tsize]. tauto. Qed.
  Lemma collapse_wf : forall d' i l r, wf d' (S i) l -> wf d' (S i) r ->
    (forall kv, In kv (tomap l) -> bit i (fst kv) = false) -> (forall kv, In kv (tomap r) -> bit i (fst kv) = true) ->
    wf (S d') i (collapse l r).
  Proof.
    intros d' i l r Hl Hr Hbl Hbr.
    destruct l as [|kl vl|la lb], r as [|kr vr|ra rb]; cbn [collapse wf];
      try exact I; try (cbn [wf] in Hl, Hr; lia);
      (split; [assumption|split; [assumption|split; [|split; assumption]]]);
      try (pose proof (wf_B_size _ _ _ _ Hl)); try (pose proof (wf_B_size _ _ _ _ Hr)); cbn [tsize] in *; lia.
  Qed.

  Theorem del_ok : forall t d i k, wf d i t ->
    wf d i (del d i k t) /\ tomap (del d i k t) = mdel k (tomap t).
  Proof.
    induction t as [|k' v'|l IHl r IHr]; intros d i k Hwf.
    - cbn [del tomap]. split; auto.
    - cbn [del]. unfold mdel, others. cbn [tomap filter fst]. destruct (key_eqb k k'); cbn [negb]; split; auto. exact I.
    - destruct d as [|d']; [contradiction|]. destruct Hwf as (Hl & Hr & Hsz & Hbl & Hbr).
      cbn [del]. destruct (bit i k) eqn:Bk.
      + destruct (IHr d' (S i) k Hr) as [Hw He].
        assert (Hl_others : others k (tomap l) = tomap l).
        { apply others_all. intros kv Hin E. pose proof (Hbl _ Hin). rewrite E in *. congruence. }
        split.
        * apply collapse_wf; auto. intros kv Hin. rewrite He in Hin. apply others_in in Hin. apply Hbr. tauto.
        * rewrite collapse_tomap, He. unfold mdel. cbn [tomap]. rewrite others_app, Hl_others. reflexivity.
      + destruct (IHl d' (S i) k Hl) as [Hw He].
        assert (Hr_others : others k (tomap r) = tomap r).
        { apply others_all. intros kv Hin E. pose proof (Hbr _ Hin). rewrite E in *. congruence. }
        split.
        * apply collapse_wf; auto. intros kv Hin. rewrite He in Hin. apply others_in in Hin. apply Hbl. tauto.
        * rewrite collapse_tomap, He. unfold mdel. cbn [tomap]. rewrite others_app, Hr_others. reflexivity.
  Qed.


  (* ---- histories of batches ---- *)
  Lemma fold_tree_map : forall n (ops : list (@op V)) (t : T) m, (forall o, In o ops -> length (fst o) = n) ->
    wf n 0 t -> Permutation (tomap t) m ->
    wf n 0 (fold_left (tree_apply n) ops t) /\
    Permutation (tomap (fold_left (tree_apply n) ops t)) (fold_left map_apply ops m).
  Proof.
    intros n. induction ops as [|[k [v|]] ops IH]; intros t m Hlen Hwf Hp; cbn [fold_left]; auto.
    - assert (Hk : length k = n) by (apply (Hlen (k, Some v)); left; auto).
      destruct (ins_ok t n 0 k v Hwf) as [Hw' Hp']; auto.
      apply IH; auto.
      + intros; apply Hlen; right; auto.
      + unfold tree_apply, map_apply; cbn [fst snd]. eapply Permutation_trans; [exact Hp'|].
        unfold mins. apply perm_skip. apply perm_filter. exact Hp.
    - destruct (del_ok t n 0 k Hwf) as [Hw' He'].
      apply IH; auto.
      + intros; apply Hlen; right; auto.
      + unfold tree_apply, map_apply; cbn [fst snd]. rewrite He'. unfold mdel. apply perm_filter. exact Hp.
  Qed.

  Lemma dedupe_incl : forall (ops : list (@op V)) seen o, In o (dedupe seen ops) -> In o ops.
  Proof.
    induction ops as [|x t IH]; intros seen o Hin; cbn [dedupe] in Hin; auto.
    destruct (existsb (key_eqb (fst x)) seen); [right; eauto|].
    destruct Hin as [<-|Hin]; [left; auto|right; eauto].
  Qed.

  Definition keys_ok (n : nat) (batches : list (list (@op V))) : Prop :=
    forall b o, In b batches -> In o b -> length (fst o) = n.

  Lemma batches_tree_map : forall n (batches : list (list (@op V))) (t : T) m, keys_ok n batches ->
    wf n 0 t -> Permutation (tomap t) m ->
    wf n 0 (fold_left (batch_update n) batches t) /\
    Permutation (tomap (fold_left (batch_update n) batches t)) (fold_left map_batch batches m).
  Proof.
    intros n. induction batches as [|b bs IH]; intros t m Hk Hwf Hp; cbn [fold_left]; auto.
    destruct (fold_tree_map n (dedupe [] b) t m) as [Hw' Hp']; auto.
    { intros o Hin. apply (Hk b); [left; auto|]. eapply dedupe_incl; eauto. }
    apply IH; auto. intros b' o Hb Ho. apply (Hk b'); auto. right; auto.
  Qed.

  (* MAIN: for every sequence of batches the root is the LIP-0039 root of the resulting map *)
  Theorem history_independent : forall n (batches : list (list (@op V))), keys_ok n batches ->
    hash (fold_left (batch_update n) batches E) = smt_root n (fold_left map_batch batches []).
  Proof.
    intros n batches Hk.
    destruct (batches_tree_map n batches E [] Hk I (Permutation_refl _)) as [Hw Hp].
    rewrite (hash_is_root _ _ _ Hw). unfold Spec.smt_root. apply root_at_perm. exact Hp.
  Qed.

  Theorem empty_root : forall n, hash E = hempty /\ smt_root n [] = hempty.
  Proof. intros. split; [reflexivity|]. unfold Spec.smt_root. destruct n; reflexivity. Qed.

  (* the resulting association list always has distinct keys, and reading it is reading the tree *)
  Lemma others_nodup : forall k (m : list (key * V)), NoDup (map fst m) -> NoDup (map fst (others k m)).
  Proof.
    intros k m. unfold others. induction m as [|[k0 v0] t IH]; intros H; cbn; [constructor|].
    inversion H; subst. destruct (key_eqb k k0); cbn; auto. constructor; auto.
    intro Hin. apply H2. apply in_map_iff in Hin. destruct Hin as (kv & E1 & Hin). apply filter_In in Hin.
    apply in_map_iff. exists kv. tauto.
  Qed.
  Lemma others_no_key : forall k (m : list (key * V)), ~ In k (map fst (others k m)).
  Proof.
    intros k m Hin. apply in_map_iff in Hin. destruct Hin as (kv & E1 & Hin). apply others_in in Hin.
    destruct Hin as [_ Hne]. congruence.
  Qed.
  Lemma map_apply_nodup : forall (m : list (key * V)) o, NoDup (map fst m) -> NoDup (map fst (map_apply m o)).
  Proof.
    intros m [k [v|]] H; unfold map_apply, mins, mdel; cbn [fst snd map].
    - constructor; [apply others_no_key|apply others_nodup; auto].
    - apply others_nodup; auto.
  Qed.
  Lemma map_batches_nodup : forall (batches : list (list (@op V))) m, NoDup (map fst m) ->
    NoDup (map fst (fold_left map_batch batches m)).
  Proof.
    induction batches as [|b bs IH]; intros m H; cbn [fold_left]; auto. apply IH.
    unfold map_batch. generalize (dedupe [] b). intros ops. revert m H.
    induction ops as [|o ops IHo]; intros m H; cbn [fold_left]; auto. apply IHo. apply map_apply_nodup; auto.
  Qed.

  Lemma mget_in : forall (m : list (key * V)) k v, NoDup (map fst m) -> (mget k m = Some v <-> In (k, v) m).
  Proof.
    induction m as [|[k0 v0] t IH]; intros k v Hnd; cbn [mget].
    - split; [discriminate|intros []].
    - inversion Hnd; subst. destruct (key_eqb k k0) eqn:Ek.
      + apply key_eqb_true in Ek. subst k0. split.
        * intros E1; inversion E1; left; reflexivity.
        * intros [E1|Hin]; [inversion E1; reflexivity|]. exfalso. apply H1. apply in_map_iff. exists (k, v). auto.
      + rewrite IH by auto. split; [right; auto|]. intros [E1|Hin]; auto. inversion E1; subst.
        rewrite key_eqb_refl in Ek. discriminate.
  Qed.

  (* the root is a function of the key->value map only: two histories whose final maps agree on every key give
     the same root (whatever the insertion order, batching, overwrites, intermediate deletions) *)
  Theorem root_is_function_of_map : forall n (h1 h2 : list (list (@op V))), keys_ok n h1 -> keys_ok n h2 ->
    (forall k, mget k (fold_left map_batch h1 []) = mget k (fold_left map_batch h2 [])) ->
    hash (fold_left (batch_update n) h1 E) = hash (fold_left (batch_update n) h2 E).
  Proof.
    intros n h1 h2 K1 K2 Hsame. rewrite !history_independent by auto. unfold Spec.smt_root. apply root_at_perm.
    assert (N1 := map_batches_nodup h1 [] (NoDup_nil _)). assert (N2 := map_batches_nodup h2 [] (NoDup_nil _)).
    apply NoDup_Permutation.
    - eapply NoDup_map_inv; eauto.
    - eapply NoDup_map_inv; eauto.
    - intros [k v]. rewrite <- !mget_in by auto. rewrite Hsame. tauto.
  Qed.
End Proofs.
