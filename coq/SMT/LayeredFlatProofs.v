(* C10 — hasher.go treeHasher on the flat (structure, node hashes) lists equals the tree-recursive [shash]:
   [tree_hasher_shash].  (The corresponding statement for calculateSubTree, [calc_subtree (flatten 0 raw) = Some (flatten 0
   (norm raw))], is NOT proved; see SMT/LayeredFlat.v.) *)
From Coq Require Import List Bool Arith Lia.
From LE Require Import SMT.Spec SMT.Tree SMT.Layered SMT.LayeredFlat.
Import ListNotations.

Section FP.
  Context {V Hsh : Type}.
  Variable hempty : Hsh.
  Variable hleaf : key -> V -> Hsh.
  Variable hbranch : Hsh -> Hsh -> Hsh.
  Notation ST := (@ST V Hsh).

  (* trees of hashes *)
  Inductive HT := HL (x : Hsh) | HB (l r : HT).
  Fixpoint hflat (d : nat) (t : HT) : list (nat * Hsh) :=
    match t with HL x => [(d, x)] | HB l r => hflat (S d) l ++ hflat (S d) r end.
  Fixpoint htot (t : HT) : Hsh := match t with HL x => x | HB l r => hbranch (htot l) (htot r) end.
  Fixpoint hdepth (t : HT) : nat := match t with HL _ => 0 | HB l r => S (Nat.max (hdepth l) (hdepth r)) end.
  (* one row: branches whose children sit at relative depth g become leaves *)
  Fixpoint contract (g : nat) (t : HT) {struct t} : HT :=
    match t with
    | HL x => HL x
    | HB l r => match g with
                | O => t
                | S O => HL (hbranch (htot l) (htot r))
                | S g' => HB (contract g' l) (contract g' r)
                end
    end.

  Lemma hash_row_app : forall t d height rest nx, d < height -> d + hdepth t <= height ->
    hash_row hbranch height rest = Some nx ->
    hash_row hbranch height (hflat d t ++ rest) = Some (hflat d (contract (height - d) t) ++ nx).
  Proof.
    induction t as [x|l IHl r IHr]; intros d height rest nx Hd Hdep Hrest; cbn [hflat contract].
    - cbn [app hash_row]. assert (E1 : Nat.eqb d height = false) by (apply Nat.eqb_neq; lia). rewrite E1. cbn [negb].
      rewrite Hrest. reflexivity.
    - cbn [hdepth] in Hdep. destruct (height - d) as [|g] eqn:Eg; [lia|]. destruct g as [|g'].
      + (* children at depth height: both are leaves *)
        assert (Hl0 : hdepth l = 0) by lia. assert (Hr0 : hdepth r = 0) by lia.
        destruct l as [x|]; [|cbn in Hl0; lia]. destruct r as [y|]; [|cbn in Hr0; lia].
        cbn [hflat app hash_row htot]. assert (E1 : S d = height) by lia. rewrite E1, Nat.eqb_refl. cbn [negb].
        rewrite Hrest. replace (height - 1) with d by lia. reflexivity.
      + rewrite <- app_assoc.
        assert (Hg : height - S d = S g') by lia.
        rewrite (IHl (S d) height (hflat (S d) r ++ rest) (hflat (S d) (contract (S g') r) ++ nx)); try lia.
        * rewrite Hg. cbn [hflat]. rewrite <- app_assoc. reflexivity.
        * rewrite (IHr (S d) height rest nx); try lia; auto. rewrite Hg. reflexivity.
  Qed.
  Lemma htot_contract : forall g t, htot (contract g t) = htot t.
  Proof.
    intros g t. revert g. induction t as [x|l IHl r IHr]; intros g; cbn [contract]; auto.
    destruct g as [|[|g']]; cbn [htot]; auto. rewrite IHl, IHr. reflexivity.
  Qed.
  Lemma hdepth_contract : forall t g, hdepth t <= g -> 0 < g -> hdepth (contract g t) <= g - 1.
  Proof.
    induction t as [x|l IHl r IHr]; intros g Hd Hg; cbn [contract hdepth] in *; [lia|].
    destruct g as [|[|g']]; cbn [hdepth]; try lia.
    specialize (IHl (S g')). specialize (IHr (S g')). lia.
  Qed.
  Lemma hflat_two : forall l r d, exists a b rest, hflat d (HB l r) = a :: b :: rest.
  Proof.
    intros l r d. cbn [hflat].
    assert (Hne : forall t d', exists a rest, hflat d' t = a :: rest).
    { induction t as [x|l0 IHl0 r0 _]; intros d'; cbn [hflat]; [eauto|]. destruct (IHl0 (S d')) as (a & rest & ->). cbn. eauto. }
    destruct (Hne l (S d)) as (a & r1 & ->). destruct r1 as [|b r1].
    - destruct (Hne r (S d)) as (b & r2 & ->). cbn. eauto.
    - cbn. eauto.
  Qed.

  Lemma tree_hasher_at_ok : forall height t, hdepth t <= height ->
    tree_hasher_at hbranch height (hflat 0 t) = Some (htot t).
  Proof.
    induction height as [|height' IH]; intros t Hd.
    - destruct t as [x|l r]; [reflexivity|cbn in Hd; lia].
    - destruct t as [x|l r]; [reflexivity|].
      destruct (hflat_two l r 0) as (a & b & rest & E2).
      assert (Hunf : tree_hasher_at hbranch (S height') (hflat 0 (HB l r)) =
                     match hash_row hbranch (S height') (hflat 0 (HB l r)) with
                     | None => None
                     | Some nx => match height' with
                                  | O => match nx with (_, x) :: _ => Some x | [] => None end
                                  | S _ => tree_hasher_at hbranch height' nx
                                  end
                     end).
      { rewrite E2. destruct a as [da xa]. reflexivity. }
      rewrite Hunf. clear Hunf.
      pose proof (hash_row_app (HB l r) 0 (S height') [] [] (Nat.lt_0_succ _) Hd eq_refl) as Hrow.
      rewrite !app_nil_r in Hrow. rewrite Hrow. replace (S height' - 0) with (S height') by lia.
      destruct height' as [|h''].
      + cbn [hdepth] in Hd. assert (hdepth l = 0) by lia. assert (hdepth r = 0) by lia.
        destruct l as [x|]; [|cbn in *; lia]. destruct r as [y|]; [|cbn in *; lia]. reflexivity.
      + rewrite IH; [rewrite htot_contract; reflexivity|].
        pose proof (hdepth_contract (HB l r) (S (S h'')) Hd). lia.
  Qed.

  (* from sub-trees to hash trees *)
  Fixpoint to_ht (st : ST) : HT :=
    match st with SN x => HL (nhash hempty hleaf x) | SB l r => HB (to_ht l) (to_ht r) end.
  Lemma hflat_to_ht : forall st d,
    map (fun e => (fst e, nhash hempty hleaf (snd e))) (flatten d st) = hflat d (to_ht st).
  Proof. induction st as [x|l IHl r IHr]; intros d; cbn [flatten to_ht hflat map]; auto. rewrite map_app, IHl, IHr. reflexivity. Qed.
  Lemma htot_to_ht : forall st, htot (to_ht st) = shash hempty hleaf hbranch st.
  Proof. induction st as [x|l IHl r IHr]; cbn; auto. rewrite IHl, IHr. reflexivity. Qed.

  Lemma fold_max_ge : forall l a, a <= fold_left Nat.max l a.
  Proof. induction l as [|x l IH]; intros a; cbn [fold_left]; [lia|]. specialize (IH (Nat.max a x)). lia. Qed.
  Lemma fold_max_mono : forall l a b, a <= b -> fold_left Nat.max l a <= fold_left Nat.max l b.
  Proof. induction l as [|x l IH]; intros a b Hab; cbn [fold_left]; [lia|]. apply IH. lia. Qed.
  Lemma fold_max_app : forall l1 l2 a, fold_left Nat.max (l1 ++ l2) a = fold_left Nat.max l2 (fold_left Nat.max l1 a).
  Proof. intros. apply fold_left_app. Qed.
  Lemma depth_le_max : forall (st : ST) d a, d + hdepth (to_ht st) <= fold_left Nat.max (map fst (flatten d st)) a.
  Proof.
    induction st as [x|l IHl r IHr]; intros d a; cbn [flatten to_ht hdepth map fold_left fst].
    - lia.
    - rewrite map_app, fold_max_app.
      pose proof (IHl (S d) a) as Hl. pose proof (IHr (S d) (fold_left Nat.max (map fst (flatten (S d) l)) a)) as Hr.
      pose proof (fold_max_ge (map fst (flatten (S d) r)) (fold_left Nat.max (map fst (flatten (S d) l)) a)). lia.
  Qed.

  Theorem tree_hasher_shash : forall st : ST,
    tree_hasher hempty hleaf hbranch (flatten 0 st) = Some (shash hempty hleaf hbranch st).
  Proof.
    intros st. unfold tree_hasher. rewrite hflat_to_ht. rewrite tree_hasher_at_ok; [rewrite htot_to_ht; reflexivity|].
    unfold max_depth. pose proof (depth_le_max st 0 0). lia.
  Qed.

  (* ================= calculateSubTree ================= *)
  Notation snode := (@snode V Hsh).
  Notation flat := (@flat V Hsh).
  Notation witem := (@witem V Hsh).
  (* work trees: real bottom nodes, temp nodes standing for a finished sub-tree, branches still to be visited *)
  Inductive WT := WL (x : snode) | WM (c : ST) | WB (l r : WT).
  Fixpoint wflat (d : nat) (t : WT) : list witem :=
    match t with WL x => [(d, Some x)] | WM c => [(d, None)] | WB l r => wflat (S d) l ++ wflat (S d) r end.
  Fixpoint temps (d : nat) (t : WT) : list flat :=
    match t with WL _ => [] | WM c => [flatten d c] | WB l r => temps (S d) l ++ temps (S d) r end.
  Fixpoint sem (t : WT) : ST := match t with WL x => SN x | WM c => c | WB l r => SB (sem l) (sem r) end.
  Fixpoint wdepth (t : WT) : nat := match t with WB l r => S (Nat.max (wdepth l) (wdepth r)) | _ => 0 end.
  (* every temp sits at absolute depth [height] and holds a normal, non-leaf sub-tree *)
  Fixpoint tinv (height d : nat) (t : WT) : Prop :=
    match t with
    | WL _ => True
    | WM c => d = height /\ norm c = c /\ (exists a b, c = SB a b)
    | WB l r => tinv height (S d) l /\ tinv height (S d) r
    end.
  Definition wpair (l r : WT) : WT :=
    match l, r with
    | WL NE, WL NE => WL NE
    | WL NE, WL (NL k v) => WL (NL k v)
    | WL (NL k v), WL NE => WL (NL k v)
    | _, _ => WM (SB (sem l) (sem r))
    end.
  Fixpoint wcontract (g : nat) (t : WT) {struct t} : WT :=
    match t with
    | WB l r => match g with O => t | S O => wpair l r | S g' => WB (wcontract g' l) (wcontract g' r) end
    | _ => t
    end.

  Lemma take_some : forall d (x : snode) (holder : list flat), take d (Some x) holder = Some ([(d, x)], holder).
  Proof. reflexivity. Qed.
  Lemma take_temp : forall d (H : list flat) (c : flat), take d None (H ++ [c]) = Some (c, H).
  Proof.
    intros d H c. unfold take. destruct (H ++ [c]) eqn:E1; [destruct H; discriminate|]. rewrite <- E1.
    rewrite last_last, removelast_last. reflexivity.
  Qed.

  Definition wleaf (t : WT) : Prop := match t with WB _ _ => False | _ => True end.
  Definition witem_of (d : nat) (t : WT) : witem := match t with WL x => (d, Some x) | _ => (d, None) end.
  Lemma take_leaf : forall d (t : WT) (H : list flat), wleaf t -> (forall c, t = WM c -> True) ->
    take d (snd (witem_of d t)) (H ++ rev (temps d t)) = Some (flatten d (sem t), H).
  Proof.
    intros d t H Hl _. destruct t as [x|c|]; [| |contradiction]; cbn [witem_of snd temps rev sem flatten app].
    - rewrite app_nil_r. reflexivity.
    - apply take_temp.
  Qed.

  Lemma row_pair : forall height (l r : WT) rest (N R : list flat) nx hd, 0 < height ->
    wleaf l -> wleaf r ->
    calc_row height rest (rev (temps (height - 1) (wpair l r)) ++ N ++ R) = Some (nx, hd) ->
    calc_row height (witem_of height l :: witem_of height r :: rest) (N ++ R ++ rev (temps height l ++ temps height r)) =
    Some (witem_of (height - 1) (wpair l r) :: nx, hd).
  Proof.
    intros height l r rest N R nx hd Hh Hl Hr Hrest.
    assert (Hgen : wpair l r = WM (SB (sem l) (sem r)) ->
              calc_row height rest (flatten (height - 1) (SB (sem l) (sem r)) :: N ++ R) = Some (nx, hd) ->
              match take height (snd (witem_of height l)) (N ++ R ++ rev (temps height l ++ temps height r)) with
              | None => None
              | Some (lf, h1) =>
                match take height (snd (witem_of height r)) h1 with
                | None => None
                | Some (rf, h2) =>
                  match calc_row height rest ((lf ++ rf) :: h2) with
                  | Some (nx0, hd0) => Some ((height - 1, None) :: nx0, hd0)
                  | None => None
                  end
                end
              end = Some ((height - 1, None) :: nx, hd)).
    { intros _ Hr2. rewrite rev_app_distr. rewrite !app_assoc.
      rewrite (take_leaf height l ((N ++ R) ++ rev (temps height r)) Hl (fun _ _ => I)). cbv iota beta.
      rewrite (take_leaf height r (N ++ R) Hr (fun _ _ => I)). cbv iota beta.
      cbn [flatten] in Hr2. replace (S (height - 1)) with height in Hr2 by lia. match goal with |- match ?X with _ => _ end = _ => replace X with (Some (nx, hd)) by (symmetry; exact Hr2) end.
      reflexivity. }
    destruct l as [xl|cl|]; [| |contradiction]; destruct r as [xr|cr|]; try contradiction.
    - destruct xl as [|kl vl|sl], xr as [|kr vr|sr]; cbn [witem_of calc_row]; rewrite Nat.eqb_refl; cbn [negb];
        cbn [wpair witem_of temps rev app sem] in *; try (rewrite ?app_nil_r in *; rewrite Hrest; reflexivity);
        try (apply (Hgen eq_refl); exact Hrest).
    - cbn [witem_of calc_row]. rewrite Nat.eqb_refl. cbn [negb]. cbn [wpair witem_of temps rev app sem] in *.
      destruct xl; apply (Hgen eq_refl); exact Hrest.
    - cbn [witem_of calc_row]. rewrite Nat.eqb_refl. cbn [negb]. cbn [wpair witem_of temps rev app sem] in *.
      apply (Hgen eq_refl). exact Hrest.
    - cbn [witem_of calc_row]. rewrite Nat.eqb_refl. cbn [negb]. cbn [wpair witem_of temps rev app sem] in *.
      apply (Hgen eq_refl). exact Hrest.
  Qed.

  Lemma wdepth0_leaf : forall t, wdepth t = 0 -> wleaf t.
  Proof. destruct t; cbn; auto. lia. Qed.
  Lemma wflat_leaf : forall d t, wleaf t -> wflat d t = [witem_of d t].
  Proof. intros d t Hl. destruct t; [reflexivity|reflexivity|contradiction]. Qed.
  Lemma wpair_leaf : forall l r, wleaf (wpair l r).
  Proof. intros l r. unfold wpair. destruct l as [[| |]| |]; try exact I; destruct r as [[| |]| |]; exact I. Qed.

  Lemma calc_row_app : forall t d height rest (H H' N R : list flat) nx hd,
    d < height -> d + wdepth t <= height -> tinv height d t ->
    H = N ++ R ++ rev (temps d t) -> H' = rev (temps d (wcontract (height - d) t)) ++ N ++ R ->
    calc_row height rest H' = Some (nx, hd) ->
    calc_row height (wflat d t ++ rest) H = Some (wflat d (wcontract (height - d) t) ++ nx, hd).
  Proof.
    induction t as [x|c|l IHl r IHr]; intros d height rest H H' N R nx hd Hd Hdep Hinv EH EH' Hrest.
    - cbn [wflat wcontract temps rev app] in *. rewrite app_nil_r in EH. subst H H'.
      cbn [calc_row]. assert (E1 : Nat.eqb d height = false) by (apply Nat.eqb_neq; lia). rewrite E1. cbn [negb].
      rewrite Hrest. reflexivity.
    - cbn [tinv] in Hinv. lia.
    - cbn [wdepth] in Hdep. cbn [tinv] in Hinv. destruct Hinv as [Hil Hir].
      cbn [wcontract] in *. destruct (height - d) as [|g] eqn:Eg; [lia|]. destruct g as [|g'].
      + assert (Hl : wleaf l) by (apply wdepth0_leaf; lia). assert (Hr : wleaf r) by (apply wdepth0_leaf; lia).
        assert (E1 : S d = height) by lia.
        cbn [wflat]. rewrite (wflat_leaf (S d) l Hl), (wflat_leaf (S d) r Hr), (wflat_leaf d _ (wpair_leaf l r)).
        cbn [app]. rewrite E1. replace d with (height - 1) by lia. subst H.
        cbn [temps]. rewrite E1.
        apply row_pair; auto; [lia|]. subst H'. replace (height - 1) with d by lia. exact Hrest.
      + cbn [wflat temps] in *. rewrite <- !app_assoc.
        assert (Hg : height - S d = S g') by lia. rewrite <- Hg.
        apply (IHl (S d) height _ H (rev (temps (S d) (wcontract (height - S d) l)) ++ N ++ (R ++ rev (temps (S d) r)))
                   N (R ++ rev (temps (S d) r))); try lia; auto.
        * subst H. rewrite rev_app_distr. rewrite <- !app_assoc. reflexivity.
        * apply (IHr (S d) height rest _ H' (rev (temps (S d) (wcontract (height - S d) l)) ++ N) R); try lia; auto.
          -- rewrite <- !app_assoc. reflexivity.
          -- subst H'. rewrite Hg. rewrite rev_app_distr. rewrite <- !app_assoc. reflexivity.
  Qed.

  Lemma norm_wpair : forall l r, wleaf l -> wleaf r -> norm (sem (wpair l r)) = norm (SB (sem l) (sem r)).
  Proof.
    intros l r Hl Hr. destruct l as [[| |]| |]; try contradiction; destruct r as [[| |]| |]; try contradiction; reflexivity.
  Qed.
  Lemma norm_sem_contract : forall t g, wdepth t <= g -> norm (sem (wcontract g t)) = norm (sem t).
  Proof.
    induction t as [x|c|l IHl r IHr]; intros g Hg; cbn [wcontract]; auto.
    cbn [wdepth] in Hg. destruct g as [|[|g']]; auto.
    - apply norm_wpair; apply wdepth0_leaf; lia.
    - cbn [sem norm]. rewrite IHl, IHr by lia. reflexivity.
  Qed.
  Lemma wdepth_contract : forall t g, wdepth t <= g -> 0 < g -> wdepth (wcontract g t) <= g - 1.
  Proof.
    induction t as [x|c|l IHl r IHr]; intros g Hd Hg; cbn [wcontract wdepth] in *; try lia.
    destruct g as [|[|g']]; try lia.
    - pose proof (wpair_leaf l r) as Hp. destruct (wpair l r); cbn in *; try lia; try contradiction.
    - cbn [wdepth]. specialize (IHl (S g')). specialize (IHr (S g')). lia.
  Qed.
  Lemma norm_leaf_inv : forall height d t, wleaf t -> tinv height d t ->
    norm (sem t) = sem t /\ ((exists x, t = WL x) \/ exists a b, sem t = SB a b).
  Proof.
    intros height d t Hl Hi. destruct t as [x|c|]; [| |contradiction]; cbn [sem tinv] in *.
    - split; [reflexivity|left; eauto].
    - destruct Hi as (_ & Hn & Hs). split; [exact Hn|right; exact Hs].
  Qed.
  Lemma tinv_wpair : forall height l r, 0 < height -> wleaf l -> wleaf r -> tinv height height l -> tinv height height r ->
    tinv (height - 1) (height - 1) (wpair l r).
  Proof.
    intros height l r Hh Hl Hr Hil Hir.
    destruct (norm_leaf_inv _ _ _ Hl Hil) as [Nl Sl]. destruct (norm_leaf_inv _ _ _ Hr Hir) as [Nr Sr].
    assert (Hgen : tinv (height - 1) (height - 1) (WM (SB (sem l) (sem r))) \/ True) by (right; exact I).
    assert (Hm : forall a b a' b', sem l = SB a b \/ sem r = SB a' b' -> norm (SB (sem l) (sem r)) = SB (sem l) (sem r)).
    { intros a b a' b' [E1|E1]; cbn [norm]; rewrite Nl, Nr, E1; [reflexivity|]. destruct (sem l) as [[| |]|]; reflexivity. }
    destruct l as [xl|cl|]; [| |contradiction]; destruct r as [xr|cr|]; try contradiction.
    - destruct xl, xr; cbn [wpair tinv sem]; auto; (split; [reflexivity|split; [reflexivity|eauto]]).
    - destruct Sr as [[x E1]|(a & b & E1)]; [discriminate|]. cbn [sem] in *.
      assert (Hw : wpair (WL xl) (WM cr) = WM (SB (SN xl) cr)) by (destruct xl; reflexivity).
      rewrite Hw. cbn [tinv]. split; [reflexivity|]. split; [|eauto].
      apply (Hm a b a b). right. exact E1.
    - destruct Sl as [[x E1]|(a & b & E1)]; [discriminate|]. cbn [sem] in *.
      cbn [wpair tinv]. split; [reflexivity|]. split; [|eauto]. apply (Hm a b a b). left. exact E1.
    - destruct Sl as [[x E1]|(a & b & E1)]; [discriminate|]. cbn [sem] in *.
      cbn [wpair tinv]. split; [reflexivity|]. split; [|eauto]. apply (Hm a b a b). left. exact E1.
  Qed.
  Lemma tinv_contract : forall t d height, d < height -> d + wdepth t <= height -> tinv height d t ->
    tinv (height - 1) d (wcontract (height - d) t).
  Proof.
    induction t as [x|c|l IHl r IHr]; intros d height Hd Hdep Hi; cbn [wcontract]; auto.
    - cbn [tinv] in Hi. lia.
    - cbn [wdepth] in Hdep. cbn [tinv] in Hi. destruct Hi as [Hil Hir].
      destruct (height - d) as [|g] eqn:Eg; [lia|]. destruct g as [|g'].
      + assert (E1 : S d = height) by lia. replace d with (height - 1) by lia. rewrite E1 in Hil, Hir.
        apply tinv_wpair; auto; try lia; apply wdepth0_leaf; lia.
      + cbn [tinv]. assert (Hg : height - S d = S g') by lia. rewrite <- Hg. split; [apply IHl|apply IHr]; auto; lia.
  Qed.

  Lemma calc_sub_ok : forall height' t, wdepth t <= S height' -> tinv (S height') 0 t ->
    calc_sub (S height') (wflat 0 t) (rev (temps 0 t)) = Some (flatten 0 (norm (sem t))).
  Proof.
    induction height' as [|h'' IH]; intros t Hd Hi.
    - pose proof (calc_row_app t 0 1 [] (rev (temps 0 t)) (rev (temps 0 (wcontract 1 t))) [] [] []
                   (rev (temps 0 (wcontract 1 t))) (Nat.lt_0_succ _) Hd Hi eq_refl) as Hrow.
      rewrite !app_nil_r in Hrow. specialize (Hrow eq_refl eq_refl). cbn [Nat.sub] in Hrow. cbn [calc_sub]. rewrite Hrow.
      pose proof (wdepth_contract t 1 Hd (Nat.lt_0_succ _)) as Hd'.
      pose proof (tinv_contract t 0 1 (Nat.lt_0_succ _) Hd Hi) as Hi'. cbn [Nat.sub] in Hi'.
      rewrite <- (norm_sem_contract t 1 Hd).
      destruct (wcontract 1 t) as [x|c|]; [| |cbn in Hd'; lia].
      + reflexivity.
      + cbn [tinv] in Hi'. destruct Hi' as (_ & Hn & _). cbn [wflat temps rev app sem]. rewrite Hn. reflexivity.
    - pose proof (calc_row_app t 0 (S (S h'')) [] (rev (temps 0 t)) (rev (temps 0 (wcontract (S (S h'')) t))) [] [] []
                   (rev (temps 0 (wcontract (S (S h'')) t))) (Nat.lt_0_succ _) Hd Hi eq_refl) as Hrow.
      rewrite !app_nil_r in Hrow. specialize (Hrow eq_refl eq_refl). cbn [Nat.sub] in Hrow.
      assert (Hunf : calc_sub (S (S h'')) (wflat 0 t) (rev (temps 0 t)) =
                     match calc_row (S (S h'')) (wflat 0 t) (rev (temps 0 t)) with
                     | None => None
                     | Some (nx, hd) => calc_sub (S h'') nx hd
                     end) by reflexivity.
      rewrite Hunf, Hrow. rewrite <- (norm_sem_contract t (S (S h'')) Hd).
      apply IH.
      + pose proof (wdepth_contract t (S (S h'')) Hd (Nat.lt_0_succ _)). lia.
      + pose proof (tinv_contract t 0 (S (S h'')) (Nat.lt_0_succ _) Hd Hi) as Hi'. cbn [Nat.sub] in Hi'. exact Hi'.
  Qed.

  Fixpoint inj (st : ST) : WT := match st with SN x => WL x | SB l r => WB (inj l) (inj r) end.
  Lemma inj_facts : forall st d height,
    map (fun e => (fst e, Some (snd e))) (flatten d st) = wflat d (inj st) /\ temps d (inj st) = [] /\ sem (inj st) = st /\
    tinv height d (inj st) /\ wdepth (inj st) = hdepth (to_ht st).
  Proof.
    induction st as [x|l IHl r IHr]; intros d height; cbn [flatten inj wflat temps sem tinv wdepth to_ht hdepth map].
    - repeat split; reflexivity.
    - destruct (IHl (S d) height) as (A1 & A2 & A3 & A4 & A5). destruct (IHr (S d) height) as (B1 & B2 & B3 & B4 & B5).
      rewrite map_app, A1, B1, A2, B2, A3, B3, A5, B5. repeat split; auto.
  Qed.

  (* calculateSubTree on the flat lists = bottom-up collapsing of the tree reading *)
  Theorem calc_subtree_norm : forall raw : ST, calc_subtree (flatten 0 raw) = Some (flatten 0 (norm raw)).
  Proof.
    intros raw. unfold calc_subtree.
    pose proof (depth_le_max raw 0 0) as Hmax. fold (max_depth (flatten 0 raw)) in Hmax.
    destruct (inj_facts raw 0 (max_depth (flatten 0 raw))) as (E1 & E2 & E3 & Hi & E5).
    rewrite E1. rewrite <- E5 in Hmax.
    destruct (max_depth (flatten 0 raw)) as [|height'] eqn:Em.
    - destruct raw as [x|l r]; [reflexivity|cbn in Hmax; lia].
    - pose proof (calc_sub_ok height' (inj raw)) as Hok. rewrite E2, E3 in Hok. apply Hok; auto; lia.
  Qed.
End FP.

(* ================= the flat variant of the model is the model ================= *)
From LE Require Import SMT.LayeredProofs.
Section FlatEq.
  Context {V Hsh : Type}.
  Variable hempty : Hsh.
  Variable hleaf : key -> V -> Hsh.
  Variable hbranch : Hsh -> Hsh -> Hsh.
  Variable heqb : Hsh -> Hsh -> bool.
  Variable h : nat.
  Notation ST := (@ST V Hsh).
  Notation snode := (@snode V Hsh).
  Notation store := (@store V Hsh).
  Notation op := (@op V).

  Lemma parse_depth : forall fuel d (l : @flat V Hsh) st rest, parse fuel d l = Some (st, rest) -> sdepth st < fuel.
  Proof.
    induction fuel as [|f IH]; intros d l st rest Hp; cbn [parse] in Hp; [discriminate|].
    destruct l as [|[d' x] l']; [discriminate|]. destruct (Nat.eqb d' d).
    - inversion Hp; subst. cbn. lia.
    - destruct (parse f (S d) ((d', x) :: l')) as [[a r1]|] eqn:Ea; [|discriminate].
      destruct (parse f (S d) r1) as [[b r2]|] eqn:Eb; [|discriminate]. inversion Hp; subst.
      apply IH in Ea. apply IH in Eb. cbn [sdepth]. lia.
  Qed.
  Lemma get_subtree_depth : forall (s : store) r st, get_subtree hempty heqb h s r = Some st -> sdepth st <= h.
  Proof.
    intros s r st Hg. unfold get_subtree in Hg. destruct (heqb r hempty); [inversion Hg; cbn; lia|].
    destruct (sget heqb r s) as [c|]; [|discriminate]. unfold decode in Hg.
    destruct (parse (S h) 0 c) as [[st' rest]|] eqn:Ep; [|discriminate]. destruct rest; [|discriminate].
    inversion Hg; subst. apply parse_depth in Ep. lia.
  Qed.
  Lemma scollapse_depth : forall l r : ST, sdepth (scollapse l r) <= S (Nat.max (sdepth l) (sdepth r)).
  Proof.
    intros l r. destruct l as [[| |]|]; destruct r as [[| |]|]; cbn [scollapse sdepth]; lia.
  Qed.
  Lemma norm_depth : forall st : ST, sdepth (norm st) <= sdepth st.
  Proof.
    induction st as [x|l IHl r IHr]; cbn [norm sdepth]; [lia|].
    pose proof (scollapse_depth (norm l) (norm r)). lia.
  Qed.

  Lemma upd_ext : forall (d1 d2 : store -> nat -> snode -> list op -> option (store * snode)),
    (forall s i x ops, d1 s i x ops = d2 s i x ops) ->
    forall g i st ops s, upd d1 g i st ops s = upd d2 g i st ops s.
  Proof.
    intros d1 d2 Hd. induction g as [|g' IH]; intros i st ops s; destruct ops as [|o ops']; try reflexivity.
    - destruct st as [x|l r]; cbn [upd]; [|reflexivity]. destruct (direct x (o :: ops')); [reflexivity|]. rewrite Hd. reflexivity.
    - destruct st as [x|l r]; cbn [upd].
      + destruct (direct x (o :: ops')); [reflexivity|]. destruct (place i x) as [[xl xr]|]; [|reflexivity].
        rewrite IH. destruct (upd d2 g' (S i) (SN xl) (opsb false i (o :: ops')) s) as [[s1 l']|]; [|reflexivity].
        rewrite IH. reflexivity.
      + rewrite IH. destruct (upd d2 g' (S i) l (opsb false i (o :: ops')) s) as [[s1 l']|]; [|reflexivity].
        rewrite IH. reflexivity.
  Qed.
  Lemma upd_depth : forall (d : store -> nat -> snode -> list op -> option (store * snode)) g i st ops s s' raw,
    sdepth st <= g -> upd d g i st ops s = Some (s', raw) -> sdepth raw <= g.
  Proof.
    intros d. induction g as [|g' IH]; intros i st ops s s' raw Hd Hu; destruct ops as [|o ops'].
    - cbn in Hu. inversion Hu; subst. exact Hd.
    - destruct st as [x|l r]; cbn [upd] in Hu; [|discriminate].
      destruct (direct x (o :: ops')); [inversion Hu; cbn; lia|].
      destruct (d s i x (o :: ops')) as [[s1 x']|]; [|discriminate]. inversion Hu; cbn; lia.
    - cbn in Hu. inversion Hu; subst. exact Hd.
    - assert (Hboth : forall l r, sdepth l <= g' -> sdepth r <= g' ->
                match upd d g' (S i) l (opsb false i (o :: ops')) s with
                | None => None
                | Some (s1, l') => match upd d g' (S i) r (opsb true i (o :: ops')) s1 with
                                   | None => None | Some (s2, r') => Some (s2, SB l' r') end
                end = Some (s', raw) -> sdepth raw <= S g').
      { intros l r Hl Hr Hb. destruct (upd d g' (S i) l (opsb false i (o :: ops')) s) as [[s1 l']|] eqn:E1; [|discriminate].
        destruct (upd d g' (S i) r (opsb true i (o :: ops')) s1) as [[s2 r']|] eqn:E2; [|discriminate].
        inversion Hb; subst. apply IH in E1; auto. apply IH in E2; auto. cbn [sdepth]. lia. }
      destruct st as [x|l r]; cbn [upd] in Hu.
      + destruct (direct x (o :: ops')); [inversion Hu; cbn; lia|].
        destruct (place i x) as [[xl xr]|]; [|discriminate]. apply (Hboth (SN xl) (SN xr)); cbn; auto; lia.
      + cbn [sdepth] in Hd. apply (Hboth l r); auto; lia.
  Qed.

  Lemma descend_with_ext : forall (sub1 sub2 : store -> nat -> ST -> list op -> option (store * ST)),
    (forall s i cur ops, sdepth cur <= h -> sub1 s i cur ops = sub2 s i cur ops) ->
    forall s i x ops, descend_with hempty hleaf hbranch heqb h sub1 s i x ops =
                      descend_with hempty hleaf hbranch heqb h sub2 s i x ops.
  Proof.
    intros sub1 sub2 Hsub s i x ops. unfold descend_with. destruct x as [|k v|r].
    - rewrite Hsub by (cbn; lia). reflexivity.
    - rewrite Hsub by (cbn; lia). reflexivity.
    - destruct (get_subtree hempty heqb h s r) as [lower|] eqn:Eg; [|reflexivity].
      rewrite Hsub by (eapply get_subtree_depth; eauto). reflexivity.
  Qed.

  Theorem upd_sub_flat_eq : forall lv (s : store) i cur ops, sdepth cur <= h ->
    upd_sub_flat hempty hleaf hbranch heqb h lv s i cur ops = upd_sub hempty hleaf hbranch heqb h lv s i cur ops.
  Proof.
    induction lv as [|lv' IH]; intros s i cur ops Hd; destruct ops as [|o ops']; try reflexivity.
    cbn [upd_sub_flat upd_sub].
    rewrite (upd_ext _ _ (descend_with_ext _ _ IH)).
    destruct (upd (descend_with hempty hleaf hbranch heqb h (upd_sub hempty hleaf hbranch heqb h lv')) h i cur (o :: ops') s)
      as [[s1 raw]|] eqn:Eu; [|reflexivity].
    apply upd_depth in Eu; auto.
    rewrite (calc_subtree_norm hempty hleaf raw). rewrite tree_hasher_shash.
    unfold decode. rewrite <- (app_nil_r (flatten 0 (norm raw))).
    rewrite (parse_flatten 1 Nat.lt_0_1); [reflexivity|]. pose proof (norm_depth raw). lia.
  Qed.

  (* trie.Update with the flat calculateSubTree / treeHasher loops IS the layered model, on every store and batch *)
  Theorem layered_update_flat_eq : forall lv sr ops,
    layered_update_flat hempty hleaf hbranch heqb h lv sr ops = layered_update hempty hleaf hbranch heqb h lv sr ops.
  Proof.
    intros lv [s root] ops. destruct ops as [|o ops']; [reflexivity|].
    unfold layered_update_flat, layered_update, layered_open. cbn [fst snd].
    destruct (get_subtree hempty heqb h s root) as [cur|] eqn:Eg; [|reflexivity].
    rewrite upd_sub_flat_eq by (eapply get_subtree_depth; eauto).
    destruct (upd_sub hempty hleaf hbranch heqb h lv s 0 cur (dedupe [] (o :: ops'))) as [[s' new]|]; [|reflexivity].
    rewrite tree_hasher_shash. reflexivity.
  Qed.
End FlatEq.
