(* C10 — FLAT transcriptions of utils.go calculateSubTree (level by level from the deepest row, temp nodes + temp
   holder queue) and hasher.go treeHasher on the (structure, nodes) lists, and a variant [layered_update_flat] of the
   layered model that uses them instead of the tree-recursive [norm] / [shash] of SMT/Layered.v.
   STATUS: proved (SMT/LayeredFlatProofs.v): [calc_subtree (flatten 0 raw) = Some (flatten 0 (norm raw))] and
   [tree_hasher (flatten 0 st) = Some (shash st)] for every sub-tree, and [layered_update_flat = layered_update] on every
   store, root and batch (so the correspondence runs evaluate the tree variant only). *)
From Coq Require Import List Bool Arith.
From LE Require Import SMT.Spec SMT.Tree SMT.Layered.
Import ListNotations.

Section Flat.
  Context {V Hsh : Type}.
  Variable hempty : Hsh.
  Variable hleaf : key -> V -> Hsh.
  Variable hbranch : Hsh -> Hsh -> Hsh.
  Variable heqb : Hsh -> Hsh -> bool.
  Variable h : nat.
  Notation snode := (@snode V Hsh).
  Notation flat := (@flat V Hsh).
  Notation ST := (@ST V Hsh).
  Notation store := (@store V Hsh).

  (* work item: depth, node (None = nodeKindTemp) *)
  Definition witem : Type := (nat * option snode)%type.
  Definition take (d : nat) (x : option snode) (holder : list flat) : option (flat * list flat) :=
    match x with
    | Some y => Some ([(d, y)], holder)
    | None => match holder with [] => None | _ => Some (last holder [], removelast holder) end
    end.
  (* one pass of the for loop of calculateSubTree at [height] *)
  Fixpoint calc_row (height : nat) (l : list witem) (holder : list flat) : option (list witem * list flat) :=
    match l with
    | [] => Some ([], holder)
    | (d, x) :: rest =>
      if negb (Nat.eqb d height)
      then match calc_row height rest holder with Some (nx, hd) => Some ((d, x) :: nx, hd) | None => None end
      else match rest with
           | [] => None
           | (d2, y) :: rest' =>
             let step (parent : option snode) (holder1 : list flat) :=
               match calc_row height rest' holder1 with
               | Some (nx, hd) => Some ((d - 1, parent) :: nx, hd)
               | None => None
               end in
             match x, y with
             | Some NE, Some NE => step x holder
             | Some NE, Some (NL _ _) => step y holder
             | Some (NL _ _), Some NE => step x holder
             | _, _ =>
               match take d x holder with
               | None => None
               | Some (lf, h1) =>
                 match take d2 y h1 with
                 | None => None
                 | Some (rf, h2) => step None ((lf ++ rf) :: h2)
                 end
               end
             end
           end
    end.
  Definition single (l : list witem) : option flat :=
    match l with [(_, Some x)] => Some [(0, x)] | _ => None end.
  Fixpoint calc_sub (height : nat) (l : list witem) (holder : list flat) : option flat :=
    match height with
    | O => single l
    | S height' =>
      match calc_row height l holder with
      | None => None
      | Some (nx, hd) =>
        match height' with
        | O => match nx with
               | (_, None) :: _ => match hd with c :: _ => Some c | [] => None end
               | _ => single nx
               end
        | S _ => calc_sub height' nx hd
        end
      end
    end.
  Definition max_depth (c : flat) : nat := fold_left Nat.max (map fst c) 0.
  Definition calc_subtree (c : flat) : option flat :=
    calc_sub (max_depth c) (map (fun e => (fst e, Some (snd e))) c) [].

  (* hasher.go treeHasher *)
  Fixpoint hash_row (height : nat) (l : list (nat * Hsh)) : option (list (nat * Hsh)) :=
    match l with
    | [] => Some []
    | (d, x) :: rest =>
      if negb (Nat.eqb d height)
      then match hash_row height rest with Some nx => Some ((d, x) :: nx) | None => None end
      else match rest with
           | [] => None
           | (_, y) :: rest' => match hash_row height rest' with Some nx => Some ((d - 1, hbranch x y) :: nx) | None => None end
           end
    end.
  Fixpoint tree_hasher_at (height : nat) (l : list (nat * Hsh)) : option Hsh :=
    match l with
    | [(_, x)] => Some x
    | _ =>
      match height with
      | O => None
      | S height' =>
        match hash_row height l with
        | None => None
        | Some nx => match height' with
                     | O => match nx with (_, x) :: _ => Some x | [] => None end
                     | S _ => tree_hasher_at height' nx
                     end
        end
      end
    end.
  Definition tree_hasher (c : flat) : option Hsh :=
    tree_hasher_at (max_depth c) (map (fun e => (fst e, nhash hempty hleaf (snd e))) c).

  (* updateSubtree / Update with the flat algorithms *)
  Fixpoint upd_sub_flat (lv : nat) (s : store) (i : nat) (cur : ST) (ops : list (@op V)) : option (store * ST) :=
    match ops with
    | [] => Some (s, cur)
    | _ =>
      match lv with
      | O => None
      | S lv' =>
        match upd (descend_with hempty hleaf hbranch heqb h (upd_sub_flat lv')) h i cur ops s with
        | None => None
        | Some (s1, raw) =>
          match calc_subtree (flatten 0 raw) with
          | None => None
          | Some c =>
            match tree_hasher c, decode h c with
            | Some r, Some new => Some (sset heqb r c s1, new)
            | _, _ => None
            end
          end
        end
      end
    end.
  Definition layered_update_flat (lv : nat) (sr : store * Hsh) (ops : list (@op V)) : option (store * Hsh) :=
    match ops with
    | [] => Some sr
    | _ =>
      match layered_open hempty heqb h (fst sr) (snd sr) with
      | None => None
      | Some cur =>
        match upd_sub_flat lv (fst sr) 0 cur (dedupe [] ops) with
        | None => None
        | Some (s', new) => match tree_hasher (flatten 0 new) with Some r => Some (s', r) | None => None end
        end
      end
    end.
End Flat.
