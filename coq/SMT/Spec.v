(* C10 — sparse Merkle trie, LIP-0039 root of a key->value map.  Keys are bit lists of length n = 8*keyLength
   (most significant bit of byte 0 first, as bytes.ToBools); the map is an association list with distinct keys.
   root(empty) = emptyHash; root({(k,v)}) = leafHash(k,v) = H(0x00 ++ k ++ v);
   otherwise branchHash(root(keys with next bit 0), root(keys with next bit 1)) = H(0x01 ++ l ++ r).
   The hash enters as three abstract functions. *)
From Coq Require Import List Bool.
Import ListNotations.

Definition key := list bool.
Definition bit (i : nat) (k : key) : bool := nth i k false.
Definition key_eqb (a b : key) : bool := if list_eq_dec Bool.bool_dec a b then true else false.

Section Spec.
  Context {V Hsh : Type}.
  Variable hempty : Hsh.
  Variable hleaf : key -> V -> Hsh.
  Variable hbranch : Hsh -> Hsh -> Hsh.

  Definition side (b : bool) (i : nat) (m : list (key * V)) := filter (fun kv => Bool.eqb (bit i (fst kv)) b) m.
  (* d = levels left, i = current bit position *)
  Fixpoint root_at (d i : nat) (m : list (key * V)) : Hsh :=
    match m with
    | [] => hempty
    | [(k, v)] => hleaf k v
    | _ => match d with
           | O => hempty                      (* unreachable for distinct keys of length i+d *)
           | S d' => hbranch (root_at d' (S i) (side false i m)) (root_at d' (S i) (side true i m))
           end
    end.
  Definition smt_root (n : nat) (m : list (key * V)) : Hsh := root_at n 0 m.

  (* map-level updates: association list with distinct keys *)
  Definition others (k : key) (m : list (key * V)) := filter (fun kv => negb (key_eqb k (fst kv))) m.
  Definition mins (k : key) (v : V) (m : list (key * V)) := (k, v) :: others k m.
  Definition mdel (k : key) (m : list (key * V)) := others k m.
  Fixpoint mget (k : key) (m : list (key * V)) : option V :=
    match m with [] => None | (k', v) :: t => if key_eqb k k' then Some v else mget k t end.

  (* one batch entry: Some v = set, None = empty value = delete *)
  Definition op := (key * option V)%type.
  Definition map_apply (m : list (key * V)) (o : op) :=
    match snd o with Some v => mins (fst o) v m | None => mdel (fst o) m end.
  (* trie.Update de-duplicates the batch: the FIRST occurrence of a key wins *)
  Fixpoint dedupe (seen : list key) (ops : list op) : list op :=
    match ops with
    | [] => []
    | o :: t => if existsb (key_eqb (fst o)) seen then dedupe seen t else o :: dedupe (fst o :: seen) t
    end.
  Definition map_batch (m : list (key * V)) (ops : list op) := fold_left map_apply (dedupe [] ops) m.
End Spec.
