(* C10 — soundness of smt.CalculateRoot / smt.Verify for ANY number of queries (faithful model SMT/Verify.v, as repaired):
   if the recomputed root equals the hash of a trie t then EVERY query of the proof ends at a real node of t: the
   sub-tree of t at the path given by the first [height] bits of the query key exists and its hash is the query's
   claimed hash (leaf hash of (key, value), or the empty hash).
   Method: frontier invariant over the work list (if all queries still in the list are true then all original ones
   are), preserved backwards by every step through the injectivity of the branch hash; the list is kept sorted by height
   and free of conflicting duplicates, so when a query reaches height 0 every remaining one is the same root node. *)
From Coq Require Import List Bool Arith Lia NArith.
From LE Require Import SMT.Spec SMT.Tree SMT.TreeProofs SMT.Verify SMT.PathProofs.
Import ListNotations.

Lemma bools_eqb_eq : forall a b, bools_eqb a b = true -> a = b.
Proof.
  induction a as [|x a IH]; intros [|y b] H; cbn in H; try discriminate; auto.
  apply andb_true_iff in H. destruct H as [H1 H2]. apply eqb_prop in H1. subst. f_equal. auto.
Qed.
Lemma bools_eqb_refl : forall a, bools_eqb a a = true.
Proof. induction a; cbn; auto. rewrite eqb_reflx. exact IHa. Qed.

Section Multi.
  Context {V Hsh : Type}.
  Variable hempty : Hsh.
  Variable hleaf : key -> V -> Hsh.             (* leaf hash of the reference trie *)
  Variable hleafb : list N -> list N -> Hsh.     (* leaf hash on wire keys/values *)
  Variable hbranch : Hsh -> Hsh -> Hsh.
  Variable heqb : Hsh -> Hsh -> bool.
  Variable hnull : Hsh -> bool.
  Hypothesis heqb_eq : forall a b, heqb a b = true -> a = b.
  Hypothesis branch_inj : forall a b c d, hbranch a b = hbranch c d -> a = c /\ b = d.
  Hypothesis leaf_not_branch : forall k v a b, hleaf k v <> hbranch a b.
  Hypothesis branch_not_empty : forall a b, hbranch a b <> hempty.
  Notation T := (@T V).
  Notation hash := (hash hempty hleaf hbranch).
  Notation wq := (@wq Hsh).
  Variable t : T.

  Definition wfq (w : wq) : Prop := height w <= length (bkey w).
  (* the query is true: its node exists in t and has the claimed hash *)
  Definition etrue (w : wq) : Prop := exists nd, subtree_at t (bpath w) = Some nd /\ hash nd = w_hash w.

  Fixpoint hsorted (l : list wq) : Prop :=
    match l with [] => True | a :: r => (forall z, In z r -> height z <= height a) /\ hsorted r end.
  Definition cons (l : list wq) : Prop :=
    forall a b, In a l -> In b l -> same_node a b = true -> w_hash a = w_hash b.

  Lemma before_height : forall a b : wq, wq_before a b = true -> height b <= height a.
  Proof.
    intros a b H. unfold wq_before in H. apply orb_true_iff in H. destruct H as [H|H].
    - apply andb_true_iff in H. destruct H as [H _]. apply Nat.eqb_eq in H. lia.
    - apply Nat.ltb_lt in H. lia.
  Qed.
  Lemma not_before_height : forall a b : wq, wq_before a b = false -> height a <= height b.
  Proof.
    intros a b H. unfold wq_before in H. apply orb_false_iff in H. destruct H as [_ H]. apply Nat.ltb_ge in H. lia.
  Qed.

  Lemma in_sort_ins : forall (x : wq) l z, In z (sort_ins x l) <-> z = x \/ In z l.
  Proof.
    induction l as [|y r IH]; intros z; cbn [sort_ins]; [cbn; intuition|].
    destruct (wq_before y x); cbn [In]; [rewrite IH|]; intuition.
  Qed.
  Lemma in_sort_wq : forall l (z : wq), In z (sort_wq l) <-> In z l.
  Proof. induction l; intros z; cbn [sort_wq fold_right]; [tauto|]. fold (sort_wq l). rewrite in_sort_ins, IHl. cbn. intuition. Qed.
  Lemma sort_ins_hsorted : forall (x : wq) l, hsorted l -> hsorted (sort_ins x l).
  Proof.
    induction l as [|y r IH]; intros Hs; cbn [sort_ins]; [split; [intros z []|exact I]|].
    destruct Hs as [Hy Hr]. destruct (wq_before y x) eqn:E.
    - cbn [hsorted]. split; [|apply IH; exact Hr]. intros z Hz. apply in_sort_ins in Hz.
      destruct Hz as [->|Hz]; [apply before_height; exact E|auto].
    - cbn [hsorted]. split; [|split; assumption]. pose proof (not_before_height _ _ E).
      intros z [<-|Hz]; [lia|]. pose proof (Hy z Hz). lia.
  Qed.
  Lemma sort_wq_hsorted : forall l, hsorted (sort_wq l).
  Proof. induction l; cbn [sort_wq fold_right]; [exact I|]. apply sort_ins_hsorted. exact IHl. Qed.

  Lemma in_insert_filter : forall (x : wq) l z, In z (insert_filter x l) -> z = x \/ In z l.
  Proof.
    induction l as [|y r IH]; intros z Hz; cbn [insert_filter] in Hz; [destruct Hz as [<-|[]]; left; reflexivity|].
    destruct (wq_before x y).
    - destruct (bools_eqb (bpath x) (bpath y)); [right; exact Hz|]. destruct Hz as [<-|Hz]; [left; reflexivity|right; exact Hz].
    - destruct Hz as [<-|Hz]; [right; left; reflexivity|]. destruct (IH z Hz); [left|right; right]; assumption.
  Qed.
  Lemma insert_filter_keeps : forall (x : wq) l z, In z l -> In z (insert_filter x l).
  Proof.
    induction l as [|y r IH]; intros z Hz; cbn [insert_filter]; [destruct Hz|].
    destruct (wq_before x y).
    - destruct (bools_eqb (bpath x) (bpath y)); [exact Hz|right; exact Hz].
    - destruct Hz as [<-|Hz]; [left; reflexivity|right; apply IH; exact Hz].
  Qed.
  Lemma bpath_length : forall w : wq, wfq w -> length (bpath w) = height w.
  Proof. intros w H. unfold bpath. rewrite firstn_length. unfold wfq in H. lia. Qed.
  Lemma insert_filter_adds : forall (x : wq) l, wfq x -> (forall o, In o l -> wfq o) ->
    (forall o, In o l -> same_node x o = false) -> In x (insert_filter x l).
  Proof.
    induction l as [|y r IH]; intros Hx Hl Hd; cbn [insert_filter]; [left; reflexivity|].
    destruct (wq_before x y) eqn:E.
    - destruct (bools_eqb (bpath x) (bpath y)) eqn:Eb; [|left; reflexivity]. exfalso.
      pose proof (Hd y (or_introl eq_refl)) as Hn. unfold same_node in Hn. rewrite Eb, andb_true_r in Hn.
      apply bools_eqb_eq in Eb. apply Nat.eqb_neq in Hn. apply Hn.
      rewrite <- (bpath_length x Hx), <- (bpath_length y (Hl y (or_introl eq_refl))), Eb. reflexivity.
    - right. apply IH; auto. intros o Ho. apply Hl. right. exact Ho. intros o Ho. apply Hd. right. exact Ho.
  Qed.
  Lemma insert_filter_hsorted : forall (x : wq) l, hsorted l -> hsorted (insert_filter x l).
  Proof.
    induction l as [|y r IH]; intros Hs; cbn [insert_filter]; [split; [intros z []|exact I]|].
    destruct Hs as [Hy Hr]. destruct (wq_before x y) eqn:E.
    - destruct (bools_eqb (bpath x) (bpath y)); [split; assumption|].
      cbn [hsorted]. split; [|split; assumption]. pose proof (before_height _ _ E).
      intros z [<-|Hz]; [lia|]. pose proof (Hy z Hz). lia.
    - cbn [hsorted]. split; [|apply IH; exact Hr]. intros z Hz. apply in_insert_filter in Hz.
      destruct Hz as [->|Hz]; [apply not_before_height; exact E|auto].
  Qed.

  Lemma hash_branch_inv' : forall (nd : T) a b, hash nd = hbranch a b -> exists l r, nd = B l r /\ hash l = a /\ hash r = b.
  Proof.
    intros [|k v|l r] a b H; cbn [Tree.hash] in H.
    - symmetry in H. apply branch_not_empty in H. contradiction.
    - apply leaf_not_branch in H. contradiction.
    - apply branch_inj in H. exists l, r. tauto.
  Qed.

  (* parent true -> child true *)
  Lemma child_true : forall (kb : list N) (bm' : list bool) (h' x y : Hsh) (b0 : bool),
    let q' := W kb bm' h' in
    S (length bm') <= length (to_bools kb) ->
    etrue q' -> h' = hbranch x y ->
    forall (dirbit : bool) (hc : Hsh), dirbit = nth (length bm') (to_bools kb) false ->
      hc = (if dirbit then y else x) ->
      etrue (W kb (b0 :: bm') hc).
  Proof.
    intros kb bm' h' x y b0 q' Hlen (nd & Hs & Hh) -> dirbit hc -> ->. subst q'.
    unfold etrue, bpath, height, bkey in *. cbn [w_bm w_key w_hash length] in *.
    destruct (hash_branch_inv' _ _ _ Hh) as (l & r & -> & Hl & Hr).
    rewrite (firstn_snoc_nth (length bm') (to_bools kb)) by lia. rewrite subtree_at_snoc, Hs.
    destruct (nth (length bm') (to_bools kb) false); eexists; split; eauto.
  Qed.

  Variable P : Prop.
  Definition Inv (ws : list wq) : Prop :=
    hsorted ws /\ (forall w, In w ws -> wfq w) /\ cons ws /\ ((forall w, In w ws -> etrue w) -> P).

  Lemma same_node_true : forall a b : wq, same_node a b = true -> bpath a = bpath b.
  Proof. intros a b H. unfold same_node in H. apply andb_true_iff in H. destruct H as [_ H]. apply bools_eqb_eq. exact H. Qed.

  Lemma calc_root_sound : forall fuel sibs ws r, Inv ws ->
    calc_root hempty hbranch heqb hnull fuel sibs ws = Some r -> r = hash t -> P.
  Proof.
    induction fuel; intros sibs ws r HI Hrun Hr; [discriminate|]. cbn [calc_root] in Hrun.
    destruct ws as [|q rest]; [discriminate|].
    destruct HI as ([HsQ Hsr] & Hwf & Hcons & I2).
    destruct (w_bm q) as [|b0 bm'] eqn:Ebm.
    - (* height 0: the root *)
      inversion Hrun as [Hq]. apply I2. intros w Hw.
      assert (Hq0 : height q = 0) by (unfold height; rewrite Ebm; reflexivity).
      assert (Hw0 : height w = 0).
      { destruct Hw as [<-|Hw]; [exact Hq0|]. pose proof (HsQ w Hw). lia. }
      assert (Hsame : same_node q w = true).
      { unfold same_node, bpath. rewrite Hq0, Hw0. reflexivity. }
      exists t. unfold bpath. rewrite Hw0. cbn [firstn subtree_at]. split; [reflexivity|].
      rewrite <- (Hcons q w (or_introl eq_refl) Hw Hsame). congruence.
    - assert (Hqw : wfq q) by (apply Hwf; left; reflexivity).
      assert (Hlenq : S (length bm') <= length (to_bools (w_key q))).
      { unfold wfq, height, bkey in Hqw. rewrite Ebm in Hqw. exact Hqw. }
      assert (Hqform : q = W (w_key q) (b0 :: bm') (w_hash q)) by (destruct q; cbn in *; subst; reflexivity).
      (* the generic continuation: parent q' computed from (q, sh); rest1 = remaining list; [extra] = queries merged away *)
      pose (mkh := fun sh : Hsh => if nth (height q - 1) (bkey q) false then hbranch sh (w_hash q) else hbranch (w_hash q) sh).
      pose (mkq := fun sh : Hsh => W (w_key q) bm' (mkh sh)).
      assert (Hcont : forall sh rest1 sibs1 (extra : list wq),
                (forall w, In w rest1 -> In w rest) -> hsorted rest1 ->
                (etrue (mkq sh) -> forall w, In w extra -> etrue w) ->
                (forall w, In w rest -> In w rest1 \/ In w extra) ->
                match find (same_node (mkq sh)) rest1 with
                | Some o => if heqb (w_hash o) (mkh sh) then calc_root hempty hbranch heqb hnull fuel sibs1 rest1 else None
                | None => calc_root hempty hbranch heqb hnull fuel sibs1 (insert_filter (mkq sh) rest1)
                end = Some r -> P).
      { intros sh rest1 sibs1 extra Hsub Hs1 Hextra Hcover Hrun'.
        unfold mkq, mkh in *. set (dir := nth (height q - 1) (bkey q) false) in *.
        set (h' := if dir then hbranch sh (w_hash q) else hbranch (w_hash q) sh) in *. set (q' := W (w_key q) bm' h') in *.
        assert (Hdir : dir = nth (length bm') (to_bools (w_key q)) false).
        { unfold dir, height, bkey. rewrite Ebm. cbn [length]. f_equal. lia. }
        assert (Hq'wf : wfq q') by (unfold wfq, height, bkey, q'; cbn [w_bm w_key]; lia).
        assert (Hqtrue : etrue q' -> etrue q).
        { intros Ht. rewrite Hqform.
          destruct dir eqn:Ed.
          - eapply (child_true (w_key q) bm' h' sh (w_hash q) b0 Hlenq Ht eq_refl true); [rewrite <- Hdir; reflexivity|reflexivity].
          - eapply (child_true (w_key q) bm' h' (w_hash q) sh b0 Hlenq Ht eq_refl false); [rewrite <- Hdir; reflexivity|reflexivity]. }
        assert (Hold : etrue q' -> (forall w, In w rest1 -> etrue w) -> forall w, In w (q :: rest) -> etrue w).
        { intros Ht Hr1 w [<-|Hw]; [apply Hqtrue; exact Ht|]. destruct (Hcover w Hw) as [?|?]; [apply Hr1; assumption|apply Hextra; assumption]. }
        destruct (find (same_node q') rest1) as [o|] eqn:Ef.
        - destruct (heqb (w_hash o) h') eqn:Eh; [|discriminate]. apply heqb_eq in Eh.
          apply find_some in Ef. destruct Ef as [Ho Hso].
          eapply (IHfuel sibs1 rest1 r); [|exact Hrun'|exact Hr].
          split; [exact Hs1|]. split; [intros w Hw; apply Hwf; right; apply Hsub; exact Hw|]. split.
          + intros a b Ha Hb. apply Hcons; right; apply Hsub; assumption.
          + intros Fr. apply I2. apply Hold; [|exact Fr].
            destruct (Fr o Ho) as (nd & Hsn & Hhn). exists nd. rewrite (same_node_true _ _ Hso). split; [exact Hsn|]. cbn [w_hash q']. congruence.
        - assert (Hnone : forall o, In o rest1 -> same_node q' o = false).
          { intros o Ho. destruct (same_node q' o) eqn:E; [|reflexivity]. exfalso. eapply find_none in Ef; [|exact Ho]. congruence. }
          eapply (IHfuel sibs1 (insert_filter q' rest1) r); [|exact Hrun'|exact Hr].
          split; [apply insert_filter_hsorted; exact Hs1|]. split; [|split].
          + intros w Hw. apply in_insert_filter in Hw. destruct Hw as [->|Hw]; [exact Hq'wf|apply Hwf; right; apply Hsub; exact Hw].
          + intros a b Ha Hb Hsn. apply in_insert_filter in Ha. apply in_insert_filter in Hb.
            destruct Ha as [->|Ha], Hb as [->|Hb].
            * reflexivity.
            * rewrite (Hnone b Hb) in Hsn. discriminate.
            * assert (same_node q' a = true).
              { unfold same_node in *. apply andb_true_iff in Hsn. destruct Hsn as [A B]. apply Nat.eqb_eq in A. apply bools_eqb_eq in B.
                rewrite A, B, Nat.eqb_refl, bools_eqb_refl. reflexivity. }
              rewrite (Hnone a Ha) in H. discriminate.
            * apply Hcons; try (right; apply Hsub; assumption). exact Hsn.
          + intros Fr. apply I2. apply Hold.
            * apply Fr. apply insert_filter_adds; [exact Hq'wf| |exact Hnone]. intros o Ho. apply Hwf. right. apply Hsub. exact Ho.
            * intros w Hw. apply Fr. apply insert_filter_keeps. exact Hw. }
      (* now the three ways of obtaining the sibling hash *)
      assert (Hplain : forall sh sibs1,
                (if hnull sh then None else
                 let dir := nth (height q - 1) (bkey q) false in
                 let h' := if dir then hbranch sh (w_hash q) else hbranch (w_hash q) sh in
                 let q' := W (w_key q) bm' h' in
                 match find (same_node q') rest with
                 | Some o => if heqb (w_hash o) h' then calc_root hempty hbranch heqb hnull fuel sibs1 rest else None
                 | None => calc_root hempty hbranch heqb hnull fuel sibs1 (insert_filter q' rest)
                 end) = Some r -> P).
      { intros sh sibs1 Hrun'. destruct (hnull sh); [discriminate|].
        apply (Hcont sh rest sibs1 []); [intros w Hw; exact Hw|exact Hsr|intros _ w []|intros w Hw; left; exact Hw|exact Hrun']. }
      destruct rest as [|s rest'].
      + destruct (negb b0).
        * apply (Hplain hempty sibs). exact Hrun.
        * destruct sibs as [|h sibs']; [discriminate|]. apply (Hplain h sibs'). exact Hrun.
      + destruct (is_sibling q s) eqn:Esib.
        * (* merge with the sibling query *)
          match type of Hrun with
          | match (if ?c1 then _ else _) with _ => _ end = _ => destruct c1; [discriminate|]
          end.
          match type of Hrun with
          | match (if ?c2 then _ else _) with _ => _ end = _ => destruct c2; [discriminate|]
          end.
          match type of Hrun with
          | match (if ?c3 then _ else _) with _ => _ end = _ => destruct c3 eqn:Ebms; [discriminate|]
          end.
          destruct (hnull (w_hash s)); [discriminate|].
          destruct Hsr as [HsS Hsr'].
          apply (Hcont (w_hash s) rest' sibs [s]); [intros w Hw; right; exact Hw|exact Hsr'| |intros w [<-|Hw]; [right; left; reflexivity|left; exact Hw]|exact Hrun].
          -- intros Ht w [<-|[]].
             unfold is_sibling in Esib. apply andb_true_iff in Esib. destruct Esib as [Esib Ex].
             apply andb_true_iff in Esib. destruct Esib as [Eh Ep]. apply Nat.eqb_eq in Eh. apply bools_eqb_eq in Ep.
             assert (Hhq : height q = S (length bm')) by (unfold height; rewrite Ebm; reflexivity).
             assert (Hhs : height s = S (length bm')) by lia.
             rewrite Hhq in Ex. rewrite Hhq, Hhs in Ep.
             replace (S (length bm') - 1) with (length bm') in * by lia.
             assert (Hsw : S (length bm') <= length (bkey s)).
             { pose proof (Hwf s (or_intror (or_introl eq_refl))) as W0. unfold wfq in W0. lia. }
             destruct Ht as (nd & Hsn & Hhn).
             change (bpath (mkq (w_hash s))) with (firstn (length bm') (bkey q)) in Hsn.
             change (w_hash (mkq (w_hash s))) with (mkh (w_hash s)) in Hhn. unfold mkh in Hhn. rewrite Hhq in Hhn.
             replace (S (length bm') - 1) with (length bm') in Hhn by lia.
             unfold etrue, bpath. rewrite Hhs. rewrite (firstn_snoc_nth (length bm') (bkey s)) by lia.
             rewrite subtree_at_snoc, <- Ep, Hsn.
             destruct (nth (length bm') (bkey q) false) eqn:Edq; destruct (nth (length bm') (bkey s) false) eqn:Eds;
               cbn in Ex; try discriminate Ex;
               destruct (hash_branch_inv' _ _ _ Hhn) as (l & r0 & -> & Hl & Hr0); eexists; split; eauto.
        * destruct (negb b0).
          -- apply (Hplain hempty sibs). exact Hrun.
          -- destruct sibs as [|h sibs']; [discriminate|]. apply (Hplain h sibs'). exact Hrun.
  Qed.
End Multi.
