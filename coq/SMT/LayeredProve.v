(* C10 — trie.Prove THROUGH THE STORE: model of smt.go generateQueryProof on the layered store of SMT/Layered.v.
   Go                                                here
   ------------------------------------------------  -----------------------------------------------------------
   Prove: getSubtree(db, t.root), one                [lq lv s root bits 0]
   generateQueryProof per key
   bin search for the bottom node owning the key     walking the tree reading of the sub-tree along the key bits
   (getBinIndex, binOffset .. binOffset+2^(h-d))     (bit at position height+depth), as in SMT/Layered.v
   calculateQueryHashes (levels from the deepest     [lq_st] on the way back: per level the parent hash (ancestor),
   up: ancestor = parent hash, bitmap bit = sibling   the bit "sibling is not an empty bottom node" and, if set, the
   kind != empty, sibling hash)                      sibling's hash — top-first, bitmap reversed by [query_of]
   empty node -> (queryKey, ""); leaf -> (leaf key,  [None] / [Some (k, v)] with the leaf hash as last ancestor
   value) + leaf hash appended to the ancestors
   stub -> getSubtree(db, stub hash), recursive      [rec] = [lq lv'] on the lower layer, results concatenated
   generateQueryProof, concatenation                 (lower bitmap first, upper ancestors / siblings first)
   Prove: sort + calculateSiblingHashes               the SAME [calc_sibs] / [psort] as SMT/Prove.v ([prove_from])
   [lprove_is_prove]: on a store that holds the sub-trees of a reference trie t ([stored]) the layered prover returns
   exactly [prove t keys] of SMT/Prove.v — so every theorem about [prove] / [qpath] transfers to the code-shaped prover. *)
From Coq Require Import List NArith Bool Arith Lia.
From LE Require Import SMT.Spec SMT.Tree SMT.TreeProofs SMT.Verify SMT.Prove SMT.Layered SMT.LayeredBatch SMT.LayeredProofs.
Import ListNotations.

Section LProve.
  Context {Hsh : Type}.
  Variable hempty : Hsh.
  Variable hleafb : list N -> list N -> Hsh.
  Variable hbranch : Hsh -> Hsh -> Hsh.
  Variable heqb : Hsh -> Hsh -> bool.
  Variable h : nat.
  Notation V := (list N).
  Notation hleaf := (Prove.hleaf hleafb).
  Notation ST := (@ST V Hsh).
  Notation store := (@store V Hsh).
  Notation shash := (shash hempty hleaf hbranch).
  Definition qres : Type := (option (key * V) * list bool * list Hsh * list Hsh)%type.

  Definition is_SNE (st : ST) : bool := match st with SN NE => true | _ => false end.
  Definition lqstep (sibling : ST) (self : Hsh) (sub : qres) : qres :=
    let '(res, bm, sibs, anc) := sub in
    (res, negb (is_SNE sibling) :: bm, (if is_SNE sibling then sibs else shash sibling :: sibs), self :: anc).
  Section Walk.
    Variable rec : Hsh -> key -> nat -> option qres.
    Fixpoint lq_st (st : ST) (bits : key) (i : nat) : option qres :=
      match st with
      | SN NE => Some (None, [], [], [])
      | SN (NL k v) => Some (Some (k, v), [], [], [hleaf k v])
      | SN (NS r) => rec r bits i
      | SB l r =>
        if bit i bits then option_map (lqstep l (shash st)) (lq_st r bits (S i))
        else option_map (lqstep r (shash st)) (lq_st l bits (S i))
      end.
  End Walk.
  Fixpoint lq (lv : nat) (s : store) (root : Hsh) (bits : key) (i : nat) : option qres :=
    match lv with
    | O => None
    | S lv' => match get_subtree hempty heqb h s root with None => None | Some st => lq_st (lq lv' s) st bits i end
    end.

  Definition of_qres (kbytes : list N) (x : qres) : pq * list Hsh :=
    let '(res, bm, sibs, anc) := x in
    match res with
    | Some (k, v) => (P (from_bools k) v (rev bm) sibs, anc)
    | None => (P kbytes [] (rev bm) sibs, anc)
    end.
  Definition lquery_of (lv : nat) (s : store) (root : Hsh) (kbytes : list N) : option (pq * list Hsh) :=
    option_map (of_qres kbytes) (lq lv s root (to_bools kbytes) 0).
  Fixpoint all_some {A} (l : list (option A)) : option (list A) :=
    match l with
    | [] => Some []
    | None :: _ => None
    | Some x :: t => match all_some t with Some r => Some (x :: r) | None => None end
    end.
  (* the merge of trie.Prove on the per-query data *)
  Definition prove_from (qa : list (pq * list Hsh)) : list Hsh * list query :=
    let qs := map fst qa in
    let anc := flat_map snd qa in
    let fuel := S (fold_right (fun q a => (S (pheight q) + a)%nat) O qs) in
    (calc_sibs heqb fuel (psort qs) anc [],
     map (fun q => Q (p_key q) (p_value q) (from_bools (p_bm q))) qs).
  Definition lprove (lv : nat) (s : store) (root : Hsh) (keys : list (list N)) : option (list Hsh * list query) :=
    option_map prove_from (all_some (map (lquery_of lv s root) keys)).

  Lemma prove_is_prove_from : forall t keys,
    prove hempty hleafb hbranch heqb t keys = prove_from (map (query_of hempty hleafb hbranch t) keys).
  Proof. reflexivity. Qed.

  (* ---- refinement ---- *)
  Variable n : nat.
  Hypothesis Hheqb : forall a b, heqb a b = true <-> a = b.
  Hypothesis Hbr_inj : forall a b c d, hbranch a b = hbranch c d -> a = c /\ b = d.
  Hypothesis Hlf_inj : forall k v k' v', length k = length k' -> hleaf k v = hleaf k' v' -> k = k' /\ v = v'.
  Hypothesis Hlb : forall k v a b, hleaf k v <> hbranch a b.
  Hypothesis Hle : forall k v, hleaf k v <> hempty.
  Hypothesis Hbe : forall a b, hbranch a b <> hempty.
  Hypothesis Hh : 0 < h.
  Notation T := (@T V).
  Notation hash := (hash hempty hleaf hbranch).
  Notation trunc := (trunc hempty hleaf hbranch).
  Notation stored := (stored hempty hleaf hbranch heqb h).
  Notation qpath := (qpath hempty hleafb hbranch).

  Lemma is_SNE_trunc : forall g (t : T), is_SNE (trunc g t) = Prove.is_E t.
  Proof. intros g t. destruct t as [|k v|l r]; try reflexivity. destruct g; reflexivity. Qed.

  Lemma lq_st_trunc : forall (rec : Hsh -> key -> nat -> option qres) (t : T) g bits i,
    (forall u bits' i', In u (lowers g t) -> rec (hash u) bits' i' = Some (qpath u bits' i')) ->
    lq_st rec (trunc g t) bits i = Some (qpath t bits i).
  Proof.
    intros rec. induction t as [|k v|l IHl r IHr]; intros g bits i Hrec; try reflexivity.
    destruct g as [|g'].
    - cbn [LayeredProofs.trunc lq_st]. apply Hrec. left. reflexivity.
    - cbn [LayeredProofs.trunc lq_st Prove.qpath]. cbn [lowers] in Hrec.
      assert (Hs : hbranch (shash (trunc g' l)) (shash (trunc g' r)) = hash (B l r)).
      { cbn [Tree.hash]. rewrite !(shash_trunc hempty hleaf hbranch). reflexivity. }
      cbn [Layered.shash]. rewrite Hs.
      destruct (bit i bits).
      + rewrite IHr by (intros; apply Hrec; apply in_or_app; auto). cbn [option_map]. f_equal.
        unfold lqstep, qstep. destruct (qpath r bits (S i)) as [[[res bm] sibs] anc].
        rewrite is_SNE_trunc, (shash_trunc hempty hleaf hbranch). reflexivity.
      + rewrite IHl by (intros; apply Hrec; apply in_or_app; auto). cbn [option_map]. f_equal.
        unfold lqstep, qstep. destruct (qpath l bits (S i)) as [[[res bm] sibs] anc].
        rewrite is_SNE_trunc, (shash_trunc hempty hleaf hbranch). reflexivity.
  Qed.

  Lemma lq_stored : forall lv (s : store) (t : T) bits i, klen n t -> stored lv s t ->
    lq lv s (hash t) bits i = Some (qpath t bits i).
  Proof.
    induction lv as [|lv IH]; intros s t bits i Kt Hst; cbn [LayeredProofs.stored] in Hst; [contradiction|].
    destruct Hst as [Hhas Hall]. cbn [lq].
    pose proof (get_subtree_ok hempty hleaf hbranch heqb h n Hheqb Hbr_inj Hlf_inj Hlb Hle Hbe Hh s t Kt (or_intror Hhas)) as G.
    match goal with |- match ?X with _ => _ end = _ => replace X with (Some (trunc h t)) by (symmetry; exact G) end.
    apply lq_st_trunc. intros u bits' i' Hu. rewrite Forall_forall in Hall. apply IH; auto.
    eapply klen_lower; eauto.
  Qed.

  Lemma lq_inv : forall lv' (s : store) root (t : T) bits i, n = S lv' * h ->
    Inv hempty hleaf hbranch heqb h (S lv') s root t -> lq (S lv') s root bits i = Some (qpath t bits i).
  Proof.
    intros lv' s root t bits i Hn (-> & Hwf & Hst).
    assert (Kt : klen n t) by (apply (wf_klen n (S lv' * h) 0); auto).
    destruct Hst as [->|Hst]; [|apply lq_stored; auto].
    cbn [lq Tree.hash]. unfold get_subtree. rewrite (proj2 (Hheqb hempty hempty) eq_refl). reflexivity.
  Qed.

  Lemma all_some_map : forall {A B} (f : A -> option B) (g : A -> B) l, (forall x, f x = Some (g x)) ->
    all_some (map f l) = Some (map g l).
  Proof. intros A B f g l Hfg. induction l as [|x l IH]; cbn [map all_some]; auto. rewrite Hfg, IH. reflexivity. Qed.

  Theorem lprove_is_prove : forall lv' (s : store) root (t : T) keys, n = S lv' * h ->
    Inv hempty hleaf hbranch heqb h (S lv') s root t ->
    lprove (S lv') s root keys = Some (prove hempty hleafb hbranch heqb t keys).
  Proof.
    intros lv' s root t keys Hn HI. unfold lprove. rewrite prove_is_prove_from.
    rewrite (all_some_map _ (query_of hempty hleafb hbranch t)); [reflexivity|].
    intros kb. unfold lquery_of. rewrite (lq_inv lv' s root t _ _ Hn HI). reflexivity.
  Qed.
End LProve.

Section LProveTop.
  Context {Hsh : Type}.
  Variable hempty : Hsh.
  Variable hleafb : list N -> list N -> Hsh.
  Variable hbranch : Hsh -> Hsh -> Hsh.
  Variable heqb : Hsh -> Hsh -> bool.
  Notation hleaf := (Prove.hleaf hleafb).
  Hypothesis Hheqb : forall a b, heqb a b = true <-> a = b.
  Hypothesis Hbr_inj : forall a b c d, hbranch a b = hbranch c d -> a = c /\ b = d.
  Hypothesis Hlf_inj : forall k v k' v', length k = length k' -> hleaf k v = hleaf k' v' -> k = k' /\ v = v'.
  Hypothesis Hlb : forall k v a b, hleaf k v <> hbranch a b.
  Hypothesis Hle : forall k v, hleaf k v <> hempty.
  Hypothesis Hbe : forall a b, hbranch a b <> hempty.

  (* after every history from the empty trie, trie.Prove through the store is [prove] on the reference trie read back from
     the store, which is well-formed and holds exactly the map of the history *)
  Theorem layered_prove_refines : forall h lv' (bs : list (list (@op (list N)))) keys, 0 < h -> keys_ok (S lv' * h) bs ->
    exists s t,
      layered_history hempty hleaf hbranch heqb h (S lv') ([], hempty) bs = Some (s, hash hempty hleaf hbranch t) /\
      wf (S lv' * h) 0 t /\ Permutation.Permutation (tomap t) (fold_left map_batch bs []) /\
      lprove hempty hleafb hbranch heqb h (S lv') s (hash hempty hleaf hbranch t) keys =
      Some (prove hempty hleafb hbranch heqb t keys).
  Proof.
    intros h lv' bs keys Hh Hk.
    destruct (layered_history_ok hempty hleaf hbranch heqb h (S lv' * h) Hheqb Hbr_inj Hlf_inj Hlb Hle Hbe Hh
                lv' bs [] hempty E [] eq_refl) as (s & t & E1 & HI & HP); auto.
    { split; [reflexivity|]. split; [exact I|]. left. reflexivity. }
    exists s, t. split; [exact E1|]. split; [apply HI|]. split; [exact HP|].
    apply (lprove_is_prove hempty hleafb hbranch heqb h (S lv' * h) Hheqb Hbr_inj Hlf_inj Hlb Hle Hbe Hh lv' s _ t keys eq_refl HI).
  Qed.
End LProveTop.
