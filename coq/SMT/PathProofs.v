(* C10 — soundness of the path recomputation that smt.CalculateRoot performs for ONE query, against the reference tree:
   if the recomputed root equals the hash of a well-formed tree then the node the query ends at really is that leaf /
   really is empty, hence the claim (inclusion with that value, or absence of every key below that node) agrees with
   the map.  Hash: arbitrary functions with injectivity and domain separation as explicit hypotheses. *)
From Coq Require Import List Bool Arith Lia.
From LE Require Import SMT.Spec SMT.Tree SMT.TreeProofs.
Import ListNotations.

Section Path.
  Context {V Hsh : Type}.
  Variable hempty : Hsh.
  Variable hleaf : key -> V -> Hsh.
  Variable hbranch : Hsh -> Hsh -> Hsh.
  Hypothesis branch_inj : forall a b c d, hbranch a b = hbranch c d -> a = c /\ b = d.
  (* a leaf hash commits to key ++ value: injective among keys of EQUAL length (not across different splits) *)
  Hypothesis leaf_inj : forall k v k' v', length k = length k' -> hleaf k v = hleaf k' v' -> k = k' /\ v = v'.
  Hypothesis leaf_not_branch : forall k v a b, hleaf k v <> hbranch a b.
  Hypothesis leaf_not_empty : forall k v, hleaf k v <> hempty.
  Hypothesis branch_not_empty : forall a b, hbranch a b <> hempty.
  Notation T := (@T V).
  Notation hash := (hash hempty hleaf hbranch).

  (* CalculateRoot for a single query: bitmap bottom-first, sibling hashes in consumption order; the direction at a
     level is the key bit at index height-1 *)
  Fixpoint recompute (bits : key) (bm : list bool) (sibs : list Hsh) (h : Hsh) : option Hsh :=
    match bm with
    | [] => Some h
    | b0 :: bm' =>
      let dir := nth (length bm') bits false in
      if b0 then match sibs with
                 | [] => None
                 | s :: sibs' => recompute bits bm' sibs' (if dir then hbranch s h else hbranch h s)
                 end
      else recompute bits bm' sibs (if dir then hbranch hempty h else hbranch h hempty)
    end.

  Fixpoint subtree_at (t : T) (p : list bool) {struct p} : option T :=
    match p with
    | [] => Some t
    | d :: p' => match t with B l r => subtree_at (if d then r else l) p' | _ => None end
    end.

  Lemma subtree_at_snoc : forall p t d,
    subtree_at t (p ++ [d]) = match subtree_at t p with
                              | Some (B l r) => Some (if d then r else l)
                              | _ => None
                              end.
  Proof.
    induction p as [|x p IH]; intros t d.
    - destruct t; simpl; reflexivity.
    - destruct t; simpl; try reflexivity. apply IH.
  Qed.

  Lemma firstn_snoc_nth : forall (j : nat) (bits : key), j < length bits ->
    firstn (S j) bits = firstn j bits ++ [nth j bits false].
  Proof.
    induction j; intros bits H; destruct bits as [|b t]; cbn [length] in H; try lia; cbn [firstn nth app].
    - reflexivity.
    - f_equal. apply IHj. lia.
  Qed.

  Lemma hash_branch_inv : forall (t : T) a b, hash t = hbranch a b -> exists l r, t = B l r /\ hash l = a /\ hash r = b.
  Proof.
    intros [|k v|l r] a b H; cbn [Tree.hash] in H.
    - symmetry in H. apply branch_not_empty in H. contradiction.
    - apply leaf_not_branch in H. contradiction.
    - apply branch_inj in H. exists l, r. tauto.
  Qed.

  (* the recomputation can only reach the root hash along a real path of the tree *)
  Theorem recompute_sound : forall bm bits sibs h (t : T), length bm <= length bits ->
    recompute bits bm sibs h = Some (hash t) ->
    exists nd, subtree_at t (firstn (length bm) bits) = Some nd /\ hash nd = h.
  Proof.
    induction bm as [|b0 bm IH]; intros bits sibs h t Hlen Hr; cbn [recompute length] in *.
    - inversion Hr; subst. exists t. split; reflexivity.
    - assert (Hl : length bm <= length bits) by lia.
      assert (Hj : length bm < length bits) by lia.
      rewrite (firstn_snoc_nth _ _ Hj), subtree_at_snoc.
      set (dir := nth (length bm) bits false) in *.
      assert (Hgen : forall sibs' x y, recompute bits bm sibs' (hbranch x y) = Some (hash t) ->
                exists l r, subtree_at t (firstn (length bm) bits) = Some (B l r) /\ hash l = x /\ hash r = y).
      { intros sibs' x y Hx. destruct (IH bits sibs' (hbranch x y) t Hl Hx) as (nd & Hs & Hh).
        destruct (hash_branch_inv _ _ _ Hh) as (l & r & -> & Hl' & Hr'). exists l, r. auto. }
      destruct b0.
      + destruct sibs as [|s sibs']; [discriminate|].
        destruct dir.
        * destruct (Hgen _ _ _ Hr) as (l & r & Hs & _ & Hh). rewrite Hs. exists r. auto.
        * destruct (Hgen _ _ _ Hr) as (l & r & Hs & Hh & _). rewrite Hs. exists l. auto.
      + destruct dir.
        * destruct (Hgen _ _ _ Hr) as (l & r & Hs & _ & Hh). rewrite Hs. exists r. auto.
        * destruct (Hgen _ _ _ Hr) as (l & r & Hs & Hh & _). rewrite Hs. exists l. auto.
  Qed.

  (* keys are routed by their bits: everything stored under a prefix is inside the sub-tree at that prefix *)
  Lemma subtree_keys : forall p (t : T) d i nd, wf d i t -> subtree_at t p = Some nd ->
    forall kv, In kv (tomap t) -> (forall j, j < length p -> bit (i + j) (fst kv) = nth j p false) -> In kv (tomap nd).
  Proof.
    induction p as [|x p IH]; intros t d i nd Hwf Hs kv Hin Hbits; cbn [subtree_at] in Hs.
    - inversion Hs; subst; auto.
    - destruct t as [|k v|l r]; try discriminate.
      destruct d as [|d']; [contradiction|]. destruct Hwf as (Hwl & Hwr & _ & Hbl & Hbr).
      cbn [tomap] in Hin. apply in_app_or in Hin.
      assert (H0 : bit i (fst kv) = x).
      { specialize (Hbits 0). cbn [length nth] in Hbits. rewrite Nat.add_0_r in Hbits. apply Hbits. lia. }
      assert (Hrest : forall j, j < length p -> bit (S i + j) (fst kv) = nth j p false).
      { intros j Hj. specialize (Hbits (S j)). cbn [length nth] in Hbits. replace (S i + j) with (i + S j) by lia.
        apply Hbits. lia. }
      destruct x.
      + destruct Hin as [Hin|Hin]; [rewrite (Hbl _ Hin) in H0; discriminate|].
        eapply (IH r d' (S i)); eauto.
      + destruct Hin as [Hin|Hin]; [|rewrite (Hbr _ Hin) in H0; discriminate].
        eapply (IH l d' (S i)); eauto.
  Qed.

  Lemma subtree_incl : forall p (t nd : T), subtree_at t p = Some nd -> forall kv, In kv (tomap nd) -> In kv (tomap t).
  Proof.
    induction p as [|x p IH]; intros t nd Hs kv Hin; cbn [subtree_at] in Hs.
    - inversion Hs; subst; auto.
    - destruct t as [|k v|l r]; try discriminate. cbn [tomap]. apply in_or_app.
      destruct x; [right|left]; eapply IH; eauto.
  Qed.

  Lemma bit_firstn : forall j h (k : key), j < h -> nth j (firstn h k) false = bit j k.
  Proof.
    unfold bit. induction j; intros h k Hj; destruct h; try lia; destruct k; cbn [firstn nth]; auto.
    apply IHj. lia.
  Qed.

  (* INCLUSION: a verified non-empty claim (qk, v) is in the map; and any other requested key sharing the path of the
     query is absent.  ABSENCE: a verified empty claim means no key of the map lies below that node. *)
  Theorem single_query_sound : forall n (t : T) qk bm sibs,
    wf n 0 t -> length qk = n -> length bm <= length qk ->
    (forall v, recompute qk bm sibs (hleaf qk v) = Some (hash t) ->
       In (qk, v) (tomap t) /\
       forall k v', In (k, v') (tomap t) -> firstn (length bm) k = firstn (length bm) qk -> k = qk /\ v' = v) /\
    (recompute qk bm sibs hempty = Some (hash t) ->
       forall k v', In (k, v') (tomap t) -> firstn (length bm) k <> firstn (length bm) qk).
  Proof.
    intros n t qk bm sibs Hwf Hqk Hlen. split.
    - intros v Hr. destruct (recompute_sound _ _ _ _ _ Hlen Hr) as (nd & Hs & Hh).
      assert (Hnd : nd = L qk v).
      { destruct nd as [|k0 v0|l r]; cbn [Tree.hash] in Hh.
        - symmetry in Hh. apply leaf_not_empty in Hh. contradiction.
        - assert (Hin0 : In (k0, v0) (tomap t)) by (eapply subtree_incl; eauto; left; reflexivity).
          pose proof (wf_keys t n 0 (k0, v0) Hwf Hin0) as Hl0. cbn [fst Nat.add] in Hl0.
          apply leaf_inj in Hh; [|lia]. destruct Hh; subst; reflexivity.
        - symmetry in Hh. apply leaf_not_branch in Hh. contradiction. }
      subst nd. split.
      + eapply subtree_incl; eauto. left; reflexivity.
      + intros k v' Hin Hpre.
        assert (Hin' : In (k, v') (tomap (L qk v))).
        { eapply (subtree_keys _ t n 0); eauto. intros j Hj. cbn [fst Nat.add].
          rewrite firstn_length in Hj. rewrite <- Hpre. rewrite bit_firstn by lia. reflexivity. }
        destruct Hin' as [E1|[]]. inversion E1; auto.
    - intros Hr k v' Hin Hpre. destruct (recompute_sound _ _ _ _ _ Hlen Hr) as (nd & Hs & Hh).
      assert (Hnd : nd = E).
      { destruct nd as [|k0 v0|l r]; cbn [Tree.hash] in Hh; auto.
        - apply leaf_not_empty in Hh. contradiction.
        - apply branch_not_empty in Hh. contradiction. }
      subst nd.
      assert (Hin' : In (k, v') (tomap (@E V))).
      { eapply (subtree_keys _ t n 0); eauto. intros j Hj. cbn [fst Nat.add].
        rewrite firstn_length in Hj. rewrite <- Hpre. rewrite bit_firstn by lia. reflexivity. }
      destruct Hin'.
  Qed.

  (* a proof cannot verify against two different trees' roots with the same claim ... and a different root never
     verifies: the recomputed root is a function of the proof *)
  Theorem other_root_fails : forall bits bm sibs h r1 r2,
    recompute bits bm sibs h = Some r1 -> r1 <> r2 -> recompute bits bm sibs h <> Some r2.
  Proof. intros. congruence. Qed.
End Path.
