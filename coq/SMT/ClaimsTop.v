(* C10 — end-to-end soundness of smt.Verify against the MAP: if Verify accepts (any number of queries) against the root
   of a well-formed trie over keys of keyLength bytes, then for every (requested key, query) pair
     - a non-empty value means (query key, value) is in the map,
     - an empty value means the requested key is absent,
     - a query key different from the requested key means the requested key is absent.
   The trie leaf hash is the wire leaf hash of the re-packed key: hleaf bits v = hleafb (FromBools bits) v. *)
From Coq Require Import List Bool Arith Lia NArith.
From LE Require Import SMT.Spec SMT.Tree SMT.TreeProofs SMT.Verify SMT.PathProofs SMT.MultiProofs SMT.MultiTop
                       SMT.NodeClaims SMT.BitsProofs.
Import ListNotations.

Section Claims.
  Context {Hsh : Type}.
  Variable hempty : Hsh.
  Variable hleafb : list N -> list N -> Hsh.
  Variable hbranch : Hsh -> Hsh -> Hsh.
  Variable heqb : Hsh -> Hsh -> bool.
  Variable hnull : Hsh -> bool.
  Hypothesis heqb_eq : forall a b, heqb a b = true -> a = b.
  Hypothesis branch_inj : forall a b c d, hbranch a b = hbranch c d -> a = c /\ b = d.
  (* H(0x00 ++ key ++ value) is injective for keys of EQUAL length only (the split point is not hashed) *)
  Hypothesis leafb_inj : forall k v k' v', length k = length k' -> hleafb k v = hleafb k' v' -> k = k' /\ v = v'.
  Hypothesis leafb_not_branch : forall k v a b, hleafb k v <> hbranch a b.
  Hypothesis leafb_not_empty : forall k v, hleafb k v <> hempty.
  Hypothesis branch_not_empty : forall a b, hbranch a b <> hempty.
  Definition hleaf (k : key) (v : list N) : Hsh := hleafb (from_bools k) v.
  Notation T := (@T (list N)).
  Notation hash := (hash hempty hleaf hbranch).
  Notation mk := (mk_wq hempty hleafb).

  Lemma check_queries_prefix : forall kl keys qs seen,
    check_queries kl keys qs seen = VTrue ->
    forall i k q, nth_error keys i = Some k -> nth_error qs i = Some q ->
      length (q_key q) = kl /\
      (k = q_key q \/ height (mk q) <= common_prefix_len (to_bools k) (to_bools (q_key q))).
  Proof.
    induction keys as [|k0 keys IH]; intros [|q0 qs] seen Hc i k q Hk Hq; try (destruct i; discriminate).
    cbn [check_queries] in Hc.
    destruct (negb (Nat.eqb (length k0) kl)); [discriminate|].
    destruct (Nat.eqb_spec (length (q_key q0)) kl) as [Hql|]; cbn [negb] in Hc; [|discriminate].
    assert (Hrest : (if match q_bitmap q0 with 0%N :: _ => true | _ => false end then VFalse
                     else if Nat.ltb (8 * length (q_key q0)) (length (strip_false (to_bools (q_bitmap q0)))) then VFalse
                     else if bytes_eqb k0 (q_key q0) then check_queries kl keys qs (q0 :: seen)
                     else if Nat.ltb (common_prefix_len (to_bools k0) (to_bools (q_key q0))) (length (strip_false (to_bools (q_bitmap q0)))) then VFalse
                     else check_queries kl keys qs (q0 :: seen)) = VTrue).
    { destruct (find (fun s => bytes_eqb (q_key s) (q_key q0)) seen) as [s|]; [|exact Hc].
      destruct (negb (bytes_eqb (q_bitmap s) (q_bitmap q0)) || negb (bytes_eqb (q_value s) (q_value q0))); [discriminate|exact Hc]. }
    clear Hc. destruct (match q_bitmap q0 with 0%N :: _ => true | _ => false end); [discriminate|].
    destruct (Nat.ltb (8 * length (q_key q0)) (length (strip_false (to_bools (q_bitmap q0))))); [discriminate|].
    destruct i as [|i]; cbn [nth_error] in Hk, Hq.
    - inversion Hk; inversion Hq; subst. split; [reflexivity|].
      destruct (bytes_eqb k (q_key q)) eqn:E; [left; apply bytes_eqb_eq; exact E|].
      destruct (Nat.ltb_spec (common_prefix_len (to_bools k) (to_bools (q_key q))) (length (strip_false (to_bools (q_bitmap q))))); [discriminate|].
      right. unfold height. cbn [mk_wq w_bm]. exact H.
    - destruct (bytes_eqb k0 (q_key q0)); [eapply IH; eauto|].
      destruct (Nat.ltb _ _); [discriminate|]. eapply IH; eauto.
  Qed.

  Theorem verify_claims : forall kl (t : T) keys sibs qs,
    wf (8 * kl) 0 t ->
    verify hempty hleafb hbranch heqb hnull keys sibs qs (hash t) kl = VTrue ->
    forall i k q, nth_error keys i = Some k -> nth_error qs i = Some q ->
      (q_value q <> [] -> In (to_bools (q_key q), q_value q) (tomap t)) /\
      (q_value q = [] -> forall v, ~ In (to_bools k, v) (tomap t)) /\
      (to_bools k <> to_bools (q_key q) -> forall v, ~ In (to_bools k, v) (tomap t)).
  Proof.
    intros kl t keys sibs qs Hwf Hv i k q Hk Hq.
    assert (Hin : In q qs) by (eapply nth_error_In; eauto).
    assert (Hleaf_nb : forall k0 v a b, hleaf k0 v <> hbranch a b) by (intros; unfold hleaf; apply leafb_not_branch).
    destruct (verify_sound hempty hleaf hleafb hbranch heqb hnull heqb_eq branch_inj Hleaf_nb branch_not_empty t keys sibs qs kl Hv q Hin)
      as (nd & Hsn & Hh).
    (* facts from the first loop of Verify *)
    pose proof Hv as Hv'. unfold verify in Hv'.
    destruct (Nat.eqb_spec (length keys) (length qs)) as [Hl|]; cbn [negb] in Hv'; [|discriminate].
    destruct (check_queries kl keys qs []) eqn:Ec; try discriminate. clear Hv'.
    pose proof (check_queries_wf hempty hleafb kl keys qs [] Hl Ec q Hin) as Hwq.
    destruct (check_queries_prefix kl keys qs [] Ec i k q Hk Hq) as [Hqlen Hpre].
    set (h := height (mk q)) in *. set (kb := to_bools k). set (qb := to_bools (q_key q)).
    assert (Hp : bpath (mk q) = firstn h qb) by reflexivity. rewrite Hp in Hsn.
    assert (Hplen : length (firstn h qb) = h).
    { rewrite firstn_length. unfold wfq, bkey in Hwq. cbn [mk_wq w_key] in Hwq. fold qb in Hwq. fold h in Hwq. lia. }
    assert (Hkpre : firstn (length (firstn h qb)) kb = firstn h qb).
    { rewrite Hplen. destruct Hpre as [->|Hc]; [reflexivity|]. apply common_prefix_firstn. exact Hc. }
    assert (Hbelow : forall v, In (kb, v) (tomap t) -> In (kb, v) (tomap nd)).
    { intros v Hi. eapply (below (8 * kl) t nd (firstn h qb) (kb, v)); eauto. }
    cbn [mk_wq w_hash] in Hh.
    destruct (q_value q) as [|v0 vs] eqn:Ev.
    - (* empty claim *)
      assert (Hnd : nd = E).
      { destruct nd as [|k1 v1|l r]; cbn [Tree.hash] in Hh; auto.
        - unfold hleaf in Hh. apply leafb_not_empty in Hh. contradiction.
        - apply branch_not_empty in Hh. contradiction. }
      subst nd. split; [congruence|]. split; intros _ v Hi; destruct (Hbelow v Hi).
    - (* leaf claim *)
      destruct nd as [|k1 v1|l r]; cbn [Tree.hash] in Hh.
      + symmetry in Hh. apply leafb_not_empty in Hh. contradiction.
      + assert (Hin1' : In (k1, v1) (tomap t)) by (eapply subtree_incl; eauto; left; reflexivity).
        pose proof (wf_keys t (8 * kl) 0 (k1, v1) Hwf Hin1') as Hlen. cbn [fst Nat.add] in Hlen.
        unfold hleaf in Hh. apply leafb_inj in Hh; [|rewrite (from_bools_length kl k1 Hlen); symmetry; exact Hqlen].
        destruct Hh as [Ek Evv]. subst v1.
        assert (Hin1 : In (k1, v0 :: vs) (tomap t)) by exact Hin1'.
        assert (Hk1 : k1 = qb).
        { unfold qb. rewrite <- Ek. symmetry. apply (from_to_bools kl). exact Hlen. }
        subst k1. split; [intros _; exact Hin1|]. split; [discriminate|].
        intros Hne v Hi. destruct (Hbelow v Hi) as [E1|[]]. inversion E1. congruence.
      + symmetry in Hh. apply leafb_not_branch in Hh. contradiction.
  Qed.
End Claims.
