(* C10 — two facts about honest proofs that the Verify wrapper relies on (parts of the missing piece "L3" of multi-key
   completeness):
   [bitmap_wire_roundtrip]: a bitmap whose first (bottom) bit is true survives the wire — FromBools pads on the left,
   Verify strips leading false bits: strip_false (to_bools (from_bools bm)) = bm.  (A bitmap starting with false would lose
   bits = height.)
   [qpath_bottom_bit]: in a well-formed trie the bottom bit of every query path IS true (the sibling of the node a
   query ends in is never empty: otherwise the leaf would have been lifted / the branch would not exist). *)
From Coq Require Import List Bool Arith Lia NArith.
From LE Require Import SMT.Spec SMT.Tree SMT.TreeProofs SMT.Verify SMT.BitsProofs SMT.Prove.
Import ListNotations.

Lemma strip_false_pad : forall k l, strip_false (repeat false k ++ true :: l) = true :: l.
Proof. induction k; intros l; cbn [repeat app strip_false]; auto. Qed.

Lemma bitmap_wire_roundtrip : forall l, strip_false (to_bools (from_bools (true :: l))) = true :: l.
Proof.
  intros l. unfold from_bools. set (bm := true :: l).
  destruct (Nat.eqb (Nat.modulo (length bm) 8) 0) eqn:E0.
  - apply Nat.eqb_eq in E0. cbn [app].
    assert (Hm : length bm = 8 * (length bm / 8)).
    { pose proof (Nat.div_mod (length bm) 8). lia. }
    rewrite (chunks8_roundtrip (length bm / 8) bm (length bm) Hm) by lia. reflexivity.
  - apply Nat.eqb_neq in E0. set (r := Nat.modulo (length bm) 8) in *.
    assert (Hr : r < 8) by (apply Nat.mod_upper_bound; lia).
    set (padded := repeat false (8 - r) ++ bm).
    assert (Hm : length padded = 8 * S (length bm / 8)).
    { unfold padded. rewrite app_length, repeat_length. pose proof (Nat.div_mod (length bm) 8). fold r in H. lia. }
    rewrite (chunks8_roundtrip (S (length bm / 8)) padded (length padded) Hm) by lia.
    unfold padded, bm. apply strip_false_pad.
Qed.

Section QP.
  Context {Hsh : Type}.
  Variable hempty : Hsh.
  Variable hleafb : list N -> list N -> Hsh.
  Variable hbranch : Hsh -> Hsh -> Hsh.
  Notation qpath := (qpath hempty hleafb hbranch).
  Notation T := (@T (list N)).

  Definition qbm (x : option (key * list N) * list bool * list Hsh * list Hsh) : list bool := snd (fst (fst x)).

  Lemma qpath_terminal : forall (t : T) bits i, qbm (qpath t bits i) = [] -> tsize t <= 1.
  Proof.
    intros t bits i. destruct t as [|k v|l r]; cbn [Prove.qpath tsize]; try lia.
    destruct (bit i bits).
    - destruct (qpath r bits (S i)) as [[[res bm] sibs] anc]. cbn. discriminate.
    - destruct (qpath l bits (S i)) as [[[res bm] sibs] anc]. cbn. discriminate.
  Qed.

  (* top-first bitmap: its last element is the bottom bit *)
  Theorem qpath_bottom_bit : forall (t : T) d i bits, wf d i t -> qbm (qpath t bits i) <> [] ->
    last (qbm (qpath t bits i)) false = true.
  Proof.
    induction t as [|k v|l IHl r IHr]; intros d i bits Hwf Hne; cbn [Prove.qpath] in *; try (cbn in Hne; contradiction).
    destruct d as [|d']; [contradiction|]. cbn [wf] in Hwf. destruct Hwf as (Hl & Hr & Hsz & _).
    assert (Hstep : forall (child sib : T) d0, wf d0 (S i) child ->
              (forall bits0, qbm (qpath child bits0 (S i)) <> [] -> last (qbm (qpath child bits0 (S i))) false = true) ->
              2 <= tsize child + tsize sib ->
              last (qbm (qstep hempty hleafb hbranch sib (Tree.hash hempty (Prove.hleaf hleafb) hbranch (B l r))
                                (qpath child bits (S i)))) false = true).
    { intros child sib d0 Hwc IH Hs. pose proof (qpath_terminal child bits (S i)) as Ht. specialize (IH bits).
      destruct (qpath child bits (S i)) as [[[res bm] sibs] anc]. cbn [qstep qbm fst snd] in *.
      destruct bm as [|b bm'].
      - specialize (Ht eq_refl). cbn [last]. destruct sib; cbn [tsize Prove.is_E negb] in *; try reflexivity. lia.
      - cbn [last]. apply IH. discriminate. }
    destruct (bit i bits).
    - apply (Hstep r l d'); auto; try lia. intros bits0 H0. eapply IHr; eauto.
    - apply (Hstep l r d'); auto; try lia. intros bits0 H0. eapply IHl; eauto.
  Qed.
End QP.
