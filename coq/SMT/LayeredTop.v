(* C10 — the layered model of the Go update path refines the reference trie: packaged statements. *)
From Coq Require Import List Bool Arith Lia Permutation.
From LE Require Import SMT.Spec SMT.Tree SMT.TreeProofs SMT.Layered SMT.LayeredBatch SMT.LayeredProofs.
Import ListNotations.

Section Top.
  Context {V Hsh : Type}.
  Variable hempty : Hsh.
  Variable hleaf : key -> V -> Hsh.
  Variable hbranch : Hsh -> Hsh -> Hsh.
  Variable heqb : Hsh -> Hsh -> bool.
  Hypothesis Hheqb : forall a b, heqb a b = true <-> a = b.
  Hypothesis Hbr_inj : forall a b c d, hbranch a b = hbranch c d -> a = c /\ b = d.
  Hypothesis Hlf_inj : forall k v k' v', length k = length k' -> hleaf k v = hleaf k' v' -> k = k' /\ v = v'.
  Hypothesis Hlb : forall k v a b, hleaf k v <> hbranch a b.
  Hypothesis Hle : forall k v, hleaf k v <> hempty.
  Hypothesis Hbe : forall a b, hbranch a b <> hempty.

  Notation hash := (hash hempty hleaf hbranch).
  Notation smt_root := (smt_root hempty hleaf hbranch).
  Notation lhist := (layered_history hempty hleaf hbranch heqb).
  Notation op := (@op V).

  Lemma inv_empty : forall h lv, Inv hempty hleaf hbranch heqb h lv [] hempty E.
  Proof. intros. split; [reflexivity|]. split; [exact I|]. left. reflexivity. Qed.

  (* (a) + (b): from the empty trie every history of batches runs without error on the layered model, its root is
     the LIP-0039 root of the resulting map = the hash of the reference trie, and the store holds every sub-tree
     reachable from that root: reading back through the store ([abs]) yields a well-formed reference trie holding
     exactly that map *)
  Theorem layered_refines : forall h lv' (bs : list (list op)), 0 < h -> keys_ok (S lv' * h) bs ->
    exists s t,
      lhist h (S lv') ([], hempty) bs = Some (s, hash t) /\
      hash t = smt_root (S lv' * h) (fold_left map_batch bs []) /\
      hash t = hash (fold_left (batch_update (S lv' * h)) bs E) /\
      abs hempty heqb h (S lv') s (hash t) = Some t /\
      wf (S lv' * h) 0 t /\ Permutation (tomap t) (fold_left map_batch bs []).
  Proof.
    intros h lv' bs Hh Hk.
    destruct (layered_history_ok hempty hleaf hbranch heqb h (S lv' * h) Hheqb Hbr_inj Hlf_inj Hlb Hle Hbe Hh
                lv' bs [] hempty E [] eq_refl (inv_empty _ _) (Permutation_refl _) Hk) as (s & t & E1 & HI & HP).
    exists s, t. split; [exact E1|].
    destruct (abs_inv hempty hleaf hbranch heqb h (S lv' * h) Hheqb Hbr_inj Hlf_inj Hlb Hle Hbe Hh lv' s _ t eq_refl HI) as [Ha _].
    destruct HI as (_ & Hwf & _).
    assert (Hroot : hash t = smt_root (S lv' * h) (fold_left map_batch bs [])).
    { rewrite (hash_is_root _ _ _ _ _ _ Hwf). unfold Spec.smt_root. apply root_at_perm. exact HP. }
    split; [exact Hroot|]. split; [|auto].
    rewrite Hroot. symmetry. apply history_independent. exact Hk.
  Qed.

  (* re-opening: the trie object is its root hash; after any history the store answers getSubtree for that root, and
     continuing from (store, root) is continuing the history *)
  Theorem layered_reopen_continues : forall h lv' (bs1 bs2 : list (list op)), 0 < h -> keys_ok (S lv' * h) (bs1 ++ bs2) ->
    exists s1 r1 st,
      lhist h (S lv') ([], hempty) bs1 = Some (s1, r1) /\
      layered_open hempty heqb h s1 r1 = Some st /\ shash hempty hleaf hbranch st = r1 /\
      exists s2 r2,
        lhist h (S lv') (s1, r1) bs2 = Some (s2, r2) /\
        r2 = smt_root (S lv' * h) (fold_left map_batch (bs1 ++ bs2) []) /\
        lhist h (S lv') ([], hempty) (bs1 ++ bs2) = Some (s2, r2).
  Proof.
    intros h lv' bs1 bs2 Hh Hk.
    assert (Hk1 : keys_ok (S lv' * h) bs1) by (intros b o Hb Ho; apply (Hk b o); auto; apply in_or_app; auto).
    destruct (layered_history_ok hempty hleaf hbranch heqb h (S lv' * h) Hheqb Hbr_inj Hlf_inj Hlb Hle Hbe Hh
                lv' bs1 [] hempty E [] eq_refl (inv_empty _ _) (Permutation_refl _) Hk1) as (s1 & t1 & E1 & HI1 & HP1).
    destruct (abs_inv hempty hleaf hbranch heqb h (S lv' * h) Hheqb Hbr_inj Hlf_inj Hlb Hle Hbe Hh lv' s1 _ t1 eq_refl HI1) as [_ Ho].
    destruct (layered_refines h lv' (bs1 ++ bs2) Hh Hk) as (s2 & t2 & E2 & Hr2 & _).
    exists s1, (hash t1), (trunc hempty hleaf hbranch h t1). split; [exact E1|]. split; [exact Ho|].
    split; [apply shash_trunc|].
    exists s2, (hash t2). pose proof E2 as E2o. rewrite layered_history_app in E2.
    assert (E1b : lhist h (S lv') ([], hempty) bs1 = Some (s1, hash t1)) by exact E1.
    rewrite E1b in E2. split; [exact E2|]. split; [exact Hr2|exact E2o].
  Qed.

  (* sub-tree layout: two heights dividing the key length give the same root after every history *)
  Theorem layered_layout_independent : forall h1 h2 lv1 lv2 (bs : list (list op)), 0 < h1 -> 0 < h2 ->
    S lv1 * h1 = S lv2 * h2 -> keys_ok (S lv1 * h1) bs ->
    exists s1 s2 r, lhist h1 (S lv1) ([], hempty) bs = Some (s1, r) /\ lhist h2 (S lv2) ([], hempty) bs = Some (s2, r).
  Proof.
    intros h1 h2 lv1 lv2 bs H1 H2 En Hk.
    destruct (layered_refines h1 lv1 bs H1 Hk) as (s1 & t1 & E1 & R1 & _).
    assert (Hk2 : keys_ok (S lv2 * h2) bs) by (rewrite <- En; exact Hk).
    destruct (layered_refines h2 lv2 bs H2 Hk2) as (s2 & t2 & E2 & R2 & _).
    exists s1, s2, (hash t1). split; [exact E1|]. rewrite E2. rewrite R1, R2, En. reflexivity.
  Qed.

  (* the root is a function of the map only *)
  Theorem layered_root_is_function_of_map : forall h lv' (b1 b2 : list (list op)), 0 < h ->
    keys_ok (S lv' * h) b1 -> keys_ok (S lv' * h) b2 ->
    (forall k, mget k (fold_left map_batch b1 []) = mget k (fold_left map_batch b2 [])) ->
    exists s1 s2 r, lhist h (S lv') ([], hempty) b1 = Some (s1, r) /\ lhist h (S lv') ([], hempty) b2 = Some (s2, r).
  Proof.
    intros h lv' b1 b2 Hh K1 K2 Hsame.
    destruct (layered_refines h lv' b1 Hh K1) as (s1 & t1 & E1 & _ & R1 & _).
    destruct (layered_refines h lv' b2 Hh K2) as (s2 & t2 & E2 & _ & R2 & _).
    exists s1, s2, (hash t1). split; [exact E1|]. rewrite E2, R1, R2.
    rewrite (root_is_function_of_map hempty hleaf hbranch _ b1 b2 K1 K2 Hsame). reflexivity.
  Qed.
End Top.
