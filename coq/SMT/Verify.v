(* C10 — executable transcription of pkg/trie/smt/verify.go (Verify, CalculateRoot, as repaired by the `fix:` commits:
   query keys must have the trie's key length, the de-duplication key contains the height, conflicting queries for one node are rejected, a query merged into an
   existing node must carry the same hash), proof.go (QueryProofs.sort, isSiblingOf, binaryPath), utils.go
   (insertAndFilterQueries, stripPrefixFalse) and collection/bytes (ToBools, FromBools, Compare, CommonPrefix).
   Keys, values, bitmaps are byte lists (list N); the hash is abstract.  Results: VTrue / VFalse / VErr (Go: (false, err)).
   collection.BinarySearch over the work list (sorted by construction: height descending, key ascending) is modelled as
   "first index whose element the new query sorts before". *)
From Coq Require Import List NArith Bool.
Import ListNotations.
Local Open Scope N_scope.

Inductive verdict := VTrue | VFalse | VErr.

Definition byte_bits (b : N) : list bool := map (fun j => N.testbit b (7 - j)) [0; 1; 2; 3; 4; 5; 6; 7].
Definition to_bools (bs : list N) : list bool := flat_map byte_bits bs.
Fixpoint bits_val (l : list bool) (acc : N) : N :=
  match l with [] => acc | b :: t => bits_val t (2 * acc + (if b then 1 else 0)) end.
Fixpoint chunks8 (fuel : nat) (l : list bool) : list N :=
  match fuel with
  | O => []
  | S f => match l with [] => [] | _ => bits_val (firstn 8 l) 0 :: chunks8 f (skipn 8 l) end
  end.
(* bytes.FromBools: pad with false on the LEFT to a multiple of 8 *)
Definition from_bools (l : list bool) : list N :=
  let r := Nat.modulo (length l) 8 in
  let padded := (if Nat.eqb r 0 then [] else repeat false (8 - r)%nat) ++ l in
  chunks8 (length padded) padded.
Fixpoint strip_false (l : list bool) : list bool :=
  match l with false :: t => strip_false t | _ => l end.

Fixpoint bytes_eqb (a b : list N) : bool :=
  match a, b with
  | [], [] => true
  | x :: a', y :: b' => (x =? y) && bytes_eqb a' b'
  | _, _ => false
  end.
Fixpoint bools_eqb (a b : list bool) : bool :=
  match a, b with
  | [], [] => true
  | x :: a', y :: b' => Bool.eqb x y && bools_eqb a' b'
  | _, _ => false
  end.
(* bytes.Compare(a, b) < 0 *)
Fixpoint bytes_ltb (a b : list N) : bool :=
  match a, b with
  | [], [] => false
  | [], _ :: _ => true
  | _ :: _, [] => false
  | x :: a', y :: b' => if x <? y then true else if y <? x then false else bytes_ltb a' b'
  end.
Fixpoint common_prefix_len (a b : list bool) : nat :=
  match a, b with
  | x :: a', y :: b' => if Bool.eqb x y then S (common_prefix_len a' b') else O
  | _, _ => O
  end.

Section Verify.
  Context {Hsh : Type}.
  Variable hempty : Hsh.
  Variable hleaf : list N -> list N -> Hsh.      (* key bytes, value bytes *)
  Variable hbranch : Hsh -> Hsh -> Hsh.
  Variable heqb : Hsh -> Hsh -> bool.
  Variable hnull : Hsh -> bool.                  (* len(hash) == 0 on the wire *)

  (* wire query and working query (newQueryProof) *)
  Record query := Q { q_key : list N; q_value : list N; q_bitmap : list N }.
  Record wq := W { w_key : list N; w_bm : list bool; w_hash : Hsh }.
  Definition height (w : wq) : nat := length (w_bm w).
  Definition bkey (w : wq) : list bool := to_bools (w_key w).
  Definition bpath (w : wq) : list bool := firstn (height w) (bkey w).
  Definition mk_wq (q : query) : wq :=
    W (q_key q) (strip_false (to_bools (q_bitmap q)))
      (match q_value q with [] => hempty | _ => hleaf (q_key q) (q_value q) end).

  (* QueryProofs.sort order / insertAndFilterQueries predicate: a sorts strictly before b *)
  Definition wq_before (a b : wq) : bool :=
    (Nat.eqb (height a) (height b) && bytes_ltb (w_key a) (w_key b)) || Nat.ltb (height b) (height a).
  Fixpoint sort_ins (x : wq) (l : list wq) : list wq :=
    match l with [] => [x] | y :: t => if wq_before y x then y :: sort_ins x t else x :: l end.
  Definition sort_wq (l : list wq) : list wq := fold_right sort_ins [] l.

  Fixpoint insert_filter (x : wq) (l : list wq) : list wq :=
    match l with
    | [] => [x]
    | y :: t => if wq_before x y
                then (if bools_eqb (bpath x) (bpath y) then l else x :: l)
                else y :: insert_filter x t
    end.

  Definition is_sibling (p q : wq) : bool :=
    Nat.eqb (height p) (height q) &&
    bools_eqb (firstn (height p - 1)%nat (bkey p)) (firstn (height q - 1)%nat (bkey q)) &&
    xorb (nth (height p - 1)%nat (bkey p) false) (nth (height p - 1)%nat (bkey q) false).

  Definition same_node (a b : wq) : bool := Nat.eqb (height a) (height b) && bools_eqb (bpath a) (bpath b).

  (* CalculateRoot main loop; None = error *)
  Fixpoint calc_root (fuel : nat) (sibs : list Hsh) (qs : list wq) : option Hsh :=
    match fuel with
    | O => None
    | S f =>
      match qs with
      | [] => None
      | q :: rest =>
        match w_bm q with
        | [] => Some (w_hash q)
        | b0 :: bm' =>
          let pick : option (Hsh * list wq * list Hsh) :=
            match rest with
            | s :: rest' =>
              if is_sibling q s then
                let se := heqb (w_hash s) hempty in
                let qe := heqb (w_hash q) hempty in
                let sb0 := match w_bm s with x :: _ => x | [] => false end in
                if (se && b0) || (negb se && negb b0) then None
                else if (qe && sb0) || (negb qe && negb sb0) then None
                else if negb (bools_eqb bm' (tl (w_bm s))) then None
                else Some (w_hash s, rest', sibs)
              else if negb b0 then Some (hempty, rest, sibs)
              else match sibs with [] => None | h :: sibs' => Some (h, rest, sibs') end
            | [] =>
              if negb b0 then Some (hempty, rest, sibs)
              else match sibs with [] => None | h :: sibs' => Some (h, rest, sibs') end
            end in
          match pick with
          | None => None
          | Some (sh, rest1, sibs1) =>
            if hnull sh then None
            else
              let dir := nth (height q - 1)%nat (bkey q) false in
              let h' := if dir then hbranch sh (w_hash q) else hbranch (w_hash q) sh in
              let q' := W (w_key q) bm' h' in
              match find (same_node q') rest1 with
              | Some o => if heqb (w_hash o) h' then calc_root f sibs1 rest1 else None
              | None => calc_root f sibs1 (insert_filter q' rest1)
              end
          end
        end
      end
    end.

  Definition calc_fuel (qs : list wq) : nat := S (fold_right (fun q a => (S (height q) + a)%nat) O qs).
  Definition calculate_root (sibs : list Hsh) (qs : list wq) : option Hsh :=
    calc_root (calc_fuel qs) sibs (sort_wq qs).

  (* Verify, first loop: per (queryKey, query) checks; [seen] = the map from query.Key to the last query with it *)
  Fixpoint check_queries (key_length : nat) (keys : list (list N)) (qs : list query) (seen : list query) : verdict :=
    match keys, qs with
    | [], _ => VTrue
    | _ :: _, [] => VFalse
    | k :: keys', q :: qs' =>
      if negb (Nat.eqb (length k) key_length) then VFalse
      else if negb (Nat.eqb (length (q_key q)) key_length) then VFalse
      else
        let early : option verdict :=
          match find (fun s => bytes_eqb (q_key s) (q_key q)) seen with
          | Some s => if negb (bytes_eqb (q_bitmap s) (q_bitmap q)) || negb (bytes_eqb (q_value s) (q_value q))
                      then Some VErr else None
          | None => None
          end in
        match early with
        | Some v => v
        | None =>
          if match q_bitmap q with 0 :: _ => true | _ => false end then VFalse
          else
            let bm := strip_false (to_bools (q_bitmap q)) in
            if Nat.ltb (8 * length (q_key q))%nat (length bm) then VFalse
            else if bytes_eqb k (q_key q) then check_queries key_length keys' qs' (q :: seen)
            else if Nat.ltb (common_prefix_len (to_bools k) (to_bools (q_key q))) (length bm) then VFalse
            else check_queries key_length keys' qs' (q :: seen)
        end
    end.

  (* Verify, second loop: filter duplicates by (height, path); a dropped query must make the same claim *)
  Fixpoint filter_queries (qs : list query) (kept : list wq) : option (list wq) :=
    match qs with
    | [] => Some (rev kept)
    | q :: t =>
      let w := mk_wq q in
      match find (same_node w) kept with
      | Some o => if heqb (w_hash o) (w_hash w) && bools_eqb (w_bm o) (w_bm w) then filter_queries t kept else None
      | None => filter_queries t (w :: kept)
      end
    end.

  Definition verify (keys : list (list N)) (sibs : list Hsh) (qs : list query) (root : Hsh) (key_length : nat) : verdict :=
    if negb (Nat.eqb (length keys) (length qs)) then VFalse
    else match check_queries key_length keys qs [] with
         | VTrue =>
           match filter_queries qs [] with
           | None => VFalse
           | Some ws => match calculate_root sibs ws with
                        | None => VErr
                        | Some r => if heqb root r then VTrue else VFalse
                        end
           end
         | v => v
         end.
End Verify.
