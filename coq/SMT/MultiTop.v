(* C10 — smt.Verify soundness for any number of queries, top level. *)
From Coq Require Import List Bool Arith Lia NArith.
From LE Require Import SMT.Spec SMT.Tree SMT.TreeProofs SMT.Verify SMT.PathProofs SMT.MultiProofs.
Import ListNotations.

Lemma to_bools_length : forall bs, length (to_bools bs) = 8 * length bs.
Proof. induction bs; cbn [to_bools flat_map length]; auto. rewrite app_length. fold (to_bools bs). rewrite IHbs. cbn. lia. Qed.

Section Top.
  Context {V Hsh : Type}.
  Variable hempty : Hsh.
  Variable hleaf : key -> V -> Hsh.
  Variable hleafb : list N -> list N -> Hsh.
  Variable hbranch : Hsh -> Hsh -> Hsh.
  Variable heqb : Hsh -> Hsh -> bool.
  Variable hnull : Hsh -> bool.
  Hypothesis heqb_eq : forall a b, heqb a b = true -> a = b.
  Hypothesis branch_inj : forall a b c d, hbranch a b = hbranch c d -> a = c /\ b = d.
  Hypothesis leaf_not_branch : forall k v a b, hleaf k v <> hbranch a b.
  Hypothesis branch_not_empty : forall a b, hbranch a b <> hempty.
  Notation T := (@T V).
  Notation hash := (hash hempty hleaf hbranch).
  Notation mk := (mk_wq hempty hleafb).
  Notation wq := (@wq Hsh).
  Variable t : T.
  Notation etrue := (etrue hempty hleaf hbranch t).

  Lemma check_queries_wf : forall kl keys qs seen, length keys = length qs ->
    check_queries kl keys qs seen = VTrue -> forall q, In q qs -> wfq (mk q).
  Proof.
    induction keys as [|k keys IH]; intros [|q qs] seen Hl Hc q0 Hq; cbn [length] in Hl; try lia; [destruct Hq|].
    cbn [check_queries] in Hc.
    destruct (negb (Nat.eqb (length k) kl)); [discriminate|].
    destruct (negb (Nat.eqb (length (q_key q)) kl)); [discriminate|].
    destruct (find (fun s => bytes_eqb (q_key s) (q_key q)) seen) as [s|].
    - destruct (negb (bytes_eqb (q_bitmap s) (q_bitmap q)) || negb (bytes_eqb (q_value s) (q_value q))); [discriminate|].
      revert Hc. destruct (match q_bitmap q with 0%N :: _ => true | _ => false end); [discriminate|].
      destruct (Nat.ltb_spec (8 * length (q_key q)) (length (strip_false (to_bools (q_bitmap q))))); [discriminate|].
      intros Hc. destruct Hq as [<-|Hq].
      + unfold wfq, height, bkey. cbn [mk_wq w_bm w_key]. rewrite to_bools_length. lia.
      + destruct (bytes_eqb k (q_key q)); [eapply IH; eauto|].
        destruct (Nat.ltb _ _); [discriminate|]. eapply IH; eauto.
    - revert Hc. destruct (match q_bitmap q with 0%N :: _ => true | _ => false end); [discriminate|].
      destruct (Nat.ltb_spec (8 * length (q_key q)) (length (strip_false (to_bools (q_bitmap q))))); [discriminate|].
      intros Hc. destruct Hq as [<-|Hq].
      + unfold wfq, height, bkey. cbn [mk_wq w_bm w_key]. rewrite to_bools_length. lia.
      + destruct (bytes_eqb k (q_key q)); [eapply IH; eauto|].
        destruct (Nat.ltb _ _); [discriminate|]. eapply IH; eauto.
  Qed.

  Lemma filter_queries_spec : forall qs kept ws,
    filter_queries hempty hleafb heqb qs kept = Some ws ->
    cons kept -> (forall w, In w kept -> wfq w) -> (forall q, In q qs -> wfq (mk q)) ->
    cons ws /\ (forall w, In w ws -> wfq w) /\ (forall w, In w kept -> In w ws) /\
    (forall q, In q qs -> exists o, In o ws /\ same_node o (mk q) = true /\ w_hash o = w_hash (mk q)).
  Proof.
    induction qs as [|q qs IH]; intros kept ws Hf Hc Hw Hq; cbn [filter_queries] in Hf.
    - inversion Hf; subst. split; [|split; [|split]].
      + intros a b Ha Hb. apply Hc; apply in_rev; assumption.
      + intros w Hin. apply Hw. apply in_rev. exact Hin.
      + intros w Hin. apply in_rev. rewrite rev_involutive. exact Hin.
      + intros q [].
    - destruct (find (same_node (mk q)) kept) as [o|] eqn:Ef.
      + destruct (heqb (w_hash o) (w_hash (mk q)) && bools_eqb (w_bm o) (w_bm (mk q))) eqn:Eh; [|discriminate].
        apply andb_true_iff in Eh. destruct Eh as [Eh _]. apply heqb_eq in Eh.
        apply find_some in Ef. destruct Ef as [Ho Hso].
        destruct (IH kept ws Hf Hc Hw) as (A & B & C & Dd); [intros q0 H0; apply Hq; right; exact H0|].
        split; [exact A|]. split; [exact B|]. split; [exact C|].
        intros q0 [<-|H0]; [|apply Dd; exact H0]. exists o. split; [apply C; exact Ho|]. split; [|exact Eh].
        unfold same_node in *. apply andb_true_iff in Hso. destruct Hso as [X Y]. apply Nat.eqb_eq in X. apply bools_eqb_eq in Y.
        rewrite X, Y, Nat.eqb_refl, bools_eqb_refl. reflexivity.
      + assert (Hnone : forall o, In o kept -> same_node (mk q) o = false).
        { intros o Ho. destruct (same_node (mk q) o) eqn:E; [|reflexivity]. eapply find_none in Ef; [|exact Ho]. congruence. }
        destruct (IH (mk q :: kept) ws Hf) as (A & B & C & Dd).
        * intros a b [<-|Ha] [<-|Hb] Hs; auto.
          -- rewrite (Hnone b Hb) in Hs. discriminate.
          -- assert (same_node (mk q) a = true).
             { unfold same_node in *. apply andb_true_iff in Hs. destruct Hs as [X Y]. apply Nat.eqb_eq in X. apply bools_eqb_eq in Y.
               rewrite X, Y, Nat.eqb_refl, bools_eqb_refl. reflexivity. }
             rewrite (Hnone a Ha) in H. discriminate.
        * intros w [<-|Hin]; [apply Hq; left; reflexivity|apply Hw; exact Hin].
        * intros q0 H0. apply Hq. right. exact H0.
        * split; [exact A|]. split; [exact B|]. split; [intros w Hin; apply C; right; exact Hin|].
          intros q0 [<-|H0]; [|apply Dd; exact H0]. exists (mk q). split; [apply C; left; reflexivity|].
          split; [|reflexivity]. unfold same_node. rewrite Nat.eqb_refl, bools_eqb_refl. reflexivity.
  Qed.

  (* MAIN: if Verify accepts against the hash of trie t, every query of the proof ends at a real node of t whose hash
     is the claimed one (leaf hash of (Key, Value) for a non-empty value, the empty hash otherwise) *)
  Theorem verify_sound : forall keys sibs qs kl,
    verify hempty hleafb hbranch heqb hnull keys sibs qs (hash t) kl = VTrue ->
    forall q, In q qs -> etrue (mk q).
  Proof.
    intros keys sibs qs kl Hv q Hq. unfold verify in Hv.
    destruct (Nat.eqb_spec (length keys) (length qs)) as [Hl|]; cbn [negb] in Hv; [|discriminate].
    destruct (check_queries kl keys qs []) eqn:Ec; try discriminate.
    pose proof (check_queries_wf kl keys qs [] Hl Ec) as Hwf.
    destruct (filter_queries hempty hleafb heqb qs []) as [ws|] eqn:Ef; [|discriminate].
    destruct (filter_queries_spec qs [] ws Ef) as (A & B & _ & Dd); [intros a b []|intros w []|exact Hwf|].
    destruct (calculate_root hempty hbranch heqb hnull sibs ws) as [r|] eqn:Er; [|discriminate].
    destruct (heqb (hash t) r) eqn:Eh; [|discriminate]. apply heqb_eq in Eh.
    assert (Hall : forall w, In w ws -> etrue w).
    { unfold calculate_root in Er.
      apply (calc_root_sound hempty hleaf hbranch heqb hnull heqb_eq branch_inj leaf_not_branch branch_not_empty t
               (forall w, In w ws -> etrue w) (calc_fuel ws) sibs (sort_wq ws) r); [|exact Er|symmetry; exact Eh].
      unfold MultiProofs.Inv. split; [apply (sort_wq_hsorted hempty hnull)|]. split; [intros w Hw; apply B; apply (in_sort_wq hempty hnull); exact Hw|]. split.
      - intros a b Ha Hb. apply A; apply (in_sort_wq hempty hnull); assumption.
      - intros Fr w Hw. apply Fr. apply (in_sort_wq hempty hnull). exact Hw. }
    destruct (Dd q Hq) as (o & Ho & Hs & Hh). destruct (Hall o Ho) as (nd & Hsn & Hhn).
    exists nd. rewrite <- (same_node_true _ _ Hs). split; [exact Hsn|congruence].
  Qed.
End Top.
