(* C10 — incremental sparse Merkle tree: insert (with split), delete (with leaf lifting / collapse), batch update.
   This is a reference for pkg/trie/smt/smt.go updateSubtree/updateNode + utils.go calculateSubTree: it keeps the
   canonical LIP-0039 shape (no branch with <2 leaves below) but not the 8-bit sub-tree storage layout, which is tied
   behaviourally by the correspondence runs. *)
From Coq Require Import List Bool.
From LE Require Import SMT.Spec.
Import ListNotations.

Section Tree.
  Context {V Hsh : Type}.
  Variable hempty : Hsh.
  Variable hleaf : key -> V -> Hsh.
  Variable hbranch : Hsh -> Hsh -> Hsh.

  Inductive T := E | L (k : key) (v : V) | B (l r : T).
  Fixpoint hash (t : T) : Hsh :=
    match t with E => hempty | L k v => hleaf k v | B l r => hbranch (hash l) (hash r) end.
  Fixpoint tomap (t : T) : list (key * V) :=
    match t with E => [] | L k v => [(k, v)] | B l r => tomap l ++ tomap r end.

  (* two distinct leaves below position i: branch until the bits differ (d = levels left) *)
  Fixpoint split (d i : nat) (k : key) (v : V) (k' : key) (v' : V) : T :=
    match d with
    | O => L k v
    | S d' =>
      match bit i k, bit i k' with
      | false, true => B (L k v) (L k' v')
      | true, false => B (L k' v') (L k v)
      | false, false => B (split d' (S i) k v k' v') E
      | true, true => B E (split d' (S i) k v k' v')
      end
    end.
  Fixpoint ins (d i : nat) (k : key) (v : V) (t : T) {struct t} : T :=
    match t with
    | E => L k v
    | L k' v' => if key_eqb k k' then L k v else split d i k v k' v'
    | B l r => match d with
               | O => t
               | S d' => if bit i k then B l (ins d' (S i) k v r) else B (ins d' (S i) k v l) r
               end
    end.
  (* calculateSubTree: (empty,empty) -> empty; (empty,leaf)/(leaf,empty) -> the leaf moves up *)
  Definition collapse (l r : T) : T :=
    match l, r with
    | E, E => E
    | L k v, E => L k v
    | E, L k v => L k v
    | _, _ => B l r
    end.
  Fixpoint del (d i : nat) (k : key) (t : T) {struct t} : T :=
    match t with
    | E => E
    | L k' v' => if key_eqb k k' then E else t
    | B l r => match d with
               | O => t
               | S d' => if bit i k then collapse l (del d' (S i) k r) else collapse (del d' (S i) k l) r
               end
    end.

  Definition tree_apply (n : nat) (t : T) (o : op) : T :=
    match snd o with Some v => ins n 0 (fst o) v t | None => del n 0 (fst o) t end.
  Definition batch_update (n : nat) (t : T) (ops : list op) : T := fold_left (tree_apply n) (dedupe [] ops) t.

  Fixpoint tsize (t : T) : nat := match t with E => 0 | L _ _ => 1 | B l r => tsize l + tsize r end.
End Tree.
Arguments E {V}.
Arguments L {V}.
Arguments B {V}.
