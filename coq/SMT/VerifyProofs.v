(* C10 — the faithful CalculateRoot model, run on ONE query, is exactly the path recomputation of SMT.PathProofs. *)
From Coq Require Import List Bool Arith Lia NArith.
From LE Require Import SMT.Spec SMT.Tree SMT.Verify SMT.PathProofs.
Import ListNotations.

Section Single.
  Context {Hsh : Type}.
  Variable hempty : Hsh.
  Variable hbranch : Hsh -> Hsh -> Hsh.
  Variable heqb : Hsh -> Hsh -> bool.
  Variable hnull : Hsh -> bool.
  Hypothesis no_null : forall h, hnull h = false.      (* hashes on the wire are never zero-length *)

  Lemma calc_root_single : forall bm fuel kb sibs h, length bm < fuel ->
    calc_root hempty hbranch heqb hnull fuel sibs [W kb bm h] = recompute hempty hbranch (to_bools kb) bm sibs h.
  Proof.
    induction bm as [|b0 bm IH]; intros fuel kb sibs h Hf; (destruct fuel as [|f]; [cbn [length] in Hf; lia|]).
    - reflexivity.
    - cbn [length] in Hf. cbn [calc_root w_bm recompute].
      unfold height, bkey. cbn [w_bm w_key length w_hash]. replace (S (length bm) - 1) with (length bm) by lia.
      destruct b0; cbn [negb].
      + destruct sibs as [|s sibs']; [reflexivity|]. rewrite no_null. cbn [find insert_filter].
        destruct (nth (length bm) (to_bools kb) false); apply IH; lia.
      + rewrite no_null. cbn [find insert_filter].
        destruct (nth (length bm) (to_bools kb) false); apply IH; lia.
  Qed.

  Lemma calculate_root_single : forall kb bm sibs h,
    calculate_root hempty hbranch heqb hnull sibs [W kb bm h] = recompute hempty hbranch (to_bools kb) bm sibs h.
  Proof.
    intros. unfold calculate_root, calc_fuel, sort_wq. cbn [fold_right sort_ins]. apply calc_root_single.
    unfold height. cbn [w_bm]. lia.
  Qed.
End Single.
