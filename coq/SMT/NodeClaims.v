(* C10 — what a true node statement means for the map: if the sub-tree of a well-formed trie at path p hashes to a leaf
   hash (qk, v) then (qk, v) is in the map and it is the only key of the map below p; if it hashes to the empty hash
   then no key of the map lies below p. *)
From Coq Require Import List Bool Arith Lia.
From LE Require Import SMT.Spec SMT.Tree SMT.TreeProofs SMT.PathProofs.
Import ListNotations.

Section Claims.
  Context {V Hsh : Type}.
  Variable hempty : Hsh.
  Variable hleaf : key -> V -> Hsh.
  Variable hbranch : Hsh -> Hsh -> Hsh.
  Hypothesis leaf_inj : forall k v k' v', length k = length k' -> hleaf k v = hleaf k' v' -> k = k' /\ v = v'.
  Hypothesis leaf_not_branch : forall k v a b, hleaf k v <> hbranch a b.
  Hypothesis leaf_not_empty : forall k v, hleaf k v <> hempty.
  Hypothesis branch_not_empty : forall a b, hbranch a b <> hempty.
  Notation hash := (hash hempty hleaf hbranch).

  Lemma below : forall n (t nd : @T V) p kv, wf n 0 t -> subtree_at t p = Some nd ->
    In kv (tomap t) -> firstn (length p) (fst kv) = p -> In kv (tomap nd).
  Proof.
    intros n t nd p kv Hwf Hs Hin Hpre. eapply (subtree_keys p t n 0); eauto.
    intros j Hj. cbn [Nat.add]. rewrite <- Hpre at 1. rewrite bit_firstn by lia. reflexivity.
  Qed.

  Theorem node_claims : forall n (t nd : @T V) p, wf n 0 t -> subtree_at t p = Some nd ->
    (forall qk v, length qk = n -> hash nd = hleaf qk v ->
       In (qk, v) (tomap t) /\ forall k v', In (k, v') (tomap t) -> firstn (length p) k = p -> k = qk /\ v' = v) /\
    (hash nd = hempty -> forall k v', In (k, v') (tomap t) -> firstn (length p) k <> p).
  Proof.
    intros n t nd p Hwf Hs. split.
    - intros qk v Hqk Hh.
      assert (Hnd : nd = L qk v).
      { destruct nd as [|k0 v0|l r]; cbn [Tree.hash] in Hh.
        - symmetry in Hh. apply leaf_not_empty in Hh. contradiction.
        - assert (Hin0 : In (k0, v0) (tomap t)) by (eapply subtree_incl; eauto; left; reflexivity).
          pose proof (wf_keys t n 0 (k0, v0) Hwf Hin0) as Hl0. cbn [fst Nat.add] in Hl0.
          apply leaf_inj in Hh; [|lia]. destruct Hh; subst; reflexivity.
        - symmetry in Hh. apply leaf_not_branch in Hh. contradiction. }
      subst nd. split.
      + eapply subtree_incl; eauto. left; reflexivity.
      + intros k v' Hin Hpre. pose proof (below n t _ p (k, v') Hwf Hs Hin Hpre) as H. destruct H as [E|[]]. inversion E; auto.
    - intros Hh k v' Hin Hpre.
      assert (Hnd : nd = E).
      { destruct nd as [|k0 v0|l r]; cbn [Tree.hash] in Hh; auto.
        - apply leaf_not_empty in Hh. contradiction.
        - apply branch_not_empty in Hh. contradiction. }
      subst nd. destruct (below n t _ p (k, v') Hwf Hs Hin Hpre).
  Qed.
End Claims.
