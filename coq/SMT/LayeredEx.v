(* C10 — a free (injective, domain-separated) hash with a decidable equality: witnesses that the hash hypotheses of the
   layered refinement theorems are satisfiable; used by the non-vacuity examples of Properties/C10.v. *)
From Coq Require Import List Bool Arith.
From LE Require Import SMT.Spec SMT.TreeProofs.
Import ListNotations.

Inductive xh := XE | XL (k : key) (v : nat) | XB (l r : xh).
Fixpoint xh_eqb (a b : xh) : bool :=
  match a, b with
  | XE, XE => true
  | XL k v, XL k' v' => key_eqb k k' && Nat.eqb v v'
  | XB l r, XB l' r' => xh_eqb l l' && xh_eqb r r'
  | _, _ => false
  end.
Lemma xh_eqb_spec : forall a b, xh_eqb a b = true <-> a = b.
Proof.
  induction a as [|k v|l IHl r IHr]; destruct b as [|k' v'|l' r']; cbn [xh_eqb]; split; intros H; try discriminate; auto.
  - apply andb_prop in H. destruct H as [H1 H2]. apply key_eqb_true in H1. apply Nat.eqb_eq in H2. congruence.
  - inversion H; subst. rewrite key_eqb_refl, Nat.eqb_refl. reflexivity.
  - apply andb_prop in H. destruct H as [H1 H2]. apply IHl in H1. apply IHr in H2. congruence.
  - inversion H; subst. apply andb_true_intro. split; [apply IHl|apply IHr]; reflexivity.
Qed.
Lemma xh_hyps :
  (forall a b, xh_eqb a b = true <-> a = b) /\
  (forall a b c d, XB a b = XB c d -> a = c /\ b = d) /\
  (forall k v k' v', length k = length k' -> XL k v = XL k' v' -> k = k' /\ v = v') /\
  (forall k v a b, XL k v <> XB a b) /\ (forall k v, XL k v <> XE) /\ (forall a b, XB a b <> XE).
Proof.
  split; [exact xh_eqb_spec|]. split; [intros a b c d H; inversion H; auto|].
  split; [intros k v k' v' _ H; inversion H; auto|]. repeat split; intros; discriminate.
Qed.
