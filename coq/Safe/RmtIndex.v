(* C09 — index arithmetic of pkg/trie/rmt calculatePathNodes (used by VerifyProof and CalculateRootFromUpdateData) with
   EXPLICIT panic outcomes: every Go slice index / string index is [nth_error] and yields [Panic] when out of range, every
   loop carries fuel and yields [OutOfFuel] when it runs out; nothing is hidden behind a Gallina default.
   Modelled: newNodeLocation (strconv.FormatInt / numStr[0] / numStr[1:] / ParseInt(.., 2, 32), int(height) arithmetic),
   getRightSiblingInfo (structure[siblingLayerIndex], the shift loop), nodeLocation.index (uint64 subtraction, the padding
   loop, ParseInt), indexes.sort / insert / findInsertIndex (binary search with low = -1, arr[middle], original[index]),
   the result / parentCache maps, queryHashes[i], sortedIndexes[0], copiedSiblings[0].
   Abstracted (cannot panic): the hash values (N) and branchHash; getHeight / getLayerStructure are floating-point code: they
   enter as parameters [gh], [gls] and the totality theorem holds for EVERY pair with len(gls size) = gh size <= 4096
   (in Go: one append per layer < height; height <= 65). *)
From Coq Require Import List NArith ZArith Arith Bool.
From LE Require Import Codec.Varint Codec.Reader.
Import ListNotations.
Local Open Scope N_scope.

Inductive ch := Minus | D0 | D1.
Definition ch_eqb (a b : ch) : bool :=
  match a, b with Minus, Minus | D0, D0 | D1, D1 => true | _, _ => false end.

Fixpoint pbits (p : positive) : list ch :=
  match p with xH => [D1] | xO q => pbits q ++ [D0] | xI q => pbits q ++ [D1] end.
Definition nbits (n : N) : list ch := match n with N0 => [D0] | Npos p => pbits p end.
(* strconv.FormatInt(int64(v), 2) for a uint64 v *)
Definition fmt2 (v : N) : list ch := if v <? 2^63 then nbits v else Minus :: nbits (2^64 - v).
Definition blen (v : N) : nat := length (fmt2 v).

Fixpoint digits (s : list ch) (acc : N) : option N :=
  match s with
  | [] => Some acc
  | D0 :: t => digits t (2 * acc)
  | D1 :: t => digits t (2 * acc + 1)
  | Minus :: _ => None
  end.
(* strconv.ParseInt(s, 2, 32): None = error (empty, bad syntax, out of the int32 range) *)
Definition parse2_32 (s : list ch) : option Z :=
  match s with
  | [] => None
  | Minus :: t => match t with [] => None | _ =>
                    match digits t 0 with Some v => if v <=? 2^31 then Some (- Z.of_N v)%Z else None | None => None end end
  | _ => match digits s 0 with Some v => if v <? 2^31 then Some (Z.of_N v) else None | None => None end
  end.

Definition znth {A} (l : list A) (z : Z) : option A := if (z <? 0)%Z then None else nth_error l (Z.to_nat z).
Definition gerr {A} : res A := Err ErrInvalidData.   (* any Go error / (nil, false) result *)

(* newNodeLocation(index, height) -> (nodeIndex, layerIndex) *)
Definition new_node_location (index height : N) : res (N * N) :=
  let numStr := fmt2 index in
  match nth_error numStr 0 with                               (* numStr[0] *)
  | None => Panic
  | Some c0 =>
    if negb (ch_eqb c0 D1) then gerr else
    let rest := skipn 1 numStr in                            (* numStr[1:] *)
    match parse2_32 rest with
    | None => gerr
    | Some ni =>
      let layer := (to_int height - Z.of_nat (length rest))%Z in
      if (layer <? 0)%Z then gerr else Ok (to_u64 ni, Z.to_N layer)
    end
  end.

(* for sib >= uint64(structure[l]) && l > 0 { sib <<= 1; l -= 1 } *)
Fixpoint rsi_loop (fuel : nat) (structure : list Z) (sib l : N) : res (N * N) :=
  if N.of_nat (length structure) <=? l then Panic else
  match nth_error structure (N.to_nat l) with                (* structure[siblingLayerIndex] *)
  | None => Panic
  | Some m =>
    if (to_u64 m <=? sib) && (0 <? l) then
      match fuel with O => OutOfFuel | S f => rsi_loop f structure ((sib * 2) mod 2^64) (l - 1) end
    else Ok (sib, l)
  end.

(* getRightSiblingInfo: None = (nil, false) *)
Definition right_sibling (structure : list Z) (ni li size : N) : res (option (N * N)) :=
  let sib := ((ni / 2) * 2 + (ni + 1) mod 2) mod 2^64 in
  bind (rsi_loop (length structure) structure sib li) (fun '(s, l) =>
    if size <=? s then Ok None else Ok (Some (s, l))).

Definition pad_limit : Z := 4096.
(* nodeLocation.index(height) *)
Definition loc_index (ni li height : N) : res N :=
  let len := to_u64 (Z.of_N height - Z.of_N li) in           (* uint64 subtraction *)
  if len =? 0 then gerr else
  let numStr := fmt2 ni in
  let target := to_int len in                                (* int(length) *)
  let count := (target - Z.of_nat (length numStr))%Z in      (* iterations of: for len(numStr) < int(length) { "0" + numStr } *)
  if (pad_limit <? count)%Z then OutOfFuel else
  match parse2_32 (D1 :: repeat D0 (Z.to_nat count) ++ numStr) with
  | None => gerr
  | Some z => Ok (to_u64 z)
  end.

(* ---- indexes ---- *)
Definition idx_less (a b : N) : bool := if Nat.eqb (blen a) (blen b) then a <? b else b <? a.
Fixpoint ins_sorted (x : N) (l : list N) : list N :=
  match l with [] => [x] | y :: t => if idx_less x y then x :: l else y :: ins_sorted x t end.
Definition idx_sort (l : list N) : list N := fold_right ins_sorted [] l.

Fixpoint find_insert_index (fuel : nat) (arr : list N) (idx : N) (low high : Z) : res Z :=
  if (1 + low <? high)%Z then
    match fuel with
    | O => OutOfFuel
    | S f =>
      let middle := (low + (high - low) / 2)%Z in
      match znth arr middle with                             (* arr[middle] *)
      | None => Panic
      | Some mv =>
        if mv =? idx then Ok middle else
        if Nat.eqb (blen idx) (blen mv)
        then (if idx <? mv then find_insert_index f arr idx low middle else find_insert_index f arr idx middle high)
        else (if mv <? idx then find_insert_index f arr idx low middle else find_insert_index f arr idx middle high)
      end
    end
  else Ok high.

Definition idx_insert (l : list N) (idx : N) : res (list N) :=
  bind (find_insert_index (S (length l)) l idx (-1) (Z.of_nat (length l))) (fun index =>
    if (Z.of_nat (length l) <=? index)%Z then Ok (l ++ [idx]) else
    match znth l index with                                  (* original[index] *)
    | None => Panic
    | Some x => if x =? idx then Ok l else Ok (firstn (Z.to_nat index) l ++ idx :: skipn (Z.to_nat index) l)
    end).

(* ---- maps ---- *)
Definition amap := list (N * N).
Fixpoint mget (m : amap) (k : N) : option N :=
  match m with [] => None | (k', v) :: t => if k' =? k then Some v else mget t k end.
Definition mset (m : amap) (k v : N) : amap := (k, v) :: m.

Section Cpn.
Variable bh : N -> N -> N.                 (* branchHash(concat(a, b)) *)
Variable gh : N -> N.                      (* getHeight *)
Variable gls : N -> list Z.                (* getLayerStructure *)

(* first loop: for i, idx := range idxs { ... queryHashes[i] ... } *)
Fixpoint collect (qh : list N) (idxs : list N) (i : nat) (sorted : list N) (result : amap) : res (list N * amap) :=
  match idxs with
  | [] => Ok (sorted, result)
  | idx :: t =>
    if idx =? 0 then collect qh t (S i) sorted result else
    match mget result idx with
    | Some existing =>
      match nth_error qh i with                              (* queryHashes[i] *)
      | None => Panic
      | Some q => if negb (existing =? q) then gerr else collect qh t (S i) sorted result
      end
    | None =>
      match nth_error qh i with
      | None => Panic
      | Some q => collect qh t (S i) (sorted ++ [idx]) (mset result idx q)
      end
    end
  end.

Fixpoint cpn_loop (fuel : nat) (size height : N) (sorted : list N) (result cache : amap) (sibs : list N) : res amap :=
  match sorted with
  | [] => Ok result
  | _ =>
    match nth_error sorted 0 with                            (* sortedIndexes[0] *)
    | None => Panic
    | Some idx =>
      if idx =? 2 then Ok result else
      match (match mget result idx with Some h => Some h | None => mget cache idx end) with
      | None => gerr
      | Some current =>
        let parent := idx / 2 in
        bind (new_node_location idx height) (fun '(ni, li) =>
        bind (right_sibling (gls size) ni li size) (fun so =>
        bind (match so with
              | Some (sni, sli) =>
                bind (loc_index sni sli height) (fun sidx =>
                bind (match mget result sidx with
                      | Some h => Ok (h, sibs)
                      | None => if Nat.eqb (length sibs) 0 then gerr else
                                match nth_error sibs 0 with  (* copiedSiblings[0] *)
                                | None => Panic
                                | Some h => Ok (h, skipn 1 sibs)
                                end
                      end) (fun '(sh, sibs') =>
                  let ph := if N.even idx then bh current sh else bh sh current in
                  match mget result parent with
                  | Some e => if negb (e =? ph) then gerr else Ok (mset result parent ph, cache, sibs')
                  | None => Ok (mset result parent ph, cache, sibs')
                  end))
              | None =>
                (* no sibling: a hash claimed for the parent index must be the child's hash (373680a) *)
                match mget result parent with
                | Some e => if negb (e =? current) then gerr else Ok (result, mset cache parent current, sibs)
                | None => Ok (result, mset cache parent current, sibs)
                end
              end) (fun '(result', cache', sibs') =>
        bind (idx_insert (skipn 1 sorted) parent) (fun sorted' =>   (* sortedIndexes[1:], insert *)
          match fuel with
          | O => OutOfFuel
          | S f => cpn_loop f size height sorted' result' cache' sibs'
          end))))
      end
    end
  end.

Definition measure (l : list N) : nat := fold_right (fun x a => (blen x + a)%nat) 0%nat l.

Definition calculate_path_nodes (qh : list N) (size : N) (idxs sibs : list N) : res amap :=
  if negb (Nat.eqb (length qh) (length idxs)) then gerr else
  if Nat.eqb (length qh) 0 then gerr else
  bind (collect qh idxs 0 [] []) (fun '(sorted, result) =>
    let s := idx_sort sorted in
    cpn_loop (measure s) size (gh size) s result [] sibs).

(* 0399db1: every non-zero proof index must name a node of a tree of [size] leaves *)
Fixpoint idxs_valid (size height : N) (idxs : list N) : res bool :=
  match idxs with
  | [] => Ok true
  | idx :: t =>
    if idx =? 0 then idxs_valid size height t else
    match new_node_location idx height with
    | Ok (ni, li) => if N.shiftr (size - 1) li <? ni then Ok false else idxs_valid size height t
    | Err _ => Ok false
    | Panic => Panic
    | OutOfFuel => OutOfFuel
    end
  end.

(* VerifyProof *)
Definition verify_proof (qh : list N) (size : N) (idxs sibs : list N) (root : N) : res bool :=
  if size =? 0 then Ok false else
  match idxs_valid size (gh size) idxs with
  | Ok false => Ok false
  | Err _ => Ok false
  | Panic => Panic
  | OutOfFuel => OutOfFuel
  | Ok true =>
  match calculate_path_nodes qh size idxs sibs with
  | Ok tree => match mget tree 2 with Some r => Ok (r =? root) | None => Ok false end
  | Err _ => Ok false
  | Panic => Panic
  | OutOfFuel => OutOfFuel
  end
  end.

End Cpn.

(* exact integer versions of getHeight / getLayerStructure (equal to the floating-point Go code for size <= 2^53): the instance
   on which the model is evaluated against the implementation *)
Definition gh_int (size : N) : N := N.log2_up size + 1.
Fixpoint layer_max (j : nat) (mx r : N) : N :=
  match j with
  | O => mx
  | S j' => let mx' := if N.even r then mx / 2 else (mx + 1) / 2 in layer_max j' mx' (r + mx mod 2)
  end.
Definition gls_int (size : N) : list Z :=
  map (fun layer => Z.of_N (layer_max layer size 0)) (seq 0 (N.to_nat (gh_int size))).
