(* Totality of the rmt index arithmetic: calculatePathNodes / VerifyProof never panic and never exhaust their fuel, for
   every list of query hashes, size, indexes and sibling hashes; the main loop runs at most 65 * len(idxs) times. *)
From Coq Require Import List NArith ZArith Arith Lia Bool.
From Coq Require Import ZifyBool ZifyN ZifyNat.
From LE Require Import Codec.Varint Codec.Reader Safe.RmtIndex.
Import ListNotations.
Local Open Scope N_scope.

Definition fine {A} (x : res A) : Prop := match x with Ok _ | Err _ => True | Panic | OutOfFuel => False end.

Lemma fine_bind : forall A B (x : res A) (f : A -> res B),
  fine x -> (forall a, x = Ok a -> fine (f a)) -> fine (bind x f).
Proof. intros A B x f Hx Hf. destruct x; cbn in *; auto. Qed.

(* ---- strconv.FormatInt ---- *)
Lemma pbits_head : forall p, exists t, pbits p = D1 :: t.
Proof.
  induction p as [q [t IH]|q [t IH]|]; cbn [pbits].
  - rewrite IH. eexists. reflexivity.
  - rewrite IH. eexists. reflexivity.
  - eexists. reflexivity.
Qed.

Lemma pbits_length : forall p, (1 <= length (pbits p) <= 64)%nat \/ (64 < length (pbits p))%nat.
Proof. intros. destruct (pbits_head p) as [t E]. rewrite E. cbn. lia. Qed.

Lemma blen_pos : forall v, (1 <= blen v)%nat.
Proof.
  intros v. unfold blen, fmt2. destruct (v <? 2^63); [|cbn; lia].
  destruct v as [|p]; cbn; [lia|]. destruct (pbits_head p) as [t E]. rewrite E. cbn. lia.
Qed.

(* what new_node_location needs to succeed, and what it returns *)
Lemma nnl_inv : forall idx h ni li, new_node_location idx h = Ok (ni, li) ->
  exists q, (idx = Npos (xO q) \/ idx = Npos (xI q)) /\ idx < 2^63 /\
            (0 <= to_int h - Z.of_nat (length (pbits q)))%Z /\ li = Z.to_N (to_int h - Z.of_nat (length (pbits q))).
Proof.
  intros idx h ni li H. unfold new_node_location, fmt2 in H.
  destruct (N.ltb_spec idx (2^63)) as [Hlt|Hge].
  - destruct idx as [|p]; [cbn in H; discriminate|].
    cbn [nbits] in H. destruct (pbits_head p) as [t E]. rewrite E in H. cbn [nth_error ch_eqb negb skipn] in H.
    destruct p as [q|q|].
    + cbn [pbits] in E. destruct (pbits_head q) as [t' E']. rewrite E' in E. cbn in E. inversion E; subst t. clear E.
      replace (t' ++ [D1]) with (skipn 1 (pbits q ++ [D1])) in H by (rewrite E'; reflexivity).
      assert (Hl : length (skipn 1 (pbits q ++ [D1])) = length (pbits q)) by (rewrite E'; cbn; rewrite app_length; cbn; lia).
      rewrite Hl in H.
      destruct (parse2_32 _); [|discriminate].
      destruct (Z.ltb_spec (to_int h - Z.of_nat (length (pbits q))) 0); [discriminate|]. inversion H; subst.
      exists q. repeat split; auto.
    + cbn [pbits] in E. destruct (pbits_head q) as [t' E']. rewrite E' in E. cbn in E. inversion E; subst t. clear E.
      replace (t' ++ [D0]) with (skipn 1 (pbits q ++ [D0])) in H by (rewrite E'; reflexivity).
      assert (Hl : length (skipn 1 (pbits q ++ [D0])) = length (pbits q)) by (rewrite E'; cbn; rewrite app_length; cbn; lia).
      rewrite Hl in H.
      destruct (parse2_32 _); [|discriminate].
      destruct (Z.ltb_spec (to_int h - Z.of_nat (length (pbits q))) 0); [discriminate|]. inversion H; subst.
      exists q. repeat split; auto.
    + cbn in E. inversion E; subst t. cbn in H. discriminate.
  - cbn [nth_error ch_eqb negb] in H. discriminate.
Qed.

Lemma nnl_fine : forall idx h, fine (new_node_location idx h).
Proof.
  intros. unfold new_node_location.
  assert (E : exists c t, fmt2 idx = c :: t).
  { pose proof (blen_pos idx) as B. unfold blen in B. destruct (fmt2 idx); [cbn in B; lia|eauto]. }
  destruct E as (c & t & E). rewrite E. cbn [nth_error].
  destruct (negb (ch_eqb c D1)); [exact I|].
  destruct (parse2_32 _); [|exact I]. destruct (_ <? 0)%Z; exact I.
Qed.

(* the parent of an index accepted by new_node_location is one binary digit shorter *)
Lemma blen_half : forall q, Npos (xO q) < 2^63 \/ Npos (xI q) < 2^63 ->
  blen (Npos q) = length (pbits q) /\
  blen (Npos (xO q)) = S (length (pbits q)) /\ blen (Npos (xI q)) = S (length (pbits q)).
Proof.
  intros q H. unfold blen, fmt2.
  assert (Hq : Npos q < 2^63) by lia.
  destruct (N.ltb_spec (Npos q) (2^63)); [|lia]. cbn [nbits]. split; [reflexivity|].
  split.
  - destruct (N.ltb_spec (Npos (xO q)) (2^63)); cbn [nbits pbits length]; rewrite ?app_length; cbn; lia.
  - destruct (N.ltb_spec (Npos (xI q)) (2^63)); cbn [nbits pbits length]; rewrite ?app_length; cbn; lia.
Qed.

(* ---- getRightSiblingInfo ---- *)
Lemma rsi_loop_total : forall fuel structure sib l, l < N.of_nat (length structure) -> (N.to_nat l <= fuel)%nat ->
  exists s l', rsi_loop fuel structure sib l = Ok (s, l') /\ l' <= l.
Proof.
  induction fuel as [|f IH]; intros structure sib l Hl Hf.
  - assert (l = 0) by lia. subst l. cbn [rsi_loop].
    destruct (N.leb_spec (N.of_nat (length structure)) 0); [lia|].
    destruct (nth_error structure (N.to_nat 0)) eqn:E; [|apply nth_error_None in E; lia].
    rewrite andb_false_r. eexists _, _. split; [reflexivity|lia].
  - cbn [rsi_loop]. destruct (N.leb_spec (N.of_nat (length structure)) l); [lia|].
    destruct (nth_error structure (N.to_nat l)) eqn:E; [|apply nth_error_None in E; lia].
    destruct ((to_u64 z <=? sib) && (0 <? l)) eqn:C.
    + apply andb_prop in C. destruct C as [_ C].
      destruct (IH structure ((sib * 2) mod 2 ^ 64) (l - 1)) as (s & l' & Hr & Hle); try lia.
      exists s, l'. split; [exact Hr|lia].
    + eexists _, _. split; [reflexivity|lia].
Qed.

Lemma right_sibling_total : forall structure ni li size, li < N.of_nat (length structure) ->
  match right_sibling structure ni li size with
  | Ok None => True
  | Ok (Some (_, sl)) => sl <= li
  | _ => False
  end.
Proof.
  intros. unfold right_sibling.
  destruct (rsi_loop_total (length structure) structure (((ni / 2) * 2 + (ni + 1) mod 2) mod 2 ^ 64) li H ltac:(lia)) as (s & l' & E & Hle).
  rewrite E. cbn [bind]. destruct (size <=? s); auto.
Qed.

(* ---- nodeLocation.index ---- *)
Lemma loc_index_fine : forall ni li h, li < h -> h <= 4096 -> fine (loc_index ni li h).
Proof.
  intros ni li h Hl Hh. unfold loc_index.
  assert (E : to_u64 (Z.of_N h - Z.of_N li) = h - li).
  { unfold to_u64. rewrite Z.mod_small by lia. lia. }
  rewrite E. destruct (N.eqb_spec (h - li) 0); [exact I|].
  assert (T : to_int (h - li) = Z.of_N (h - li)).
  { unfold to_int. destruct (N.ltb_spec (h - li) (2^63)); [reflexivity|lia]. }
  rewrite T. unfold pad_limit.
  destruct (Z.ltb_spec 4096 (Z.of_N (h - li) - Z.of_nat (length (fmt2 ni)))); [lia|].
  destruct (parse2_32 _); exact I.
Qed.

(* ---- findInsertIndex / insert ---- *)
Lemma fii_total : forall fuel arr idx low high,
  (-1 <= low)%Z -> (low < high)%Z -> (high <= Z.of_nat (length arr))%Z -> (Z.to_nat (high - low) <= fuel)%nat ->
  exists r, find_insert_index fuel arr idx low high = Ok r /\ (low < r <= high)%Z.
Proof.
  induction fuel as [|f IH]; intros arr idx low high H1 H2 H3 Hf.
  - lia.
  - cbn [find_insert_index]. destruct (Z.ltb_spec (1 + low) high) as [Hgap|Hgap].
    + set (middle := (low + (high - low) / 2)%Z).
      assert (Hm : (low < middle < high)%Z).
      { unfold middle. assert (1 <= (high - low) / 2)%Z by (apply Z.div_le_lower_bound; lia).
        assert ((high - low) / 2 < high - low)%Z by (apply Z.div_lt_upper_bound; lia). lia. }
      unfold znth. destruct (Z.ltb_spec middle 0); [lia|].
      destruct (nth_error arr (Z.to_nat middle)) as [mv|] eqn:E; [|apply nth_error_None in E; lia].
      destruct (mv =? idx); [exists middle; split; [reflexivity|lia]|].
      destruct (Nat.eqb (blen idx) (blen mv)).
      * destruct (idx <? mv).
        -- destruct (IH arr idx low middle) as (r & Hr & Hb); try lia. exists r. split; [exact Hr|lia].
        -- destruct (IH arr idx middle high) as (r & Hr & Hb); try lia. exists r. split; [exact Hr|lia].
      * destruct (mv <? idx).
        -- destruct (IH arr idx low middle) as (r & Hr & Hb); try lia. exists r. split; [exact Hr|lia].
        -- destruct (IH arr idx middle high) as (r & Hr & Hb); try lia. exists r. split; [exact Hr|lia].
    + exists high. split; [reflexivity|lia].
Qed.

Lemma measure_app : forall a b, measure (a ++ b) = (measure a + measure b)%nat.
Proof. induction a; intros; cbn [app measure fold_right] in *; [reflexivity|]. fold (measure (a0 ++ b)). fold (measure a0). rewrite IHa. lia. Qed.

Lemma measure_cons : forall x l, measure (x :: l) = (blen x + measure l)%nat.
Proof. reflexivity. Qed.

Lemma idx_insert_total : forall l idx, exists l', idx_insert l idx = Ok l' /\ (measure l' <= measure l + blen idx)%nat.
Proof.
  intros l idx. unfold idx_insert.
  destruct l as [|x0 l0] eqn:El.
  - cbn. eexists. split; [reflexivity|]. cbn. lia.
  - rewrite <- El. assert (Hlen : (1 <= length l)%nat) by (rewrite El; cbn [length]; lia).
    destruct (fii_total (S (length l)) l idx (-1) (Z.of_nat (length l))) as (r & Hr & Hb); try lia.
    rewrite Hr. cbn [bind].
    destruct (Z.leb_spec (Z.of_nat (length l)) r).
    + eexists. split; [reflexivity|]. rewrite measure_app. cbn. lia.
    + unfold znth. destruct (Z.ltb_spec r 0); [lia|].
      destruct (nth_error l (Z.to_nat r)) as [x|] eqn:E; [|apply nth_error_None in E; lia].
      destruct (x =? idx).
      * eexists. split; [reflexivity|lia].
      * eexists. split; [reflexivity|].
        rewrite measure_app, measure_cons.
        rewrite <- (firstn_skipn (Z.to_nat r) l) at 3. rewrite measure_app. lia.
Qed.

Lemma ins_sorted_measure : forall x l, measure (ins_sorted x l) = (blen x + measure l)%nat.
Proof.
  induction l as [|y t IH]; cbn [ins_sorted]; [reflexivity|].
  destruct (idx_less x y); rewrite ?measure_cons, ?IH; lia.
Qed.

Lemma idx_sort_measure : forall l, measure (idx_sort l) = measure l.
Proof. induction l as [|x t IH]; cbn [idx_sort fold_right]; [reflexivity|]. fold (idx_sort t). rewrite ins_sorted_measure, measure_cons, IH. reflexivity. Qed.

Lemma pbits_len_bound : forall p n, Npos p < 2 ^ N.of_nat n -> (length (pbits p) <= n)%nat.
Proof.
  induction p as [q IH|q IH|]; intros n H.
  - destruct n as [|n]; [cbn in H; lia|]. rewrite Nat2N.inj_succ, N.pow_succ_r' in H.
    cbn [pbits]. rewrite app_length. cbn [length]. specialize (IH n ltac:(lia)). lia.
  - destruct n as [|n]; [cbn in H; lia|]. rewrite Nat2N.inj_succ, N.pow_succ_r' in H.
    cbn [pbits]. rewrite app_length. cbn [length]. specialize (IH n ltac:(lia)). lia.
  - destruct n as [|n]; [cbn in H; lia|]. cbn. lia.
Qed.

Lemma blen_le : forall x, x < 2^64 -> (blen x <= 65)%nat.
Proof.
  intros x Hx. unfold blen, fmt2. destruct (N.ltb_spec x (2^63)).
  - destruct x as [|p]; cbn [nbits length]; [lia|].
    pose proof (pbits_len_bound p 63 H). lia.
  - cbn [length]. destruct (2^64 - x) as [|p] eqn:Ep; cbn [nbits length]; [lia|].
    assert (Npos p < 2 ^ N.of_nat 64) by (change (2 ^ N.of_nat 64) with (2^64); lia).
    pose proof (pbits_len_bound p 64 H0). lia.
Qed.

Lemma measure_le : forall l, Forall (fun x => x < 2^64) l -> (measure l <= 65 * length l)%nat.
Proof.
  induction l as [|x t IH]; intros H; cbn [measure fold_right length]; [lia|]. fold (measure t).
  inversion H; subst. pose proof (blen_le x H2). specialize (IH H3). lia.
Qed.

Section Total.
Variable bh : N -> N -> N.
Variable gh : N -> N.
Variable gls : N -> list Z.

Lemma collect_fine : forall qh idxs i sorted result, (i + length idxs <= length qh)%nat ->
  fine (collect qh idxs i sorted result).
Proof.
  intros qh idxs. induction idxs as [|idx t IH]; intros i sorted result H; cbn [collect]; [exact I|].
  cbn [length] in H.
  destruct (idx =? 0); [apply IH; lia|].
  destruct (nth_error qh i) as [q|] eqn:E; [|apply nth_error_None in E; lia].
  destruct (mget result idx).
  - destruct (negb (n =? q)); [exact I|apply IH; lia].
  - apply IH; lia.
Qed.

Variable size : N.
Hypothesis Hstruct : length (gls size) = N.to_nat (gh size).
Hypothesis Hheight : gh size <= 4096.

Lemma cpn_loop_fine : forall fuel sorted result cache sibs, (measure sorted <= fuel)%nat ->
  fine (cpn_loop bh gls fuel size (gh size) sorted result cache sibs).
Proof.
  induction fuel as [|f IH]; intros sorted result cache sibs Hm.
  - destruct sorted as [|x t]; [exact I|]. rewrite measure_cons in Hm. pose proof (blen_pos x). lia.
  - destruct sorted as [|idx rest]; [exact I|]. cbn [cpn_loop nth_error].
    destruct (idx =? 2); [exact I|].
    destruct (match mget result idx with Some h => Some h | None => mget cache idx end) as [current|]; [|exact I].
    apply fine_bind; [apply nnl_fine|]. intros [ni li] Hn.
    destruct (nnl_inv _ _ _ _ Hn) as (q & Hq & Hlt & Hpos & Hli).
    pose proof Hheight as Hh. pose proof Hstruct as Hs.
    assert (Ti : to_int (gh size) = Z.of_N (gh size)).
    { unfold to_int. destruct (N.ltb_spec (gh size) (2^63)); [reflexivity|lia]. }
    assert (Hq1 : (1 <= length (pbits q))%nat) by (destruct (pbits_head q) as [t E]; rewrite E; cbn; lia).
    assert (Hli' : li < gh size) by lia.
    pose proof (right_sibling_total (gls size) ni li size ltac:(lia)) as Hrs.
    destruct (right_sibling (gls size) ni li size) as [so| | |]; try contradiction. cbn [bind].
    assert (Hpar : (measure rest + blen (idx / 2) <= f)%nat).
    { rewrite measure_cons in Hm.
      assert (Hd : blen (idx / 2) = (blen idx - 1)%nat /\ (2 <= blen idx)%nat).
      { destruct Hq as [-> | ->].
        - destruct (blen_half q (or_introl Hlt)) as (B1 & B2 & _).
          assert (N.pos q~0 / 2 = N.pos q) as -> by (symmetry; apply N.div_unique with 0; lia). lia.
        - destruct (blen_half q (or_intror Hlt)) as (B1 & _ & B3).
          assert (N.pos q~1 / 2 = N.pos q) as -> by (symmetry; apply N.div_unique with 1; lia). lia. }
      lia. }
    assert (Hins : forall result' cache' sibs',
      fine (bind (idx_insert (skipn 1 (idx :: rest)) (idx / 2)) (fun sorted' => cpn_loop bh gls f size (gh size) sorted' result' cache' sibs'))).
    { intros. cbn [skipn]. destruct (idx_insert_total rest (idx / 2)) as (l' & El & Hml). rewrite El. cbn [bind]. apply IH. lia. }
    destruct so as [[sni sli]|].
    + apply fine_bind.
      * apply fine_bind; [apply loc_index_fine; lia|]. intros sidx _.
        apply fine_bind.
        -- destruct (mget result sidx); [exact I|].
           destruct sibs as [|s0 st]; cbn; exact I.
        -- intros [sh sibs'] _. destruct (mget result (idx / 2)); [destruct (negb _)|]; exact I.
      * intros [[result' cache'] sibs'] _. apply Hins.
    + destruct (mget result (idx / 2)); [destruct (negb _); [exact I|]|]; cbn [bind]; apply Hins.
Qed.

Theorem calculate_path_nodes_total : forall qh idxs sibs,
  fine (calculate_path_nodes bh gh gls qh size idxs sibs).
Proof.
  intros. unfold calculate_path_nodes.
  destruct (Nat.eqb_spec (length qh) (length idxs)); cbn [negb]; [|exact I].
  destruct (Nat.eqb (length qh) 0); [exact I|].
  apply fine_bind; [apply collect_fine; lia|]. intros [sorted result] _.
  apply cpn_loop_fine. lia.
Qed.

Lemma idxs_valid_fine : forall sz h idxs, fine (idxs_valid sz h idxs).
Proof.
  intros sz h idxs. induction idxs as [|idx t IH]; cbn [idxs_valid]; [exact I|].
  destruct (idx =? 0); [exact IH|].
  pose proof (nnl_fine idx h) as F. destruct (new_node_location idx h) as [[ni li]| | |]; try contradiction; [|exact I].
  destruct (_ <? ni); [exact I|exact IH].
Qed.

Theorem verify_proof_total : forall qh idxs sibs root,
  fine (verify_proof bh gh gls qh size idxs sibs root).
Proof.
  intros. unfold verify_proof. destruct (size =? 0); [exact I|].
  pose proof (idxs_valid_fine size (gh size) idxs) as Fv.
  destruct (idxs_valid size (gh size) idxs) as [[|]| | |]; try contradiction; try exact I.
  pose proof (calculate_path_nodes_total qh idxs sibs) as H.
  destruct (calculate_path_nodes bh gh gls qh size idxs sibs); try contradiction; [|exact I].
  destruct (mget a 2); exact I.
Qed.

(* the loop fuel is bounded by the input: at most 65 iterations per index *)
Theorem cpn_fuel_bound : forall sorted, Forall (fun x => x < 2^64) sorted ->
  (measure (idx_sort sorted) <= 65 * length sorted)%nat.
Proof. intros. rewrite idx_sort_measure. apply measure_le. assumption. Qed.

End Total.

(* the hypotheses of the totality theorems hold for the integer instance, for every uint64 size *)
Lemma gls_int_length : forall size, length (gls_int size) = N.to_nat (gh_int size).
Proof. intros. unfold gls_int. rewrite map_length, seq_length. reflexivity. Qed.

Lemma gh_int_bound : forall size, size < 2^64 -> gh_int size <= 4096.
Proof.
  intros size H. unfold gh_int. destruct (N.eq_dec size 0) as [->|Hz]; [cbn; lia|].
  assert (N.log2_up size <= 64); [|lia].
  apply N.log2_up_le_pow2; lia.
Qed.

Theorem verify_proof_total_int : forall bh qh size idxs sibs root, size < 2^64 ->
  fine (verify_proof bh gh_int gls_int qh size idxs sibs root).
Proof. intros. apply verify_proof_total; [apply gls_int_length|apply gh_int_bound; assumption]. Qed.

Theorem calculate_path_nodes_total_int : forall bh qh size idxs sibs, size < 2^64 ->
  fine (calculate_path_nodes bh gh_int gls_int qh size idxs sibs).
Proof. intros. apply calculate_path_nodes_total; [apply gls_int_length|apply gh_int_bound; assumption]. Qed.
