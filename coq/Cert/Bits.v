(* Model of pkg/crypto/bls.go : type Bits ([]byte), Bits.read, Bits.write, and the bitmap allocated by
   BLSCreateAggSig.  Bit [i] lives in byte [i/8] under mask [1 << (i mod 8)].  Go computes the byte index as
   int(math.Floor(float64(i)/8)), which is i/8 for the non-negative int indices used.  A slice access out of range is
   the explicit outcome [None] (= Go index panic).  Bytes are N (< 256 for well-formed input). *)
From Coq Require Import List NArith Bool Arith.
Import ListNotations.
Local Open Scope N_scope.

Definition byte_ix (i : nat) : nat := Nat.div i 8.
Definition bit_ix (i : nat) : N := N.of_nat (Nat.modulo i 8).

(* (b[byteIndex] >> bitIndex) % 2 == 1 *)
Definition bit_of_byte (x k : N) : bool := ((x / 2 ^ k) mod 2 =? 1).

Definition read_bit (b : list N) (i : nat) : option bool :=
  match nth_error b (byte_ix i) with
  | None => None
  | Some x => Some (bit_of_byte x (bit_ix i))
  end.

(* original[byteIndex] |= 1 << bitIndex, read arithmetically: add the mask unless the bit is already set *)
Definition set_in_byte (x k : N) : N := if bit_of_byte x k then x else x + 2 ^ k.

Fixpoint upd_nth (l : list N) (n : nat) (f : N -> N) : option (list N) :=
  match l, n with
  | [], _ => None
  | x :: t, O => Some (f x :: t)
  | x :: t, S m => match upd_nth t m f with None => None | Some t' => Some (x :: t') end
  end.

(* Bits.write(i, true) *)
Definition write_bit (b : list N) (i : nat) : option (list N) :=
  upd_nth b (byte_ix i) (fun x => set_in_byte x (bit_ix i)).

(* int(math.Ceil(float64(n)/8)) *)
Definition bits_len (n : nat) : nat := Nat.div (n + 7) 8.
Definition zero_bits (n : nat) : list N := repeat 0 (bits_len n).
