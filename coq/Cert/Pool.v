(* Model of the single-commit pool and of the code that fills it (after the repairs in findings/C06.json):
     pkg/consensus/certificate/pool.go   Pool.Has/Add/Cleanup/Select/Get/Upgrade
     pkg/consensus/certificate/certificate.go   SingleCommits.has/GetUntil/GetLargestWithLimit/Sort
     pkg/consensus/certificate.go   singleCommitValidator (steps 1-7), Certify, the Cleanup predicate of broadcastCertificate *)
From Coq Require Import List NArith Bool Arith.
From LE Require Import Cert.Bits Cert.AggCommit.
Import ListNotations.
Local Open Scope N_scope.

Section Pool.
  Variables (sigT msgT : Type).
  Variable msg_of : cert -> msgT.
  Variable vrf : key -> msgT -> sigT -> bool.       (* crypto.BLSVerify(msg, signature, publicKey) *)
  Variable sign_own : cert -> sigT.                  (* Certificate.Sign with the node's BLS secret key *)

  Notation single_commit := (single_commit sigT).

  Record pool := { gossiped : list single_commit; nongossiped : list single_commit }.
  Definition empty_pool : pool := {| gossiped := []; nongossiped := [] |}.

  (* SingleCommits.has: same block ID and validator address *)
  Definition has (l : list single_commit) (c : single_commit) : bool :=
    existsb (fun x => (sc_block x =? sc_block c) && (sc_addr x =? sc_addr c)) l.
  Definition pool_has (p : pool) (c : single_commit) : bool := has (gossiped p) c || has (nongossiped p) c.
  (* Pool.Add (idempotent since da95f3e) *)
  Definition pool_add (p : pool) (c : single_commit) : pool :=
    if pool_has p c then p else {| gossiped := gossiped p; nongossiped := nongossiped p ++ [c] |}.
  Definition pool_size (p : pool) : nat := length (gossiped p) + length (nongossiped p).

  Inductive sres := SReject | SIgnore.

  (* one iteration of the loop of singleCommitValidator; [wf] = result of SingleCommit.Validate (field lengths).
     Result: pool, and Some r when the function returns r at this commit. *)
  Definition scv_one (e : env) (p : pool) (cw : single_commit * bool) : pool * option sres :=
    let (c, wf) := cw in
    if negb wf then (p, Some SReject) else
    (* 1 *) if pool_has p c then (p, None) else
    (* 2 *) match chain_at (e_chain e) (e_mhp e) with
    | None => (p, Some SIgnore)
    | Some fin =>
    if sc_height c <=? h_ac_height fin then (p, None) else
    (* 3 *) if ((sc_height c <? sub32 (e_mhp e) 100) || (e_mhp e <? sc_height c)) && negb (exist_params e (sc_height c))
    then (p, None) else
    (* 4 *) match chain_at (e_chain e) (sc_height c) with
    | None => (p, Some SIgnore)
    | Some hd =>
    if negb (c_block (h_cert hd) =? sc_block c) then (p, None) else
    (* 5 *) match get_params e (sc_height c) with
    | None => (p, Some SIgnore)
    | Some prm =>
    match find_validator (p_validators prm) (sc_addr c) with
    | None => (p, Some SReject)
    | Some v =>
    (* 6 *) if vrf (v_key v) (msg_of (h_cert hd)) (sc_sig c)
    (* 7 *) then (pool_add p c, None) else (p, Some SReject)
    end end end end.

  Fixpoint scv_loop (e : env) (p : pool) (cs : list (single_commit * bool)) : pool * sres :=
    match cs with
    | [] => (p, SIgnore)
    | c :: t => match scv_one e p c with
                | (p', Some r) => (p', r)
                | (p', None) => scv_loop e p' t
                end
    end.

  (* singleCommitValidator; None = payload that DecodeStrict rejects *)
  Definition single_commit_validator (e : env) (p : pool) (m : option (list (single_commit * bool))) : pool * sres :=
    match m with None => (p, SReject) | Some cs => scv_loop e p cs end.

  Definition own_commit (hd : header) (a : N) : single_commit :=
    {| sc_block := c_block (h_cert hd); sc_height := c_height (h_cert hd); sc_addr := a;
       sc_sig := sign_own (h_cert hd); sc_internal := true |}.

  (* body of one goroutine of Certify; bool = returned an error *)
  Definition certify_one (e : env) (p : pool) (a : N) (i : N) : pool * bool :=
    if negb (exist_params e i) then (p, false) else
    match get_params e i with
    | None => (p, true)
    | Some prm =>
        match find_validator (p_validators prm) a with
        | None => (p, false)
        | Some _ => match chain_at (e_chain e) i with
                    | None => (p, true)
                    | Some hd => (pool_add p (own_commit hd a), false)
                    end
        end
    end.

  (* heights i, i+1, ..., n of them (the goroutines all run; their adds commute up to pool order) *)
  Fixpoint certify_range (e : env) (p : pool) (a : N) (i : N) (n : nat) : pool * bool :=
    match n with
    | O => (p, false)
    | S n' => let (p1, err1) := certify_one e p a i in
              let (p2, err2) := certify_range e p1 a (i + 1) n' in (p2, err1 || err2)
    end.

  (* Executer.Certify(from, to, address, sk), for to < 2^32-1; bool = error *)
  Definition certify (e : env) (p : pool) (from to : N) (a : N) : pool * bool :=
    if to <? from then (p, true) else
    let (p1, err) := certify_range e p a (from + 1) (N.to_nat (to - from)) in
    if err then (p1, true) else
    if exist_params e (u32 (to + 1)) then (p1, false) else
    match get_params e to with
    | None => (p1, true)
    | Some prm =>
        match find_validator (p_validators prm) a with
        | None => (p1, false)
        | Some _ => match chain_at (e_chain e) to with
                    | None => (p1, true)
                    | Some hd => (pool_add p1 (own_commit hd a), false)
                    end
        end
    end.

  (* predicate handed to Pool.Cleanup by broadcastCertificate *)
  Definition cleanup_keep (e : env) (remove_height : N) (h : N) : bool :=
    if h <=? remove_height then false else
    if negb ((sub32 (e_mhp e) 100 <=? h) && (h <? e_mhp e)) && negb (exist_params e (u32 (h + 1))) then false
    else true.

  Definition cleanup (p : pool) (keep : N -> bool) : pool :=
    {| gossiped := filter (fun c => keep (sc_height c)) (gossiped p);
       nongossiped := filter (fun c => keep (sc_height c)) (nongossiped p) |}.

  (* Executer.deleteBlock (fix 5889739): the pool drops the commits at or above the height of the removed block *)
  Definition on_delete_block (p : pool) (height : N) : pool := cleanup p (fun h => h <? height).

  (* SingleCommits.Sort: ascending by height; stable insertion sort (what sort.Slice does below 12 elements) *)
  Fixpoint insert_h (x : single_commit) (l : list single_commit) : list single_commit :=
    match l with
    | [] => [x]
    | y :: t => if sc_height y <? sc_height x then y :: insert_h x t else x :: y :: t
    end.
  Definition sort_h (l : list single_commit) : list single_commit := fold_right insert_h [] l.

  Fixpoint get_until (l : list single_commit) (h : N) : list single_commit :=
    match l with
    | [] => []
    | c :: t => if h <=? sc_height c then [] else c :: get_until t h
    end.

  (* GetLargestWithLimit over the reversed list *)
  Fixpoint largest_rev (lrev : list single_commit) (limit : nat) (internal : bool) (acc : list single_commit)
    : list single_commit :=
    match lrev with
    | [] => acc
    | x :: t =>
        let acc' := if Bool.eqb (sc_internal x) internal then acc ++ [x] else acc in
        if Nat.leb limit (length acc') then acc' else largest_rev t limit internal acc'
    end.
  Definition largest_with_limit (l : list single_commit) (limit : nat) (internal : bool) : list single_commit :=
    largest_rev (rev l) limit internal [].

  (* Pool.Select(maxHeightPrecommited, limit): returns the selection and the pool (whose lists got sorted) *)
  Definition select (p : pool) (mhp : N) (limit : nat) : list single_commit * pool :=
    let mx := if 100 <? mhp then mhp - 100 else 0 in
    let ng := sort_h (nongossiped p) in
    let r1 := get_until ng mx in
    if Nat.leb limit (length r1) then (firstn limit r1, {| gossiped := gossiped p; nongossiped := ng |}) else
    let g := sort_h (gossiped p) in
    let p' := {| gossiped := g; nongossiped := ng |} in
    let r2 := r1 ++ get_until g mx in
    if Nat.leb limit (length r2) then (firstn limit r2, p') else
    let r3 := r2 ++ largest_with_limit ng (limit - length r2) true in
    if Nat.leb limit (length r3) then (firstn limit r3, p') else
    let r4 := r3 ++ largest_with_limit ng (limit - length r3) false in
    if Nat.leb limit (length r4) then (firstn limit r4, p') else (r4, p').

  (* Pool.Upgrade(commits) *)
  Definition upgrade (p : pool) (cs : list single_commit) : pool :=
    {| gossiped := gossiped p ++ filter (fun c => has cs c) (nongossiped p);
       nongossiped := filter (fun c => negb (has cs c)) (nongossiped p) |}.
  (* Executer.broadcastCertificate: cleanup with the current BFT heights, selection sized by the validators of the tip,
     publish, upgrade.  [tip] = height of the last block, [published] = whether conn.Publish succeeded. *)
  Definition broadcast_certificate (e : env) (tip : N) (published : bool) (p : pool) : pool :=
    match chain_at (e_chain e) (e_mhp e) with
    | None => p
    | Some fin =>
        let p1 := cleanup p (cleanup_keep e (h_ac_height fin)) in
        if Nat.eqb (pool_size p1) 0 then p1 else
        match get_params e tip with
        | None => p1
        | Some prm =>
            let (sel, p2) := select p1 (e_mhp e) (length (p_validators prm)) in
            match sel with
            | [] => p2
            | _ => if published then upgrade p2 sel else p2
            end
        end
    end.

End Pool.

Arguments gossiped {sigT} _.
Arguments nongossiped {sigT} _.
Arguments Build_pool {sigT} _ _.
Arguments has {sigT} _ _.
Arguments pool_has {sigT} _ _.
Arguments pool_add {sigT} _ _.
Arguments scv_one {sigT msgT} _ _ _ _ _.
Arguments scv_loop {sigT msgT} _ _ _ _ _.
Arguments single_commit_validator {sigT msgT} _ _ _ _ _.
Arguments own_commit {sigT} _ _ _.
Arguments certify_one {sigT} _ _ _ _ _.
Arguments certify_range {sigT} _ _ _ _ _ _.
Arguments certify {sigT} _ _ _ _ _ _.
Arguments cleanup {sigT} _ _.
Arguments on_delete_block {sigT} _ _.
Arguments select {sigT} _ _ _.
Arguments upgrade {sigT} _ _.
Arguments broadcast_certificate {sigT} _ _ _ _.
Arguments sort_h {sigT} _.
Arguments get_until {sigT} _ _.
Arguments largest_with_limit {sigT} _ _ _.
