(* assemble_accepts: an aggregate commit that GetAggregateCommit assembles from a pool of valid, duplicate-free single
   commits is accepted by verifyAggregateCommit — for every signer subset and every chain position. *)
From Coq Require Import List NArith ZArith Bool Arith Lia ZifyBool ZifyN ZifyNat Permutation.
From LE Require Import Cert.Bits Cert.BitsProofs Cert.AggCommit Cert.AggCommitProofs.
Import ListNotations.
Local Open Scope N_scope.

(* ---- find_validator *)
Lemma find_validator_some : forall l a v, find_validator l a = Some v -> In v l /\ v_addr v = a.
Proof.
  induction l; simpl; intros; try discriminate.
  destruct (v_addr a =? a0) eqn:E.
  - inversion H; subst. apply N.eqb_eq in E. auto.
  - destruct (IHl _ _ H). auto.
Qed.

Lemma find_validator_in : forall l v, NoDup (map v_addr l) -> In v l -> find_validator l (v_addr v) = Some v.
Proof.
  induction l; simpl; intros; try tauto.
  inversion H; subst. destruct H0.
  - subst. rewrite N.eqb_refl; auto.
  - destruct (v_addr a =? v_addr v) eqn:E.
    + apply N.eqb_eq in E. exfalso. apply H3. rewrite E. apply in_map; auto.
    + apply IHl; auto.
Qed.

Lemma find_validator_perm : forall l l' a, Permutation l l' -> NoDup (map v_addr l) ->
  find_validator l a = find_validator l' a.
Proof.
  intros. assert (NoDup (map v_addr l')) by (eapply Permutation_NoDup; [apply Permutation_map; eauto | auto]).
  destruct (find_validator l a) eqn:E1.
  - apply find_validator_some in E1. destruct E1; subst. symmetry. apply find_validator_in; auto.
    eapply Permutation_in; eauto.
  - destruct (find_validator l' a) eqn:E2; auto.
    apply find_validator_some in E2. destruct E2; subst.
    rewrite find_validator_in in E1; auto; try discriminate.
    eapply Permutation_in; [symmetry|]; eauto.
Qed.

Lemma NoDup_map_inj : forall {A B : Type} (f : A -> B) l x y,
  NoDup (map f l) -> In x l -> In y l -> f x = f y -> x = y.
Proof.
  induction l; simpl; intros; try tauto. inversion H; subst.
  destruct H0, H1; subst; auto.
  - exfalso. apply H5. rewrite H2. apply in_map; auto.
  - exfalso. apply H5. rewrite <- H2. apply in_map; auto.
Qed.

Lemma NoDup_map_filter : forall {A B : Type} (f : A -> B) p l, NoDup (map f l) -> NoDup (map f (filter p l)).
Proof.
  induction l; simpl; intros; auto. inversion H; subst.
  destruct (p a); simpl; auto. constructor; auto.
  intro. apply H2. apply in_map_iff in H0. destruct H0 as [x [E Hx]]. apply filter_In in Hx.
  rewrite <- E. apply in_map. tauto.
Qed.

Lemma NoDup_pair_snd : forall {A : Type} (b a : A -> N) l b0,
  NoDup (map (fun c => (b c, a c)) l) -> (forall c, In c l -> b c = b0) -> NoDup (map a l).
Proof.
  induction l; simpl; intros; [constructor|]. inversion H; subst. constructor.
  - intro. apply H3. apply in_map_iff in H1. destruct H1 as [y [E Hy]].
    apply in_map_iff. exists y. split; auto. rewrite E. f_equal. rewrite (H0 y), (H0 a0); auto.
  - eapply IHl; eauto.
Qed.

Lemma Forall2_impl {A B : Type} (P Q : A -> B -> Prop) :
  (forall a b, P a b -> Q a b) -> forall l l', Forall2 P l l' -> Forall2 Q l l'.
Proof. induction 2; constructor; auto. Qed.

(* ---- find_index *)
Lemma find_index_some : forall ks k n i, find_index ks k n = Some i ->
  exists j, i = (n + j)%nat /\ nth_error ks j = Some k.
Proof.
  induction ks; simpl; intros; try discriminate.
  destruct (key_eqb a k) eqn:E.
  - inversion H; subst. apply key_eqb_eq in E. subst. exists O. split; auto; lia.
  - destruct (IHks _ _ _ H) as [j [E1 E2]]. exists (S j). split; auto; lia.
Qed.

Lemma find_index_in : forall ks k n, In k ks -> exists i, find_index ks k n = Some i.
Proof.
  induction ks; simpl; intros; try tauto.
  destruct (key_eqb a k) eqn:E; eauto.
  destruct H; subst. - rewrite key_eqb_refl in E. discriminate. - apply IHks; auto.
Qed.

Lemma existsb_key_false : forall k pks, ~ In k pks -> existsb (key_eqb k) pks = false.
Proof.
  induction pks; simpl; intros; auto. rewrite IHpks; try tauto.
  destruct (key_eqb k a) eqn:E; auto. apply key_eqb_eq in E. subst. tauto.
Qed.

Lemma existsb_key_true : forall k pks, In k pks -> existsb (key_eqb k) pks = true.
Proof. intros. apply existsb_exists. exists k. split; auto. apply key_eqb_refl. Qed.

(* ---- BLSCreateAggSig's bitmap: bit i is set iff the i-th key is among the signers' keys *)
Lemma set_bits_spec : forall ks, NoDup ks -> forall pks bits0,
  incl pks ks -> length bits0 = bits_len (length ks) ->
  exists bits, set_bits ks pks bits0 = Some bits /\ length bits = length bits0 /\
    forall i k b0, nth_error ks i = Some k -> read_bit bits0 i = Some b0 ->
                   read_bit bits i = Some (b0 || existsb (key_eqb k) pks).
Proof.
  intros ks ND. induction pks; intros bits0 Hin Hlen; simpl.
  - exists bits0. repeat split; auto. intros. rewrite orb_false_r; auto.
  - assert (In a ks) by (apply Hin; left; auto).
    destruct (find_index_in ks a 0 H) as [i0 E0]. rewrite E0.
    destruct (find_index_some _ _ _ _ E0) as [j [Ej Hj]]. simpl in Ej. subst j.
    assert (i0 < length ks)%nat by (apply nth_error_Some; congruence).
    destruct (write_bit_some bits0 i0) as [b' Eb]. { rewrite Hlen. apply byte_ix_lt; auto. }
    rewrite Eb.
    destruct (IHpks b') as [bits [E1 [E2 E3]]].
    { intros x Hx. apply Hin. right; auto. }
    { erewrite write_bit_length; eauto. }
    exists bits. split; auto. split. { rewrite E2. eapply write_bit_length; eauto. }
    intros i k b0 Hk Hr.
    destruct (Nat.eq_dec i i0).
    + subst. assert (k = a) by congruence. subst.
      rewrite (E3 i0 a true); auto.
      * rewrite key_eqb_refl. simpl. rewrite orb_true_r. auto.
      * eapply read_write_same; eauto.
    + assert (k <> a).
      { intro. subst. apply n. eapply (proj1 (NoDup_nth_error ks)); eauto.
        - apply nth_error_Some. congruence.
        - congruence. }
      rewrite (E3 i k b0); auto.
      * f_equal. f_equal. simpl. destruct (key_eqb k a) eqn:E; auto. apply key_eqb_eq in E. congruence.
      * erewrite read_write_other; eauto.
Qed.

Section Assemble.
  Variables (sigT msgT : Type).
  Variable sig_len0 : sigT -> bool.
  Variable msg_of : cert -> msgT.
  Variable fav : list key -> msgT -> sigT -> bool.
  Variable vrf : key -> msgT -> sigT -> bool.
  Variable agg : list sigT -> sigT.

  (* which byte strings are valid BLS public keys (subgroup points other than the identity); FastAggregateVerify itself
     does not validate keys — an identity-point key adds nothing to the aggregate key — so the law below is stated for
     valid keys only and [params_wf] demands valid keys of every validator (pkg/crypto validates them, see docs/C06.md) *)
  Variable key_ok : key -> Prop.
  (* BLS completeness: the aggregate of valid single signatures, by VALID keys, over one message verifies under the
     multiset of their keys *)
  Hypothesis Hfav : forall ks ss m ks', Forall key_ok ks ->
    Forall2 (fun k s => vrf k m s = true) ks ss -> ks <> [] -> Permutation ks ks' -> fav ks' m (agg ss) = true.
  (* an aggregate signature is 96 bytes *)
  Hypothesis Hlen : forall ss, sig_len0 (agg ss) = false.

  Notation single_commit := (single_commit sigT).

  Definition valid_commit (e : env) (c : single_commit) : Prop :=
    exists hd p v,
      chain_at (e_chain e) (sc_height c) = Some hd /\ c_block (h_cert hd) = sc_block c /\
      get_params e (sc_height c) = Some p /\ find_validator (p_validators p) (sc_addr c) = Some v /\
      vrf (v_key v) (msg_of (h_cert hd)) (sc_sig c) = true.

  Definition pool_ok (e : env) (l : list single_commit) : Prop :=
    Forall (valid_commit e) l /\ NoDup (map (fun c => (sc_block c, sc_addr c)) l).

  Definition params_wf (e : env) : Prop :=
    forall h p, get_params e h = Some p ->
      NoDup (map v_addr (p_validators p)) /\ NoDup (map v_key (p_validators p)) /\
      Forall key_ok (map v_key (p_validators p)).

  Definition pairf (v : validator) : N * key := (v_addr v, v_key v).

  Lemma lookup_key_map : forall l a, lookup_key (map pairf l) a = option_map v_key (find_validator l a).
  Proof.
    induction l; simpl; intros; auto. rewrite N.eqb_sym.
    destruct (v_addr a =? a0); simpl; auto.
  Qed.

  Lemma commit_keys_vals : forall l (cs : list single_commit) vc,
    Forall2 (fun c v => find_validator l (sc_addr c) = Some v) cs vc ->
    commit_keys (map pairf l) cs = Some (map v_key vc).
  Proof.
    induction 1; simpl; auto. rewrite lookup_key_map, H. simpl. rewrite IHForall2. auto.
  Qed.

  Lemma commit_weights_vals : forall l (cs : list single_commit) vc,
    Forall2 (fun c v => find_validator l (sc_addr c) = Some v) cs vc ->
    commit_weights l cs = Some (map v_weight vc).
  Proof.
    induction 1; simpl; auto. rewrite H. rewrite IHForall2. auto.
  Qed.

  Lemma vrf_forall2 : forall (P : single_commit -> validator -> Prop) m (cs : list single_commit) vc,
    Forall2 (fun c v => P c v /\ vrf (v_key v) m (sc_sig c) = true) cs vc ->
    Forall2 (fun k s => vrf k m s = true) (map v_key vc) (map (@sc_sig sigT) cs).
  Proof. induction 1; simpl; constructor; auto. tauto. Qed.

  (* the heart: what Aggregate builds from valid commits of one height verifies *)
  Lemma aggregate_verifies : forall e h cs hd p,
    cs <> [] ->
    Forall (fun c => sc_height c = h) cs -> Forall (valid_commit e) cs -> NoDup (map sc_addr cs) ->
    chain_at (e_chain e) h = Some hd -> get_params e h = Some p ->
    NoDup (map v_addr (p_validators p)) -> NoDup (map v_key (p_validators p)) ->
    Forall key_ok (map v_key (p_validators p)) ->
    exists ws a,
      commit_weights (p_validators p) cs = Some ws /\
      aggregate agg cs (map (fun v => (v_addr v, v_key v)) (p_validators p)) = AOk a /\
      ac_height a = h /\ ac_bits a <> [] /\ sig_len0 (ac_sig a) = false /\
      let vs := sort_by v_key (p_validators p) in
      verify_weighted fav (map v_key vs) (ac_bits a) (ac_sig a) (map v_weight vs) (p_threshold p) (msg_of (h_cert hd))
      = Some (negb (sum64 ws 0 <? p_threshold p)).
  Proof.
    intros e h cs hd p Hne Hh Hv Hnd Hc Hp NDa NDk KOK.
    set (vs := p_validators p) in *.
    set (svs := sort_by v_key vs).
    assert (Psv : Permutation svs vs) by apply sort_by_perm.
    (* the validator behind every commit *)
    assert (exists vc, Forall2 (fun c v => find_validator vs (sc_addr c) = Some v /\
                                           vrf (v_key v) (msg_of (h_cert hd)) (sc_sig c) = true) cs vc) as [vc Hvc].
    { clear Hne Hnd. induction cs. - exists []. constructor.
      - inversion Hh; inversion Hv; subst. destruct IHcs as [vc' IH]; auto.
        destruct H5 as [hd' [p' [v [A1 [A2 [A3 [A4 A5]]]]]]].
        rewrite Hc in A1. rewrite Hp in A3. inversion A1; inversion A3; subst.
        exists (v :: vc'). constructor; auto. }
    assert (Hfind : Forall2 (fun c v => find_validator vs (sc_addr c) = Some v) cs vc).
    { eapply Forall2_impl; [|apply Hvc]. simpl. tauto. }
    assert (Hfind' : Forall2 (fun c v => find_validator svs (sc_addr c) = Some v) cs vc).
    { eapply Forall2_impl; [|apply Hfind]. simpl. intros. rewrite <- H. symmetry.
      apply find_validator_perm; auto. symmetry; auto. }
    assert (Haddr : map v_addr vc = map sc_addr cs).
    { clear - Hfind. induction Hfind; simpl; auto. apply find_validator_some in H. destruct H. congruence. }
    assert (NDvc : NoDup vc). { apply (NoDup_map_inv v_addr). rewrite Haddr. auto. }
    assert (Hincl : incl vc vs).
    { clear - Hfind. induction Hfind; intros z Hz; simpl in *; try tauto.
      destruct Hz; subst. - apply find_validator_some in H. tauto. - apply IHHfind; auto. }
    assert (NDsk : NoDup (map v_key svs)).
    { eapply Permutation_NoDup; [apply Permutation_map; symmetry; apply Psv | auto]. }
    exists (map v_weight vc).
    unfold aggregate. destruct cs as [|c0 cs']; try congruence.
    change (map (fun v => (v_addr v, v_key v)) vs) with (map pairf vs).
    replace (sort_by (@snd N key) (map pairf vs)) with (map pairf svs)
      by (unfold svs; rewrite <- (sort_by_map pairf (@snd N key)); reflexivity).
    rewrite (commit_keys_vals svs (c0 :: cs') vc Hfind').
    rewrite map_map. change (map (fun x => snd (pairf x)) svs) with (map v_key svs).
    destruct (set_bits_spec (map v_key svs) NDsk (map v_key vc) (zero_bits (length (map v_key svs)))) as [bits [B1 [B2 B3]]].
    { intros k Hk. apply in_map_iff in Hk. destruct Hk as [v [E Hin]]. subst. apply in_map.
      eapply Permutation_in; [symmetry; apply Psv|]. apply Hincl; auto. }
    { apply zero_bits_length. }
    rewrite B1. eexists. split. { apply commit_weights_vals; auto. }
    split; [reflexivity|]. simpl ac_height. simpl ac_bits. simpl ac_sig.
    rewrite zero_bits_length, map_length in B2.
    assert (Hsvs : (length svs > 0)%nat).
    { inversion Hfind'; subst. apply find_validator_some in H1. destruct H1. destruct svs; simpl in *; try tauto; lia. }
    split. { inversion Hh; auto. }
    split. { intro. subst bits. simpl in B2. unfold bits_len in B2. lia. }
    split. { apply Hlen. }
    (* verification side *)
    unfold verify_weighted. rewrite !map_length. rewrite B2, !Nat.eqb_refl. simpl negb. simpl orb.
    rewrite combine_map, select_from_map.
    set (f := fun v => existsb (key_eqb (v_key v)) (map v_key vc)).
    rewrite (select_from_filter f).
    2:{ intros j x Hj. simpl. rewrite (B3 j (v_key x) false).
        - reflexivity.
        - apply map_nth_error; auto.
        - rewrite map_length. apply read_zero. apply nth_error_Some. congruence. }
    simpl option_map. cbv beta iota. rewrite !map_map. cbn [fst snd].
    assert (Pf : Permutation (filter f svs) vc).
    { apply NoDup_Permutation; auto.
      - apply NoDup_filter. eapply NoDup_map_inv; eauto.
      - intros x. rewrite filter_In. split.
        + intros [Hx Hfx]. unfold f in Hfx. apply existsb_exists in Hfx. destruct Hfx as [k [Hk Ek]].
          apply key_eqb_eq in Ek. apply in_map_iff in Hk. destruct Hk as [v [Ev Hv']].
          assert (x = v).
          { eapply (NoDup_map_inj v_key svs); eauto. - eapply Permutation_in; [symmetry; apply Psv|]; auto. - congruence. }
          subst; auto.
        + intros Hx. split. * eapply Permutation_in; [symmetry; apply Psv|]; auto.
          * unfold f. apply existsb_key_true. apply in_map; auto. }
    change (map (fun x => v_weight x) (filter f svs)) with (map v_weight (filter f svs)).
    change (map (fun x => v_key x) (filter f svs)) with (map v_key (filter f svs)).
    rewrite !sum64_0.
    rewrite (sumN_perm (map v_weight (filter f svs)) (map v_weight vc)) by (apply Permutation_map; auto).
    destruct (u64 (sumN (map v_weight vc)) <? p_threshold p); simpl; auto.
    f_equal. apply (Hfav (map v_key vc)).
    - apply Forall_forall. intros k Hk. apply in_map_iff in Hk. destruct Hk as [v [Ek Hv']]. subst.
      eapply Forall_forall in KOK; eauto. apply in_map. apply Hincl. auto.
    - change (sc_sig c0 :: map sc_sig cs') with (map (@sc_sig sigT) (c0 :: cs')). eapply vrf_forall2; apply Hvc.
    - inversion Hvc; subst. simpl. congruence.
    - apply Permutation_map. symmetry. auto.
  Qed.

  Lemma pool_get_ok : forall e g ng h,
    pool_ok e (g ++ ng) ->
    let cs := pool_get g ng h in
    Forall (fun c => sc_height c = h) cs /\ Forall (valid_commit e) cs /\
    (forall hd, chain_at (e_chain e) h = Some hd -> NoDup (map sc_addr cs)).
  Proof.
    intros e g ng h [Hv Hn]. unfold pool_get. rewrite <- filter_app. set (l := g ++ ng) in *.
    split; [|split].
    - apply Forall_forall. intros c Hc. apply filter_In in Hc. destruct Hc. apply N.eqb_eq; auto.
    - apply Forall_forall. intros c Hc. apply filter_In in Hc. destruct Hc.
      eapply Forall_forall in Hv; eauto.
    - intros hd Hhd. apply (NoDup_pair_snd (@sc_block sigT) (@sc_addr sigT) _ (c_block (h_cert hd))).
      + apply NoDup_map_filter. auto.
      + intros c Hc. apply filter_In in Hc. destruct Hc as [Hc Eh]. apply N.eqb_eq in Eh.
        eapply Forall_forall in Hv; eauto. destruct Hv as [hd' [p [v [A1 [A2 _]]]]].
        rewrite Eh in A1. congruence.
  Qed.

  Definition good_result (e : env) (r : gres sigT) : Prop :=
    match r with
    | GOk a => verify sig_len0 msg_of fav e a = Accept
    | GEmpty h => h = e_mhc e
    | _ => False
    end.

  Lemma gac_loop_ok : forall e g ng, params_wf e -> pool_ok e (g ++ ng) ->
    forall n h, h <= gac_start e -> (N.to_nat (h - e_mhc e) <= n)%nat ->
    good_result e (gac_loop agg e g ng n h).
  Proof.
    intros e g ng Hwf Hok. induction n; intros h Hs Hn; simpl.
    - destruct (h <=? e_mhc e) eqn:E; simpl; auto. apply N.leb_gt in E. lia.
    - destruct (h <=? e_mhc e) eqn:E; simpl; auto. apply N.leb_gt in E.
      assert (Hrec : good_result e (gac_loop agg e g ng n (h - 1))) by (apply IHn; lia).
      destruct (pool_get_ok e g ng h Hok) as [P1 [P2 P3]].
      destruct (pool_get g ng h) as [|c0 cs'] eqn:Ecs; auto.
      assert (Hv0 : valid_commit e c0) by (inversion P2; auto).
      destruct Hv0 as [hd [p [v0 [A1 [A2 [A3 [A4 A5]]]]]]].
      assert (sc_height c0 = h) by (inversion P1; auto). rewrite H in *.
      rewrite A3. destruct (Hwf _ _ A3) as [W1 [W2 W3]].
      destruct (aggregate_verifies e h (c0 :: cs') hd p) as [ws [a [R1 [R2 [R3 [R4 [R5 R6]]]]]]]; auto; try congruence.
      { eapply P3; eauto. }
      rewrite R1. destruct (sum64 ws 0 <? p_threshold p) eqn:Ew; auto.
      rewrite R2. simpl. unfold verify.
      assert (ac_empty sig_len0 a = false).
      { unfold ac_empty. rewrite R5. apply andb_false_r. }
      rewrite H0. simpl andb.
      assert (Nat.eqb (length (ac_bits a)) 0 = false).
      { destruct (ac_bits a); try congruence. auto. }
      rewrite H1, R5. simpl orb. rewrite R3.
      replace (h <=? e_mhc e) with false by (symmetry; apply N.leb_gt; auto).
      assert (h <= e_mhp e /\ match next_params e (u32 (e_mhc e + 1)) with Some nh => h <= sub32 nh 1 | None => True end).
      { unfold gac_start in Hs. destruct (next_params e (u32 (e_mhc e + 1))); lia. }
      destruct H2 as [H2 H3].
      replace (e_mhp e <? h) with false by (symmetry; apply N.ltb_ge; auto).
      replace (match next_params e (u32 (e_mhc e + 1)) with Some nh => sub32 nh 1 <? h | None => false end) with false.
      2:{ destruct (next_params e (u32 (e_mhc e + 1))); auto. symmetry; apply N.ltb_ge; auto. }
      rewrite A1, A3. simpl in R6. rewrite R6. simpl. auto.
  Qed.

  Theorem assemble_accepts : forall e g ng, params_wf e -> pool_ok e (g ++ ng) ->
    good_result e (get_aggregate_commit agg e g ng).
  Proof.
    intros. unfold get_aggregate_commit. apply gac_loop_ok; auto; lia.
  Qed.

  (* the empty commit returned when nothing is certifiable is accepted as well *)
  Lemma empty_commit_accepted : forall e a,
    ac_bits a = [] -> sig_len0 (ac_sig a) = true -> ac_height a = e_mhc e ->
    verify sig_len0 msg_of fav e a = Accept.
  Proof.
    intros. unfold verify, ac_empty. rewrite H, H0, H1, N.eqb_refl. auto.
  Qed.
End Assemble.
