(* Pool invariants: singleCommitValidator admits only valid commits; every pool operation keeps the pool valid and
   duplicate-free; hence every reachable pool state assembles into an accepted aggregate commit. *)
From Coq Require Import List NArith ZArith Bool Arith Lia ZifyBool ZifyN ZifyNat Permutation.
From LE Require Import Cert.Bits Cert.BitsProofs Cert.AggCommit Cert.AggCommitProofs Cert.AssembleProofs Cert.Pool.
Import ListNotations.
Local Open Scope N_scope.

Section PoolFacts.
  Variables (sigT msgT : Type).
  Variable sig_len0 : sigT -> bool.
  Variable msg_of : cert -> msgT.
  Variable fav : list key -> msgT -> sigT -> bool.
  Variable vrf : key -> msgT -> sigT -> bool.
  Variable agg : list sigT -> sigT.
  Variable sign_own : cert -> sigT.

  Notation single_commit := (single_commit sigT).
  Notation pool := (pool sigT).
  Notation valid_commit := (valid_commit sigT msgT msg_of vrf).
  Notation pool_ok := (pool_ok sigT msgT msg_of vrf).

  Definition all (p : pool) : list single_commit := gossiped p ++ nongossiped p.
  Definition idf (c : single_commit) : N * N := (sc_block c, sc_addr c).

  Lemma has_false : forall l c, has l c = false -> ~ In (idf c) (map idf l).
  Proof.
    induction l; simpl; intros; auto.
    apply orb_false_iff in H. destruct H as [H1 H2]. intros [E|E].
    - inversion E. rewrite H0, H3, !N.eqb_refl in H1. discriminate.
    - eapply IHl; eauto.
  Qed.

  Lemma has_true_in : forall l c, has l c = true -> exists x, In x l /\ idf x = idf c.
  Proof.
    intros. apply existsb_exists in H. destruct H as [x [Hx E]]. exists x. split; auto.
    apply andb_true_iff in E. destruct E as [E1 E2]. apply N.eqb_eq in E1, E2. unfold idf. congruence.
  Qed.

  Lemma pool_ok_perm : forall e l l', Permutation l l' -> pool_ok e l -> pool_ok e l'.
  Proof.
    intros e l l' P [H1 H2]. split.
    - apply Forall_forall. intros x Hx. eapply Forall_forall in H1; eauto. eapply Permutation_in; [symmetry|]; eauto.
    - eapply Permutation_NoDup; [apply Permutation_map; eauto | auto].
  Qed.

  Lemma pool_ok_filter : forall e l f, pool_ok e l -> pool_ok e (filter f l).
  Proof.
    intros e l f [H1 H2]. split.
    - apply Forall_forall. intros x Hx. apply filter_In in Hx. destruct Hx as [Hx _]. eapply Forall_forall in H1; eauto.
    - apply NoDup_map_filter; auto.
  Qed.

  Lemma pool_add_ok : forall e p c, pool_ok e (all p) -> valid_commit e c -> pool_ok e (all (pool_add p c)).
  Proof.
    intros e p c [H1 H2] Hv. unfold pool_add. destruct (pool_has p c) eqn:E; [split; auto|].
    unfold all in *. simpl. rewrite app_assoc. split.
    - apply Forall_app. split; auto.
    - rewrite map_app. simpl.
      apply (Permutation_NoDup (l := idf c :: map idf (gossiped p ++ nongossiped p))).
      + apply Permutation_cons_append.
      + constructor; auto. unfold pool_has in E. apply orb_false_iff in E. destruct E as [E1 E2].
        rewrite map_app. intro Hin. apply in_app_or in Hin. destruct Hin.
        * exact (has_false _ _ E1 H). * exact (has_false _ _ E2 H).
  Qed.

  Lemma pool_add_in : forall p c x, In x (all (pool_add p c)) -> In x (all p) \/ x = c.
  Proof.
    intros p c x. unfold pool_add. destruct (pool_has p c); auto.
    unfold all. simpl. rewrite app_assoc. intro H. apply in_app_or in H. destruct H; auto.
    simpl in H. destruct H; auto. tauto.
  Qed.

  (* ---- singleCommitValidator *)
  Lemma scv_one_spec : forall e p cw p' r, scv_one msg_of vrf e p cw = (p', r) ->
    p' = p \/ (p' = pool_add p (fst cw) /\ valid_commit e (fst cw) /\ r = None).
  Proof.
    intros e p [c wf] p' r. unfold scv_one. simpl fst.
    destruct (negb wf). { intro H; inversion H; auto. }
    destruct (pool_has p c). { intro H; inversion H; auto. }
    destruct (chain_at (e_chain e) (e_mhp e)) as [fin|]. 2:{ intro H; inversion H; auto. }
    destruct (sc_height c <=? h_ac_height fin). { intro H; inversion H; auto. }
    destruct (((sc_height c <? sub32 (e_mhp e) 100) || (e_mhp e <? sc_height c)) && negb (exist_params e (sc_height c))).
    { intro H; inversion H; auto. }
    destruct (chain_at (e_chain e) (sc_height c)) as [hd|] eqn:Ec. 2:{ intro H; inversion H; auto. }
    destruct (negb (c_block (h_cert hd) =? sc_block c)) eqn:Eb. { intro H; inversion H; auto. }
    destruct (get_params e (sc_height c)) as [prm|] eqn:Ep. 2:{ intro H; inversion H; auto. }
    destruct (find_validator (p_validators prm) (sc_addr c)) as [v|] eqn:Ef. 2:{ intro H; inversion H; auto. }
    destruct (vrf (v_key v) (msg_of (h_cert hd)) (sc_sig c)) eqn:Ev; intro H; inversion H; auto.
    right. repeat split; auto. exists hd, prm, v. repeat split; auto.
    apply negb_false_iff, N.eqb_eq in Eb. auto.
  Qed.

  (* pool_admits_only_valid *)
  Theorem scv_admits_only_valid : forall e p m p' r,
    single_commit_validator msg_of vrf e p m = (p', r) ->
    forall c, In c (all p') -> In c (all p) \/ valid_commit e c.
  Proof.
    intros e p [cs|] p' r; simpl. 2:{ intro H; inversion H; auto. }
    revert p. induction cs; simpl; intros p H c Hc. { inversion H; subst; auto. }
    destruct (scv_one msg_of vrf e p a) as [p1 [r1|]] eqn:E1.
    - inversion H; subst. destruct (scv_one_spec _ _ _ _ _ E1) as [?|[? [? ?]]]; subst; auto. discriminate.
    - destruct (IHcs _ H c Hc) as [Hin|]; auto.
      destruct (scv_one_spec _ _ _ _ _ E1) as [?|[? [? ?]]]; subst; auto.
      apply pool_add_in in Hin. destruct Hin; subst; auto.
  Qed.

  Theorem scv_preserves_ok : forall e p m p' r,
    single_commit_validator msg_of vrf e p m = (p', r) -> pool_ok e (all p) -> pool_ok e (all p').
  Proof.
    intros e p [cs|] p' r; simpl. 2:{ intro H; inversion H; subst; auto. }
    revert p. induction cs; simpl; intros p H Hok. { inversion H; subst; auto. }
    destruct (scv_one msg_of vrf e p a) as [p1 [r1|]] eqn:E1.
    - inversion H; subst. destruct (scv_one_spec _ _ _ _ _ E1) as [?|[? [? ?]]]; subst; auto. discriminate.
    - apply (IHcs _ H).
      destruct (scv_one_spec _ _ _ _ _ E1) as [?|[? [? ?]]]; subst; auto. apply pool_add_ok; auto.
  Qed.

  (* it never answers Accept: the only results are Reject and Ignore (by the type sres) *)

  (* ---- Certify *)
  (* the chain index agrees with the height field of the stored headers *)
  Definition chain_wf (e : env) : Prop := forall h hd, chain_at (e_chain e) h = Some hd -> c_height (h_cert hd) = h.
  (* the node signs with the BLS key registered for the address it certifies with *)
  Definition own_key_registered (e : env) (a : N) : Prop :=
    forall h p v c, get_params e h = Some p -> find_validator (p_validators p) a = Some v ->
                    vrf (v_key v) (msg_of c) (sign_own c) = true.

  Lemma certify_one_ok : forall e p a i p' er, chain_wf e -> own_key_registered e a ->
    certify_one sign_own e p a i = (p', er) -> pool_ok e (all p) -> pool_ok e (all p').
  Proof.
    intros e p a i p' er Hc Ho. unfold certify_one.
    destruct (negb (exist_params e i)). { intro H; inversion H; subst; auto. }
    destruct (get_params e i) as [prm|] eqn:Ep. 2:{ intro H; inversion H; subst; auto. }
    destruct (find_validator (p_validators prm) a) as [v|] eqn:Ef. 2:{ intro H; inversion H; subst; auto. }
    destruct (chain_at (e_chain e) i) as [hd|] eqn:Eh; intro H; inversion H; subst; auto.
    intro. apply pool_add_ok; auto.
    pose proof (Hc _ _ Eh) as Hh.
    exists hd, prm, v. simpl. rewrite Hh. repeat split; auto. eapply Ho; eauto.
  Qed.

  Lemma certify_range_ok : forall e a n p i p' er, chain_wf e -> own_key_registered e a ->
    certify_range sign_own e p a i n = (p', er) -> pool_ok e (all p) -> pool_ok e (all p').
  Proof.
    induction n; simpl; intros. { inversion H1; subst; auto. }
    destruct (certify_one sign_own e p a i) as [p1 e1] eqn:E1.
    destruct (certify_range sign_own e p1 a (i + 1) n) as [p2 e2] eqn:E2. inversion H1; subst.
    eapply IHn; eauto. eapply certify_one_ok; eauto.
  Qed.

  Theorem certify_preserves_ok : forall e p from to a p' er, chain_wf e -> own_key_registered e a ->
    certify sign_own e p from to a = (p', er) -> pool_ok e (all p) -> pool_ok e (all p').
  Proof.
    intros e p from to a p' er Hc Ho. unfold certify.
    destruct (to <? from). { intro H; inversion H; subst; auto. }
    destruct (certify_range sign_own e p a (from + 1) (N.to_nat (to - from))) as [p1 e1] eqn:E1.
    intros H Hok. assert (pool_ok e (all p1)) by (eapply certify_range_ok; eauto).
    destruct e1. { inversion H; subst; auto. }
    destruct (exist_params e (u32 (to + 1))). { inversion H; subst; auto. }
    destruct (get_params e to) as [prm|] eqn:Ep. 2:{ inversion H; subst; auto. }
    destruct (find_validator (p_validators prm) a) as [v|] eqn:Ef. 2:{ inversion H; subst; auto. }
    destruct (chain_at (e_chain e) to) as [hd|] eqn:Eh; inversion H; subst; auto.
    apply pool_add_ok; auto.
    pose proof (Hc _ _ Eh) as Hh.
    exists hd, prm, v. simpl. rewrite Hh. repeat split; auto. eapply Ho; eauto.
  Qed.

  (* ---- Cleanup / Select / Upgrade *)
  Theorem cleanup_preserves_ok : forall e p keep, pool_ok e (all p) -> pool_ok e (all (cleanup p keep)).
  Proof.
    intros. unfold cleanup, all in *. simpl. rewrite <- filter_app. apply pool_ok_filter; auto.
  Qed.

  Lemma insert_h_perm : forall (x : single_commit) l, Permutation (insert_h sigT x l) (x :: l).
  Proof.
    induction l; simpl; auto. destruct (sc_height a <? sc_height x); auto.
    eapply perm_trans; [apply perm_skip; apply IHl | apply perm_swap].
  Qed.
  Lemma sort_h_perm : forall l : list single_commit, Permutation (sort_h l) l.
  Proof.
    induction l; simpl; auto. eapply perm_trans; [apply insert_h_perm | apply perm_skip; auto].
  Qed.

  Theorem select_preserves_ok : forall e p mhp limit, pool_ok e (all p) -> pool_ok e (all (snd (select p mhp limit))).
  Proof.
    intros e p mhp limit Hok.
    assert (A : pool_ok e (gossiped p ++ sort_h (nongossiped p))).
    { eapply pool_ok_perm; [|apply Hok]. apply Permutation_app_head. symmetry. apply sort_h_perm. }
    assert (B : pool_ok e (sort_h (gossiped p) ++ sort_h (nongossiped p))).
    { eapply pool_ok_perm; [|apply Hok]. apply Permutation_app; symmetry; apply sort_h_perm. }
    unfold select.
    repeat match goal with |- context [if ?c then _ else _] => destruct c end; simpl; auto.
  Qed.

  Lemma filter_partition_perm : forall {A : Type} (f : A -> bool) l,
    Permutation (filter f l ++ filter (fun x => negb (f x)) l) l.
  Proof.
    induction l; simpl; auto. destruct (f a); simpl; auto.
    eapply perm_trans; [symmetry; apply Permutation_middle | auto].
  Qed.

  Theorem upgrade_preserves_ok : forall e p cs, pool_ok e (all p) -> pool_ok e (all (upgrade p cs)).
  Proof.
    intros. unfold upgrade, all in *. simpl. eapply pool_ok_perm; [|apply H].
    rewrite <- app_assoc. apply Permutation_app_head. symmetry. apply filter_partition_perm.
  Qed.

  (* broadcastCertificate only drops, reorders and moves commits: the pool stays valid and duplicate-free, and what it
     drops is decided by the height alone: a commit survives iff its height is above the certified height carried by the
     finalised block and (it lies in the last 100 finalised heights below maxHeightPrecommitted — uint32 arithmetic — or
     BFT parameters exist at the next height) *)
  Theorem broadcast_preserves_ok : forall e tip published p,
    pool_ok e (all p) -> pool_ok e (all (broadcast_certificate e tip published p)).
  Proof.
    intros e tip published p Hok. unfold broadcast_certificate.
    destruct (chain_at (e_chain e) (e_mhp e)) as [fin|]; auto.
    set (p1 := cleanup p (cleanup_keep e (h_ac_height fin))).
    assert (H1 : pool_ok e (all p1)) by (apply cleanup_preserves_ok; auto).
    destruct (Nat.eqb (pool_size sigT p1) 0); auto.
    destruct (get_params e tip) as [prm|]; auto.
    pose proof (select_preserves_ok e p1 (e_mhp e) (length (p_validators prm)) H1) as H2.
    destruct (select p1 (e_mhp e) (length (p_validators prm))) as [sel p2]. simpl in H2.
    destruct sel; auto. destruct published; auto. apply upgrade_preserves_ok; auto.
  Qed.

  Theorem broadcast_cleanup_spec : forall e rh h,
    cleanup_keep e rh h = true <->
    rh < h /\ ((sub32 (e_mhp e) 100 <= h /\ h < e_mhp e) \/ exist_params e (u32 (h + 1)) = true).
  Proof.
    intros e rh h. unfold cleanup_keep. set (x := sub32 (e_mhp e) 100).
    destruct (exist_params e (u32 (h + 1))); destruct (h <=? rh) eqn:A; destruct (x <=? h) eqn:B;
      destruct (h <? e_mhp e) eqn:C; simpl; intuition (try lia; try discriminate).
  Qed.

  (* ---- reachable pool states *)
  Inductive reachable (e : env) : pool -> Prop :=
  | r_empty : reachable e (empty_pool sigT)
  | r_gossip : forall p m, reachable e p -> reachable e (fst (single_commit_validator msg_of vrf e p m))
  | r_certify : forall p from to a, reachable e p -> own_key_registered e a ->
                                    reachable e (fst (certify sign_own e p from to a))
  | r_cleanup : forall p keep, reachable e p -> reachable e (cleanup p keep)
  | r_select : forall p mhp limit, reachable e p -> reachable e (snd (select p mhp limit))
  | r_upgrade : forall p cs, reachable e p -> reachable e (upgrade p cs).

  Theorem reachable_ok : forall e p, chain_wf e -> reachable e p -> pool_ok e (all p).
  Proof.
    intros e p Hc. induction 1.
    - split; simpl; constructor.
    - destruct (single_commit_validator msg_of vrf e p m) as [p' r] eqn:E. simpl. eapply scv_preserves_ok; eauto.
    - destruct (certify sign_own e p from to a) as [p' r] eqn:E. simpl. eapply certify_preserves_ok; eauto.
    - apply cleanup_preserves_ok; auto.
    - apply select_preserves_ok; auto.
    - apply upgrade_preserves_ok; auto.
  Qed.

  (* ---- the chain moves: blocks are applied and deleted while commits sit in the pool *)
  Definition env_agrees_at (e e' : env) (h : N) : Prop :=
    chain_at (e_chain e) h = chain_at (e_chain e') h /\ get_params e h = get_params e' h.

  Lemma valid_commit_env : forall e e' c, env_agrees_at e e' (sc_height c) -> valid_commit e c -> valid_commit e' c.
  Proof.
    intros e e' c [A B] [hd [p [v [H1 [H2 [H3 [H4 H5]]]]]]]. exists hd, p, v. rewrite <- A, <- B. auto.
  Qed.

  Lemma pool_ok_env : forall e e' l, (forall c, In c l -> env_agrees_at e e' (sc_height c)) -> pool_ok e l -> pool_ok e' l.
  Proof.
    intros e e' l H [V N]. split; auto. apply Forall_forall. intros c Hc.
    eapply valid_commit_env; eauto. eapply Forall_forall in V; eauto.
  Qed.

  (* deleteBlock at height H: whatever the chain looks like afterwards at heights >= H, the purged pool is valid
     with respect to it, as long as the chain below H is untouched *)
  Theorem delete_block_preserves_ok : forall e e' p H,
    pool_ok e (all p) -> (forall h, h < H -> env_agrees_at e e' h) -> pool_ok e' (all (on_delete_block p H)).
  Proof.
    intros e e' p H Hok Hag. unfold on_delete_block.
    apply (pool_ok_env e e').
    - intros c Hc. apply Hag. unfold all, cleanup in Hc. simpl in Hc. rewrite <- filter_app in Hc.
      apply filter_In in Hc. destruct Hc as [_ Hc]. apply N.ltb_lt in Hc. auto.
    - apply cleanup_preserves_ok; auto.
  Qed.

  (* one pool operation of the node under the view e *)
  Inductive pool_step (e : env) : pool -> pool -> Prop :=
  | ps_gossip : forall p m, pool_step e p (fst (single_commit_validator msg_of vrf e p m))
  | ps_certify : forall p from to a, chain_wf e -> own_key_registered e a -> pool_step e p (fst (certify sign_own e p from to a))
  | ps_cleanup : forall p keep, pool_step e p (cleanup p keep)
  | ps_select : forall p mhp limit, pool_step e p (snd (select p mhp limit))
  | ps_upgrade : forall p cs, pool_step e p (upgrade p cs).

  Lemma pool_step_ok : forall e p p', pool_step e p p' -> pool_ok e (all p) -> pool_ok e (all p').
  Proof.
    intros e p p' S Hok. destruct S.
    - destruct (single_commit_validator msg_of vrf e p m) as [p' r] eqn:E. simpl. eapply scv_preserves_ok; eauto.
    - destruct (certify sign_own e p from to a) as [p' r] eqn:E. simpl. eapply certify_preserves_ok; eauto.
    - apply cleanup_preserves_ok; auto.
    - apply select_preserves_ok; auto.
    - apply upgrade_preserves_ok; auto.
  Qed.

  (* every history: pool operations interleaved with blocks being applied (the headers and parameters at the heights
     of pooled commits do not change) and blocks being deleted and replaced (nothing below the deleted height changes) *)
  Inductive reachable_chain : env -> pool -> Prop :=
  | rch_start : forall e, reachable_chain e (empty_pool sigT)
  | rch_step : forall e p p', reachable_chain e p -> pool_step e p p' -> reachable_chain e p'
  | rch_apply : forall e e' p, reachable_chain e p ->
      (forall c, In c (all p) -> env_agrees_at e e' (sc_height c)) -> reachable_chain e' p
  | rch_delete : forall e e' p H, reachable_chain e p ->
      (forall h, h < H -> env_agrees_at e e' h) -> reachable_chain e' (on_delete_block p H).

  Theorem reachable_chain_ok : forall e p, reachable_chain e p -> pool_ok e (all p).
  Proof.
    induction 1.
    - split; simpl; constructor.
    - eapply pool_step_ok; eauto.
    - eapply pool_ok_env; eauto.
    - eapply delete_block_preserves_ok; eauto.
  Qed.

  Variable key_ok : key -> Prop.
  Hypothesis Hfav : forall ks ss m ks', Forall key_ok ks ->
    Forall2 (fun k s => vrf k m s = true) ks ss -> ks <> [] -> Permutation ks ks' -> fav ks' m (agg ss) = true.
  Hypothesis Hlen : forall ss, sig_len0 (agg ss) = false.

  Theorem reachable_assembles_accepted : forall e p,
    chain_wf e -> params_wf key_ok e -> reachable e p ->
    good_result sigT msgT sig_len0 msg_of fav e (get_aggregate_commit agg e (gossiped p) (nongossiped p)).
  Proof.
    intros. eapply assemble_accepts; eauto. apply reachable_ok; auto.
  Qed.

  Theorem reachable_chain_assembles_accepted : forall e p,
    params_wf key_ok e -> reachable_chain e p ->
    good_result sigT msgT sig_len0 msg_of fav e (get_aggregate_commit agg e (gossiped p) (nongossiped p)).
  Proof.
    intros. eapply assemble_accepts; eauto. apply reachable_chain_ok; auto.
  Qed.
End PoolFacts.
