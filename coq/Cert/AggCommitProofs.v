(* Proofs about Cert/AggCommit.v: soundness of verifyAggregateCommit and the lemmas shared with the
   assembly proof (Cert/AssembleProofs.v). *)
From Coq Require Import List NArith ZArith Bool Arith Lia ZifyBool ZifyN ZifyNat Permutation.
From LE Require Import Cert.Bits Cert.BitsProofs Cert.AggCommit.
Import ListNotations.
Local Open Scope N_scope.

Lemma key_eqb_eq : forall a b, key_eqb a b = true <-> a = b.
Proof.
  induction a; destruct b; simpl; split; intros; try discriminate; auto.
  - apply andb_true_iff in H. destruct H as [H1 H2]. apply N.eqb_eq in H1. apply IHa in H2. subst; auto.
  - inversion H; subst. rewrite N.eqb_refl. simpl. apply IHa; auto.
Qed.

Lemma key_eqb_refl : forall a, key_eqb a a = true.
Proof. intros. apply key_eqb_eq; auto. Qed.

Section SortFacts.
  Context {A : Type} (kf : A -> key).
  Lemma insert_by_perm : forall x l, Permutation (insert_by kf x l) (x :: l).
  Proof.
    induction l; simpl; auto.
    destruct (lex_lt (kf x) (kf a)); auto.
    eapply perm_trans; [apply perm_skip; apply IHl | apply perm_swap].
  Qed.
  Lemma sort_by_perm : forall l, Permutation (sort_by kf l) l.
  Proof.
    induction l; simpl; auto.
    eapply perm_trans; [apply insert_by_perm | apply perm_skip; auto].
  Qed.
  Lemma sort_by_in : forall l x, In x (sort_by kf l) <-> In x l.
  Proof. intros; split; apply Permutation_in; [|symmetry]; apply sort_by_perm. Qed.
  Lemma sort_by_length : forall l, length (sort_by kf l) = length l.
  Proof. intros. apply Permutation_length, sort_by_perm. Qed.
End SortFacts.

Lemma insert_by_map : forall {A B : Type} (f : A -> B) (kb : B -> key) x l,
  map f (insert_by (fun a => kb (f a)) x l) = insert_by kb (f x) (map f l).
Proof.
  induction l; simpl; auto.
  destruct (lex_lt (kb (f x)) (kb (f a))); simpl; auto. rewrite IHl; auto.
Qed.

Lemma sort_by_map : forall {A B : Type} (f : A -> B) (kb : B -> key) l,
  map f (sort_by (fun a => kb (f a)) l) = sort_by kb (map f l).
Proof.
  induction l; simpl; auto. rewrite insert_by_map, IHl; auto.
Qed.

(* ---- select_from *)
Lemma select_from_map : forall {A B : Type} (f : A -> B) bits l i,
  select_from bits i (map f l) = option_map (map f) (select_from bits i l).
Proof.
  induction l; simpl; intros; auto.
  destruct (read_bit bits i); auto. rewrite IHl.
  destruct (select_from bits (S i) l); simpl; auto. destruct b; auto.
Qed.

Lemma select_from_incl : forall {A : Type} bits (l : list A) i r, select_from bits i l = Some r -> incl r l.
Proof.
  induction l; simpl; intros.
  - inversion H. apply incl_refl.
  - destruct (read_bit bits i); try discriminate.
    destruct (select_from bits (S i) l) eqn:E; try discriminate. inversion H; subst.
    specialize (IHl _ _ E). destruct b.
    + apply incl_cons; [left; auto | apply incl_tl; auto].
    + apply incl_tl; auto.
Qed.

Lemma select_from_filter : forall {A : Type} (f : A -> bool) bits (l : list A) i,
  (forall j x, nth_error l j = Some x -> read_bit bits (i + j) = Some (f x)) ->
  select_from bits i l = Some (filter f l).
Proof.
  induction l; simpl; intros; auto.
  rewrite <- (Nat.add_0_r i) at 1. rewrite (H O a); auto.
  rewrite IHl; auto.
  intros. replace (S i + j)%nat with (i + S j)%nat by lia. apply H. auto.
Qed.

(* ---- sums *)
Fixpoint sumN (l : list N) : N := match l with [] => 0 | x :: t => x + sumN t end.

Lemma sum64_u64 : forall l acc, sum64 l (u64 acc) = u64 (acc + sumN l).
Proof.
  induction l; simpl; intros.
  - rewrite N.add_0_r; auto.
  - replace (u64 (u64 acc + a)) with (u64 (acc + a)).
    + rewrite IHl. f_equal. lia.
    + unfold u64. rewrite N.add_mod_idemp_l; auto. lia.
Qed.

Lemma sum64_0 : forall l, sum64 l 0 = u64 (sumN l).
Proof. intros. change 0 with (u64 0) at 1. rewrite sum64_u64. auto. Qed.

Lemma sum64_le : forall l, sum64 l 0 <= sumN l.
Proof. intros. rewrite sum64_0. unfold u64. apply N.mod_le. lia. Qed.

Lemma sumN_perm : forall l l', Permutation l l' -> sumN l = sumN l'.
Proof. induction 1; simpl; lia. Qed.

Lemma sub32_pred : forall nh, 0 < nh -> nh < 2 ^ 32 -> sub32 nh 1 = nh - 1.
Proof. intros. unfold sub32. lia. Qed.

Lemma combine_map : forall {A B C : Type} (f : A -> B) (g : A -> C) l,
  combine (map f l) (map g l) = map (fun x => (f x, g x)) l.
Proof. induction l; simpl; auto. rewrite IHl; auto. Qed.

(* ---- what the BFT parameter queries return *)
Lemma params_le_spec : forall s h best,
  (forall kb pb, best = Some (kb, pb) -> kb <= h) ->
  match params_le s h best with
  | None => best = None /\ forall k p, In (k, p) s -> h < k
  | Some (k, p) => k <= h /\ (In (k, p) s \/ best = Some (k, p)) /\
                   (forall k' p', In (k', p') s -> k' <= h -> k' <= k) /\
                   (forall kb pb, best = Some (kb, pb) -> kb <= k)
  end.
Proof.
  induction s as [|[k p] s]; intros h best Hb; simpl.
  - destruct best as [[kb pb]|].
    + split; [apply (Hb kb pb); auto|]. split; [right; auto|]. split; [intros k' p' []|].
      intros kb' pb' E. inversion E; subst. apply N.le_refl.
    + split; auto. intros k p [].
  - destruct (k <=? h) eqn:A.
    + apply N.leb_le in A. destruct best as [[kb pb]|].
      * destruct (kb <? k) eqn:B.
        -- apply N.ltb_lt in B. specialize (IHs h (Some (k, p))).
           destruct (params_le s h (Some (k, p))) as [[k1 p1]|].
           ++ destruct IHs as [I1 [I2 [I3 I4]]]. { intros ? ? E; inversion E; subst; auto. }
              repeat split; auto.
              ** destruct I2 as [I2|I2]; [left; right; auto | inversion I2; subst; left; left; auto].
              ** intros k' p' [E|Hin] Hle; [inversion E; subst; apply (I4 k' p'); auto | eauto].
              ** intros kb' pb' E. inversion E; subst. specialize (I4 k p eq_refl). lia.
           ++ destruct IHs as [I1 _]. { intros ? ? E; inversion E; subst; auto. } discriminate.
        -- apply N.ltb_ge in B. specialize (IHs h (Some (kb, pb)) Hb).
           destruct (params_le s h (Some (kb, pb))) as [[k1 p1]|].
           ++ destruct IHs as [I1 [I2 [I3 I4]]]. repeat split; auto.
              ** destruct I2 as [I2|I2]; [left; right; auto | right; auto].
              ** intros k' p' [E|Hin] Hle; [inversion E; subst; specialize (I4 kb pb eq_refl); lia | eauto].
           ++ destruct IHs as [I1 _]. discriminate.
      * specialize (IHs h (Some (k, p))).
        destruct (params_le s h (Some (k, p))) as [[k1 p1]|].
        -- destruct IHs as [I1 [I2 [I3 I4]]]. { intros ? ? E; inversion E; subst; auto. }
           repeat split; auto.
           ++ destruct I2 as [I2|I2]; [left; right; auto | inversion I2; subst; left; left; auto].
           ++ intros k' p' [E|Hin] Hle; [inversion E; subst; apply (I4 k' p'); auto | eauto].
           ++ intros ? ? E. discriminate.
        -- destruct IHs as [I1 _]. { intros ? ? E; inversion E; subst; auto. } discriminate.
    + apply N.leb_gt in A. specialize (IHs h best Hb).
      destruct (params_le s h best) as [[k1 p1]|].
      * destruct IHs as [I1 [I2 [I3 I4]]]. repeat split; auto.
        -- destruct I2; auto.
        -- intros k' p' [E|Hin] Hle; [inversion E; subst; lia | eauto].
      * destruct IHs as [I1 I2]. split; auto. intros k' p' [E|Hin]; [inversion E; subst; auto | eauto].
Qed.

(* GetBFTParameters(h): the entry of the parameter store with the greatest key <= h (none if every key is above h) *)
Theorem get_params_spec : forall e h,
  match get_params e h with
  | Some p => exists k, In (k, p) (e_params e) /\ k <= h /\ forall k' p', In (k', p') (e_params e) -> k' <= h -> k' <= k
  | None => forall k p, In (k, p) (e_params e) -> h < k
  end.
Proof.
  intros e h. unfold get_params.
  pose proof (params_le_spec (e_params e) h None) as H.
  destruct (params_le (e_params e) h None) as [[k p]|].
  - destruct H as [H1 [H2 [H3 _]]]. { intros ? ? E; discriminate. }
    exists k. destruct H2 as [H2|H2]; [|discriminate]. auto.
  - destruct H as [_ H]. { intros ? ? E; discriminate. } auto.
Qed.

Lemma params_ge_spec : forall s lo best,
  (forall kb, best = Some kb -> lo <= kb) ->
  match params_ge s lo best with
  | None => best = None /\ forall k p, In (k, p) s -> k < lo
  | Some k => lo <= k /\ ((exists p, In (k, p) s) \/ best = Some k) /\
              (forall k' p', In (k', p') s -> lo <= k' -> k <= k') /\ (forall kb, best = Some kb -> k <= kb)
  end.
Proof.
  induction s as [|[k p] s]; intros lo best Hb; simpl.
  - destruct best as [kb|].
    + split; [apply (Hb kb); auto|]. split; [right; auto|]. split; [intros k' p' []|].
      intros ? E; inversion E; subst; apply N.le_refl.
    + split; auto. intros k p [].
  - destruct (lo <=? k) eqn:A.
    + apply N.leb_le in A. destruct best as [kb|].
      * destruct (k <? kb) eqn:B.
        -- apply N.ltb_lt in B. specialize (IHs lo (Some k)).
           destruct (params_ge s lo (Some k)) as [k1|].
           ++ destruct IHs as [I1 [I2 [I3 I4]]]. { intros ? E; inversion E; subst; auto. }
              repeat split; auto.
              ** destruct I2 as [[p1 I2]|I2]; [left; exists p1; right; auto | inversion I2; subst; left; exists p; left; auto].
              ** intros k' p' [E|Hin] Hle; [inversion E; subst; apply (I4 k'); auto | eauto].
              ** intros ? E. inversion E; subst. specialize (I4 k eq_refl). lia.
           ++ destruct IHs as [I1 _]. { intros ? E; inversion E; subst; auto. } discriminate.
        -- apply N.ltb_ge in B. specialize (IHs lo (Some kb) Hb).
           destruct (params_ge s lo (Some kb)) as [k1|].
           ++ destruct IHs as [I1 [I2 [I3 I4]]]. repeat split; auto.
              ** destruct I2 as [[p1 I2]|I2]; [left; exists p1; right; auto | right; auto].
              ** intros k' p' [E|Hin] Hle; [inversion E; subst; specialize (I4 kb eq_refl); lia | eauto].
           ++ destruct IHs as [I1 _]. discriminate.
      * specialize (IHs lo (Some k)).
        destruct (params_ge s lo (Some k)) as [k1|].
        -- destruct IHs as [I1 [I2 [I3 I4]]]. { intros ? E; inversion E; subst; auto. }
           repeat split; auto.
           ++ destruct I2 as [[p1 I2]|I2]; [left; exists p1; right; auto | inversion I2; subst; left; exists p; left; auto].
           ++ intros k' p' [E|Hin] Hle; [inversion E; subst; apply (I4 k'); auto | eauto].
           ++ intros ? E. discriminate.
        -- destruct IHs as [I1 _]. { intros ? E; inversion E; subst; auto. } discriminate.
    + apply N.leb_gt in A. specialize (IHs lo best Hb).
      destruct (params_ge s lo best) as [k1|].
      * destruct IHs as [I1 [I2 [I3 I4]]]. repeat split; auto.
        -- destruct I2 as [[p1 I2]|I2]; [left; exists p1; right; auto | right; auto].
        -- intros k' p' [E|Hin] Hle; [inversion E; subst; lia | eauto].
      * destruct IHs as [I1 I2]. split; auto. intros k' p' [E|Hin]; [inversion E; subst; auto | eauto].
Qed.

(* NextHeightBFTParameters(x): the least key of the parameter store that is >= uint32(x+1) *)
Theorem next_params_spec : forall e x,
  match next_params e x with
  | Some k => u32 (x + 1) <= k /\ (exists p, In (k, p) (e_params e)) /\
              forall k' p', In (k', p') (e_params e) -> u32 (x + 1) <= k' -> k <= k'
  | None => forall k p, In (k, p) (e_params e) -> k < u32 (x + 1)
  end.
Proof.
  intros e x. unfold next_params.
  pose proof (params_ge_spec (e_params e) (u32 (x + 1)) None) as H.
  destruct (params_ge (e_params e) (u32 (x + 1)) None) as [k|].
  - destruct H as [H1 [H2 [H3 _]]]. { intros ? E; discriminate. }
    destruct H2 as [H2|H2]; [|discriminate]. auto.
  - destruct H as [_ H]. { intros ? E; discriminate. } auto.
Qed.

Section Sound.
  Variables (sigT msgT : Type).
  Variable sig_len0 : sigT -> bool.
  Variable msg_of : cert -> msgT.
  Variable fav : list key -> msgT -> sigT -> bool.

  (* what an accepted non-empty aggregate commit guarantees *)
  Definition sound_commit (e : env) (a : agg_commit sigT) : Prop :=
    exists hd p signers,
      chain_at (e_chain e) (ac_height a) = Some hd /\
      get_params e (ac_height a) = Some p /\
      (* the signers are the validators of that height selected by the bitmap, in ascending BLS key order *)
      select_from (ac_bits a) 0 (sort_by v_key (p_validators p)) = Some signers /\
      length (ac_bits a) = bits_len (length (p_validators p)) /\
      incl signers (p_validators p) /\
      (* the signature is a valid aggregate by exactly their keys over the certificate of the own block *)
      fav (map v_key signers) (msg_of (h_cert hd)) (ac_sig a) = true /\
      (* true (unwrapped) weight reaches the certificate threshold of that height *)
      p_threshold p <= sumN (map v_weight signers) /\
      e_mhc e < ac_height a /\ ac_height a <= e_mhp e /\
      (forall nh, next_params e (u32 (e_mhc e + 1)) = Some nh -> ac_height a <= sub32 nh 1).

  Theorem verify_sound : forall e a,
    verify sig_len0 msg_of fav e a = Accept ->
    (ac_empty sig_len0 a = true /\ ac_height a = e_mhc e) \/ sound_commit e a.
  Proof.
    intros e a. unfold verify.
    destruct (ac_empty sig_len0 a && (ac_height a =? e_mhc e)) eqn:E0.
    { intros _. left. apply andb_true_iff in E0. destruct E0. split; auto. apply N.eqb_eq; auto. }
    destruct (Nat.eqb (length (ac_bits a)) 0 || sig_len0 (ac_sig a)) eqn:E1; try discriminate.
    destruct (ac_height a <=? e_mhc e) eqn:E2; try discriminate.
    destruct (e_mhp e <? ac_height a) eqn:E3; try discriminate.
    destruct (match next_params e (u32 (e_mhc e + 1)) with Some nh => sub32 nh 1 <? ac_height a | None => false end) eqn:E4;
      try discriminate.
    destruct (chain_at (e_chain e) (ac_height a)) as [hd|] eqn:E5; try discriminate.
    destruct (get_params e (ac_height a)) as [p|] eqn:E6; try discriminate.
    unfold verify_weighted.
    rewrite !map_length.
    destruct (negb (Nat.eqb (length (ac_bits a)) (bits_len (length (sort_by v_key (p_validators p))))) ||
              negb (Nat.eqb (length (sort_by v_key (p_validators p))) (length (sort_by v_key (p_validators p))))) eqn:E7;
      try discriminate.
    rewrite combine_map, select_from_map.
    destruct (select_from (ac_bits a) 0 (sort_by v_key (p_validators p))) as [signers|] eqn:E8; simpl; try discriminate.
    rewrite !map_map. simpl.
    destruct (sum64 (map (fun x => v_weight x) signers) 0 <? p_threshold p) eqn:E9; try discriminate.
    destruct (fav (map (fun x => v_key x) signers) (msg_of (h_cert hd)) (ac_sig a)) eqn:E10; try discriminate.
    intros _. right. exists hd, p, signers.
    apply orb_false_iff in E7. destruct E7 as [E7 _]. apply negb_false_iff, Nat.eqb_eq in E7.
    rewrite sort_by_length in E7.
    repeat split; auto.
    - intros x Hx. apply (sort_by_in v_key). eapply select_from_incl; eauto.
    - pose proof (sum64_le (map (fun x => v_weight x) signers)).
      apply N.ltb_ge in E9. change (map v_weight signers) with (map (fun x => v_weight x) signers). lia.
    - apply N.leb_gt in E2. auto.
    - apply N.ltb_ge in E3. auto.
    - intros nh Hn. rewrite Hn in E4. apply N.ltb_ge in E4. auto.
  Qed.
End Sound.
