(* Model of the aggregate-commit code (after the repairs recorded in findings/C06.json):
     pkg/consensus/certificate.go   verifyAggregateCommit, GetAggregateCommit
     pkg/consensus/certificate/certificate.go   SingleCommits.Aggregate, Certificate.VerifyAggregateCertificateSignature
     pkg/crypto/bls.go   BLSCreateAggSig, BLSVerifyWeightedAggSig
     pkg/consensus/liskbft/api.go   GetBFTParameters / ExistBFTParameters / NextHeightBFTParameters (as queries on the
                                    BFT parameter store, which is an input of this model)
   Heights are uint32, weights uint64: N with explicit wrap.  Addresses and block IDs are only compared with
   bytes.Equal: injective N codes.  BLS keys are byte strings ordered by bytes.Compare.  BLS itself is a Section oracle. *)
From Coq Require Import List NArith Bool Arith.
From LE Require Import Cert.Bits.
Import ListNotations.
Local Open Scope N_scope.

Definition u32 (x : N) : N := x mod 2 ^ 32.
Definition u64 (x : N) : N := x mod 2 ^ 64.
(* Go's a-b on uint32 *)
Definition sub32 (a b : N) : N := (a + 2 ^ 32 - b mod 2 ^ 32) mod 2 ^ 32.

Definition key := list N.

(* bytes.Compare(a,b) < 0 *)
Fixpoint lex_lt (a b : key) : bool :=
  match a, b with
  | [], [] => false
  | [], _ :: _ => true
  | _ :: _, [] => false
  | x :: a', y :: b' => if x <? y then true else if y <? x then false else lex_lt a' b'
  end.

Fixpoint key_eqb (a b : key) : bool :=
  match a, b with
  | [], [] => true
  | x :: a', y :: b' => (x =? y) && key_eqb a' b'
  | _, _ => false
  end.

(* sort.Slice(l, func(i,j) bool { return bytes.Compare(l[i].key, l[j].key) < 0 }) for pairwise distinct keys
   (the result of an unstable sort is then unique); insertion sort. *)
Section SortBy.
  Context {A : Type} (kf : A -> key).
  Fixpoint insert_by (x : A) (l : list A) : list A :=
    match l with
    | [] => [x]
    | y :: t => if lex_lt (kf x) (kf y) then x :: y :: t else y :: insert_by x t
    end.
  Definition sort_by (l : list A) : list A := fold_right insert_by [] l.
End SortBy.

Record validator := { v_addr : N; v_weight : N; v_key : key }.
Record params := { p_validators : list validator; p_threshold : N }.   (* validators, certificateThreshold *)
(* certificate.NewCertificateFromBlock(header): the five signed fields *)
Record cert := { c_block : N; c_height : N; c_ts : N; c_state_root : N; c_vhash : N }.
(* block header as far as this code reads it: certificate fields (ID = c_block) and AggregateCommit.Height *)
Record header := { h_cert : cert; h_ac_height : N }.

(* the node's view: BFT heights, BFT parameter store (height |-> params), chain (height |-> header) *)
Record env := { e_mhp : N; e_mhc : N; e_params : list (N * params); e_chain : list (N * header) }.

Fixpoint chain_at (c : list (N * header)) (h : N) : option header :=
  match c with
  | [] => None
  | (k, x) :: t => if k =? h then Some x else chain_at t h
  end.

(* getBFTParams: Range(0, h, limit 1, reverse) = entry with the greatest key <= h *)
Fixpoint params_le (s : list (N * params)) (h : N) (best : option (N * params)) : option (N * params) :=
  match s with
  | [] => best
  | (k, p) :: t =>
      if k <=? h then
        match best with
        | Some (k', _) => if k' <? k then params_le t h (Some (k, p)) else params_le t h best
        | None => params_le t h (Some (k, p))
        end
      else params_le t h best
  end.
Definition get_params (e : env) (h : N) : option params :=
  match params_le (e_params e) h None with Some (_, p) => Some p | None => None end.

Definition exist_params (e : env) (h : N) : bool := existsb (fun kp => fst kp =? h) (e_params e).

(* NextHeightBFTParameters(height): Range(height+1, MaxUint32, limit 1) = smallest key >= uint32(height+1) *)
Fixpoint params_ge (s : list (N * params)) (lo : N) (best : option N) : option N :=
  match s with
  | [] => best
  | (k, _) :: t =>
      if lo <=? k then
        match best with
        | Some k' => if k <? k' then params_ge t lo (Some k) else params_ge t lo best
        | None => params_ge t lo (Some k)
        end
      else params_ge t lo best
  end.
Definition next_params (e : env) (height : N) : option N := params_ge (e_params e) (u32 (height + 1)) None.

Fixpoint find_validator (vs : list validator) (a : N) : option validator :=
  match vs with
  | [] => None
  | v :: t => if v_addr v =? a then Some v else find_validator t a
  end.

Fixpoint sum64 (ws : list N) (acc : N) : N :=
  match ws with [] => acc | w :: t => sum64 t (u64 (acc + w)) end.

(* keep the elements whose bit is set; None = index panic in Bits.read *)
Fixpoint select_from {A : Type} (bits : list N) (i : nat) (l : list A) : option (list A) :=
  match l with
  | [] => Some []
  | x :: t =>
      match read_bit bits i with
      | None => None
      | Some b =>
          match select_from bits (S i) t with
          | None => None
          | Some r => Some (if b then x :: r else r)
          end
      end
  end.

(* bytes.FindIndex *)
Fixpoint find_index (ks : list key) (k : key) (i : nat) : option nat :=
  match ks with
  | [] => None
  | x :: t => if key_eqb x k then Some i else find_index t k (S i)
  end.

Inductive vres := Accept | RejEmptyField | RejNotIncreasing | RejAbovePrecommitted | RejAboveNextParams
                | RejNoHeader | RejNoParams | RejInvalid | VPanic.

Section BLS.
  Variables (sigT msgT : Type).
  Variable sig_len0 : sigT -> bool.                      (* len(signature) == 0 *)
  Variable msg_of : cert -> msgT.                        (* Hash(tag ++ chainID ++ SigningBytes) *)
  Variable fav : list key -> msgT -> sigT -> bool.       (* FastAggregateVerify over the uncompressed keys *)
  Variable agg : list sigT -> sigT.                      (* P2Aggregate.Aggregate + Compress *)

  Record agg_commit := { ac_height : N; ac_bits : list N; ac_sig : sigT }.
  Record single_commit := { sc_block : N; sc_height : N; sc_addr : N; sc_sig : sigT; sc_internal : bool }.

  (* crypto.BLSVerifyWeightedAggSig (with the length checks of commit 7534e38); None = panic *)
  Definition verify_weighted (keys : list key) (bits : list N) (s : sigT) (weights : list N) (threshold : N) (m : msgT)
    : option bool :=
    if negb (Nat.eqb (length bits) (bits_len (length keys))) || negb (Nat.eqb (length weights) (length keys))
    then Some false
    else match select_from bits 0 (combine keys weights) with
         | None => None
         | Some sel =>
             if sum64 (map snd sel) 0 <? threshold then Some false
             else Some (fav (map fst sel) m s)
         end.

  Definition ac_empty (a : agg_commit) : bool := Nat.eqb (length (ac_bits a)) 0 && sig_len0 (ac_sig a).

  (* Executer.verifyAggregateCommit *)
  Definition verify (e : env) (a : agg_commit) : vres :=
    if ac_empty a && (ac_height a =? e_mhc e) then Accept else
    if Nat.eqb (length (ac_bits a)) 0 || sig_len0 (ac_sig a) then RejEmptyField else
    if ac_height a <=? e_mhc e then RejNotIncreasing else
    if e_mhp e <? ac_height a then RejAbovePrecommitted else
    if match next_params e (u32 (e_mhc e + 1)) with
       | Some nh => sub32 nh 1 <? ac_height a
       | None => false
       end then RejAboveNextParams else
    match chain_at (e_chain e) (ac_height a) with
    | None => RejNoHeader
    | Some hd =>
        match get_params e (ac_height a) with
        | None => RejNoParams
        | Some p =>
            let vs := sort_by v_key (p_validators p) in
            match verify_weighted (map v_key vs) (ac_bits a) (ac_sig a) (map v_weight vs) (p_threshold p)
                                  (msg_of (h_cert hd)) with
            | None => VPanic
            | Some true => Accept
            | Some false => RejInvalid
            end
        end
    end.

  (* crypto.BLSCreateAggSig: bitmap of ceil(n/8) zero bytes, one bit per pair whose key is in the list; all the
     signatures are aggregated.  None = index panic (cannot happen: the index comes from FindIndex). *)
  Fixpoint set_bits (ks : list key) (pks : list key) (bits : list N) : option (list N) :=
    match pks with
    | [] => Some bits
    | pk :: t =>
        match find_index ks pk 0 with
        | None => set_bits ks t bits
        | Some i => match write_bit bits i with None => None | Some b' => set_bits ks t b' end
        end
    end.

  Inductive ares := AOk (a : agg_commit) | AErrEmpty | AErrNoKey | APanic.

  Fixpoint lookup_key (kps : list (N * key)) (a : N) : option key :=
    match kps with
    | [] => None
    | (a', k) :: t => if a =? a' then Some k else lookup_key t a
    end.

  Fixpoint commit_keys (kps : list (N * key)) (cs : list single_commit) : option (list key) :=
    match cs with
    | [] => Some []
    | c :: t => match lookup_key kps (sc_addr c) with
                | None => None
                | Some k => match commit_keys kps t with None => None | Some r => Some (k :: r) end
                end
    end.

  (* SingleCommits.Aggregate(keypairs) — key pairs sorted ascending by BLS key (repaired) *)
  Definition aggregate (cs : list single_commit) (keypairs : list (N * key)) : ares :=
    match cs with
    | [] => AErrEmpty
    | c0 :: _ =>
        let sorted := sort_by (@snd N key) keypairs in
        match commit_keys sorted cs with
        | None => AErrNoKey
        | Some pks =>
            let ks := map snd sorted in
            match set_bits ks pks (zero_bits (length ks)) with
            | None => APanic
            | Some bits => AOk {| ac_height := sc_height c0; ac_bits := bits; ac_sig := agg (map sc_sig cs) |}
            end
        end
    end.

  (* Pool.Get(height): gossiped first, then nonGossiped *)
  Definition pool_get (gossiped nongossiped : list single_commit) (h : N) : list single_commit :=
    filter (fun c => sc_height c =? h) gossiped ++ filter (fun c => sc_height c =? h) nongossiped.

  Fixpoint commit_weights (vs : list validator) (cs : list single_commit) : option (list N) :=
    match cs with
    | [] => Some []
    | c :: t => match find_validator vs (sc_addr c) with
                | None => None
                | Some v => match commit_weights vs t with None => None | Some r => Some (v_weight v :: r) end
                end
    end.

  Inductive gres := GOk (a : agg_commit) | GEmpty (h : N) | GErrParams | GErrAggregate (r : ares) | GPanic | GFuel.

  (* loop of GetAggregateCommit: [n] iterations left, current candidate height [h] *)
  Fixpoint gac_loop (e : env) (g ng : list single_commit) (n : nat) (h : N) : gres :=
    if h <=? e_mhc e then GEmpty (e_mhc e) else
    match n with
    | O => GFuel
    | S n' =>
        let cs := pool_get g ng h in
        match cs with
        | [] => gac_loop e g ng n' (h - 1)
        | _ =>
            match get_params e h with
            | None => GErrParams
            | Some p =>
                match commit_weights (p_validators p) cs with
                | None => GPanic      (* panic("Validator address must exist in params") *)
                | Some ws =>
                    if sum64 ws 0 <? p_threshold p then gac_loop e g ng n' (h - 1)
                    else match aggregate cs (map (fun v => (v_addr v, v_key v)) (p_validators p)) with
                         | AOk a => GOk a
                         | r => GErrAggregate r
                         end
                end
            end
        end
    end.

  Definition gac_start (e : env) : N :=
    match next_params e (u32 (e_mhc e + 1)) with
    | Some nh => N.min (sub32 nh 1) (e_mhp e)
    | None => e_mhp e
    end.

  (* Executer.GetAggregateCommit; the loop runs at most start - maxHeightCertified times *)
  Definition get_aggregate_commit (e : env) (g ng : list single_commit) : gres :=
    let start := gac_start e in
    gac_loop e g ng (N.to_nat (start - e_mhc e)) start.
End BLS.

Arguments ac_height {sigT} _.
Arguments ac_bits {sigT} _.
Arguments ac_sig {sigT} _.
Arguments Build_agg_commit {sigT} _ _ _.
Arguments sc_block {sigT} _.
Arguments sc_height {sigT} _.
Arguments sc_addr {sigT} _.
Arguments sc_sig {sigT} _.
Arguments sc_internal {sigT} _.
Arguments Build_single_commit {sigT} _ _ _ _ _.
Arguments AOk {sigT} _.
Arguments AErrEmpty {sigT}.
Arguments AErrNoKey {sigT}.
Arguments APanic {sigT}.
Arguments GOk {sigT} _.
Arguments GEmpty {sigT} _.
Arguments GErrParams {sigT}.
Arguments GErrAggregate {sigT} _.
Arguments GPanic {sigT}.
Arguments GFuel {sigT}.
Arguments verify_weighted {sigT msgT} _ _ _ _ _ _ _.
Arguments ac_empty {sigT} _ _.
Arguments verify {sigT msgT} _ _ _ _ _.
Arguments aggregate {sigT} _ _ _.
Arguments pool_get {sigT} _ _ _.
Arguments commit_weights {sigT} _ _.
Arguments commit_keys {sigT} _ _.
Arguments gac_loop {sigT} _ _ _ _ _ _.
Arguments get_aggregate_commit {sigT} _ _ _ _.
