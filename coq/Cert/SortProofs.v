(* The order verifyAggregateCommit / Aggregate sort in is the ascending lexicographic order of the BLS keys, and the
   signers picked by the bitmap are exactly the validators whose RANK (number of validators of the set with a smaller
   key) has its bit set. *)
From Coq Require Import List NArith ZArith Bool Arith Lia Permutation Sorting.Sorted.
From LE Require Import Cert.Bits Cert.BitsProofs Cert.AggCommit Cert.AggCommitProofs.
Import ListNotations.
Local Open Scope N_scope.

Lemma lex_lt_irrefl : forall a, lex_lt a a = false.
Proof. induction a; simpl; auto. rewrite N.ltb_irrefl. auto. Qed.

Lemma lex_lt_asym : forall a b, lex_lt a b = true -> lex_lt b a = false.
Proof.
  induction a; destruct b; simpl; intros; try discriminate; auto.
  destruct (a <? n) eqn:A; destruct (n <? a) eqn:B; try discriminate; auto.
  apply N.ltb_lt in A. apply N.ltb_lt in B. lia.
Qed.

Lemma lex_lt_trans : forall a b c, lex_lt a b = true -> lex_lt b c = true -> lex_lt a c = true.
Proof.
  induction a; destruct b; destruct c; simpl; intros; try discriminate; auto.
  destruct (a <? n) eqn:A; destruct (n <? a) eqn:A'; destruct (n <? n0) eqn:B; destruct (n0 <? n) eqn:B';
    try discriminate;
    repeat match goal with
           | H : (_ <? _) = true |- _ => apply N.ltb_lt in H
           | H : (_ <? _) = false |- _ => apply N.ltb_ge in H
           end.
  all: try (assert (a < n0) by lia; replace (a <? n0) with true by (symmetry; apply N.ltb_lt; auto); auto; fail).
  all: try lia.
  assert (a = n) by lia. assert (n = n0) by lia. subst. rewrite N.ltb_irrefl. eapply IHa; eauto.
Qed.

Lemma lex_total : forall a b, lex_lt a b = false -> lex_lt b a = false -> a = b.
Proof.
  induction a; destruct b; simpl; intros; try discriminate; auto.
  destruct (a <? n) eqn:A; destruct (n <? a) eqn:B; try discriminate.
  apply N.ltb_ge in A. apply N.ltb_ge in B. assert (a = n) by lia. subst. f_equal. auto.
Qed.

Lemma perm_filter : forall {A : Type} (f : A -> bool) l l', Permutation l l' -> Permutation (filter f l) (filter f l').
Proof.
  induction 1; simpl; auto.
  - destruct (f x); auto.
  - destruct (f x); destruct (f y); auto. apply perm_swap.
  - eapply perm_trans; eauto.
Qed.

Section Sorted.
  Context {A : Type} (kf : A -> key).
  Definition le_k (x y : A) : Prop := lex_lt (kf y) (kf x) = false.

  Lemma insert_by_in : forall x l z, In z (insert_by kf x l) -> z = x \/ In z l.
  Proof. intros. apply (Permutation_in _ (insert_by_perm kf x l)) in H. destruct H; auto. Qed.

  Lemma insert_by_sorted : forall x l, StronglySorted le_k l -> StronglySorted le_k (insert_by kf x l).
  Proof.
    induction l; simpl; intros. - constructor; auto.
    - inversion H; subst. destruct (lex_lt (kf x) (kf a)) eqn:E.
      + constructor; auto. constructor.
        * unfold le_k. apply lex_lt_asym; auto.
        * apply Forall_forall. intros z Hz. eapply Forall_forall in H3; eauto. unfold le_k in *.
          destruct (lex_lt (kf z) (kf x)) eqn:F; auto.
          rewrite (lex_lt_trans _ _ _ F E) in H3. discriminate.
      + constructor; auto. apply Forall_forall. intros z Hz. apply insert_by_in in Hz. destruct Hz.
        * subst. exact E. * eapply Forall_forall in H3; eauto.
  Qed.

  (* sort_by yields the ascending order *)
  Theorem sort_by_sorted : forall l, StronglySorted le_k (sort_by kf l).
  Proof. induction l; simpl. - constructor. - apply insert_by_sorted; auto. Qed.

  Definition rank (l : list A) (v : A) : nat := length (filter (fun w => lex_lt (kf w) (kf v)) l).

  Lemma rank_perm : forall l l' v, Permutation l l' -> rank l v = rank l' v.
  Proof. intros. unfold rank. apply Permutation_length. apply perm_filter. auto. Qed.

  (* in a sorted list with distinct keys an element sits at the index given by its rank *)
  Lemma sorted_nth_rank : forall l, StronglySorted le_k l -> NoDup (map kf l) ->
    forall i v, nth_error l i = Some v -> rank l v = i.
  Proof.
    induction l; intros S ND i v H. - destruct i; discriminate.
    - inversion S; subst. inversion ND; subst. unfold rank. simpl. destruct i; simpl in H.
      + inversion H; subst. rewrite lex_lt_irrefl.
        replace (filter (fun w => lex_lt (kf w) (kf v)) l) with (@nil A); auto.
        symmetry. clear - H3. induction l; simpl; auto. inversion H3; subst. unfold le_k in H1. rewrite H1. auto.
      + assert (Hin : In v l) by (eapply nth_error_In; eauto).
        assert (lex_lt (kf a) (kf v) = true).
        { eapply Forall_forall in H3; eauto. unfold le_k in H3.
          destruct (lex_lt (kf a) (kf v)) eqn:E; auto.
          exfalso. apply H4. rewrite (lex_total _ _ E H3). apply in_map; auto. }
        rewrite H0. simpl. f_equal. apply (IHl H2 H5 i v H).
  Qed.
End Sorted.

Lemma select_from_in : forall {A : Type} bits (l : list A) i r, select_from bits i l = Some r ->
  forall v, In v r <-> exists j, nth_error l j = Some v /\ read_bit bits (i + j) = Some true.
Proof.
  induction l; simpl; intros i r H v.
  - inversion H; subst. split; [intros [] | intros [j [E _]]; destruct j; discriminate].
  - destruct (read_bit bits i) as [b|] eqn:B; try discriminate.
    destruct (select_from bits (S i) l) as [r'|] eqn:E; try discriminate. inversion H; subst.
    specialize (IHl (S i) r' E v). split.
    + intro Hin. destruct b.
      * destruct Hin as [Hv|Hin]. { subst. exists O. rewrite Nat.add_0_r. auto. }
        apply IHl in Hin. destruct Hin as [j [E1 E2]]. exists (S j). replace (i + S j)%nat with (S i + j)%nat by lia. auto.
      * apply IHl in Hin. destruct Hin as [j [E1 E2]]. exists (S j). replace (i + S j)%nat with (S i + j)%nat by lia. auto.
    + intros [j [E1 E2]]. destruct j; simpl in E1.
      * inversion E1; subst. rewrite Nat.add_0_r in E2. rewrite B in E2. inversion E2; subst. left; auto.
      * assert (In v r') by (apply IHl; exists j; replace (S i + j)%nat with (i + S j)%nat by lia; auto).
        destruct b; [right|]; auto.
Qed.

(* the signers picked by the bitmap over the sorted validators = the validators whose rank bit is set *)
Theorem signers_by_rank : forall (vs : list validator) bits signers,
  NoDup (map v_key vs) -> select_from bits 0 (sort_by v_key vs) = Some signers ->
  forall v, In v signers <-> In v vs /\ read_bit bits (rank v_key vs v) = Some true.
Proof.
  intros vs bits signers ND H v.
  assert (P := sort_by_perm v_key vs).
  assert (ND' : NoDup (map v_key (sort_by v_key vs))).
  { eapply Permutation_NoDup; [apply Permutation_map; symmetry; apply P | auto]. }
  rewrite (select_from_in _ _ _ _ H v). split.
  - intros [j [E1 E2]]. split. + eapply Permutation_in; [apply P|]. eapply nth_error_In; eauto.
    + rewrite (rank_perm v_key vs (sort_by v_key vs) v) by (symmetry; auto).
      rewrite (sorted_nth_rank v_key _ (sort_by_sorted v_key vs) ND' j v E1). auto.
  - intros [Hin Hb]. assert (Hin' : In v (sort_by v_key vs)) by (eapply Permutation_in; [symmetry; apply P | auto]).
    destruct (In_nth_error _ _ Hin') as [j Ej]. exists j. split; auto.
    rewrite (rank_perm v_key vs (sort_by v_key vs) v) in Hb by (symmetry; auto).
    rewrite (sorted_nth_rank v_key _ (sort_by_sorted v_key vs) ND' j v Ej) in Hb. auto.
Qed.
