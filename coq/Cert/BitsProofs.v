(* Read-after-write laws of the aggregation bitmap (Cert/Bits.v). *)
From Coq Require Import List NArith ZArith Bool Arith Lia ZifyBool ZifyN ZifyNat.
From LE Require Import Cert.Bits.
Import ListNotations.
Local Open Scope N_scope.

Ltac Zify.zify_post_hook ::= Z.div_mod_to_equations.

Lemma bit_of_byte_testbit : forall x k, bit_of_byte x k = N.testbit x k.
Proof. intros. unfold bit_of_byte. symmetry. apply N.testbit_eqb. Qed.

Lemma set_in_byte_setbit : forall x k, set_in_byte x k = N.setbit x k.
Proof.
  intros. unfold set_in_byte. rewrite bit_of_byte_testbit.
  destruct (N.testbit x k) eqn:E.
  - apply N.bits_inj. intro m. rewrite N.setbit_eqb.
    destruct (N.eqb_spec k m); subst; simpl; auto.
  - rewrite N.add_nocarry_lxor.
    + apply N.bits_inj. intro m. rewrite N.setbit_eqb, N.lxor_spec, N.pow2_bits_eqb.
      destruct (N.eqb_spec k m); subst; simpl; try rewrite E; auto using xorb_false_r.
    + apply N.bits_inj. intro m. rewrite N.land_spec, N.bits_0, N.pow2_bits_eqb.
      destruct (N.eqb_spec k m); subst; simpl; try rewrite E; auto using andb_false_r.
Qed.

Lemma bit_set_same : forall x k, bit_of_byte (set_in_byte x k) k = true.
Proof. intros. rewrite bit_of_byte_testbit, set_in_byte_setbit. apply N.setbit_eq. Qed.

Lemma bit_set_other : forall x k k', k <> k' -> bit_of_byte (set_in_byte x k) k' = bit_of_byte x k'.
Proof. intros. rewrite !bit_of_byte_testbit, set_in_byte_setbit. apply N.setbit_neq; auto. Qed.

Lemma upd_nth_length : forall l n f l', upd_nth l n f = Some l' -> length l' = length l.
Proof.
  induction l; destruct n; simpl; intros; try discriminate.
  - inversion H; auto.
  - destruct (upd_nth l n f) eqn:E; try discriminate. inversion H; subst. simpl. erewrite IHl; eauto.
Qed.

Lemma upd_nth_some : forall l n f, (n < length l)%nat -> exists l', upd_nth l n f = Some l'.
Proof.
  induction l; destruct n; simpl; intros; try lia; eauto.
  destruct (IHl n f) as [l' E]; try lia. rewrite E. eauto.
Qed.

Lemma upd_nth_same : forall l n f l', upd_nth l n f = Some l' ->
  exists x, nth_error l n = Some x /\ nth_error l' n = Some (f x).
Proof.
  induction l; destruct n; simpl; intros; try discriminate.
  - inversion H; subst. eauto.
  - destruct (upd_nth l n f) eqn:E; try discriminate. inversion H; subst. simpl. eauto.
Qed.

Lemma upd_nth_other : forall l n f l' m, upd_nth l n f = Some l' -> m <> n -> nth_error l' m = nth_error l m.
Proof.
  induction l; destruct n; simpl; intros; try discriminate.
  - inversion H; subst. destruct m; try congruence; auto.
  - destruct (upd_nth l n f) eqn:E; try discriminate. inversion H; subst.
    destruct m; simpl; auto. eapply IHl; eauto.
Qed.

Lemma write_bit_length : forall b i b', write_bit b i = Some b' -> length b' = length b.
Proof. unfold write_bit. intros. eapply upd_nth_length; eauto. Qed.

Lemma write_bit_some : forall b i, (byte_ix i < length b)%nat -> exists b', write_bit b i = Some b'.
Proof. unfold write_bit. intros. apply upd_nth_some; auto. Qed.

Lemma ix_inj : forall i j, byte_ix i = byte_ix j -> bit_ix i = bit_ix j -> i = j.
Proof. unfold byte_ix, bit_ix. intros. lia. Qed.

Lemma read_write_same : forall b i b', write_bit b i = Some b' -> read_bit b' i = Some true.
Proof.
  unfold write_bit, read_bit. intros. destruct (upd_nth_same _ _ _ _ H) as [x [_ E]].
  rewrite E. f_equal. apply bit_set_same.
Qed.

Lemma read_write_other : forall b i b' j, write_bit b i = Some b' -> i <> j -> read_bit b' j = read_bit b j.
Proof.
  unfold write_bit, read_bit. intros.
  destruct (Nat.eq_dec (byte_ix j) (byte_ix i)) as [E|E].
  - destruct (upd_nth_same _ _ _ _ H) as [x [E1 E2]]. rewrite E, E1, E2. f_equal.
    apply bit_set_other. intro. apply H0. apply ix_inj; auto.
  - erewrite upd_nth_other; eauto.
Qed.

Lemma read_zero : forall n i, (i < n)%nat -> read_bit (zero_bits n) i = Some false.
Proof.
  intros. unfold read_bit, zero_bits.
  assert (byte_ix i < bits_len n)%nat by (unfold byte_ix, bits_len; lia).
  destruct (nth_error (repeat 0 (bits_len n)) (byte_ix i)) eqn:E.
  - apply nth_error_In, repeat_spec in E. subst. f_equal.
  - apply nth_error_None in E. rewrite repeat_length in E. lia.
Qed.

Lemma zero_bits_length : forall n, length (zero_bits n) = bits_len n.
Proof. intros. apply repeat_length. Qed.

Lemma byte_ix_lt : forall i n, (i < n)%nat -> (byte_ix i < bits_len n)%nat.
Proof. unfold byte_ix, bits_len. intros. lia. Qed.

Lemma read_in_range : forall b i n, length b = bits_len n -> (i < n)%nat -> exists v, read_bit b i = Some v.
Proof.
  intros. unfold read_bit. pose proof (byte_ix_lt _ _ H0).
  destruct (nth_error b (byte_ix i)) eqn:E; eauto.
  apply nth_error_None in E. lia.
Qed.
