(* C13 — expected shape of pkg/db's batch path (hand-written; compared with Gen/DbAtomic.v regenerated from the source).
   It is the code-level side of the assumption "one db.Write = one atomic synced pebble batch":
   the Batch mutators only stage into the pebble batch (no call that commits, applies, writes, syncs or resets),
   nothing else in the package touches the pebble batch, and DB.Write applies it exactly once with pebble.Sync. *)
From Coq Require Import List String Bool.
Import ListNotations.
Local Open Scope string_scope.

Definition expected_batch_fields : list string := ["inner *pebble.Batch"; "mutex *sync.Mutex"].

Definition expected_batch_methods : list (string * list string) := [
  ("Batch.Del", ["b.mutex.Lock()"; "b.mutex.Unlock()"; "b.inner.Delete(key, nil)"; "panic(err)"]);
  ("Batch.Set", ["b.mutex.Lock()"; "b.mutex.Unlock()"; "b.inner.Set(key, value, nil)"; "panic(err)"])
].

Definition expected_db_durable : list (string * list string) := [
  ("DB.Del", ["db.pebbleDB.Delete(key, pebble.Sync)"; "panic(err)"]);
  ("DB.DropAll", ["db.pebbleDB.DeleteRange([]byte{0}, []byte{255}, pebble.NoSync)"; "panic(err)"]);
  ("DB.NewBatch", ["db.pebbleDB.NewBatch()"; "new(sync.Mutex)"]);
  ("DB.Set", ["db.pebbleDB.Set(key, value, pebble.Sync)"; "panic(err)"]);
  ("DB.Write", ["db.pebbleDB.Apply(batch.inner, pebble.Sync)"; "panic(err)"])
].

Definition expected_inner_users : list string := ["Batch.Del"; "Batch.Set"; "DB.NewBatch"; "DB.Write"].

(* substring test *)
Fixpoint contains (needle hay : string) : bool :=
  if prefix needle hay then true
  else match hay with EmptyString => false | String _ rest => contains needle rest end.

Definition durable_words : list string := ["Commit("; "Apply("; "Write("; "Sync"; "Flush("; "Reset("; "pebbleDB"; "database"].
Definition stage_only (m : string * list string) : bool :=
  forallb (fun call => negb (existsb (fun w => contains w call) durable_words)) (snd m).

(* DB.Write: exactly one call reaching pebble, and it is Apply of the whole batch with Sync *)
Definition write_once_sync (l : list (string * list string)) : bool :=
  match filter (fun m => String.eqb (fst m) "DB.Write") l with
  | [(_, calls)] =>
    match filter (contains "pebbleDB") calls with
    | [c] => String.eqb c "db.pebbleDB.Apply(batch.inner, pebble.Sync)"
    | _ => false
    end
  | _ => false
  end.
