(* Non-vacuity of Chain.History: a concrete diff codec with a proved round trip (length-prefixed byte strings)
   and a closed example: a nested history (apply B1, apply B2 on top, delete B2, delete B1 keeping it as temp
   block) that satisfies every side condition of [history_restores] and runs to completion. *)
From Coq Require Import List NArith ZArith Bool Lia.
From LE Require Import Base.Lex Store.SMap Store.PebbleIter Store.PebbleIterProofs Store.DiffDB Store.DiffDBRefine
  Chain.BlockStore Chain.BlockStoreProofs Chain.Reorg Chain.History.
Import ListNotations.
Local Open Scope N_scope.

(* ---- a codec ---- *)
Definition enc_bytes (b : list N) : list N := N.of_nat (length b) :: b.
Definition dec_bytes (l : list N) : option (list N * list N) :=
  match l with
  | [] => None
  | n :: t => if Nat.leb (N.to_nat n) (length t) then Some (firstn (N.to_nat n) t, skipn (N.to_nat n) t) else None
  end.
Fixpoint dec_n (n : nat) (l : list N) : option (list (list N) * list N) :=
  match n with
  | O => Some ([], l)
  | S n' => match dec_bytes l with
            | None => None
            | Some (b, r) => match dec_n n' r with None => None | Some (bs, r') => Some (b :: bs, r') end
            end
  end.
Definition enc_list (bs : list (list N)) : list N := N.of_nat (length bs) :: flat_map enc_bytes bs.
Definition dec_list (l : list N) : option (list (list N) * list N) :=
  match l with [] => None | n :: t => dec_n (N.to_nat n) t end.
Definition flat (kvs : list kv) : list (list N) := flat_map (fun x => [fst x; snd x]) kvs.
Fixpoint unflat (l : list (list N)) : option (list kv) :=
  match l with
  | [] => Some []
  | k :: t => match t with
              | [] => None
              | v :: t' => match unflat t' with None => None | Some r => Some ((k, v) :: r) end
              end
  end.

Definition encode_diff (d : diff) : val :=
  enc_list (d_added d) ++ enc_list (flat (d_updated d)) ++ enc_list (flat (d_deleted d)).
Definition decode_diff (l : val) : option diff :=
  match dec_list l with
  | None => None
  | Some (a, r1) =>
      match dec_list r1 with
      | None => None
      | Some (u, r2) =>
          match dec_list r2 with
          | None => None
          | Some (dl, r3) =>
              match r3, unflat u, unflat dl with
              | [], Some u', Some d' => Some {| d_added := a; d_updated := u'; d_deleted := d' |}
              | _, _, _ => None
              end
          end
      end
  end.

Lemma dec_enc_bytes : forall b r, dec_bytes (enc_bytes b ++ r) = Some (b, r).
Proof.
  intros b r. unfold enc_bytes, dec_bytes. simpl. rewrite Nat2N.id. rewrite app_length.
  assert (E : Nat.leb (length b) (length b + length r) = true) by (apply Nat.leb_le; lia). rewrite E.
  rewrite firstn_app, Nat.sub_diag, firstn_all, skipn_app, Nat.sub_diag, skipn_all. simpl. rewrite app_nil_r. reflexivity.
Qed.

Lemma dec_n_enc : forall bs r, dec_n (length bs) (flat_map enc_bytes bs ++ r) = Some (bs, r).
Proof.
  induction bs as [|b bs IH]; intros r; [reflexivity|].
  cbn [length flat_map dec_n]. rewrite <- app_assoc, dec_enc_bytes, IH. reflexivity.
Qed.

Lemma dec_enc_list : forall bs r, dec_list (enc_list bs ++ r) = Some (bs, r).
Proof. intros. unfold enc_list, dec_list. simpl. rewrite Nat2N.id. apply dec_n_enc. Qed.

Lemma unflat_flat : forall kvs, unflat (flat kvs) = Some kvs.
Proof.
  induction kvs as [|[k v] t IH]; [reflexivity|].
  change (flat ((k, v) :: t)) with (k :: v :: flat t). cbn [unflat]. rewrite IH. reflexivity.
Qed.

Theorem codec_roundtrip : forall d, decode_diff (encode_diff d) = Some d.
Proof.
  intros [a u dl]. unfold decode_diff, encode_diff. cbn [d_added d_updated d_deleted].
  rewrite dec_enc_list, dec_enc_list. rewrite <- (app_nil_r (enc_list (flat dl))). rewrite dec_enc_list.
  rewrite !unflat_flat. reflexivity.
Qed.

(* ---- deciding the side conditions on concrete data ---- *)
Lemma wf_db_b : forall db, forallb (fun x => wf_keyb (fst x)) db = true -> wf_db db.
Proof. intros db H x Hx. apply wf_keyb_spec. rewrite forallb_forall in H. apply (H x Hx). Qed.

Lemma fresh_b : forall db ks, forallb (fun k => match lookup db k with None => true | Some _ => false end) ks = true -> fresh db ks.
Proof.
  intros db ks H k Hk. rewrite forallb_forall in H. specialize (H k Hk). destruct (lookup db k); [discriminate|reflexivity].
Qed.

Definition prog_of (ops : list op) : prog := fun acc => nth_error ops (length acc).
Lemma prog_of_wf : forall ops, Forall op_wf ops -> prog_wf (prog_of ops).
Proof.
  intros ops H acc o E. unfold prog_of in E. apply nth_error_In in E. rewrite Forall_forall in H. auto.
Qed.

(* ---- the example ---- *)
Definition db0 : smap := [([4;0;0;0;1],[7]); ([10;97],[1]); ([27],[0;0;0;1])].
Definition ex_keep : Z := 300%Z.
Definition a1 : apply_in :=
  {| a_prog := prog_of [OGet 0%nat [97]; OSet 0%nat [98] [5]; ODel 0%nat [97]]; a_fuel := 5;
     a_blk := Build_blk [8;8] 2 [100] [([9;9],[101])] None [102]; a_events := Some [104]; a_fh := 1; a_rt := false;
     a_prune := None |}.
Definition a2 : apply_in :=
  {| a_prog := prog_of [ORange 0%nat [] [255] (-1)%Z false; OSet 0%nat [98] [6]; OSet 0%nat [99] [9]; ODel 0%nat [99]]; a_fuel := 5;
     a_blk := Build_blk [8;9] 3 [110] [] (Some [111]) [112]; a_events := None; a_fh := 1; a_rt := true;
     a_prune := None |}.
Definition ex_hist : hist := HSpan a1 (HSpan a2 HNil false HNil) true HNil.

Example history_example :
  hist_ok encode_diff decode_diff ex_keep ex_hist db0 /\
  run_hist encode_diff decode_diff ex_keep ex_hist db0
    = Some [([4;0;0;0;1],[7]); ([7;0;0;0;2],[102]); ([10;97],[1]); ([27],[0;0;0;1])] /\
  (* the state in the middle really differs: both blocks applied *)
  do_apply encode_diff ex_keep a2 (do_apply encode_diff ex_keep a1 db0)
    = [([3;8;8],[100]); ([3;8;9],[110]); ([4;0;0;0;1],[7]); ([4;0;0;0;2],[8;8]); ([4;0;0;0;3],[8;9]);
       ([5;8;8],[9;9]); ([6;9;9],[101]); ([8;8;9],[111]); ([9;0;0;0;2],[104]); ([10;98],[6]); ([27],[0;0;0;1]);
       ([51;0;0;0;2],[1;2;10;98;0;2;2;10;97;1;1]); ([51;0;0;0;3],[0;2;2;10;98;1;5;0])].
Proof.
  split; [|split; vm_compute; reflexivity].
  cbn [hist_ok ex_hist]. split; [apply wf_db_b; vm_compute; reflexivity|].
  split; [apply prog_of_wf; repeat constructor|].
  split; [apply fresh_b; vm_compute; reflexivity|].
  split; [vm_compute; reflexivity|].
  split.
  - split; [apply wf_db_b; vm_compute; reflexivity|].
    split; [apply prog_of_wf; repeat constructor|].
    split; [apply fresh_b; vm_compute; reflexivity|].
    split; [vm_compute; reflexivity|].
    split; [exact I|]. intros; exact I.
  - intros; exact I.
Qed.
