(* The enumerated exceptions of C05 are confined to the finalized part of the chain: apart from the finalized-height
   marker and the temp record of the block's height, every exception key is an event record of a height <= the
   finalized height passed to saveBlock or a diff record of a height < it.  Hence deleting the tip restores every
   record that is not about finalized heights. *)
From Coq Require Import List NArith ZArith Bool Lia.
From LE Require Import Base.Lex Store.SMap Store.PebbleIter Store.PebbleIterProofs Store.DiffDB Store.DiffDBProofs Store.Diff
  Chain.BlockStore Chain.BlockStoreProofs Chain.U32.
Import ListNotations.
Local Open Scope N_scope.

(* event records of heights 0..fh (the IterateRange bounds) and diff records of heights < fh *)
Definition below_finalized (fh : N) (k : key) : bool :=
  (leb (kEvents 0) k && leb k (kEvents fh)) || (is_prefix [pfxStateDiff] k && (u32_of (tl k) <? fh)).

Lemma kEvents_mono : forall m fh, m < 4294967296 -> fh < 4294967296 -> m <= fh -> leb (kEvents m) (kEvents fh) = true.
Proof.
  intros m fh Hm Hf Hle. unfold kEvents.
  change (pfxBlockHeightToEvents :: u32be m) with ([pfxBlockHeightToEvents] ++ u32be m).
  change (pfxBlockHeightToEvents :: u32be fh) with ([pfxBlockHeightToEvents] ++ u32be fh).
  rewrite leb_app, u32be_leb by auto. apply N.leb_le. exact Hle.
Qed.

Lemma ev_bound_le : forall fh h keep m, ev_bound fh h keep = Some m -> m <= fh.
Proof.
  intros fh h keep m H. unfold ev_bound in H. destruct ((keep >? -1)%Z && (min_event_delete fh h keep >? 0)%Z); [|discriminate].
  inversion H; subst. unfold min_event_delete. lia.
Qed.

Theorem exception_within_finalized : forall fh h keep prune k, fh < 4294967296 ->
  (forall m, prune = Some m -> m <= fh) ->
  exception (ev_bound fh h keep) prune [h] k = true ->
  keqb k kFinalized || keqb k (kTemp h) || below_finalized fh k = true.
Proof.
  intros fh h keep prune k Hf Hp He. unfold exception in He. simpl existsb in He. rewrite orb_false_r in He.
  apply orb_true_iff in He. destruct He as [He|Hd].
  - apply orb_true_iff in He. destruct He as [He|Hev].
    + rewrite He. reflexivity.
    + destruct (ev_bound fh h keep) as [m|] eqn:Em; [|discriminate].
      pose proof (ev_bound_le _ _ _ _ Em) as Hle. apply andb_true_iff in Hev. destruct Hev as [A B].
      assert (C : leb k (kEvents fh) = true).
      { eapply leb_trans; [exact B|]. apply kEvents_mono; auto. lia. }
      unfold below_finalized. rewrite A, C. simpl. rewrite !orb_true_r. reflexivity.
  - destruct prune as [m|]; [|discriminate]. specialize (Hp m eq_refl). apply andb_true_iff in Hd. destruct Hd as [A B].
    apply N.ltb_lt in B. assert (C : (u32_of (tl k) <? fh) = true) by (apply N.ltb_lt; lia).
    unfold below_finalized. rewrite A, C. simpl. rewrite !orb_true_r. reflexivity.
Qed.

(* the deleteBlock batch restores every key that is neither the marker, nor the temp record of the block's height, nor
   a record about a finalized height *)
Corollary delete_inverts_apply_above_finalized : forall db c diff_enc prune b events fh rt keep st k,
  sorted db -> wf_db db -> Inv db c -> cache_pref [pfxState] c ->
  fresh db (kDiff (b_height b) :: block_keys b) ->
  fh < 4294967296 -> (forall m, prune = Some m -> m <= fh) ->
  k <> kFinalized -> k <> kTemp (b_height b) -> below_finalized fh k = false ->
  lookup (apply_writes (delete_batch (diff_of c) b st)
           (apply_writes (apply_batch db c diff_enc prune b events fh rt keep) db)) k = lookup db k.
Proof.
  intros db c diff_enc prune b events fh rt keep st k Hs Hw HI Hpref Hfresh Hf Hp N1 N2 Hb.
  apply delete_inverts_apply; auto.
  destruct (exception (ev_bound fh (b_height b) keep) prune [b_height b] k) eqn:E; auto.
  apply exception_within_finalized in E; auto.
  rewrite (proj2 (keqb_neq _ _) N1), (proj2 (keqb_neq _ _) N2), Hb in E. discriminate.
Qed.

Lemma kFinalized_not_block_key : forall b, ~ In kFinalized (block_keys b).
Proof.
  intros b H. unfold block_keys in H. repeat (apply in_app_iff in H; destruct H as [H|H]).
  - destruct H as [H|[H|[]]]; discriminate H.
  - destruct (b_txs b); [contradiction|]. apply in_app_iff in H. destruct H as [H|[H|[]]]; [|discriminate H].
    apply in_map_iff in H. destruct H as (x & H & _). discriminate H.
  - destruct (b_assets b); [|contradiction]. destruct H as [H|[]]. discriminate H.
  - destruct H as [H|[]]. discriminate H.
Qed.

(* the deleteBlock batch never addresses the finalized-height marker: deleting blocks cannot lower it *)
Theorem delete_keeps_marker : forall db c b st, sorted db -> cache_pref [pfxState] c ->
  lookup (apply_writes (delete_batch (diff_of c) b st) db) kFinalized = lookup db kFinalized.
Proof.
  intros db c b st Hs Hpref. rewrite lookup_apply_writes by auto. apply fapply_notin.
  unfold delete_batch. rewrite !map_app. intros Hin. apply in_app_iff in Hin. destruct Hin as [Hin|Hin].
  - apply in_map_iff in Hin. destruct Hin as ([k1 ov] & Ek & Hin). simpl in Ek. subst k1.
    apply in_revert_writes in Hin. destruct Hin as (e & Hc & _). specialize (Hpref _ Hc). simpl in Hpref. discriminate.
  - apply in_app_iff in Hin. destruct Hin as [[E|[]]|Hin]; [discriminate E|].
    rewrite remove_block_keys in Hin. apply in_app_iff in Hin. destruct Hin as [Hin|Hin].
    + eapply kFinalized_not_block_key; eauto.
    + destruct st; [|contradiction]. destruct Hin as [E|[]]. discriminate E.
Qed.
