(* C04 — proofs over ALL operation sequences of Chain/Finality.v *)
From Coq Require Import List NArith Bool Lia Arith.
From LE Require Import Chain.Finality.
Import ListNotations.
Local Open Scope N_scope.

Lemma inv_init : forall g, Inv (init g).
Proof. intros g; unfold Inv, init; cbn -[firstn N.of_nat nth_error]; lia. Qed.

Lemma inv_step : forall s o, Inv s -> Inv (step s o).
Proof.
  intros s o [Hc Hp]. destruct o as [id ok p rt|h0 save env| |]; cbn -[firstn N.of_nat nth_error].
  - destruct ok; cbn -[firstn N.of_nat nth_error]; [|split; assumption].
    unfold Inv; cbn -[firstn N.of_nat nth_error]. rewrite app_length, firstn_length; cbn -[firstn N.of_nat nth_error]. lia.
  - destruct (_ <=? _); [split; congruence|]. destruct (_ <? _); cbn -[firstn N.of_nat nth_error]; [|split; congruence].
    destruct env; cbn -[firstn N.of_nat nth_error]; [|split; congruence].
    destruct (cache_len s) as [|n] eqn:E; [split; congruence|].
    destruct n as [|n]; [split; congruence|].
    destruct (nth_error (chain s) (S n)) eqn:En; [|split; congruence].
    unfold Inv; cbn -[firstn]. rewrite firstn_length. split; lia.
  - unfold Inv; cbn -[firstn N.of_nat nth_error]. split; lia.
  - unfold Inv; cbn -[firstn N.of_nat nth_error]. split; assumption.
Qed.

Lemma inv_run : forall ops s, Inv s -> Inv (run s ops).
Proof. induction ops as [|o ops IH]; intros s H; cbn -[firstn N.of_nat nth_error]; auto. apply IH, inv_step, H. Qed.

(* ---- monotonicity ---- *)
Lemma fin_step_mono : forall s o, fin s <= fin (step s o).
Proof.
  intros s o. destruct o as [id ok p rt|h0 save env| |]; cbn -[firstn N.of_nat nth_error]; try lia.
  - destruct ok; cbn -[firstn N.of_nat nth_error]; [|lia]. destruct (fin s <? p) eqn:E; [apply N.ltb_lt in E; lia|lia].
  - destruct (_ <=? _); [lia|]. destruct (_ <? _); cbn -[firstn N.of_nat nth_error]; [|lia].
    destruct env; cbn -[firstn N.of_nat nth_error]; [|lia]. destruct (cache_len s) as [|n]; [lia|].
    destruct n; [lia|]. destruct (nth_error _ _); cbn -[firstn N.of_nat nth_error]; lia.
Qed.

Theorem finalized_monotone : forall ops s, fin s <= fin (run s ops).
Proof.
  induction ops as [|o ops IH]; intros s; cbn -[firstn N.of_nat nth_error]; [lia|].
  pose proof (fin_step_mono s o). specialize (IH (step s o)). unfold run in IH. lia.
Qed.

(* ---- finalized blocks are never removed or replaced ---- *)
Lemma nth_error_firstn_lt : forall A (l : list A) n k, (k < n)%nat -> nth_error (firstn n l) k = nth_error l k.
Proof.
  intros A l; induction l as [|a l IH]; intros n k H.
  - now rewrite firstn_nil.
  - destruct n; [lia|]. destruct k; cbn -[firstn N.of_nat nth_error]; auto. apply IH. lia.
Qed.

Lemma ids_step_stable : forall s o h x, Inv s -> h <= fin s ->
  block_at s h = Some x -> block_at (step s o) h = Some x.
Proof.
  intros s o h x [Hc Hp] Hh Hx. unfold block_at in *.
  assert (Hlt : (N.to_nat h < length (chain s))%nat) by (apply nth_error_Some; congruence).
  destruct o as [id ok p rt|h0 save env| |]; cbn -[firstn N.of_nat nth_error]; auto.
  - destruct ok; cbn -[firstn N.of_nat nth_error]; auto. rewrite Hc, firstn_all, nth_error_app1; auto.
  - destruct (h0 <=? fin s) eqn:Eg; auto. apply N.leb_gt in Eg.
    destruct (h0 <? N.of_nat (cache_len s)) eqn:El; cbn -[firstn N.of_nat nth_error]; auto. apply N.ltb_lt in El.
    destruct env; cbn -[firstn N.of_nat nth_error]; auto. destruct (cache_len s) as [|n] eqn:E; auto. destruct n as [|n]; auto.
    destruct (nth_error (chain s) (S n)); cbn -[firstn N.of_nat nth_error]; auto.
    rewrite nth_error_firstn_lt; auto. lia.
Qed.

Theorem finalized_ids_stable : forall ops s h x, Inv s -> h <= fin s ->
  block_at s h = Some x -> block_at (run s ops) h = Some x.
Proof.
  induction ops as [|o ops IH]; intros s h x Hi Hh Hx; cbn -[firstn N.of_nat nth_error]; auto.
  apply IH.
  - now apply inv_step.
  - pose proof (fin_step_mono s o). lia.
  - now apply ids_step_stable.
Qed.

(* whatever is finalized at any later point of a history stays the same from then on *)
Corollary finalized_ids_stable_history : forall ops1 ops2 s h x, Inv s ->
  h <= fin (run s ops1) -> block_at (run s ops1) h = Some x -> block_at (run s (ops1 ++ ops2)) h = Some x.
Proof.
  intros ops1 ops2 s h x Hi Hh Hx. unfold run. rewrite fold_left_app.
  apply finalized_ids_stable; auto. now apply inv_run.
Qed.

(* ---- the stored finalized height tracks maxHeightPrecommited, in the block's own step ---- *)
Theorem finalized_tracks_precommit : forall s id p rt, Inv s ->
  let s' := step s (Apply id true p rt) in
  fin s' = N.max (fin s) p /\ chain s' = chain s ++ [id] /\ block_at s' (N.of_nat (length (chain s))) = Some id.
Proof.
  intros s id p rt [Hc Hp]; cbn -[firstn N.of_nat nth_error]. rewrite Hc, firstn_all. repeat split.
  - destruct (fin s <? p) eqn:E; [apply N.ltb_lt in E|apply N.ltb_ge in E]; lia.
  - unfold block_at; cbn -[firstn N.of_nat nth_error]. rewrite Nat2N.id, nth_error_app2, Nat.sub_diag; auto.
Qed.

Theorem finalized_changes_only_on_accept : forall s o,
  fin (step s o) <> fin s -> exists id p rt, o = Apply id true p rt /\ fin s < p /\ fin (step s o) = p.
Proof.
  intros s o H. destruct o as [id ok p rt|h0 save env| |]; cbn -[firstn N.of_nat nth_error] in *; try congruence.
  - destruct ok; cbn -[firstn N.of_nat nth_error] in *; [|congruence]. destruct (fin s <? p) eqn:E; [|congruence].
    apply N.ltb_lt in E. exists id, p, rt. auto.
  - destruct (_ <=? _); [congruence|]. destruct (_ <? _); cbn -[firstn N.of_nat nth_error] in *; [|congruence].
    destruct env; cbn -[firstn N.of_nat nth_error] in *; [|congruence]. destruct (cache_len s) as [|n]; [congruence|].
    destruct n; [congruence|]. destruct (nth_error _ _); cbn -[firstn N.of_nat nth_error] in *; congruence.
Qed.

(* ---- a finalize event is published exactly for the raises ---- *)
Lemma finalizes_app : forall a b, finalizes (a ++ b) = finalizes a ++ finalizes b.
Proof. intros; unfold finalizes. now rewrite flat_map_app. Qed.

Lemma finalize_event_step : forall s o,
  finalizes (emitted (step s o)) = finalizes (emitted s) ++ (if fin s <? fin (step s o) then [(fin s, fin (step s o))] else []).
Proof.
  intros s o. destruct o as [id ok p rt|h0 save env| |]; cbn -[firstn N.of_nat nth_error]; rewrite ?N.ltb_irrefl, ?app_nil_r; auto.
  - destruct ok; cbn -[firstn N.of_nat nth_error]; [|now rewrite N.ltb_irrefl, app_nil_r].
    rewrite !finalizes_app. destruct (fin s <? p) eqn:E; cbn -[firstn N.of_nat nth_error].
    + now rewrite E.
    + now rewrite N.ltb_irrefl.
  - destruct (_ <=? _); [now rewrite N.ltb_irrefl, app_nil_r|].
    destruct (_ <? _); cbn -[firstn N.of_nat nth_error]; [|now rewrite N.ltb_irrefl, app_nil_r].
    destruct env; cbn -[firstn N.of_nat nth_error]; [|now rewrite N.ltb_irrefl, app_nil_r].
    destruct (cache_len s) as [|n]; [now rewrite N.ltb_irrefl, app_nil_r|].
    destruct n; [now rewrite N.ltb_irrefl, app_nil_r|].
    destruct (nth_error _ _); cbn -[firstn N.of_nat nth_error]; rewrite N.ltb_irrefl, ?finalizes_app; cbn -[firstn N.of_nat nth_error]; now rewrite app_nil_r.
Qed.

Theorem finalize_event_iff_raise : forall ops s,
  finalizes (emitted (run s ops)) = finalizes (emitted s) ++ raises s ops.
Proof.
  induction ops as [|o ops IH]; intros s; cbn -[firstn N.of_nat nth_error]; [now rewrite app_nil_r|].
  unfold run in IH. rewrite IH, finalize_event_step, app_assoc. reflexivity.
Qed.

(* every raise recorded along a run is a strict increase starting from the then-current value: events chain up *)
Theorem raises_strict : forall ops s o n, In (o, n) (raises s ops) -> o < n.
Proof.
  induction ops as [|x ops IH]; intros s o n H; cbn -[firstn N.of_nat nth_error] in H; [contradiction|].
  apply in_app_or in H. destruct H as [H|H]; [|eapply IH; eauto].
  destruct (fin s <? fin (step s x)) eqn:E; [|contradiction].
  destruct H as [H|[]]. inversion H; subst. now apply N.ltb_lt.
Qed.

(* deletions never go at or below the finalized height: whatever the request, the block removed is the tip and it is
   strictly above the finalized height *)
Theorem delete_respects_finality : forall s h save env id,
  In (FDelete id) (emitted (step s (Delete h save env))) -> ~ In (FDelete id) (emitted s) ->
  let n := length (chain (step s (Delete h save env))) in
  fin s < N.of_nat n /\ (Inv s -> block_at s (N.of_nat n) = Some id /\ length (chain s) = S n).
Proof.
  intros s h save env id Hin Hn. cbn -[firstn N.of_nat nth_error] in *.
  destruct (h <=? fin s) eqn:Eg; [contradiction|]. apply N.leb_gt in Eg.
  destruct (h <? N.of_nat (cache_len s)) eqn:El; cbn -[firstn N.of_nat nth_error] in *; [|contradiction]. apply N.ltb_lt in El.
  destruct env; cbn -[firstn N.of_nat nth_error] in *; [|contradiction].
  destruct (cache_len s) as [|n] eqn:Ec; [contradiction|]. destruct n as [|n]; [contradiction|].
  destruct (nth_error (chain s) (S n)) eqn:En; [|contradiction]. cbn -[firstn N.of_nat nth_error] in *.
  apply in_app_or in Hin. destruct Hin as [Hin|[Hin|[]]]; [contradiction|]. inversion Hin; subst.
  assert (Hl : (S n < length (chain s))%nat) by (apply nth_error_Some; rewrite En; discriminate).
  rewrite firstn_length, Nat.min_l by lia. split; [lia|].
  intros [Hc _]. unfold block_at. rewrite Nat2N.id. split; [exact En|lia].
Qed.
