(* C13 — finite databases (association lists) and the executable twin of [Consistent]; used by the correspondence. *)
From Coq Require Import List NArith Bool.
From LE Require Import Chain.Crash.
Import ListNotations.
Local Open Scope N_scope.

Definition ldb := list (key * N).
Fixpoint lget (l : ldb) (k : key) : option N :=
  match l with [] => None | (k', v) :: r => if key_eqb k k' then Some v else lget r k end.
Definition opt_eqb (a b : option N) : bool :=
  match a, b with Some x, Some y => x =? y | None, None => true | _, _ => false end.
Definition is_some (o : option N) : bool := match o with Some _ => true | None => false end.

Definition entry_ok (l : ldb) (e : key * N) : bool :=
  match fst e with
  | KIdx h => opt_eqb (lget l (KHeader (snd e))) (Some h)
              && (if h =? 0 then true else is_some (lget l (KIdx (h - 1))))
  | KDiff h => is_some (lget l (KIdx h))
  | _ => true
  end.

Definition consistent_b (l : ldb) : bool :=
  forallb (entry_ok l) l
  && match lget l KTipMark with
     | Some t => is_some (lget l (KIdx t)) && negb (is_some (lget l (KIdx (t + 1))))
     | None => false
     end.

Definition restore_safe_b (l : ldb) (h id : N) : bool :=
  opt_eqb (lget l (KIdx h)) (Some id) || is_some (lget l (KTemp h)).

(* executable twin of [Consistent2]; hbl = the IDs of the blocks that have a payload *)
Definition has_body_in (hbl : list N) (id : N) : bool := existsb (N.eqb id) hbl.
Definition consistent2_b (hbl : list N) (l : ldb) : bool :=
  consistent_b l
  && match lget l KFin, lget l KTipMark with
     | Some f, Some t =>
       (f <=? t)
       && forallb (fun k => is_some (lget l (KDiff (f + 1 + N.of_nat k)))) (seq 0 (N.to_nat (t - f)))
     | _, _ => false
     end
  && forallb (fun e => match fst e with
                       | KIdx _ => if has_body_in hbl (snd e) then is_some (lget l (KBody (snd e))) else true
                       | _ => true
                       end) l.
